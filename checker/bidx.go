package main

// bidx.go — driver for rule B-IDX: every index / slice / make site of the given
// functions is in bounds. Discharged by (1) the Go compiler's prove pass
// (check_bce debug output, sites joined on the '[' position) or (2) LinBounds.

import (
	"bufio"
	"fmt"
	"go/token"
	"go/types"
	"os"
	"os/exec"
	"path/filepath"
	"regexp"
	"sort"
	"strconv"
	"strings"
	"time"

	"golang.org/x/tools/go/ssa"
)

type bceOracle struct {
	remaining map[string]bool // "relfile:line:col" with a bounds check left by the compiler
	ok        map[string]bool // package dirs successfully compiled
}

var bceCache *bceOracle

var bceLine = regexp.MustCompile(`^(.*\.go):(\d+):(\d+): Found (IsInBounds|IsSliceInBounds)`)

func getBCE(p *Prog) *bceOracle {
	if bceCache != nil {
		return bceCache
	}
	o := &bceOracle{remaining: map[string]bool{}, ok: map[string]bool{}}
	bceCache = o
	if os.Getenv("GMSMCHECK_NOBCE") != "" {
		return o
	}
	var dirs []string
	for d := range p.Pkgs {
		dirs = append(dirs, d)
	}
	sort.Strings(dirs)
	args := []string{"build", "-gcflags=-d=ssa/check_bce/debug=1"}
	for _, d := range dirs {
		args = append(args, "./"+d)
	}
	cmd := exec.Command("go", args...)
	cmd.Dir = repoDir
	cmd.Env = append(os.Environ(), "GOFLAGS=-mod=mod", "GOPROXY=off", "GOSUMDB=off", "GOTOOLCHAIN=local", "GOOS=linux", "GOARCH=amd64", "GOWORK=off")
	out, err := cmd.CombinedOutput()
	if err != nil {
		// compile error: oracle unavailable (the loader will have reported type errors)
		return o
	}
	sc := bufio.NewScanner(strings.NewReader(string(out)))
	sc.Buffer(make([]byte, 1<<20), 1<<24)
	for sc.Scan() {
		m := bceLine.FindStringSubmatch(sc.Text())
		if m == nil {
			continue
		}
		f := filepath.Clean(m[1])
		o.remaining[f+":"+m[2]+":"+m[3]] = true
	}
	for _, d := range dirs {
		o.ok[d] = true
	}
	return o
}

// compilerProved: the compiler left no bounds check at this site's '[' position.
func (o *bceOracle) compilerProved(p *Prog, pos token.Pos, pkg string) bool {
	if !pos.IsValid() || !o.ok[pkg] {
		return false
	}
	ps := p.Fset.Position(pos)
	r, err := filepath.Rel(repoDir, ps.Filename)
	if err != nil {
		return false
	}
	return !o.remaining[filepath.Clean(r)+":"+strconv.Itoa(ps.Line)+":"+strconv.Itoa(ps.Column)]
}

// bidxFilter, when set, restricts a bidx run to the sites it accepts (keys keep their function-wide ordinals)
var bidxFilter func(in ssa.Instruction) bool

type bidxStats struct{ sites, compiler, lin, unproved int }

// bidx checks all sites of the functions; exempt maps site keys to reasons (one named construct each).
func bidx(c *Ctx, rule string, funcs []*ssa.Function, exempt map[string]string) bidxStats {
	var st bidxStats
	o := getBCE(c.P)
	for _, f := range funcs {
		if f == nil || f.Blocks == nil {
			continue
		}
		c.Analysed[fname(f)] = true
		t0 := time.Now()
		lb := &LB{p: c.P, f: f, UsedContracts: map[string]bool{}, ovf: lbOvfMode}
		cfacts, cdesc := callerFacts(c.P, f)
		lb.extra = cfacts
		names := map[ssa.Value]string{}
		for _, p := range f.Params {
			names[p] = pname(p)
		}
		ord := map[string]int{}
		pkg := ""
		if f.Pkg != nil {
			pkg = rel(f.Pkg.Pkg.Path())
		} else if f.Parent() != nil && f.Parent().Pkg != nil {
			pkg = rel(f.Parent().Pkg.Pkg.Path())
		}
		for _, s := range lb.sitesOf(f) {
			c.Evals++
			st.sites++
			env := newCanon(names)
			env.bool3 = false
			desc := s.Kind + " " + siteDesc(env, s.Instr)
			ord[desc]++
			construct := fmt.Sprintf("%s #%d", desc, ord[desc])
			if len(construct) > 200 {
				construct = construct[:200]
			}
			if s.Kind == "make" && makeFromConfig(s.Instr.(*ssa.MakeSlice).Len) {
				st.sites--
				continue
			}
			if bidxFilter != nil && !bidxFilter(s.Instr) {
				st.sites--
				c.Evals--
				continue
			}
			if o.compilerProved(c.P, s.Instr.Pos(), pkg) && s.Kind != "make" {
				st.compiler++
				c.Holds(rule, fname(f), construct, "in bounds (compiler prove pass)", s.Instr.Pos())
				continue
			}
			if lb.proveSite(s) {
				st.lin++
				d := "in bounds (LinBounds)"
				if len(cfacts) > 0 {
					d = "in bounds (LinBounds; facts proven at every call site: " + cdesc + ")"
				}
				c.Holds(rule, fname(f), construct, d, s.Instr.Pos())
				continue
			}
			st.unproved++
			key := rule + "|" + fname(f) + "|" + construct
			if why, ok := exempt[key]; ok {
				c.Notes = append(c.Notes, "exempt "+key+": "+why)
				continue
			}
			// long constructs: an exemption key ending in * matches by prefix (still one named site)
			matched := false
			for ek, why := range exempt {
				if strings.HasSuffix(ek, "*") && strings.HasPrefix(key, strings.TrimSuffix(ek, "*")) {
					c.Notes = append(c.Notes, "exempt "+key+": "+why)
					matched = true
					break
				}
			}
			if matched {
				continue
			}
			// a function-level exemption for every site whose indexed value is (a re-slice of) one named parameter
			if bp := siteBaseParam(s.Instr); bp != "" {
				if why, ok := exempt[rule+"|"+fname(f)+"|@base:"+bp]; ok {
					c.Notes = append(c.Notes, "exempt "+key+": "+why)
					continue
				}
			}
			// a function-level exemption for the second pass of a two-pass parse: the site lies in a loop that comes
			// after (is dominated by the header of, without being nested in) an earlier loop of the same function
			if why, ok := exempt[rule+"|"+fname(f)+"|@second-pass"]; ok && inSecondPassLoop(f, s.Instr.Block()) {
				c.Notes = append(c.Notes, "exempt "+key+": "+why)
				continue
			}
			if helperContext[fname(f)] {
				buildCallIndex(c.P)
				if len(callSiteIndex[f]) == 0 {
					// a helper that this property analyses only in the context of its callers, and nothing calls it any more
					c.Undecided(rule, fname(f), construct, "the helper is analysed in the context of its callers only and the module no longer calls it: no precondition to check the site against", s.Instr.Pos())
					continue
				}
			}
			c.Violated(rule, fname(f), construct, "no dominating guard proves this "+s.Kind+" in bounds for every input (not discharged by the compiler's prove pass nor by LinBounds)", s.Instr.Pos())
		}
		if d := time.Since(t0); d > time.Second {
			dbg("bidx %s took %v", fname(f), d)
		}
	}
	return st
}

func siteDesc(env *canonEnv, in ssa.Instruction) string {
	switch x := in.(type) {
	case *ssa.IndexAddr:
		return env.canonBase(x.X).String() + "[" + env.canonIdx(x.Index).String() + "]"
	case *ssa.Index:
		return env.canon(x.X).String() + "[" + env.canonIdx(x.Index).String() + "]"
	case *ssa.Slice:
		lo, hi := "", ""
		if x.Low != nil {
			lo = env.canonIdx(x.Low).String()
		}
		if x.High != nil {
			hi = env.canonIdx(x.High).String()
		}
		return env.canonBase(x.X).String() + "[" + lo + ":" + hi + "]"
	case *ssa.MakeSlice:
		return "make(" + env.canonIdx(x.Len).String() + ")"
	case *ssa.SliceToArrayPointer:
		return "arrayptr(" + env.canon(x.X).String() + ")"
	}
	return "?"
}

// makeFromConfig: the size is computed only from constants and loaded struct fields
// (configuration such as CurveParams.BitSize), not from inputs.
func makeFromConfig(v ssa.Value) bool {
	switch x := v.(type) {
	case *ssa.Const:
		return true
	case *ssa.BinOp:
		return makeFromConfig(x.X) && makeFromConfig(x.Y)
	case *ssa.Convert:
		return makeFromConfig(x.X)
	case *ssa.UnOp:
		if x.Op == token.MUL {
			_, ok := x.X.(*ssa.FieldAddr)
			return ok
		}
	case *ssa.Field:
		return true
	}
	return false
}

var callerFactCache = map[*ssa.Function][]cons{}
var callerFactDesc = map[*ssa.Function]string{}
var callSiteIndex map[*ssa.Function][]ssa.CallInstruction
var addrTaken map[*ssa.Function]bool

func buildCallIndex(p *Prog) {
	if callSiteIndex != nil {
		return
	}
	callSiteIndex = map[*ssa.Function][]ssa.CallInstruction{}
	addrTaken = map[*ssa.Function]bool{}
	for f := range p.AllFns {
		if !inRepo(f) || f.Blocks == nil {
			continue
		}
		instrsOf(f, func(_ *ssa.BasicBlock, in ssa.Instruction) {
			if ci, ok := in.(ssa.CallInstruction); ok {
				if sc := ci.Common().StaticCallee(); sc != nil {
					callSiteIndex[sc] = append(callSiteIndex[sc], ci)
				}
				for _, a := range ci.Common().Args {
					if fn, ok := a.(*ssa.Function); ok {
						addrTaken[fn] = true
					}
				}
				return
			}
			for _, op := range in.Operands(nil) {
				if fn, ok := (*op).(*ssa.Function); ok {
					addrTaken[fn] = true
				}
			}
		})
	}
}

// helperContext: exported functions that a property analyses only in the context of their
// repository callers (internal helpers that happen to be exported). Set by the property.
var helperContext = map[string]bool{}

var callerFactBusy = map[*ssa.Function]bool{}

// callerFacts: constant bounds on integer parameters (0 <= p <= K) and minimum lengths of slice
// parameters (len(p) >= K) of an unexported function (or a declared helper) that every static call
// site in the repository establishes, proved in the caller's context (recursively, depth-limited).
func callerFacts(p *Prog, f *ssa.Function) ([]cons, string) {
	if cf, ok := callerFactCache[f]; ok {
		return cf, callerFactDesc[f]
	}
	if callerFactBusy[f] {
		return nil, ""
	}
	callerFactBusy[f] = true
	defer delete(callerFactBusy, f)
	callerFactCache[f] = nil
	isAnon := f.Parent() != nil
	if !isAnon {
		if f.Object() == nil || f.Signature.Recv() != nil {
			return nil, ""
		}
		if f.Object().Exported() && !helperContext[fname(f)] {
			return nil, ""
		}
	}
	buildCallIndex(p)
	sites := callSiteIndex[f]
	if isAnon {
		// closures: static calls plus calls through the MakeClosure value in the parent
		instrsOf(f.Parent(), func(_ *ssa.BasicBlock, in ssa.Instruction) {
			if ci, ok := in.(ssa.CallInstruction); ok {
				if mc, ok := ci.Common().Value.(*ssa.MakeClosure); ok && mc.Fn == ssa.Value(f) {
					sites = append(sites, ci)
				}
			}
		})
	} else if addrTaken[f] {
		return nil, ""
	}
	if len(sites) == 0 {
		return nil, ""
	}
	var out []cons
	var descs []string
	lbs := map[*ssa.Function]*LB{}
	proveAt := func(cs ssa.CallInstruction, goals []cons) bool {
		caller := cs.Parent()
		lb := lbs[caller]
		if lb == nil {
			lb = &LB{p: p, f: caller, UsedContracts: map[string]bool{}}
			lb.extra, _ = callerFacts(p, caller)
			lbs[caller] = lb
		}
		// facts at call sites are conveniences: a shallow search keeps the cost of the failing candidates down
		return lb.prove(goals, cs.Block(), nil, map[lvar]lin{}, 2)
	}
	cands := []int64{0, 1, 3, 7, 8, 15, 16, 31, 32, 63, 64, 127, 128, 255, 256, 511, 1023, 65535, 1 << 48}
	lens := []int64{64, 32, 16, 8, 4, 2, 1}
	for i, prm := range f.Params {
		if _, _, ok := intKind(prm.Type()); ok {
			// the same constant at every call site (block sizes handed down to helpers)
			if k0, ok := constInt(sites[0].Common().Args[i]); ok || true {
				pinned := false
				tryK := []int64{}
				if ok {
					tryK = append(tryK, k0)
				} else {
					// a pass-through of the caller's own pinned parameter
					cf, _ := callerFacts(p, sites[0].Parent())
					if pp, isP := sites[0].Common().Args[i].(*ssa.Parameter); isP {
						if kk, ok := pinnedIn(cf, pp); ok {
							tryK = append(tryK, kk)
						}
					}
				}
				for _, k := range tryK {
					all := true
					for _, cs := range sites {
						lb := &LB{p: p, f: cs.Parent(), UsedContracts: map[string]bool{}}
						lb.extra, _ = callerFacts(p, cs.Parent())
						if !proveAt(cs, eqc(lb.linOf(cs.Common().Args[i]), linConst(k))) {
							all = false
							break
						}
					}
					if all {
						me := linVar(lvar{0, prm})
						out = append(out, eqc(me, linConst(k))...)
						descs = append(descs, fmt.Sprintf("%s == %d at %d call sites", prm.Name(), k, len(sites)))
						pinned = true
					}
				}
				if pinned {
					continue
				}
			}
			// no bound at all (the largest candidate fails somewhere): skip the ladder
			anyBound := true
			for _, cs := range sites {
				lb := &LB{p: p, f: cs.Parent(), UsedContracts: map[string]bool{}}
				arg := cs.Common().Args[i]
				if !proveAt(cs, []cons{le(lb.linOf(arg), linConst(cands[len(cands)-1]))}) {
					anyBound = false
					break
				}
			}
			for ci, k := range cands {
				if !anyBound {
					if ci > 0 {
						break
					}
					k = cands[len(cands)-1]
				}
				all := true
				for _, cs := range sites {
					lb := &LB{p: p, f: cs.Parent(), UsedContracts: map[string]bool{}}
					arg := cs.Common().Args[i]
					if !proveAt(cs, []cons{le(lb.linOf(arg), linConst(k)), ge(lb.linOf(arg), linConst(0))}) {
						all = false
						break
					}
				}
				if all {
					me := linVar(lvar{0, prm})
					out = append(out, le(me, linConst(k)), ge(me, linConst(0)))
					descs = append(descs, fmt.Sprintf("0 <= %s <= %d at %d call sites", prm.Name(), k, len(sites)))
					break
				}
				if k == cands[len(cands)-1] {
					// no constant upper bound: try the lower bound alone
					for _, lo := range []int64{1, 0} {
						allLo := true
						for _, cs := range sites {
							lb := &LB{p: p, f: cs.Parent(), UsedContracts: map[string]bool{}}
							if !proveAt(cs, []cons{ge(lb.linOf(cs.Common().Args[i]), linConst(lo))}) {
								allLo = false
								break
							}
						}
						if allLo {
							out = append(out, ge(linVar(lvar{0, prm}), linConst(lo)))
							descs = append(descs, fmt.Sprintf("%s >= %d at %d call sites", prm.Name(), lo, len(sites)))
							break
						}
					}
				}
			}
			continue
		}
		if _, isSl := prm.Type().Underlying().(*types.Slice); isSl {
			for _, k := range lens {
				all := true
				exact := true
				for _, cs := range sites {
					lb := &LB{p: p, f: cs.Parent(), UsedContracts: map[string]bool{}}
					arg := cs.Common().Args[i]
					if !proveAt(cs, []cons{ge(lb.lenLin(arg), linConst(k))}) {
						all = false
						break
					}
					if !proveAt(cs, []cons{le(lb.lenLin(arg), linConst(k))}) {
						exact = false
					}
				}
				if all {
					me := linVar(lvar{1, prm})
					out = append(out, ge(me, linConst(k)))
					d := fmt.Sprintf("len(%s) >= %d at %d call sites", prm.Name(), k, len(sites))
					if exact {
						out = append(out, le(me, linConst(k)))
						d = fmt.Sprintf("len(%s) == %d at %d call sites", prm.Name(), k, len(sites))
					}
					descs = append(descs, d)
					break
				}
			}
		}
	}
	callerFactCache[f] = out
	callerFactDesc[f] = strings.Join(descs, "; ")
	return out, callerFactDesc[f]
}

// pinnedIn: facts contain v <= k and v >= k for the same k
func pinnedIn(facts []cons, prm *ssa.Parameter) (int64, bool) {
	v := lvar{0, prm}
	var ups, los []int64
	for _, c := range facts {
		if c.ne || len(c.l.c) != 1 {
			continue
		}
		co, ok := c.l.c[v]
		if !ok {
			continue
		}
		switch co {
		case 1: // v + k <= 0  => v <= -k
			ups = append(ups, -c.l.k)
		case -1: // -v + k <= 0 => v >= k
			los = append(los, c.l.k)
		}
	}
	for _, u := range ups {
		for _, l := range los {
			if u == l {
				return u, true
			}
		}
	}
	return 0, false
}

// inSecondPassLoop: b belongs to a loop whose header is dominated by the header of another loop that does not contain it
func inSecondPassLoop(f *ssa.Function, b *ssa.BasicBlock) bool {
	var headers []*ssa.BasicBlock
	for _, h := range f.Blocks {
		if isLoopHeader(h) {
			headers = append(headers, h)
		}
	}
	for _, h2 := range headers {
		if !loopBlocks(h2)[b] && h2 != b {
			continue
		}
		for _, h1 := range headers {
			if h1 != h2 && h1.Dominates(h2) && !loopBlocks(h1)[h2] {
				return true
			}
		}
	}
	return false
}

// siteBaseParam: the parameter (name from the reference list) that the indexed or sliced value of a bounds site is,
// through re-slices and joins of re-slices; "" when it is anything else
func siteBaseParam(in ssa.Instruction) string {
	var base ssa.Value
	switch x := in.(type) {
	case *ssa.IndexAddr:
		base = x.X
	case *ssa.Index:
		base = x.X
	case *ssa.Slice:
		base = x.X
	default:
		return ""
	}
	seen := map[ssa.Value]bool{}
	var prm *ssa.Parameter
	ok := true
	var walk func(v ssa.Value)
	walk = func(v ssa.Value) {
		if seen[v] || !ok {
			return
		}
		seen[v] = true
		switch y := v.(type) {
		case *ssa.Parameter:
			if prm != nil && prm != y {
				ok = false
			}
			prm = y
		case *ssa.Slice:
			walk(y.X)
		case *ssa.Phi:
			for _, e := range y.Edges {
				walk(e)
			}
		default:
			ok = false
		}
	}
	walk(base)
	if !ok || prm == nil {
		return ""
	}
	return pname(prm)
}
