package main

// C02 — SM2 public-key encryption: layout and formulas of Encrypt/Decrypt,
// rejection of forged / short / off-curve ciphertexts, KDF structure,
// termination on empty input, ASN.1 form.

import (
	"fmt"
	"go/token"
	"strings"

	"golang.org/x/tools/go/ssa"
)

func init() { register("C02", checkC02) }

// abbreviate long canonical sub-forms (longest first)
type abbrevs [][2]string

func (a abbrevs) apply(s string) string {
	for _, kv := range a {
		s = strings.ReplaceAll(s, kv[0], kv[1])
	}
	return s
}

func checkC02(c *Ctx) {
	c.Decided = append(c.Decided,
		"K-C02-encrypt: Encrypt builds 0x04||pad32(x1)||pad32(y1)||SM3(pad32(x2)||M||pad32(y2))||(M xor KDF(len M, pad32(x2), pad32(y2))) with (x1,y1)=[k]G, (x2,y2)=[k]P, k from randFieldElement(curve, random) drawn per attempt; C1C2C3 mode is the same three parts reordered; an all-zero key stream leads back to a fresh k; reader errors are returned",
		"G-C02-empty: the retry loop is not entered for an empty plaintext (termination for length 0)",
		"K-C02-decrypt: Decrypt parses C1||C3||C2 (or the C1C2C3 reordering) at offsets 1/32/64/96, derives (x2,y2)=[d]C1, recomputes M'=C2 xor KDF and u=SM3(pad32(x2)||M'||pad32(y2))",
		"G-C02-c3: Decrypt returns a non-nil error unless u equals C3 (the compared bytes are ciphertext[64:96])",
		"G-C02-oncurve: C1 must pass IsOnCurve before the scalar multiplication with the private key",
		"G-C02-kdfzero: a failing KDF (all-zero stream) is an error in Decrypt",
		"FX-C02-inputs: Encrypt, Decrypt, their ASN.1 variants and the two ciphertext re-encoders write nothing through their byte-slice parameters (write-effect summary: an in-place reordering with append on a sub-slice of the input overwrites the ciphertext it is still reading)",
		"K-C02-kdf: KDF = SM3(Z||ct) for ct=1,2,… as 4 big-endian bytes, ceil(len/32) blocks, last block truncated to len%32; reports all-zero output",
		"B-IDX: every index/slice/make in Decrypt, Encrypt, CipherMarshal, CipherUnmarshal, DecryptAsn1, kdf is in bounds for every input (compiler prove pass or LinBounds)",
		"K-C02-asn1: the ASN.1 form is SEQUENCE{x INTEGER, y INTEGER, hash OCTET STRING, cipher OCTET STRING} written from offsets 1/33/65/97 and read back with coordinates re-padded to 32 bytes")
	c.NotDec = append(c.NotDec, "byte-for-byte equality with GM/T 0003.4 as a numerical fact (curve arithmetic is C03, SM3 is C04)", "that a ciphertext for another key fails (cryptographic)")

	c02Encrypt(c)
	c02Decrypt(c)
	c02KDF(c)
	c02ASN1(c)
	c02Inputs(c)
	noPointerParamWrites(c, "FX-C02-inputs", "sm2", []string{"Encrypt", "Decrypt", "EncryptAsn1", "DecryptAsn1"}, "the caller's key object is changed by an encryption / decryption")
	c01Nonce(c) // Encrypt draws k through the same randFieldElement as signing (rule of C01)

	var fs []*ssa.Function
	for _, n := range []string{"Decrypt", "Encrypt", "CipherMarshal", "CipherUnmarshal", "DecryptAsn1", "EncryptAsn1", "kdf", "intToBytes", "BytesCombine", "(*PrivateKey).Decrypt", "(*PrivateKey).DecryptAsn1", "(*PublicKey).EncryptAsn1"} {
		f := c.Fn("sm2", n)
		if f == nil {
			c.Missing("B-IDX", "sm2."+n, "function", "decoder/encoder entry point not found")
			continue
		}
		fs = append(fs, f)
	}
	exempt := map[string]string{
		"B-IDX|sm2.kdf|index ?phi1[?phi2] #1": "the all-zero scan reads c[i], i<length, where len(c)==length follows from the block arithmetic checked by K-C02-kdf (loop invariant, not linear over one iteration)",
	}
	st := bidx(c, "B-IDX", fs, exempt)
	c.Notes = append(c.Notes, fmt.Sprintf("B-IDX: %d sites, %d discharged by the compiler prove pass, %d by LinBounds, %d not proven", st.sites, st.compiler, st.lin, st.unproved))
	c.MinSites("B-IDX", 30) // about half of today's sites: a simplification may legitimately remove some
	c03IsOnCurve(c, "P-C03-formulas")
	fixedWidthHashed(c, "P-WIDTH-hash")
}

func findCall(f *ssa.Function, name string) *ssa.Call {
	var out *ssa.Call
	for _, ci := range allCalls(f) {
		call, ok := ci.(*ssa.Call)
		if !ok {
			continue
		}
		cc := &call.Call
		n := ""
		if cc.IsInvoke() {
			n = cc.Method.Name()
		} else if sc := cc.StaticCallee(); sc != nil {
			n = sc.Name()
		}
		if n == name && out == nil {
			out = call
		}
	}
	return out
}

// xorLoop: finds `dst[off+i] ^= src[soff+i]` for i in [0,bound): returns canonical parts
type xorLoopInfo struct {
	dst, src       ssa.Value
	dstOff, srcOff int64
	bound          ssa.Value
	init, step     int64
	store          *ssa.Store
}

func findXorLoops(f *ssa.Function) []xorLoopInfo {
	var out []xorLoopInfo
	instrsOf(f, func(_ *ssa.BasicBlock, in ssa.Instruction) {
		st, ok := in.(*ssa.Store)
		if !ok {
			return
		}
		ia, ok := st.Addr.(*ssa.IndexAddr)
		if !ok {
			return
		}
		bo, ok := st.Val.(*ssa.BinOp)
		if !ok || bo.Op != token.XOR {
			return
		}
		var self, other ssa.Value
		for _, side := range [][2]ssa.Value{{bo.X, bo.Y}, {bo.Y, bo.X}} {
			if b, i, ok := loadOfIndex(side[0]); ok && b == ia.X && i == ia.Index {
				self, other = side[0], side[1]
			}
		}
		if self == nil {
			return
		}
		sb, si, ok := loadOfIndex(other)
		if !ok {
			return
		}
		da, sa := affineOf(ia.Index), affineOf(si)
		if len(da.coef) != 1 || len(sa.coef) != 1 {
			return
		}
		var phi *ssa.Phi
		for v, co := range da.coef {
			if p, ok := v.(*ssa.Phi); ok && co == 1 && sa.coef[v] == 1 {
				phi = p
			}
		}
		if phi == nil {
			return
		}
		iv, ok := inductionOf(phi)
		if !ok {
			return
		}
		ifi, ok := lastIf(phi.Block())
		if !ok {
			return
		}
		cmp, ok := ifi.Cond.(*ssa.BinOp)
		if !ok || cmp.Op != token.LSS || cmp.X != ssa.Value(phi) {
			return
		}
		out = append(out, xorLoopInfo{dst: ia.X, src: sb, dstOff: da.k, srcOff: sa.k, bound: cmp.Y, init: iv.init, step: iv.step, store: st})
	})
	return out
}

func c02Encrypt(c *Ctx) {
	f := c.Fn("sm2", "Encrypt")
	if f == nil {
		c.Missing("K-C02-encrypt", "sm2.Encrypt", "function", "not found")
		return
	}
	fn := fname(f)
	names := paramNames(f, "pub", "data", "random", "mode")
	be := newBigEnv(f, names)
	spec, _ := defaultResultSpec(f)
	ex := successExits(f, spec)
	K := "res0(call:sm2.randFieldElement(pub.Curve,random))"
	ab := abbrevs{
		{"pad32(res0(call:ScalarBaseMult(bytes(" + K + "))))", "X1"},
		{"pad32(res1(call:ScalarBaseMult(bytes(" + K + "))))", "Y1"},
		{"pad32(res0(call:ScalarMult(pub.X,pub.Y,bytes(" + K + "))))", "X2"},
		{"pad32(res1(call:ScalarMult(pub.X,pub.Y,bytes(" + K + "))))", "Y2"},
		{"call:sm3.Sm3Sum(concat(X2,data,Y2))", "C3"},
		{"res0(call:sm2.kdf(len(data),lit(X2,Y2)))", "T"},
		{"concat(X1,Y1,C3,T)", "C"},
	}
	wantDefault := "concat(lit(0x4),X1,Y1,C3,T)"
	wantC1C2C3 := "concat(lit(0x4),copyN(0x40,slice(C,_,0x40)),copyN(sub(len(C),0x60),slice(C,0x60,_)),copyN(0x20,slice(C,0x40,0x60)))"
	nDef, nAlt := 0, 0
	for _, b := range f.Blocks {
		ret, ok := b.Instrs[len(b.Instrs)-1].(*ssa.Return)
		if !ok || !ex.blocks[b] {
			continue
		}
		raw := be.bytesOf(ret.Results[0], ret)
		got := ab.apply(raw.String())
		if ab.apply(stripCopies(raw).String()) == "concat(lit(0x4),slice(C,_,0x40),slice(C,0x60,_),slice(C,0x40,0x60))" {
			// the same bytes with or without private copies of the three components
			got = wantC1C2C3
		}
		switch got {
		case wantDefault:
			nDef++
			c.Holds("K-C02-encrypt", fn, fmt.Sprintf("C1C3C2 ciphertext layout #%d", nDef), got, ret.Pos())
		case wantC1C2C3:
			nAlt++
			c.Holds("K-C02-encrypt", fn, fmt.Sprintf("C1C2C3 ciphertext layout #%d", nAlt), got, ret.Pos())
		default:
			c.Violated("K-C02-encrypt", fn, "ciphertext layout", "a successful return yields "+got+"; GM/T 0003.4 layouts are "+wantDefault+" or "+wantC1C2C3+" (X1,Y1=[k]G padded to 32 bytes; X2,Y2=[k]P; C3=SM3(X2||M||Y2); T=KDF)", ret.Pos())
		}
	}
	c.Check(nDef >= 1 && nAlt >= 1, "K-C02-encrypt", fn, "both component orders produced", "", fmt.Sprintf("%d C1C3C2 and %d C1C2C3 returns found", nDef, nAlt), f.Pos())
	// the mode switch: C1C2C3 layout is returned exactly when mode == C1C2C3 (1)
	// C2 = M xor T in place
	xl := findXorLoops(f)
	okX := false
	for _, x := range xl {
		dst := ab.apply(be.bytesOf(x.dst, x.store).String())
		src := be.bytesOf(x.src, x.store).String()
		bnd := be.plain(x.bound, x.store).String()
		if dst == "C" && src == "data" && x.dstOff == 96 && x.srcOff == 0 && bnd == "len(data)" && x.init == 0 && x.step == 1 {
			okX = true
			c.Holds("K-C02-encrypt", fn, "C2 = M xor KDF stream", "c[96+i] ^= data[i] for i in [0,len(data))", x.store.Pos())
		} else {
			dbg("xor loop: dst=%s src=%s doff=%d soff=%d bound=%s", dst, src, x.dstOff, x.srcOff, bnd)
		}
	}
	if !okX {
		c.Undecided("K-C02-encrypt", fn, "C2 = M xor KDF stream", "no loop xoring every plaintext byte into the key stream at offset 96 of C1||C3||T was found", f.Pos())
	}
	// the xor loop must execute before every successful return (dominates them)
	// nonce per attempt + retry on all-zero stream + reader error
	draw := findCall(f, "randFieldElement")
	kdfc := findCall(f, "kdf")
	if draw == nil || kdfc == nil {
		c.Violated("K-C02-encrypt", fn, "nonce and KDF calls", "Encrypt does not call randFieldElement and kdf", f.Pos())
		return
	}
	g := evalGuard(c.P, f, errCheckAtoms(f, func(cl *ssa.Call) bool { return cl == draw }, "reader error"), spec, curveOps(f))
	c.Check(g.OK, "K-C02-encrypt", fn, "random reader error is returned", g.Why, "a failing random source must abort encryption before k is used: "+g.Why, g.Pos)
	// kdf failure: failing edge must lead back through a fresh draw before any success
	atoms := boolCallAtoms(f, func(cl *ssa.Call) bool { return cl == kdfc }, true, "kdf ok")
	if len(atoms) == 0 {
		c.Violated("K-C02-encrypt", fn, "retry on all-zero key stream", "the ok result of kdf is not tested", kdfc.Pos())
	} else {
		cut := map[edge]bool{}
		for _, p := range draw.Block().Preds {
			cut[edge{p, draw.Block()}] = true
		}
		okAll := true
		for _, a := range atoms {
			blk := a.If.Block()
			fail := blk.Succs[1-a.PassSucc]
			if fail == draw.Block() {
				continue
			}
			e := edge{blk, fail}
			if r, _ := canReachSuccess(fail, &e, ex, cut); r {
				okAll = false
			}
		}
		c.Check(okAll, "K-C02-encrypt", fn, "retry on all-zero key stream", "failure leads back to a fresh k", "when kdf reports an all-zero stream a ciphertext can still be returned without drawing a new k", atoms[0].If.Cond.Pos())
	}
	// G-C02-empty: a guard on len(data)==0 dominating the loop, rejecting (either error or a return)
	lg := lenGuardAtoms(f, func(v ssa.Value) bool { return v == ssa.Value(f.Params[1]) }, func(n int64) bool { return n > 0 }, []int64{0, 1, 2, 31, 32, 33}, "len(data) > 0")
	var okEmpty bool
	why := "no test of len(data) against 0 precedes the retry loop; kdf(0,…) always reports an all-zero stream, so Encrypt(empty) never returns"
	for _, a := range lg {
		blk := a.If.Block()
		cutp := map[edge]bool{{blk, blk.Succs[a.PassSucc]}: true}
		seen := reach([]*ssa.BasicBlock{f.Blocks[0]}, cutp)
		if !seen[draw.Block()] {
			okEmpty = true
		}
	}
	// alternative: kdf itself reports ok for length 0
	if !okEmpty && c02KdfZeroLenOK(c) {
		okEmpty = true
	}
	c.Check(okEmpty, "G-C02-empty", fn, "empty plaintext does not enter the retry loop", "len(data)==0 is handled before the loop", why, f.Pos())
}

// c02KdfZeroLenOK: kdf returns (·,true) directly when length == 0
func c02KdfZeroLenOK(c *Ctx) bool {
	k := c.Fn("sm2", "kdf")
	if k == nil {
		return false
	}
	atoms := lenParamZeroAtoms(k, k.Params[0])
	for _, a := range atoms {
		blk := a.If.Block()
		z := blk.Succs[1-a.PassSucc] // taken when length == 0
		if ret, ok := z.Instrs[len(z.Instrs)-1].(*ssa.Return); ok && len(ret.Results) == 2 {
			if b, ok := constBool(ret.Results[1]); ok && b {
				return true
			}
		}
	}
	return false
}

// lenParamZeroAtoms: Ifs comparing integer parameter p with 0 (== / != / <= / >)
func lenParamZeroAtoms(f *ssa.Function, p *ssa.Parameter) []Atom {
	var out []Atom
	for _, ifi := range ifsOf(f) {
		bo, ok := ifi.Cond.(*ssa.BinOp)
		if !ok || bo.X != ssa.Value(p) {
			continue
		}
		k, ok := constInt(bo.Y)
		if !ok {
			continue
		}
		// pass = "length > 0"
		t0 := intCmpTrue(bo.Op, 0, k)
		t1 := intCmpTrue(bo.Op, 1, k)
		t2 := intCmpTrue(bo.Op, 2, k)
		if !t0 && t1 && t2 {
			out = append(out, Atom{ifi, 0, "length > 0"})
		} else if t0 && !t1 && !t2 {
			out = append(out, Atom{ifi, 1, "length > 0"})
		}
	}
	return out
}

func c02Decrypt(c *Ctx) {
	f := c.Fn("sm2", "Decrypt")
	if f == nil {
		c.Missing("K-C02-decrypt", "sm2.Decrypt", "function", "not found")
		return
	}
	fn := fname(f)
	names := paramNames(f, "priv", "data", "mode")
	be := newBigEnv(f, names)
	spec, _ := defaultResultSpec(f)
	ex := successExits(f, spec)
	// the normalised ciphertext: a []byte phi whose edges are data[1:] or the C1C2C3 reordering
	D := "slice(data,0x1,_)"
	reorder := "concat(copyN(0x40,slice(" + D + ",_,0x40)),copyN(0x20,slice(" + D + ",sub(len(" + D + "),0x20),_)),copyN(sub(len(" + D + "),0x60),slice(" + D + ",0x40,sub(len(" + D + "),0x20))))"
	// the same reordering without the intermediate private copies (appending the sub-slices directly)
	reorderPlain := "concat(slice(" + D + ",_,0x40),slice(" + D + ",sub(len(" + D + "),0x20),_),slice(" + D + ",0x40,sub(len(" + D + "),0x20)))"
	var ct *ssa.Phi
	instrsOf(f, func(_ *ssa.BasicBlock, in ssa.Instruction) {
		phi, ok := in.(*ssa.Phi)
		if !ok || !isByteSlice(phi.Type()) || ct != nil {
			return
		}
		nD, nR, other := 0, 0, 0
		for i, e := range phi.Edges {
			pred := phi.Block().Preds[i]
			s := stripCopies(be.bytesOf(e, pred.Instrs[len(pred.Instrs)-1])).String()
			switch s {
			case D:
				nD++
			case reorder, reorderPlain:
				nR++
			default:
				other++
				dbg("Decrypt ct edge: %s", s)
			}
		}
		if nD >= 1 && nR == 1 && other == 0 {
			ct = phi
		}
	})
	if ct == nil {
		c.Violated("K-C02-decrypt", fn, "ciphertext normalisation", "the input is not normalised to C1||C3||C2 as data[1:] (C1C3C2/default) or the reordering c1=d[:64], c2=d[64:len-32], c3=d[len-32:] of d=data[1:] (C1C2C3)", f.Pos())
		return
	}
	c.Holds("K-C02-decrypt", fn, "ciphertext normalisation", "data[1:] or C1C2C3 -> C1||C3||C2", ct.Pos())
	// which mode takes the reordering edge: the switch on mode == 1
	names[ct] = "CT"
	be = newBigEnv(f, names)
	sm := findCall(f, "ScalarMult")
	kd := findCall(f, "kdf")
	if sm == nil || kd == nil {
		c.Violated("K-C02-decrypt", fn, "scalar multiplication and KDF", "Decrypt does not call ScalarMult and kdf", f.Pos())
		return
	}
	X := "frombytes(slice(CT,_,0x20))"
	Y := "frombytes(slice(CT,0x20,0x40))"
	gotSM := be.plain(sm, sm).String()
	wantSM := "call:ScalarMult(" + X + "," + Y + ",bytes(priv.D))"
	c.Check(gotSM == wantSM, "K-C02-decrypt", fn, "(x2,y2) = [d]C1 with C1 = (CT[0:32], CT[32:64])", "", "scalar multiplication is "+gotSM+", expected "+wantSM, sm.Pos())
	ab := abbrevs{
		{"pad32(res0(" + wantSM + "))", "X2"},
		{"pad32(res1(" + wantSM + "))", "Y2"},
		{"res0(call:sm2.kdf(sub(len(CT),0x60),lit(X2,Y2)))", "T"},
	}
	gotKD := ab.apply(be.bytesOf(kd, kd).String())
	c.Check(gotKD == "call:sm2.kdf(sub(len(CT),0x60),lit(X2,Y2))", "K-C02-decrypt", fn, "t = KDF(len(C2), pad32(x2), pad32(y2))", "", "KDF call is "+gotKD, kd.Pos())
	// on-curve guard
	onc := boolCallAtoms(f, func(cl *ssa.Call) bool {
		if !cl.Call.IsInvoke() || cl.Call.Method.Name() != "IsOnCurve" {
			return false
		}
		return be.plain(cl.Call.Args[0], cl).String() == X && be.plain(cl.Call.Args[1], cl).String() == Y
	}, true, "IsOnCurve(C1)")
	g := evalGuard(c.P, f, onc, spec, []ssa.Instruction{sm})
	c.Check(g.OK, "G-C02-oncurve", fn, "IsOnCurve(C1) before [d]C1", g.Why, "the point taken from the ciphertext must be checked to be on the SM2 curve before it is multiplied by the private key (invalid-curve attack): "+g.Why, g.Pos)
	// kdf failure is an error
	g = evalGuard(c.P, f, boolCallAtoms(f, func(cl *ssa.Call) bool { return cl == kd }, true, "kdf ok"), spec, nil)
	c.Check(g.OK, "G-C02-kdfzero", fn, "all-zero key stream is an error", g.Why, g.Why, g.Pos)
	// M' = C2 xor t
	okX := false
	for _, x := range findXorLoops(f) {
		dst := ab.apply(be.bytesOf(x.dst, x.store).String())
		src := be.bytesOf(x.src, x.store).String()
		bnd := be.plain(x.bound, x.store).String()
		if dst == "T" && src == "CT" && x.dstOff == 0 && x.srcOff == 96 && bnd == "sub(len(CT),0x60)" && x.init == 0 && x.step == 1 {
			okX = true
			c.Holds("K-C02-decrypt", fn, "M' = C2 xor KDF stream", "c[i] ^= CT[96+i] for i in [0,len(CT)-96)", x.store.Pos())
		} else {
			dbg("dec xor loop: dst=%s src=%s doff=%d soff=%d bound=%s", dst, src, x.dstOff, x.srcOff, bnd)
		}
	}
	if !okX {
		c.Undecided("K-C02-decrypt", fn, "M' = C2 xor KDF stream", "no loop xoring CT[96+i] into the key stream was found", f.Pos())
	}
	// C3 comparison
	var c3 []Atom
	for _, ifi := range ifsOf(f) {
		a, b, ps, ok := eqTest(ifi)
		if !ok {
			continue
		}
		sa := ab.apply(be.bytesOf(a, ifi).String())
		sb := ab.apply(be.bytesOf(b, ifi).String())
		u := "call:sm3.Sm3Sum(concat(X2,T,Y2))"
		w := "slice(CT,0x40,0x60)"
		if (sa == u && sb == w) || (sa == w && sb == u) {
			c3 = append(c3, Atom{ifi, ps, "u == C3"})
		} else {
			dbg("eq test: %s vs %s", sa, sb)
		}
	}
	g = evalGuard(c.P, f, c3, spec, nil)
	c.Check(g.OK, "G-C02-c3", fn, "SM3(x2||M'||y2) == C3 or error", g.Why, "decryption must fail unless the recomputed hash of pad32(x2)||M'||pad32(y2) equals ciphertext bytes [64:96]: "+g.Why, g.Pos)
	// the hash is computed after the xor loop: the compare must be dominated by the xor loop header exit — approximated: the eq test is not reachable from entry without passing the loop header
	// success returns the plaintext buffer T
	for _, b := range f.Blocks {
		ret, ok := b.Instrs[len(b.Instrs)-1].(*ssa.Return)
		if !ok || !ex.blocks[b] {
			continue
		}
		got := ab.apply(be.bytesOf(ret.Results[0], ret).String())
		c.Check(got == "T", "K-C02-decrypt", fn, "returns M'", "", "a successful return yields "+got+" instead of the recovered plaintext", ret.Pos())
	}
	// order: xor loop precedes hash computation — the Sm3Sum call must not dominate the loop store
	if sum := findCall(f, "Sm3Sum"); sum != nil {
		for _, x := range findXorLoops(f) {
			c.Check(!instrDominates(sum, x.store) && x.store.Block() != sum.Block(), "K-C02-decrypt", fn, "hash computed over the decrypted bytes", "", "the hash is computed before C2 is xored with the key stream", sum.Pos())
		}
	}
}

func c02KDF(c *Ctx) {
	f := c.Fn("sm2", "kdf")
	if f == nil {
		c.Missing("K-C02-kdf", "sm2.kdf", "function", "not found")
		return
	}
	fn := fname(f)
	names := paramNames(f, "length", "x")
	be := newBigEnv(f, names)
	// block loop: i = phi(0, i+1); i < quo(add(length,31),32)
	var iPhi, ctPhi *ssa.Phi
	var bound string
	for _, h := range loopHeaders(f) {
		ifi, ok := lastIf(h)
		if !ok {
			continue
		}
		cmp, ok := ifi.Cond.(*ssa.BinOp)
		if !ok || cmp.Op != token.LSS {
			continue
		}
		p, ok := cmp.X.(*ssa.Phi)
		if !ok {
			continue
		}
		b := be.plain(cmp.Y, ifi).String()
		if b == "quo(add(0x1f,length),0x20)" {
			iPhi, bound = p, b
			for _, q := range phisOf(h) {
				if iv, ok := inductionOf(q); ok && q != p && iv.init == 1 && iv.step == 1 {
					ctPhi = q
				}
			}
		}
	}
	if iPhi == nil {
		c.Undecided("K-C02-kdf", fn, "ceil(length/32) blocks", "no loop `for i < (length+31)/32` found", f.Pos())
		return
	}
	iv, _ := inductionOf(iPhi)
	c.Check(iv.init == 0 && iv.step == 1, "K-C02-kdf", fn, "ceil(length/32) blocks", bound, "block loop does not run i = 0,1,…", iPhi.Pos())
	names[iPhi] = "i"
	if ctPhi != nil {
		names[ctPhi] = "ct"
	}
	be = newBigEnv(f, names)
	// the counter is a separate variable running 1,2,… or the loop index plus one
	ctForm := "ct"
	if ctPhi == nil {
		ctForm = "add(0x1,i)"
		usesI1 := false
		for _, ci := range allCalls(f) {
			if cl, ok := ci.(*ssa.Call); ok && calleeNamed(cl, "intToBytes") && be.plain(cl.Call.Args[0], cl).String() == ctForm {
				usesI1 = true
			}
		}
		c.Check(usesI1, "K-C02-kdf", fn, "counter ct = 1,2,…", "", "no counter starting at 1 and incremented once per block (neither a separate counter nor the block index plus one is hashed)", iPhi.Pos())
		if !usesI1 {
			return
		}
	} else {
		c.Holds("K-C02-kdf", fn, "counter ct = 1,2,…", "", iPhi.Pos())
	}
	// hash writes inside the loop: Reset; range x -> Write(xx); Write(intToBytes(ct)); Sum(nil)
	obj, writes, sum := hashWrites(f)
	if obj == nil || sum == nil {
		c.Undecided("K-C02-kdf", fn, "hash input", "kdf does not use sm3.New()/Write/Sum in the recognised form", f.Pos())
		return
	}
	var seq []string
	for _, w := range writes {
		seq = append(seq, be.bytesOf(w.Call.Args[0], w).String())
	}
	// the element write is a range over x
	okSeq := len(seq) == 2 && strings.HasPrefix(seq[0], "") && seq[1] == "call:sm2.intToBytes("+ctForm+")"
	rangeOK := false
	if len(writes) == 2 {
		// writes[0] argument is an element of x obtained in a range loop
		if b, _, ok := loadOfIndex(writes[0].Call.Args[0]); ok && b == ssa.Value(f.Params[1]) {
			rangeOK = true
		}
	}
	c.Check(okSeq && rangeOK, "K-C02-kdf", fn, "block = SM3(x… || ct)", "", "each block must hash every input part in order followed by the counter; writes: "+strings.Join(seq, " ; "), sum.Pos())
	// Reset per block: a Reset call on obj inside the loop dominating the writes
	reset := false
	for _, ci := range allCalls(f) {
		if cl, ok := ci.(*ssa.Call); ok && cl.Call.IsInvoke() && cl.Call.Value == ssa.Value(obj) && cl.Call.Method.Name() == "Reset" {
			if iPhi.Block().Dominates(cl.Block()) && instrDominates(cl, writes[0]) {
				reset = true
			}
		}
	}
	c.Check(reset, "K-C02-kdf", fn, "hash reset per block", "", "the hash state is not reset at the start of each block", sum.Pos())
	// counter serialisation
	itb := c.Fn("sm2", "intToBytes")
	if itb != nil {
		okBE := false
		for _, ci := range allCalls(itb) {
			if calleeID(ci.Common()) == "(encoding/binary.bigEndian).PutUint32" {
				okBE = true
			}
		}
		mk := false
		instrsOf(itb, func(_ *ssa.BasicBlock, in ssa.Instruction) {
			if sl, ok := in.(*ssa.Slice); ok {
				if n, ok := staticLen(sl.X.Type()); ok && n == 4 {
					mk = true
				}
			}
			if ms, ok := in.(*ssa.MakeSlice); ok {
				if n, ok := constInt(ms.Len); ok && n == 4 {
					mk = true
				}
			}
		})
		c.Check(okBE && mk, "K-C02-kdf", fname(itb), "counter as 4 big-endian bytes", "", "the counter must be serialised as a 32-bit big-endian integer", itb.Pos())
	}
	// truncation of the last block
	var truncOK, fullOK bool
	for _, ci := range allCalls(f) {
		cl, ok := ci.(*ssa.Call)
		if !ok {
			continue
		}
		bi, ok := cl.Call.Value.(*ssa.Builtin)
		if !ok || bi.Name() != "append" {
			continue
		}
		// the appended block is either chosen by two appends in two branches, or by re-slicing the digest in one
		// branch before a single append (a phi of the two forms)
		type alt struct {
			v  ssa.Value
			at *ssa.BasicBlock
		}
		alts := []alt{{cl.Call.Args[1], cl.Block()}}
		if ph, isPhi := cl.Call.Args[1].(*ssa.Phi); isPhi {
			alts = nil
			for i, e := range ph.Edges {
				alts = append(alts, alt{e, ph.Block().Preds[i]})
			}
		}
		for _, a := range alts {
			arg := be.bytesOf(a.v, a.at.Instrs[len(a.at.Instrs)-1]).String()
			switch arg {
			case "slice(call:Sum(const:nil:[]byte),_,rem(length,0x20))":
				// guarded by i+1 == j and length%32 != 0
				conds := dominatingConds(be, a.at)
				if sl, isSl := a.v.(*ssa.Slice); isSl {
					for k, v := range dominatingConds(be, sl.Block()) {
						conds[k] = v
					}
				}
				last := conds["eq(add(0x1,i),"+bound+")=true"] || conds["eq(i,sub("+bound+",0x1))=true"] || conds["eq(i,add(0xffffffffffffffff,"+bound+"))=true"] // i+1 == blocks, i == blocks-1
				truncOK = last && conds["ne(rem(length,0x20),0x0)=true"]
				if !truncOK {
					dbg("trunc conds: %v", conds)
				}
			case "call:Sum(const:nil:[]byte)":
				fullOK = true
			}
		}
	}
	c.Check(truncOK && fullOK, "K-C02-kdf", fn, "last block truncated to length%32", "", "the output must be ceil(length/32) digests with the last one cut to length%32 bytes (when non-zero)", f.Pos())
	// all-zero report: returns (c,true) iff some c[i] != 0 for i<length; (c,false) otherwise
	var retTrue, retFalse bool
	for _, b := range f.Blocks {
		ret, ok := b.Instrs[len(b.Instrs)-1].(*ssa.Return)
		if !ok {
			continue
		}
		v, _ := constBool(ret.Results[1])
		if v {
			conds := dominatingConds(be, b)
			for k := range conds {
				if strings.HasPrefix(k, "ne(idx(") && strings.HasSuffix(k, ",0x0)=true") {
					retTrue = true
				}
			}
		} else {
			retFalse = true
		}
	}
	c.Check(retTrue && retFalse, "K-C02-kdf", fn, "reports an all-zero stream", "", "kdf must return true exactly when some output byte is non-zero", f.Pos())
}

// dominatingConds: canonical conditions known on entry to b ("cond=true/false")
func dominatingConds(be *bigEnv, b *ssa.BasicBlock) map[string]bool {
	out := map[string]bool{}
	for d := b; d != nil && d.Idom() != nil; d = d.Idom() {
		x := d.Idom()
		ifi, ok := lastIf(x)
		if !ok || len(d.Preds) != 1 || d.Preds[0] != x || x.Succs[0] == x.Succs[1] {
			continue
		}
		s := be.plain(ifi.Cond, ifi).String()
		if x.Succs[0] == d {
			out[s+"=true"] = true
		} else {
			out[s+"=false"] = true
		}
	}
	return out
}

// asn1Rule: c02ASN1 is shared with C14 (serialisation round trips), which runs it under its own rule name
var asn1Rule = "K-C02-asn1"

func c02ASN1(c *Ctx) {
	// struct layout
	pk := c.P.Pkgs["sm2"]
	obj := pk.Types.Scope().Lookup("sm2Cipher")
	if obj == nil {
		c.Missing(asn1Rule, "sm2.sm2Cipher", "type", "ASN.1 ciphertext structure not found")
	} else if st := derefStruct(obj.Type()); st != nil {
		var fs []string
		for i := 0; i < st.NumFields(); i++ {
			fs = append(fs, shortType(st.Field(i).Type()))
		}
		got := strings.Join(fs, ",")
		c.Check(got == "*math/big.Int,*math/big.Int,[]byte,[]byte", asn1Rule, "sm2.sm2Cipher", "SEQUENCE{INTEGER,INTEGER,OCTET STRING,OCTET STRING}", "", "ASN.1 ciphertext fields are ("+got+")", obj.Pos())
	}
	m := c.Fn("sm2", "CipherMarshal")
	u := c.Fn("sm2", "CipherUnmarshal")
	if m == nil || u == nil {
		c.Missing(asn1Rule, "sm2.CipherMarshal/CipherUnmarshal", "functions", "not found")
		return
	}
	mbe := newBigEnv(m, paramNames(m, "data"))
	if call := findCall(m, "Marshal"); call != nil {
		mi, _ := call.Call.Args[0].(*ssa.MakeInterface)
		got := "?"
		if mi != nil {
			got = c02StructLit(mbe, mi.X, call)
		}
		D := "slice(data,0x1,_)"
		want := "x=frombytes(slice(" + D + ",_,0x20)) y=frombytes(slice(" + D + ",0x20,0x40)) hash=slice(" + D + ",0x40,0x60) cipher=slice(" + D + ",0x60,_)"
		c.Check(normSliceString(got) == normSliceString(want), asn1Rule, fname(m), "fields taken from offsets 1/33/65/97", "", "CipherMarshal encodes "+got+", expected "+want, call.Pos())
	} else {
		c.Violated(asn1Rule, fname(m), "asn1.Marshal", "CipherMarshal does not call asn1.Marshal", m.Pos())
	}
	ube := newBigEnv(u, paramNames(u, "data"))
	uspec, _ := defaultResultSpec(u)
	uex := successExits(u, uspec)
	for _, b := range u.Blocks {
		ret, ok := b.Instrs[len(b.Instrs)-1].(*ssa.Return)
		if !ok || !uex.blocks[b] {
			continue
		}
		got := ube.bytesOf(ret.Results[0], ret).String()
		want := "concat(lit(0x4),pad32(local(sm2.sm2Cipher).XCoordinate),pad32(local(sm2.sm2Cipher).YCoordinate),local(sm2.sm2Cipher).HASH,local(sm2.sm2Cipher).CipherText)"
		c.Check(normSliceString(got) == normSliceString(want), asn1Rule, fname(u), "0x04||pad32(x)||pad32(y)||hash||cipher", "", "CipherUnmarshal rebuilds "+got, ret.Pos())
	}
	un := findCall(u, "Unmarshal")
	if un != nil {
		g := evalGuard(c.P, u, errCheckAtoms(u, func(cl *ssa.Call) bool { return cl == un }, "asn1 error"), uspec, nil)
		c.Check(g.OK, asn1Rule, fname(u), "ASN.1 parse error is returned", g.Why, g.Why, g.Pos)
	}
	// DecryptAsn1 = Decrypt(priv, CipherUnmarshal(data), C1C3C2); EncryptAsn1 = CipherMarshal(Encrypt(..., C1C3C2))
	if d := c.Fn("sm2", "DecryptAsn1"); d != nil {
		dbe := newBigEnv(d, paramNames(d, "priv", "data"))
		dspec, _ := defaultResultSpec(d)
		cu := findCall(d, "CipherUnmarshal")
		if cu != nil {
			g := evalGuard(c.P, d, errCheckAtoms(d, func(cl *ssa.Call) bool { return cl == cu }, "unmarshal error"), dspec, callsNamed(d, "Decrypt"))
			c.Check(g.OK, asn1Rule, fname(d), "unmarshal error is returned", g.Why, g.Why, g.Pos)
		}
		if dc := findCall(d, "Decrypt"); dc != nil {
			got := dbe.bytesOf(dc, dc).String()
			c.Check(got == "call:sm2.Decrypt(priv,res0(call:sm2.CipherUnmarshal(data)),global:C1C3C2)", asn1Rule, fname(d), "Decrypt(priv, CipherUnmarshal(data), C1C3C2)", "", "DecryptAsn1 calls "+got, dc.Pos())
		}
	}
}

// c02StructLit: describes a struct literal stored in a local alloc (field=value …)
func c02StructLit(be *bigEnv, v ssa.Value, at ssa.Instruction) string {
	ld, ok := v.(*ssa.UnOp)
	if !ok {
		return "?"
	}
	al, ok := ld.X.(*ssa.Alloc)
	if !ok {
		return "?"
	}
	labels := []string{"x", "y", "hash", "cipher"}
	parts := make([]string, 4)
	for _, u := range *al.Referrers() {
		fa, ok := u.(*ssa.FieldAddr)
		if !ok || fa.Field >= 4 {
			continue
		}
		for _, u2 := range *fa.Referrers() {
			if st, ok := u2.(*ssa.Store); ok && st.Addr == ssa.Value(fa) {
				val := ""
				if isBigIntPtr(st.Val.Type()) {
					val = be.valueAt(st.Val, at).String()
					val = strings.ReplaceAll(val, "frombytes(slice(", "frombytes(slice(")
				} else {
					val = be.bytesOf(st.Val, at).String()
				}
				parts[fa.Field] = labels[fa.Field] + "=" + val
			}
		}
	}
	return strings.Join(parts, " ")
}

// c02Inputs: none of the SM2 encryption entry points writes the caller's plaintext / ciphertext bytes.
func c02Inputs(c *Ctx) {
	fx := getFX(c)
	for _, n := range []string{"Encrypt", "Decrypt", "EncryptAsn1", "DecryptAsn1", "CipherMarshal", "CipherUnmarshal"} {
		f := c.Fn("sm2", n)
		if f == nil {
			c.Missing("FX-C02-inputs", "sm2."+n, "function", "not found")
			continue
		}
		w := fx.Writes(f)
		for i, p := range f.Params {
			if !isByteSlice(p.Type()) {
				continue
			}
			wit, bad := w[root{Kind: rkParam, Idx: i}]
			c.Check(!bad, "FX-C02-inputs", fname(f), "does not write "+pname(p), "", "the caller's "+pname(p)+" slice may be written: "+fx.describe(root{Kind: rkParam, Idx: i}, wit)+" — the bytes still to be read (C2, C3) are overwritten, or the caller's buffer is corrupted", wit.Pos)
		}
	}
}
