package main

// C08 — handshakes complete only with a peer that proves the certified identity

import (
	"fmt"
	"go/token"
	"go/types"
	"sort"
	"strings"

	"golang.org/x/tools/go/ssa"
)

func init() { register("C08", checkC08) }

// unreachableWithout: with every edge into a block of `pass` (and the `extra` edges) removed, `sink` cannot be
// reached from the entry of f
func unreachableWithout(f *ssa.Function, pass map[*ssa.BasicBlock]bool, extra map[edge]bool, sink *ssa.BasicBlock) bool {
	cut := map[edge]bool{}
	for e := range extra {
		cut[e] = true
	}
	for _, b := range f.Blocks {
		for _, s := range b.Succs {
			if pass[s] {
				cut[edge{b, s}] = true
			}
		}
	}
	if pass[f.Blocks[0]] {
		return true
	}
	return !reach([]*ssa.BasicBlock{f.Blocks[0]}, cut)[sink]
}

func callsNamedIn(f *ssa.Function, name string) []*ssa.Call {
	var out []*ssa.Call
	for _, ci := range allCalls(f) {
		call, ok := ci.(*ssa.Call)
		if !ok {
			continue
		}
		if sc := call.Call.StaticCallee(); sc != nil && sc.Name() == name {
			out = append(out, call)
		} else if call.Call.IsInvoke() && call.Call.Method.Name() == name {
			out = append(out, call)
		}
	}
	return out
}

func checkC08(c *Ctx) {
	defer c08DigestCover(c)
	defer c10Host(c)
	c.Decided = append(c.Decided,
		"G-C08-skxcover: sha1Hash, md5SHA1Hash and hashForServerKeyExchange consume their list of slices whole (no sub-slice of the parameter): the randoms stay inside the signed digest",
		"G-C10-host (shared with C10): the server-name check — VerifyHostname and matchHostnames: equal label counts, '*' only as the whole left-most label, every other label equal",
		"G-C08-chain: on both client paths the server chain is verified (Verify error aborts; Roots, DNSName and CurrentTime come from the Config) before the peer certificates are recorded, the only bypass being InsecureSkipVerify",
		"G-C08-ske: the GMSSL client cannot build its ClientKeyExchange without a ServerKeyExchange that passed processServerKeyExchange; that function rejects a signature that does not verify under the signing certificate's key over client_random || server_random || encryption certificate, and the server signs the same bytes",
		"G-C08-finished: every readFinished compares the peer's verify_data with the locally computed one in constant time (and its length) and rejects a mismatch; no success bypasses the comparison",
		"G-C08-clientauth: the server verifies client chains against ClientCAs for the verifying policies, rejects an empty certificate list for the requiring policies, and with a client certificate present requires a CertificateVerify whose signature check cannot be bypassed",
		"G-C08-callback: when Config.VerifyPeerCertificate is set, neither client can complete the full handshake without calling it (with or without the built-in verification)",
		"G-C08-transcript: every handshake message sent with writeRecord(recordTypeHandshake, m.marshal()) is also fed to the transcript hash")
	c.NotDec = append(c.NotDec, "unforgeability of the signatures and the PRF (cryptographic)", "that both sides abort under every single-field rewrite (follows from the transcript rule plus Finished, given the PRF)", "certificate path validation itself (C10)")
	c08Chain(c)
	c08Roots(c)
	c08Callback(c)
	c08CacheKey(c)
	c08KeyUsage(c)
	c08PreMaster(c)
	c08SKE(c)
	c08SKEKey(c)
	c08Finished(c)
	c08ClientAuth(c)
	c08Transcript(c)
	c10IsValid(c)      // the chain check the clients rely on: validity window, CA flag, path length, names (rule of C10)
	c10PoolContains(c) // "is itself a root" only for the identical certificate (rule of C10)
	c16Gate(c)         // a resumed session must satisfy the client-certificate policy too (the gate rule of C16)
	lostReceiverStores(c, "G-C08-transcript", "gmtls")
}

func c08Chain(c *Ctx) {
	rule := "G-C08-chain"
	for _, name := range []string{"(*clientHandshakeState).doFullHandshake", "(*clientHandshakeStateGM).doFullHandshake"} {
		f := c.Fn("gmtls", name)
		if f == nil {
			c.Missing(rule, "gmtls."+name, "method", "not found")
			continue
		}
		spec, _ := defaultResultSpec(f)
		verifies := callsNamedIn(f, "Verify")
		var vcalls []*ssa.Call
		for _, v := range verifies {
			if sc := v.Call.StaticCallee(); sc != nil && strings.HasSuffix(fname(sc), "x509.Certificate).Verify") {
				vcalls = append(vcalls, v)
			}
		}
		c.Check(len(vcalls) >= 1, rule, fname(f), "the server chain is verified", "", "no call to (*x509.Certificate).Verify", f.Pos())
		pass := map[*ssa.BasicBlock]bool{}
		for i, v := range vcalls {
			pass[v.Block()] = true
			// a Verify inside `for i, cert := range certs { if i == 0 || ... { Verify } }` with len(certs) >= 1
			// proven at the loop entry: entering the loop implies the i == 0 iteration reaches the Verify
			if h := verifyLoopHeader(c, f, v); h != nil {
				pass[h] = true
			}
			var errv ssa.Value
			for _, u := range *v.Referrers() {
				if ex, ok := u.(*ssa.Extract); ok && ex.Index == 1 {
					errv = ex
				}
			}
			where := "the error is discarded"
			if errv != nil {
				where = nonNilReachesSuccess(c.P, f, v, errv, spec)
			}
			c.Check(where == "", rule, fname(f), fmt.Sprintf("Verify #%d failure aborts the handshake", i+1), "", "a chain that does not verify must abort: "+where, v.Pos())
			// the options
			if al := verifyOptsAlloc(v.Call.Args[1]); al != nil {
				names := map[ssa.Value]string{}
				for _, p := range f.Params {
					names[p] = pname(p)
				}
				be := newBigEnv(f, names)
				got := map[string]string{}
				for _, u := range *al.Referrers() {
					fa, ok := u.(*ssa.FieldAddr)
					if !ok {
						continue
					}
					for _, u2 := range *fa.Referrers() {
						if st, ok := u2.(*ssa.Store); ok && st.Addr == ssa.Value(fa) {
							if _, seen := got[fieldName(al.Type(), fa.Field)]; !seen {
								got[fieldName(al.Type(), fa.Field)] = fieldForm(be.plain(st.Val, st).String())
							}
						}
					}
				}
				okOpts := strings.HasSuffix(got["Roots"], "config.RootCAs") && strings.HasSuffix(got["DNSName"], "config.ServerName") && strings.Contains(got["CurrentTime"], "time(")
				c.Check(okOpts, rule, fname(f), fmt.Sprintf("Verify #%d uses the configured roots, server name and time", i+1), "", fmt.Sprintf("VerifyOptions are Roots=%s DNSName=%s CurrentTime=%s", got["Roots"], got["DNSName"], got["CurrentTime"]), v.Pos())
			} else {
				c.Undecided(rule, fname(f), fmt.Sprintf("Verify #%d options", i+1), "VerifyOptions literal not found", v.Pos())
			}
		}
		// sink: c.peerCertificates = certs
		var sink *ssa.Store
		instrsOf(f, func(_ *ssa.BasicBlock, in ssa.Instruction) {
			if st, ok := in.(*ssa.Store); ok {
				if fa, ok := st.Addr.(*ssa.FieldAddr); ok && fieldName(fa.X.Type(), fa.Field) == "peerCertificates" {
					sink = st
				}
			}
		})
		if sink == nil {
			c.Undecided(rule, fname(f), "peer certificates recorded", "store to Conn.peerCertificates not found", f.Pos())
			continue
		}
		// the InsecureSkipVerify bypass
		extra := map[edge]bool{}
		nSkip := 0
		for _, ifi := range ifsOf(f) {
			ld, ok := ifi.Cond.(*ssa.UnOp)
			if !ok {
				continue
			}
			if ld.Op == token.NOT {
				continue
			}
			if fa, ok := ld.X.(*ssa.FieldAddr); ok && ld.Op == token.MUL && fieldName(fa.X.Type(), fa.Field) == "InsecureSkipVerify" {
				extra[edge{ifi.Block(), ifi.Block().Succs[0]}] = true
				nSkip++
			}
		}
		if nSkip == 0 {
			// `if !c.config.InsecureSkipVerify {` compiles to a branch on the loaded flag with swapped successors
			for _, ifi := range ifsOf(f) {
				if u, ok := ifi.Cond.(*ssa.UnOp); ok && u.Op == token.NOT {
					if ld, ok := u.X.(*ssa.UnOp); ok && ld.Op == token.MUL {
						if fa, ok := ld.X.(*ssa.FieldAddr); ok && fieldName(fa.X.Type(), fa.Field) == "InsecureSkipVerify" {
							extra[edge{ifi.Block(), ifi.Block().Succs[1]}] = true
							nSkip++
						}
					}
				}
			}
		}
		ok := unreachableWithout(f, pass, extra, sink.Block())
		c.Check(ok && nSkip > 0, rule, fname(f), "peer certificates are recorded only after a successful Verify (or InsecureSkipVerify)", "", "Conn.peerCertificates can be set on a path that neither verified the chain nor had InsecureSkipVerify set", sink.Pos())
	}
}

func verifyOptsAlloc(v ssa.Value) *ssa.Alloc {
	if ld, ok := v.(*ssa.UnOp); ok && ld.Op == token.MUL {
		if al, ok := ld.X.(*ssa.Alloc); ok {
			return al
		}
	}
	return nil
}

func c08SKE(c *Ctx) {
	rule := "G-C08-ske"
	f := c.Fn("gmtls", "(*clientHandshakeStateGM).doFullHandshake")
	if f == nil {
		c.Missing(rule, "gmtls.(*clientHandshakeStateGM).doFullHandshake", "method", "not found")
		return
	}
	pske := callsNamedIn(f, "processServerKeyExchange")
	gcke := callsNamedIn(f, "generateClientKeyExchange")
	if len(pske) != 1 || len(gcke) != 1 {
		c.Undecided(rule, fname(f), "key exchange calls", fmt.Sprintf("%d processServerKeyExchange / %d generateClientKeyExchange calls", len(pske), len(gcke)), f.Pos())
		return
	}
	ok := unreachableWithout(f, map[*ssa.BasicBlock]bool{pske[0].Block(): true}, nil, gcke[0].Block())
	c.Check(ok, rule, fname(f), "the ClientKeyExchange is built only after a ServerKeyExchange was processed", "", "generateClientKeyExchange is reachable without processServerKeyExchange: a server that omits the ServerKeyExchange never proves possession of the signing key", gcke[0].Pos())
	spec, _ := defaultResultSpec(f)
	where := nonNilReachesSuccess(c.P, f, pske[0], pske[0], spec)
	c.Check(where == "", rule, fname(f), "a ServerKeyExchange that fails verification aborts", "", where, pske[0].Pos())
	// the signing certificate and the encryption certificate handed to the key agreement
	names := map[ssa.Value]string{}
	for _, p := range f.Params {
		names[p] = pname(p)
	}
	be := newBigEnv(f, names)
	certArg := fieldForm(be.plain(pske[0].Call.Args[len(pske[0].Call.Args)-2], pske[0]).String())
	c.Check(strings.Contains(certArg, "peerCertificates") && (strings.HasSuffix(certArg, ",0x0)") || strings.HasSuffix(certArg, ",0)")), rule, fname(f), "the signature is checked under the signing certificate (first certificate)", "", "processServerKeyExchange is given "+certArg, pske[0].Pos())
	// the verifier
	p := c.Fn("gmtls", "(*eccKeyAgreementGM).processServerKeyExchange")
	g := c.Fn("gmtls", "(*eccKeyAgreementGM).generateServerKeyExchange")
	if p == nil || g == nil {
		c.Missing(rule, "gmtls.(*eccKeyAgreementGM).processServerKeyExchange/generateServerKeyExchange", "methods", "not found")
		return
	}
	pspec, _ := defaultResultSpec(p)
	var vcall *ssa.Call
	for _, v := range callsNamedIn(p, "Verify") {
		vcall = v
	}
	if vcall == nil {
		c.Violated(rule, fname(p), "the signature is verified", "no Verify call", p.Pos())
		return
	}
	atoms := boolCallAtoms(p, func(cl *ssa.Call) bool { return cl == vcall }, true, "signature verifies")
	gr := evalGuard(c.P, p, atoms, pspec, nil)
	c.Check(gr.OK, rule, fname(p), "a signature that does not verify is an error and cannot be bypassed", gr.Why, gr.Why, vcall.Pos())
	// what is verified / signed
	describe := func(fn *ssa.Function) string {
		nm := map[ssa.Value]string{}
		for _, prm := range fn.Params {
			nm[prm] = pname(prm)
		}
		e := newBigEnv(fn, nm)
		for _, h := range callsNamedIn(fn, "hashForServerKeyExchange") {
			var parts []string
			// variadic: the arguments are packed into a slice literal
			if len(h.Call.Args) == 2 {
				if sl, ok := h.Call.Args[1].(*ssa.Slice); ok {
					if al, ok := sl.X.(*ssa.Alloc); ok {
						vals := map[int64]string{}
						for _, u := range *al.Referrers() {
							if ia, ok := u.(*ssa.IndexAddr); ok {
								k, _ := constInt(ia.Index)
								for _, u2 := range *ia.Referrers() {
									if st, ok := u2.(*ssa.Store); ok {
										vals[k] = fieldForm(e.bytesOf(st.Val, st).String())
									}
								}
							}
						}
						for i := int64(0); i < int64(len(vals)); i++ {
							parts = append(parts, vals[i])
						}
					}
				}
			}
			return strings.Join(parts, " || ")
		}
		return "?"
	}
	dv, ds := describe(p), describe(g)
	okV := dv == "clientHello.random || serverHello.random || ka.encipherCert.Raw"
	c.Check(okV, rule, fname(p), "the signed bytes are client_random || server_random || encryption certificate", "", "the client verifies the signature over "+dv, vcall.Pos())
	okS := strings.HasPrefix(ds, "clientHello.random || hello.random || ") && strings.Contains(ds, "cipherCert") || strings.Contains(ds, "Certificate")
	c.Check(okS, rule, fname(g), "the server signs client_random || server_random || its encryption certificate", "", "the server signs "+ds, g.Pos())
}

func c08Finished(c *Ctx) {
	rule := "G-C08-finished"
	n := 0
	for _, name := range []string{"(*clientHandshakeState).readFinished", "(*clientHandshakeStateGM).readFinished", "(*serverHandshakeState).readFinished", "(*serverHandshakeStateGM).readFinished"} {
		f := c.Fn("gmtls", name)
		if f == nil {
			c.Missing(rule, "gmtls."+name, "method", "not found")
			continue
		}
		n++
		spec, _ := defaultResultSpec(f)
		wantSum := "serverSum"
		if strings.Contains(name, "server") {
			wantSum = "clientSum"
		}
		var sum *ssa.Call
		for _, s := range callsNamedIn(f, wantSum) {
			sum = s
		}
		if sum == nil {
			c.Violated(rule, fname(f), "the expected verify_data is computed", "no call to finishedHash."+wantSum, f.Pos())
			continue
		}
		// Decided semantically, whatever the shape of the code (a branch on the comparison, a named boolean, a De Morgan
		// variant): ASSUME the constant-time comparison of the expected verify_data with the received one does not
		// yield 1 — then no successful return may be reachable from the entry. Likewise for "the lengths differ".
		isCmp := func(v ssa.Value) bool {
			call, ok := v.(*ssa.Call)
			if !ok || calleeID(&call.Call) != "crypto/subtle.ConstantTimeCompare" || len(call.Call.Args) != 2 {
				return false
			}
			if call.Call.Args[0] != ssa.Value(sum) && call.Call.Args[1] != ssa.Value(sum) {
				return false
			}
			other := call.Call.Args[0]
			if other == ssa.Value(sum) {
				other = call.Call.Args[1]
			}
			if ld, ok := other.(*ssa.UnOp); ok {
				if fa, ok := ld.X.(*ssa.FieldAddr); ok && fieldName(fa.X.Type(), fa.Field) == "verifyData" {
					return true
				}
			}
			return false
		}
		nCmp, nLen := 0, 0
		assumeCmpFails := func(v ssa.Value) (bool, bool) {
			bo, ok := v.(*ssa.BinOp)
			if !ok || !isCmp(bo.X) {
				return false, false
			}
			if k, isK := constInt(bo.Y); !isK || k != 1 {
				return false, false
			}
			nCmp++
			switch bo.Op {
			case token.EQL:
				return false, true // compare == 1 is false
			case token.NEQ:
				return true, true
			}
			return false, false
		}
		assumeLenDiffers := func(v ssa.Value) (bool, bool) {
			bo, ok := v.(*ssa.BinOp)
			if !ok {
				return false, false
			}
			isSumLen := func(x ssa.Value) bool { return isLenOf(x, func(y ssa.Value) bool { return y == ssa.Value(sum) }) }
			if !isSumLen(bo.X) && !isSumLen(bo.Y) {
				return false, false
			}
			nLen++
			switch bo.Op {
			case token.EQL:
				return false, true
			case token.NEQ:
				return true, true
			}
			return false, false
		}
		check := func(assume func(ssa.Value) (bool, bool)) bool {
			saved := condEval
			condEval = assume
			defer func() { condEval = saved }()
			r, _ := canReachSuccess(f.Blocks[0], nil, successExits(f, spec), nil)
			return !r
		}
		okCmp := check(assumeCmpFails)
		c.Check(okCmp && nCmp > 0, rule, fname(f), "verify_data mismatch aborts and cannot be bypassed (constant-time comparison)", "", fmt.Sprintf("assuming subtle.ConstantTimeCompare(expected, received) does not return 1, a successful return is still reachable (comparisons found: %d): a peer that does not know the master secret or saw a different transcript is accepted", nCmp), sum.Pos())
		okLen := check(assumeLenDiffers)
		c.Check(okLen && nLen > 0, rule, fname(f), "verify_data of another length aborts", "", fmt.Sprintf("assuming the received verify_data has another length than the expected one, a successful return is still reachable (length comparisons found: %d)", nLen), sum.Pos())
		// the sum is over the master secret
		names := map[ssa.Value]string{}
		for _, p := range f.Params {
			names[p] = pname(p)
		}
		arg := fieldForm(newBigEnv(f, names).plain(sum.Call.Args[len(sum.Call.Args)-1], sum).String())
		c.Check(strings.HasSuffix(arg, "masterSecret"), rule, fname(f), "the expected verify_data is derived from the master secret", "", "the sum is computed from "+arg, sum.Pos())
	}
	if n < 4 {
		c.Undecided(rule, "gmtls", "readFinished variants", fmt.Sprintf("only %d found", n), token.NoPos)
	}
}

func c08ClientAuth(c *Ctx) {
	rule := "G-C08-clientauth"
	for _, name := range []string{"(*serverHandshakeState).processCertsFromClient", "(*serverHandshakeStateGM).processCertsFromClient"} {
		f := c.Fn("gmtls", name)
		if f == nil {
			c.Missing(rule, "gmtls."+name, "method", "not found")
			continue
		}
		spec, _ := defaultResultSpec(f)
		var v *ssa.Call
		for _, x := range callsNamedIn(f, "Verify") {
			v = x
		}
		if v == nil {
			c.Violated(rule, fname(f), "client chains are verified", "no Verify call", f.Pos())
			continue
		}
		var errv ssa.Value
		for _, u := range *v.Referrers() {
			if ex, ok := u.(*ssa.Extract); ok && ex.Index == 1 {
				errv = ex
			}
		}
		where := "the error is discarded"
		if errv != nil {
			where = nonNilReachesSuccess(c.P, f, v, errv, spec)
		}
		c.Check(where == "", rule, fname(f), "a client chain that does not verify aborts", "", where, v.Pos())
		if al := verifyOptsAlloc(v.Call.Args[1]); al != nil {
			names := map[ssa.Value]string{}
			for _, p := range f.Params {
				names[p] = pname(p)
			}
			be := newBigEnv(f, names)
			roots := ""
			for _, u := range *al.Referrers() {
				if fa, ok := u.(*ssa.FieldAddr); ok && fieldName(al.Type(), fa.Field) == "Roots" {
					for _, u2 := range *fa.Referrers() {
						if st, ok := u2.(*ssa.Store); ok && roots == "" {
							roots = fieldForm(be.plain(st.Val, st).String())
						}
					}
				}
			}
			c.Check(strings.HasSuffix(roots, "config.ClientCAs"), rule, fname(f), "client chains are verified against Config.ClientCAs", "", "Roots = "+roots, v.Pos())
		}
		// the Verify is skipped only by the policy test ClientAuth >= VerifyClientCertIfGiven && len(certs) > 0
		var sink *ssa.Store
		instrsOf(f, func(_ *ssa.BasicBlock, in ssa.Instruction) {
			if st, ok := in.(*ssa.Store); ok {
				if fa, ok := st.Addr.(*ssa.FieldAddr); ok && fieldName(fa.X.Type(), fa.Field) == "verifiedChains" {
					sink = st
				}
			}
		})
		if sink != nil {
			c.Check(sink.Block() == v.Block() || v.Block().Dominates(sink.Block()), rule, fname(f), "verifiedChains is only set from a successful Verify", "", "Conn.verifiedChains is assigned on a path that did not verify", sink.Pos())
		}
		var policy *ssa.If
		vc, _ := pkgConst(c, "gmtls", "VerifyClientCertIfGiven")
		for _, ifi := range ifsOf(f) {
			if bo, ok := ifi.Cond.(*ssa.BinOp); ok && bo.Op == token.GEQ {
				if k, isK := constInt(bo.Y); isK && k == vc {
					if ld, ok := bo.X.(*ssa.UnOp); ok {
						if fa, ok := ld.X.(*ssa.FieldAddr); ok && fieldName(fa.X.Type(), fa.Field) == "ClientAuth" {
							policy = ifi
						}
					}
				}
			}
		}
		c.Check(policy != nil && instrDominates(policy, v), rule, fname(f), "verification is governed by ClientAuth >= VerifyClientCertIfGiven", "", "the policy test that decides whether client chains are verified was not found in front of Verify", v.Pos())
	}
	for _, name := range []string{"(*serverHandshakeState).doFullHandshake", "(*serverHandshakeStateGM).doFullHandshake"} {
		f := c.Fn("gmtls", name)
		if f == nil {
			c.Missing(rule, "gmtls."+name, "method", "not found")
			continue
		}
		spec, _ := defaultResultSpec(f)
		// an empty certificate list under a requiring policy is rejected: evaluated for each value of the policy
		emptyEdges := emptyCertListEdges(f)
		if len(emptyEdges) != 1 {
			c.Undecided(rule, fname(f), "the test for an empty client certificate list", fmt.Sprintf("%d tests `len(certMsg.certificates) == 0` found", len(emptyEdges)), f.Pos())
			continue
		}
		for _, pol := range []string{"RequireAnyClientCert", "RequireAndVerifyClientCert"} {
			k, okc := pkgConst(c, "gmtls", pol)
			if !okc {
				c.Missing(rule, "gmtls."+pol, "constant", "not found")
				continue
			}
			c.Evals++
			// from the entry, with the policy fixed and the Certificate list empty (the non-empty edge removed): the
			// order in which the code tests policy and emptiness does not matter
			var r bool
			assumeFieldValue("ClientAuth", k, func() {
				cutE := fieldValueCut(f, "ClientAuth", k)
				for _, sblk := range emptyEdges[0].from.Succs {
					if sblk != emptyEdges[0].to {
						cutE[edge{emptyEdges[0].from, sblk}] = true
					}
				}
				r, _ = canReachSuccess(f.Blocks[0], nil, successExits(f, spec), cutE)
			})
			c.Check(!r, rule, fname(f), "an empty client certificate list is rejected under "+pol, "", "with ClientAuth == "+pol+" a client that sends no certificate can still reach the successful end of the handshake", f.Pos())
			// ... and the handshake cannot succeed without a non-empty Certificate message having been seen at all
			// (a client that skips the Certificate message must not get past this point either)
			c.Evals++
			cut := fieldValueCut(f, "ClientAuth", k)
			eb := emptyEdges[0].from
			for _, sblk := range eb.Succs {
				if sblk != emptyEdges[0].to {
					cut[edge{eb, sblk}] = true
				}
			}
			var r2 bool
			assumeFieldValue("ClientAuth", k, func() { r2, _ = canReachSuccess(f.Blocks[0], nil, successExits(f, spec), cut) })
			c.Check(!r2, rule, fname(f), "under "+pol+" the handshake succeeds only after a non-empty Certificate message", "", "with ClientAuth == "+pol+" the successful end of the handshake is reachable without the Certificate message having been received and found non-empty (e.g. the message is treated as optional): a client without any certificate is accepted", f.Pos())
		}
		// CertificateVerify: with a client certificate, the signature check cannot be bypassed
		vs := callsNamedIn(f, "verifyHandshakeSignature")
		if len(vs) != 1 {
			c.Violated(rule, fname(f), "CertificateVerify signature is checked", fmt.Sprintf("%d calls to verifyHandshakeSignature", len(vs)), f.Pos())
			continue
		}
		where := nonNilReachesSuccess(c.P, f, vs[0], vs[0], spec)
		c.Check(where == "", rule, fname(f), "a CertificateVerify that does not verify aborts", "", where, vs[0].Pos())
		// reached whenever peer certificates are present: the branch `len(c.peerCertificates) > 0`
		var gate *ssa.If
		for _, ifi := range ifsOf(f) {
			if bo, ok := ifi.Cond.(*ssa.BinOp); ok && bo.Op == token.GTR {
				if isLenOf(bo.X, func(v ssa.Value) bool {
					ld, ok := v.(*ssa.UnOp)
					if !ok {
						return false
					}
					fa, ok := ld.X.(*ssa.FieldAddr)
					return ok && fieldName(fa.X.Type(), fa.Field) == "peerCertificates"
				}) {
					gate = ifi
				}
			}
		}
		if gate == nil {
			c.Violated(rule, fname(f), "CertificateVerify is demanded when a client certificate was received", "no `len(c.peerCertificates) > 0` test found", f.Pos())
			continue
		}
		// from the true edge, success only through the verify call
		cut := map[edge]bool{}
		for _, b := range f.Blocks {
			for _, s := range b.Succs {
				if s == vs[0].Block() {
					cut[edge{b, s}] = true
				}
			}
		}
		for _, h := range callsNamedIn(f, "hashForClientCertificate") {
			for _, a := range errCheckAtoms(f, func(cl *ssa.Call) bool { return cl == h }, "digest error") {
				// the edge taken when computing the digest failed: that error is rejected (G-C15-err), it does
				// not lead to success
				b := a.If.Block()
				cut[edge{b, b.Succs[1-a.PassSucc]}] = true
			}
		}
		ok, w := true, (*ssa.BasicBlock)(nil)
		if gate.Block().Succs[0] != vs[0].Block() {
			r, at := canReachSuccess(gate.Block().Succs[0], nil, successExits(f, spec), cut)
			ok, w = !r, at
		}
		c.Check(ok, rule, fname(f), "with a client certificate present, success requires the CertificateVerify check", "", "a successful return at "+c.P.pos(lastPos(w))+" is reachable with a client certificate but without verifying its CertificateVerify", gate.Cond.Pos())
		// the public key verified against is the one processCertsFromClient returned
		names := map[ssa.Value]string{}
		for _, p := range f.Params {
			names[p] = pname(p)
		}
		pk := newBigEnv(f, names).plain(vs[0].Call.Args[1], vs[0]).String()
		if phi, isPhi := vs[0].Call.Args[1].(*ssa.Phi); isPhi {
			for _, e := range phi.Edges {
				if ex, ok := e.(*ssa.Extract); ok {
					if call, ok := ex.Tuple.(*ssa.Call); ok && call.Call.StaticCallee() != nil && call.Call.StaticCallee().Name() == "processCertsFromClient" && ex.Index == 0 {
						pk = "phi(nil | processCertsFromClient result)"
					}
				}
			}
		}
		c.Check(strings.Contains(pk, "processCertsFromClient"), rule, fname(f), "the CertificateVerify is checked under the client certificate's key", "", "verifyHandshakeSignature is given the key "+pk, vs[0].Pos())
	}
}

// c08Transcript: every handshake message handed to writeRecord(recordTypeHandshake, m.marshal()) is also written
// to finishedHash (m.marshal() of the same message object) in the same function
func c08Transcript(c *Ctx) {
	rule := "G-C08-transcript"
	hsType, _ := pkgConst(c, "gmtls", "recordTypeHandshake")
	n := 0
	for _, f := range c.P.RepoFuncs("gmtls") {
		recv := f.Signature.Recv()
		if recv == nil {
			continue
		}
		rt := recv.Type().String()
		if !strings.HasSuffix(rt, "HandshakeState") && !strings.HasSuffix(rt, "HandshakeStateGM") {
			continue
		}
		file := c.P.relFile(f.Pos())
		if file == "gmtls/gm_handshake_client.go" || file == "gmtls/gm_handshake_server.go" {
			continue // single_cert build variants, not compiled
		}
		ord := 0
		for _, w := range callsNamedIn(f, "writeRecord") {
			if k, isK := constInt(w.Call.Args[1]); !isK || k != hsType {
				continue
			}
			ord++
			n++
			c.Evals++
			construct := fmt.Sprintf("handshake message sent by writeRecord #%d is in the transcript", ord)
			m, ok := w.Call.Args[2].(*ssa.Call)
			if !ok || m.Call.StaticCallee() == nil || m.Call.StaticCallee().Name() != "marshal" {
				c.Violated(rule, fname(f), construct, "the record payload is not m.marshal() of a handshake message", w.Pos())
				continue
			}
			msgObj := m.Call.Args[0]
			found := false
			for _, fw := range callsNamedIn(f, "Write") {
				sc := fw.Call.StaticCallee()
				if sc == nil || !strings.HasSuffix(fname(sc), "finishedHash).Write") {
					continue
				}
				m2, ok := fw.Call.Args[1].(*ssa.Call)
				if !ok || m2.Call.StaticCallee() == nil || m2.Call.StaticCallee().Name() != "marshal" {
					continue
				}
				same := m2.Call.Args[0] == msgObj || sameFieldValue(f, m2.Call.Args[0], msgObj)
				if same {
					found = true
				}
			}
			c.Check(found, rule, fname(f), construct, "", "the message is sent but never written to finishedHash: both ends of this library would agree on a transcript that omits it, so a change to it in transit is not detected by Finished", w.Pos())
		}
	}
	if n < 15 {
		c.Undecided(rule, "gmtls", "handshake messages sent", fmt.Sprintf("only %d writeRecord(recordTypeHandshake, …) sites found", n), token.NoPos)
	}
}

// verifyLoopHeader: v sits in a range loop whose first iteration (index 0) necessarily reaches it and whose slice
// is provably non-empty on entry; returns the loop header
func verifyLoopHeader(c *Ctx, f *ssa.Function, v *ssa.Call) *ssa.BasicBlock {
	for _, h := range loopHeaders(f) {
		blocks := loopBlocks(h)
		if !blocks[v.Block()] {
			continue
		}
		// a counted loop `for i := c0; i < K && i < len(S); i++ { Verify }`: every test between the header and the
		// Verify block is true in the first iteration (K > c0 is a constant fact, len(S) > c0 is proven at the entry)
		if hh := countedVerifyLoop(c, f, h, v); hh != nil {
			return hh
		}
		// range index: phi(-1, +1), compared with len(S)
		var inc *ssa.BinOp
		var lenOf ssa.Value
		if ifi, ok := lastIf(h); ok {
			if cmp, ok := ifi.Cond.(*ssa.BinOp); ok && cmp.Op == token.LSS {
				if b, ok := cmp.X.(*ssa.BinOp); ok && b.Op == token.ADD {
					if phi, ok := b.X.(*ssa.Phi); ok && phi.Block() == h {
						// range index: -1 on entry, index+1 on every back edge (a `continue` adds back edges)
						isRange := true
						if k, isK := constInt(b.Y); !isK || k != 1 {
							isRange = false
						}
						for _, e := range phi.Edges {
							if k, isK := constInt(e); isK && k == -1 {
								continue
							}
							if e != ssa.Value(b) {
								isRange = false
							}
						}
						if isRange {
							inc = b
							isLenOf(cmp.Y, func(x ssa.Value) bool { lenOf = x; return true })
						}
					}
				}
			}
		}
		dbg("verifyLoopHeader %s: header found inc=%v lenOf=%v", fname(f), inc != nil, lenOf != nil)
		if inc == nil || lenOf == nil {
			continue
		}
		// an `index == 0` test in the loop whose true edge leads (without further conditions) to the Verify block
		reaches0 := false
		for b := range blocks {
			ifi, ok := lastIf(b)
			if !ok {
				continue
			}
			bo, ok := ifi.Cond.(*ssa.BinOp)
			if !ok || bo.Op != token.EQL || bo.X != ssa.Value(inc) {
				continue
			}
			if k, isK := constInt(bo.Y); !isK || k != 0 {
				continue
			}
			t := b.Succs[0]
			for t != v.Block() && len(t.Succs) == 1 {
				t = t.Succs[0]
			}
			if t == v.Block() && (b == h.Succs[0] || h.Succs[0].Dominates(b)) {
				// the test itself must be reached unconditionally from the body entry
				d := b
				uncond := true
				for d != h.Succs[0] {
					id := d.Idom()
					if id == nil || !blocks[id] {
						uncond = false
						break
					}
					if _, isIf := lastIf(id); isIf && id != h {
						// a conditional on the way: only acceptable if both its edges stay on the way to b
						if !(id.Succs[0] == d || id.Succs[1] == d) || len(d.Preds) != 1 {
							uncond = false
							break
						}
						uncond = false
						break
					}
					d = id
				}
				if uncond || b == h.Succs[0] {
					reaches0 = true
				}
			}
		}
		dbg("verifyLoopHeader %s: reaches0=%v", fname(f), reaches0)
		if !reaches0 {
			continue
		}
		// the slice is not empty on entry
		lb := &LB{p: c.P, f: f, UsedContracts: map[string]bool{}}
		for _, p := range h.Preds {
			if h.Dominates(p) {
				continue
			}
			if !lb.prove([]cons{ge(lb.lenLin(lenOf), linConst(1))}, p, nil, map[lvar]lin{}, 0) {
				dbg("verifyLoopHeader %s: len >= 1 not proven", fname(f))
				return nil
			}
		}
		return h
	}
	return nil
}

// c08Roots: the trust anchors used for the server chain are the configured ones: nothing received from the peer is
// ever added to the Roots pool (peer-supplied certificates may only become intermediates)
func c08Roots(c *Ctx) {
	rule := "G-C08-roots"
	n := 0
	for _, name := range []string{"(*clientHandshakeState).doFullHandshake", "(*clientHandshakeStateGM).doFullHandshake", "(*serverHandshakeState).processCertsFromClient", "(*serverHandshakeStateGM).processCertsFromClient"} {
		f := c.Fn("gmtls", name)
		if f == nil {
			c.Missing(rule, "gmtls."+name, "method", "not found")
			continue
		}
		for _, call := range callsNamedIn(f, "AddCert") {
			n++
			c.Evals++
			// receiver: opts.Intermediates or opts.Roots
			pool := ""
			if ld, ok := call.Call.Args[0].(*ssa.UnOp); ok {
				if fa, ok := ld.X.(*ssa.FieldAddr); ok {
					pool = fieldName(fa.X.Type(), fa.Field)
				}
			}
			construct := fmt.Sprintf("AddCert #%d does not add a peer certificate to the roots", siteOrdinalByID(f, call))
			if pool == "Intermediates" {
				c.Holds(rule, fname(f), construct, "adds to the intermediates pool", call.Pos())
				continue
			}
			// anything else (Roots, or an unknown pool): the certificate must not come from the peer's message
			fromPeer := false
			if ld, ok := call.Call.Args[1].(*ssa.UnOp); ok {
				if ia, ok := ld.X.(*ssa.IndexAddr); ok {
					switch x := ia.X.(type) {
					case *ssa.MakeSlice:
						fromPeer = true
					case *ssa.Slice:
						_, fromPeer = x.X.(*ssa.MakeSlice)
					}
				}
			}
			c.Check(!fromPeer, rule, fname(f), construct, "the added certificate comes from the built-in list, not from the peer's message", "a certificate parsed from the peer's Certificate message is added to the "+pool+" pool: the peer chooses its own trust anchor", call.Pos())
		}
	}
	if n < 4 {
		c.Undecided(rule, "gmtls", "AddCert call sites", fmt.Sprintf("only %d found", n), token.NoPos)
	}
	// the GMSSL client adds getCAs() to the caller's root pool before verifying: that list must be empty — the only
	// trust anchors are the ones the caller configured (the function keeps a disabled list of built-in CA
	// certificates behind an early `return nil`)
	if g := c.Fn("gmtls", "getCAs"); g != nil {
		okNil := true
		var pos token.Pos
		for _, b := range reachableBlocks(g) {
			if ret, ok := b.Instrs[len(b.Instrs)-1].(*ssa.Return); ok && len(ret.Results) == 1 && !isNilConst(ret.Results[0]) {
				okNil = false
				pos = ret.Pos()
			}
		}
		c.Check(okNil, rule, fname(g), "no built-in certificate authorities are added to the caller's roots", "every reachable return yields nil", "getCAs can return certificates, and the GMSSL client adds them to the configured RootCAs pool before verifying the server: servers certified by those built-in authorities are accepted although the caller never trusted them (and the caller's pool object is modified)", pos)
	}
}

// reachableBlocks: blocks reachable from the entry (go/ssa keeps code after an unconditional return out of the graph,
// but a function may also contain blocks cut off by constant conditions)
func reachableBlocks(f *ssa.Function) []*ssa.BasicBlock {
	var out []*ssa.BasicBlock
	for b := range reach([]*ssa.BasicBlock{f.Blocks[0]}, deadEdges(f)) {
		out = append(out, b)
	}
	return out
}

// emptyCertListEdges: the edges taken when the received client Certificate message carries no certificate
// (`len(certMsg.certificates) == 0` and equivalent comparisons)
func emptyCertListEdges(f *ssa.Function) []edge {
	var out []edge
	for _, ifi := range ifsOf(f) {
		bo, ok := ifi.Cond.(*ssa.BinOp)
		if !ok {
			continue
		}
		isCerts := func(v ssa.Value) bool {
			return isLenOf(v, func(x ssa.Value) bool {
				ld, ok := x.(*ssa.UnOp)
				if !ok {
					return false
				}
				fa, ok := ld.X.(*ssa.FieldAddr)
				if !ok || fieldName(fa.X.Type(), fa.Field) != "certificates" {
					return false
				}
				return strings.HasSuffix(fa.X.Type().String(), "certificateMsg")
			})
		}
		if !isCerts(bo.X) {
			continue
		}
		k, isK := constInt(bo.Y)
		if !isK {
			continue
		}
		b := ifi.Block()
		switch {
		case bo.Op == token.EQL && k == 0, bo.Op == token.LSS && k == 1, bo.Op == token.LEQ && k == 0:
			out = append(out, edge{b, b.Succs[0]})
		case bo.Op == token.NEQ && k == 0, bo.Op == token.GTR && k == 0, bo.Op == token.GEQ && k == 1:
			out = append(out, edge{b, b.Succs[1]})
		}
	}
	return out
}

// assumeFieldValue: evaluate comparisons between a load of the field and a constant under "field == k" wherever a
// boolean value is needed (branch conditions and boolean phi inputs), for the duration of fn
func assumeFieldValue(field string, k int64, fn func()) {
	saved := condEval
	isField := func(v ssa.Value) bool {
		ld, ok := v.(*ssa.UnOp)
		if !ok || ld.Op != token.MUL {
			return false
		}
		fa, ok := ld.X.(*ssa.FieldAddr)
		return ok && fieldName(fa.X.Type(), fa.Field) == field
	}
	condEval = func(v ssa.Value) (bool, bool) {
		bo, ok := v.(*ssa.BinOp)
		if !ok {
			return false, false
		}
		var kc int64
		op := bo.Op
		if c2, isK := constInt(bo.Y); isK && isField(bo.X) {
			kc = c2
		} else if c1, isK := constInt(bo.X); isK && isField(bo.Y) {
			kc = c1
			switch op {
			case token.LSS:
				op = token.GTR
			case token.LEQ:
				op = token.GEQ
			case token.GTR:
				op = token.LSS
			case token.GEQ:
				op = token.LEQ
			}
		} else {
			return false, false
		}
		switch op {
		case token.EQL:
			return k == kc, true
		case token.NEQ:
			return k != kc, true
		case token.LSS:
			return k < kc, true
		case token.LEQ:
			return k <= kc, true
		case token.GTR:
			return k > kc, true
		case token.GEQ:
			return k >= kc, true
		}
		return false, false
	}
	defer func() { condEval = saved }()
	fn()
}

// fieldValueCut: the CFG edges that cannot be taken when the (configuration) field named `field` has the value k:
// every branch on a comparison between a load of that field and a constant is resolved.
func fieldValueCut(f *ssa.Function, field string, k int64) map[edge]bool {
	cut := map[edge]bool{}
	isField := func(v ssa.Value) bool {
		ld, ok := v.(*ssa.UnOp)
		if !ok || ld.Op != token.MUL {
			return false
		}
		fa, ok := ld.X.(*ssa.FieldAddr)
		return ok && fieldName(fa.X.Type(), fa.Field) == field
	}
	for _, ifi := range ifsOf(f) {
		bo, ok := ifi.Cond.(*ssa.BinOp)
		if !ok {
			continue
		}
		var kc int64
		op := bo.Op
		if c2, isK := constInt(bo.Y); isK && isField(bo.X) {
			kc = c2
		} else if c1, isK := constInt(bo.X); isK && isField(bo.Y) {
			kc = c1
			switch op { // mirror: c op field  ==  field op' c
			case token.LSS:
				op = token.GTR
			case token.LEQ:
				op = token.GEQ
			case token.GTR:
				op = token.LSS
			case token.GEQ:
				op = token.LEQ
			}
		} else {
			continue
		}
		var val bool
		switch op {
		case token.EQL:
			val = k == kc
		case token.NEQ:
			val = k != kc
		case token.LSS:
			val = k < kc
		case token.LEQ:
			val = k <= kc
		case token.GTR:
			val = k > kc
		case token.GEQ:
			val = k >= kc
		default:
			continue
		}
		b := ifi.Block()
		if val {
			cut[edge{b, b.Succs[1]}] = true
		} else {
			cut[edge{b, b.Succs[0]}] = true
		}
	}
	return cut
}

// c08KeyUsage: the GMSSL client accepts a certificate in the signing slot only if its key usage allows signing and
// in the encryption slot only if it allows encipherment / key agreement. The branch conditions are evaluated for
// all 512 KeyUsage values (nothing is matched syntactically), so an equivalent rewrite passes and a precedence slip fails.
func c08KeyUsage(c *Ctx) {
	rule := "G-C08-keyusage"
	f := c.Fn("gmtls", "(*clientHandshakeStateGM).doFullHandshake")
	if f == nil {
		c.Missing(rule, "gmtls.(*clientHandshakeStateGM).doFullHandshake", "method", "not found")
		return
	}
	spec, _ := defaultResultSpec(f)
	ex := successExits(f, spec)
	ku := func(name string) int64 { k, _ := pkgConst(c, "x509", name); return k }
	sign := ku("KeyUsageDigitalSignature") | ku("KeyUsageContentCommitment")
	enc := ku("KeyUsageDataEncipherment") | ku("KeyUsageKeyEncipherment") | ku("KeyUsageKeyAgreement")
	if sign == 0 || enc == 0 {
		c.Missing(rule, "x509.KeyUsage*", "constants", "not found")
		return
	}
	// eval: value of an SSA expression that depends only on a load of .KeyUsage and constants
	var eval func(v ssa.Value, kuv int64, depth int) (int64, bool, bool) // value, usesKU, ok
	eval = func(v ssa.Value, kuv int64, depth int) (int64, bool, bool) {
		if depth > 12 {
			return 0, false, false
		}
		if k, isK := constInt(v); isK {
			return k, false, true
		}
		switch x := v.(type) {
		case *ssa.UnOp:
			if x.Op == token.MUL {
				if fa, ok := x.X.(*ssa.FieldAddr); ok && fieldName(fa.X.Type(), fa.Field) == "KeyUsage" {
					return kuv, true, true
				}
			}
		case *ssa.Convert:
			return eval(x.X, kuv, depth+1)
		case *ssa.ChangeType:
			return eval(x.X, kuv, depth+1)
		case *ssa.BinOp:
			a, ua, ok1 := eval(x.X, kuv, depth+1)
			b, ub, ok2 := eval(x.Y, kuv, depth+1)
			if !ok1 || !ok2 {
				return 0, false, false
			}
			bo := func(t bool) int64 {
				if t {
					return 1
				}
				return 0
			}
			u := ua || ub
			switch x.Op {
			case token.AND:
				return a & b, u, true
			case token.OR:
				return a | b, u, true
			case token.XOR:
				return a ^ b, u, true
			case token.AND_NOT:
				return a &^ b, u, true
			case token.EQL:
				return bo(a == b), u, true
			case token.NEQ:
				return bo(a != b), u, true
			case token.GTR:
				return bo(a > b), u, true
			case token.LSS:
				return bo(a < b), u, true
			case token.GEQ:
				return bo(a >= b), u, true
			case token.LEQ:
				return bo(a <= b), u, true
			}
		}
		return 0, false, false
	}
	kuIf := map[*ssa.BasicBlock]*ssa.If{}
	for _, ifi := range ifsOf(f) {
		if _, uses, ok := eval(ifi.Cond, 0, 0); ok && uses {
			kuIf[ifi.Block()] = ifi
		}
	}
	// roots: key-usage tests not entered from another key-usage test
	entered := map[*ssa.BasicBlock]bool{}
	for b := range kuIf {
		for _, s := range b.Succs {
			if kuIf[s] != nil {
				entered[s] = true
			}
		}
	}
	slotOf := func(b *ssa.BasicBlock) int64 {
		for d := b.Idom(); d != nil; d = d.Idom() {
			ifi, ok := d.Instrs[len(d.Instrs)-1].(*ssa.If)
			if !ok {
				continue
			}
			bo, ok := ifi.Cond.(*ssa.BinOp)
			if !ok || bo.Op != token.EQL {
				continue
			}
			if k, isK := constInt(bo.Y); isK && (d.Succs[0] == b || d.Succs[0].Dominates(b)) && len(d.Succs[0].Preds) == 1 {
				return k
			}
		}
		return -1
	}
	done := map[int64]bool{}
	var roots []*ssa.BasicBlock
	for b := range kuIf {
		if !entered[b] {
			roots = append(roots, b)
		}
	}
	sort.Slice(roots, func(i, j int) bool { return roots[i].Index < roots[j].Index })
	for _, root := range roots {
		slot := slotOf(root)
		var need int64
		var what string
		switch slot {
		case 0:
			need, what = sign, "the signing slot (certificate 0) rejects a certificate whose key usage has neither digitalSignature nor contentCommitment"
		case 1:
			need, what = enc, "the encryption slot (certificate 1) rejects a certificate whose key usage has none of dataEncipherment, keyEncipherment, keyAgreement"
		default:
			continue
		}
		done[slot] = true
		c.Evals++
		bad := int64(-1)
		for v := int64(0); v < 512 && bad < 0; v++ {
			if v&need != 0 {
				continue
			}
			b := root
			for steps := 0; kuIf[b] != nil && steps < 32; steps++ {
				val, _, _ := eval(kuIf[b].Cond, v, 0)
				if val != 0 {
					b = b.Succs[0]
				} else {
					b = b.Succs[1]
				}
			}
			if r, _ := canReachSuccess(b, nil, ex, nil); r {
				bad = v
			}
		}
		c.Check(bad < 0, rule, fname(f), what, "", fmt.Sprintf("a certificate with KeyUsage %#x passes the test: a server holding only the other key of the pair (e.g. the escrowed encryption key) can take this role", bad), kuIf[root].Cond.Pos())
	}
	for _, slot := range []int64{0, 1} {
		if !done[slot] {
			c.Violated(rule, fname(f), fmt.Sprintf("key usage of certificate %d is tested", slot), "no branch on the certificate's KeyUsage was found for this slot", f.Pos())
		}
	}
}

// c08PreMaster: the RSA / SM2-ECC pre-master secret is version || 46 bytes drawn with io.ReadFull from the
// configuration's random source into the tail of a fresh 48-byte buffer (proved lengths, not a pattern): only then
// does decrypting the ClientKeyExchange prove possession of the server's (encryption) key. Also: every copy into a
// freshly allocated buffer in the TLS code is complete.
func c08PreMaster(c *Ctx) {
	rule := "K-C08-premaster"
	for _, name := range []string{"(*eccKeyAgreementGM).generateClientKeyExchange", "rsaKeyAgreement.generateClientKeyExchange"} {
		f := c.Fn("gmtls", name)
		if f == nil {
			c.Missing(rule, "gmtls."+name, "method", "not found")
			continue
		}
		lb := &LB{p: c.P, f: f, UsedContracts: map[string]bool{}}
		n := 0
		for _, ci := range allCalls(f) {
			call, ok := ci.(*ssa.Call)
			if !ok || calleeID(&call.Call) != "io.ReadFull" {
				continue
			}
			n++
			c.Evals++
			dst := call.Call.Args[1]
			okLen := lb.prove([]cons{ge(lb.lenLin(dst), linConst(46)), le(lb.lenLin(dst), linConst(46))}, call.Block(), nil, map[lvar]lin{}, 1)
			// the reader is config.rand()
			okSrc := false
			if mi, isMI := call.Call.Args[0].(*ssa.Call); isMI && calleeNamed(mi, "rand") {
				okSrc = true
			}
			// the buffer is the first result-bearing value: returned as the pre-master secret
			okRet := false
			root := dst
			for {
				if sl, isSl := root.(*ssa.Slice); isSl {
					root = sl.X
					continue
				}
				break
			}
			for _, b := range f.Blocks {
				if ret, isRet := b.Instrs[len(b.Instrs)-1].(*ssa.Return); isRet && len(ret.Results) >= 1 {
					r0 := unspill(ret.Results[0])
					for {
						if sl, isSl := r0.(*ssa.Slice); isSl {
							r0 = sl.X
							continue
						}
						break
					}
					if r0 == root {
						okRet = true
					}
				}
			}
			c.Check(okLen && okSrc && okRet, rule, fname(f), "46 random bytes from Config.rand() fill the pre-master secret that is returned", "", fmt.Sprintf("the pre-master secret is not version || 46 fresh random bytes (ReadFull fills exactly 46 bytes: %v; source is config.rand(): %v; the filled buffer is the returned secret: %v): a constant or short secret lets a server without the private key complete the handshake", okLen, okSrc, okRet), call.Pos())
		}
		if n != 1 {
			c.Undecided(rule, fname(f), "the random draw of the pre-master secret", fmt.Sprintf("%d io.ReadFull calls found", n), f.Pos())
		}
	}
	completeCopies(c, "G-COPY-complete", "gmtls", func(f *ssa.Function) bool { return f.Name() == "marshal" || f.Name() == "unmarshal" })
}

// lostReceiverStores: a method with a by-value struct receiver that assigns to a field of that receiver writes into its
// private copy; unless the method itself reads the field afterwards the assignment has no effect at all. In gmtls this
// is how a transcript can silently stop accumulating (finishedHash.Write appending to h.buffer): the handshake buffer
// that CertificateVerify signs stays empty on both sides, so the proof of possession covers no session data.
func lostReceiverStores(c *Ctx, rule, pkg string) {
	n := 0
	for f := range c.P.AllFns {
		if !inRepo(f) || f.Pkg == nil || f.Pkg.Pkg.Name() != pkg || f.Blocks == nil || f.Signature.Recv() == nil || len(f.Params) == 0 {
			continue
		}
		if _, isPtr := f.Signature.Recv().Type().(*types.Pointer); isPtr {
			continue
		}
		if _, isStruct := f.Signature.Recv().Type().Underlying().(*types.Struct); !isStruct {
			continue
		}
		n++
		// the spilled copy of the receiver
		var spill *ssa.Alloc
		for _, u := range *f.Params[0].Referrers() {
			if st, ok := u.(*ssa.Store); ok && st.Val == ssa.Value(f.Params[0]) {
				if al, ok := st.Addr.(*ssa.Alloc); ok {
					spill = al
				}
			}
		}
		if spill == nil {
			continue
		}
		for _, u := range *spill.Referrers() {
			fa, ok := u.(*ssa.FieldAddr)
			if !ok {
				continue
			}
			for _, u2 := range *fa.Referrers() {
				st, ok := u2.(*ssa.Store)
				if !ok || st.Addr != ssa.Value(fa) {
					continue
				}
				// is the field (or the whole copy) read after the store?
				used := false
				for _, u3 := range *spill.Referrers() {
					switch x := u3.(type) {
					case *ssa.FieldAddr:
						if x.Field != fa.Field {
							continue
						}
						for _, u4 := range *x.Referrers() {
							if ld, ok := u4.(*ssa.UnOp); ok && ld.Op == token.MUL && reachesAvoidingAll(st, ld, nil) {
								used = true
							}
						}
					case *ssa.UnOp:
						if x.Op == token.MUL && reachesAvoidingAll(st, x, nil) {
							used = true
						}
					case *ssa.Call, *ssa.MakeInterface, *ssa.MakeClosure:
						used = true // the copy escapes
					}
				}
				c.Check(used, rule, fname(f), "assignment to "+fieldName(fa.X.Type(), fa.Field)+" of the by-value receiver is not lost", "", "the method has a value receiver and assigns to its field "+fieldName(fa.X.Type(), fa.Field)+" without reading it again: the assignment only changes a private copy and is lost when the method returns (a transcript buffer appended to this way never grows)", st.Pos())
			}
		}
	}
	if n == 0 {
		c.Undecided(rule, pkg, "methods with value receivers", "none found", token.NoPos)
	}
}

// c08Callback: Config.VerifyPeerCertificate, when set, is consulted on every path of the clients' full handshake:
// ASSUME the field is non-nil; with the edges into the block(s) that call it removed, no successful return is reachable.
func c08Callback(c *Ctx) {
	rule := "G-C08-callback"
	isField := func(v ssa.Value) bool {
		ld, ok := v.(*ssa.UnOp)
		if !ok || ld.Op != token.MUL {
			return false
		}
		fa, ok := ld.X.(*ssa.FieldAddr)
		return ok && fieldName(fa.X.Type(), fa.Field) == "VerifyPeerCertificate"
	}
	for _, name := range []string{"(*clientHandshakeState).doFullHandshake", "(*clientHandshakeStateGM).doFullHandshake"} {
		f := c.Fn("gmtls", name)
		if f == nil {
			c.Missing(rule, "gmtls."+name, "method", "not found")
			continue
		}
		cut := map[edge]bool{}
		n := 0
		for _, ci := range allCalls(f) {
			call, ok := ci.(*ssa.Call)
			if !ok || call.Call.IsInvoke() || call.Call.StaticCallee() != nil || !isField(call.Call.Value) {
				continue
			}
			n++
			for _, p := range call.Block().Preds {
				cut[edge{p, call.Block()}] = true
			}
		}
		if n == 0 {
			c.Violated(rule, fname(f), "VerifyPeerCertificate is called", "the client never calls Config.VerifyPeerCertificate: an application that pins or re-checks the peer certificate there is silently bypassed", f.Pos())
			continue
		}
		spec, _ := defaultResultSpec(f)
		saved := condEval
		condEval = func(v ssa.Value) (bool, bool) {
			if bo, ok := v.(*ssa.BinOp); ok && (bo.Op == token.NEQ || bo.Op == token.EQL) {
				if (isField(bo.X) && isNilConst(bo.Y)) || (isField(bo.Y) && isNilConst(bo.X)) {
					return bo.Op == token.NEQ, true
				}
			}
			if saved != nil {
				return saved(v)
			}
			return false, false
		}
		// first handshake of the connection (a renegotiation only requires the certificate to be unchanged)
		var r bool
		var w *ssa.BasicBlock
		inner := condEval
		assumeFieldValue("handshakes", 0, func() {
			fv := condEval
			condEval = func(v ssa.Value) (bool, bool) {
				if b, known := inner(v); known {
					return b, true
				}
				return fv(v)
			}
			r, w = canReachSuccess(f.Blocks[0], nil, successExits(f, spec), mergeEdges(cut, deadEdges(f), fieldValueCut(f, "handshakes", 0)))
		})
		condEval = saved
		c.Check(!r, rule, fname(f), "with VerifyPeerCertificate set, the handshake cannot succeed without calling it", "", "assuming Config.VerifyPeerCertificate != nil, the successful return at "+c.P.pos(lastPos(w))+" is reachable on a path that does not call it: the application's own check of the peer certificate (a pin, an extra policy) is skipped", lastPos(w))
	}
}

// c08CacheKey: a resumed session skips certificate verification, so a cached session may only be offered for the NAME it
// was verified for: with a non-empty Config.ServerName the session-cache key is that name (the peer address is only
// the fallback). Decided on values: with len(config.ServerName) >= 1 every reachable return yields config.ServerName.
func c08CacheKey(c *Ctx) {
	rule := "K-C08-cachekey"
	f := c.Fn("gmtls", "clientSessionCacheKey")
	if f == nil {
		c.Undecided(rule, "gmtls.clientSessionCacheKey", "session cache key", "function not found", token.NoPos)
		return
	}
	ci := newCondIndex(f, paramNames(f, "serverAddr", "config"))
	bad := token.NoPos
	n := 0
	ci.withInterval("len(config.ServerName)", 1, 0, func() {
		for b := range reach([]*ssa.BasicBlock{f.Blocks[0]}, deadEdges(f)) {
			if ret, ok := b.Instrs[len(b.Instrs)-1].(*ssa.Return); ok && len(ret.Results) == 1 {
				n++
				if ci.be.plain(ret.Results[0], ret).String() != "config.ServerName" {
					bad = ret.Pos()
				}
			}
		}
	})
	c.Check(n > 0 && bad == token.NoPos, rule, fname(f), "with a server name configured, sessions are cached under that name", "", "with a non-empty ServerName the cache key can be something else (the peer address): a session verified for one name is offered, and resumed without any certificate check, when the same address is contacted under another name", bad)
}

// dataFrom: v is computed (data flow only: operands, values stored into the allocation or its fields) from src
func dataFrom(v ssa.Value, src ssa.Value, seen map[ssa.Value]bool) bool {
	if v == nil || seen[v] {
		return false
	}
	seen[v] = true
	if v == src {
		return true
	}
	if al, ok := v.(*ssa.Alloc); ok {
		var addrs []ssa.Value
		addrs = append(addrs, al)
		for i := 0; i < len(addrs); i++ {
			a := addrs[i]
			if a.Referrers() == nil {
				continue
			}
			for _, u := range *a.Referrers() {
				switch x := u.(type) {
				case *ssa.FieldAddr:
					addrs = append(addrs, x)
				case *ssa.IndexAddr:
					addrs = append(addrs, x)
				case *ssa.Store:
					if x.Addr == a && dataFrom(x.Val, src, seen) {
						return true
					}
				}
			}
		}
		return false
	}
	in, ok := v.(ssa.Instruction)
	if !ok {
		return false
	}
	for _, op := range in.Operands(nil) {
		if *op != nil && dataFrom(*op, src, seen) {
			return true
		}
	}
	return false
}

// c08SKEKey: the ECDHE key agreements check the ServerKeyExchange signature under the key of the certificate the
// handshake verified — a verification call none of whose operands is computed from the `cert` parameter checks the
// signature under some other key (e.g. the ephemeral key the same message carries, which any attacker can sign with).
func c08SKEKey(c *Ctx) {
	rule := "G-C08-ske"
	for _, name := range []string{"(*ecdheKeyAgreementGM).processServerKeyExchange", "(*ecdheKeyAgreement).processServerKeyExchange"} {
		f := c.Fn("gmtls", name)
		if f == nil {
			c.Missing(rule, "gmtls."+name, "method", "not found")
			continue
		}
		var cert ssa.Value
		for _, p := range f.Params {
			if pname(p) == "cert" {
				cert = p
			}
		}
		var vcalls []*ssa.Call
		for _, ci := range allCalls(f) {
			call, ok := ci.(*ssa.Call)
			if !ok {
				continue
			}
			nm := ""
			if sc := call.Call.StaticCallee(); sc != nil {
				nm = sc.Name()
			} else if call.Call.IsInvoke() {
				nm = call.Call.Method.Name()
			}
			if strings.Contains(strings.ToLower(nm), "verify") {
				vcalls = append(vcalls, call)
			}
		}
		if cert == nil || len(vcalls) == 0 {
			c.Violated(rule, fname(f), "the signature is verified under the certificate's key", fmt.Sprintf("%d verification calls", len(vcalls)), f.Pos())
			continue
		}
		bad := token.NoPos
		for _, v := range vcalls {
			from := false
			for _, op := range v.Operands(nil) {
				if *op != nil && dataFrom(*op, cert, map[ssa.Value]bool{}) {
					from = true
				}
			}
			if !from {
				bad = v.Pos()
			}
		}
		c.Evals += len(vcalls)
		c.Check(bad == token.NoPos, rule, fname(f), "the signature is verified under the certificate's key", fmt.Sprintf("%d verification call(s), each with an operand computed from cert", len(vcalls)),
			"a verification call takes no operand computed from the cert parameter: the ServerKeyExchange signature is checked under a key the certificate chain says nothing about", bad)
		spec, _ := defaultResultSpec(f)
		for _, v := range vcalls {
			if _, isErr := v.Type().Underlying().(*types.Interface); !isErr {
				continue
			}
			// `return verify(...)`: the result is the function's result
			direct := false
			for _, u := range *v.Referrers() {
				if _, ok := u.(*ssa.Return); ok {
					direct = true
				}
			}
			if direct {
				c.Holds(rule, fname(f), "a signature that does not verify is an error", "the verifier's error is returned as is", v.Pos())
				continue
			}
			where := nonNilReachesSuccess(c.P, f, v, v, spec)
			c.Check(where == "", rule, fname(f), "a signature that does not verify is an error", "", where, v.Pos())
		}
	}
}

func countedVerifyLoop(c *Ctx, f *ssa.Function, h *ssa.BasicBlock, v *ssa.Call) *ssa.BasicBlock {
	var ind induction
	found := false
	for _, p := range phisOf(h) {
		if iv, ok := inductionOf(p); ok && iv.step == 1 {
			ind, found = iv, true
			break
		}
	}
	if !found {
		return nil
	}
	lb := &LB{p: c.P, f: f, UsedContracts: map[string]bool{}}
	b := h
	for steps := 0; steps < 4; steps++ {
		if b == v.Block() {
			return h
		}
		ifi, ok := lastIf(b)
		if !ok {
			if len(b.Succs) == 1 {
				b = b.Succs[0]
				continue
			}
			return nil
		}
		// only the test may live in a block on the way (phis, len, comparison)
		for _, in := range b.Instrs {
			switch x := in.(type) {
			case *ssa.Phi, *ssa.BinOp, *ssa.If, *ssa.DebugRef:
			case *ssa.Call:
				if bi, isBi := x.Call.Value.(*ssa.Builtin); !isBi || bi.Name() != "len" {
					return nil
				}
			default:
				return nil
			}
		}
		cmp, ok := ifi.Cond.(*ssa.BinOp)
		if !ok || cmp.Op != token.LSS || cmp.X != ssa.Value(ind.phi) {
			return nil
		}
		if k, isK := constInt(cmp.Y); isK {
			if k <= ind.init {
				return nil
			}
		} else {
			var lenOf ssa.Value
			if !isLenOf(cmp.Y, func(x ssa.Value) bool { lenOf = x; return true }) {
				return nil
			}
			for _, p := range h.Preds {
				if h.Dominates(p) {
					continue
				}
				if !lb.prove([]cons{ge(lb.lenLin(lenOf), linConst(ind.init+1))}, p, nil, map[lvar]lin{}, 0) {
					return nil
				}
			}
		}
		b = b.Succs[0]
	}
	if b == v.Block() {
		return h
	}
	return nil
}
