package main

import (
	"fmt"
	"go/token"
	"go/types"
	"regexp"
	"strings"

	"golang.org/x/tools/go/ssa"
)

// completeCopies: a copy into a buffer that the same function has just allocated for it is complete — the
// destination is provably at least as long as the source — and randomness read into such a buffer fills a provably
// non-empty slice. (copy and io.ReadFull silently do less when the destination is short: `make([]byte, 0, n)`
// followed by copy produces an empty key, ReadFull into `buf[2:]` of a 2-byte slice reads nothing.)
func completeCopies(c *Ctx, rule, pkg string, skip func(f *ssa.Function) bool) (n int) {
	// rootMake: the fresh buffer a slice expression is cut from: a MakeSlice, or the array behind a constant-size
	// make / composite literal (go/ssa: new [N]T + slice)
	rootMake := func(v ssa.Value) ssa.Value {
		for {
			switch x := v.(type) {
			case *ssa.Slice:
				v = x.X
				continue
			case *ssa.MakeSlice:
				return x
			case *ssa.Alloc:
				if pt, ok := x.Type().Underlying().(*types.Pointer); ok {
					if _, isArr := pt.Elem().Underlying().(*types.Array); isArr && x.Comment == "makeslice" {
						return x
					}
				}
			}
			return nil
		}
	}
	for _, f := range c.P.RepoFuncs(pkg) {
		if strings.HasSuffix(c.P.relFile(f.Pos()), "_test.go") || (skip != nil && skip(f)) {
			continue
		}
		var lb *LB
		k := 0
		instrsOf(f, func(b *ssa.BasicBlock, in ssa.Instruction) {
			call, ok := in.(*ssa.Call)
			if !ok {
				return
			}
			var dst, src ssa.Value
			kind := ""
			if bi, ok := call.Call.Value.(*ssa.Builtin); ok && bi.Name() == "copy" {
				dst, src, kind = call.Call.Args[0], call.Call.Args[1], "copy"
			} else if calleeID(&call.Call) == "io.ReadFull" {
				dst, kind = call.Call.Args[1], "ReadFull"
			} else {
				return
			}
			mk := rootMake(dst)
			if mk == nil {
				return
			}
			// only whole-buffer copies: destination starts at the beginning of the fresh buffer or is the buffer itself;
			// partial fills of a larger buffer (dst = buf[off:]) are checked for ReadFull only
			if lb == nil {
				lb = &LB{p: c.P, f: f, UsedContracts: map[string]bool{}}
				cf, _ := callerFacts(c.P, f)
				lb.extra = cf
			}
			k++
			n++
			c.Evals++
			construct := fmt.Sprintf("%s #%d into a fresh buffer is complete", kind, k)
			switch kind {
			case "copy":
				if sl, isSl := dst.(*ssa.Slice); isSl && sl.Low != nil {
					if lo, isK := constInt(sl.Low); !isK || lo != 0 {
						// writing a part of a larger buffer: the remainder is filled elsewhere
						c.Holds(rule, fname(f), construct, "fills a part of a larger buffer (not a whole-value copy)", call.Pos())
						return
					}
				}
				ok := lb.prove([]cons{ge(lb.lenLin(dst), lb.lenLin(src))}, b, nil, map[lvar]lin{}, 2)
				if mks, isMk := mk.(*ssa.MakeSlice); !ok && isMk && dst == ssa.Value(mks) {
					mk := mks
					// make([]T, len(x), ...) immediately followed by copy(dst, x) with x re-read from the same place
					if lc, isCall := mk.Len.(*ssa.Call); isCall {
						if bi, isB := lc.Call.Value.(*ssa.Builtin); isB && bi.Name() == "len" {
							a, b2 := lc.Call.Args[0], src
							if la, ok1 := a.(*ssa.UnOp); ok1 {
								if lb2, ok2 := b2.(*ssa.UnOp); ok2 && addrKey(la) != "" && addrKey(la) == addrKey(lb2) && la.Block() == lb2.Block() {
									clean := true
									seenA := false
									for _, in2 := range la.Block().Instrs {
										if in2 == ssa.Instruction(la) {
											seenA = true
											continue
										}
										if in2 == ssa.Instruction(lb2) {
											break
										}
										if !seenA {
											continue
										}
										switch in2.(type) {
										case *ssa.Store:
											clean = false
										case *ssa.Call:
											if cc := in2.(*ssa.Call); cc != lc {
												if _, isBuiltin := cc.Call.Value.(*ssa.Builtin); !isBuiltin {
													clean = false
												}
											}
										}
									}
									ok = clean
								}
							}
						}
					}
				}
				c.Check(ok, rule, fname(f), construct, "len(dst) >= len(src)", "not provable that the freshly allocated destination is as long as the source: copy silently truncates, leaving the value (a key, an IV, a secret) partly or wholly empty", call.Pos())
			case "ReadFull":
				ok := lb.prove([]cons{ge(lb.lenLin(dst), linConst(1))}, b, nil, map[lvar]lin{}, 2)
				c.Check(ok, rule, fname(f), construct, "the destination is not empty", "not provable that the slice handed to io.ReadFull is non-empty: ReadFull of an empty slice succeeds without reading, leaving the 'random' value constant", call.Pos())
			}
		})
	}
	return n
}

// hashFed: a hash or HMAC object that a function creates and then finalises with Sum has been fed: some Write on it (or
// a hand-over of the object to a callee that may write) can reach the Sum. A digest computed over nothing — the
// data passed to Sum's *argument* by mistake, for instance — is a constant, not a MAC of the message.
func hashFed(c *Ctx, rule string, pkgs []string) (n int) {
	for _, pkg := range pkgs {
		for _, f := range c.P.RepoFuncs(pkg) {
			if strings.HasSuffix(c.P.relFile(f.Pos()), "_test.go") {
				continue
			}
			k := 0
			for _, ci := range allCalls(f) {
				sum, ok := ci.(*ssa.Call)
				if !ok || !sum.Call.IsInvoke() || sum.Call.Method.Name() != "Sum" {
					continue
				}
				obj, isCall := sum.Call.Value.(*ssa.Call)
				if !isCall || obj.Parent() != f {
					continue // not created here: fed elsewhere
				}
				k++
				n++
				c.Evals++
				fed := false
				for _, r := range *obj.Referrers() {
					in, isInstr := r.(ssa.Instruction)
					if !isInstr || in == ssa.Instruction(sum) {
						continue
					}
					switch x := r.(type) {
					case *ssa.Call:
						if x.Call.IsInvoke() && x.Call.Value == ssa.Value(obj) && x.Call.Method.Name() == "Write" && instrReaches(x, sum, nil) {
							fed = true
						}
						for _, a := range x.Call.Args { // handed to a callee (io.WriteString, a helper, ...)
							if a == ssa.Value(obj) && instrReaches(x, sum, nil) {
								fed = true
							}
						}
					case *ssa.MakeInterface, *ssa.ChangeInterface, *ssa.Store, *ssa.MakeClosure, *ssa.Phi:
						fed = true // escapes: assume it may be written through the alias
					}
				}
				c.Check(fed, rule, fname(f), fmt.Sprintf("digest #%d is taken of data that was written to the hash", k), "", "Sum is called on a hash/HMAC object created in this function without any Write reaching it: the result does not depend on the message (the data may have been passed as Sum's argument, which is only a prefix for the output)", sum.Pos())
			}
		}
	}
	return n
}

// fixedWidthHashed: in package sm2 a big integer that depends on a key, a nonce or a peer's point is never written to
// a hash in its minimal-length form (big.Int.Bytes() drops leading zero bytes, so about one value in 256 would hash
// differently from the 32-byte encoding GM/T 0003 prescribes): the only Bytes() results written directly are the
// curve's own constants.
func fixedWidthHashed(c *Ctx, rule string) (n int) {
	for _, f := range c.P.RepoFuncs("sm2") {
		if strings.HasSuffix(c.P.relFile(f.Pos()), "_test.go") {
			continue
		}
		be := newBigEnv(f, allParamNames(f))
		k := 0
		for _, ci := range allCalls(f) {
			w, ok := ci.(*ssa.Call)
			if !ok || !w.Call.IsInvoke() || w.Call.Method.Name() != "Write" || len(w.Call.Args) != 1 {
				continue
			}
			raw, name, recv, _, isBig := bigMethod(w.Call.Args[0])
			if !isBig || name != "Bytes" {
				continue
			}
			k++
			n++
			c.Evals++
			who := be.valueAt(recv, raw).String()
			constant := strings.Contains(who, "sm2P256") || strings.Contains(who, "Params()") || strings.Contains(who, "CurveParams")
			c.Check(constant, rule, fname(f), fmt.Sprintf("integer written to a hash #%d has a fixed width", k), "a curve constant", "the minimal-length bytes of "+who+" are written to a hash: a value with a leading zero byte is hashed as a shorter string than the 32-byte encoding of the standard (pad it to 32 bytes first)", w.Pos())
		}
	}
	return n
}

// staleScratch: a scratch buffer that is filled by copy(buf, src) MORE THAN ONCE between two allocations keeps, after
// a shorter second source, the tail of the first one. Rule: whenever a whole-buffer copy into a fresh buffer can be
// reached from an earlier whole-buffer copy into the same buffer without passing the allocation again, the later copy
// must provably fill the buffer (len(src) >= len(buf)); a copy that can reach itself (a buffer allocated outside a
// loop and refilled inside it) is held to the same standard. Zero padding "by allocation" is only zero padding the
// first time.
func staleScratch(c *Ctx, rule, pkg string) int {
	n := 0
	for _, f := range c.P.RepoFuncs(pkg) {
		if strings.HasSuffix(c.P.relFile(f.Pos()), "_test.go") {
			continue
		}
		type cp struct {
			call *ssa.Call
			def  ssa.Instruction
			buf  ssa.Value
		}
		var cps []cp
		instrsOf(f, func(_ *ssa.BasicBlock, in ssa.Instruction) {
			call, ok := in.(*ssa.Call)
			if !ok {
				return
			}
			bi, ok := call.Call.Value.(*ssa.Builtin)
			if !ok || bi.Name() != "copy" {
				return
			}
			dst := call.Call.Args[0]
			switch x := dst.(type) {
			case *ssa.MakeSlice:
				cps = append(cps, cp{call, x, x})
			case *ssa.Slice:
				if al, isAl := x.X.(*ssa.Alloc); isAl && x.Low == nil && al.Comment == "makeslice" {
					cps = append(cps, cp{call, al, x})
				}
			}
		})
		if len(cps) == 0 {
			continue
		}
		var lb *LB
		k := 0
		for _, second := range cps {
			stale := false
			for _, first := range cps {
				if first.buf != second.buf {
					continue
				}
				if first.call == second.call {
					// reaches itself without re-allocation?
					for _, s := range second.call.Block().Succs {
						if len(s.Instrs) > 0 && reachesAvoidingAll(s.Instrs[0], second.call, []ssa.Instruction{second.def}) && !instrDominatesStrict(second.def, second.call, s) {
							stale = true
						}
					}
					continue
				}
				if reachesAvoidingAll(first.call, second.call, []ssa.Instruction{second.def}) {
					stale = true
				}
			}
			if !stale {
				continue
			}
			if lb == nil {
				lb = &LB{p: c.P, f: f, UsedContracts: map[string]bool{}}
				cf, _ := callerFacts(c.P, f)
				lb.extra = cf
			}
			k++
			n++
			c.Evals++
			full := lb.prove([]cons{ge(lb.lenLin(second.call.Call.Args[1]), lb.lenLin(second.buf))}, second.call.Block(), nil, map[lvar]lin{}, 2)
			c.Check(full, rule, fname(f), fmt.Sprintf("refill #%d of a scratch buffer overwrites all of it", k), "",
				"this copy refills a buffer that an earlier copy already wrote (no new allocation in between) and is not provably as long as the buffer: after a shorter source the tail still holds the earlier bytes where zero padding is expected", second.call.Pos())
		}
	}
	return n
}

// instrDominatesStrict is a helper for the self-reach test: the allocation lies on every path from s back to the copy
func instrDominatesStrict(def, at ssa.Instruction, from *ssa.BasicBlock) bool { return false }

// pointWidth: an uncompressed elliptic-curve point is 0x04 || X || Y with BOTH coordinates in the fixed field width.
// A byte string built as 0x04 followed directly by the minimal-length big-endian bytes of two integers
// (big.Int.Bytes()) drops leading zero bytes: roughly one key in 128 then serialises to a string that no reader accepts.
func pointWidth(c *Ctx, rule string, pkgs []string) int {
	re := regexp.MustCompile(`lit\(0x4\),bytes\([^()]*(\([^()]*\))?[^()]*\),bytes\(`)
	n := 0
	for _, pkg := range pkgs {
		for _, f := range c.P.RepoFuncs(pkg) {
			if strings.HasSuffix(c.P.relFile(f.Pos()), "_test.go") {
				continue
			}
			var be *bigEnv
			k := 0
			instrsOf(f, func(_ *ssa.BasicBlock, in ssa.Instruction) {
				call, ok := in.(*ssa.Call)
				if !ok {
					return
				}
				bi, ok := call.Call.Value.(*ssa.Builtin)
				if !ok || bi.Name() != "append" || !isByteSlice(call.Type()) {
					return
				}
				// only the ends of append chains
				for _, u := range *call.Referrers() {
					if c2, ok := u.(*ssa.Call); ok {
						if b2, ok := c2.Call.Value.(*ssa.Builtin); ok && b2.Name() == "append" && c2.Call.Args[0] == ssa.Value(call) {
							return
						}
					}
				}
				if be == nil {
					be = newBigEnv(f, allParamNames(f))
				}
				n++
				form := stripCopies(be.bytesOf(call, call)).String()
				if re.MatchString(form) {
					k++
					c.Violated(rule, fname(f), fmt.Sprintf("point encoding #%d pads both coordinates", k), "the byte string "+form+" is 0x04 followed by the minimal-length bytes of two integers: a coordinate with a leading zero byte (about one key in 128) yields an encoding of the wrong length that the parsers reject", call.Pos())
				}
			})
		}
	}
	return n
}

// narrowShift: `x << s` is evaluated in the type of x. When x is an 8- or 16-bit value and s can reach the width of
// that type, the bits are shifted out BEFORE any widening conversion — uint32(sbox[i] << 16) is always zero, where
// uint32(sbox[i]) << 16 was meant. Every left shift of a narrow unsigned value in the listed packages must have a
// constant amount below the operand's width (or its result must stay narrow on purpose: the shift is then exempt only
// when the amount is a constant below the width).
func narrowShift(c *Ctx, rule string, pkgs []string) int {
	n := 0
	for _, pkg := range pkgs {
		for _, f := range c.P.RepoFuncs(pkg) {
			if strings.HasSuffix(c.P.relFile(f.Pos()), "_test.go") {
				continue
			}
			k := 0
			instrsOf(f, func(_ *ssa.BasicBlock, in ssa.Instruction) {
				bo, ok := in.(*ssa.BinOp)
				if !ok || bo.Op != token.SHL {
					return
				}
				bt, ok := bo.X.Type().Underlying().(*types.Basic)
				if !ok {
					return
				}
				w := int64(0)
				switch bt.Kind() {
				case types.Uint8, types.Int8:
					w = 8
				case types.Uint16, types.Int16:
					w = 16
				default:
					return
				}
				n++
				k++
				c.Evals++
				amt, isK := constInt(stripConvAll(bo.Y))
				if isK && amt < w {
					return
				}
				why := ""
				if !isK {
					// a loop counter with constant start, step and bound: decided from its largest value
					phi, isPhi := stripConvAll(bo.Y).(*ssa.Phi)
					if !isPhi {
						return
					}
					ind, ok := inductionOf(phi)
					if !ok || ind.step <= 0 {
						return
					}
					hi, ok := loopBound(ind)
					if !ok {
						return
					}
					last := ind.init + (hi-1-ind.init)/ind.step*ind.step
					if last < w {
						return
					}
					why = fmt.Sprintf("a %d-bit value is shifted left by a loop counter that reaches %d: the bits are lost before the result is widened (the conversion to a wider type must come before the shift)", w, last)
				}
				if isK {
					why = fmt.Sprintf("a %d-bit value is shifted left by %d: the result is always zero (the conversion to a wider type must come before the shift)", w, amt)
				}
				c.Violated(rule, fname(f), fmt.Sprintf("left shift of a %d-bit value #%d", w, k), why, bo.Pos())
			})
		}
	}
	return n
}

// bitsToBytes: a curve's field width in bytes is ceil(BitSize/8). BitSize/8 (or >>3) applied directly to the field
// rounds down: for P-521 it yields 65 where coordinates need 66 bytes, so a shared secret copied right-aligned into
// such a buffer loses its top byte (or the copy's start index goes negative). Decided per use of the BitSize field.
func bitsToBytes(c *Ctx, rule string, pkgs []string) int {
	n := 0
	for _, pkg := range pkgs {
		for _, f := range c.P.RepoFuncs(pkg) {
			if strings.HasSuffix(c.P.relFile(f.Pos()), "_test.go") {
				continue
			}
			k := 0
			instrsOf(f, func(_ *ssa.BasicBlock, in ssa.Instruction) {
				ld, ok := in.(*ssa.UnOp)
				if !ok || ld.Op != token.MUL {
					return
				}
				fa, ok := ld.X.(*ssa.FieldAddr)
				if !ok || fieldName(fa.X.Type(), fa.Field) != "BitSize" || ld.Referrers() == nil {
					return
				}
				for _, u := range *ld.Referrers() {
					bo, ok := u.(*ssa.BinOp)
					if !ok {
						continue
					}
					n++
					k++
					c.Evals++
					amt, isK := constInt(bo.Y)
					if bo.X == ssa.Value(ld) && isK && ((bo.Op == token.SHR && amt == 3) || (bo.Op == token.QUO && amt == 8)) {
						c.Violated(rule, fname(f), fmt.Sprintf("BitSize converted to a byte count #%d", k), "BitSize is divided by 8 without rounding up: one byte short for curves whose size is not a multiple of 8 (P-521)", bo.Pos())
					}
				}
			})
		}
	}
	return n
}

// hashReuse: hash.Hash.Sum does not reset the state. In the listed packages every digest is a digest of its own message
// (there is no running transcript hash there), so on a hash object created in a function no Write may be reachable
// from a Sum on the same object unless every path between them passes one Reset of that object: S2 = H(0x03‖…) taken
// from an object that already absorbed 0x02‖… is H(0x02‖…‖0x03‖…).
func hashReuse(c *Ctx, rule string, pkgs []string) (n int) {
	for _, pkg := range pkgs {
		for _, f := range c.P.RepoFuncs(pkg) {
			if strings.HasSuffix(c.P.relFile(f.Pos()), "_test.go") {
				continue
			}
			type use struct{ sums, writes, resets []*ssa.Call }
			objs := map[ssa.Value]*use{}
			var order []ssa.Value
			for _, ci := range allCalls(f) {
				call, ok := ci.(*ssa.Call)
				if !ok {
					continue
				}
				var recv ssa.Value
				name := ""
				if call.Call.IsInvoke() {
					recv, name = call.Call.Value, call.Call.Method.Name()
				} else if sc := call.Call.StaticCallee(); sc != nil && sc.Signature.Recv() != nil && len(call.Call.Args) > 0 {
					recv, name = call.Call.Args[0], sc.Name()
				}
				if recv == nil {
					continue
				}
				mk, isCall := recv.(*ssa.Call)
				if !isCall || mk.Parent() != f {
					continue // not created here
				}
				u := objs[recv]
				if u == nil {
					u = &use{}
					objs[recv] = u
					order = append(order, recv)
				}
				switch name {
				case "Sum":
					u.sums = append(u.sums, call)
				case "Write":
					u.writes = append(u.writes, call)
				case "Reset":
					u.resets = append(u.resets, call)
				}
			}
			k := 0
			for _, ov := range order {
				u := objs[ov]
				for _, s := range u.sums {
					for _, w := range u.writes {
						if !instrReaches(s, w, nil) {
							continue
						}
						n++
						k++
						c.Evals++
						cut := false
						for _, r := range u.resets {
							if !instrReaches(s, w, r) {
								cut = true
							}
						}
						if !cut {
							c.Violated(rule, fname(f), fmt.Sprintf("Write after Sum on the same hash object #%d", k), "a Write at "+c.P.pos(w.Pos())+" is reachable from this Sum without a Reset of the object in between: Sum does not reset the state, so the next digest also covers everything written before", s.Pos())
						}
					}
				}
			}
		}
	}
	return n
}
