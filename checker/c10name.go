package main

// C10 — name constraints: matchNameConstraint decides "domain is inside the permitted subtree". A bare suffix test
// accepts "evilexample.com" under the constraint "example.com"; the label boundary is what makes the suffix a
// subtree. Structural necessary condition decided here: the label separator '.' takes part in the decision — a
// comparison with the byte/rune constant '.' or a call receiving a string constant that contains "." occurs in
// matchNameConstraint or in a repository function it reaches by static calls. What the comparison is applied to and
// the case analysis around it (leading-dot constraints, equal lengths) are not decided.

import (
	"fmt"
	"go/constant"
	"go/token"
	"sort"
	"strings"

	"golang.org/x/tools/go/ssa"
)

func c10NameConstraint(c *Ctx) {
	rule := "G-C10-nameconstraint"
	f := c.Fn("x509", "matchNameConstraint")
	if f == nil {
		c.Missing(rule, "x509.matchNameConstraint", "function", "not found")
		return
	}
	isDotConst := func(v ssa.Value) bool {
		k, ok := v.(*ssa.Const)
		if !ok || k.Value == nil {
			return false
		}
		switch k.Value.Kind() {
		case constant.Int:
			i, ok := constant.Int64Val(k.Value)
			return ok && i == '.'
		case constant.String:
			return strings.Contains(constant.StringVal(k.Value), ".")
		}
		return false
	}
	var where []string
	nf := 0
	for g := range staticReach(f, "x509") {
		nf++
		instrsOf(g, func(_ *ssa.BasicBlock, in ssa.Instruction) {
			switch x := in.(type) {
			case *ssa.BinOp:
				if (x.Op == token.EQL || x.Op == token.NEQ) && (isDotConst(x.X) || isDotConst(x.Y)) {
					where = append(where, fname(g)+": comparison with '.'")
				}
			case *ssa.Call:
				for _, a := range x.Call.Args {
					if isDotConst(a) {
						where = append(where, fname(g)+": call with a \".\" constant")
					}
				}
			}
		})
	}
	sort.Strings(where)
	if len(where) > 0 {
		c.Holds(rule, fname(f), "the label separator takes part in the name-constraint decision", fmt.Sprintf("%d site(s) in %d function(s), first: %s", len(where), nf, where[0]), f.Pos())
		return
	}
	c.Violated(rule, fname(f), "the label separator takes part in the name-constraint decision",
		"neither matchNameConstraint nor a function it calls compares with '.' or passes a \".\" constant: a suffix match without a label boundary accepts names outside the permitted subtree (evilexample.com under example.com)", f.Pos())
}

// c10UsageWalk — checkChainForKeyUsage accepts a chain only after every certificate of it has been consulted: no
// accepting return is reached by leaving the loop over the chain early. Decided on the CFG: for every outermost loop
// whose header has an exit edge, an edge that leaves the loop from a block other than the header must not lead to a
// return whose result can be true. (A loop without a header exit — `for { … break … }` — is not judged.)
func c10UsageWalk(c *Ctx) {
	rule := "G-C10-usagewalk"
	f := c.Fn("x509", "checkChainForKeyUsage")
	if f == nil {
		c.Missing(rule, "x509.checkChainForKeyUsage", "function", "not found")
		return
	}
	reachFrom := func(start *ssa.BasicBlock, stop *ssa.BasicBlock) map[*ssa.BasicBlock]bool {
		seen := map[*ssa.BasicBlock]bool{}
		var st []*ssa.BasicBlock
		st = append(st, start)
		for len(st) > 0 {
			b := st[len(st)-1]
			st = st[:len(st)-1]
			if seen[b] || b == stop {
				continue
			}
			seen[b] = true
			st = append(st, b.Succs...)
		}
		return seen
	}
	hs := loopHeaders(f)
	inLoop := func(h, x *ssa.BasicBlock) bool { return h.Dominates(x) && reachFrom(x, nil)[h] }
	nLoops, nExits := 0, 0
	bad := false
	for _, h := range hs {
		outer := true
		for _, g := range hs {
			if g != h && inLoop(g, h) {
				outer = false
			}
		}
		if !outer {
			continue
		}
		body := map[*ssa.BasicBlock]bool{}
		for _, b := range f.Blocks {
			if inLoop(h, b) {
				body[b] = true
			}
		}
		headerExit := false
		for _, s := range h.Succs {
			if !body[s] {
				headerExit = true
			}
		}
		if !headerExit {
			c.Undecided(rule, fname(f), "loop without an exit at its header", "the walk over the chain is not a counted/ranged loop; early exits are not judged", h.Instrs[0].Pos())
			continue
		}
		nLoops++
		for _, x := range f.Blocks {
			if !body[x] || x == h {
				continue
			}
			for _, y := range x.Succs {
				if body[y] {
					continue
				}
				nExits++
				for b := range reachFrom(y, h) {
					ret, ok := b.Instrs[len(b.Instrs)-1].(*ssa.Return)
					if !ok || len(ret.Results) != 1 {
						continue
					}
					if v, isC := constBool(ret.Results[0]); isC && !v {
						continue
					}
					bad = true
					c.Violated(rule, fname(f), "no accepting return by leaving the walk over the chain early",
						"a return that can yield true is reached from inside the loop over the chain without the loop having finished: the remaining certificates' extended key usages are not consulted", ret.Pos())
				}
			}
		}
	}
	c.Evals += len(f.Blocks)
	if !bad {
		if nLoops == 0 {
			c.Undecided(rule, fname(f), "walk over the chain", "no loop with a header exit found", f.Pos())
			return
		}
		c.Holds(rule, fname(f), "no accepting return by leaving the walk over the chain early", fmt.Sprintf("%d outermost loop(s), %d early exit edge(s), all lead to a rejecting return", nLoops, nExits), f.Pos())
	}
}
