package main

// C10 — name constraints: matchNameConstraint decides "domain is inside the permitted subtree". A bare suffix test
// accepts "evilexample.com" under the constraint "example.com"; the label boundary is what makes the suffix a
// subtree. Structural necessary condition decided here: the label separator '.' takes part in the decision — a
// comparison with the byte/rune constant '.' or a call receiving a string constant that contains "." occurs in
// matchNameConstraint or in a repository function it reaches by static calls. What the comparison is applied to and
// the case analysis around it (leading-dot constraints, equal lengths) are not decided.

import (
	"fmt"
	"go/constant"
	"go/token"
	"sort"
	"strings"

	"golang.org/x/tools/go/ssa"
)

func c10NameConstraint(c *Ctx) {
	rule := "G-C10-nameconstraint"
	f := c.Fn("x509", "matchNameConstraint")
	if f == nil {
		c.Missing(rule, "x509.matchNameConstraint", "function", "not found")
		return
	}
	isDotConst := func(v ssa.Value) bool {
		k, ok := v.(*ssa.Const)
		if !ok || k.Value == nil {
			return false
		}
		switch k.Value.Kind() {
		case constant.Int:
			i, ok := constant.Int64Val(k.Value)
			return ok && i == '.'
		case constant.String:
			return strings.Contains(constant.StringVal(k.Value), ".")
		}
		return false
	}
	var where []string
	nf := 0
	for g := range staticReach(f, "x509") {
		nf++
		instrsOf(g, func(_ *ssa.BasicBlock, in ssa.Instruction) {
			switch x := in.(type) {
			case *ssa.BinOp:
				if (x.Op == token.EQL || x.Op == token.NEQ) && (isDotConst(x.X) || isDotConst(x.Y)) {
					where = append(where, fname(g)+": comparison with '.'")
				}
			case *ssa.Call:
				for _, a := range x.Call.Args {
					if isDotConst(a) {
						where = append(where, fname(g)+": call with a \".\" constant")
					}
				}
			}
		})
	}
	sort.Strings(where)
	if len(where) > 0 {
		c.Holds(rule, fname(f), "the label separator takes part in the name-constraint decision", fmt.Sprintf("%d site(s) in %d function(s), first: %s", len(where), nf, where[0]), f.Pos())
		return
	}
	c.Violated(rule, fname(f), "the label separator takes part in the name-constraint decision",
		"neither matchNameConstraint nor a function it calls compares with '.' or passes a \".\" constant: a suffix match without a label boundary accepts names outside the permitted subtree (evilexample.com under example.com)", f.Pos())
}
