package main

// C07 — protected records cannot be altered, reordered, replayed or truncated undetected

import (
	"fmt"
	"go/token"
	"regexp"
	"strings"

	"golang.org/x/tools/go/ssa"
)

func init() { register("C07", checkC07) }

func invokesOf(f *ssa.Function, method string) []*ssa.Call {
	var out []*ssa.Call
	for _, ci := range allCalls(f) {
		if call, ok := ci.(*ssa.Call); ok && call.Call.IsInvoke() && call.Call.Method.Name() == method {
			out = append(out, call)
		}
	}
	return out
}

// noSuccessWithout: from block `from`, with the given edges cut, no success exit is reachable
func noSuccessWithout(f *ssa.Function, from *ssa.BasicBlock, spec resultSpec, cut map[edge]bool) (bool, *ssa.BasicBlock) {
	ex := successExits(f, spec)
	r, w := canReachSuccess(from, nil, ex, cut)
	return !r, w
}

func checkC07(c *Ctx) {
	c.Decided = append(c.Decided,
		"G-C07-reject: halfConn.decrypt returns failure (alertBadRecordMAC) when AEAD Open fails, when the MAC comparison (constant time) differs or the padding is bad, and when the record is too short; no successful return bypasses these tests for the cipher kind in use",
		"K-C07-aad / K-C07-mac: the AEAD additional data is seq||type||version||length and the MAC input is seq||header||payload, identically on the sealing and the opening side; the AEAD nonce is the explicit nonce or the sequence number",
		"G-C07-seq: every successful encrypt/decrypt passes through exactly one incSeq call site; incSeq is a big-endian +1 with carry that panics instead of wrapping; changeCipherSpec zeroes the counter",
		"K-C07-iv: every record's explicit IV is filled from Config.rand (error returned) for CBC or from the sequence number for AEAD before encrypt is called",
		"K-C07-nonce: the AEAD wrappers (fixedNonceAEAD, xorNonceAEAD) hand the inner AEAD a nonce buffer into which the per-record nonce they were given has been copied or mixed before the call, and pass plaintext and additional data through unchanged",
		"G-C07-deliver: in readRecord a record whose decrypt failed is never appended to the input or the handshake buffer and sets the sticky error with an alert; Read only pulls records while the sticky error is nil and returns it first")
	c.NotDec = append(c.NotDec, "that a forged MAC or tag cannot be produced (cryptographic)", "constant-time behaviour of the padding extraction", "bounds of the block-buffer arithmetic in encrypt/decrypt")
	getFX(c)
	dec := c.Fn("gmtls", "(*halfConn).decrypt")
	enc := c.Fn("gmtls", "(*halfConn).encrypt")
	if dec == nil || enc == nil {
		c.Missing("G-C07-reject", "gmtls.(*halfConn).decrypt/encrypt", "methods", "not found")
		return
	}
	c07Reject(c, dec)
	c07Agreement(c, dec, enc)
	c07MacFn(c)
	c07Seq(c, dec, enc)
	c07IV(c)
	c07Deliver(c)
	c07ByVersion(c)
	c07MustDecrypt(c)
	c07WrapperNonce(c)
	c07PadScan(c)
	hashFed(c, "G-HASH-fed", []string{"gmtls"})
	if n := completeCopies(c, "G-COPY-complete", "gmtls", func(f *ssa.Function) bool { return f.Name() == "marshal" || f.Name() == "unmarshal" }); n < 10 {
		c.Undecided("G-COPY-complete", "gmtls", "copies into fresh buffers", fmt.Sprintf("only %d found", n), token.NoPos)
	}
	// c07Bounds(c) -- record-layer buffer bounds: needs heap post-conditions, not armed
}

func c07Reject(c *Ctx, dec *ssa.Function) {
	rule := "G-C07-reject"
	spec := resultSpec{0, "bool"}
	// AEAD: Open error
	opens := invokesOf(dec, "Open")
	if len(opens) == 0 {
		c.Undecided(rule, fname(dec), "AEAD Open", "no Open call found", dec.Pos())
	}
	for i, op := range opens {
		atoms := errCheckAtoms(dec, func(cl *ssa.Call) bool { return cl == op }, "Open error")
		g := evalReject(c.P, dec, atoms, spec)
		c.Check(g.OK, rule, fname(dec), fmt.Sprintf("AEAD Open #%d failure rejects the record", i+1), g.Why, "a record whose tag does not verify must be rejected: "+g.Why, op.Pos())
		cut := map[edge]bool{}
		for _, a := range atoms {
			b := a.If.Block()
			cut[edge{b, b.Succs[a.PassSucc]}] = true
		}
		ok, w := noSuccessWithout(dec, op.Block(), spec, cut)
		c.Check(ok && len(atoms) > 0, rule, fname(dec), fmt.Sprintf("AEAD Open #%d result cannot be bypassed", i+1), "", "after Open a successful return at "+c.P.pos(lastPos(w))+" is reachable without testing its error", op.Pos())
		// failing returns carry alertBadRecordMAC
	}
	// CBC: CryptBlocks panics on input that is not a whole number of blocks — a record of such a length (chosen by the
	// peer) must have been rejected before: ASSUME len(payload) % blockSize != 0; the call must be unreachable
	for i, cb := range invokesOf(dec, "CryptBlocks") {
		ci := newCondIndex(dec, allParamNames(dec))
		reachable := true
		ci.withAssumptions([]assumption{{`re:ne\(rem\(len\(.+\),.+\),0x0\)`, true}}, func() {
			reachable = reach([]*ssa.BasicBlock{dec.Blocks[0]}, deadEdges(dec))[cb.Block()]
		})
		c.Check(!reachable, rule, fname(dec), fmt.Sprintf("CryptBlocks #%d only sees whole blocks", i+1), "", "assuming the record length is not a multiple of the block size, CryptBlocks is still reached: it panics (\"input not full blocks\") instead of the record being rejected with bad_record_mac", cb.Pos())
	}
	// MAC comparison
	var cmpAtoms, padAtoms []Atom
	var macCall *ssa.Call
	if ms := invokesOf(dec, "MAC"); len(ms) == 1 {
		macCall = ms[0]
	}
	for _, ifi := range ifsOf(dec) {
		bo, ok := ifi.Cond.(*ssa.BinOp)
		if !ok {
			continue
		}
		if call, ok := bo.X.(*ssa.Call); ok && calleeID(&call.Call) == "crypto/subtle.ConstantTimeCompare" {
			if k, isK := constInt(bo.Y); isK && k == 1 {
				// one argument is the freshly computed MAC, the other a slice of the record
				usesLocal := macCall != nil && (call.Call.Args[0] == ssa.Value(macCall) || call.Call.Args[1] == ssa.Value(macCall))
				if !usesLocal {
					continue
				}
				// the other operand is a slice of the received record
				other := call.Call.Args[0]
				if other == ssa.Value(macCall) {
					other = call.Call.Args[1]
				}
				names := map[ssa.Value]string{}
				for _, p := range dec.Params {
					names[p] = pname(p)
				}
				if of := newBigEnv(dec, names).bytesOf(other, call).String(); !strings.Contains(of, "b.data") {
					continue
				}
				switch bo.Op {
				case token.NEQ:
					cmpAtoms = append(cmpAtoms, Atom{ifi, 1, "MAC equal"})
				case token.EQL:
					cmpAtoms = append(cmpAtoms, Atom{ifi, 0, "MAC equal"})
				}
			}
		}
		if k, isK := constInt(bo.Y); isK && k == 255 {
			if phi, isPhi := bo.X.(*ssa.Phi); isPhi && strings.Contains(phi.Comment, "paddingGood") {
				switch bo.Op {
				case token.NEQ:
					padAtoms = append(padAtoms, Atom{ifi, 1, "padding good"})
				case token.EQL:
					padAtoms = append(padAtoms, Atom{ifi, 0, "padding good"})
				}
			}
		}
	}
	if macCall == nil {
		c.Undecided(rule, fname(dec), "MAC", "expected exactly one MAC call", dec.Pos())
		return
	}
	for _, pr := range []struct {
		atoms []Atom
		name  string
	}{{cmpAtoms, "constant-time MAC comparison"}, {padAtoms, "padding validity"}} {
		g := evalReject(c.P, dec, pr.atoms, spec)
		c.Check(g.OK, rule, fname(dec), pr.name+" failure rejects the record", g.Why, "a record with a wrong MAC or padding must be rejected: "+g.Why, macCall.Pos())
		cut := map[edge]bool{}
		for _, a := range pr.atoms {
			b := a.If.Block()
			cut[edge{b, b.Succs[a.PassSucc]}] = true
		}
		ok, w := noSuccessWithout(dec, macCall.Block(), spec, cut)
		c.Check(ok && len(pr.atoms) > 0, rule, fname(dec), pr.name+" cannot be bypassed", "", "after the MAC was computed a successful return at "+c.P.pos(lastPos(w))+" is reachable without passing the test", macCall.Pos())
	}
	// every failing return reports alertBadRecordMAC (a non-zero alert, so readRecord's sendAlert yields an error)
	bad, _ := pkgConst(c, "gmtls", "alertBadRecordMAC")
	n := 0
	for _, b := range dec.Blocks {
		ret, ok := b.Instrs[len(b.Instrs)-1].(*ssa.Return)
		if !ok || len(ret.Results) != 3 {
			continue
		}
		if cb, isC := constBool(ret.Results[0]); isC && !cb {
			n++
			k, isK := constInt(ret.Results[2])
			c.Check(isK && k == bad, rule, fname(dec), fmt.Sprintf("failing return #%d carries alertBadRecordMAC", n), "", "a rejected record must produce the bad_record_mac alert (a zero or close_notify alert would not make readRecord fail)", ret.Pos())
		}
	}
	if n < 3 {
		c.Undecided(rule, fname(dec), "failing returns", fmt.Sprintf("only %d found", n), dec.Pos())
	}
}

// aadWrites: canonical description of the writes into hc.additionalData and of the Open/Seal arguments
func c07Describe(c *Ctx, f *ssa.Function, method string) (aad []string, nonce, ad string, macArgs []string) {
	names := map[ssa.Value]string{}
	for _, p := range f.Params {
		names[p] = pname(p)
	}
	be := newBigEnv(f, names)
	isAAD := func(v ssa.Value) bool {
		for {
			switch x := v.(type) {
			case *ssa.Slice:
				v = x.X
				continue
			case *ssa.FieldAddr:
				return fieldName(x.X.Type(), x.Field) == "additionalData"
			case *ssa.IndexAddr:
				v = x.X
				continue
			}
			return false
		}
	}
	instrsOf(f, func(_ *ssa.BasicBlock, in ssa.Instruction) {
		switch x := in.(type) {
		case *ssa.Call:
			if bi, ok := x.Call.Value.(*ssa.Builtin); ok && bi.Name() == "copy" && isAAD(x.Call.Args[0]) {
				off := "0"
				if sl, ok := x.Call.Args[0].(*ssa.Slice); ok && sl.Low != nil {
					off = be.plain(sl.Low, x).String()
				}
				aad = append(aad, "copy@"+off+"<-"+be.bytesOf(x.Call.Args[1], x).String())
			}
			if x.Call.IsInvoke() && x.Call.Method.Name() == method && len(x.Call.Args) == 4 {
				nonce = be.bytesOf(x.Call.Args[1], x).String()
				ad = be.bytesOf(x.Call.Args[3], x).String()
			}
			if x.Call.IsInvoke() && x.Call.Method.Name() == "MAC" {
				for _, a := range x.Call.Args {
					macArgs = append(macArgs, be.bytesOf(a, x).String())
				}
			}
		case *ssa.Store:
			if ia, ok := x.Addr.(*ssa.IndexAddr); ok && isAAD(ia.X) {
				aad = append(aad, "byte@"+be.plain(ia.Index, x).String()+"<-"+shapeOf(x.Val))
			}
		}
	})
	return
}

// shapeOf: byte(n>>8) / byte(n) shapes of the length bytes, with n abstracted
func shapeOf(v ssa.Value) string {
	v = stripConvAll(v)
	if bo, ok := v.(*ssa.BinOp); ok && bo.Op == token.SHR {
		if k, isK := constInt(bo.Y); isK {
			return fmt.Sprintf("len>>%d", k)
		}
	}
	return "len"
}

func c07Agreement(c *Ctx, dec, enc *ssa.Function) {
	da, dn, dad, dmac := c07Describe(c, dec, "Open")
	ea, en, ead, emac := c07Describe(c, enc, "Seal")
	dbg("C07 decrypt aad=%v nonce=%s ad=%s mac=%v", da, dn, dad, dmac)
	dbg("C07 encrypt aad=%v nonce=%s ad=%s mac=%v", ea, en, ead, emac)
	want := []string{"copy@0<-slice(hc.seq,_,_)", "copy@0x8<-slice(b.data,_,0x3)", "byte@0xb<-len>>8", "byte@0xc<-len"}
	norm := func(xs []string) string {
		return fieldForm(strings.Join(xs, " ; "))
	}
	dn, en, dad, ead = fieldForm(dn), fieldForm(en), fieldForm(dad), fieldForm(ead)
	for i := range dmac {
		dmac[i] = fieldForm(dmac[i])
	}
	for i := range emac {
		emac[i] = fieldForm(emac[i])
	}
	c.Check(norm(da) == norm(want), "K-C07-aad", fname(dec), "additional data = seq || type,version || length", "", "the opening side builds "+norm(da), dec.Pos())
	c.Check(norm(ea) == norm(want), "K-C07-aad", fname(enc), "additional data = seq || type,version || length", "", "the sealing side builds "+norm(ea), enc.Pos())
	c.Check(strings.Contains(dad, "additionalData") && strings.Contains(ead, "additionalData"), "K-C07-aad", fname(dec), "Open and Seal are given the additional data", "", "Open gets "+dad+", Seal gets "+ead, dec.Pos())
	okNonce := func(s string) bool {
		// explicit nonce from the record, or the sequence number when there is none
		// (both alternatives must be present: a nonce taken from the sequence number alone leaves the explicit nonce on
		// the wire unauthenticated and unchecked; one taken from the record alone breaks the implicit-nonce suites)
		return strings.Contains(s, "hc.seq") && (strings.Contains(s, "b.data") || strings.Contains(s, "payload"))
	}
	c.Check(okNonce(dn) && okNonce(en), "K-C07-aad", fname(dec), "nonce is the explicit nonce or the sequence number", "", "Open nonce "+dn+", Seal nonce "+en, dec.Pos())
	// MAC inputs: (digestBuf, seq, header, payload, extra)
	okMac := func(a []string, digest string) bool {
		return len(a) == 5 && strings.Contains(a[0], digest) && a[1] == "slice(hc.seq,0x0,_)" && a[2] == "slice(b.data,_,0x5)"
	}
	c.Check(okMac(dmac, "inDigestBuf"), "K-C07-mac", fname(dec), "MAC over seq || 5-byte header || payload", "", fmt.Sprintf("the opening side computes MAC(%v)", dmac), dec.Pos())
	c.Check(okMac(emac, "outDigestBuf"), "K-C07-mac", fname(enc), "MAC over seq || 5-byte header || payload", "", fmt.Sprintf("the sealing side computes MAC(%v)", emac), enc.Pos())
}

func c07Seq(c *Ctx, dec, enc *ssa.Function) {
	rule := "G-C07-seq"
	for _, pr := range []struct {
		f    *ssa.Function
		spec resultSpec
	}{{dec, resultSpec{0, "bool"}}, {enc, resultSpec{0, "bool"}}} {
		f := pr.f
		var incs []*ssa.Call
		for _, ci := range allCalls(f) {
			if call, ok := ci.(*ssa.Call); ok && calleeNamed(call, "incSeq") {
				incs = append(incs, call)
			}
		}
		// exactly one incSeq on every successful path: none of the call sites lies in a loop or can reach another one
		// (at most one), and with the edges into all of them cut no success exit is reachable (at least one)
		if len(incs) == 0 {
			c.Violated(rule, fname(f), "exactly one incSeq per successful record", "no incSeq call: the sequence number never advances", f.Pos())
			continue
		}
		twice := token.NoPos
		for _, a := range incs {
			for _, h := range loopHeaders(f) {
				if loopBlocks(h)[a.Block()] {
					twice = a.Pos()
				}
			}
			for _, b := range incs {
				if a != b && instrReaches(a, b, nil) {
					twice = b.Pos()
				}
			}
		}
		c.Check(twice == token.NoPos, rule, fname(f), "exactly one incSeq per successful record", fmt.Sprintf("%d call site(s), none in a loop, none reachable from another", len(incs)), "a path passes incSeq twice (a call site in a loop, or one reachable from another): the sequence number must advance by exactly one per record", twice)
		cut := map[edge]bool{}
		entryIsInc := false
		for _, inc := range incs {
			if inc.Block() == f.Blocks[0] {
				entryIsInc = true
			}
			for _, b := range f.Blocks {
				for _, s := range b.Succs {
					if s == inc.Block() {
						cut[edge{b, s}] = true
					}
				}
			}
		}
		ok := true
		var w *ssa.BasicBlock
		if !entryIsInc {
			ok, w = noSuccessWithout(f, f.Blocks[0], pr.spec, cut)
		}
		c.Check(ok, rule, fname(f), "every successful return has advanced the sequence number", "", "a successful return at "+c.P.pos(lastPos(w))+" is reachable without incSeq: two records would be protected under the same sequence number / nonce", incs[0].Pos())
	}
	// incSeq itself
	if f := c.Fn("gmtls", "(*halfConn).incSeq"); f != nil {
		ok, decided, why := bigEndianIncrement(f, "seq", 8)
		if !decided {
			// outside the abstract domain: the syntactic form rule decides
			dbg("incSeq abstract evaluation undecided: %s", why)
			ok, why = c07IncForm(f)
		}
		c.Check(ok, rule, fname(f), "big-endian increment by one with carry, panic instead of wrap-around", why, "incSeq is not +1 on the 8-byte big-endian counter: "+why, f.Pos())
	} else {
		c.Missing(rule, "gmtls.(*halfConn).incSeq", "method", "not found")
	}
	if f := c.Fn("gmtls", "(*halfConn).changeCipherSpec"); f != nil {
		// a range loop storing 0 into every seq[i]
		ok := false
		instrsOf(f, func(_ *ssa.BasicBlock, in ssa.Instruction) {
			st, isSt := in.(*ssa.Store)
			if !isSt {
				return
			}
			ia, isIA := st.Addr.(*ssa.IndexAddr)
			if !isIA {
				return
			}
			fa, isFA := ia.X.(*ssa.FieldAddr)
			if !isFA || fieldName(fa.X.Type(), fa.Field) != "seq" {
				return
			}
			if k, isK := constInt(st.Val); isK && k == 0 {
				if inc, isInc := ia.Index.(*ssa.BinOp); isInc && inc.Op == token.ADD {
					if phi, isPhi := inc.X.(*ssa.Phi); isPhi {
						if iv, isIV := inductionOf(phi); isIV && iv.init == -1 && iv.step == 1 {
							ok = true
						}
					}
				}
			}
		})
		// or the whole array is assigned its zero value at once (hc.seq = [8]byte{})
		instrsOf(f, func(_ *ssa.BasicBlock, in ssa.Instruction) {
			st, isSt := in.(*ssa.Store)
			if !isSt {
				return
			}
			fa, isFA := st.Addr.(*ssa.FieldAddr)
			if !isFA || fieldName(fa.X.Type(), fa.Field) != "seq" {
				return
			}
			if isZeroAggregate(st.Val) {
				ok = true
			}
		})
		c.Check(ok, rule, fname(f), "the sequence number restarts at zero under the new keys", "", "changeCipherSpec does not zero every byte of seq", f.Pos())
	}
}

// c07IncForm: for i := 7; i >= 0; i-- { seq[i]++; if seq[i] != 0 { return } }; panic
func c07IncForm(f *ssa.Function) (bool, string) {
	hs := loopHeaders(f)
	if len(hs) != 1 {
		return false, fmt.Sprintf("%d loops", len(hs))
	}
	h := hs[0]
	var phi *ssa.Phi
	for _, p := range phisOf(h) {
		if iv, ok := inductionOf(p); ok && iv.init == 7 && iv.step == -1 {
			phi = p
		}
	}
	if phi == nil {
		return false, "no counter running from 7 downwards by 1"
	}
	ifi, ok := lastIf(h)
	if !ok {
		return false, "no loop condition"
	}
	cmp, ok := ifi.Cond.(*ssa.BinOp)
	if !ok || cmp.X != ssa.Value(phi) || cmp.Op != token.GEQ {
		return false, "loop condition is not i >= 0"
	}
	if k, isK := constInt(cmp.Y); !isK || k != 0 {
		return false, "loop condition is not i >= 0"
	}
	// body: store seq[i] = seq[i] + 1, then if seq[i] != 0 return
	incOK, retOK := false, false
	blocks := loopBlocks(h)
	for b := range blocks {
		for _, in := range b.Instrs {
			if st, ok := in.(*ssa.Store); ok {
				if ia, ok := st.Addr.(*ssa.IndexAddr); ok && ia.Index == ssa.Value(phi) {
					if bo, ok := st.Val.(*ssa.BinOp); ok && bo.Op == token.ADD {
						if k, isK := constInt(bo.Y); isK && k == 1 {
							if ld, ok := bo.X.(*ssa.UnOp); ok {
								if ia2, ok := ld.X.(*ssa.IndexAddr); ok && ia2.Index == ssa.Value(phi) {
									incOK = true
								}
							}
						}
					}
				}
			}
		}
		if b != h {
			if ifi2, ok := lastIf(b); ok {
				if bo, ok := ifi2.Cond.(*ssa.BinOp); ok && bo.Op == token.NEQ {
					if k, isK := constInt(bo.Y); isK && k == 0 {
						// the non-zero edge leaves the loop to a return
						t := b.Succs[0]
						if !blocks[t] {
							if _, isRet := t.Instrs[len(t.Instrs)-1].(*ssa.Return); isRet {
								retOK = true
							}
						}
					}
				}
			}
		}
	}
	if !incOK {
		return false, "the byte at i is not incremented by one"
	}
	if !retOK {
		return false, "the carry does not stop at the first byte that does not wrap to zero"
	}
	// falling out of the loop panics
	exit := h.Succs[1]
	if _, isPanic := exit.Instrs[len(exit.Instrs)-1].(*ssa.Panic); !isPanic {
		return false, "wrap-around of the whole counter does not panic"
	}
	return true, "for i := 7..0: seq[i]++; stop at the first non-zero byte; panic on overflow"
}

func c07IV(c *Ctx) {
	rule := "K-C07-iv"
	f := c.Fn("gmtls", "(*Conn).writeRecordLocked")
	if f == nil {
		c.Missing(rule, "gmtls.(*Conn).writeRecordLocked", "method", "not found")
		return
	}
	spec, _ := defaultResultSpec(f)
	var encCall *ssa.Call
	for _, ci := range allCalls(f) {
		if call, ok := ci.(*ssa.Call); ok && calleeNamed(call, "encrypt") {
			encCall = call
		}
	}
	if encCall == nil {
		c.Undecided(rule, fname(f), "encrypt call", "not found", f.Pos())
		return
	}
	// the explicit IV length argument of encrypt
	ivLen := encCall.Call.Args[2]
	// writes into the IV slice b.data[5:5+ivLen]
	var fills []ssa.Instruction
	var readFull *ssa.Call
	isIVSlice := func(v ssa.Value) bool {
		sl, ok := v.(*ssa.Slice)
		if !ok || sl.Low == nil || sl.High == nil {
			return false
		}
		lo, isLo := constInt(sl.Low)
		hi, isHi := sl.High.(*ssa.BinOp)
		return isLo && lo == 5 && isHi && hi.Op == token.ADD && (hi.X == ivLen || hi.Y == ivLen)
	}
	for _, ci := range allCalls(f) {
		call, ok := ci.(*ssa.Call)
		if !ok {
			continue
		}
		if calleeID(&call.Call) == "io.ReadFull" && isIVSlice(call.Call.Args[1]) {
			// the source must be Config.rand()
			if src, ok := call.Call.Args[0].(*ssa.Call); ok && calleeNamed(src, "rand") {
				fills = append(fills, call)
				readFull = call
			}
		}
		if bi, ok := call.Call.Value.(*ssa.Builtin); ok && bi.Name() == "copy" && isIVSlice(call.Call.Args[0]) {
			// copy(explicitIV, c.out.seq[:])
			if sl, ok := call.Call.Args[1].(*ssa.Slice); ok {
				if fa, ok := sl.X.(*ssa.FieldAddr); ok && fieldName(fa.X.Type(), fa.Field) == "seq" {
					fills = append(fills, call)
					// ... the WRITE half connection's counter: the same one encrypt uses for the MAC / AAD of this record
					half := ""
					if hfa, ok := fa.X.(*ssa.FieldAddr); ok {
						half = fieldName(hfa.X.Type(), hfa.Field)
					}
					c.Check(half == "out", rule, fname(f), "the AEAD explicit nonce is the write sequence number (c.out.seq)", "", "the explicit nonce is copied from c."+half+".seq: it does not advance with the records written, so consecutive records of one direction are sealed under the same nonce", call.Pos())
				}
			}
		}
	}
	c.Check(len(fills) == 2 && readFull != nil, rule, fname(f), "the explicit IV is filled from Config.rand() or from the sequence number", "", fmt.Sprintf("%d recognised writes of the explicit IV (expected io.ReadFull(config.rand(), iv) and copy(iv, seq))", len(fills)), encCall.Pos())
	if readFull != nil {
		g := evalReject(c.P, f, errCheckAtoms(f, func(cl *ssa.Call) bool { return cl == readFull }, "rand error"), spec)
		c.Check(g.OK, rule, fname(f), "a failing random source aborts the write", g.Why, "if the IV cannot be filled the record must not be sent with a stale IV: "+g.Why, readFull.Pos())
	}
	// must-pass: from the `ivLen > 0` edge, encrypt is reached only through one of the fills
	var gate *ssa.If
	for _, ifi := range ifsOf(f) {
		if bo, ok := ifi.Cond.(*ssa.BinOp); ok && bo.Op == token.GTR && bo.X == ivLen {
			if k, isK := constInt(bo.Y); isK && k == 0 && instrDominates(ifi, encCall) {
				gate = ifi
			}
		}
	}
	if gate == nil || len(fills) == 0 {
		c.Undecided(rule, fname(f), "explicit IV written before encrypt", "the `explicitIVLen > 0` test was not found", encCall.Pos())
		return
	}
	cut := map[edge]bool{}
	for _, fl := range fills {
		b := fl.Block()
		for _, p := range b.Preds {
			cut[edge{p, b}] = true
		}
	}
	seen := reach([]*ssa.BasicBlock{gate.Block().Succs[0]}, cut)
	bypass := seen[encCall.Block()]
	for _, fl := range fills {
		if fl.Block() == gate.Block().Succs[0] {
			bypass = false
		}
	}
	// the true edge itself may lead straight into a fill block
	c.Check(!bypass, rule, fname(f), "with an explicit IV, encrypt is reached only after the IV was written", "", "encrypt can be reached with explicitIVLen > 0 without the IV bytes having been written (a stale or zero IV would be sent)", encCall.Pos())
}

func c07Deliver(c *Ctx) {
	rule := "G-C07-deliver"
	f := c.Fn("gmtls", "(*Conn).readRecord")
	if f == nil {
		c.Missing(rule, "gmtls.(*Conn).readRecord", "method", "not found")
		return
	}
	var decCall *ssa.Call
	for _, ci := range allCalls(f) {
		if call, ok := ci.(*ssa.Call); ok && calleeNamed(call, "decrypt") {
			decCall = call
		}
	}
	if decCall == nil {
		c.Undecided(rule, fname(f), "decrypt call", "not found", f.Pos())
		return
	}
	var okv ssa.Value
	for _, u := range *decCall.Referrers() {
		if ex, isEx := u.(*ssa.Extract); isEx && ex.Index == 0 {
			okv = ex
		}
	}
	var gate *ssa.If
	passSucc := 0
	for _, ifi := range ifsOf(f) {
		cur := ifi.Cond
		neg := false
		for {
			if u, isU := cur.(*ssa.UnOp); isU && u.Op == token.NOT {
				neg, cur = !neg, u.X
				continue
			}
			break
		}
		if okv != nil && cur == okv {
			gate = ifi
			if neg {
				passSucc = 1
			}
		}
	}
	if gate == nil {
		c.Violated(rule, fname(f), "the result of decrypt is tested", "readRecord does not branch on decrypt's success flag", decCall.Pos())
		return
	}
	fail := gate.Block().Succs[1-passSucc]
	// sinks: delivery of the record
	var sinks []ssa.Instruction
	instrsOf(f, func(_ *ssa.BasicBlock, in ssa.Instruction) {
		switch x := in.(type) {
		case *ssa.Store:
			if fa, ok := x.Addr.(*ssa.FieldAddr); ok && fieldName(fa.X.Type(), fa.Field) == "input" {
				sinks = append(sinks, x)
			}
		case *ssa.Call:
			if sc := x.Call.StaticCallee(); sc != nil && sc.String() == "(*bytes.Buffer).Write" {
				sinks = append(sinks, x)
			}
			if calleeNamed(x, "changeCipherSpec") {
				sinks = append(sinks, x)
			}
		}
	})
	if len(sinks) < 3 {
		c.Undecided(rule, fname(f), "delivery points", fmt.Sprintf("only %d found (c.input, c.hand.Write, changeCipherSpec)", len(sinks)), f.Pos())
	}
	// `goto Again` re-enters the read loop: cut the edge back to the start of the next record (the block of the
	// readFromUntil call) — a fresh record is a fresh obligation
	seen := reach([]*ssa.BasicBlock{fail}, nil)
	delivered := ""
	for _, s := range sinks {
		if seen[s.Block()] {
			delivered = c.P.pos(s.Pos())
		}
	}
	c.Check(delivered == "", rule, fname(f), "a record that failed decrypt is never delivered", "", "after a failed decrypt the delivery at "+delivered+" is still reachable", decCall.Pos())
	// the failing path sets the sticky error and sends an alert
	sets, alerts := false, false
	for b := range seen {
		for _, in := range b.Instrs {
			if call, ok := in.(*ssa.Call); ok {
				if calleeNamed(call, "setErrorLocked") {
					sets = true
				}
				if calleeNamed(call, "sendAlert") {
					alerts = true
				}
			}
		}
	}
	onlyFail := true
	for b := range seen {
		if _, isRet := b.Instrs[len(b.Instrs)-1].(*ssa.Return); isRet && b != fail && !fail.Dominates(b) {
			onlyFail = false
		}
	}
	c.Check(sets && alerts && onlyFail, rule, fname(f), "a failed decrypt sets the sticky error and sends the alert", "", "the failing branch does not call both setErrorLocked and sendAlert before returning", decCall.Pos())
	// Read: the record loop runs only while the sticky error is nil, and the error is returned before any data
	rd := c.Fn("gmtls", "(*Conn).Read")
	if rd == nil {
		c.Missing(rule, "gmtls.(*Conn).Read", "method", "not found")
		return
	}
	stickyLoad := func(v ssa.Value) bool {
		ld, ok := v.(*ssa.UnOp)
		if !ok || ld.Op != token.MUL {
			return false
		}
		fa, ok := ld.X.(*ssa.FieldAddr)
		if !ok || fieldName(fa.X.Type(), fa.Field) != "err" {
			return false
		}
		fa2, ok := fa.X.(*ssa.FieldAddr)
		return ok && fieldName(fa2.X.Type(), fa2.Field) == "in"
	}
	var inputRead *ssa.Call
	for _, ci := range allCalls(rd) {
		if call, ok := ci.(*ssa.Call); ok && calleeNamed(call, "Read") && len(call.Call.Args) == 2 {
			if strings.HasSuffix(call.Call.Args[0].Type().String(), "gmtls.block") {
				inputRead = call
			}
		}
	}
	if inputRead == nil {
		c.Undecided(rule, fname(rd), "c.input.Read", "not found", rd.Pos())
		return
	}
	// an If `c.in.err != nil` whose nil edge dominates the data read, and whose non-nil edge returns the error
	guarded := false
	for _, ifi := range ifsOf(rd) {
		bo, ok := ifi.Cond.(*ssa.BinOp)
		if !ok || bo.Op != token.NEQ || !isNilConst(bo.Y) || !stickyLoad(bo.X) {
			continue
		}
		nilEdge := ifi.Block().Succs[1]
		if nilEdge == inputRead.Block() || nilEdge.Dominates(inputRead.Block()) {
			spec, _ := defaultResultSpec(rd)
			e := edge{ifi.Block(), ifi.Block().Succs[0]}
			if r, _ := canReachSuccess(ifi.Block().Succs[0], &e, successExits(rd, spec), nil); !r {
				guarded = true
			}
		}
	}
	// every readRecord call in Read happens only while the sticky error is nil (readRecord itself does not
	// look at it: without the guard the record after a rejected one would be read and delivered)
	nrr := 0
	for _, ci := range allCalls(rd) {
		call, ok := ci.(*ssa.Call)
		if !ok || !calleeNamed(call, "readRecord") {
			continue
		}
		nrr++
		okGuard := false
		for _, ifi := range ifsOf(rd) {
			bo, ok := ifi.Cond.(*ssa.BinOp)
			if !ok || !isNilConst(bo.Y) || !stickyLoad(bo.X) {
				continue
			}
			var nilEdge *ssa.BasicBlock
			switch bo.Op {
			case token.NEQ:
				nilEdge = ifi.Block().Succs[1]
			case token.EQL:
				nilEdge = ifi.Block().Succs[0]
			}
			if nilEdge != nil && len(nilEdge.Preds) == 1 && (nilEdge == call.Block() || nilEdge.Dominates(call.Block())) {
				okGuard = true
			}
		}
		c.Check(okGuard, rule, fname(rd), fmt.Sprintf("readRecord #%d runs only while the sticky error is nil", nrr), "", "Read pulls another record although a previous record was rejected (c.in.err set): data after the first bad record could be delivered", call.Pos())
	}
	c.Check(guarded, rule, fname(rd), "data is handed to the caller only while the sticky error is nil", "", "Read can copy record data to the caller although c.in.err is set (bytes after the first rejected record would be delivered)", inputRead.Pos())
}

var reFieldForm = regexp.MustCompile(`field:(\w+)\(([\w.]+)\)`)

// fieldForm: field:seq(hc) -> hc.seq, field:cipherSuites(hs.clientHello) -> hs.clientHello.cipherSuites
func fieldForm(s string) string {
	for i := 0; i < 6; i++ {
		t := reFieldForm.ReplaceAllString(s, "$2.$1")
		if t == s {
			break
		}
		s = t
	}
	return s
}

// c07MacFn: the TLS 1.0+/GMSSL MAC function feeds seq, header and data, in that order and in full, into the keyed
// hash before taking the sum
func c07MacFn(c *Ctx) {
	rule := "K-C07-mac"
	f := c.Fn("gmtls", "tls10MAC.MAC")
	if f == nil {
		c.Missing(rule, "gmtls.tls10MAC.MAC", "method", "not found")
		return
	}
	names := map[ssa.Value]string{}
	for _, p := range f.Params {
		names[p] = pname(p)
	}
	be := newBigEnv(f, names)
	var seq []string
	var sum *ssa.Call
	for _, ci := range allCalls(f) {
		call, ok := ci.(*ssa.Call)
		if !ok || !call.Call.IsInvoke() {
			continue
		}
		switch call.Call.Method.Name() {
		case "Reset":
			seq = append(seq, "Reset")
		case "Write":
			if sum == nil {
				seq = append(seq, be.bytesOf(call.Call.Args[0], call).String())
			}
		case "Sum":
			if sum == nil {
				sum = call
				seq = append(seq, "Sum")
			}
		}
	}
	got := strings.Join(seq, " ")
	ok := got == "Reset seq header data Sum"
	c.Check(ok, rule, fname(f), "HMAC input is seq || header || data", "", "the MAC function hashes: "+got, f.Pos())
	if sum != nil {
		// the function returns that sum
		okRet := false
		for _, b := range f.Blocks {
			if ret, isRet := b.Instrs[len(b.Instrs)-1].(*ssa.Return); isRet && ret.Results[0] == ssa.Value(sum) {
				okRet = true
			}
		}
		c.Check(okRet, rule, fname(f), "the MAC returned is the sum taken after seq, header and data", "", "the returned value is not the hash sum over seq||header||data", sum.Pos())
	}
}

// c07Bounds: the record layer's buffer arithmetic on the receiving side cannot index out of range whatever the
// peer sends (record header, lengths, explicit nonce / IV, MAC and padding removal)
func c07Bounds(c *Ctx) {
	var fs []*ssa.Function
	for _, n := range []string{"(*halfConn).decrypt", "extractPadding", "extractPaddingSSL30", "(*Conn).readRecord", "(*block).readFromUntil", "(*block).resize", "(*block).reserve", "(*block).Read", "(*halfConn).splitBlock", "(*halfConn).newBlock"} {
		if f := c.Fn("gmtls", n); f != nil {
			fs = append(fs, f)
		} else {
			c.Missing("B-IDX", "gmtls."+n, "record-layer function", "not found")
		}
	}
	st := bidx(c, "B-IDX", fs, map[string]string{})
	c.Notes = append(c.Notes, fmt.Sprintf("B-IDX: %d sites, %d compiler, %d LinBounds, %d unproven", st.sites, st.compiler, st.lin, st.unproved))
}

// c07ByVersion: the version-dependent choices of the CBC record format are evaluated for every implemented
// version (SSL 3.0, GMSSL 0x0101, TLS 1.0-1.2): only SSL 3.0 may use the SSL 3.0 padding check (which looks at the
// last padding byte only); every other version, GMSSL included, checks all padding bytes; and the sender and the
// receiver agree on which versions carry an explicit per-record IV (GMSSL and TLS >= 1.1).
func c07ByVersion(c *Ctx) {
	rule := "G-C07-version"
	dec := c.Fn("gmtls", "(*halfConn).decrypt")
	wr := c.Fn("gmtls", "(*Conn).writeRecordLocked")
	if dec == nil || wr == nil {
		c.Missing(rule, "gmtls.(*halfConn).decrypt / (*Conn).writeRecordLocked", "methods", "not found")
		return
	}
	vers := []string{"VersionSSL30", "VersionGMSSL", "VersionTLS10", "VersionTLS11", "VersionTLS12"}
	calledUnder := func(f *ssa.Function, cut map[edge]bool, name string) bool {
		seen := reach([]*ssa.BasicBlock{f.Blocks[0]}, cut)
		for _, call := range callsNamedIn(f, name) {
			if seen[call.Block()] {
				return true
			}
		}
		return false
	}
	// explicit IV: the value of explicitIVLen at the uses after the version test. A version has an explicit IV when,
	// with its branches resolved, the block that assigns the block size to explicitIVLen is reachable.
	explicitUnder := func(f *ssa.Function, cut map[edge]bool) (bool, bool) {
		seen := reach([]*ssa.BasicBlock{f.Blocks[0]}, cut)
		found, yes := false, false
		for _, ifi := range ifsOf(f) {
			bo, ok := ifi.Cond.(*ssa.BinOp)
			if !ok {
				continue
			}
			isV := func(v ssa.Value) bool {
				ld, ok := v.(*ssa.UnOp)
				if !ok {
					return false
				}
				fa, ok := ld.X.(*ssa.FieldAddr)
				return ok && fieldName(fa.X.Type(), fa.Field) == "version"
			}
			if !isV(bo.X) {
				continue
			}
			if _, isK := constInt(bo.Y); !isK {
				continue
			}
			// the test that selects the padding routine is not an explicit-IV test
			padSel := false
			for _, sblk := range ifi.Block().Succs {
				for _, in := range sblk.Instrs {
					if call, ok := in.(*ssa.Call); ok && (calleeNamed(call, "extractPadding") || calleeNamed(call, "extractPaddingSSL30")) {
						padSel = true
					}
				}
			}
			if padSel {
				continue
			}
			found = true
			b := ifi.Block()
			// the "explicit IV" successor is the one taken when the test holds (>= TLS11 / == GMSSL)
			if seen[b] && !cut[edge{b, b.Succs[0]}] {
				yes = true
			}
		}
		return yes, found
	}
	for _, vn := range vers {
		v, okc := pkgConst(c, "gmtls", vn)
		if !okc {
			c.Missing(rule, "gmtls."+vn, "constant", "not found")
			continue
		}
		cut := fieldValueCut(dec, "version", v)
		c.Evals++
		full := calledUnder(dec, cut, "extractPadding")
		ssl := calledUnder(dec, cut, "extractPaddingSSL30")
		if vn == "VersionSSL30" {
			c.Check(full || ssl, rule, fname(dec), "CBC padding is checked for "+vn, "", "no padding check is reachable for this version", dec.Pos())
		} else {
			c.Check(full && !ssl, rule, fname(dec), "CBC padding of "+vn+" records is checked byte by byte", "", fmt.Sprintf("for %s (%#x) the receiver uses the SSL 3.0 padding routine, which only looks at the last padding byte (full check reachable: %v, SSL 3.0 check reachable: %v): bytes of the padding can be modified without the record being rejected", vn, v, full, ssl), dec.Pos())
		}
		c.Evals++
		rx, f1 := explicitUnder(dec, cut)
		tx, f2 := explicitUnder(wr, fieldValueCut(wr, "version", v))
		if !f1 || !f2 {
			c.Undecided(rule, fname(dec), "explicit-IV decision for "+vn, "the version test that decides whether records carry an explicit IV was not found on one side", dec.Pos())
			continue
		}
		want := vn == "VersionGMSSL" || vn == "VersionTLS11" || vn == "VersionTLS12"
		c.Check(rx == tx && rx == want, rule, fname(dec), "explicit CBC IV for "+vn+": sender and receiver agree", "", fmt.Sprintf("for %s the sender writes an explicit IV: %v, the receiver expects one: %v, the protocol requires: %v", vn, tx, rx, want), dec.Pos())
	}
}

// c07MustDecrypt: every record that readRecord accepts went through halfConn.decrypt — the call dominates every
// delivery point, the restart for dropped warning alerts and every return after the record body was read — so no
// record (an empty one included) escapes the MAC / AEAD check and the sequence-number step. And Read pulls a new
// record only when no decrypted application data is pending (otherwise an early close_notify would cut off bytes
// that were already authenticated but not yet delivered).
func c07MustDecrypt(c *Ctx) {
	rule := "G-C07-mustdecrypt"
	f := c.Fn("gmtls", "(*Conn).readRecord")
	if f == nil {
		c.Missing(rule, "gmtls.(*Conn).readRecord", "method", "not found")
		return
	}
	decs := callsNamedIn(f, "decrypt")
	splits := callsNamedIn(f, "splitBlock")
	c.Evals++
	if len(decs) != 1 || len(splits) != 1 {
		c.Violated(rule, fname(f), "one decrypt per record", fmt.Sprintf("%d decrypt calls, %d splitBlock calls", len(decs), len(splits)), f.Pos())
		return
	}
	dec, split := decs[0], splits[0]
	// everything reachable after the record was cut off the raw input is dominated by decrypt
	bad := ""
	seen := reach([]*ssa.BasicBlock{split.Block()}, nil)
	for b := range seen {
		if b == split.Block() || b == dec.Block() {
			continue
		}
		if !dec.Block().Dominates(b) && instrReaches(split, b.Instrs[0], nil) {
			// blocks that can also be reached without passing the split (the loop head) are fine
			if !split.Block().Dominates(b) {
				continue
			}
			bad = c.P.pos(lastPos(b))
		}
	}
	c.Check(bad == "" && instrDominates(split, dec), rule, fname(f), "every record cut from the input is decrypted before anything else happens to it", "", "code at "+bad+" handles a record without halfConn.decrypt having run (e.g. decrypt is skipped for empty records): such a record is accepted without MAC/AEAD check and without advancing the sequence number", dec.Pos())
	// Read: a new record is pulled only when no decrypted input is pending
	rd := c.Fn("gmtls", "(*Conn).Read")
	if rd == nil {
		c.Missing(rule, "gmtls.(*Conn).Read", "method", "not found")
		return
	}
	isInputNil := func(ifi *ssa.If) (nilEdge int, ok bool) {
		bo, isBo := ifi.Cond.(*ssa.BinOp)
		if !isBo || (bo.Op != token.EQL && bo.Op != token.NEQ) || !isNilConst(bo.Y) {
			return 0, false
		}
		ld, isLd := bo.X.(*ssa.UnOp)
		if !isLd {
			return 0, false
		}
		fa, isFA := ld.X.(*ssa.FieldAddr)
		if !isFA || fieldName(fa.X.Type(), fa.Field) != "input" {
			return 0, false
		}
		if bo.Op == token.EQL {
			return 0, true
		}
		return 1, true
	}
	n := 0
	for _, call := range callsNamedIn(rd, "readRecord") {
		n++
		c.Evals++
		ok := false
		for _, ifi := range ifsOf(rd) {
			e, is := isInputNil(ifi)
			if !is {
				continue
			}
			t := ifi.Block().Succs[e]
			if len(t.Preds) == 1 && (t == call.Block() || t.Dominates(call.Block())) {
				// no assignment to c.input between the test and the call
				clean := true
				instrsOf(rd, func(_ *ssa.BasicBlock, in ssa.Instruction) {
					if st, isSt := in.(*ssa.Store); isSt {
						if fa, isFA := st.Addr.(*ssa.FieldAddr); isFA && fieldName(fa.X.Type(), fa.Field) == "input" && !isNilConst(st.Val) {
							if instrReaches(ifi, st, nil) && instrReaches(st, call, nil) && t.Dominates(st.Block()) {
								clean = false
							}
						}
					}
				})
				if clean {
					ok = true
				}
			}
		}
		if !ok {
			// decided on values: every path to the call takes the "is nil" outcome of a `c.input == nil` test (named
			// conditions and nested ifs included), and no assignment of a non-nil c.input reaches the call without
			// passing such a test again
			isTest := func(v ssa.Value) (eq bool, is bool) {
				bo, isBo := v.(*ssa.BinOp)
				if !isBo || (bo.Op != token.EQL && bo.Op != token.NEQ) || !isNilConst(bo.Y) {
					return false, false
				}
				ld, isLd := bo.X.(*ssa.UnOp)
				if !isLd {
					return false, false
				}
				fa, isFA := ld.X.(*ssa.FieldAddr)
				if !isFA || fieldName(fa.X.Type(), fa.Field) != "input" {
					return false, false
				}
				return bo.Op == token.EQL, true
			}
			saved := condEval
			condEval = func(v ssa.Value) (bool, bool) {
				if eq, is := isTest(v); is {
					return !eq, true // c.input is NOT nil
				}
				if saved != nil {
					return saved(v)
				}
				return false, false
			}
			reachable := reach([]*ssa.BasicBlock{rd.Blocks[0]}, deadEdges(rd))[call.Block()]
			// from a store of a non-nil c.input
			instrsOf(rd, func(_ *ssa.BasicBlock, in ssa.Instruction) {
				if st, isSt := in.(*ssa.Store); isSt && !reachable {
					if fa, isFA := st.Addr.(*ssa.FieldAddr); isFA && fieldName(fa.X.Type(), fa.Field) == "input" && !isNilConst(st.Val) {
						if reach([]*ssa.BasicBlock{st.Block()}, deadEdges(rd))[call.Block()] && st.Block() != call.Block() {
							reachable = true
						}
					}
				}
			})
			condEval = saved
			if !reachable {
				c.Holds(rule, fname(rd), fmt.Sprintf("readRecord call #%d only when no decrypted application data is pending", n), "assuming c.input is not nil, the call is unreachable (decided on values)", call.Pos())
				continue
			}
		}
		c.Check(ok, rule, fname(rd), fmt.Sprintf("readRecord call #%d only when no decrypted application data is pending", n), "", "Read can pull the next record while c.input still holds undelivered bytes: a close_notify (or error) in that record makes Read report the end of the stream before those bytes are delivered", call.Pos())
	}
	if n < 2 {
		c.Undecided(rule, fname(rd), "readRecord calls", fmt.Sprintf("only %d found", n), rd.Pos())
	}
}

// c07WrapperNonce: a type of package gmtls whose Seal/Open forward to an inner cipher.AEAD must make the inner nonce
// depend on the nonce it was given: the inner nonce argument is that parameter, or a view of an object (a field array
// of the receiver, a local) that received bytes derived from the parameter — copy(obj[..], nonce) or stores of values
// loaded from nonce — on every path before the call. Otherwise every record is sealed under the same nonce.
func c07WrapperNonce(c *Ctx) {
	rule := "K-C07-nonce"
	n := 0
	// the object a slice/element address views: (receiver field) or alloc
	var baseObj func(v ssa.Value) string
	baseObj = func(v ssa.Value) string {
		switch x := v.(type) {
		case *ssa.Slice:
			return baseObj(x.X)
		case *ssa.IndexAddr:
			return baseObj(x.X)
		case *ssa.FieldAddr:
			return fmt.Sprintf("field:%p.%d", x.X, x.Field)
		case *ssa.Alloc:
			return fmt.Sprintf("alloc:%p", x)
		case *ssa.UnOp:
			if x.Op == token.MUL {
				return "load:" + baseObj(x.X)
			}
		}
		return ""
	}
	for f := range c.P.AllFns {
		if !inRepo(f) || f.Pkg == nil || f.Pkg.Pkg.Name() != "gmtls" || f.Blocks == nil || f.Signature.Recv() == nil || (f.Name() != "Seal" && f.Name() != "Open") || len(f.Params) != 5 {
			continue
		}
		nonceP := f.Params[2]
		derived := func(v ssa.Value) bool { // a value computed from bytes of the nonce parameter
			seen := map[ssa.Value]bool{}
			var walk func(v ssa.Value, d int) bool
			walk = func(v ssa.Value, d int) bool {
				if d > 8 || seen[v] {
					return false
				}
				seen[v] = true
				switch x := v.(type) {
				case *ssa.Parameter:
					return x == nonceP
				case *ssa.UnOp:
					return walk(x.X, d+1)
				case *ssa.BinOp:
					return walk(x.X, d+1) || walk(x.Y, d+1)
				case *ssa.IndexAddr:
					return walk(x.X, d+1)
				case *ssa.Index:
					return walk(x.X, d+1)
				case *ssa.Slice:
					return walk(x.X, d+1)
				case *ssa.Convert:
					return walk(x.X, d+1)
				case *ssa.Extract:
					return walk(x.Tuple, d+1)
				case *ssa.Next:
					return walk(x.Iter, d+1)
				case *ssa.Range:
					return walk(x.X, d+1)
				case *ssa.Phi:
					for _, e := range x.Edges {
						if walk(e, d+1) {
							return true
						}
					}
				}
				return false
			}
			return walk(v, 0)
		}
		for _, ci := range allCalls(f) {
			call, ok := ci.(*ssa.Call)
			if !ok || !call.Call.IsInvoke() || call.Call.Method.Name() != f.Name() || len(call.Call.Args) != 4 {
				continue
			}
			n++
			arg := call.Call.Args[1]
			okNonce := arg == ssa.Value(nonceP) || derived(arg)
			if !okNonce {
				obj := baseObj(arg)
				if obj != "" {
					// writers of nonce-derived bytes into that object that execute before the call on every path
					instrsOf(f, func(_ *ssa.BasicBlock, in ssa.Instruction) {
						if okNonce {
							return
						}
						switch w := in.(type) {
						case *ssa.Call:
							if bi, isBi := w.Call.Value.(*ssa.Builtin); isBi && bi.Name() == "copy" && baseObj(w.Call.Args[0]) == obj && derived(w.Call.Args[1]) && instrDominates(w, call) {
								okNonce = true
							}
						case *ssa.Store:
							if baseObj(w.Addr) == obj && derived(w.Val) && reachesAvoidingAll(w, call, nil) {
								// element stores sit in a loop over the nonce: the loop must lie before the call
								if w.Block().Dominates(call.Block()) || loopBefore(w.Block(), call.Block()) {
									okNonce = true
								}
							}
						}
					})
				}
			}
			c.Check(okNonce, rule, fname(f), "the inner "+f.Name()+" is given a nonce that depends on the record's nonce", "", "the nonce handed to the inner AEAD does not contain the per-record nonce this wrapper was given (it is built elsewhere and not used): every record of a connection is protected under the same nonce", call.Pos())
			// plaintext and additional data pass through
			c.Check(call.Call.Args[2] == ssa.Value(f.Params[3]) && call.Call.Args[3] == ssa.Value(f.Params[4]), rule, fname(f), "plaintext/ciphertext and additional data are passed through", "", "the inner "+f.Name()+" is not given this call's data and additional data", call.Pos())
		}
	}
	if n < 2 {
		c.Undecided(rule, "gmtls", "AEAD wrappers", fmt.Sprintf("only %d forwarding Seal/Open found", n), token.NoPos)
	}
}

// loopBefore: block w lies in a loop all of whose exits lead to blocks that dominate-or-equal `at`... approximated as:
// the header of the innermost loop containing w dominates `at` and `at` is outside that loop.
func loopBefore(w, at *ssa.BasicBlock) bool {
	for _, h := range loopHeaders(w.Parent()) {
		lb := loopBlocks(h)
		if lb[w] && !lb[at] && h.Dominates(at) {
			return true
		}
	}
	return false
}

// c07PadScan: TLS CBC padding is up to 255 bytes plus the length byte. extractPadding's scan over the tail of the
// record must cover min(256, len(payload)) bytes — with a smaller constant the farthest byte of a maximal padding is
// never compared, and a record with that byte altered is accepted.
func c07PadScan(c *Ctx) {
	rule := "K-C07-padscan"
	f := c.Fn("gmtls", "extractPadding")
	if f == nil {
		c.Undecided(rule, "gmtls.extractPadding", "padding scan length", "function not found", token.NoPos)
		return
	}
	var bound ssa.Value
	for _, h := range loopHeaders(f) {
		ifi, ok := lastIf(h)
		if !ok {
			continue
		}
		if bo, ok := ifi.Cond.(*ssa.BinOp); ok && bo.Op == token.LSS {
			if _, isPhi := bo.X.(*ssa.Phi); isPhi {
				bound = bo.Y
			}
		}
	}
	if bound == nil {
		c.Undecided(rule, fname(f), "padding scan length", "no loop `for i < bound` found", f.Pos())
		return
	}
	isLenPayload := func(v ssa.Value) bool {
		return isLenOf(v, func(x ssa.Value) bool { return x == ssa.Value(f.Params[0]) })
	}
	var k int64 = -1
	shape := false
	switch x := bound.(type) {
	case *ssa.Phi:
		if len(x.Edges) == 2 {
			for i := 0; i < 2; i++ {
				if kk, isK := constInt(x.Edges[i]); isK && isLenPayload(x.Edges[1-i]) {
					k, shape = kk, true
				}
			}
		}
	case *ssa.Call:
		if bi, ok := x.Call.Value.(*ssa.Builtin); ok && bi.Name() == "min" && len(x.Call.Args) == 2 {
			for i := 0; i < 2; i++ {
				if kk, isK := constInt(x.Call.Args[i]); isK && isLenPayload(x.Call.Args[1-i]) {
					k, shape = kk, true
				}
			}
		}
	}
	if !shape {
		c.Undecided(rule, fname(f), "padding scan length", "the scan bound is not min(constant, len(payload)) in a recognised form", bound.Pos())
		return
	}
	c.Check(k >= 256, rule, fname(f), "the scan covers min(256, len(payload)) bytes", fmt.Sprintf("constant %d", k), fmt.Sprintf("the padding scan looks at no more than %d bytes: a padding of 255 bytes plus its length byte is 256 bytes long, so the farthest padding byte is never compared and a record with that byte altered is accepted", k), bound.Pos())
}
