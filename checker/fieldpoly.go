package main

// fieldpoly.go — the value of an sm2 field-element object at a program point as a
// multivariate polynomial over GF(p) in the function's inputs, reconstructed from
// the sequence of ring operations (Add/Sub/Mul/Square/Dup/Scalar) applied to it.
// Comparing expanded normal forms decides polynomial identity exactly, whatever
// the order of operations or choice of temporaries.

import (
	"fmt"
	"go/token"
	"math/big"
	"sort"
	"strings"

	"golang.org/x/tools/go/ssa"
)

var sm2P, _ = new(big.Int).SetString("FFFFFFFEFFFFFFFFFFFFFFFFFFFFFFFFFFFFFFFF00000000FFFFFFFFFFFFFFFF", 16)

type poly map[string]*big.Int // monomial key "x^2*y" -> coefficient mod p

func pConst(k int64) poly {
	v := new(big.Int).Mod(big.NewInt(k), sm2P)
	if v.Sign() == 0 {
		return poly{}
	}
	return poly{"": v}
}

func pVar(name string) poly { return poly{name + "^1": big.NewInt(1)} }

func (a poly) add(b poly, sign int64) poly {
	r := poly{}
	for m, c := range a {
		r[m] = new(big.Int).Set(c)
	}
	for m, c := range b {
		v := new(big.Int)
		if old, ok := r[m]; ok {
			v.Set(old)
		}
		if sign > 0 {
			v.Add(v, c)
		} else {
			v.Sub(v, c)
		}
		v.Mod(v, sm2P)
		if v.Sign() == 0 {
			delete(r, m)
		} else {
			r[m] = v
		}
	}
	return r
}

func parseMono(m string) map[string]int {
	out := map[string]int{}
	if m == "" {
		return out
	}
	for _, f := range strings.Split(m, "*") {
		i := strings.LastIndex(f, "^")
		var e int
		fmt.Sscanf(f[i+1:], "%d", &e)
		out[f[:i]] = e
	}
	return out
}

func monoKey(e map[string]int) string {
	var vs []string
	for v, k := range e {
		if k > 0 {
			vs = append(vs, v)
		}
	}
	sort.Strings(vs)
	parts := make([]string, len(vs))
	for i, v := range vs {
		parts[i] = fmt.Sprintf("%s^%d", v, e[v])
	}
	return strings.Join(parts, "*")
}

func (a poly) mul(b poly) poly {
	r := poly{}
	for ma, ca := range a {
		ea := parseMono(ma)
		for mb, cb := range b {
			e := map[string]int{}
			for v, k := range ea {
				e[v] = k
			}
			for v, k := range parseMono(mb) {
				e[v] += k
			}
			key := monoKey(e)
			v := new(big.Int).Mul(ca, cb)
			if old, ok := r[key]; ok {
				v.Add(v, old)
			}
			v.Mod(v, sm2P)
			if v.Sign() == 0 {
				delete(r, key)
			} else {
				r[key] = v
			}
		}
	}
	return r
}

func (a poly) scale(k int64) poly { return a.mul(pConst(k)) }

func (a poly) equal(b poly) bool { return len(a.add(b, -1)) == 0 }

func (a poly) String() string {
	var ms []string
	for m := range a {
		ms = append(ms, m)
	}
	sort.Strings(ms)
	var parts []string
	for i, m := range ms {
		if i >= 6 {
			parts = append(parts, fmt.Sprintf("… (%d terms)", len(ms)))
			break
		}
		c := a[m]
		cs := c.String()
		if c.BitLen() > 64 {
			neg := new(big.Int).Sub(sm2P, c)
			if neg.BitLen() <= 64 {
				cs = "-" + neg.String()
			} else {
				cs = "0x" + c.Text(16)[:8] + "…"
			}
		}
		if m == "" {
			parts = append(parts, cs)
		} else {
			parts = append(parts, cs+"·"+m)
		}
	}
	if len(parts) == 0 {
		return "0"
	}
	return strings.Join(parts, " + ")
}

// ---- field-element objects and their histories

type feEnv struct {
	f       *ssa.Function
	vars    map[string]string // object key -> variable name
	unknown int
	depth   int
	Ops     int
}

// feKey: identity of the field element an address value denotes
func feKey(v ssa.Value) string {
	switch x := v.(type) {
	case *ssa.Alloc:
		return fmt.Sprintf("alloc:%p", x)
	case *ssa.Parameter:
		return "param:" + pname(x)
	case *ssa.FieldAddr:
		if g, ok := x.X.(*ssa.Global); ok {
			return "global:" + g.Name() + "." + fieldName(x.X.Type(), x.Field)
		}
		if p, ok := x.X.(*ssa.Parameter); ok {
			return "param:" + pname(p) + "." + fieldName(x.X.Type(), x.Field)
		}
		// field of a local struct copy (curve := sm2P256; &curve.a): traced to the global it was copied from
		if al, ok := x.X.(*ssa.Alloc); ok {
			for _, u := range *al.Referrers() {
				if st, ok := u.(*ssa.Store); ok && st.Addr == ssa.Value(al) {
					if g := globalOf(st.Val); g != nil {
						return "global:" + g.Name() + "." + fieldName(x.X.Type(), x.Field)
					}
					if p, ok := st.Val.(*ssa.Parameter); ok {
						return "param:" + pname(p) + "." + fieldName(x.X.Type(), x.Field)
					}
				}
			}
			return fmt.Sprintf("alloc:%p.%s", al, fieldName(x.X.Type(), x.Field))
		}
	case *ssa.IndexAddr:
		if k, ok := constInt(x.Index); ok {
			if g := globalOf(x.X); g != nil {
				return fmt.Sprintf("global:%s[%d]", g.Name(), k)
			}
		}
	}
	return fmt.Sprintf("?%T:%p", v, v)
}

type feOp struct {
	kind string // add sub mul sq dup scale frombig clobber
	dst  ssa.Value
	srcs []ssa.Value
	k    int64
	big  ssa.Value
	in   ssa.Instruction
}

var feFuncs = map[string]string{
	"sm2P256Add": "add", "sm2P256Sub": "sub", "sm2P256Mul": "mul", "sm2P256Square": "sq",
	"sm2P256Dup": "dup", "sm2P256Scalar": "scale", "sm2P256FromBig": "frombig",
}

func isFEPtr(v ssa.Value) bool {
	return strings.HasSuffix(v.Type().String(), "sm2.sm2P256FieldElement") && strings.HasPrefix(v.Type().String(), "*")
}

// feOps: all operations in f that write a field element
func (e *feEnv) ops() []feOp {
	var out []feOp
	instrsOf(e.f, func(_ *ssa.BasicBlock, in ssa.Instruction) {
		switch x := in.(type) {
		case *ssa.Call:
			sc := x.Call.StaticCallee()
			if sc == nil {
				return
			}
			a := x.Call.Args
			if kind, ok := feFuncs[sc.Name()]; ok && len(a) >= 2 {
				op := feOp{kind: kind, dst: a[0], in: in}
				switch kind {
				case "add", "sub", "mul":
					op.srcs = []ssa.Value{a[1], a[2]}
				case "sq", "dup":
					op.srcs = []ssa.Value{a[1]}
				case "scale":
					k, ok := constInt(a[1])
					if !ok {
						op.kind = "clobber"
					}
					op.k = k
				case "frombig":
					op.big = a[1]
				}
				out = append(out, op)
				return
			}
			// any other repo call receiving field element pointers may write them
			if inRepo(sc) {
				var w map[root]witness
				if fxCache != nil {
					w = fxCache.Writes(sc)
				}
				for i, arg := range a {
					if !isFEPtr(arg) {
						continue
					}
					if w != nil {
						if _, writes := w[root{Kind: rkParam, Idx: i}]; !writes {
							continue
						}
					}
					out = append(out, feOp{kind: "clobber:" + sc.Name(), dst: arg, in: in})
				}
			}
		case *ssa.Store:
			if isFEPtr(x.Addr) {
				// *dst = *src
				if ld, ok := x.Val.(*ssa.UnOp); ok && ld.Op == token.MUL && isFEPtr(ld.X) {
					out = append(out, feOp{kind: "dup", dst: x.Addr, srcs: []ssa.Value{ld.X}, in: in})
				} else {
					out = append(out, feOp{kind: "clobber:store", dst: x.Addr, in: in})
				}
			}
		}
	})
	return out
}

// valueAt: polynomial of the object at address v just before instruction at; ok=false when unknown
func (e *feEnv) valueAt(v ssa.Value, at ssa.Instruction, ops []feOp) (poly, string) {
	if e.depth > 200 {
		return nil, "derivation too deep"
	}
	e.depth++
	defer func() { e.depth-- }()
	key := feKey(v)
	var defInstr ssa.Instruction
	if di, ok := v.(ssa.Instruction); ok {
		defInstr = di
	}
	var last *feOp
	for i := range ops {
		op := &ops[i]
		if feKey(op.dst) != key || op.in == at {
			continue
		}
		if instrDominates(op.in, at) {
			if last == nil || instrDominates(last.in, op.in) {
				last = op
			}
			continue
		}
		if instrReaches(op.in, at, defInstr) {
			return nil, "a write to the same element on another path reaches this point (" + op.kind + ")"
		}
	}
	if last == nil {
		return e.initial(v, key), ""
	}
	e.Ops++
	get := func(i int) (poly, string) { return e.valueAt(last.srcs[i], last.in, ops) }
	switch last.kind {
	case "add", "sub", "mul":
		a, w := get(0)
		if a == nil {
			return nil, w
		}
		b, w := get(1)
		if b == nil {
			return nil, w
		}
		switch last.kind {
		case "add":
			return a.add(b, 1), ""
		case "sub":
			return a.add(b, -1), ""
		}
		return a.mul(b), ""
	case "sq":
		a, w := get(0)
		if a == nil {
			return nil, w
		}
		return a.mul(a), ""
	case "dup":
		return get(0)
	case "scale":
		a, w := e.valueAt(last.dst, last.in, ops)
		if a == nil {
			return nil, w
		}
		return a.scale(last.k), ""
	case "frombig":
		name := "big:" + last.big.Name()
		if p, ok := last.big.(*ssa.Parameter); ok {
			name = pname(p)
		} else if n, ok := e.vars["big:"+last.big.Name()]; ok {
			name = n
		}
		return pVar(name), ""
	}
	return nil, "written by " + last.kind
}

func (e *feEnv) initial(v ssa.Value, key string) poly {
	if n, ok := e.vars[key]; ok {
		return pVar(n)
	}
	switch {
	case strings.HasPrefix(key, "param:"):
		return pVar(strings.TrimPrefix(key, "param:"))
	case strings.HasPrefix(key, "global:sm2P256Factor["):
		// the table of small constants k (in Montgomery form); its contents are pinned by K-C03-tables
		var k int64
		if _, err := fmt.Sscanf(key, "global:sm2P256Factor[%d]", &k); err == nil && k >= 0 && k <= 8 {
			return pConst(k)
		}
	case strings.HasPrefix(key, "global:sm2P256."):
		return pVar("curve." + strings.TrimPrefix(key, "global:sm2P256."))
	case strings.HasPrefix(key, "param:curve."):
		return pVar("curve." + strings.TrimPrefix(key, "param:curve."))
	case strings.HasPrefix(key, "alloc:"):
		return poly{} // zero value
	}
	e.unknown++
	return pVar(fmt.Sprintf("?%d", e.unknown))
}
