package main

// C01 — SM2 signatures: verification range checks / formula, signing formula,
// nonce freshness, ZA, strict DER.

import (
	"fmt"
	"go/token"
	"go/types"
	"os"
	"regexp"
	"strings"

	"golang.org/x/tools/go/ssa"
)

func init() { register("C01", checkC01) }

func dbg(format string, a ...interface{}) {
	if os.Getenv("GMSMCHECK_DEBUG") != "" {
		fmt.Fprintf(os.Stderr, format+"\n", a...)
	}
}

var reParamsN = regexp.MustCompile(`[A-Za-z0-9_.:*]*Params\(\)\.N`)
var reParamsBits = regexp.MustCompile(`[A-Za-z0-9_.:*]*Params\(\)\.BitSize`)

// normBig: normalise curve-parameter leaves
func normBig(s string) string {
	s = reParamsN.ReplaceAllString(s, "N")
	s = reParamsBits.ReplaceAllString(s, "BITS")
	s = strings.ReplaceAll(s, "global:sm2P256.CurveParams.N", "N")
	s = strings.ReplaceAll(s, "global:sm2P256.N", "N")
	// big.NewInt(k) is the constant k, like new(big.Int).SetInt64(k)
	s = reNewInt.ReplaceAllString(s, "$1")
	return s
}

var reNewInt = regexp.MustCompile(`call:math/big\.NewInt\((0x[0-9a-f]+)\)`)

func paramNames(f *ssa.Function, names ...string) map[ssa.Value]string {
	m := map[ssa.Value]string{}
	for i, p := range f.Params {
		if i < len(names) && names[i] != "" {
			m[p] = names[i]
		}
	}
	return m
}

// namePhiOf: names a phi whose edges are exactly {a, load of package var}: "A|default"
func nameDefaultPhis(f *ssa.Function, names map[ssa.Value]string) {
	instrsOf(f, func(_ *ssa.BasicBlock, in ssa.Instruction) {
		phi, ok := in.(*ssa.Phi)
		if !ok || len(phi.Edges) != 2 {
			return
		}
		var base, glob string
		for _, e := range phi.Edges {
			if n, ok := names[e]; ok {
				base = n
			} else if g := globalOf(e); g != nil {
				glob = g.Name()
			} else if mi, ok := e.(*ssa.MakeInterface); ok {
				if g := globalOf(mi.X); g != nil {
					glob = g.Name()
				}
			}
		}
		if base != "" && glob != "" {
			names[phi] = base + "|" + glob
		}
	})
}

func checkC01(c *Ctx) {
	defer c01DefaultUID(c)
	c.Decided = append(c.Decided,
		"G-C01-uidagree: every function of package sm2 that substitutes default_uid for a user-ID parameter does so under the same condition (sibling agreement between signer and verifier)",
		"G-C01-range: Sm2Verify and Verify reject r,s outside [1,n-1] (both bounds, both values) and (r+s) mod n == 0, before any curve operation; tests decoded on the SSA comparison so a weakened operator is a refutation",
		"K-C01-verify: the accepted value is exactly ((e + x1) mod n) == r with (x1,_) = [s]G + [t]P, t=(r+s) mod n (canonical form of the big.Int object histories)",
		"K-C01-sign: r = (e + x1) mod n with (x1,_) = [k]G and s = ((1+d)^-1 (k - r d)) mod n (canonical form), k = randFieldElement(curve, random) drawn inside the retry loop; r=0, r+k=n and s=0 lead back to a fresh draw; reader errors are returned",
		"K-C01-nonce: randFieldElement reads BitSize/8+8 bytes from the caller's reader with io.ReadFull and returns (bytes mod (n-1)) + 1",
		"K-C01-za: ZA hashes ENTL(16-bit big-endian bit length)||ID||a||b||Gx||Gy||xA||yA in that order with xA,yA left-padded to 32 bytes; uid >= 8192 bytes rejected; e = SM3(ZA||M)",
		"T-C03-special: the curve addition used for [s]G + [t]P handles P = Q (by doubling, decided on values) and infinity before the chord formulas; zForAffine treats exactly (0,0) as infinity (the rule of C03, evaluated here too: completeness of verification depends on it)",
		"G-C01-der: (*PublicKey).Verify returns false unless the signature is exactly one DER SEQUENCE of two INTEGERs with no trailing bytes, then defers to Sm2Verify with the default ID; Sign encodes with the same two-INTEGER SEQUENCE",
		"G-C01-consumers: repo callers of the verify functions reject on a false result")
	c.NotDec = append(c.NotDec, "that (r,s) numerically equals the standard's value (group arithmetic is C03)", "completeness as a mathematical fact", "distinctness of r for distinct nonces")

	for _, fn := range []string{"Sm2Verify", "Verify"} {
		f := c.Fn("sm2", fn)
		if f == nil {
			c.Missing("G-C01-range", "sm2."+fn, "function", "exported verification function not found")
			continue
		}
		c01Verify(c, f)
	}
	c01Sign(c)
	c01Nonce(c)
	c01ZA(c)
	c01DER(c)
	c01Consumers(c)
	if rows, _ := sigDetails(c); len(rows) > 0 {
		c09Verifier(c, rows) // the x509 consumer hands SM2-curve keys to Sm2Verify over the raw bytes (rule of C09)
	}
	// the verifier computes [s]G + [t]P with the curve's Add: its special cases (P = Q, infinity) are part of
	// completeness — a valid signature whose two summands coincide must still verify
	c03Tables(c)
	c03Formulas(c)
	c03Special(c)
	// e = SM3(ZA || M): length counting and padding of the hash (the rules of C04) decide which messages and user IDs
	// get the prescribed digest
	if w, sm := c.Fn("sm3", "(*SM3).Write"), c.Fn("sm3", "(*SM3).Sum"); w != nil && sm != nil {
		c04LenPad(c, w, sm)
	}
	noPointerParamWrites(c, "FX-C01-pure", "sm2", []string{"Sm2Sign", "Sm2Verify", "Verify"}, "the caller's key (or r, s) is changed by signing / verifying: later operations with the same object give different results")
	noGlobalWrites(c, "FX-C01-pure", [][2]string{{"sm2", "Sm2Sign"}, {"sm2", "Sm2Verify"}, {"sm2", "(*PrivateKey).Sign"}, {"sm2", "(*PublicKey).Verify"}, {"sm2", "Verify"}},
		"a signature (or a verdict) depends on other calls — e.g. a DER buffer taken from a pool and returned to it is overwritten by the next Sign")
	fixedWidthHashed(c, "P-WIDTH-hash")
}

func bigParams(f *ssa.Function) []*ssa.Parameter {
	var out []*ssa.Parameter
	for _, p := range f.Params {
		if isBigIntPtr(p.Type()) {
			out = append(out, p)
		}
	}
	return out
}

func c01Verify(c *Ctx, f *ssa.Function) {
	fn := fname(f)
	bp := bigParams(f)
	if len(bp) != 2 {
		c.Undecided("G-C01-range", fn, "r,s parameters", "expected exactly two *big.Int parameters (r, s)", f.Pos())
		return
	}
	r, s := bp[0], bp[1]
	names := map[ssa.Value]string{r: "r", s: "s"}
	for _, p := range f.Params {
		if _, ok := names[p]; !ok {
			names[p] = pname(p)
		}
	}
	names[f.Params[0]] = "pub"
	nameDefaultPhis(f, names)
	be := newBigEnv(f, names)
	spec, _ := defaultResultSpec(f)
	sinks := curveOps(f)
	if len(sinks) < 3 {
		c.Undecided("K-C01-verify", fn, "curve operations", "fewer than three curve operations found", f.Pos())
	}
	lowerAtoms := map[string][]Atom{}
	upperAtoms := map[string][]Atom{}
	var tAtoms []Atom
	for _, ifi := range ifsOf(f) {
		c.Evals++
		st, ok := decodeSignTest(ifi.Cond)
		if !ok {
			continue
		}
		xv := normBig(be.valueAt(st.X, st.Call).String())
		yv := ""
		if st.Y != nil {
			yv = normBig(be.valueAt(st.Y, st.Call).String())
		}
		for _, v := range []string{"r", "s"} {
			// lower bound v >= 1
			var allowed [3]bool
			match := false
			switch {
			case st.Kind == "Sign" && xv == v:
				allowed, match = [3]bool{false, false, true}, true
			case st.Kind == "Cmp" && xv == v && yv == "0x0":
				allowed, match = [3]bool{false, false, true}, true
			case st.Kind == "Cmp" && xv == v && yv == "0x1":
				allowed, match = [3]bool{false, true, true}, true
			case st.Kind == "Cmp" && xv == "0x1" && yv == v:
				allowed, match = [3]bool{true, true, false}, true
			case st.Kind == "Cmp" && xv == "0x0" && yv == v:
				allowed, match = [3]bool{true, false, false}, true
			}
			if match {
				if ps, ok := passSuccFor(allowed, st.TrueSet); ok {
					lowerAtoms[v] = append(lowerAtoms[v], Atom{ifi, ps, v + " >= 1"})
				}
			}
			match = false
			switch {
			case st.Kind == "Cmp" && xv == v && yv == "N":
				allowed, match = [3]bool{true, false, false}, true
			case st.Kind == "Cmp" && xv == "N" && yv == v:
				allowed, match = [3]bool{false, false, true}, true
			}
			if match {
				if ps, ok := passSuccFor(allowed, st.TrueSet); ok {
					upperAtoms[v] = append(upperAtoms[v], Atom{ifi, ps, v + " < n"})
				}
			}
		}
		if xv == "mod(add(r,s),N)" && (st.Kind == "Sign" || (st.Kind == "Cmp" && yv == "0x0")) {
			if ps, ok := passSuccFor([3]bool{true, false, true}, st.TrueSet); ok {
				tAtoms = append(tAtoms, Atom{ifi, ps, "(r+s) mod n != 0"})
			}
		}
	}
	for _, v := range []string{"r", "s"} {
		g := evalGuard(c.P, f, lowerAtoms[v], spec, sinks)
		c.Check(g.OK, "G-C01-range", fn, v+" >= 1", g.Why, "verification must reject "+v+" < 1: "+g.Why, g.Pos)
		g = evalGuard(c.P, f, upperAtoms[v], spec, sinks)
		c.Check(g.OK, "G-C01-range", fn, v+" <= n-1", g.Why, "verification must reject "+v+" >= n: "+g.Why, g.Pos)
	}
	g := evalGuard(c.P, f, tAtoms, spec, sinks)
	c.Check(g.OK, "G-C01-range", fn, "(r+s) mod n != 0", g.Why, "verification must reject t = (r+s) mod n == 0: "+g.Why, g.Pos)

	// K-C01-verify: every possibly-true return is eq(cmp(R,r),0)
	T := "mod(add(r,s),N)"
	SB := "call:ScalarBaseMult(bytes(s))"
	SM := "call:ScalarMult(pub.X,pub.Y,bytes(" + T + "))"
	x1 := "res0(call:Add(res0(" + SB + "),res1(" + SB + "),res0(" + SM + "),res1(" + SM + ")))"
	var E string
	if fn == "sm2.Sm2Verify" {
		E = "res0(call:sm2.msgHash(res0(call:sm2.ZA(pub,uid|default_uid)),msg))"
	} else {
		E = "frombytes(" + names[f.Params[1]] + ")"
	}
	// add() sorts operands
	want := "eq(cmp(" + Op("mod", Op("add", L(x1), L(E)), L("N")).String() + ",r),0x0)"
	nsucc := 0
	for _, b := range f.Blocks {
		ret, ok := b.Instrs[len(b.Instrs)-1].(*ssa.Return)
		if !ok {
			continue
		}
		if cb, ok := constBool(ret.Results[0]); ok && !cb {
			continue
		}
		nsucc++
		got := normBig(be.plain(ret.Results[0], ret).String())
		// equality is symmetric: r.Cmp(x) == 0 for x.Cmp(r) == 0
		if strings.HasPrefix(got, "eq(cmp(r,") && strings.HasSuffix(got, "),0x0)") {
			got = "eq(cmp(" + strings.TrimSuffix(strings.TrimPrefix(got, "eq(cmp(r,"), "),0x0)") + ",r),0x0)"
		}
		c.Check(got == want, "K-C01-verify", fn, "accepting return value", "((e + x1) mod n) == r with (x1,_) = [s]G + [t]P",
			"the accepting return is not ((e+x1) mod n)==r with x1 from [s]G+[t]P, t=(r+s) mod n: have "+got+" want "+want, ret.Pos())
	}
	if nsucc == 0 {
		c.Violated("K-C01-verify", fn, "accepting return value", "the function has no return that can yield true", f.Pos())
	}
	// error results of ZA/msgHash lead to rejection (Sm2Verify)
	if fn == "sm2.Sm2Verify" {
		for _, callee := range []string{"ZA", "msgHash"} {
			atoms := errCheckAtoms(f, func(call *ssa.Call) bool {
				sc := call.Call.StaticCallee()
				return sc != nil && sc.Name() == callee && inRepo(sc)
			}, "error of "+callee)
			g := evalGuard(c.P, f, atoms, spec, nil)
			c.Check(g.OK, "G-C01-range", fn, "error of "+callee+" rejects", g.Why, "an error from "+callee+" must make verification fail: "+g.Why, g.Pos)
		}
	}
}

func c01Sign(c *Ctx) {
	f := c.Fn("sm2", "Sm2Sign")
	if f == nil {
		c.Missing("K-C01-sign", "sm2.Sm2Sign", "function", "not found")
		return
	}
	fn := fname(f)
	names := paramNames(f, "priv", "msg", "uid", "random")
	be := newBigEnv(f, names)
	K := "res0(call:sm2.randFieldElement(priv.PublicKey.Curve,random))"
	E := "frombytes(res0(call:(*sm2.PublicKey).Sm3Digest(field:PublicKey(priv),msg,uid)))"
	X1 := "res0(call:ScalarBaseMult(bytes(" + K + ")))"
	R := Op("mod", Op("add", L(E), L(X1)), L("N")).String()
	S := Op("mod", Op("mul", Op("modinv", Op("add", L("0x1"), L("priv.D")), L("N")), Op("sub", L(K), Op("mul", L(R), L("priv.D")))), L("N")).String()
	spec, _ := defaultResultSpec(f)
	ex := successExits(f, spec)
	nsucc := 0
	var drawCall *ssa.Call
	for _, ci := range allCalls(f) {
		if sc := ci.Common().StaticCallee(); sc != nil && sc.Name() == "randFieldElement" {
			drawCall, _ = ci.(*ssa.Call)
		}
	}
	for _, b := range f.Blocks {
		ret, ok := b.Instrs[len(b.Instrs)-1].(*ssa.Return)
		if !ok {
			continue
		}
		if !ex.blocks[b] {
			isEdge := false
			for e := range ex.edges {
				if e.to == b {
					isEdge = true
				}
			}
			if !isEdge {
				continue
			}
		}
		nsucc++
		gr := normBig(be.valueAt(ret.Results[0], ret).String())
		gs := normBig(be.valueAt(ret.Results[1], ret).String())
		// the curve may be reached as priv.Curve or priv.PublicKey.Curve
		gr = strings.ReplaceAll(gr, "randFieldElement(priv.Curve,", "randFieldElement(priv.PublicKey.Curve,")
		gs = strings.ReplaceAll(gs, "randFieldElement(priv.Curve,", "randFieldElement(priv.PublicKey.Curve,")
		c.Check(gr == R, "K-C01-sign", fn, "r = (e + x1) mod n", "canonical form matches GM/T 0003.2", "returned r is not (e + x1) mod n with (x1,_) = [k]G, k from randFieldElement(curve, random): have "+gr+" want "+R, ret.Pos())
		c.Check(gs == S, "K-C01-sign", fn, "s = ((1+d)^-1 (k - r d)) mod n", "canonical form matches GM/T 0003.2", "returned s is not ((1+d)^-1 (k - r*d)) mod n: have "+gs+" want "+S, ret.Pos())
	}
	if nsucc == 0 {
		c.Violated("K-C01-sign", fn, "success return", "no return with a nil error found", f.Pos())
	}
	if drawCall == nil {
		c.Violated("K-C01-sign", fn, "nonce drawn per attempt", "Sm2Sign does not call randFieldElement", f.Pos())
		return
	}
	// the draw is inside a loop (its block can reach itself)
	inLoop := false
	for _, s := range drawCall.Block().Succs {
		if reach([]*ssa.BasicBlock{s}, nil)[drawCall.Block()] {
			inLoop = true
		}
	}
	c.Check(inLoop, "K-C01-sign", fn, "nonce drawn inside the retry loop", "", "the nonce draw is not inside the retry loop: a retry would reuse k", drawCall.Pos())
	// error of the draw is returned
	atoms := errCheckAtoms(f, func(call *ssa.Call) bool { return call == drawCall }, "reader error")
	g := evalGuard(c.P, f, atoms, spec, callsNamed(f, "ScalarBaseMult"))
	c.Check(g.OK, "K-C01-sign", fn, "random reader error is returned", g.Why, "a failing random source must make signing fail before k is used: "+g.Why, g.Pos)
	// retry conditions: after cutting the draw's block, the failing edge of each test must not reach success
	type retry struct {
		desc    string
		x, y    string
		allowed [3]bool
	}
	retries := []retry{
		{"r != 0", R, "", [3]bool{true, false, true}},
		{"r + k != n", Op("add", L(R), L(K)).String(), "N", [3]bool{true, false, true}},
		{"s != 0", S, "", [3]bool{true, false, true}},
	}
	for _, rt := range retries {
		found := false
		okAll := true
		var pos token.Pos
		why := ""
		for _, ifi := range ifsOf(f) {
			st, ok := decodeSignTest(ifi.Cond)
			if !ok {
				continue
			}
			xv := normBig(be.valueAt(st.X, st.Call).String())
			xv = strings.ReplaceAll(xv, "randFieldElement(priv.Curve,", "randFieldElement(priv.PublicKey.Curve,")
			yv := ""
			if st.Y != nil {
				yv = normBig(be.valueAt(st.Y, st.Call).String())
			}
			if xv != rt.x || (rt.y != "" && yv != rt.y) || (rt.y == "" && st.Kind == "Cmp" && yv != "0x0") {
				continue
			}
			ps, ok := passSuccFor(rt.allowed, st.TrueSet)
			if !ok {
				continue
			}
			found = true
			pos = ifi.Cond.Pos()
			// failing edge: success only reachable through the draw
			blk := ifi.Block()
			fail := blk.Succs[1-ps]
			cut := map[edge]bool{}
			for _, p := range drawCall.Block().Preds {
				cut[edge{p, drawCall.Block()}] = true
			}
			if fail == drawCall.Block() {
				continue // goes straight back to the draw
			}
			e := edge{blk, fail}
			if ok2, at := canReachSuccess(fail, &e, ex, cut); ok2 {
				okAll = false
				why = "when the test fails a successful return at " + c.P.pos(lastPos(at)) + " is reachable without drawing a new nonce"
			}
		}
		if !found {
			c.Violated("K-C01-sign", fn, "retry when "+rt.desc+" fails", "no test of "+rt.desc+" (decoded on the big.Int comparison) guards the result", f.Pos())
		} else {
			c.Check(okAll, "K-C01-sign", fn, "retry when "+rt.desc+" fails", "failure leads back to a fresh nonce", why, pos)
		}
	}
	// digest error propagates
	atoms = errCheckAtoms(f, func(call *ssa.Call) bool {
		sc := call.Call.StaticCallee()
		return sc != nil && sc.Name() == "Sm3Digest"
	}, "digest error")
	g = evalGuard(c.P, f, atoms, spec, nil)
	c.Check(g.OK, "K-C01-sign", fn, "digest error is returned", g.Why, "an error computing e must abort signing: "+g.Why, g.Pos)

	// Sm3Digest: bytes(msgHash(ZA(pub, uid|default), msg))
	d := c.Fn("sm2", "(*PublicKey).Sm3Digest")
	if d == nil {
		c.Missing("K-C01-sign", "sm2.(*PublicKey).Sm3Digest", "method", "not found")
		return
	}
	dn := paramNames(d, "pub", "msg", "uid")
	nameDefaultPhis(d, dn)
	dbe := newBigEnv(d, dn)
	dspec, _ := defaultResultSpec(d)
	dex := successExits(d, dspec)
	for _, b := range d.Blocks {
		ret, ok := b.Instrs[len(b.Instrs)-1].(*ssa.Return)
		if !ok || !dex.blocks[b] {
			continue
		}
		got := dbe.plain(ret.Results[0], ret).String()
		want := "bytes(res0(call:sm2.msgHash(res0(call:sm2.ZA(pub,uid|default_uid)),msg)))"
		c.Check(got == want, "K-C01-sign", fname(d), "e = H(ZA(pub, uid or default) || M)", "", "digest is not msgHash(ZA(pub, uid-or-default), msg): have "+got, ret.Pos())
	}
}

func c01Nonce(c *Ctx) {
	f := c.Fn("sm2", "randFieldElement")
	if f == nil {
		c.Missing("K-C01-nonce", "sm2.randFieldElement", "function", "not found")
		return
	}
	fn := fname(f)
	names := paramNames(f, "curve", "random")
	nameDefaultPhis(f, names)
	be := newBigEnv(f, names)
	spec, _ := defaultResultSpec(f)
	ex := successExits(f, spec)
	var rf *ssa.Call
	for _, ci := range allCalls(f) {
		if calleeID(ci.Common()) == "io.ReadFull" {
			rf, _ = ci.(*ssa.Call)
		}
	}
	if rf == nil {
		c.Violated("K-C01-nonce", fn, "io.ReadFull(random, b)", "the nonce bytes are not read with io.ReadFull from the supplied reader", f.Pos())
		return
	}
	rd := be.plain(rf.Call.Args[0], rf).String()
	c.Check(rd == "random|Reader" || rd == "random", "K-C01-nonce", fn, "reader is the caller's (default crypto/rand)", "", "io.ReadFull reads from "+rd+" rather than the caller-supplied reader", rf.Pos())
	buf := normBig(be.plain(rf.Call.Args[1], rf).String())
	c.Check(buf == "make(add(0x8,quo(BITS,0x8)))", "K-C01-nonce", fn, "BitSize/8+8 random bytes", "", "nonce buffer is "+buf+", expected BitSize/8+8 bytes (64 extra bits keep the bias negligible)", rf.Pos())
	atoms := errCheckAtoms(f, func(call *ssa.Call) bool { return call == rf }, "read error")
	g := evalGuard(c.P, f, atoms, spec, nil)
	c.Check(g.OK, "K-C01-nonce", fn, "short read is an error", g.Why, "a failed or short read must not yield a nonce: "+g.Why, g.Pos)
	for _, b := range f.Blocks {
		ret, ok := b.Instrs[len(b.Instrs)-1].(*ssa.Return)
		if !ok || !(ex.blocks[b]) {
			continue
		}
		got := normBig(be.valueAt(ret.Results[0], ret).String())
		want := "add(0x1,mod(frombytes(" + buf + "),sub(N,0x1)))"
		alt := "add(0x1,mod(frombytes(" + buf + "),sub(N,0x2)))" // k in [1,n-2]: equally valid (the form key generation uses)
		c.Check(got == want || got == alt, "K-C01-nonce", fn, "k = (bytes mod (n-1)) + 1", "", "nonce is "+got+", expected "+want+" (k in [1,n-1], derived from the bytes read)", ret.Pos())
	}
}

// hashWrites: ordered list of arguments written to a hash object created by sm3.New() in f.
func hashWrites(f *ssa.Function) (obj *ssa.Call, writes []*ssa.Call, sum *ssa.Call) {
	for _, ci := range allCalls(f) {
		call, ok := ci.(*ssa.Call)
		if !ok {
			continue
		}
		if sc := call.Call.StaticCallee(); sc != nil && sc.Name() == "New" && sc.Pkg != nil && rel(sc.Pkg.Pkg.Path()) == "sm3" {
			obj = call
		}
	}
	if obj == nil {
		return
	}
	for _, b := range f.DomPreorder() {
		for _, in := range b.Instrs {
			call, ok := in.(*ssa.Call)
			if !ok || !call.Call.IsInvoke() || call.Call.Value != ssa.Value(obj) {
				continue
			}
			switch call.Call.Method.Name() {
			case "Write":
				writes = append(writes, call)
			case "Sum":
				sum = call
			}
		}
	}
	return
}

// padded32: v is big.Bytes() left-padded to 32 bytes by the repo idiom
//
//	b := X.Bytes(); if n := len(b); n < 32 { b = append(zeros[:32-n], b...) }
//
// or FillBytes(make([]byte,32)). Returns the canonical big value.
func padded32(be *bigEnv, v ssa.Value) (string, bool) {
	if phi, ok := v.(*ssa.Phi); ok && len(phi.Edges) == 2 {
		var raw *ssa.Call
		for _, e := range phi.Edges {
			if call, name, _, _, ok := bigMethod(e); ok && name == "Bytes" {
				raw = call
			}
		}
		if raw == nil || !padIdiom(phi, raw) {
			return "", false
		}
		_, _, recv, _, _ := bigMethod(raw)
		return be.valueAt(recv, raw).String(), true
	}
	// helper call pad(X.Bytes()) whose body is the idiom over its parameter
	if call, ok := v.(*ssa.Call); ok {
		sc := call.Call.StaticCallee()
		if sc != nil && inRepo(sc) && len(sc.Params) == 1 && len(call.Call.Args) == 1 && isPadHelper(sc) {
			if raw, name, recv, _, ok := bigMethod(call.Call.Args[0]); ok && name == "Bytes" {
				return be.valueAt(recv, raw).String(), true
			}
		}
	}
	if call, name, recv, args, ok := bigMethod(v); ok && name == "FillBytes" {
		if ms, ok := args[0].(*ssa.MakeSlice); ok {
			if k, ok := constInt(ms.Len); ok && k == 32 {
				return be.valueAt(recv, call).String(), true
			}
		}
	}
	return "", false
}

var padHelperCache = map[*ssa.Function]bool{}

func isPadHelper(f *ssa.Function) bool {
	if v, ok := padHelperCache[f]; ok {
		return v
	}
	res := false
	var rets []ssa.Value
	for _, b := range f.Blocks {
		if ret, ok := b.Instrs[len(b.Instrs)-1].(*ssa.Return); ok && len(ret.Results) == 1 {
			rets = append(rets, ret.Results[0])
		}
	}
	switch len(rets) {
	case 1:
		phi, ok := rets[0].(*ssa.Phi)
		res = ok && padIdiom(phi, f.Params[0])
	case 2:
		// early-return form: `if len(b) < 32 { return append(zeros[:32-len(b)], b...) }; return b`
		res = padAlternatives(rets, nil, f.Params[0])
		if !res {
			// or a fresh 32-byte buffer with the value copied into its tail, the value itself being returned when it
			// already has 32 bytes or more
			be := newBigEnv(f, map[ssa.Value]string{f.Params[0]: "$0"})
			forms := map[string]bool{}
			for _, b := range f.Blocks {
				if ret, ok := b.Instrs[len(b.Instrs)-1].(*ssa.Return); ok && len(ret.Results) == 1 {
					forms[be.bytesOf(ret.Results[0], ret).String()] = true
				}
			}
			guard := false
			for _, ifi := range ifsOf(f) {
				if bo, ok := ifi.Cond.(*ssa.BinOp); ok {
					if k, isK := constInt(bo.Y); isK && k == 32 && isLenOf(bo.X, func(x ssa.Value) bool { return x == ssa.Value(f.Params[0]) }) {
						guard = true
					}
				}
			}
			res = guard && len(forms) == 2 && forms["$0"] && forms["padleft(0x20,$0)"]
		}
	}
	padHelperCache[f] = res
	return res
}

// padIdiom: phi = [raw, append(zeros[:32-len(raw)], raw...)] chosen by len(raw) < 32
func padIdiom(phi *ssa.Phi, raw ssa.Value) bool {
	if len(phi.Edges) != 2 {
		return false
	}
	return padAlternatives(phi.Edges, phi.Block(), raw)
}

// padAlternatives: the two alternatives `vals` (phi edges at block `at`, or the values of two return statements)
// are raw itself and append(zeros[:32-len(raw)], raw...), the latter taken exactly when len(raw) < 32
func padAlternatives(vals []ssa.Value, at *ssa.BasicBlock, raw ssa.Value) bool {
	if len(vals) != 2 {
		return false
	}
	var app *ssa.Call
	hasRaw := false
	for _, e := range vals {
		if e == raw {
			hasRaw = true
		} else if call, ok := e.(*ssa.Call); ok {
			if bi, ok := call.Call.Value.(*ssa.Builtin); ok && bi.Name() == "append" {
				app = call
			}
		}
	}
	if !hasRaw || app == nil || app.Call.Args[1] != raw {
		return false
	}
	sl, ok := app.Call.Args[0].(*ssa.Slice)
	if !ok || sl.High == nil || sl.Low != nil {
		return false
	}
	hi, ok := sl.High.(*ssa.BinOp)
	if !ok || hi.Op != token.SUB {
		return false
	}
	if k, ok := constInt(hi.X); !ok || k != 32 {
		return false
	}
	isRaw := func(x ssa.Value) bool { return x == raw }
	if !isLenOf(hi.Y, isRaw) || !zeroSource(sl.X) {
		return false
	}
	// the padded alternative is taken exactly when len(raw) < 32
	start := app.Block().Idom()
	if at != nil {
		start = at.Idom()
	}
	for d := start; d != nil; d = d.Idom() {
		ifi, ok := lastIf(d)
		if !ok {
			continue
		}
		bo, ok := ifi.Cond.(*ssa.BinOp)
		if ok && bo.Op == token.LSS && isLenOf(bo.X, isRaw) {
			if k, ok := constInt(bo.Y); ok && k == 32 {
				// the append must be on the true side
				return d.Succs[0].Dominates(app.Block()) || d.Succs[0] == app.Block()
			}
		}
		return false
	}
	return false
}

func zeroSource(v ssa.Value) bool {
	switch x := v.(type) {
	case *ssa.MakeSlice:
		return true
	case *ssa.Call:
		sc := x.Call.StaticCallee()
		if sc == nil || !inRepo(sc) || len(sc.Blocks) != 1 {
			return false
		}
		// returns a slice of a fresh array whose stores are all zero constants
		ok := true
		stores := 0
		instrsOf(sc, func(_ *ssa.BasicBlock, in ssa.Instruction) {
			if st, isSt := in.(*ssa.Store); isSt {
				stores++
				if k, isC := constInt(st.Val); !isC || k != 0 {
					ok = false
				}
			}
		})
		return ok
	}
	return false
}

func c01ZA(c *Ctx) {
	f := c.Fn("sm2", "ZA")
	if f == nil {
		c.Missing("K-C01-za", "sm2.ZA", "function", "not found")
		return
	}
	fn := fname(f)
	names := paramNames(f, "pub", "uid")
	be := newBigEnv(f, names)
	spec, _ := defaultResultSpec(f)
	// uid length guard: reject len(uid) >= 8192, accept < 8192
	atoms := lenGuardAtoms(f, func(v ssa.Value) bool { return v == ssa.Value(f.Params[1]) },
		func(n int64) bool { return n < 8192 }, []int64{0, 1, 8190, 8191, 8192, 8193, 65536}, "len(uid) < 8192")
	obj, writes, sum := hashWrites(f)
	var sinks []ssa.Instruction
	for _, w := range writes {
		sinks = append(sinks, w)
	}
	g := evalGuard(c.P, f, atoms, spec, nil)
	c.Check(g.OK, "K-C01-za", fn, "uid of 8192 bytes or more rejected", g.Why, "ENTL is 16 bits: identities of 8192 bytes or more must be rejected (and 8191 accepted): "+g.Why, g.Pos)
	if obj == nil || sum == nil {
		c.Undecided("K-C01-za", fn, "hash input order", "ZA does not hash with sm3.New()/Write/Sum in a recognised form", f.Pos())
		return
	}
	// describe each write
	var seq []string
	for _, w := range writes {
		arg := w.Call.Args[0]
		d := ""
		if p, ok := padded32(be, arg); ok {
			d = "pad32(" + p + ")"
		} else if b, ok := oneByte(arg); ok {
			d = "byte(" + be.plain(b, w).String() + ")"
		} else if v, n, ok := putUintBuffer(arg); ok && n == 2 {
			// var b [2]byte; binary.BigEndian.PutUint16(b[:], v); Write(b[:]): the two bytes of v, high byte first
			vs := be.plain(v, w).String()
			seq = append(seq, "byte(trunc8(shr("+vs+",0x8)))", "byte(trunc8("+vs+"))")
			continue
		} else if bs, ok := literalBytes(arg); ok {
			// []byte{a, b, ...}: the same bytes as one Write per element
			for _, b := range bs {
				seq = append(seq, "byte("+be.plain(b, w).String()+")")
			}
			continue
		} else {
			d = be.plain(arg, w).String()
		}
		seq = append(seq, d)
	}
	got := strings.Join(seq, " ; ")
	entl := "trunc16(mul(0x8,len(uid)))"
	want := []string{
		"byte(trunc8(and(0xff,shr(" + entl + ",0x8))))",
		"byte(trunc8(and(0xff," + entl + ")))",
		"uid",
		"bytes(call:sm2.sm2P256ToBig(field:a(global:sm2P256)))",
		"bytes(global:sm2P256.CurveParams.B)",
		"bytes(global:sm2P256.CurveParams.Gx)",
		"bytes(global:sm2P256.CurveParams.Gy)",
		"pad32(pub.X)",
		"pad32(pub.Y)",
	}
	alt := map[int][]string{
		0: {"byte(trunc8(shr(" + entl + ",0x8)))"},
		1: {"byte(trunc8(" + entl + "))"},
	}
	ok := len(seq) == len(want)
	bad := ""
	for i := 0; ok && i < len(want); i++ {
		if seq[i] == want[i] || (i < 2 && normEntl(seq[i]) == normEntl(want[i])) {
			continue
		}
		m := false
		for _, a := range alt[i] {
			if seq[i] == a {
				m = true
			}
		}
		if !m {
			ok = false
			bad = fmt.Sprintf("item %d is %s, expected %s", i, seq[i], want[i])
		}
	}
	if len(seq) != len(want) {
		bad = fmt.Sprintf("%d items hashed, expected %d", len(seq), len(want))
	}
	c.Check(ok, "K-C01-za", fn, "ZA = H(ENTL||ID||a||b||Gx||Gy||xA||yA)", "order, ENTL in bits (big-endian 16 bit), coordinates padded to 32 bytes",
		"ZA input differs from GM/T 0003.2: "+bad+" — sequence: "+got, f.Pos())
	// result: Sum(nil)[:32]
	for _, b := range f.Blocks {
		ret, isRet := b.Instrs[len(b.Instrs)-1].(*ssa.Return)
		if !isRet {
			continue
		}
		if !isNilConst(ret.Results[1]) {
			continue
		}
		r := be.plain(ret.Results[0], ret).String()
		c.Check(r == "slice(call:Sum(const:nil:[]byte),_,0x20)" || r == "call:Sum(const:nil:[]byte)", "K-C01-za", fn, "returns the 32-byte digest", "", "ZA returns "+r, ret.Pos())
	}
	// msgHash: e = H(za||msg)
	mh := c.Fn("sm2", "msgHash")
	if mh == nil {
		c.Missing("K-C01-za", "sm2.msgHash", "function", "not found")
		return
	}
	mn := paramNames(mh, "za", "msg")
	mbe := newBigEnv(mh, mn)
	_, mw, msum := hashWrites(mh)
	var ms []string
	for _, w := range mw {
		ms = append(ms, mbe.plain(w.Call.Args[0], w).String())
	}
	c.Check(strings.Join(ms, ";") == "za;msg" && msum != nil, "K-C01-za", fname(mh), "e = SM3(ZA || M)", "", "msgHash hashes ["+strings.Join(ms, ";")+"], expected [za;msg]", mh.Pos())
	for _, b := range mh.Blocks {
		ret, isRet := b.Instrs[len(b.Instrs)-1].(*ssa.Return)
		if !isRet {
			continue
		}
		r := mbe.valueAt(ret.Results[0], ret).String()
		c.Check(r == "frombytes(slice(call:Sum(const:nil:[]byte),_,0x20))" || r == "frombytes(call:Sum(const:nil:[]byte))", "K-C01-za", fname(mh), "e as big-endian integer of the digest", "", "msgHash returns "+r, ret.Pos())
	}
}

// oneByte: v is []byte{x} — returns x
func oneByte(v ssa.Value) (ssa.Value, bool) {
	sl, ok := v.(*ssa.Slice)
	if !ok {
		return nil, false
	}
	al, ok := sl.X.(*ssa.Alloc)
	if !ok {
		return nil, false
	}
	pt, _ := al.Type().Underlying().(*types.Pointer)
	if pt == nil {
		return nil, false
	}
	at, ok := pt.Elem().Underlying().(*types.Array)
	if !ok || at.Len() != 1 {
		return nil, false
	}
	return appendedValue(v)
}

// literalBytes: the element values of a composite literal []byte{e0, e1, ...} (a whole fresh array, each element
// stored exactly once)
func literalBytes(v ssa.Value) ([]ssa.Value, bool) {
	sl, ok := v.(*ssa.Slice)
	if !ok || sl.Low != nil || sl.High != nil {
		return nil, false
	}
	al, ok := sl.X.(*ssa.Alloc)
	if !ok {
		return nil, false
	}
	pt, _ := al.Type().Underlying().(*types.Pointer)
	if pt == nil {
		return nil, false
	}
	at, ok := pt.Elem().Underlying().(*types.Array)
	if !ok || at.Len() < 2 || at.Len() > 16 {
		return nil, false
	}
	out := make([]ssa.Value, at.Len())
	for _, r := range *al.Referrers() {
		switch x := r.(type) {
		case *ssa.IndexAddr:
			k, isK := constInt(x.Index)
			if !isK || k < 0 || k >= at.Len() {
				return nil, false
			}
			for _, r2 := range *x.Referrers() {
				st, isSt := r2.(*ssa.Store)
				if !isSt || st.Addr != ssa.Value(x) || out[k] != nil {
					return nil, false
				}
				out[k] = st.Val
			}
		case *ssa.Slice:
		default:
			return nil, false
		}
	}
	for _, e := range out {
		if e == nil {
			return nil, false
		}
	}
	return out, true
}

func c01DER(c *Ctx) {
	f := c.Fn("sm2", "(*PublicKey).Verify")
	if f == nil {
		c.Missing("G-C01-der", "sm2.(*PublicKey).Verify", "method", "not found")
		return
	}
	fn := fname(f)
	spec, _ := defaultResultSpec(f)
	// identify the cryptobyte strings: input (converted from sig param) and inner
	sig := f.Params[2]
	var inputAlloc, innerAlloc ssa.Value
	instrsOf(f, func(_ *ssa.BasicBlock, in ssa.Instruction) {
		if st, ok := in.(*ssa.Store); ok {
			if ct, ok := st.Val.(*ssa.ChangeType); ok && ct.X == ssa.Value(sig) {
				inputAlloc = st.Addr
			}
		}
	})
	if inputAlloc == nil {
		// encoding/asn1.Unmarshal into a struct is not a strict decoder: it fills the struct's fields from the front of
		// the SEQUENCE and silently ignores any further elements inside it (library behaviour), so SEQUENCE{r, s, x}
		// would verify — "exactly two INTEGERs" cannot hold whatever the caller checks on the returned rest
		for _, ci := range allCalls(f) {
			if call, ok := ci.(*ssa.Call); ok && calleeID(&call.Call) == "encoding/asn1.Unmarshal" && len(call.Call.Args) == 2 && call.Call.Args[0] == ssa.Value(sig) {
				c.ViolatedHard("G-C01-der", fn, "DER parsing", "the signature is decoded with encoding/asn1.Unmarshal into a struct, which ignores extra elements inside the SEQUENCE: a signature that is not exactly SEQUENCE{r INTEGER, s INTEGER} is accepted", call.Pos())
				return
			}
		}
		c.Undecided("G-C01-der", fn, "DER parsing", "the signature is not parsed through a cryptobyte.String (idiom not recognised)", f.Pos())
		return
	}
	mk := func(method string, recv func(ssa.Value) bool, extra func(*ssa.Call) bool) []Atom {
		return boolCallAtoms(f, func(call *ssa.Call) bool {
			sc := call.Call.StaticCallee()
			if sc == nil || sc.Name() != method || !strings.Contains(calleeID(&call.Call), "cryptobyte.String") {
				return false
			}
			if !recv(call.Call.Args[0]) {
				return false
			}
			return extra == nil || extra(call)
		}, true, method)
	}
	sameOrLoad := func(v, alloc ssa.Value) bool {
		if v == alloc {
			return true
		}
		if u, ok := v.(*ssa.UnOp); ok && u.Op == token.MUL && u.X == alloc {
			return true
		}
		return false
	}
	isInput := func(v ssa.Value) bool { return sameOrLoad(v, inputAlloc) }
	// inner = first arg of input.ReadASN1
	seqAtoms := mk("ReadASN1", isInput, func(call *ssa.Call) bool {
		tag, ok := constInt(call.Call.Args[2])
		if ok && tag == 0x30 {
			innerAlloc = call.Call.Args[1]
			return true
		}
		return false
	})
	isInner := func(v ssa.Value) bool { return innerAlloc != nil && sameOrLoad(v, innerAlloc) }
	sinks := callsNamed(f, "Sm2Verify")
	type req struct {
		name  string
		atoms []Atom
	}
	ints := mk("ReadASN1Integer", isInner, nil)
	reqs := []req{
		{"outer SEQUENCE read", seqAtoms},
		{"no bytes after the SEQUENCE", mk("Empty", isInput, nil)},
		{"no bytes after the two INTEGERs", mk("Empty", isInner, nil)},
	}
	for _, rq := range reqs {
		g := evalGuard(c.P, f, rq.atoms, spec, sinks)
		c.Check(g.OK, "G-C01-der", fn, rq.name, g.Why, "a signature that fails '"+rq.name+"' must be rejected: "+g.Why, g.Pos)
	}
	// two integer reads, each individually non-bypassable, into distinct destinations
	dst := map[ssa.Value]bool{}
	for _, a := range ints {
		call := condCall(a.If.Cond)
		if call != nil {
			dst[unwrapIface(call.Call.Args[1])] = true
		}
		g := evalGuard(c.P, f, []Atom{a}, spec, sinks)
		pos := a.If.Cond.Pos()
		c.Check(g.OK, "G-C01-der", fn, fmt.Sprintf("INTEGER read #%d", len(dst)), g.Why, "failing to read an INTEGER must reject: "+g.Why, pos)
	}
	c.Check(len(ints) == 2 && len(dst) == 2, "G-C01-der", fn, "exactly two INTEGERs (r, s)", "", fmt.Sprintf("%d INTEGER reads into %d destinations; a signature is SEQUENCE{r INTEGER, s INTEGER}", len(ints), len(dst)), f.Pos())
	// the call to Sm2Verify passes pub, msg, default uid, r, s
	for _, s := range sinks {
		call := s.(*ssa.Call)
		a := call.Call.Args
		okArgs := len(a) == 5 && a[0] == ssa.Value(f.Params[0]) && a[1] == ssa.Value(f.Params[1]) && globalOf(a[2]) != nil && globalOf(a[2]).Name() == "default_uid" && dst[a[3]] && dst[a[4]] && a[3] != a[4]
		c.Check(okArgs, "G-C01-der", fn, "defers to Sm2Verify(pub, msg, default ID, r, s)", "", "the decoded r,s are not passed (in order, with the default user ID) to Sm2Verify", s.Pos())
		// r is the first INTEGER read: the read into a[3] dominates the read into a[4]
		var first, second *ssa.Call
		for _, at := range ints {
			call := condCall(at.If.Cond)
			if call == nil {
				continue
			}
			if unwrapIface(call.Call.Args[1]) == a[3] {
				first = call
			}
			if unwrapIface(call.Call.Args[1]) == a[4] {
				second = call
			}
		}
		if first != nil && second != nil {
			c.Check(instrDominates(first, second), "G-C01-der", fn, "r is the first INTEGER, s the second", "", "r and s are read in the wrong order", first.Pos())
		}
	}
	for _, b := range f.Blocks {
		if ret, ok := b.Instrs[len(b.Instrs)-1].(*ssa.Return); ok {
			if cb, isC := constBool(ret.Results[0]); isC && !cb {
				continue
			}
			call, _ := ret.Results[0].(*ssa.Call)
			good := call != nil && call.Call.StaticCallee() != nil && call.Call.StaticCallee().Name() == "Sm2Verify"
			c.Check(good, "G-C01-der", fn, "accepting return is Sm2Verify's result", "", "Verify can return true without consulting Sm2Verify", ret.Pos())
		}
	}
	// Sign: builder adds SEQUENCE with two AddASN1BigInt
	sg := c.Fn("sm2", "(*PrivateKey).Sign")
	if sg == nil {
		c.Missing("G-C01-der", "sm2.(*PrivateKey).Sign", "method", "not found")
		return
	}
	nInts := 0
	seqTag := false
	var walk func(fn *ssa.Function)
	walk = func(g *ssa.Function) {
		for _, ci := range allCalls(g) {
			sc := ci.Common().StaticCallee()
			if sc == nil {
				continue
			}
			switch sc.Name() {
			case "AddASN1BigInt":
				nInts++
			case "AddASN1":
				if t, ok := constInt(ci.Common().Args[1]); ok && t == 0x30 {
					seqTag = true
				}
			}
		}
		for _, a := range g.AnonFuncs {
			walk(a)
		}
	}
	walk(sg)
	c.Check(seqTag && nInts == 2, "G-C01-der", fname(sg), "encodes SEQUENCE{INTEGER r, INTEGER s}", "", fmt.Sprintf("Sign emits SEQUENCE=%v with %d INTEGERs", seqTag, nInts), sg.Pos())
	// Sign uses Sm2Sign(priv, msg, nil uid, random) and propagates its error
	var s2 *ssa.Call
	for _, ci := range allCalls(sg) {
		if sc := ci.Common().StaticCallee(); sc != nil && sc.Name() == "Sm2Sign" {
			s2, _ = ci.(*ssa.Call)
		}
	}
	if s2 == nil {
		c.Violated("G-C01-der", fname(sg), "Sign uses Sm2Sign", "Sign does not call Sm2Sign", sg.Pos())
	} else {
		sspec, _ := defaultResultSpec(sg)
		g := evalGuard(c.P, sg, errCheckAtoms(sg, func(call *ssa.Call) bool { return call == s2 }, "sign error"), sspec, nil)
		c.Check(g.OK, "G-C01-der", fname(sg), "Sm2Sign error is returned", g.Why, g.Why, g.Pos)
		a := s2.Call.Args
		c.Check(a[0] == ssa.Value(sg.Params[0]) && a[1] == ssa.Value(sg.Params[2]) && a[3] == ssa.Value(sg.Params[1]), "G-C01-der", fname(sg), "Sm2Sign(priv, msg, ·, random)", "", "Sign does not pass its key, message and random reader to Sm2Sign", s2.Pos())
	}
}

func condCall(cond ssa.Value) *ssa.Call {
	for {
		if u, ok := cond.(*ssa.UnOp); ok && u.Op == token.NOT {
			cond = u.X
			continue
		}
		break
	}
	switch x := cond.(type) {
	case *ssa.Call:
		return x
	case *ssa.Extract:
		c, _ := x.Tuple.(*ssa.Call)
		return c
	}
	return nil
}

// c01Consumers: every repo call site of a verify function uses the result as a rejecting guard.
func c01Consumers(c *Ctx) {
	targets := map[string]bool{"Sm2Verify": true, "Verify": true}
	n := 0
	for _, pkg := range []string{"x509", "gmtls", "pkcs12", "sm2", "gmtls/gmcredentials", "gmtls/websvr"} {
		for _, f := range c.P.RepoFuncs(pkg) {
			for _, ci := range allCalls(f) {
				call, ok := ci.(*ssa.Call)
				if !ok {
					continue
				}
				sc := call.Call.StaticCallee()
				if sc == nil || !targets[sc.Name()] || sc.Pkg == nil || rel(sc.Pkg.Pkg.Path()) != "sm2" {
					continue
				}
				if res := sc.Signature.Results(); res.Len() != 1 {
					continue
				}
				n++
				c.Evals++
				// accepted uses: (a) returned directly as the function's bool result; (b) tested by an If that rejects
				site := fmt.Sprintf("call of sm2.%s #%d", strings.TrimPrefix(fname(sc), "sm2."), siteOrdinal(f, call))
				used := false
				okUse := true
				why := ""
				for _, u := range *call.Referrers() {
					switch x := u.(type) {
					case *ssa.Return:
						used = true
					case *ssa.If:
						used = true
						spec, has := defaultResultSpec(f)
						if !has {
							okUse, why = false, "caller has no error/bool result to reject with"
							continue
						}
						atoms := boolCallAtoms(f, func(cc *ssa.Call) bool { return cc == call }, true, "verify result")
						g := evalReject(c.P, f, atoms, spec)
						if !g.OK {
							okUse, why = false, g.Why
						}
						_ = x
					case *ssa.UnOp, *ssa.BinOp, *ssa.Phi:
						used = true // negation / combination feeding a branch: judged through boolCallAtoms
						spec, has := defaultResultSpec(f)
						if has {
							atoms := boolCallAtoms(f, func(cc *ssa.Call) bool { return cc == call }, true, "verify result")
							if len(atoms) > 0 {
								g := evalReject(c.P, f, atoms, spec)
								if !g.OK {
									okUse, why = false, g.Why
								}
							}
						}
					case *ssa.DebugRef:
					default:
						used = true
					}
				}
				if !used {
					okUse, why = false, "the verification result is discarded"
				}
				c.Check(okUse, "G-C01-consumers", fname(f), site, "result decides acceptance", "a false verification result does not lead to rejection: "+why, call.Pos())
			}
		}
	}
	c.MinSites("G-C01-consumers", 4)
	_ = n
}

// siteOrdinal: ordinal of call among calls to the same callee in f (stable under line moves)
func siteOrdinal(f *ssa.Function, call *ssa.Call) int {
	n := 0
	for _, ci := range allCalls(f) {
		if ci.Common().StaticCallee() == call.Call.StaticCallee() {
			n++
			if ci == ssa.CallInstruction(call) {
				return n
			}
		}
	}
	return 0
}

func unwrapIface(v ssa.Value) ssa.Value {
	if mi, ok := v.(*ssa.MakeInterface); ok {
		return mi.X
	}
	return v
}

// curveOps: invoke calls on crypto/elliptic.Curve (and static calls on types implementing it)
func curveOps(f *ssa.Function) []ssa.Instruction {
	var out []ssa.Instruction
	for _, ci := range allCalls(f) {
		cc := ci.Common()
		n := ""
		if cc.IsInvoke() {
			if !strings.HasSuffix(types.TypeString(cc.Value.Type(), nil), "elliptic.Curve") {
				continue
			}
			n = cc.Method.Name()
		} else if sc := cc.StaticCallee(); sc != nil && sc.Signature.Recv() != nil && strings.Contains(sc.Signature.Recv().Type().String(), "sm2P256Curve") {
			n = sc.Name()
		}
		switch n {
		case "ScalarMult", "ScalarBaseMult", "Add", "Double":
			out = append(out, ci)
		}
	}
	return out
}

// putUintBuffer: arg is the whole of a local [n]byte array (b[:]) whose only write is one
// binary.BigEndian.PutUintN(b[:], v) with n = N/8, executed before arg is used; returns v and n.
func putUintBuffer(arg ssa.Value) (ssa.Value, int, bool) {
	sl, ok := arg.(*ssa.Slice)
	if !ok || sl.Low != nil || sl.High != nil {
		return nil, 0, false
	}
	al, ok := sl.X.(*ssa.Alloc)
	if !ok {
		return nil, 0, false
	}
	pt, ok := al.Type().Underlying().(*types.Pointer)
	if !ok {
		return nil, 0, false
	}
	arr, ok := pt.Elem().Underlying().(*types.Array)
	if !ok {
		return nil, 0, false
	}
	n := int(arr.Len())
	want := map[int]string{2: "(encoding/binary.bigEndian).PutUint16", 4: "(encoding/binary.bigEndian).PutUint32", 8: "(encoding/binary.bigEndian).PutUint64"}[n]
	if want == "" {
		return nil, 0, false
	}
	var put *ssa.Call
	for _, r := range *al.Referrers() {
		s2, isSl := r.(*ssa.Slice)
		if !isSl || s2.Low != nil || s2.High != nil {
			if _, isDbg := r.(*ssa.DebugRef); isDbg {
				continue
			}
			return nil, 0, false // element stores, partial slices, escapes
		}
		for _, u := range *s2.Referrers() {
			call, isCall := u.(*ssa.Call)
			if !isCall {
				if _, isDbg := u.(*ssa.DebugRef); isDbg {
					continue
				}
				return nil, 0, false
			}
			id := calleeID(&call.Call)
			if id == want && len(call.Call.Args) == 3 && call.Call.Args[1] == ssa.Value(s2) {
				if put != nil {
					return nil, 0, false
				}
				put = call
				continue
			}
			// readers: hash.Write / Writer.Write of the buffer
			if call.Call.IsInvoke() && call.Call.Method.Name() == "Write" || strings.HasSuffix(id, ".Write") {
				continue
			}
			return nil, 0, false
		}
	}
	user, isInstr := arg.(ssa.Instruction)
	if put == nil || !isInstr || !instrDominates(put, user) {
		return nil, 0, false
	}
	return put.Call.Args[2], n, true
}

// normEntl: spelling variants of one byte of the 16-bit bit count that denote the same value for every input: a shift
// by 3 for a multiplication by 8; masks and 16-bit truncations that the final truncation to 8 bits makes redundant
// (byte(v>>8) is bits 8..15 of v whether or not v was first cut to 16 bits, byte(v&0xff) is byte(v)).
func normEntl(s string) string {
	for i := 0; i < 4; i++ {
		s = reShl3.ReplaceAllString(s, "mul(0x8,$1)")
		s = strings.ReplaceAll(s, "trunc8(and(0xff,", "trunc8((")
		s = strings.ReplaceAll(s, "shr(trunc16(", "shr((")
		s = strings.ReplaceAll(s, "trunc8(trunc16(", "trunc8((")
		s = strings.ReplaceAll(s, "trunc8((trunc16(", "trunc8(((")
	}
	return strings.NewReplacer("(", "", ")", "").Replace(s)
}

var reShl3 = regexp.MustCompile(`shl\(([^()]*(?:\([^()]*\))?[^()]*),0x3\)`)
