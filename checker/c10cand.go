package main

// G-C10-candidates — the completeness half of chain building at the one place where candidates are chosen:
// CertPool.findVerifiedParents must try the certificates indexed under the child's issuer NAME whenever the
// subject-key-id index gives nothing (no AuthorityKeyId in the child, or no pool entry with that key id). Decided by
// enumerating the acyclic paths from the entry to the candidate loop and resolving, along each path, which value the
// loop ranges over: integer tests `len(v) op k` are evaluated with v resolved through the phis of the path (a nil
// slice has length 0) and under the assumption "the key-id lookup is empty"; on every feasible path the ranged value
// must then be the by-name lookup.

import (
	"go/token"
	"strings"

	"golang.org/x/tools/go/ssa"
)

func c10Candidates(c *Ctx) {
	rule := "G-C10-candidates"
	f := c.Fn("x509", "(*CertPool).findVerifiedParents")
	if f == nil {
		c.Missing(rule, "x509.(*CertPool).findVerifiedParents", "method", "not found")
		return
	}
	var byKey, byName ssa.Value
	instrsOf(f, func(_ *ssa.BasicBlock, in ssa.Instruction) {
		lk, ok := in.(*ssa.Lookup)
		if !ok {
			return
		}
		ld, ok := lk.X.(*ssa.UnOp)
		if !ok {
			return
		}
		fa, ok := ld.X.(*ssa.FieldAddr)
		if !ok {
			return
		}
		switch fieldName(fa.X.Type(), fa.Field) {
		case "bySubjectKeyId":
			byKey = lk
		case "byName":
			byName = lk
		}
	})
	// the signature-check call and the value its candidate index comes from
	var sigCall *ssa.Call
	for _, ci := range allCalls(f) {
		if call, ok := ci.(*ssa.Call); ok && calleeNamed(call, "CheckSignatureFrom") {
			sigCall = call
		}
	}
	if byName == nil || sigCall == nil {
		c.Undecided(rule, fname(f), "candidate selection", "no by-name index lookup / no CheckSignatureFrom call found", f.Pos())
		return
	}
	// ranged value: X of an Index/IndexAddr (int slice) inside the loop of the call
	var ranged ssa.Value
	var header *ssa.BasicBlock
	for _, h := range loopHeaders(f) {
		if loopBlocks(h)[sigCall.Block()] {
			header = h
		}
	}
	if header == nil {
		c.Undecided(rule, fname(f), "candidate selection", "CheckSignatureFrom is not called in a loop over candidates", sigCall.Pos())
		return
	}
	for b := range loopBlocks(header) {
		for _, in := range b.Instrs {
			switch x := in.(type) {
			case *ssa.IndexAddr:
				if isIntSlice(x.X.Type()) {
					ranged = x.X
				}
			case *ssa.Index:
				if isIntSlice(x.X.Type()) {
					ranged = x.X
				}
			}
		}
	}
	if ranged == nil {
		c.Undecided(rule, fname(f), "candidate selection", "the loop does not index a candidate list", header.Instrs[0].Pos())
		return
	}
	// path enumeration
	type pathEnv map[*ssa.Phi]ssa.Value
	resolve := func(env pathEnv, v ssa.Value) ssa.Value {
		for i := 0; i < 10; i++ {
			ph, ok := v.(*ssa.Phi)
			if !ok {
				return v
			}
			nv, ok := env[ph]
			if !ok {
				return v
			}
			v = nv
		}
		return v
	}
	// value of len(v): 0 for nil / the key-id lookup (assumption), unknown otherwise
	lenOf := func(env pathEnv, v ssa.Value) (int64, bool) {
		call, ok := v.(*ssa.Call)
		if !ok {
			return 0, false
		}
		bi, ok := call.Call.Value.(*ssa.Builtin)
		if !ok || bi.Name() != "len" {
			return 0, false
		}
		x := resolve(env, call.Call.Args[0])
		if isNilConst(x) || (byKey != nil && x == byKey) {
			return 0, true
		}
		return 0, false
	}
	evalCond := func(env pathEnv, cond ssa.Value) (bool, bool) {
		bo, ok := cond.(*ssa.BinOp)
		if !ok {
			return false, false
		}
		var l, r int64
		var okL, okR bool
		if k, isK := constInt(bo.X); isK {
			l, okL = k, true
		} else {
			l, okL = lenOf(env, bo.X)
		}
		if k, isK := constInt(bo.Y); isK {
			r, okR = k, true
		} else {
			r, okR = lenOf(env, bo.Y)
		}
		if !okL || !okR {
			return false, false
		}
		switch bo.Op {
		case token.EQL:
			return l == r, true
		case token.NEQ:
			return l != r, true
		case token.LSS:
			return l < r, true
		case token.LEQ:
			return l <= r, true
		case token.GTR:
			return l > r, true
		case token.GEQ:
			return l >= r, true
		}
		return false, false
	}
	paths, bad := 0, 0
	var badPos token.Pos
	var walk func(b, pred *ssa.BasicBlock, env pathEnv, onPath map[*ssa.BasicBlock]bool)
	walk = func(b, pred *ssa.BasicBlock, env pathEnv, onPath map[*ssa.BasicBlock]bool) {
		if paths > 5000 {
			return
		}
		// phis of b take the values of the edge pred -> b
		ne := pathEnv{}
		for k, v := range env {
			ne[k] = v
		}
		if pred != nil {
			for i, p := range b.Preds {
				if p != pred {
					continue
				}
				for _, in := range b.Instrs {
					ph, ok := in.(*ssa.Phi)
					if !ok {
						break
					}
					ne[ph] = resolve(env, ph.Edges[i])
				}
			}
		}
		if b == header {
			paths++
			if resolve(ne, ranged) != byName {
				bad++
				badPos = b.Instrs[0].Pos()
			}
			return
		}
		if onPath[b] {
			return
		}
		onPath[b] = true
		defer delete(onPath, b)
		if ifi, ok := b.Instrs[len(b.Instrs)-1].(*ssa.If); ok {
			if v, known := evalCond(ne, ifi.Cond); known {
				if v {
					walk(b.Succs[0], b, ne, onPath)
				} else {
					walk(b.Succs[1], b, ne, onPath)
				}
				return
			}
		}
		for _, s := range b.Succs {
			walk(s, b, ne, onPath)
		}
	}
	walk(f.Blocks[0], nil, pathEnv{}, map[*ssa.BasicBlock]bool{})
	if paths == 0 || paths > 5000 {
		c.Undecided(rule, fname(f), "candidate selection", "the candidate loop could not be reached by path enumeration", header.Instrs[0].Pos())
		return
	}
	c.Check(bad == 0, rule, fname(f), "issuer-name candidates are tried whenever the key-id index gives none", "on every path to the candidate loop on which the subject-key-id lookup is absent or empty, the loop ranges over byName[RawIssuer]",
		"there is a path to the candidate loop on which the subject-key-id lookup found nothing (or was not made) and the certificates indexed under the issuer name are not tried: a chain through an issuer without a matching SubjectKeyId is never found, so valid chains are rejected", badPos)
}

func isIntSlice(t interface{ String() string }) bool { return t.String() == "[]int" }

// c10SearchBoth: buildChains returns only after BOTH pools have been searched for parents — every return is preceded
// by the roots lookup and by the intermediates lookup. The extended-key-usage filter in Verify works on the set of all
// chains, so stopping at the first chain that ends in a root loses chains through intermediates that would pass it.
func c10SearchBoth(c *Ctx) {
	rule := "G-C10-candidates"
	f := c.Fn("x509", "(*Certificate).buildChains")
	if f == nil {
		c.Missing(rule, "x509.(*Certificate).buildChains", "method", "not found")
		return
	}
	be := newBigEnv(f, allParamNames(f))
	for _, pool := range []string{"Roots", "Intermediates"} {
		var look *ssa.Call
		for _, ci := range allCalls(f) {
			call, ok := ci.(*ssa.Call)
			if !ok || !calleeNamed(call, "findVerifiedParents") || len(call.Call.Args) == 0 {
				continue
			}
			if strings.Contains(be.plain(call.Call.Args[0], call).String(), "field:"+pool+"(opts)") || strings.HasSuffix(be.plain(call.Call.Args[0], call).String(), "opts."+pool) {
				look = call
			}
		}
		if look == nil {
			c.Undecided(rule, fname(f), "the "+pool+" pool is searched before every return", "no findVerifiedParents call on opts."+pool+" found in buildChains (the search is organised differently)", f.Pos())
			continue
		}
		cut := map[edge]bool{}
		for _, p := range look.Block().Preds {
			cut[edge{p, look.Block()}] = true
		}
		bad := token.NoPos
		if look.Block() != f.Blocks[0] {
			for b := range reach([]*ssa.BasicBlock{f.Blocks[0]}, cut) {
				if ret, isRet := b.Instrs[len(b.Instrs)-1].(*ssa.Return); isRet {
					bad = ret.Pos()
				}
			}
		}
		c.Check(bad == token.NoPos, rule, fname(f), "the "+pool+" pool is searched before every return", "", "buildChains can return without having looked for parents in opts."+pool+": chains through that pool are never found, so a certificate with a valid chain there (for instance one that satisfies the requested key usage) is rejected", bad)
	}
}

// c10CriticalFlag: parseCertificate records an extension as an unhandled critical one when `e.Critical && unhandled`.
// The flag must describe THIS extension: it may not be carried over from earlier iterations of the extension loop (a
// flag declared outside the loop and never reset turns every later critical extension into an "unhandled" one, and
// Verify then rejects a certificate it should accept).
func c10CriticalFlag(c *Ctx) {
	rule := "G-C10-verify"
	f := c.Fn("x509", "parseCertificate")
	if f == nil {
		c.Missing(rule, "x509.parseCertificate", "function", "not found")
		return
	}
	isCriticalLoad := func(v ssa.Value) bool {
		switch x := v.(type) {
		case *ssa.UnOp:
			if fa, ok := x.X.(*ssa.FieldAddr); ok && x.Op == token.MUL {
				return fieldName(fa.X.Type(), fa.Field) == "Critical"
			}
		case *ssa.Field:
			return fieldName(x.X.Type(), x.Field) == "Critical"
		}
		return false
	}
	headers := loopHeaders(f)
	n := 0
	for _, ifi := range ifsOf(f) {
		if !isCriticalLoad(ifi.Cond) {
			continue
		}
		t := ifi.Block().Succs[0]
		ifi2, ok := lastIf(t)
		if !ok {
			continue
		}
		n++
		// the phi closure of the second test
		carried := false
		seen := map[ssa.Value]bool{}
		var walk func(v ssa.Value)
		walk = func(v ssa.Value) {
			if seen[v] {
				return
			}
			seen[v] = true
			ph, ok := v.(*ssa.Phi)
			if !ok {
				return
			}
			for _, h := range headers {
				if ph.Block() == h && loopBlocks(h)[t] {
					carried = true
				}
			}
			for _, e := range ph.Edges {
				walk(e)
			}
		}
		walk(ifi2.Cond)
		c.Check(!carried, rule, fname(f), "the unhandled flag of a critical extension is not carried over from earlier extensions", "", "the flag tested together with e.Critical is a loop-carried value of the extension loop: once an unknown extension has been seen, every later critical extension — even a handled one such as keyUsage — is recorded in UnhandledCriticalExtensions and Verify rejects the certificate", ifi2.Cond.Pos())
	}
	if n == 0 {
		c.Undecided(rule, fname(f), "critical-extension bookkeeping", "no `e.Critical && flag` test found in parseCertificate", f.Pos())
	}
}
