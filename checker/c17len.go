package main

// C17 — BER→DER transcoding (every PKCS#7 input, including this library's own output, passes through it):
// lengthLength(i) is the number of bytes of the long-form length. Whatever its shape (loop, switch), every comparison
// of the length (or of the length shifted right by whole bytes) with a constant is a byte boundary: written as a
// strict threshold "x < T", T is a power of 256 (or 128, the short-form boundary, or 0/1 for emptiness tests). A
// threshold one off (i <= 1<<8) re-encodes a 256-byte or 65536-byte element with a length field one byte short, and
// the element's content is lost. Decided on the resolved comparisons; the count returned per branch is not decided.

import (
	"fmt"
	"go/token"

	"golang.org/x/tools/go/ssa"
)

func c17LengthThresholds(c *Ctx) {
	c17LenFn(c, "lengthLength")
	c17LenFn(c, "encodeLength") // short/long form switch: the boundary is 128 (0x80 itself is the indefinite-length marker)
}

func c17LenFn(c *Ctx, name string) {
	rule := "K-C17-lenbytes"
	f := c.Fn("x509", name)
	if f == nil {
		c.Missing(rule, "x509."+name, "function", "not found")
		return
	}
	var lenParam *ssa.Parameter
	nInt := 0
	for _, p := range f.Params {
		if p.Type().String() == "int" {
			lenParam = p
			nInt++
		}
	}
	if nInt != 1 {
		c.Undecided(rule, fname(f), "length thresholds", "unexpected signature", f.Pos())
		return
	}
	// rooted: the parameter, or a phi / right shift by a multiple of 8 of a rooted value
	var rooted func(v ssa.Value, seen map[ssa.Value]bool) bool
	rooted = func(v ssa.Value, seen map[ssa.Value]bool) bool {
		v = stripConvAll(v)
		if v == ssa.Value(lenParam) {
			return true
		}
		if seen[v] {
			return true // cycle through the loop phi: decided by the other edges
		}
		seen[v] = true
		switch x := v.(type) {
		case *ssa.Phi:
			for _, e := range x.Edges {
				if !rooted(e, seen) {
					return false
				}
			}
			return true
		case *ssa.BinOp:
			if x.Op == token.SHR {
				if k, ok := constInt(x.Y); ok && k%8 == 0 {
					return rooted(x.X, seen)
				}
			}
		}
		return false
	}
	isPow256 := func(t int64) bool {
		if t == 0 || t == 1 || t == 128 {
			return true
		}
		for t >= 256 && t%256 == 0 {
			t /= 256
		}
		return t == 1
	}
	n, bad := 0, 0
	instrsOf(f, func(_ *ssa.BasicBlock, in ssa.Instruction) {
		b, ok := in.(*ssa.BinOp)
		if !ok {
			return
		}
		op := b.Op
		x, y := b.X, b.Y
		if _, isK := constInt(x); isK {
			x, y = y, x
			switch op {
			case token.LSS:
				op = token.GTR
			case token.GTR:
				op = token.LSS
			case token.LEQ:
				op = token.GEQ
			case token.GEQ:
				op = token.LEQ
			}
		}
		k, isK := constInt(y)
		if !isK || !rooted(x, map[ssa.Value]bool{}) {
			return
		}
		var t int64
		switch op {
		case token.LSS, token.GEQ:
			t = k
		case token.LEQ, token.GTR:
			t = k + 1
		default:
			return
		}
		n++
		if !isPow256(t) {
			bad++
			c.Violated(rule, fname(f), fmt.Sprintf("length threshold #%d is a byte boundary", n),
				fmt.Sprintf("the length is compared with %d using %s, i.e. the boundary is at %d, which is not a power of 256: a length of exactly %d gets the wrong number of length bytes and the element is re-encoded with a truncated length", k, b.Op, t, t-1), b.Pos())
		}
	})
	c.Evals += n
	if n == 0 {
		c.Undecided(rule, fname(f), "length thresholds", "no comparison of the length with a constant (idiom not recognised)", f.Pos())
		return
	}
	if bad == 0 {
		c.Holds(rule, fname(f), "every length threshold is a byte boundary", fmt.Sprintf("%d comparison(s) of the (shifted) length with a constant, all at powers of 256", n), f.Pos())
	}
}
