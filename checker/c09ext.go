package main

import (
	"fmt"
	"go/token"
	"go/types"
	"sort"
	"strings"

	"golang.org/x/tools/go/ssa"
)

// c09ExtAgree: writer/reader agreement for certificate extensions. For every extension that buildExtensions emits,
// the template fields it reads while building that extension are the Certificate fields parseCertificate assigns
// while reading the same extension (regions are identified by the extension's OID on both sides), and the
// subjectAltName helpers agree on which GeneralName tag carries which list. A field that is written into an
// extension but never assigned by the reader of that extension cannot "parse back to the same field value".
func c09ExtAgree(c *Ctx) {
	rule := "T-EXT-agree"
	w := c.Fn("x509", "buildExtensions")
	r := c.Fn("x509", "parseCertificate")
	if w == nil || r == nil {
		c.Missing(rule, "x509.buildExtensions/parseCertificate", "functions", "not found")
		return
	}
	// OID globals: name -> dotted string
	oids := map[string]string{}
	for _, t := range pkgTables(c.P.Pkgs["x509"]) {
		if len(t.Rows) == 1 && strings.HasPrefix(t.Name, "oid") {
			var parts []string
			for _, v := range t.Rows[0] {
				parts = append(parts, v.String())
			}
			oids[t.Name] = strings.Join(parts, ".")
		}
	}
	globalOf := func(v ssa.Value) string {
		if ld, ok := v.(*ssa.UnOp); ok && ld.Op == token.MUL {
			if g, ok := ld.X.(*ssa.Global); ok {
				return g.Name()
			}
		}
		if cv, ok := v.(*ssa.ChangeType); ok {
			if ld, ok := cv.X.(*ssa.UnOp); ok {
				if g, ok := ld.X.(*ssa.Global); ok {
					return g.Name()
				}
			}
		}
		return ""
	}
	region := func(root *ssa.BasicBlock) map[*ssa.BasicBlock]bool {
		out := map[*ssa.BasicBlock]bool{}
		for _, b := range root.Parent().Blocks {
			if root == b || root.Dominates(b) {
				out[b] = true
			}
		}
		return out
	}
	// ---- writer regions: body guarded by !oidInExtensions(oidExtensionX, template.ExtraExtensions)
	var tmpl *ssa.Parameter
	if len(w.Params) > 0 {
		tmpl = w.Params[0]
	}
	wFields := map[string]map[string]bool{} // oid -> template fields read
	wPos := map[string]token.Pos{}
	for _, ci := range allCalls(w) {
		call, ok := ci.(*ssa.Call)
		if !ok {
			continue
		}
		sc := call.Call.StaticCallee()
		if sc == nil || sc.Name() != "oidInExtensions" || len(call.Call.Args) < 1 {
			continue
		}
		oid := oids[globalOf(call.Call.Args[0])]
		if oid == "" {
			continue
		}
		ifi, ok := call.Block().Instrs[len(call.Block().Instrs)-1].(*ssa.If)
		if !ok || ifi.Cond != ssa.Value(call) {
			c.Undecided(rule, fname(w), "extension "+oid, "the guard on oidInExtensions has an unexpected shape", call.Pos())
			continue
		}
		body := call.Block().Succs[1]
		fs := map[string]bool{}
		for b := range region(body) {
			for _, in := range b.Instrs {
				if fa, ok := in.(*ssa.FieldAddr); ok && fa.X == ssa.Value(tmpl) {
					n := fieldName(fa.X.Type(), fa.Field)
					if n != "ExtraExtensions" {
						fs[n] = true
					}
				}
			}
		}
		wFields[oid] = fs
		wPos[oid] = call.Pos()
	}
	// ---- reader regions: `e.Id[3] == N` inside the 2.5.29 arc, or e.Id.Equal(oidExtensionX)
	var out ssa.Value
	instrsOf(r, func(_ *ssa.BasicBlock, in ssa.Instruction) {
		if al, ok := in.(*ssa.Alloc); ok && al.Heap && strings.HasSuffix(al.Type().String(), "x509.Certificate") && out == nil {
			out = al
		}
	})
	if out == nil {
		c.Undecided(rule, fname(r), "the certificate being filled", "not identified", r.Pos())
		return
	}
	rFields := map[string]map[string]bool{}
	collect := func(root *ssa.BasicBlock) map[string]bool {
		fs := map[string]bool{}
		for b := range region(root) {
			for _, in := range b.Instrs {
				st, ok := in.(*ssa.Store)
				if !ok {
					continue
				}
				addr := st.Addr
				if ia, ok := addr.(*ssa.IndexAddr); ok { // out.F[i] = ...
					if ld, ok := ia.X.(*ssa.UnOp); ok {
						addr = ld.X
					}
				}
				if fa, ok := addr.(*ssa.FieldAddr); ok && fa.X == out {
					fs[fieldName(fa.X.Type(), fa.Field)] = true
				}
			}
		}
		return fs
	}
	for _, ifi := range ifsOf(r) {
		switch cond := ifi.Cond.(type) {
		case *ssa.BinOp:
			if cond.Op != token.EQL {
				continue
			}
			k, isK := constInt(cond.Y)
			if !isK {
				continue
			}
			// X: load of IndexAddr(e.Id, 3)
			ld, ok := cond.X.(*ssa.UnOp)
			if !ok {
				continue
			}
			ia, ok := ld.X.(*ssa.IndexAddr)
			if !ok {
				continue
			}
			if idx, isC := constInt(ia.Index); !isC || idx != 3 {
				continue
			}
			if !strings.Contains(ia.X.Type().String(), "ObjectIdentifier") {
				continue
			}
			rFields[fmt.Sprintf("2.5.29.%d", k)] = collect(ifi.Block().Succs[0])
		case *ssa.Call:
			if sc := cond.Call.StaticCallee(); sc != nil && sc.Name() == "Equal" && len(cond.Call.Args) == 2 {
				if oid := oids[globalOf(cond.Call.Args[1])]; oid != "" && strings.HasPrefix(globalOf(cond.Call.Args[1]), "oidExtension") {
					rFields[oid] = collect(ifi.Block().Succs[0])
				}
			}
		}
	}
	if len(wFields) < 10 {
		c.Undecided(rule, fname(w), "extensions written", fmt.Sprintf("only %d extension blocks identified", len(wFields)), w.Pos())
	}
	var keys []string
	for k := range wFields {
		keys = append(keys, k)
	}
	sort.Strings(keys)
	for _, oid := range keys {
		c.Evals++
		rf, ok := rFields[oid]
		if !ok {
			c.Violated(rule, fname(r), "extension "+oid+" is read back", "buildExtensions writes this extension but parseCertificate has no branch for its OID", r.Pos())
			continue
		}
		var missing []string
		for f := range wFields[oid] {
			if !rf[f] {
				missing = append(missing, f)
			}
		}
		sort.Strings(missing)
		var wl, rl []string
		for f := range wFields[oid] {
			wl = append(wl, f)
		}
		for f := range rf {
			rl = append(rl, f)
		}
		sort.Strings(wl)
		sort.Strings(rl)
		c.Check(len(missing) == 0, rule, fname(r), "extension "+oid+": every template field written is assigned when reading", fmt.Sprintf("written from %v, read into %v", wl, rl),
			fmt.Sprintf("template field(s) %v go into the extension but parseCertificate never assigns them while reading it (it assigns %v): the created certificate parses back to different field values", missing, rl), wPos[oid])
		// the converse: a field the reader fills from this extension is one the writer consulted (otherwise the value
		// the caller put into the template cannot influence what is parsed back: MaxPathLenZero ignored by the writer
		// turns "path length 0" into "no limit")
		var unread []string
		for f := range rf {
			if !wFields[oid][f] && extReaderOnly[oid+"|"+f] == "" {
				unread = append(unread, f)
			}
		}
		sort.Strings(unread)
		c.Check(len(unread) == 0, rule, fname(w), "extension "+oid+": every field assigned when reading was consulted when writing", "",
			fmt.Sprintf("parseCertificate fills %v from this extension but buildExtensions never reads them from the template (it reads %v): whatever the caller sets there is lost, so the issued certificate parses back to different values", unread, wl), wPos[oid])
	}
	c09SANTags(c)
}

// c09SANTags: marshalSANs and parseSANExtension agree on the GeneralName tag of each list, and the call sites hand
// the lists over in the same order (dns, email, ip).
func c09SANTags(c *Ctx) {
	rule := "T-EXT-agree"
	w := c.Fn("x509", "marshalSANs")
	r := c.Fn("x509", "parseSANExtension")
	if w == nil || r == nil {
		c.Missing(rule, "x509.marshalSANs/parseSANExtension", "functions", "not found")
		return
	}
	// writer: RawValue{Tag: k, ..., Bytes: derived from param i}
	derivesFromParam := func(v ssa.Value) int {
		seen := map[ssa.Value]bool{}
		var walk func(v ssa.Value, d int) int
		walk = func(v ssa.Value, d int) int {
			if d > 12 || seen[v] {
				return -1
			}
			seen[v] = true
			switch x := v.(type) {
			case *ssa.Parameter:
				for i, p := range w.Params {
					if p == x {
						return i
					}
				}
			case *ssa.UnOp:
				return walk(x.X, d+1)
			case *ssa.IndexAddr:
				return walk(x.X, d+1)
			case *ssa.Convert:
				return walk(x.X, d+1)
			case *ssa.ChangeType:
				return walk(x.X, d+1)
			case *ssa.Slice:
				return walk(x.X, d+1)
			case *ssa.Phi:
				for _, e := range x.Edges {
					if i := walk(e, d+1); i >= 0 {
						return i
					}
				}
			case *ssa.Call:
				for _, a := range x.Call.Args {
					if i := walk(a, d+1); i >= 0 {
						return i
					}
				}
			case *ssa.Extract:
				return walk(x.Tuple, d+1)
			case *ssa.Next:
				return walk(x.Iter, d+1)
			case *ssa.Range:
				return walk(x.X, d+1)
			}
			return -1
		}
		return walk(v, 0)
	}
	wTag := map[int]int64{} // param index -> tag
	instrsOf(w, func(_ *ssa.BasicBlock, in ssa.Instruction) {
		al, ok := in.(*ssa.Alloc)
		if !ok || !strings.HasSuffix(al.Type().String(), "asn1.RawValue") {
			return
		}
		tag, prm := int64(-1), -1
		for _, ref := range *al.Referrers() {
			fa, ok := ref.(*ssa.FieldAddr)
			if !ok {
				continue
			}
			for _, r2 := range *fa.Referrers() {
				st, ok := r2.(*ssa.Store)
				if !ok || st.Addr != ssa.Value(fa) {
					continue
				}
				switch fieldName(fa.X.Type(), fa.Field) {
				case "Tag":
					if k, isK := constInt(st.Val); isK {
						tag = k
					}
				case "Bytes":
					prm = derivesFromParam(st.Val)
				}
			}
		}
		if tag >= 0 && prm >= 0 {
			wTag[prm] = tag
		}
	})
	// reader: inside the closure passed to forEachSAN (or inline): switch on .Tag, append to the i-th result
	rTag := map[int]int64{} // result index -> tag
	tagOf := map[*ssa.BasicBlock]int64{}
	for _, ifi := range ifsOf(r) {
		bo, ok := ifi.Cond.(*ssa.BinOp)
		if !ok || bo.Op != token.EQL {
			continue
		}
		k, isK := constInt(bo.Y)
		if !isK {
			continue
		}
		isTag := false
		switch x := bo.X.(type) {
		case *ssa.UnOp:
			if fa, ok := x.X.(*ssa.FieldAddr); ok && fieldName(fa.X.Type(), fa.Field) == "Tag" {
				isTag = true
			}
		case *ssa.Field:
			if fieldName(x.X.Type(), x.Field) == "Tag" {
				isTag = true
			}
		}
		if !isTag {
			continue
		}
		root := ifi.Block().Succs[0]
		if len(root.Preds) != 1 {
			continue
		}
		for _, b := range r.Blocks {
			if b == root || root.Dominates(b) {
				tagOf[b] = k
			}
		}
	}
	for _, b := range r.Blocks {
		ret, ok := b.Instrs[len(b.Instrs)-1].(*ssa.Return)
		if !ok {
			continue
		}
		for i, res := range ret.Results {
			if i > 2 {
				continue
			}
			seen := map[ssa.Value]bool{}
			var walk func(v ssa.Value)
			walk = func(v ssa.Value) {
				if seen[v] {
					return
				}
				seen[v] = true
				switch x := unspill(v).(type) {
				case *ssa.Phi:
					for _, e := range x.Edges {
						walk(e)
					}
				case *ssa.Call:
					if bi, ok := x.Call.Value.(*ssa.Builtin); ok && bi.Name() == "append" {
						if k, ok := tagOf[x.Block()]; ok {
							rTag[i] = k
						}
						walk(x.Call.Args[0])
					}
				}
			}
			walk(res)
		}
	}
	c.Evals++
	ok := len(wTag) >= 3 && len(rTag) >= 3
	for i, t := range wTag {
		if rTag[i] != t {
			ok = false
		}
	}
	c.Check(ok, rule, fname(r), "subjectAltName: tag of each list agrees between marshalSANs and parseSANExtension", fmt.Sprintf("writer %v, reader %v", wTag, rTag),
		fmt.Sprintf("marshalSANs writes list i under GeneralName tags %v but parseSANExtension fills result i from tags %v (index = dns, email, ip): names parse back into a different list or are lost", wTag, rTag), r.Pos())
	// call sites: buildExtensions passes (DNSNames, EmailAddresses, IPAddresses); parseCertificate assigns the results to the same fields
	want := []string{"DNSNames", "EmailAddresses", "IPAddresses"}
	if bw := c.Fn("x509", "buildExtensions"); bw != nil {
		for _, call := range callsNamedIn(bw, "marshalSANs") {
			c.Evals++
			var got []string
			for _, a := range call.Call.Args {
				n := ""
				if ld, ok := a.(*ssa.UnOp); ok {
					if fa, ok := ld.X.(*ssa.FieldAddr); ok {
						n = fieldName(fa.X.Type(), fa.Field)
					}
				}
				got = append(got, n)
			}
			c.Check(fmt.Sprint(got) == fmt.Sprint(want), rule, fname(bw), "marshalSANs receives (DNSNames, EmailAddresses, IPAddresses)", "", fmt.Sprintf("marshalSANs receives %v", got), call.Pos())
		}
	}
	if pr := c.Fn("x509", "parseCertificate"); pr != nil {
		for _, call := range callsNamedIn(pr, "parseSANExtension") {
			c.Evals++
			got := make([]string, 3)
			for _, ref := range *call.Referrers() {
				ex, ok := ref.(*ssa.Extract)
				if !ok || ex.Index > 2 {
					continue
				}
				for _, r2 := range *ex.Referrers() {
					if st, ok := r2.(*ssa.Store); ok {
						if fa, ok := st.Addr.(*ssa.FieldAddr); ok {
							got[ex.Index] = fieldName(fa.X.Type(), fa.Field)
						}
					}
				}
			}
			c.Check(fmt.Sprint(got) == fmt.Sprint(want), rule, fname(pr), "parseSANExtension's results go to (DNSNames, EmailAddresses, IPAddresses)", "", fmt.Sprintf("the results are assigned to %v", got), call.Pos())
		}
	}
}

// c09SignedBytes: the to-be-signed structure that is marshalled for the signer is byte-for-byte what ends up inside
// the emitted object: either its Raw field is set to the signed bytes (encoding/asn1 then emits them verbatim), or
// nothing is stored into the structure between the marshal that feeds the signer and the final marshal.
func c09SignedBytes(c *Ctx) {
	rule := "G-C09-signedbytes"
	n := 0
	for _, e := range []struct{ pkg, fn string }{{"x509", "CreateCertificate"}, {"x509", "CreateCertificateRequest"}, {"x509", "(*Certificate).CreateCRL"}, {"x509", "CreateRevocationList"}} {
		f := c.Fn(e.pkg, e.fn)
		if f == nil {
			c.Missing(rule, e.pkg+"."+e.fn, "function", "not found")
			continue
		}
		allocOfArg := func(call *ssa.Call) *ssa.Alloc {
			if len(call.Call.Args) == 0 {
				return nil
			}
			mi, ok := call.Call.Args[0].(*ssa.MakeInterface)
			if !ok {
				return nil
			}
			ld, ok := mi.X.(*ssa.UnOp)
			if !ok || ld.Op != token.MUL {
				return nil
			}
			al, _ := ld.X.(*ssa.Alloc)
			return al
		}
		var marshals []*ssa.Call
		for _, ci := range allCalls(f) {
			if call, ok := ci.(*ssa.Call); ok {
				if sc := call.Call.StaticCallee(); sc != nil && sc.String() == "encoding/asn1.Marshal" && allocOfArg(call) != nil {
					marshals = append(marshals, call)
				}
			}
		}
		// rootAlloc: the local a field address is rooted at
		rootAlloc := func(v ssa.Value) *ssa.Alloc {
			for {
				switch x := v.(type) {
				case *ssa.FieldAddr:
					v = x.X
					continue
				case *ssa.IndexAddr:
					v = x.X
					continue
				case *ssa.Alloc:
					return x
				}
				return nil
			}
		}
		found := false
		for _, m2 := range marshals {
			outer := allocOfArg(m2)
			// the inner structure embedded in outer: a store into a field of outer whose value is a load of another local
			var inner *ssa.Alloc
			instrsOf(f, func(_ *ssa.BasicBlock, in ssa.Instruction) {
				st, ok := in.(*ssa.Store)
				if !ok || rootAlloc(st.Addr) != outer {
					return
				}
				if ld, ok := st.Val.(*ssa.UnOp); ok && ld.Op == token.MUL {
					if al, ok := ld.X.(*ssa.Alloc); ok && al != outer {
						if _, isStruct := al.Type().Underlying().(*types.Pointer).Elem().Underlying().(*types.Struct); isStruct {
							inner = al
						}
					}
				}
			})
			if inner == nil {
				continue
			}
			var m1 *ssa.Call
			for _, m := range marshals {
				if allocOfArg(m) == inner && instrReaches(m, m2, nil) && m != m2 {
					m1 = m
				}
			}
			if m1 == nil {
				continue
			}
			found = true
			n++
			c.Evals++
			// (a) Raw = signed bytes
			rawSet := false
			var late ssa.Instruction
			instrsOf(f, func(_ *ssa.BasicBlock, in ssa.Instruction) {
				st, ok := in.(*ssa.Store)
				if !ok || rootAlloc(st.Addr) != inner {
					return
				}
				if fa, ok := st.Addr.(*ssa.FieldAddr); ok && fa.X == ssa.Value(inner) && fieldName(fa.X.Type(), fa.Field) == "Raw" {
					val := st.Val
					if ct, ok := val.(*ssa.ChangeType); ok {
						val = ct.X
					}
					if ex, ok := val.(*ssa.Extract); ok && ex.Tuple == ssa.Value(m1) && instrDominates(st, m2) {
						rawSet = true
					}
					return
				}
				if instrReaches(m1, st, nil) && instrReaches(st, m2, nil) {
					late = st
				}
			})
			if rawSet {
				c.Holds(rule, fname(f), "the signed bytes are the bytes emitted", "the structure's Raw field is set to the signed encoding", m1.Pos())
			} else {
				why := ""
				if late != nil {
					why = "the to-be-signed structure is modified at " + c.P.pos(late.Pos()) + " after it was marshalled for the signer and before it is marshalled into the result: the signature does not cover what is emitted, so the object fails its own verification"
				}
				c.Check(late == nil, rule, fname(f), "the signed bytes are the bytes emitted", "nothing is stored into the structure between the two marshals", why, m1.Pos())
			}
		}
		if !found {
			c.Undecided(rule, fname(f), "the marshal for the signer and the final marshal", "not identified", f.Pos())
		}
	}
	if n < 4 {
		c.Undecided(rule, "x509", "creators", fmt.Sprintf("only %d of 4 creators analysed", n), token.NoPos)
	}
}

// extReaderOnly: fields the parser derives from an extension without a template counterpart the writer must read
var extReaderOnly = map[string]string{
	"2.5.29.19|BasicConstraintsValid": "presence flag: the writer reads it in the guard that decides whether the extension is written at all, the reader sets it because the extension is present",
}
