package main

// bytescanon.go — canonical description of how a []byte value was assembled
// (concatenations, literals, sub-slices, copies into fresh buffers, fixed-width
// padded big integers). Used to compare serialisation layouts with the standards.

import (
	"fmt"
	"go/token"
	"go/types"
	"regexp"
	"sort"
	"strings"

	"golang.org/x/tools/go/ssa"
)

func concatX(parts ...*X) *X {
	var flat []*X
	for _, p := range parts {
		if p == nil {
			continue
		}
		if p.Op == "concat" {
			flat = append(flat, p.Args...)
		} else {
			flat = append(flat, p)
		}
	}
	if len(flat) == 1 {
		return flat[0]
	}
	return Op("concat", flat...)
}

func isByteSlice(t types.Type) bool {
	s, ok := t.Underlying().(*types.Slice)
	if !ok {
		return false
	}
	b, ok := s.Elem().Underlying().(*types.Basic)
	return ok && b.Kind() == types.Uint8
}

// arrayLit: v is a slice of a fresh local array whose elements are stored once
// each at constant indices; returns the stored values in order.
func arrayLit(v ssa.Value) ([]ssa.Value, bool) {
	sl, ok := v.(*ssa.Slice)
	if !ok || sl.Low != nil || sl.High != nil {
		return nil, false
	}
	al, ok := sl.X.(*ssa.Alloc)
	if !ok {
		return nil, false
	}
	n, ok := staticLen(al.Type())
	if !ok {
		return nil, false
	}
	if n == 0 {
		return []ssa.Value{}, true
	}
	elems := map[int64]ssa.Value{}
	for _, u := range *al.Referrers() {
		switch x := u.(type) {
		case *ssa.IndexAddr:
			idx, ok := constInt(x.Index)
			if !ok {
				return nil, false
			}
			for _, u2 := range *x.Referrers() {
				if st, ok := u2.(*ssa.Store); ok && st.Addr == ssa.Value(x) {
					if _, dup := elems[idx]; dup {
						return nil, false
					}
					elems[idx] = st.Val
				}
			}
		case *ssa.Slice, *ssa.DebugRef:
		default:
			return nil, false
		}
	}
	if int64(len(elems)) != n {
		// partially initialised arrays have zero elements
		if n > 64 {
			return nil, false
		}
	}
	var keys []int64
	for k := range elems {
		keys = append(keys, k)
	}
	sort.Slice(keys, func(i, j int) bool { return keys[i] < keys[j] })
	out := make([]ssa.Value, n)
	for _, k := range keys {
		out[k] = elems[k]
	}
	return out, true
}

// bytesOf: canonical assembly of a byte slice (or a pack of byte slices)
func (e *bigEnv) bytesOf(v ssa.Value, at ssa.Instruction) *X {
	if e.depth > 60 {
		return L("?deep")
	}
	e.depth++
	defer func() { e.depth-- }()
	if n, ok := e.names[v]; ok {
		return L(n)
	}
	if p, ok := padded32(e, v); ok {
		return Op("pad32", L(p))
	}
	if elems, ok := arrayLit(v); ok {
		if len(elems) == 0 {
			return Op("concat")
		}
		xs := make([]*X, len(elems))
		for i, el := range elems {
			switch {
			case el == nil:
				xs[i] = K(0)
			case isByteSlice(el.Type()):
				xs[i] = e.bytesOf(el, at)
			default:
				xs[i] = e.plain(el, at)
			}
		}
		return Op("lit", xs...)
	}
	switch x := v.(type) {
	case *ssa.Call:
		if bi, ok := x.Call.Value.(*ssa.Builtin); ok && bi.Name() == "append" && len(x.Call.Args) == 2 {
			a := e.bytesOf(x.Call.Args[0], x)
			b := e.bytesOf(x.Call.Args[1], x)
			if b.Op == "lit" {
				// append(s, e1, e2...) — elements
				return concatX(a, b)
			}
			return concatX(a, b)
		}
		if call, name, recv, args, ok := bigMethod(x); ok && !bigMutator(call) {
			xs := []*X{e.valueAt(recv, x)}
			for _, a := range args {
				xs = append(xs, e.plain(a, x))
			}
			_ = name
			return Op(lower(name), xs...)
		}
		cc := &x.Call
		name := ""
		if cc.IsInvoke() {
			name = cc.Method.Name()
		} else if sc := cc.StaticCallee(); sc != nil {
			name = trimMod(calleeID(cc))
		} else {
			return L("?dyncall")
		}
		xs := make([]*X, len(cc.Args))
		for i, a := range cc.Args {
			if isByteSlice(a.Type()) || isSliceOfByteSlices(a.Type()) {
				xs[i] = e.bytesOf(a, x)
			} else {
				xs[i] = e.plain(a, x)
			}
		}
		// a small repository helper whose result is a closed byte-layout form of its parameters (a padding or
		// concatenation helper): substitute the arguments, so that extracting or inlining such a helper does
		// not change the canonical form
		if sc := cc.StaticCallee(); sc != nil && !cc.IsInvoke() && inRepo(sc) && isByteSlice(x.Type()) {
			if form := helperForm(sc); form != nil && (form.Op == "pad32" || form.Op == "padleft") {
				return substX(form, xs)
			}
		}
		return Op("call:"+name, xs...)
	case *ssa.Extract:
		return Op("res"+string(rune('0'+x.Index)), e.bytesOf(x.Tuple, at))
	case *ssa.Slice:
		if x.Low == nil && x.High != nil {
			if hk, isC := constInt(x.High); isC && hk == 0 {
				return Op("concat") // zero-length prefix of a fresh buffer
			}
		}
		// make([]byte, CONST) is lowered to a slice of a fresh array: same treatment as MakeSlice
		if al, ok := x.X.(*ssa.Alloc); ok && x.Low == nil {
			if n, ok := staticLen(al.Type()); ok && n > 0 {
				if hk, isC := constInt(x.High); x.High == nil || (isC && hk == n) {
					var src ssa.Value
					cnt := 0
					for _, u := range *x.Referrers() {
						if y, ok := u.(*ssa.Call); ok {
							if bi, ok := y.Call.Value.(*ssa.Builtin); ok && bi.Name() == "copy" && y.Call.Args[0] == ssa.Value(x) {
								src = y.Call.Args[1]
								cnt++
							}
						}
					}
					stores := 0
					for _, u := range *x.Referrers() {
						if ia, ok := u.(*ssa.IndexAddr); ok {
							for _, u2 := range *ia.Referrers() {
								if _, isSt := u2.(*ssa.Store); isSt {
									stores++
								}
							}
						}
					}
					if stores > 0 {
						// copies plus element stores: the piecewise layout, or nothing
						if lay := e.layoutBuf(x, linForm{k: n, coef: map[string]int64{}}, at); lay != nil {
							return lay
						}
					} else if cnt == 1 {
						return Op("copyN", K(uint64(n)), e.bytesOf(src, at))
					}
					// ... or exactly one copy into its tail: copy(buf[N-len(src):], src) — src left-padded to N bytes
					if cnt == 0 {
						var tailSrc ssa.Value
						tails, others := 0, 0
						for _, u := range *x.Referrers() {
							switch sl := u.(type) {
							case *ssa.Slice:
								if sl.X != ssa.Value(x) {
									continue
								}
								for _, u2 := range *sl.Referrers() {
									y, ok := u2.(*ssa.Call)
									if !ok {
										continue
									}
									if bi, ok := y.Call.Value.(*ssa.Builtin); ok && bi.Name() == "copy" && y.Call.Args[0] == ssa.Value(sl) {
										tails++
										lo, ok := sl.Low.(*ssa.BinOp)
										if sl.High == nil && ok && lo.Op == token.SUB {
											if k, isK := constInt(lo.X); isK && k == n && isLenOf(lo.Y, func(v ssa.Value) bool { return lenBase(v) == lenBase(y.Call.Args[1]) }) {
												tailSrc = y.Call.Args[1]
											}
										}
									}
								}
							case *ssa.IndexAddr:
								for _, u2 := range *sl.Referrers() {
									if _, isSt := u2.(*ssa.Store); isSt {
										others++
									}
								}
							}
						}
						if tails == 1 && others == 0 && tailSrc != nil {
							return Op("padleft", K(uint64(n)), e.bytesOf(tailSrc, at))
						}
					}
				}
			}
		}
		lo, hi := L("_"), L("_")
		if x.Low != nil {
			lo = e.plainIdx(x.Low, at)
		}
		if x.High != nil {
			hi = e.plainIdx(x.High, at)
		}
		return Op("slice", e.bytesOf(x.X, at), lo, hi)
	case *ssa.MakeSlice:
		// fresh buffer filled by exactly one copy(buf, src)
		var src ssa.Value
		n := 0
		okUse := true
		for _, u := range *x.Referrers() {
			switch y := u.(type) {
			case *ssa.Call:
				if bi, ok := y.Call.Value.(*ssa.Builtin); ok && bi.Name() == "copy" && y.Call.Args[0] == ssa.Value(x) {
					src = y.Call.Args[1]
					n++
					continue
				}
				// other calls reading it (append etc.) are fine
			case *ssa.IndexAddr:
				// element stores make it not a pure copy
				for _, u2 := range *y.Referrers() {
					if _, isSt := u2.(*ssa.Store); isSt {
						okUse = false
					}
				}
			}
		}
		if n == 1 && okUse {
			return Op("copyN", e.plainIdx(x.Len, at), e.bytesOf(src, at))
		}
		// fresh zero buffer with exactly one copy into its tail: copy(buf[len(buf)-len(src):], src) is src
		// left-padded with zeros to len(buf) (the big-endian integer value is preserved)
		if n == 0 && okUse {
			var tailSrc ssa.Value
			cnt := 0
			for _, u := range *x.Referrers() {
				sl, ok := u.(*ssa.Slice)
				if !ok || sl.X != ssa.Value(x) {
					continue
				}
				for _, u2 := range *sl.Referrers() {
					y, ok := u2.(*ssa.Call)
					if !ok {
						continue
					}
					if bi, ok := y.Call.Value.(*ssa.Builtin); ok && bi.Name() == "copy" && y.Call.Args[0] == ssa.Value(sl) {
						cnt++
						lo, ok := sl.Low.(*ssa.BinOp)
						if sl.High == nil && ok && lo.Op == token.SUB &&
							(isLenOf(lo.X, func(v ssa.Value) bool { return v == ssa.Value(x) }) || lo.X == x.Len) &&
							isLenOf(lo.Y, func(v ssa.Value) bool { return lenBase(v) == lenBase(y.Call.Args[1]) }) {
							tailSrc = y.Call.Args[1]
						}
					}
				}
			}
			if cnt == 1 && tailSrc != nil {
				return Op("padleft", e.plainIdx(x.Len, at), e.bytesOf(tailSrc, at))
			}
		}
		// a fresh buffer every element of which is set to one value by a loop over the whole buffer is
		// bytes.Repeat([]byte{v}, n)
		if v := filledWith(x); v != nil {
			return Op("call:bytes.Repeat", Op("lit", e.plain(v, at)), e.plainIdx(x.Len, at))
		}
		if k, isK := constInt(x.Len); isK && k == 0 {
			return Op("concat") // make([]byte, 0, cap): the empty string, to be appended to
		}
		if lay := e.layoutOf(x, at); lay != nil {
			return lay
		}
		return Op("make", e.plainIdx(x.Len, at))
	case *ssa.Phi:
		// a join whose incoming values are canonically equal is that value
		if e.phiBusy == nil {
			e.phiBusy = map[*ssa.Phi]bool{}
		}
		if e.phiBusy[x] {
			return L("?phi")
		}
		e.phiBusy[x] = true
		defer delete(e.phiBusy, x)
		var forms []string
		for i, ed := range x.Edges {
			pred := x.Block().Preds[i]
			forms = append(forms, e.bytesOf(ed, pred.Instrs[len(pred.Instrs)-1]).String())
		}
		sort.Strings(forms)
		forms = dedup(forms)
		if len(forms) == 1 {
			return L(forms[0])
		}
		return L("?phi(" + strings.Join(forms, "|") + ")")
	case *ssa.UnOp:
		if x.Op == token.MUL {
			if fa, ok := x.X.(*ssa.FieldAddr); ok {
				return L(e.fieldPath(fa))
			}
			if al, ok := x.X.(*ssa.Alloc); ok {
				if v := singleStore(al); v != nil {
					return e.bytesOf(v, at)
				}
			}
		}
	case *ssa.MakeInterface:
		return e.bytesOf(x.X, at)
	case *ssa.Convert, *ssa.ChangeType:
	}
	return e.plain(v, at)
}

func isSliceOfByteSlices(t types.Type) bool {
	s, ok := t.Underlying().(*types.Slice)
	return ok && isByteSlice(s.Elem())
}

func lower(s string) string {
	b := []byte(s)
	for i, c := range b {
		if c >= 'A' && c <= 'Z' {
			b[i] = c + 32
		}
	}
	return string(b)
}

func trimMod(s string) string {
	out := ""
	for {
		i := indexOf(s, modPath+"/")
		if i < 0 {
			return out + s
		}
		out += s[:i]
		s = s[i+len(modPath)+1:]
	}
}

func indexOf(s, sub string) int {
	for i := 0; i+len(sub) <= len(s); i++ {
		if s[i:i+len(sub)] == sub {
			return i
		}
	}
	return -1
}

// plainIdx: integer expression in canonical affine-ish form
func (e *bigEnv) plainIdx(v ssa.Value, at ssa.Instruction) *X {
	return e.plain(v, at)
}

// eqTest decodes an If condition comparing two byte slices for equality:
// bytes.Equal(a,b), bytes.Compare(a,b) ==/!= 0, subtle.ConstantTimeCompare(a,b) ==/!= 1.
// passSucc is the successor taken when the slices are EQUAL.
func eqTest(ifi *ssa.If) (a, b ssa.Value, passSucc int, ok bool) {
	cond := ifi.Cond
	neg := false
	for {
		if u, isU := cond.(*ssa.UnOp); isU && u.Op == token.NOT {
			neg = !neg
			cond = u.X
			continue
		}
		break
	}
	if call, isCall := cond.(*ssa.Call); isCall {
		if calleeID(&call.Call) == "bytes.Equal" {
			ps := 0
			if neg {
				ps = 1
			}
			return call.Call.Args[0], call.Call.Args[1], ps, true
		}
		return nil, nil, 0, false
	}
	bo, isB := cond.(*ssa.BinOp)
	if !isB || (bo.Op != token.EQL && bo.Op != token.NEQ) {
		return nil, nil, 0, false
	}
	var call *ssa.Call
	var k int64
	if c, isC := constInt(bo.Y); isC {
		call, _ = bo.X.(*ssa.Call)
		k = c
	} else if c, isC := constInt(bo.X); isC {
		call, _ = bo.Y.(*ssa.Call)
		k = c
	}
	if call == nil {
		return nil, nil, 0, false
	}
	id := calleeID(&call.Call)
	var equalWhenTrue bool
	switch {
	case id == "bytes.Compare" && k == 0:
		equalWhenTrue = bo.Op == token.EQL
	case id == "crypto/subtle.ConstantTimeCompare" && k == 1:
		equalWhenTrue = bo.Op == token.EQL
	case id == "crypto/subtle.ConstantTimeCompare" && k == 0:
		equalWhenTrue = bo.Op == token.NEQ
	default:
		return nil, nil, 0, false
	}
	if neg {
		equalWhenTrue = !equalWhenTrue
	}
	ps := 1
	if equalWhenTrue {
		ps = 0
	}
	return call.Call.Args[0], call.Call.Args[1], ps, true
}

// helperForm: the canonical byte-layout form of the single result of a small repository function in terms of
// placeholders $0, $1, ... for its parameters; nil when the function is not that simple (several results, several
// distinct return forms, anything the canonicaliser does not fully understand)
var helperFormCache = map[*ssa.Function]*X{}
var helperFormBusy = map[*ssa.Function]bool{}

func helperForm(f *ssa.Function) *X {
	if r, ok := helperFormCache[f]; ok {
		return r
	}
	if helperFormBusy[f] || f.Blocks == nil || len(f.Blocks) > 8 || f.Signature.Results().Len() != 1 {
		return nil
	}
	helperFormBusy[f] = true
	defer delete(helperFormBusy, f)
	names := map[ssa.Value]string{}
	for i, p := range f.Params {
		names[p] = fmt.Sprintf("$%d", i)
	}
	be := newBigEnv(f, names)
	var form *X
	okAll := true
	for _, b := range f.Blocks {
		ret, ok := b.Instrs[len(b.Instrs)-1].(*ssa.Return)
		if !ok {
			continue
		}
		x := be.bytesOf(ret.Results[0], ret)
		if form != nil && form.String() != x.String() {
			okAll = false
		}
		form = x
	}
	if !okAll || form == nil || strings.Contains(form.String(), "?") || strings.Contains(form.String(), "call:") {
		form = nil
	}
	helperFormCache[f] = form
	return form
}

// substX replaces the placeholder leaves $i of a helper form by the argument forms
func substX(x *X, args []*X) *X {
	if x.Op == "leaf" {
		if strings.HasPrefix(x.Leaf, "$") {
			var i int
			if _, err := fmt.Sscanf(x.Leaf, "$%d", &i); err == nil && i >= 0 && i < len(args) && fmt.Sprintf("$%d", i) == x.Leaf {
				return args[i]
			}
		}
		// leaves that embed a placeholder textually (pad32 leaves carry strings)
		if strings.Contains(x.Leaf, "$") {
			s := x.Leaf
			for i := len(args) - 1; i >= 0; i-- {
				s = strings.ReplaceAll(s, fmt.Sprintf("$%d", i), args[i].String())
			}
			return L(s)
		}
		return x
	}
	if x.Op == "const" {
		return x
	}
	out := &X{Op: x.Op, Leaf: x.Leaf}
	for _, a := range x.Args {
		out.Args = append(out.Args, substX(a, args))
	}
	return out
}

// stripCopies: copyN(n, x[lo:hi]) with n equal to the length of that slice is the same byte string as x[lo:hi]
// (a private copy changes who owns the memory, not the bytes): normal form for comparing layouts
func stripCopies(x *X) *X {
	if x == nil || x.Op == "leaf" || x.Op == "const" {
		return x
	}
	out := &X{Op: x.Op, Leaf: x.Leaf}
	for _, a := range x.Args {
		out.Args = append(out.Args, stripCopies(a))
	}
	if out.Op == "copyN" && len(out.Args) == 2 && out.Args[1].Op == "slice" && len(out.Args[1].Args) == 3 {
		n, sl := out.Args[0].String(), out.Args[1]
		base, lo, hi := sl.Args[0].String(), sl.Args[1].String(), sl.Args[2].String()
		var want []string
		switch {
		case lo == "_" && hi != "_":
			want = []string{hi}
		case lo != "_" && hi == "_":
			want = []string{"sub(len(" + base + ")," + lo + ")"}
			// x[len(x)-K:] has K bytes
			if pre := "sub(len(" + base + "),"; strings.HasPrefix(lo, pre) && strings.HasSuffix(lo, ")") {
				want = append(want, strings.TrimSuffix(strings.TrimPrefix(lo, pre), ")"))
			}
		case lo != "_" && hi != "_":
			want = []string{"sub(" + hi + "," + lo + ")"}
			var k1, k2 uint64
			if _, err := fmt.Sscanf(lo, "0x%x", &k1); err == nil && !strings.ContainsAny(lo, "(),") {
				if _, err := fmt.Sscanf(hi, "0x%x", &k2); err == nil && !strings.ContainsAny(hi, "(),") && k2 >= k1 {
					want = append(want, fmt.Sprintf("0x%x", k2-k1))
				}
			}
		}
		for _, w := range want {
			if n == w {
				return sl
			}
		}
		// sub(sub(len(D),0x20),0x40) written as sub(len(D),0x60)
		if lo != "_" && hi != "_" && strings.HasPrefix(hi, "sub(len(") {
			var k1, k2 uint64
			if _, err := fmt.Sscanf(lo, "0x%x", &k1); err == nil {
				rest := strings.TrimPrefix(hi, "sub(len("+base+"),")
				if _, err := fmt.Sscanf(rest, "0x%x)", &k2); err == nil && n == fmt.Sprintf("sub(len(%s),0x%x)", base, k1+k2) {
					return sl
				}
			}
		}
	}
	return out
}

// normSliceString: textual normal form of nested constant slices — slice(slice(b,0xA,_),0xC,0xD) is
// slice(b,0xA+0xC,0xA+0xD); slice(slice(b,0xA,_),_,0xD) is slice(b,0xA,0xA+0xD); a leading empty make in a concat
// is dropped. Applied to both sides before two layouts are compared.
func normSliceString(s string) string {
	re := regexp.MustCompile(`slice\(slice\(([a-zA-Z0-9_.]+),(0x[0-9a-f]+|_),_\),(0x[0-9a-f]+|_),(0x[0-9a-f]+|_)\)`)
	hex := func(t string) (uint64, bool) {
		if t == "_" {
			return 0, true
		}
		var v uint64
		_, err := fmt.Sscanf(t, "0x%x", &v)
		return v, err == nil
	}
	for i := 0; i < 8; i++ {
		changed := false
		s = re.ReplaceAllStringFunc(s, func(m string) string {
			g := re.FindStringSubmatch(m)
			a, ok1 := hex(g[2])
			lo, ok2 := hex(g[3])
			hi, ok3 := hex(g[4])
			if !ok1 || !ok2 || !ok3 {
				return m
			}
			changed = true
			nlo := fmt.Sprintf("0x%x", a+lo)
			if a+lo == 0 {
				nlo = "_"
			}
			nhi := "_"
			if g[4] != "_" {
				nhi = fmt.Sprintf("0x%x", a+hi)
			}
			return "slice(" + g[1] + "," + nlo + "," + nhi + ")"
		})
		if !changed {
			break
		}
	}
	s = strings.ReplaceAll(s, "concat(make(0x0),", "concat(")
	return s
}

// filledWith: the make'd slice is written only by one loop `for i := range buf { buf[i] = v }` (or the counted form
// over len(buf) / the make length) with v not depending on i: returns v
func filledWith(x *ssa.MakeSlice) ssa.Value {
	var val ssa.Value
	stores := 0
	for _, u := range *x.Referrers() {
		switch y := u.(type) {
		case *ssa.IndexAddr:
			for _, u2 := range *y.Referrers() {
				st, ok := u2.(*ssa.Store)
				if !ok || st.Addr != ssa.Value(y) {
					continue
				}
				stores++
				// index: range index (phi(-1)+1) or counted phi(0,+1), compared with len(buf) or the make length
				var phi *ssa.Phi
				idx := y.Index
				if add, ok := idx.(*ssa.BinOp); ok && add.Op == token.ADD {
					if k, isK := constInt(add.Y); isK && k == 1 {
						phi, _ = add.X.(*ssa.Phi)
					}
				} else if p, ok := idx.(*ssa.Phi); ok {
					phi = p
				}
				if phi == nil {
					return nil
				}
				iv, ok := inductionOf(phi)
				if !ok || iv.step != 1 || !((iv.init == -1 && idx != ssa.Value(phi)) || (iv.init == 0 && idx == ssa.Value(phi))) {
					return nil
				}
				ifi, ok := lastIf(phi.Block())
				if !ok {
					return nil
				}
				cmp, ok := ifi.Cond.(*ssa.BinOp)
				if !ok || cmp.Op != token.LSS || cmp.X != idx {
					return nil
				}
				if !(cmp.Y == x.Len || isLenOf(cmp.Y, func(v ssa.Value) bool { return v == ssa.Value(x) })) {
					return nil
				}
				val = st.Val
			}
		case *ssa.Call:
			if bi, ok := y.Call.Value.(*ssa.Builtin); ok && (bi.Name() == "copy" || bi.Name() == "append") && len(y.Call.Args) > 0 && y.Call.Args[0] == ssa.Value(x) {
				return nil
			}
		case *ssa.Slice:
			return nil
		}
	}
	if stores != 1 {
		return nil
	}
	return val
}
