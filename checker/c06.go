package main

// C06 — handshakes agree on parameters and keys (the clauses whose truth is in the shape of the code)

import (
	"bytes"
	"fmt"
	"go/ast"
	"go/printer"
	"go/token"
	"go/types"
	"sort"
	"strings"

	"golang.org/x/tools/go/ssa"
)

func init() { register("C06", checkC06) }

func checkC06(c *Ctx) {
	c.Decided = append(c.Decided,
		"K-C06-keys: client and server of both stacks call masterFromPreMasterSecret, keysFromMasterSecret and ekmFromMasterSecret with (version, suite, secret, client random, server random) in the same roles, and install the derived keys mirror-wise (client writes with the client keys and reads with the server keys; the server the other way round)",
		"K-C06-prf: the master secret is PRF(pre-master, \"master secret\", client_random || server_random), the key block PRF(master, \"key expansion\", server_random || client_random) cut into client MAC, server MAC, client key, server key, client IV, server IV in that order, and GMSSL uses the TLS 1.2 PRF over SM3",
		"G-C06-suite: each client accepts the server's suite only if it offered it (and it is implemented), each server selects a suite only from the client's offer intersected with its configuration, and each client accepts the server's version only through mutualVersion",
		"K-C06-finlabels: the Finished labels and the verify_data length are the standard constants")
	c.NotDec = append(c.NotDec, "that every supported configuration completes, that both ends report identical state and exported keying material, and interoperability with other GM/T 0024 / TLS stacks (all runtime)", "in-order unmodified delivery of application data for all fragmentations (runtime; the record layer's protection rules are under C07)")
	getFX(c)
	c06Keys(c)
	c06PRF(c)
	c06Suite(c)
	c06SuiteFlags(c)
	if n := bitsToBytes(c, "P-WIDTH-bits", []string{"gmtls"}); n > 0 {
		c.Holds("P-WIDTH-bits", "gmtls", "every byte count computed from a curve's BitSize rounds up", fmt.Sprintf("%d uses of BitSize inspected", n), token.NoPos)
	} else {
		c.Undecided("P-WIDTH-bits", "gmtls", "uses of BitSize", "none found", token.NoPos)
	}
	c06Immutable(c)
	c06Policy(c)
	c08ClientAuth(c) // both servers apply the same client-certificate policy (the rule of C08)
	c06PHash(c)
	c06Clones(c)
	c06MsgBytes(c)
	c06MaxPayload(c)
	c06RecordLimit(c)
	msgFrozenAfterMarshal(c, "K-MSG-frozen")
	c06Fragment(c)
	c06Deliver(c)
	c07MustDecrypt(c) // includes: Read pulls a new record only when no decrypted data is pending
}

type hsRole struct {
	name         string
	client       bool
	cRand, sRand string // canonical suffixes of the client / server random as seen from this role
}

var c06Roles = []hsRole{
	{"(*clientHandshakeState)", true, "hs.hello.random", "hs.serverHello.random"},
	{"(*clientHandshakeStateGM)", true, "hs.hello.random", "hs.serverHello.random"},
	{"(*serverHandshakeState)", false, "hs.clientHello.random", "hs.hello.random"},
	{"(*serverHandshakeStateGM)", false, "hs.clientHello.random", "hs.hello.random"},
}

func argForms(f *ssa.Function, call *ssa.Call) []string {
	be := newBigEnv(f, allParamNames(f))
	var out []string
	for _, a := range call.Call.Args {
		out = append(out, fieldForm(be.plain(a, call).String()))
	}
	return out
}

func c06Keys(c *Ctx) {
	rule := "K-C06-keys"
	for _, r := range c06Roles {
		nMaster, nKeys := 0, 0
		for _, f := range c.P.RepoFuncs("gmtls") {
			recv := f.Signature.Recv()
			if recv == nil || !strings.HasSuffix(recv.Type().String(), strings.Trim(r.name, "(*)")) {
				continue
			}
			file := c.P.relFile(f.Pos())
			if file == "gmtls/gm_handshake_client.go" || file == "gmtls/gm_handshake_server.go" {
				continue
			}
			for _, call := range callsNamedIn(f, "masterFromPreMasterSecret") {
				nMaster++
				a := argForms(f, call)
				ok := len(a) == 5 && strings.HasSuffix(a[0], "c.vers") && a[1] == "hs.suite" && a[3] == r.cRand && a[4] == r.sRand
				c.Check(ok, rule, fname(f), "master secret from (version, suite, pre-master, client random, server random)", "", fmt.Sprintf("masterFromPreMasterSecret(%s)", strings.Join(a, ", ")), call.Pos())
			}
			for _, call := range callsNamedIn(f, "keysFromMasterSecret") {
				nKeys++
				a := argForms(f, call)
				ok := len(a) == 8 && strings.HasSuffix(a[0], "c.vers") && a[1] == "hs.suite" && a[2] == "hs.masterSecret" && a[3] == r.cRand && a[4] == r.sRand &&
					a[5] == "hs.suite.macLen" && a[6] == "hs.suite.keyLen" && a[7] == "hs.suite.ivLen"
				c.Check(ok, rule, fname(f), "key block from (version, suite, master secret, client random, server random, suite lengths)", "", fmt.Sprintf("keysFromMasterSecret(%s)", strings.Join(a, ", ")), call.Pos())
				c06Install(c, f, call, r)
			}
		}
		c.Check(nMaster >= 1 && nKeys >= 1, rule, "gmtls."+r.name, "derives the master secret and the key block", "", fmt.Sprintf("%d masterFromPreMasterSecret / %d keysFromMasterSecret calls found", nMaster, nKeys), token.NoPos)
	}
	// exported keying material: same role mapping
	for _, pr := range []struct {
		fn           string
		cRand, sRand string
	}{
		{"(*clientHandshakeState).handshake", "hs.hello.random", "hs.serverHello.random"},
		{"(*clientHandshakeStateGM).handshake", "hs.hello.random", "hs.serverHello.random"},
		{"(*Conn).serverHandshake", "hs.clientHello.random", "hs.hello.random"},
		{"(*Conn).serverHandshakeGM", "hs.clientHello.random", "hs.hello.random"},
	} {
		f := c.Fn("gmtls", pr.fn)
		if f == nil {
			c.Missing(rule, "gmtls."+pr.fn, "function", "not found")
			continue
		}
		for _, call := range callsNamedIn(f, "ekmFromMasterSecret") {
			a := argForms(f, call)
			norm := func(s string) string {
				// hs is a local struct in the server functions: local(gmtls.serverHandshakeStateGM).clientHello.random
				if i := strings.Index(s, ")."); strings.HasPrefix(s, "local(") && i > 0 {
					return "hs." + s[i+2:]
				}
				return s
			}
			ok := len(a) == 5 && norm(a[2]) == "hs.masterSecret" && norm(a[3]) == pr.cRand && norm(a[4]) == pr.sRand
			c.Check(ok, rule, fname(f), "exported keying material from (master secret, client random, server random)", "", fmt.Sprintf("ekmFromMasterSecret(%s)", strings.Join(a, ", ")), call.Pos())
		}
	}
}

// c06Install: which of the six key-block results go to c.in and c.out
func c06Install(c *Ctx, f *ssa.Function, keys *ssa.Call, r hsRole) {
	rule := "K-C06-keys"
	// result index -> name
	names := []string{"clientMAC", "serverMAC", "clientKey", "serverKey", "clientIV", "serverIV"}
	resName := map[ssa.Value]string{}
	for _, u := range *keys.Referrers() {
		if ex, ok := u.(*ssa.Extract); ok && ex.Index < 6 {
			resName[ex] = names[ex.Index]
		}
	}
	// trace a cipher/mac value back to the key-block results it was made from
	var roots func(v ssa.Value, depth int, out map[string]bool)
	roots = func(v ssa.Value, depth int, out map[string]bool) {
		if depth > 8 || v == nil {
			return
		}
		if n, ok := resName[v]; ok {
			out[n] = true
			return
		}
		switch x := v.(type) {
		case *ssa.Phi:
			for _, e := range x.Edges {
				roots(e, depth+1, out)
			}
		case *ssa.Call:
			for _, a := range x.Call.Args {
				roots(a, depth+1, out)
			}
		case *ssa.MakeInterface:
			roots(x.X, depth+1, out)
		case *ssa.ChangeInterface:
			roots(x.X, depth+1, out)
		}
	}
	for _, call := range callsNamedIn(f, "prepareCipherSpec") {
		// receiver: &c.in or &c.out
		dir := ""
		if fa, ok := call.Call.Args[0].(*ssa.FieldAddr); ok {
			dir = fieldName(fa.X.Type(), fa.Field)
		}
		got := map[string]bool{}
		roots(call.Call.Args[2], 0, got)
		roots(call.Call.Args[3], 0, got)
		side := "client"
		if (dir == "in") == r.client {
			side = "server"
		}
		ok := len(got) > 0
		for n := range got {
			if !strings.HasPrefix(n, side) {
				ok = false
			}
		}
		var gs []string
		for n := range got {
			gs = append(gs, n)
		}
		who := "server"
		if r.client {
			who = "client"
		}
		c.Check(ok && (dir == "in" || dir == "out"), rule, fname(f), fmt.Sprintf("the %s's %s direction uses the %s keys", who, dir, side), "", fmt.Sprintf("c.%s is prepared with %s", dir, strings.Join(gs, ",")), call.Pos())
	}
}

func c06PRF(c *Ctx) {
	rule := "K-C06-prf"
	lit := func(name string) string {
		e, pk := c.P.findVarInit("gmtls", name)
		if e == nil || pk == nil {
			return ""
		}
		s := exprString(e)
		return s
	}
	c.Check(lit("masterSecretLabel") == `[]byte("master secret")`, rule, "gmtls.masterSecretLabel", "label \"master secret\"", "", "masterSecretLabel is "+lit("masterSecretLabel"), token.NoPos)
	c.Check(lit("keyExpansionLabel") == `[]byte("key expansion")`, rule, "gmtls.keyExpansionLabel", "label \"key expansion\"", "", "keyExpansionLabel is "+lit("keyExpansionLabel"), token.NoPos)
	c.Check(lit("clientFinishedLabel") == `[]byte("client finished")` && lit("serverFinishedLabel") == `[]byte("server finished")`, "K-C06-finlabels", "gmtls.clientFinishedLabel/serverFinishedLabel", "Finished labels", "", "labels are "+lit("clientFinishedLabel")+" / "+lit("serverFinishedLabel"), token.NoPos)
	if v, ok := pkgConst(c, "gmtls", "finishedVerifyLength"); ok {
		c.Check(v == 12, "K-C06-finlabels", "gmtls.finishedVerifyLength", "verify_data has 12 bytes", "", fmt.Sprintf("finishedVerifyLength = %d", v), token.NoPos)
	}
	if v, ok := pkgConst(c, "gmtls", "masterSecretLength"); ok {
		c.Check(v == 48, rule, "gmtls.masterSecretLength", "the master secret has 48 bytes", "", fmt.Sprintf("masterSecretLength = %d", v), token.NoPos)
	}
	for _, pr := range []struct{ fn, label, seed, secret string }{
		{"masterFromPreMasterSecret", "global:masterSecretLabel", "concat(clientRandom,serverRandom)", "preMasterSecret"},
		{"keysFromMasterSecret", "global:keyExpansionLabel", "concat(serverRandom,clientRandom)", "masterSecret"},
	} {
		f := c.Fn("gmtls", pr.fn)
		if f == nil {
			c.Missing(rule, "gmtls."+pr.fn, "function", "not found")
			continue
		}
		be := newBigEnv(f, allParamNames(f))
		found := false
		for _, ci := range allCalls(f) {
			call, ok := ci.(*ssa.Call)
			if !ok || len(call.Call.Args) != 4 {
				continue
			}
			inner, ok := call.Call.Value.(*ssa.Call)
			if !ok || !calleeNamed(inner, "prfForVersion") {
				continue
			}
			found = true
			secret := be.bytesOf(call.Call.Args[1], call).String()
			label := be.bytesOf(call.Call.Args[2], call).String()
			seed := strings.Replace(be.bytesOf(call.Call.Args[3], call).String(), "concat(make(0x0),", "concat(", 1)
			c.Check(secret == pr.secret && label == pr.label && seed == pr.seed, rule, fname(f), "PRF(secret, label, seed) as in RFC 5246 / GM/T 0024", "", fmt.Sprintf("PRF(%s, %s, %s)", secret, label, seed), call.Pos())
			va := be.plain(inner.Call.Args[0], inner).String()
			c.Check(va == "version", rule, fname(f), "the PRF is selected by the negotiated version", "", "prfForVersion("+va+", …)", inner.Pos())
		}
		if !found {
			c.Undecided(rule, fname(f), "PRF call", "no call of the form prfForVersion(version, suite)(out, secret, label, seed)", f.Pos())
		}
	}
	// key block partition
	if f := c.Fn("gmtls", "keysFromMasterSecret"); f != nil {
		// Decided on absolute (offset, length) pairs computed with linear arithmetic, so that it does not matter
		// whether the block is cut by repeated re-slicing or by explicit offsets: the six results are the consecutive
		// pieces of ONE buffer with lengths macLen, macLen, keyLen, keyLen, ivLen, ivLen
		lb := &LB{p: c.P, f: f, UsedContracts: map[string]bool{}}
		var mac, key, iv ssa.Value
		for _, p := range f.Params {
			switch pname(p) {
			case "macLen":
				mac = p
			case "keyLen":
				key = p
			case "ivLen":
				iv = p
			}
		}
		// absolute start and length of a slice expression relative to its root buffer
		var span func(v ssa.Value) (root ssa.Value, lo lin, n lin, ok bool)
		span = func(v ssa.Value) (ssa.Value, lin, lin, bool) {
			v = unspill(v)
			sl, isSl := v.(*ssa.Slice)
			if !isSl {
				return v, linConst(0), lb.lenLin(v), true
			}
			r, blo, bn, ok := span(sl.X)
			if !ok {
				return nil, lin{}, lin{}, false
			}
			lo := linConst(0)
			if sl.Low != nil {
				lo = lb.linOf(sl.Low)
			}
			n := bn.addScaled(lo, -1)
			if sl.High != nil {
				n = lb.linOf(sl.High).addScaled(lo, -1)
			}
			return r, blo.addScaled(lo, 1), n, true
		}
		okPart := mac != nil && key != nil && iv != nil
		detail := ""
		for _, b := range f.Blocks {
			ret, isRet := b.Instrs[len(b.Instrs)-1].(*ssa.Return)
			if !isRet || !okPart {
				continue
			}
			if len(ret.Results) != 6 {
				okPart = false
				break
			}
			wantLen := []ssa.Value{mac, mac, key, key, iv, iv}
			pos := linConst(0)
			var root0 ssa.Value
			for i, r := range ret.Results {
				root, lo, n, ok := span(r)
				if !ok {
					okPart = false
					break
				}
				if i == 0 {
					root0 = root
				}
				dLo := lo.addScaled(pos, -1)
				dN := n.addScaled(lb.linOf(wantLen[i]), -1)
				if root != root0 || len(dLo.c) != 0 || dLo.k != 0 || len(dN.c) != 0 || dN.k != 0 {
					okPart = false
					detail = fmt.Sprintf("result %d starts at offset %s with length %s of the key block", i, linString(lo), linString(n))
				}
				pos = pos.addScaled(lb.linOf(wantLen[i]), 1)
			}
		}
		c.Check(okPart, rule, fname(f), "key block = client MAC | server MAC | client key | server key | client IV | server IV", "", "the six results are not the consecutive pieces of the key block with lengths macLen, macLen, keyLen, keyLen, ivLen, ivLen: "+detail, f.Pos())
		// its length: the buffer the pieces are cut from has exactly 2*(macLen+keyLen+ivLen) bytes
		okLen := false
		for _, b := range f.Blocks {
			if ret, isRet := b.Instrs[len(b.Instrs)-1].(*ssa.Return); isRet && len(ret.Results) == 6 && mac != nil && key != nil && iv != nil {
				if root, _, _, ok := span(ret.Results[0]); ok {
					want := lb.linOf(mac).scale(2).addScaled(lb.linOf(key), 2).addScaled(lb.linOf(iv), 2)
					d := lb.lenLin(root).addScaled(want, -1)
					if ms, isMk := root.(*ssa.MakeSlice); isMk {
						d = lb.linOf(ms.Len).addScaled(want, -1)
					}
					okLen = len(d.c) == 0 && d.k == 0
				}
			}
		}
		c.Check(okLen, rule, fname(f), "key block length = 2*(macLen+keyLen+ivLen)", "", "the key material buffer does not have 2*(macLen+keyLen+ivLen) bytes", f.Pos())
	}
	// GMSSL PRF: prf12 over SM3
	if f := c.Fn("gmtls", "prfAndHashForGM"); f != nil {
		ok := false
		for _, call := range callsNamedIn(f, "prf12") {
			if fn, isFn := call.Call.Args[0].(*ssa.Function); isFn && fname(fn) == "sm3.New" {
				ok = true
			}
		}
		c.Check(ok, rule, fname(f), "GMSSL uses the TLS 1.2 PRF over SM3", "", "prfAndHashForGM does not return prf12(sm3.New)", f.Pos())
	}
	if f := c.Fn("gmtls", "prfForVersion"); f != nil {
		ci := newCondIndex(f, allParamNames(f))
		gm, _ := pkgConst(c, "gmtls", "VersionGMSSL")
		ok := false
		for _, s := range ci.conds {
			if s == fmt.Sprintf("eq(version,0x%x)", gm) {
				ok = true
			}
		}
		c.Check(ok, rule, fname(f), "VersionGMSSL selects the GM PRF", "", "prfForVersion does not test version == VersionGMSSL", f.Pos())
	}
}

func c06Suite(c *Ctx) {
	rule := "G-C06-suite"
	// clients
	for _, pr := range [][2]string{{"(*clientHandshakeState).pickCipherSuite", "mutualCipherSuite"}, {"(*clientHandshakeStateGM).pickCipherSuite", "mutualCipherSuiteGM"}} {
		f := c.Fn("gmtls", pr[0])
		if f == nil {
			c.Missing(rule, "gmtls."+pr[0], "method", "not found")
			continue
		}
		spec, _ := defaultResultSpec(f)
		calls := callsNamedIn(f, pr[1])
		if len(calls) != 1 {
			c.Violated(rule, fname(f), "the server's suite is looked up among the offered suites", fmt.Sprintf("%d calls to %s", len(calls), pr[1]), f.Pos())
			continue
		}
		a := argForms(f, calls[0])
		c.Check(len(a) == 2 && a[0] == "hs.hello.cipherSuites" && a[1] == "hs.serverHello.cipherSuite", rule, fname(f), "the server's suite is looked up among the suites this client offered", "", pr[1]+"("+strings.Join(a, ", ")+")", calls[0].Pos())
		// nil result rejects
		ci := newCondIndex(f, allParamNames(f))
		var atoms []Atom
		for ifi, s := range ci.conds {
			if strings.HasPrefix(s, "eq(") && strings.Contains(s, "nil") && strings.Contains(s, pr[1]) {
				atoms = append(atoms, Atom{ifi, 1, "suite found"})
			}
			// `if hs.suite = lookup(...); hs.suite == nil`: the field was just assigned the lookup's result
			if strings.HasPrefix(s, "eq(hs.suite,const:nil") && strings.Contains(fieldStores(f, ci.be)["suite"], pr[1]) {
				atoms = append(atoms, Atom{ifi, 1, "suite found"})
			}
		}
		g := evalGuard(c.P, f, atoms, spec, nil)
		c.Check(g.OK, rule, fname(f), "a suite that was not offered (or is not implemented) aborts", g.Why, g.Why, calls[0].Pos())
	}
	for _, name := range []string{"mutualCipherSuite", "mutualCipherSuiteGM"} {
		f := c.Fn("gmtls", name)
		if f == nil {
			c.Missing(rule, "gmtls."+name, "function", "not found")
			continue
		}
		// returns non-nil only inside the `id == want` branch of the loop over `have`
		ci := newCondIndex(f, allParamNames(f))
		okEq := false
		for _, s := range ci.conds {
			if strings.HasPrefix(s, "eq(idx(have,") && strings.HasSuffix(s, ",want)") {
				okEq = true
			}
		}
		nonNilOutside := false
		for _, b := range f.Blocks {
			if ret, ok := b.Instrs[len(b.Instrs)-1].(*ssa.Return); ok && !isNilConst(ret.Results[0]) {
				dom := false
				for ifi, s := range ci.conds {
					if strings.HasPrefix(s, "eq(idx(have,") && strings.HasSuffix(s, ",want)") {
						if t := ifi.Block().Succs[0]; len(t.Preds) == 1 && (t == b || t.Dominates(b)) {
							dom = true
						}
					}
				}
				if !dom {
					nonNilOutside = true
				}
			}
		}
		c.Check(okEq && !nonNilOutside, rule, fname(f), "a suite is returned only if its id is in the offered list", "", "the lookup can return a suite whose id was not compared with an element of `have`", f.Pos())
	}
	// servers: setCipherSuite is called with an id taken from the client's offer or the configured preference, and
	// checks membership in the other list
	for _, name := range []string{"(*serverHandshakeState).setCipherSuite", "(*serverHandshakeStateGM).setCipherSuite"} {
		f := c.Fn("gmtls", name)
		if f == nil {
			c.Missing(rule, "gmtls."+name, "method", "not found")
			continue
		}
		ci := newCondIndex(f, allParamNames(f))
		okEq := false
		var eqIf *ssa.If
		for ifi, s := range ci.conds {
			if strings.HasPrefix(s, "eq(id,idx(supportedCipherSuites,") {
				okEq, eqIf = true, ifi
			}
		}
		trueOutside := false
		for _, b := range f.Blocks {
			if ret, ok := b.Instrs[len(b.Instrs)-1].(*ssa.Return); ok {
				if cb, isC := constBool(ret.Results[0]); isC && cb {
					if eqIf == nil || len(eqIf.Block().Succs[0].Preds) != 1 || !(eqIf.Block().Succs[0] == b || eqIf.Block().Succs[0].Dominates(b)) {
						trueOutside = true
					}
				}
			}
		}
		if !(okEq && !trueOutside) {
			// decided on values: assuming the id equals no element of the supported list, no true result is reachable
			// (guard clauses, `continue` forms and inverted tests alike)
			pat := `re:eq\(id,idx\(supportedCipherSuites,.*\)\)`
			reachable := true
			ci.withAssumptions([]assumption{{pat, false}}, func() {
				reachable, _ = canReachSuccess(f.Blocks[0], nil, successExits(f, resultSpec{0, "bool"}), deadEdges(f))
			})
			if !reachable && ci.valueMatches(pat) {
				c.Holds(rule, fname(f), "a suite is selected only if its id is in the supported list", "assuming the id equals no element of supportedCipherSuites, no true result is reachable (decided on values)", f.Pos())
				continue
			}
		}
		c.Check(okEq && !trueOutside, rule, fname(f), "a suite is selected only if its id is in the supported list", "", "setCipherSuite can accept an id that is not in supportedCipherSuites", f.Pos())
	}
	for _, name := range []string{"(*serverHandshakeState).readClientHello", "(*serverHandshakeStateGM).readClientHello"} {
		f := c.Fn("gmtls", name)
		if f == nil {
			continue
		}
		n := 0
		for _, call := range callsNamedIn(f, "setCipherSuite") {
			n++
			a := argForms(f, call)
			// (hs, id, supportedList, version): id ranges over one list, supportedList is the other
			ok := len(a) == 4 && (strings.Contains(a[1], "idx(") || strings.Contains(a[1], "?phi") || strings.Contains(a[1], "elem"))
			c.Check(ok, rule, fname(f), fmt.Sprintf("setCipherSuite #%d is tried for the ids of one list against the other", n), "", "setCipherSuite("+strings.Join(a, ", ")+")", call.Pos())
		}
		c.Check(n >= 1, rule, fname(f), "the server selects its suite through setCipherSuite", "", "no call to setCipherSuite", f.Pos())
	}
	// versions on the client
	for _, name := range []string{"(*clientHandshakeState).pickTLSVersion"} {
		f := c.Fn("gmtls", name)
		if f == nil {
			c.Missing(rule, "gmtls."+name, "method", "not found")
			continue
		}
		calls := callsNamedIn(f, "mutualVersion")
		c.Check(len(calls) == 1, rule, fname(f), "the server's version goes through mutualVersion", "", fmt.Sprintf("%d calls to mutualVersion", len(calls)), f.Pos())
		if len(calls) == 1 {
			a := argForms(f, calls[0])
			c.Check(len(a) == 2 && a[1] == "hs.serverHello.vers", rule, fname(f), "mutualVersion is asked about the ServerHello's version", "", "mutualVersion("+strings.Join(a, ", ")+")", calls[0].Pos())
			// the plain-TLS client goes on only with TLS 1.0 or later: with the mutual version anywhere in
			// [0, 0x0300] — SSL 3.0 and the GMSSL number 0x0101, which mutualVersion both accepts — no successful
			// return is reachable (decided on values: any comparison of that version with constants)
			{
				call := calls[0]
				var ext *ssa.Extract
				for _, u := range *call.Referrers() {
					if e, ok := u.(*ssa.Extract); ok && e.Index == 0 {
						ext = e
					}
				}
				if ext != nil {
					ci := newCondIndex(f, allParamNames(f))
					spec, _ := defaultResultSpec(f)
					reachable := true
					ci.withInterval(ci.be.plain(ext, ext).String(), 0, 0x0300, func() {
						reachable, _ = canReachSuccess(f.Blocks[0], nil, successExits(f, spec), deadEdges(f))
					})
					c.Check(!reachable, rule, fname(f), "versions below TLS 1.0 (SSL 3.0, GMSSL 0x0101) are refused by the plain-TLS client", "", "with the mutual version at or below 0x0300 the function can still succeed: a server that selects SSL 3.0 or the GMSSL version number 0x0101 is followed into a protocol this client path does not implement", call.Pos())
				}
			}
		}
	}
}

// exprString renders an initialiser expression with its literals (types.ExprString elides nothing here)
func exprString(e ast.Expr) string {
	var buf bytes.Buffer
	printer.Fprint(&buf, token.NewFileSet(), e)
	return buf.String()
}

// c06Immutable: the master secret is shared by reference (the exporter closure, the client session cache, the
// ticket state): after it has been derived nothing writes into its bytes.
func c06Immutable(c *Ctx) {
	sharedSliceImmutable(c, "K-C06-master-immutable", "gmtls", "masterSecret", 8,
		"the master secret's bytes are never written after derivation",
		"the exporter closure, the session cache and the ticket state share that slice, so exported keying material and resumed sessions change under the application's feet")
}

// c06Policy: the client-certificate policies that allow a client without certificate do not abort on an empty
// Certificate message (a necessary condition for those configurations to complete): evaluated per policy value
func c06Policy(c *Ctx) {
	rule := "G-C06-policy"
	for _, name := range []string{"(*serverHandshakeState).doFullHandshake", "(*serverHandshakeStateGM).doFullHandshake"} {
		f := c.Fn("gmtls", name)
		if f == nil {
			c.Missing(rule, "gmtls."+name, "method", "not found")
			continue
		}
		spec, _ := defaultResultSpec(f)
		ee := emptyCertListEdges(f)
		if len(ee) != 1 {
			c.Undecided(rule, fname(f), "the test for an empty client certificate list", fmt.Sprintf("%d tests found", len(ee)), f.Pos())
			continue
		}
		for _, pol := range []string{"RequestClientCert", "VerifyClientCertIfGiven"} {
			k, okc := pkgConst(c, "gmtls", pol)
			if !okc {
				c.Missing(rule, "gmtls."+pol, "constant", "not found")
				continue
			}
			c.Evals++
			var r bool
			assumeFieldValue("ClientAuth", k, func() {
				cutE := fieldValueCut(f, "ClientAuth", k)
				for _, sblk := range ee[0].from.Succs {
					if sblk != ee[0].to {
						cutE[edge{ee[0].from, sblk}] = true
					}
				}
				r, _ = canReachSuccess(f.Blocks[0], nil, successExits(f, spec), cutE)
			})
			c.Check(r, rule, fname(f), "a client without certificate can complete under "+pol, "", "with ClientAuth == "+pol+" every path after an empty Certificate message aborts: a configuration the policy allows never completes", f.Pos())
		}
	}
}

// c06PHash: P_hash (RFC 5246 section 5, used by every TLS and GMSSL PRF): A(0) = seed, A(i) = HMAC(secret, A(i-1)),
// output block i = HMAC(secret, A(i) || seed). Decided on the sequence of Reset/Write/Sum calls on the HMAC object:
// what is written before each Sum, where each Sum result goes, and that the two Sum results of one round do not
// share a destination buffer (otherwise A(i) is overwritten by the output block before A(i+1) is derived).
func c06PHash(c *Ctx) {
	rule := "K-C06-phash"
	f := c.Fn("gmtls", "pHash")
	if f == nil {
		c.Missing(rule, "gmtls.pHash", "function", "not found")
		return
	}
	var seed, result ssa.Value
	for _, p := range f.Params {
		switch pname(p) {
		case "seed":
			seed = p
		case "result":
			result = p
		}
	}
	type rec struct {
		writes []string
		dest   ssa.Value
		sum    *ssa.Call
	}
	var recs []rec
	name := func(v ssa.Value) string {
		if v == seed {
			return "seed"
		}
		if _, ok := v.(*ssa.Phi); ok {
			return "A"
		}
		return "?"
	}
	for _, b := range f.Blocks {
		var cur []string
		known := b == f.Blocks[0]
		for _, in := range b.Instrs {
			call, ok := in.(*ssa.Call)
			if !ok {
				continue
			}
			if sc := call.Call.StaticCallee(); sc != nil && sc.String() == "crypto/hmac.New" {
				cur, known = nil, true
				continue
			}
			if !call.Call.IsInvoke() {
				continue
			}
			switch call.Call.Method.Name() {
			case "Reset":
				cur, known = nil, true
			case "Write":
				cur = append(cur, name(call.Call.Args[0]))
			case "Sum":
				if !known {
					cur = append([]string{"?state"}, cur...)
				}
				recs = append(recs, rec{append([]string(nil), cur...), call.Call.Args[0], call})
			}
		}
	}
	if len(recs) != 3 {
		c.Undecided(rule, fname(f), "HMAC invocations", fmt.Sprintf("%d Sum calls found, expected 3 (A(0), output block, next A)", len(recs)), f.Pos())
		return
	}
	var a0, out, next *rec
	for i := range recs {
		switch strings.Join(recs[i].writes, ",") {
		case "seed":
			a0 = &recs[i]
		case "A,seed":
			out = &recs[i]
		case "A":
			next = &recs[i]
		}
	}
	c.Evals++
	c.Check(a0 != nil && out != nil && next != nil, rule, fname(f), "A(1) = HMAC(seed), block = HMAC(A || seed), next A = HMAC(A)", "", fmt.Sprintf("the HMAC inputs are %v, %v, %v", recs[0].writes, recs[1].writes, recs[2].writes), f.Pos())
	if a0 == nil || out == nil || next == nil {
		return
	}
	// A is the loop-carried value fed by a0 and next
	c.Evals++
	okPhi := false
	for _, r := range *next.sum.Referrers() {
		if ph, isPhi := r.(*ssa.Phi); isPhi {
			for _, e := range ph.Edges {
				if e == ssa.Value(a0.sum) {
					okPhi = true
				}
			}
		}
	}
	c.Check(okPhi, rule, fname(f), "A is carried round the loop: A(i+1) = HMAC(A(i)) starting from HMAC(seed)", "", "the chaining value written to the HMAC is not the loop-carried result of the previous HMAC(A)", next.sum.Pos())
	// the output block is what gets copied into result
	c.Evals++
	okCopy := false
	for _, r := range *out.sum.Referrers() {
		if cp, isCall := r.(*ssa.Call); isCall {
			if bi, isB := cp.Call.Value.(*ssa.Builtin); isB && bi.Name() == "copy" && cp.Call.Args[1] == ssa.Value(out.sum) {
				root := cp.Call.Args[0]
				for {
					if sl, ok := root.(*ssa.Slice); ok {
						root = sl.X
						continue
					}
					break
				}
				if root == result {
					okCopy = true
				}
			}
		}
	}
	c.Check(okCopy, rule, fname(f), "HMAC(A || seed) is the block copied into the result", "", "the output of HMAC(A || seed) is not what is copied into result", out.sum.Pos())
	// destinations
	c.Evals++
	rootOf := func(v ssa.Value) ssa.Value {
		for {
			switch x := v.(type) {
			case *ssa.Slice:
				v = x.X
				continue
			}
			return v
		}
	}
	shared := !isNilConst(out.dest) && !isNilConst(next.dest) && rootOf(out.dest) == rootOf(next.dest)
	sharedA0 := !isNilConst(a0.dest) && !isNilConst(out.dest) && rootOf(a0.dest) == rootOf(out.dest)
	c.Check(!shared && !sharedA0, rule, fname(f), "the output block and the chaining value do not share a buffer", "", "both HMAC results of a round are appended to the same scratch buffer: the chaining value A(i) aliases it and is overwritten by the next output block before A(i+1) is derived, so every block after the second differs from RFC 5246 P_hash", out.sum.Pos())
}

// c06Clones: the auto-switch server (auto_handshake_server.go) carries copies of the two ClientHello processors. A
// copy consults the configuration through the same helpers as its original (which suite list, which versions, which
// curves, which certificate callback): compared as the set of callees that take the *Config.
func c06Clones(c *Ctx) {
	rule := "T-C06-clones"
	pairs := [][2]string{{"processClientHello", "(*serverHandshakeState).readClientHello"}, {"processClientHelloGM", "(*serverHandshakeStateGM).readClientHello"}}
	for _, p := range pairs {
		a, b := c.Fn("gmtls", p[0]), c.Fn("gmtls", p[1])
		if a == nil || b == nil {
			c.Missing(rule, "gmtls."+p[0]+" / "+p[1], "functions", "not found")
			continue
		}
		cfg := func(f *ssa.Function) map[string]bool {
			m := map[string]bool{}
			for _, ci := range allCalls(f) {
				sc := ci.Common().StaticCallee()
				if sc == nil || !inRepo(sc) {
					continue
				}
				takes := false
				for i := 0; i < sc.Signature.Params().Len(); i++ {
					if strings.HasSuffix(sc.Signature.Params().At(i).Type().String(), "gmtls.Config") {
						takes = true
					}
				}
				if r := sc.Signature.Recv(); r != nil && strings.HasSuffix(r.Type().String(), "gmtls.Config") {
					takes = true
				}
				if takes {
					m[fname(sc)] = true
				}
			}
			return m
		}
		ma, mb := cfg(a), cfg(b)
		var diff []string
		for k := range ma {
			if !mb[k] {
				diff = append(diff, "only the copy calls "+k)
			}
		}
		for k := range mb {
			if !ma[k] {
				diff = append(diff, "only the original calls "+k)
			}
		}
		sort.Strings(diff)
		c.Evals++
		c.Check(len(diff) == 0 && len(ma) >= 3, rule, fname(a), "consults the configuration through the same helpers as "+p[1], fmt.Sprintf("%d helpers", len(ma)), "the auto-switch copy and its original read the configuration differently ("+strings.Join(diff, "; ")+"): the same configuration negotiates differently depending on which server entry point is used", a.Pos())
	}
}

// c06Fragment: writeRecordLocked cuts the payload into records without losing, repeating or reordering a byte: in
// each round the SAME length m (at most the remaining data) is what the record header announces, what the block is
// sized for, what is copied from the front of the remaining data, what is added to the returned count and what the
// remaining data is advanced by.
func c06Fragment(c *Ctx) {
	rule := "K-C06-fragment"
	f := c.Fn("gmtls", "(*Conn).writeRecordLocked")
	if f == nil {
		c.Missing(rule, "gmtls.(*Conn).writeRecordLocked", "method", "not found")
		return
	}
	var dataParam ssa.Value
	for _, p := range f.Params {
		if pname(p) == "data" {
			dataParam = p
		}
	}
	// the loop-carried remaining data: phi(data, rest) with rest = phi[m:]
	var rem *ssa.Phi
	var adv *ssa.Slice
	instrsOf(f, func(_ *ssa.BasicBlock, in ssa.Instruction) {
		ph, ok := in.(*ssa.Phi)
		if !ok || len(ph.Edges) != 2 || rem != nil {
			return
		}
		for i, e := range ph.Edges {
			if e == dataParam {
				if sl, ok := ph.Edges[1-i].(*ssa.Slice); ok && sl.X == ssa.Value(ph) && sl.High == nil && sl.Low != nil {
					rem, adv = ph, sl
				}
			}
		}
	})
	if rem == nil {
		c.Undecided(rule, fname(f), "the loop over the remaining data", "no loop-carried `data = data[m:]` found", f.Pos())
		return
	}
	m := adv.Low
	lb := &LB{p: c.P, f: f, UsedContracts: map[string]bool{}}
	// (1) 0 <= m <= len(remaining)
	c.Evals++
	ok1 := lb.prove([]cons{le(lb.linOf(m), lb.lenLin(rem))}, adv.Block(), nil, map[lvar]lin{}, 2)
	c.Check(ok1, rule, fname(f), "the fragment length is at most the remaining data", "", "not provable that m <= len(data) where the remaining data is advanced by m", adv.Pos())
	// (2) the header announces m: b.data[3] = byte(m>>8), b.data[4] = byte(m)
	c.Evals++
	hdr := map[int64]bool{}
	instrsOf(f, func(_ *ssa.BasicBlock, in ssa.Instruction) {
		st, ok := in.(*ssa.Store)
		if !ok {
			return
		}
		ia, ok := st.Addr.(*ssa.IndexAddr)
		if !ok {
			return
		}
		k, isK := constInt(ia.Index)
		if !isK || (k != 3 && k != 4) {
			return
		}
		cv, ok := st.Val.(*ssa.Convert)
		if !ok {
			return
		}
		switch k {
		case 4:
			if cv.X == m {
				hdr[4] = true
			}
		case 3:
			if sh, ok := cv.X.(*ssa.BinOp); ok && sh.Op == token.SHR && sh.X == m {
				if s, isS := constInt(sh.Y); isS && s == 8 {
					hdr[3] = true
				}
			}
		}
	})
	c.Check(hdr[3] && hdr[4], rule, fname(f), "the record header's length field is m", "", "the two length bytes of the record header are not byte(m>>8), byte(m) for the m the data is advanced by", adv.Pos())
	// (3) the block is sized 5 + explicitIVLen + m and the payload copied behind header and IV from the remaining data
	c.Evals++
	okSize, okCopy := false, false
	var ivLen lin
	for _, call := range callsNamedIn(f, "resize") {
		if len(call.Call.Args) == 2 {
			d := lb.linOf(call.Call.Args[1]).addScaled(lb.linOf(m), -1)
			// d = 5 + explicitIVLen
			if d.k == 5 && len(d.c) <= 1 {
				okSize = true
				ivLen = d
			}
		}
	}
	if okSize {
		instrsOf(f, func(_ *ssa.BasicBlock, in ssa.Instruction) {
			call, ok := in.(*ssa.Call)
			if !ok {
				return
			}
			bi, ok := call.Call.Value.(*ssa.Builtin)
			if !ok || bi.Name() != "copy" || call.Call.Args[1] != ssa.Value(rem) {
				return
			}
			if sl, ok := call.Call.Args[0].(*ssa.Slice); ok && sl.Low != nil && sl.High == nil {
				d := lb.linOf(sl.Low).addScaled(ivLen, -1)
				if len(d.c) == 0 && d.k == 0 {
					okCopy = true
				}
			}
		})
	}
	c.Check(okSize && okCopy, rule, fname(f), "the block holds header + explicit IV + m bytes and the payload is copied from the front of the remaining data", "", fmt.Sprintf("block size is 5+explicitIVLen+m: %v; payload copied to b.data[5+explicitIVLen:] from the remaining data: %v", okSize, okCopy), adv.Pos())
	// (4) the returned count advances by m
	c.Evals++
	okN := false
	instrsOf(f, func(_ *ssa.BasicBlock, in ssa.Instruction) {
		ph, ok := in.(*ssa.Phi)
		if !ok || ph.Block() != rem.Block() || ph == rem {
			return
		}
		for _, e := range ph.Edges {
			if add, ok := e.(*ssa.BinOp); ok && add.Op == token.ADD && ((add.X == ssa.Value(ph) && add.Y == m) || (add.Y == ssa.Value(ph) && add.X == m)) {
				// and it is what the function returns (directly, or through the result slot that a deferred call forces)
				for _, r := range *ph.Referrers() {
					switch x := r.(type) {
					case *ssa.Return:
						okN = true
					case *ssa.Store:
						if _, isAl := x.Addr.(*ssa.Alloc); isAl && x.Val == ssa.Value(ph) {
							okN = true
						}
					}
				}
			}
		}
	})
	c.Check(okN, rule, fname(f), "the returned byte count is the sum of the fragment lengths", "", "the count returned on success is not the loop-carried sum of m", adv.Pos())
}

// c06Deliver: (*block).Read hands out the not-yet-delivered part of a decrypted record exactly once: it copies from
// data[off:], advances off by the number of bytes copied and returns that number; readRecord sets off to the
// length of header + explicit IV that decrypt reports.
func c06Deliver(c *Ctx) {
	rule := "K-C06-deliver"
	f := c.Fn("gmtls", "(*block).Read")
	if f == nil {
		c.Missing(rule, "gmtls.(*block).Read", "method", "not found")
		return
	}
	isField := func(v ssa.Value, name string) bool {
		ld, ok := v.(*ssa.UnOp)
		if !ok || ld.Op != token.MUL {
			return false
		}
		fa, ok := ld.X.(*ssa.FieldAddr)
		return ok && fieldName(fa.X.Type(), fa.Field) == name && fa.X == ssa.Value(f.Params[0])
	}
	var cp *ssa.Call
	instrsOf(f, func(_ *ssa.BasicBlock, in ssa.Instruction) {
		if call, ok := in.(*ssa.Call); ok {
			if bi, ok := call.Call.Value.(*ssa.Builtin); ok && bi.Name() == "copy" {
				cp = call
			}
		}
	})
	c.Evals++
	okCopy := false
	if cp != nil && cp.Call.Args[0] == ssa.Value(f.Params[1]) {
		if sl, ok := cp.Call.Args[1].(*ssa.Slice); ok && sl.High == nil && isField(sl.X, "data") && sl.Low != nil && isField(sl.Low, "off") {
			okCopy = true
		}
	}
	c.Check(okCopy, rule, fname(f), "copies from data[off:] into the caller's buffer", "", "block.Read does not copy(p, b.data[b.off:])", f.Pos())
	c.Evals++
	okAdv := false
	instrsOf(f, func(_ *ssa.BasicBlock, in ssa.Instruction) {
		st, ok := in.(*ssa.Store)
		if !ok {
			return
		}
		fa, ok := st.Addr.(*ssa.FieldAddr)
		if !ok || fieldName(fa.X.Type(), fa.Field) != "off" {
			return
		}
		if add, ok := st.Val.(*ssa.BinOp); ok && add.Op == token.ADD && cp != nil && ((isField(add.X, "off") && add.Y == ssa.Value(cp)) || (isField(add.Y, "off") && add.X == ssa.Value(cp))) {
			okAdv = true
		}
	})
	okRet := false
	for _, b := range f.Blocks {
		if ret, ok := b.Instrs[len(b.Instrs)-1].(*ssa.Return); ok && len(ret.Results) == 2 && cp != nil && unspill(ret.Results[0]) == ssa.Value(cp) && isNilConst(unspill(ret.Results[1])) {
			okRet = true
		}
	}
	c.Check(okAdv && okRet, rule, fname(f), "advances off by the number of bytes copied and returns it", "", fmt.Sprintf("off += n with n the copy count: %v; returns (n, nil): %v", okAdv, okRet), f.Pos())
	// readRecord: b.off = the prefix length returned by decrypt, before the block becomes c.input
	rr := c.Fn("gmtls", "(*Conn).readRecord")
	if rr == nil {
		return
	}
	c.Evals++
	okOff := false
	for _, call := range callsNamedIn(rr, "decrypt") {
		for _, r := range *call.Referrers() {
			ex, ok := r.(*ssa.Extract)
			if !ok || ex.Index != 1 {
				continue
			}
			for _, r2 := range *ex.Referrers() {
				if st, ok := r2.(*ssa.Store); ok {
					if fa, ok := st.Addr.(*ssa.FieldAddr); ok && fieldName(fa.X.Type(), fa.Field) == "off" {
						okOff = true
					}
				}
			}
		}
	}
	c.Check(okOff, rule, fname(rr), "delivery starts behind the record header and explicit IV reported by decrypt", "", "readRecord does not set b.off to decrypt's prefix length", rr.Pos())
}

// c06MsgBytes: the byte-slice fields of a parsed handshake message (clientHelloMsg.sessionTicket, random, ...) are
// sub-slices of the message's raw bytes, and the raw bytes are what both sides feed into the Finished / signature
// transcript. A callee that writes through a byte-slice parameter (write-effect summary: decryptTicket decrypts in
// place) must therefore never be handed such a field directly — only a private copy.
func c06MsgBytes(c *Ctx) {
	rule := "FX-C06-msgbytes"
	fx := getFX(c)
	n := 0
	isMsgField := func(v ssa.Value) (string, bool) {
		ld, ok := v.(*ssa.UnOp)
		if !ok || ld.Op != token.MUL {
			return "", false
		}
		fa, ok := ld.X.(*ssa.FieldAddr)
		if !ok {
			return "", false
		}
		pt, ok := fa.X.Type().Underlying().(*types.Pointer)
		if !ok {
			return "", false
		}
		nt, ok := pt.Elem().(*types.Named)
		if !ok || !strings.HasSuffix(nt.Obj().Name(), "Msg") && !strings.HasSuffix(nt.Obj().Name(), "MsgGM") {
			return "", false
		}
		return nt.Obj().Name() + "." + fieldName(fa.X.Type(), fa.Field), true
	}
	for f := range c.P.AllFns {
		if !inRepo(f) || f.Pkg == nil || f.Pkg.Pkg.Name() != "gmtls" || f.Blocks == nil || strings.HasSuffix(c.P.relFile(f.Pos()), "_test.go") {
			continue
		}
		for _, ci := range allCalls(f) {
			sc := ci.Common().StaticCallee()
			if sc == nil || !inRepo(sc) || sc.Blocks == nil {
				continue
			}
			w := fx.Writes(sc)
			if len(w) == 0 {
				continue
			}
			args := ci.Common().Args
			for i, a := range args {
				if !isByteSlice(a.Type()) || i >= len(sc.Params) {
					continue
				}
				wit, written := w[root{Kind: rkParam, Idx: i}]
				if !written {
					continue
				}
				n++
				name, isField := isMsgField(a)
				c.Check(!isField, rule, fname(f), fmt.Sprintf("argument %d of %s is not a field of a parsed handshake message", i, fname(sc)), "",
					fname(sc)+" writes through this parameter ("+fx.describe(root{Kind: rkParam, Idx: i}, wit)+") and is given "+name+", which aliases the raw handshake message that enters the Finished transcript: the transcript is corrupted after the call", ci.Pos())
			}
		}
	}
	if n < 2 {
		c.Undecided(rule, "gmtls", "calls that write a byte-slice argument", fmt.Sprintf("only %d found", n), token.NoPos)
	}
}

// c06MaxPayload: the dynamic record sizing never asks for more than maxPlaintext (2^14) bytes per record — every value
// returned by maxPayloadSizeForWrite is proved <= 16384 by the bounds prover (the arithmetic progression is clamped).
// A larger fragment is a record the peer must answer with record_overflow, so a large Write fails mid-stream.
func c06MaxPayload(c *Ctx) {
	rule := "K-C06-fragment"
	f := c.Fn("gmtls", "(*Conn).maxPayloadSizeForWrite")
	if f == nil {
		c.Undecided(rule, "gmtls.(*Conn).maxPayloadSizeForWrite", "payload limit", "function not found (record sizing is done elsewhere)", token.NoPos)
		return
	}
	lb := &LB{p: c.P, f: f, UsedContracts: map[string]bool{}}
	n := 0
	for _, b := range f.Blocks {
		ret, ok := b.Instrs[len(b.Instrs)-1].(*ssa.Return)
		if !ok || len(ret.Results) != 1 {
			continue
		}
		n++
		c.Evals++
		ok2 := lb.prove([]cons{le(lb.linOf(ret.Results[0]), linConst(16384))}, b, nil, map[lvar]lin{}, 3)
		c.Check(ok2, rule, fname(f), fmt.Sprintf("returned payload size #%d is at most maxPlaintext", n), "", "not provable that the returned maximum payload is <= 16384 (maxPlaintext): a record larger than 2^14 bytes can be cut from a large Write, which every conforming peer rejects with record_overflow", ret.Pos())
	}
	if n == 0 {
		c.Undecided(rule, fname(f), "payload limit", "no return found", f.Pos())
	}
}

// c06RecordLimit: the receiving side refuses a record as too long only beyond maxCiphertext (2^14 + 2048, RFC 5246
// 6.2.3): the test that leads to the record_overflow alert compares the announced length with a constant of at
// least that size. A tighter, computed bound has to add up every per-record overhead of every suite (explicit IV, MAC,
// padding, nonce, tag) to be right; one term missing and full-size records of that suite are rejected mid-stream.
func c06RecordLimit(c *Ctx) {
	rule := "K-C06-fragment"
	f := c.Fn("gmtls", "(*Conn).readRecord")
	if f == nil {
		c.Missing(rule, "gmtls.(*Conn).readRecord", "method", "not found")
		return
	}
	k22, ok22 := pkgConst(c, "gmtls", "alertRecordOverflow")
	n := 0
	for _, ci := range allCalls(f) {
		call, ok := ci.(*ssa.Call)
		if !ok || !calleeNamed(call, "sendAlert") || len(call.Call.Args) < 2 {
			continue
		}
		if k, isK := constInt(call.Call.Args[1]); !isK || !ok22 || k != k22 {
			continue
		}
		// the branch that leads here
		for d := call.Block(); d != nil && d.Idom() != nil; d = d.Idom() {
			x := d.Idom()
			ifi, isIf := lastIf(x)
			if !isIf || x.Succs[0] != d || len(d.Preds) != 1 {
				continue
			}
			bo, isBo := ifi.Cond.(*ssa.BinOp)
			if !isBo || (bo.Op != token.GTR && bo.Op != token.GEQ) {
				break
			}
			n++
			lim, isK := constInt(bo.Y)
			need := int64(16384 + 2048)
			if isLenOf(bo.X, func(ssa.Value) bool { return true }) {
				need = 16384 // the length of the decrypted payload: maxPlaintext
			}
			if bo.Op == token.GEQ {
				need++
			}
			if !isK {
				c.ViolatedHard(rule, fname(f), fmt.Sprintf("records up to the protocol limit are not refused as too long #%d", n), "the record_overflow test compares the record length with a computed bound, not with the protocol constant (2^14+2048 for records, 2^14 for payloads): nothing shows that it adds up every overhead of every suite, and one missing term (the explicit CBC IV, for instance) rejects the peer's full-size records", ifi.Cond.Pos())
				break
			}
			c.Check(isK && lim >= need, rule, fname(f), fmt.Sprintf("records up to the protocol limit are not refused as too long #%d", n), fmt.Sprintf("limit %d", lim), "the record_overflow test does not compare the record length with a constant of at least 2^14+2048: a computed per-suite bound that leaves out one overhead term (the explicit CBC IV, for instance) rejects the peer's full-size records", ifi.Cond.Pos())
			break
		}
	}
	if n == 0 {
		c.Undecided(rule, fname(f), "record length limit", "no length test leading to the record_overflow alert found", f.Pos())
	}
}
