package main

// C15 — a misbehaving handshake peer gets an error: never completion, a crash or a hang

import (
	"fmt"
	"go/token"
	"sort"

	"golang.org/x/tools/go/ssa"
)

func init() { register("C15", checkC15) }

var c15Roots = []string{"(*Conn).Handshake", "(*Conn).clientHandshake", "(*Conn).serverHandshake", "(*Conn).readRecord", "(*Conn).readHandshake"}

// files outside the handshake surface: primitives and the decoders that C18 already covers
var c15StopFiles = map[string]string{
	"sm2/p256.go": "curve arithmetic (C03)", "sm3/sm3.go": "hash core (C04)", "sm4/sm4.go": "cipher core (C05)", "sm4/sm4_gcm.go": "GCM (C12)",
}

func c15Scope(c *Ctx) []*ssa.Function {
	seen := map[*ssa.Function]bool{}
	var order []*ssa.Function
	cg := c.P.VTA()
	var walk func(*ssa.Function)
	walk = func(g *ssa.Function) {
		if g == nil || seen[g] || g.Blocks == nil || !inRepo(g) {
			return
		}
		if _, stop := c15StopFiles[c.P.relFile(g.Pos())]; stop {
			return
		}
		seen[g] = true
		order = append(order, g)
		for _, ci := range allCalls(g) {
			walk(ci.Common().StaticCallee())
		}
		if n := cg.Nodes[g]; n != nil {
			for _, e := range n.Out {
				walk(e.Callee.Func)
			}
		}
		for _, a := range g.AnonFuncs {
			walk(a)
		}
	}
	for _, n := range c15Roots {
		f := c.Fn("gmtls", n)
		if f == nil {
			c.Missing("B-PANIC", "gmtls."+n, "handshake entry point", "not found")
			continue
		}
		walk(f)
	}
	sort.Slice(order, func(i, j int) bool { return fname(order[i]) < fname(order[j]) })
	return order
}

func checkC15(c *Ctx) {
	getFX(c)
	scope := c15Scope(c)
	c.Notes = append(c.Notes, fmt.Sprintf("handshake closure: %d functions", len(scope)))
	byPkg := map[string]int{}
	for _, f := range scope {
		if f.Pkg != nil {
			byPkg[rel(f.Pkg.Pkg.Path())]++
		} else if f.Parent() != nil && f.Parent().Pkg != nil {
			byPkg[rel(f.Parent().Pkg.Pkg.Path())]++
		}
	}
	dbg("C15 scope by package: %v", byPkg)
	st := bidx(c, "B-IDX", scope, map[string]string{})
	c.Notes = append(c.Notes, fmt.Sprintf("B-IDX: %d sites, %d compiler, %d LinBounds, %d unproven", st.sites, st.compiler, st.lin, st.unproved))
	c18Panics(c, scope)
	_ = token.NoPos
}
