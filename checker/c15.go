package main

// C15 — a misbehaving handshake peer gets an error: never completion, a crash or a hang

import (
	"fmt"
	"go/token"
	"sort"
	"strings"

	"golang.org/x/tools/go/ssa"
)

func init() { register("C15", checkC15) }

var c15Roots = []string{"(*Conn).Handshake", "(*Conn).clientHandshake", "(*Conn).serverHandshake", "(*Conn).readRecord", "(*Conn).readHandshake"}

// files outside the handshake surface: primitives and the decoders that C18 already covers
var c15StopFiles = map[string]string{
	"sm2/p256.go": "curve arithmetic (C03)", "sm3/sm3.go": "hash core (C04)", "sm4/sm4.go": "cipher core (C05)", "sm4/sm4_gcm.go": "GCM (C12)",
}

func c15Scope(c *Ctx) []*ssa.Function {
	seen := map[*ssa.Function]bool{}
	var order []*ssa.Function
	cg := c.P.VTA()
	var walk func(*ssa.Function)
	walk = func(g *ssa.Function) {
		if g == nil || seen[g] || g.Blocks == nil || !inRepo(g) {
			return
		}
		if _, stop := c15StopFiles[c.P.relFile(g.Pos())]; stop {
			return
		}
		seen[g] = true
		order = append(order, g)
		for _, ci := range allCalls(g) {
			walk(ci.Common().StaticCallee())
		}
		if n := cg.Nodes[g]; n != nil {
			for _, e := range n.Out {
				walk(e.Callee.Func)
			}
		}
		for _, a := range g.AnonFuncs {
			walk(a)
		}
	}
	for _, n := range c15Roots {
		f := c.Fn("gmtls", n)
		if f == nil {
			c.Missing("B-PANIC", "gmtls."+n, "handshake entry point", "not found")
			continue
		}
		walk(f)
	}
	sort.Slice(order, func(i, j int) bool { return fname(order[i]) < fname(order[j]) })
	return order
}

func checkC15(c *Ctx) {
	c.Decided = append(c.Decided,
		"G-C15-msgtype / G-C15-readerr: after every readHandshake, no successful return is reachable unless the message passed a comma-ok assertion to an expected type, and a failed read is returned",
		"G-C15-err: in the handshake functions and every method of the four handshake state types, no path on which a step's error is non-nil reaches a successful return (errors are tracked through joins); dropped errors only for alerts, never-failing callees, the sticky-read idiom and fully unused calls",
		"G-C15-complete: handshakeStatus is set on every successful return of the handshake functions and nothing can fail afterwards (so Conn.Handshake's consistency panic is dead)",
		"B-PANIC: every explicit panic and single-value type assertion in the VTA closure of Handshake/readRecord/readHandshake is unreachable by a named rule (K-C15-suites, K-C15-version, K-C15-finhash, call-site preconditions) or exempted by name with the invariant",
		"K-C15-suites: key, IV and MAC lengths of every cipher-suite row fit its constructors; cipher constructors return CBC modes or RC4 only",
		"K-C15-version: mutualVersion accepts only implemented versions and Conn.vers is only ever assigned such a version",
		"K-C15-finhash: every finishedHash that can be used below TLS 1.2 (GMSSL included) has its MD5 pair",
		"B-IDX: index/slice sites of the key-exchange message parsers, readHandshake and the unmarshal method of every handshake message")
	c.NotDec = append(c.NotDec, "liveness against a silent peer (depends on the transport's deadlines)", "bounds inside the record layer's block buffers (conn.go block/halfConn arithmetic)", "the order of handshake messages beyond the per-step type checks (follows from the straight-line flights)")
	getFX(c)
	scope := c15Scope(c)
	c.Notes = append(c.Notes, fmt.Sprintf("handshake closure: %d functions", len(scope)))
	byPkg := map[string]int{}
	for _, f := range scope {
		if f.Pkg != nil {
			byPkg[rel(f.Pkg.Pkg.Path())]++
		} else if f.Parent() != nil && f.Parent().Pkg != nil {
			byPkg[rel(f.Parent().Pkg.Pkg.Path())]++
		}
	}
	dbg("C15 scope by package: %v", byPkg)
	// bounds: the parsers of peer messages that C18's decoder closure does not already cover
	var parsers []*ssa.Function
	for _, n := range []string{"(*eccKeyAgreementGM).processClientKeyExchange", "(*eccKeyAgreementGM).processServerKeyExchange", "(*ecdheKeyAgreementGM).processServerKeyExchange",
		"rsaKeyAgreement.processClientKeyExchange", "(*ecdheKeyAgreement).processClientKeyExchange", "(*ecdheKeyAgreement).processServerKeyExchange", "(*Conn).readHandshake"} {
		if f := c.Fn("gmtls", n); f != nil {
			parsers = append(parsers, f)
		} else {
			c.Missing("B-IDX", "gmtls."+n, "peer message parser", "not found")
		}
	}
	// ... and the unmarshal methods of every handshake message (the same sites are obligations of C18; a crash here
	// is a crash of the handshake, so they are obligations of this property too)
	nUn := 0
	for _, f := range c.P.RepoFuncs("gmtls") {
		if f.Name() == "unmarshal" && f.Signature.Recv() != nil && strings.HasSuffix(f.Signature.Recv().Type().String(), "Msg") && !strings.HasSuffix(c.P.relFile(f.Pos()), "_test.go") {
			parsers = append(parsers, f)
			nUn++
		}
	}
	if nUn < 12 {
		c.Undecided("B-IDX", "gmtls", "handshake message unmarshal methods", fmt.Sprintf("only %d found", nUn), token.NoPos)
	}
	lbOvfMode = true
	twoPass := "second pass of a two-pass parse: the first loop walked the same slice from the same start with the same length arithmetic, rejected every inconsistent length and counted the entries; the second loop repeats exactly that many steps (a relation between two loops, outside the per-site prover)"
	st := bidx(c, "B-IDX", parsers, map[string]string{
		"B-IDX|(*gmtls.certificateMsg).unmarshal|@second-pass":                                                                                                                      twoPass,
		"B-IDX|(*gmtls.certificateMsg).unmarshal|index ?phi1[0] #2":                                                                                                                 twoPass,
		"B-IDX|(*gmtls.certificateMsg).unmarshal|index ?phi1[1] #2":                                                                                                                 twoPass,
		"B-IDX|(*gmtls.certificateMsg).unmarshal|index ?phi1[2] #2":                                                                                                                 twoPass,
		"B-IDX|(*gmtls.certificateMsg).unmarshal|slice ?phi4[3:or(idx(?phi3,2),shl(idx(?phi1,0),0x10),shl(idx(?phi2,1),0x8))+3] #1":                                                 twoPass,
		"B-IDX|(*gmtls.certificateMsg).unmarshal|slice ?phi4[or(idx(?phi3,2),shl(idx(?phi1,0),0x10),shl(idx(?phi2,1),0x8))+3:] #2":                                                  twoPass,
		"B-IDX|(*gmtls.ecdheKeyAgreement).processClientKeyExchange|slice ?*ssa.MakeSlice[-1*len(call:(*math/big.Int).Bytes(extract0(call:invoke crypto/elliptic.Curve.ScalarMult(*": "x is a coordinate returned by Curve.ScalarMult, a field element below p, so len(x.Bytes()) <= (BitSize+7)/8 (a fact about curve arithmetic, not about the input)",
		"B-IDX|(*gmtls.Conn).readHandshake|index call:(*bytes.Buffer).Next(field:hand(c),add(0x4,*":                                                                                 "the preceding loop reads records until c.hand.Len() >= 4+n, and bytes.Buffer.Next(4+n) then returns exactly that many bytes (the prover does not model the buffer's length)",
	})
	lbOvfMode = false
	c.Notes = append(c.Notes, fmt.Sprintf("B-IDX: %d sites, %d compiler, %d LinBounds, %d unproven", st.sites, st.compiler, st.lin, st.unproved))
	c15PeerIndexed(c, scope, parsers)
	c15WarnLoop(c)
	c15NoDrop(c)
	c08ClientAuth(c) // an omitted or empty client Certificate message under a requiring policy aborts
	c15Compression(c)
	c06Suite(c) // "unsupported versions, suites": a suite or version the endpoint did not offer is refused
	c15MsgType(c, scope)
	before := len(c.Obls)
	c15Complete(c, scope)
	completeOK := true
	for _, o := range c.Obls[before:] {
		if o.Rule == "G-C15-complete" && o.Verdict != "holds" {
			completeOK = false
		}
	}
	suitesOK := c15Suites(c)
	versionOK := c15Version(c, scope)
	c15FinishedHash(c)
	c15Phase(c)
	c15Panics(c, scope, completeOK, suitesOK, versionOK)
	_ = token.NoPos
}

// phiClosure: values that may carry v (through phis and interface conversions)
func phiClosure(v ssa.Value) map[ssa.Value]bool {
	out := map[ssa.Value]bool{}
	var walk func(x ssa.Value)
	walk = func(x ssa.Value) {
		if out[x] || x.Referrers() == nil {
			return
		}
		out[x] = true
		for _, u := range *x.Referrers() {
			switch y := u.(type) {
			case *ssa.Phi:
				walk(y)
			case *ssa.ChangeInterface:
				walk(y)
			}
		}
	}
	walk(v)
	return out
}

// c15MsgType: after readHandshake, no successful return is reachable unless the message passed a comma-ok
// type assertion to an expected type (G-C15-msgtype), and a failed read is an error (G-C15-readerr).
func c15MsgType(c *Ctx, scope []*ssa.Function) {
	n := 0
	for _, f := range scope {
		spec, has := defaultResultSpec(f)
		ord := 0
		for _, ci := range allCalls(f) {
			call, ok := ci.(*ssa.Call)
			if !ok || !calleeNamed(call, "readHandshake") {
				continue
			}
			ord++
			n++
			c.Evals++
			if !has || spec.kind != "error" {
				c.Undecided("G-C15-msgtype", fname(f), fmt.Sprintf("readHandshake #%d", ord), "function has no error result", call.Pos())
				continue
			}
			// (a) the read error is returned
			g := evalReject(c.P, f, errCheckAtomsPhi(f, func(cl *ssa.Call) bool { return cl == call }, "readHandshake error"), spec)
			c.Check(g.OK, "G-C15-readerr", fname(f), fmt.Sprintf("readHandshake #%d error is returned", ord), g.Why, "a failed or truncated read must abort the handshake: "+g.Why, call.Pos())
			// (b) the message type is checked
			var msg ssa.Value
			for _, u := range *call.Referrers() {
				if ex, ok := u.(*ssa.Extract); ok && ex.Index == 0 {
					msg = ex
				}
			}
			if msg == nil {
				c.Violated("G-C15-msgtype", fname(f), fmt.Sprintf("readHandshake #%d message type is checked", ord), "the message is discarded without looking at its type", call.Pos())
				continue
			}
			cl := phiClosure(msg)
			cut := map[edge]bool{}
			nAssert := 0
			bad := ""
			for v := range cl {
				for _, u := range *v.Referrers() {
					ta, ok := u.(*ssa.TypeAssert)
					if !ok || ta.X != v {
						continue
					}
					nAssert++
					if !ta.CommaOk {
						bad = "a single-value type assertion at " + c.P.pos(ta.Pos()) + " panics for an unexpected message"
						continue
					}
					// the ok flag and the Ifs testing it
					for _, u2 := range *ta.Referrers() {
						ex, ok := u2.(*ssa.Extract)
						if !ok || ex.Index != 1 {
							continue
						}
						for okv := range phiClosure(ex) {
							for _, u3 := range *okv.Referrers() {
								switch y := u3.(type) {
								case *ssa.If:
									{
										b := y.Block()
										// which successor is "matched"?
										cur := y.Cond
										neg := false
										for {
											if un, ok := cur.(*ssa.UnOp); ok && un.Op == token.NOT {
												neg = !neg
												cur = un.X
												continue
											}
											break
										}
										if cur == okv {
											if neg {
												cut[edge{b, b.Succs[1]}] = true
											} else {
												cut[edge{b, b.Succs[0]}] = true
											}
										}
									}
								}
							}
						}
					}
				}
			}
			construct := fmt.Sprintf("readHandshake #%d message type is checked", ord)
			if bad != "" {
				c.Violated("G-C15-msgtype", fname(f), construct, bad, call.Pos())
				continue
			}
			if nAssert == 0 {
				// the message is handed on (returned or passed to a callee that asserts it)
				c.Holds("G-C15-msgtype", fname(f), construct, "the message is not interpreted here (handed to the caller)", call.Pos())
				continue
			}
			ex := successExits(f, spec)
			bypass := false
			where := ""
			for _, s := range call.Block().Succs {
				e := edge{call.Block(), s}
				if cut[e] {
					continue
				}
				if r, w := canReachSuccess(s, &e, ex, cut); r {
					bypass = true
					where = "a successful return at " + c.P.pos(lastPos(w)) + " is reachable without any assertion succeeding"
				}
			}
			c.Check(!bypass, "G-C15-msgtype", fname(f), construct, fmt.Sprintf("%d comma-ok assertions; no successful return without a match", nAssert), "a message of an unexpected type does not abort the handshake: "+where, call.Pos())
		}
	}
	if n < 25 {
		c.Undecided("G-C15-msgtype", "handshake closure", "readHandshake call sites", fmt.Sprintf("only %d found (expected at least 25)", n), token.NoPos)
	}
}

// isStatusStore: atomic.StoreUint32(&c.handshakeStatus, 1)
func isStatusStore(in ssa.Instruction) bool {
	call, ok := in.(*ssa.Call)
	if !ok || calleeID(&call.Call) != "sync/atomic.StoreUint32" || len(call.Call.Args) != 2 {
		return false
	}
	fa, ok := call.Call.Args[0].(*ssa.FieldAddr)
	if !ok || fieldName(fa.X.Type(), fa.Field) != "handshakeStatus" {
		return false
	}
	k, ok := constInt(call.Call.Args[1])
	return ok && k == 1
}

// c15Complete: the handshake is marked complete exactly on the paths that return success.
func c15Complete(c *Ctx, scope []*ssa.Function) {
	n := 0
	for _, f := range scope {
		var stores []ssa.Instruction
		instrsOf(f, func(_ *ssa.BasicBlock, in ssa.Instruction) {
			if isStatusStore(in) {
				stores = append(stores, in)
			}
		})
		if len(stores) == 0 {
			continue
		}
		n++
		c.Evals++
		spec, has := defaultResultSpec(f)
		if !has || spec.kind != "error" {
			c.Undecided("G-C15-complete", fname(f), "completion mark", "function has no error result", f.Pos())
			continue
		}
		ex := successExits(f, spec)
		// (i) every successful return has passed the store
		cutBlocks := map[*ssa.BasicBlock]bool{}
		for _, s := range stores {
			cutBlocks[s.Block()] = true
		}
		cut := map[edge]bool{}
		for _, b := range f.Blocks {
			for _, sc := range b.Succs {
				if cutBlocks[sc] {
					cut[edge{b, sc}] = true
				}
			}
		}
		ok1, where := true, ""
		if !cutBlocks[f.Blocks[0]] {
			if r, w := canReachSuccess(f.Blocks[0], nil, ex, cut); r {
				ok1, where = false, c.P.pos(lastPos(w))
			}
		}
		c.Check(ok1, "G-C15-complete", fname(f), "every successful return has marked the handshake complete", "", "a successful return at "+where+" is reachable without setting handshakeStatus (Conn.Handshake panics with 'handshake should have had a result')", stores[0].Pos())
		// (ii) after the mark nothing can fail
		ok2 := true
		where = ""
		for _, s := range stores {
			seen := reach([]*ssa.BasicBlock{s.Block()}, nil)
			for b := range seen {
				if ret, ok := b.Instrs[len(b.Instrs)-1].(*ssa.Return); ok {
					if !ex.blocks[b] {
						isEdgeSuccess := false
						for e := range ex.edges {
							if e.to == b {
								isEdgeSuccess = true
							}
						}
						if !isEdgeSuccess {
							ok2 = false
							where = c.P.pos(ret.Pos())
						}
					}
				}
			}
		}
		c.Check(ok2, "G-C15-complete", fname(f), "no error return after the handshake was marked complete", "", "after handshakeStatus is set the function can still return an error at "+where+": the connection would report a completed handshake that failed", stores[0].Pos())
		// (iii) every step's error is returned
		c15Errors(c, f, spec)
	}
	if n < 4 {
		c.Undecided("G-C15-complete", "handshake closure", "functions that mark completion", fmt.Sprintf("only %d found", n), token.NoPos)
	}
	// the flights themselves: methods of the handshake state types
	for _, f := range scope {
		recv := f.Signature.Recv()
		if recv == nil {
			continue
		}
		rt := recv.Type().String()
		if !strings.HasSuffix(rt, "HandshakeState") && !strings.HasSuffix(rt, "HandshakeStateGM") {
			continue
		}
		spec, has := defaultResultSpec(f)
		if !has || spec.kind != "error" {
			continue
		}
		c15Errors(c, f, spec)
	}
}

var c15DropOK = map[string]string{
	"(*gmtls.Conn).sendAlert":       "best-effort notification of the peer; the caller returns its own error right after",
	"(*gmtls.Conn).sendAlertLocked": "best-effort notification of the peer; the caller returns its own error right after",
}

// c15Errors: in f, the error of every call to a repo function is either returned or tested by a rejecting check
func c15Errors(c *Ctx, f *ssa.Function, spec resultSpec) {
	ord := map[string]int{}
	for _, ci := range allCalls(f) {
		call, ok := ci.(*ssa.Call)
		if !ok {
			continue
		}
		sc := call.Call.StaticCallee()
		if sc == nil || !inRepo(sc) {
			continue
		}
		res := sc.Signature.Results()
		if res.Len() == 0 || !isErrorType(res.At(res.Len()-1).Type()) {
			continue
		}
		name := fname(sc)
		ord[name]++
		construct := fmt.Sprintf("error of %s #%d is returned", name, ord[name])
		c.Evals++
		var errv ssa.Value
		if res.Len() == 1 {
			errv = call
		} else {
			for _, u := range *call.Referrers() {
				if ex, ok := u.(*ssa.Extract); ok && ex.Index == res.Len()-1 {
					errv = ex
				}
			}
		}
		used := errv != nil && errv.Referrers() != nil && len(*errv.Referrers()) > 0
		if used {
			// DebugRef only?
			used = false
			for _, u := range *errv.Referrers() {
				if _, isDbg := u.(*ssa.DebugRef); !isDbg {
					used = true
				}
			}
		}
		if !used && res.Len() > 1 {
			// every result dropped: nothing the handshake goes on to use comes from this call
			anyUsed := false
			for _, u := range *call.Referrers() {
				if ex, ok := u.(*ssa.Extract); ok {
					for _, u2 := range *ex.Referrers() {
						if _, isDbg := u2.(*ssa.DebugRef); !isDbg {
							anyUsed = true
						}
					}
				}
			}
			if !anyUsed {
				c.Holds("G-C15-err", fname(f), construct, "no result of the call is used: it is not a step the handshake depends on", call.Pos())
				continue
			}
		}
		if !used && neverFails(sc) {
			c.Holds("G-C15-err", fname(f), construct, "the callee returns a nil error on every path", call.Pos())
			continue
		}
		if !used && name == "(*gmtls.Conn).readRecord" && stickyErrChecked(call) {
			c.Holds("G-C15-err", fname(f), construct, "the sticky read error c.in.err, which readRecord sets on every failure, is tested right after the call", call.Pos())
			continue
		}
		if !used {
			if why, ok := c15DropOK[name]; ok {
				c.Holds("G-C15-err", fname(f), construct, "dropped by design: "+why, call.Pos())
			} else {
				c.Violated("G-C15-err", fname(f), construct, "the error is discarded: a failing step would not abort the handshake", call.Pos())
			}
			continue
		}
		// returned directly (possibly through the result spill of a function with defer)
		direct := false
		for _, u := range *errv.Referrers() {
			switch y := u.(type) {
			case *ssa.Return:
				direct = true
			case *ssa.Store:
				if al, ok := y.Addr.(*ssa.Alloc); ok {
					for _, u2 := range *al.Referrers() {
						if ld, ok := u2.(*ssa.UnOp); ok {
							for _, u3 := range *ld.Referrers() {
								if _, ok := u3.(*ssa.Return); ok {
									direct = true
								}
							}
						}
					}
				}
			}
		}
		if direct {
			c.Holds("G-C15-err", fname(f), construct, "returned to the caller", call.Pos())
			continue
		}
		where := nonNilReachesSuccess(c.P, f, call, errv, spec)
		c.Check(where == "", "G-C15-err", fname(f), construct, "no path on which this error is non-nil reaches a successful return", "a failing handshake step must abort the handshake: with this error non-nil "+where, call.Pos())
	}
}

// neverFails: every return of f carries the constant nil as its error result
func neverFails(f *ssa.Function) bool {
	if f == nil || f.Blocks == nil {
		return false
	}
	n := 0
	for _, b := range f.Blocks {
		ret, ok := b.Instrs[len(b.Instrs)-1].(*ssa.Return)
		if !ok {
			continue
		}
		n++
		last := unspill(ret.Results[len(ret.Results)-1])
		if !isNilConst(last) {
			return false
		}
	}
	return n > 0
}

// stickyErrChecked: the block of the call ends with `if c.in.err != nil` (the half-connection's sticky error)
func stickyErrChecked(call *ssa.Call) bool {
	ifi, ok := lastIf(call.Block())
	if !ok {
		return false
	}
	bo, ok := ifi.Cond.(*ssa.BinOp)
	if !ok || bo.Op != token.NEQ || !isNilConst(bo.Y) {
		return false
	}
	ld, ok := bo.X.(*ssa.UnOp)
	if !ok || ld.Op != token.MUL {
		return false
	}
	fa, ok := ld.X.(*ssa.FieldAddr)
	if !ok || fieldName(fa.X.Type(), fa.Field) != "err" {
		return false
	}
	fa2, ok := fa.X.(*ssa.FieldAddr)
	if !ok || fieldName(fa2.X.Type(), fa2.Field) != "in" {
		return false
	}
	// the load must come after the call
	return instrIndex(ld) > instrIndex(call)
}

// nonNilReachesSuccess: explores the paths after the call on which its error result E is non-nil. Values known to
// equal E are tracked through phis; a test of such a value only continues along its non-nil edge. Returns a
// description of a successful return reached on such a path, or "".
func nonNilReachesSuccess(p *Prog, f *ssa.Function, call *ssa.Call, E ssa.Value, spec resultSpec) string {
	type state struct {
		b   *ssa.BasicBlock
		key string
	}
	seen := map[state]bool{}
	var res string
	keyOf := func(set map[ssa.Value]bool) string {
		var names []string
		for v := range set {
			names = append(names, v.Name())
		}
		sort.Strings(names)
		return strings.Join(names, ",")
	}
	var walk func(b *ssa.BasicBlock, from *ssa.BasicBlock, set map[ssa.Value]bool, startIdx int)
	walk = func(b *ssa.BasicBlock, from *ssa.BasicBlock, set map[ssa.Value]bool, startIdx int) {
		if res != "" {
			return
		}
		// phis
		if from != nil {
			ns := map[ssa.Value]bool{}
			for v := range set {
				ns[v] = true
			}
			for _, phi := range phisOf(b) {
				delete(ns, phi)
				for i, pr := range b.Preds {
					if pr == from && set[phi.Edges[i]] {
						ns[phi] = true
					}
				}
			}
			set = ns
			st := state{b, keyOf(set)}
			if seen[st] {
				return
			}
			seen[st] = true
		}
		// re-executing the call starts a new instance of E
		for i := startIdx; i < len(b.Instrs); i++ {
			if b.Instrs[i] == ssa.Instruction(call) && i >= startIdx && from != nil {
				return
			}
		}
		last := b.Instrs[len(b.Instrs)-1]
		switch x := last.(type) {
		case *ssa.Return:
			if spec.idx < len(x.Results) {
				r := unspill(x.Results[spec.idx])
				if set[r] || failingValue(r, spec, b, from) {
					return
				}
				// a wrapper around a known-failing value: fail(err), setErrorLocked(err)
				if cl, ok := r.(*ssa.Call); ok {
					for _, a := range cl.Call.Args {
						if set[a] {
							return
						}
					}
				}
			}
			res = "a successful return at " + p.pos(x.Pos()) + " is reachable"
			return
		case *ssa.If:
			if bo, ok := x.Cond.(*ssa.BinOp); ok && (bo.Op == token.NEQ || bo.Op == token.EQL) && isNilConst(bo.Y) && set[bo.X] {
				if bo.Op == token.NEQ {
					walk(b.Succs[0], b, set, 0)
				} else {
					walk(b.Succs[1], b, set, 0)
				}
				return
			}
		case *ssa.Panic:
			return
		}
		for _, s := range b.Succs {
			walk(s, b, set, 0)
		}
	}
	walk(call.Block(), nil, map[ssa.Value]bool{E: true}, instrIndex(call)+1)
	return res
}

// c15PeerIndexed: everywhere else in the handshake closure, an index, slice bound or allocation size that is computed
// from a field of a received handshake message (a *...Msg struct) is in bounds for every value the peer can send.
func c15PeerIndexed(c *Ctx, scope []*ssa.Function, done []*ssa.Function) {
	have := map[*ssa.Function]bool{}
	for _, f := range done {
		have[f] = true
	}
	fromMsg := func(v ssa.Value) bool {
		seen := map[ssa.Value]bool{}
		var walk func(v ssa.Value, d int) bool
		walk = func(v ssa.Value, d int) bool {
			if v == nil || d > 10 || seen[v] {
				return false
			}
			seen[v] = true
			switch x := v.(type) {
			case *ssa.UnOp:
				if x.Op == token.MUL {
					if fa, ok := x.X.(*ssa.FieldAddr); ok {
						t := strings.TrimPrefix(fa.X.Type().String(), "*")
						if strings.HasSuffix(t, "Msg") || strings.HasSuffix(t, "MsgGM") {
							return true
						}
						return false
					}
					if ia, ok := x.X.(*ssa.IndexAddr); ok {
						return walk(ia.X, d+1)
					}
					return false
				}
				return walk(x.X, d+1)
			case *ssa.BinOp:
				return walk(x.X, d+1) || walk(x.Y, d+1)
			case *ssa.Convert:
				return walk(x.X, d+1)
			case *ssa.ChangeType:
				return walk(x.X, d+1)
			case *ssa.Phi:
				for _, e := range x.Edges {
					if walk(e, d+1) {
						return true
					}
				}
			case *ssa.Call:
				if bi, ok := x.Call.Value.(*ssa.Builtin); ok && (bi.Name() == "len" || bi.Name() == "cap") {
					return walk(x.Call.Args[0], d+1)
				}
			case *ssa.Slice:
				return walk(x.X, d+1)
			}
			return false
		}
		return walk(v, 0)
	}
	var fs []*ssa.Function
	for _, f := range scope {
		if have[f] || f.Name() == "marshal" || f.Name() == "unmarshal" || f.Name() == "equal" {
			continue
		}
		pk := f.Pkg
		if pk == nil && f.Parent() != nil {
			pk = f.Parent().Pkg
		}
		if pk == nil || rel(pk.Pkg.Path()) != "gmtls" {
			continue
		}
		fs = append(fs, f)
	}
	bidxFilter = func(in ssa.Instruction) bool {
		switch x := in.(type) {
		case *ssa.IndexAddr:
			return fromMsg(x.Index)
		case *ssa.Index:
			return fromMsg(x.Index)
		case *ssa.Lookup:
			return false
		case *ssa.Slice:
			return fromMsg(x.Low) || fromMsg(x.High) || fromMsg(x.Max)
		case *ssa.MakeSlice:
			return fromMsg(x.Len) || fromMsg(x.Cap)
		}
		return false
	}
	defer func() { bidxFilter = nil }()
	lbOvfMode = true
	st := bidx(c, "B-IDX", fs, map[string]string{})
	lbOvfMode = false
	c.Notes = append(c.Notes, fmt.Sprintf("B-IDX (bounds computed from received message fields, rest of the closure): %d sites, %d compiler, %d LinBounds, %d unproven", st.sites, st.compiler, st.lin, st.unproved))
}

// c15WarnLoop: readRecord starts over (without returning to its caller) only for a warning alert, and only while a
// counter that is incremented on that path has not exceeded a constant: a peer cannot keep an endpoint spinning
// inside readRecord with an endless stream of warning alerts.
func c15WarnLoop(c *Ctx) {
	rule := "G-C15-warnloop"
	f := c.Fn("gmtls", "(*Conn).readRecord")
	if f == nil {
		c.Missing(rule, "gmtls.(*Conn).readRecord", "method", "not found")
		return
	}
	hs := loopHeaders(f)
	c.Evals++
	if len(hs) == 0 {
		c.Holds(rule, fname(f), "every restart inside readRecord is bounded by a counter", "readRecord has no loop", f.Pos())
		return
	}
	allOK := true
	why := ""
	for _, h := range hs {
		blocks := loopBlocks(h)
		for _, p := range h.Preds {
			if !blocks[p] {
				continue
			}
			// the back edge p -> h must be dominated by the not-exceeded edge of a test on a counter field that is
			// incremented inside the loop
			ok := false
			for b := range blocks {
				ifi, isIf := lastIf(b)
				if !isIf {
					continue
				}
				bo, isBo := ifi.Cond.(*ssa.BinOp)
				if !isBo || (bo.Op != token.GTR && bo.Op != token.GEQ) {
					continue
				}
				if _, isK := constInt(bo.Y); !isK {
					continue
				}
				// counter: a value v with `field = v` stored in the loop and v = load(field) + 1, or a later load of it
				var fld *ssa.FieldAddr
				isCounter := func(v ssa.Value) bool {
					add, ok := v.(*ssa.BinOp)
					if ok && add.Op == token.ADD {
						if k, isK := constInt(add.Y); isK && k == 1 {
							if ld, ok := add.X.(*ssa.UnOp); ok {
								if fa, ok := ld.X.(*ssa.FieldAddr); ok {
									fld = fa
									return true
								}
							}
						}
					}
					return false
				}
				v := bo.X
				if ld, isLd := v.(*ssa.UnOp); isLd && ld.Op == token.MUL {
					// a reload of the field: find the increment stored to the same field in the loop
					if fa, ok := ld.X.(*ssa.FieldAddr); ok {
						for bb := range blocks {
							for _, in := range bb.Instrs {
								if st, ok := in.(*ssa.Store); ok {
									if fa2, ok := st.Addr.(*ssa.FieldAddr); ok && fa2.Field == fa.Field && fa2.X == fa.X && isCounter(st.Val) && instrDominates(st, ld) {
										v = st.Val
									}
								}
							}
						}
					}
				}
				if !isCounter(v) {
					continue
				}
				stored := false
				for bb := range blocks {
					for _, in := range bb.Instrs {
						if st, ok := in.(*ssa.Store); ok && st.Val == v {
							if fa2, ok := st.Addr.(*ssa.FieldAddr); ok && fld != nil && fa2.Field == fld.Field && fa2.X == fld.X {
								stored = true
							}
						}
					}
				}
				exceeded, within := b.Succs[0], b.Succs[1]
				if stored && !blocks[exceeded] && ((within == h && p == b) || (len(within.Preds) == 1 && (within == p || within.Dominates(p)))) {
					ok = true
				}
			}
			if !ok {
				allOK = false
				why = "the jump back to the start of readRecord from " + c.P.pos(lastPos(p)) + " is not guarded by a bounded counter"
			}
		}
	}
	c.Check(allOK, rule, fname(f), "every restart inside readRecord is bounded by a counter", "", why+": a peer can keep the endpoint inside readRecord for ever with records that are silently dropped", f.Pos())
}

// c15NoDrop: readHandshake returns every message it takes off the handshake buffer: the consumption
// (hand.Next) is not inside a loop, so no message can be read, silently discarded and replaced by the next one
// (a discarded message would be missing from the transcript, and an unexpected message would go unnoticed).
func c15NoDrop(c *Ctx) {
	rule := "G-C15-nodrop"
	f := c.Fn("gmtls", "(*Conn).readHandshake")
	if f == nil {
		c.Missing(rule, "gmtls.(*Conn).readHandshake", "method", "not found")
		return
	}
	n := 0
	for _, ci := range allCalls(f) {
		call, ok := ci.(*ssa.Call)
		if !ok {
			continue
		}
		sc := call.Call.StaticCallee()
		if sc == nil || sc.String() != "(*bytes.Buffer).Next" {
			continue
		}
		n++
		c.Evals++
		inLoop := false
		for _, s := range call.Block().Succs {
			if reach([]*ssa.BasicBlock{s}, nil)[call.Block()] {
				inLoop = true
			}
		}
		c.Check(!inLoop, rule, fname(f), fmt.Sprintf("message consumption #%d is followed by a return, not by another read", n), "", "after taking a message off the handshake buffer readHandshake can loop and read another one: the first message is dropped without reaching the handshake state machine or the transcript", call.Pos())
	}
	if n == 0 {
		c.Undecided(rule, fname(f), "consumption of the handshake buffer", "no call to hand.Next found", f.Pos())
	}
}
