package main

// C08 — what the ServerKeyExchange signature covers: the digest helpers of the key agreement hash a list of byte
// slices whose first two elements are the client and server randoms. Structural necessary condition: in sha1Hash,
// md5SHA1Hash and hashForServerKeyExchange the [][]byte parameter is consumed whole — it is never re-sliced with a
// non-zero lower bound or an upper bound (a range over slices[1:] silently drops the client random from the signed
// digest on both sides, so honest handshakes still agree while a signed ServerKeyExchange can be replayed).
// Loops with a hand-written start index are not covered.

import (
	"fmt"

	"golang.org/x/tools/go/ssa"
)

func c08DigestCover(c *Ctx) {
	rule := "G-C08-skxcover"
	for _, name := range []string{"sha1Hash", "md5SHA1Hash", "hashForServerKeyExchange"} {
		f := c.Fn("gmtls", name)
		if f == nil {
			c.Missing(rule, "gmtls."+name, "function", "not found")
			continue
		}
		var p *ssa.Parameter
		for _, q := range f.Params {
			if q.Type().String() == "[][]byte" {
				p = q
			}
		}
		if p == nil {
			c.Undecided(rule, fname(f), "list of slices", "no [][]byte parameter", f.Pos())
			continue
		}
		bad := false
		uses := 0
		instrsOf(f, func(_ *ssa.BasicBlock, in ssa.Instruction) {
			switch x := in.(type) {
			case *ssa.Slice:
				if x.X != ssa.Value(p) {
					return
				}
				lowZero := x.Low == nil
				if k, ok := constInt(x.Low); x.Low != nil && ok && k == 0 {
					lowZero = true
				}
				if !lowZero || x.High != nil {
					bad = true
					c.Violated(rule, fname(f), "the list of slices is hashed whole",
						"the [][]byte parameter is re-sliced before hashing: leading or trailing elements (the randoms come first) drop out of the digest that the ServerKeyExchange signature covers", x.Pos())
				}
			case *ssa.IndexAddr:
				if x.X == ssa.Value(p) {
					uses++
				}
			case *ssa.Call:
				for _, a := range x.Call.Args {
					if a == ssa.Value(p) {
						uses++
					}
				}
			}
		})
		c.Evals += uses
		if !bad {
			c.Holds(rule, fname(f), "the list of slices is hashed whole", fmt.Sprintf("%d use(s) of the parameter, none through a sub-slice", uses), f.Pos())
		}
	}
}
