package main

// C16 — Config.Clone: servers hand clones of a Config to connections (GetConfigForClient, per-listener copies). A
// clone that silently drops a field behaves differently from the original: without the ticket keys set through
// SetSessionTicketKeys it cannot resume sessions the original issued and keeps accepting keys that were rotated out.
// Exhaustiveness rule, instances taken from the struct type itself: the Config allocated and returned by Clone has a
// store into every field of Config, except fields whose type comes from package sync (Once, RWMutex: a clone starts
// with fresh ones). A whole-struct copy (`cc := *c`) counts as all fields. Also for the client side: clientHandshake
// must read Config.SessionTicketsDisabled in a branch condition (otherwise it cannot honour it).

import (
	"fmt"
	"sort"
	"strings"

	"go/types"

	"golang.org/x/tools/go/ssa"
)

func c16Clone(c *Ctx) {
	rule := "G-C16-clone"
	f := c.Fn("gmtls", "(*Config).Clone")
	if f == nil {
		c.Missing(rule, "gmtls.(*Config).Clone", "method", "not found")
		return
	}
	st := derefStruct(f.Params[0].Type())
	if st == nil {
		c.Undecided(rule, fname(f), "Config struct", "receiver is not a struct pointer", f.Pos())
		return
	}
	stored := map[string]bool{}
	whole := false
	nAlloc := 0
	instrsOf(f, func(_ *ssa.BasicBlock, in ssa.Instruction) {
		s, ok := in.(*ssa.Store)
		if !ok {
			return
		}
		switch a := s.Addr.(type) {
		case *ssa.FieldAddr:
			if al, ok := a.X.(*ssa.Alloc); ok && derefStruct(al.Type()) == st {
				stored[fieldName(a.X.Type(), a.Field)] = true
			}
		case *ssa.Alloc:
			if derefStruct(a.Type()) == st {
				whole = true
			}
		}
	})
	instrsOf(f, func(_ *ssa.BasicBlock, in ssa.Instruction) {
		if al, ok := in.(*ssa.Alloc); ok && derefStruct(al.Type()) == st {
			nAlloc++
		}
	})
	if nAlloc == 0 {
		c.Undecided(rule, fname(f), "clone allocation", "Clone does not allocate a Config itself (idiom not recognised)", f.Pos())
		return
	}
	var missing, exempt []string
	for i := 0; i < st.NumFields(); i++ {
		fd := st.Field(i)
		if n, ok := fd.Type().(*types.Named); ok && n.Obj().Pkg() != nil && n.Obj().Pkg().Path() == "sync" {
			exempt = append(exempt, fd.Name())
			continue
		}
		if !whole && !stored[fd.Name()] {
			missing = append(missing, fd.Name())
		}
	}
	sort.Strings(missing)
	c.Evals += st.NumFields()
	c.Check(len(missing) == 0, rule, fname(f), "every Config field is carried over to the clone",
		fmt.Sprintf("%d fields, exempt (package sync): %s", st.NumFields(), strings.Join(exempt, ", ")),
		"Clone does not set "+strings.Join(missing, ", ")+": the clone silently differs from the original (for sessionTicketKeys: tickets of the original no longer resume on the clone and rotated-out keys stay accepted)", f.Pos())
}

func c16ClientTicketsDisabled(c *Ctx) {
	rule := "G-C16-clientdisabled"
	f := c.Fn("gmtls", "(*Conn).clientHandshake")
	if f == nil {
		c.Missing(rule, "gmtls.(*Conn).clientHandshake", "method", "not found")
		return
	}
	// a load of Config.SessionTicketsDisabled that (through conversions/negation/phi-free data flow) is the condition of an If
	found := false
	instrsOf(f, func(_ *ssa.BasicBlock, in ssa.Instruction) {
		iff, ok := in.(*ssa.If)
		if !ok {
			return
		}
		vis := map[ssa.Value]bool{}
		var dep func(v ssa.Value)
		dep = func(v ssa.Value) {
			if v == nil || vis[v] || found {
				return
			}
			vis[v] = true
			switch x := v.(type) {
			case *ssa.UnOp:
				if fa, ok := x.X.(*ssa.FieldAddr); ok && fieldName(fa.X.Type(), fa.Field) == "SessionTicketsDisabled" {
					found = true
					return
				}
				dep(x.X)
			case *ssa.BinOp:
				dep(x.X)
				dep(x.Y)
			case *ssa.Phi:
				for _, e := range x.Edges {
					dep(e)
				}
			}
		}
		dep(iff.Cond)
	})
	c.Check(found, rule, fname(f), "the client tests Config.SessionTicketsDisabled", "a branch of clientHandshake depends on the flag",
		"no branch of clientHandshake depends on Config.SessionTicketsDisabled: a client configured without tickets still offers the extension, stores tickets in the session cache and resumes from it", f.Pos())
}
