package main

// C11 — SM4 ECB/CBC/CFB/OFB helpers

import (
	"fmt"
	"go/token"
	"go/types"
	"sort"
	"strings"

	"golang.org/x/tools/go/ssa"
)

func init() { register("C11", checkC11) }

// loopEvents: canonical description of the calls in a loop body. Header phis are named
// (induction -> "i", others P0,P1,… in header order); returns phi definitions and events.
type loopDesc struct {
	Header *ssa.BasicBlock
	Phis   []string // "P0 = phi(init; back1; back2)"
	Events []string // "[cond] call(args)"
	Bound  string
}

func describeLoop(f *ssa.Function, h *ssa.BasicBlock, names map[ssa.Value]string) loopDesc {
	ld := loopDesc{Header: h}
	local := map[ssa.Value]string{}
	for k, v := range names {
		local[k] = v
	}
	n := 0
	var others []*ssa.Phi
	for _, p := range phisOf(h) {
		if iv, ok := inductionOf(p); ok {
			local[p] = "i"
			if iv.init == 0 && iv.step == 16 {
				// a byte offset stepping by one block is 16 times the block index
				local[p] = "mul(0x10,i)"
			}
		} else {
			local[p] = fmt.Sprintf("P%d", n)
			n++
			others = append(others, p)
		}
	}
	be := newBigEnv(f, local)
	if ifi, ok := lastIf(h); ok {
		ld.Bound = be.plain(ifi.Cond, ifi).String()
	}
	// blocks in the loop: dominated by h and able to reach h
	inLoop := map[*ssa.BasicBlock]bool{}
	for _, b := range f.Blocks {
		if h.Dominates(b) && b != h && reach([]*ssa.BasicBlock{b}, nil)[h] {
			inLoop[b] = true
		}
	}
	for _, p := range others {
		var parts []string
		for i, e := range p.Edges {
			pred := h.Preds[i]
			tag := "init"
			if inLoop[pred] || pred == h {
				tag = "back"
			}
			delete(local, p)
			s := be.bytesOf(e, pred.Instrs[len(pred.Instrs)-1]).String()
			local[p] = fmt.Sprintf("P%d", indexOfPhi(others, p))
			parts = append(parts, tag+":"+s)
		}
		sort.Strings(parts)
		ld.Phis = append(ld.Phis, local[p]+" = "+strings.Join(dedup(parts), " | "))
	}
	for _, b := range f.DomPreorder() {
		if !inLoop[b] {
			continue
		}
		conds := dominatingCondsWithin(be, b, h)
		for _, in := range b.Instrs {
			call, ok := in.(*ssa.Call)
			if !ok {
				continue
			}
			cc := &call.Call
			name := ""
			if cc.IsInvoke() {
				name = cc.Method.Name()
			} else if sc := cc.StaticCallee(); sc != nil {
				name = sc.Name()
			} else if bi, ok := cc.Value.(*ssa.Builtin); ok {
				name = bi.Name()
			}
			switch name {
			case "Encrypt", "Decrypt", "copy", "xor":
			default:
				continue
			}
			if name == "xor" {
				continue // appears inside the canonical arguments
			}
			// an argument chosen by a two-way test inside the body (`fb := prev; if i == 0 { fb = IV }`): the event is
			// the pair of guarded events, one per arm
			if conds == "" {
				split := false
				for ai, a := range cc.Args {
					phi, isPhi := a.(*ssa.Phi)
					if !isPhi || len(phi.Edges) != 2 || !inLoop[phi.Block()] {
						continue
					}
					x := phi.Block().Idom()
					if x == nil || !(inLoop[x] || x == h) {
						continue
					}
					ifi, ok := lastIf(x)
					if !ok {
						continue
					}
					side := func(pred *ssa.BasicBlock) int {
						switch {
						case pred == x && x.Succs[0] == phi.Block():
							return 0
						case pred == x && x.Succs[1] == phi.Block():
							return 1
						case pred == x.Succs[0] || x.Succs[0].Dominates(pred):
							if len(x.Succs[0].Preds) == 1 {
								return 0
							}
						case pred == x.Succs[1] || x.Succs[1].Dominates(pred):
							if len(x.Succs[1].Preds) == 1 {
								return 1
							}
						}
						return -1
					}
					s0, s1 := side(phi.Block().Preds[0]), side(phi.Block().Preds[1])
					if s0 < 0 || s1 < 0 || s0 == s1 {
						continue
					}
					cond := be.plain(ifi.Cond, ifi).String()
					for k := 0; k < 2; k++ {
						guard := "[" + cond + "] "
						if k == 1 {
							guard = "[!" + cond + "] "
						}
						e := phi.Edges[0]
						if s0 != k {
							e = phi.Edges[1]
						}
						var args []string
						for aj, b := range cc.Args {
							if aj == ai {
								args = append(args, be.bytesOf(e, call).String())
							} else {
								args = append(args, be.bytesOf(b, call).String())
							}
						}
						ld.Events = append(ld.Events, guard+name+"("+strings.Join(args, ", ")+")")
					}
					split = true
					break
				}
				if split {
					continue
				}
			}
			var args []string
			for _, a := range cc.Args {
				args = append(args, be.bytesOf(a, call).String())
			}
			ld.Events = append(ld.Events, conds+name+"("+strings.Join(args, ", ")+")")
		}
	}
	return ld
}

func indexOfPhi(ps []*ssa.Phi, p *ssa.Phi) int {
	for i, q := range ps {
		if q == p {
			return i
		}
	}
	return -1
}

func dedup(s []string) []string {
	var out []string
	for i, x := range s {
		if i == 0 || x != s[i-1] {
			out = append(out, x)
		}
	}
	return out
}

// dominatingCondsWithin: branch conditions between loop header h and block b
func dominatingCondsWithin(be *bigEnv, b, h *ssa.BasicBlock) string {
	var cs []string
	for d := b; d != nil && d != h && d.Idom() != nil; d = d.Idom() {
		x := d.Idom()
		if x == h {
			break
		}
		ifi, ok := lastIf(x)
		if !ok || len(d.Preds) != 1 || d.Preds[0] != x {
			continue
		}
		s := be.plain(ifi.Cond, ifi).String()
		if x.Succs[0] != d {
			s = "!" + s
		}
		cs = append(cs, s)
	}
	if len(cs) == 0 {
		return ""
	}
	sort.Strings(cs)
	return "[" + strings.Join(cs, "&") + "] "
}

func checkC11(c *Ctx) {
	c.Decided = append(c.Decided,
		"K-C11-mode: for each of ECB/CBC/CFB/OFB and each direction, the block loop runs once per 16-byte block and its chaining (what is enciphered, what is xored, what is fed back, where the IV enters) equals the standard definition of the mode; encryption pads, decryption unpads",
		"K-C11-pad: pad length is 16 - len mod 16 with pad bytes equal to the length, built in fresh memory",
		"T-UNPAD: the un-padder rejects empty input, pad 0, pad > 16, pad > len and compares every pad byte",
		"FX-C11-inputs: nothing reachable from the helpers writes memory derived from key or in (including append into spare capacity)",
		"FX-C11-retain: no function of package sm4 stores a slice it was passed (the caller's key, IV or data) in package-level state — whatever is kept across calls must be a private copy, otherwise a later call sees the caller's later writes (a key schedule cached under a key buffer the caller reuses)",
		"G-C11-iv: the package IV is written only by SetIV, which rejects lengths other than 16",
		"G-C11-keylen: each helper rejects keys that are not 16 bytes",
		"B-IDX: all index/slice sites of the helpers are in bounds for every input length")
	c.NotDec = append(c.NotDec, "byte equality with a reference implementation of the modes (follows from the chaining structure plus C05, not decided numerically)", "errors for invalid padding on decryption are ignored by the helpers (not part of this property)")

	checkC11Modes(c)
	retainedParams(c, "FX-C11-retain", "sm4")

	// ---- padding
	if p := c.Fn("sm4", "pkcs7Padding"); p != nil {
		be := newBigEnv(p, paramNames(p, "src"))
		for _, b := range p.Blocks {
			if ret, ok := b.Instrs[len(b.Instrs)-1].(*ssa.Return); ok {
				got := be.bytesOf(ret.Results[0], ret).String()
				pad := "sub(0x10,rem(len(src),0x10))"
				want := "concat(make(0x0),src,call:bytes.Repeat(lit(trunc8(" + pad + "))," + pad + "))"
				want2 := "concat(src,call:bytes.Repeat(lit(trunc8(" + pad + "))," + pad + "))"
				if got == want || got == want2 {
					c.Holds("K-C11-pad", fname(p), "src || pad^pad with pad = 16 - len%16", "", ret.Pos())
				} else if strings.HasPrefix(got, "concat(") {
					// the recognised construction with another content: a different pad
					c.Violated("K-C11-pad", fname(p), "src || pad^pad with pad = 16 - len%16", "padding builds "+got, ret.Pos())
				} else {
					// another construction (explicit buffer and fill loop, ...): what can still be decided is the LENGTH
					// of the result — between 1 and 16 bytes more than the input — by the linear prover; the pad
					// bytes themselves are then undecided, not violated
					lb := &LB{p: c.P, f: p, UsedContracts: map[string]bool{}}
					out, in := lb.lenLin(ret.Results[0]), lb.lenLin(p.Params[0])
					okLen := lb.prove([]cons{ge(out, in.addScaled(linConst(1), 1)), le(out, in.addScaled(linConst(16), 1))}, b, nil, map[lvar]lin{}, 2)
					if okLen {
						c.Undecided("K-C11-pad", fname(p), "src || pad^pad with pad = 16 - len%16", "the padding is built in a form the rule does not recognise ("+got+"); proved only that it adds between 1 and 16 bytes", ret.Pos())
					} else {
						c.Violated("K-C11-pad", fname(p), "src || pad^pad with pad = 16 - len%16", "padding builds "+got+", and it is not provable that it adds between 1 and 16 bytes", ret.Pos())
					}
				}
			}
		}
	} else {
		c.Missing("K-C11-pad", "sm4.pkcs7Padding", "function", "not found")
	}
	if u := c.Fn("sm4", "pkcs7UnPadding"); u != nil {
		checkUnpad(c, "T-UNPAD", u, u.Params[0], 16)
	} else {
		c.Missing("T-UNPAD", "sm4.pkcs7UnPadding", "function", "not found")
	}

	// ---- FX inputs
	fx := getFX(c)
	var fs []*ssa.Function
	for _, n := range []string{"Sm4Ecb", "Sm4Cbc", "Sm4CFB", "Sm4OFB"} {
		f := c.Fn("sm4", n)
		if f == nil {
			continue
		}
		fs = append(fs, f)
		w := fx.Writes(f)
		for i, nm := range []string{"key", "in"} {
			wit, bad := w[root{Kind: rkParam, Idx: i}]
			c.Check(!bad, "FX-C11-inputs", fname(f), "does not write "+nm, "", "the helper may write the caller's "+nm+" slice: "+fx.describe(root{Kind: rkParam, Idx: i}, wit), wit.Pos)
		}
	}
	// ---- IV
	sp := c.P.SSAPkg["sm4"]
	if g, _ := sp.Members["IV"].(*ssa.Global); g != nil {
		setiv := c.Fn("sm4", "SetIV")
		for _, f := range c.P.RepoFuncs("sm4") {
			instrsOf(f, func(_ *ssa.BasicBlock, in ssa.Instruction) {
				if st, ok := in.(*ssa.Store); ok && st.Addr == ssa.Value(g) {
					c.Check(f == setiv || f.Name() == "init", "G-C11-iv", fname(f), "writes the package IV", "", "the package-level IV is assigned outside SetIV", st.Pos())
				}
			})
			// element writes through the IV slice
			if f != setiv {
				w := fx.Writes(f)
				if wit, bad := w[root{Kind: rkGlobal, G: modPath + "/sm4.IV"}]; bad && wit.What != "store" {
					c.Violated("G-C11-iv", fname(f), "writes through the package IV", "the IV bytes are modified: "+fx.describe(root{Kind: rkGlobal, G: modPath + "/sm4.IV"}, wit), wit.Pos)
				}
			}
		}
		if setiv != nil {
			spec, _ := defaultResultSpec(setiv)
			atoms := lenGuardAtoms(setiv, func(v ssa.Value) bool { return v == ssa.Value(setiv.Params[0]) }, func(n int64) bool { return n == 16 }, []int64{0, 15, 16, 17}, "len(iv)==16")
			var sinks []ssa.Instruction
			instrsOf(setiv, func(_ *ssa.BasicBlock, in ssa.Instruction) {
				if st, ok := in.(*ssa.Store); ok && st.Addr == ssa.Value(g) {
					sinks = append(sinks, st)
				}
			})
			gr := evalGuard(c.P, setiv, atoms, spec, sinks)
			c.Check(gr.OK, "G-C11-iv", fname(setiv), "rejects IVs that are not 16 bytes", gr.Why, gr.Why, gr.Pos)
			// ... and a successful SetIV has installed the IV: with the edges into the store(s) to the package variable
			// removed no nil-error return is reachable (a `IV := …` that shadows the package variable stores nothing)
			cut := map[edge]bool{}
			inEntry := false
			for _, sk := range sinks {
				if sk.Block() == setiv.Blocks[0] {
					inEntry = true
				}
				for _, p := range sk.Block().Preds {
					cut[edge{p, sk.Block()}] = true
				}
			}
			reachable := true
			if len(sinks) > 0 && !inEntry {
				reachable, _ = canReachSuccess(setiv.Blocks[0], nil, successExits(setiv, spec), cut)
			} else if inEntry {
				reachable = false
			}
			c.Check(len(sinks) > 0 && !reachable, "G-C11-iv", fname(setiv), "a successful SetIV has assigned the package IV", "", "SetIV can return nil without having stored anything in the package variable IV (for instance into a local that shadows it): the helpers keep using the previous IV", setiv.Pos())
		} else {
			c.Missing("G-C11-iv", "sm4.SetIV", "function", "not found")
		}
	} else {
		c.Missing("G-C11-iv", "sm4.IV", "global", "package IV not found")
	}
	// ---- bounds
	fs = append(fs, c.Fn("sm4", "xor"), c.Fn("sm4", "pkcs7Padding"), c.Fn("sm4", "pkcs7UnPadding"), c.Fn("sm4", "SetIV"))
	st := bidx(c, "B-IDX", fs, nil)
	c.Notes = append(c.Notes, fmt.Sprintf("B-IDX: %d sites, %d compiler, %d LinBounds, %d unproven", st.sites, st.compiler, st.lin, st.unproved))
}

// checkUnpad: the shared un-padding obligations (also used by C17/C19).
// data is the byte-slice value being unpadded, bs the block size (0 = none).
func checkUnpad(c *Ctx, rule string, f *ssa.Function, data ssa.Value, bs int64) {
	checkUnpadDyn(c, rule, f, data, bs, nil)
}

// checkUnpadDyn: bsIs (optional) recognises the run-time block size value when it is not a constant.
func checkUnpadDyn(c *Ctx, rule string, f *ssa.Function, data ssa.Value, bs int64, bsIs func(v ssa.Value) bool, sameLen ...ssa.Value) {
	fn := fname(f)
	// values of the same length as data (data = make([]byte, len(x)))
	isData := func(x ssa.Value) bool {
		if x == data {
			return true
		}
		for _, y := range sameLen {
			if x == y {
				return true
			}
		}
		return false
	}
	spec, ok := defaultResultSpec(f)
	if !ok {
		c.Undecided(rule, fn, "un-padder result", "function has no error/bool result", f.Pos())
		return
	}
	names := map[ssa.Value]string{data: "src"}
	be := newBigEnv(f, names)
	// the pad length: int(src[len(src)-1]) — any value whose canonical form is that
	isPad := func(v ssa.Value, at ssa.Instruction) bool {
		s := be.plain(v, at).String()
		return s == "idx(src,len(src)-1)" || s == "idx(src,sub(len(src),0x1))" || strings.HasPrefix(s, "idx(src,")
	}
	// atoms on the pad value
	var zeroAtoms, bigAtoms, lenAtoms, eqLenAtoms []Atom
	for _, ifi := range ifsOf(f) {
		bo, ok := ifi.Cond.(*ssa.BinOp)
		if !ok {
			continue
		}
		l, r := stripConvAll(bo.X), stripConvAll(bo.Y)
		if bsIs != nil {
			// pad vs dynamic block size
			if isPad(l, ifi) && bsIs(r) {
				switch bo.Op {
				case token.GTR:
					bigAtoms = append(bigAtoms, Atom{ifi, 1, "pad <= bs"})
				case token.LEQ:
					bigAtoms = append(bigAtoms, Atom{ifi, 0, "pad <= bs"})
				}
			}
			if bsIs(l) && isPad(r, ifi) {
				switch bo.Op {
				case token.LSS:
					bigAtoms = append(bigAtoms, Atom{ifi, 1, "pad <= bs"})
				case token.GEQ:
					bigAtoms = append(bigAtoms, Atom{ifi, 0, "pad <= bs"})
				}
			}
			// len(src) == bs enforced
			isLen0 := func(v ssa.Value) bool {
				return isLenOf(v, isData)
			}
			if (isLen0(l) && bsIs(r)) || (bsIs(l) && isLen0(r)) {
				switch bo.Op {
				case token.NEQ:
					eqLenAtoms = append(eqLenAtoms, Atom{ifi, 1, "len == bs"})
				case token.EQL:
					eqLenAtoms = append(eqLenAtoms, Atom{ifi, 0, "len == bs"})
				}
			}
		}
		dbg("unpad cond in %s: %s", fn, be.plain(ifi.Cond, ifi).String())
		// pad vs constant
		if k, ok := constInt(r); ok && isPad(l, ifi) {
			eval := func(p int64) bool { return intCmpTrue(bo.Op, p, k) }
			pb := bs
			if pb < 2 {
				pb = 2
			}
			// rejects zero: truth differs between 0 and 1.. ; rejects > bs
			if eval(0) && !eval(1) && !eval(pb) {
				zeroAtoms = append(zeroAtoms, Atom{ifi, 1, "pad != 0"})
			} else if !eval(0) && eval(1) && eval(pb) && eval(255) {
				zeroAtoms = append(zeroAtoms, Atom{ifi, 0, "pad != 0"})
			}
			if bs > 0 {
				if !eval(bs) && eval(bs+1) && eval(255) && !eval(1) {
					bigAtoms = append(bigAtoms, Atom{ifi, 1, "pad <= bs"})
				} else if eval(bs) && !eval(bs+1) && !eval(255) && eval(1) {
					bigAtoms = append(bigAtoms, Atom{ifi, 0, "pad <= bs"})
				}
			}
		}
		// pad vs len(src)
		isLen := func(v ssa.Value) bool {
			return isLenOf(v, isData) || be.plain(v, ifi).String() == "len(src)"
		}
		if isPad(l, ifi) && isLen(r) {
			switch bo.Op {
			case token.GTR:
				lenAtoms = append(lenAtoms, Atom{ifi, 1, "pad <= len"})
			case token.LEQ:
				lenAtoms = append(lenAtoms, Atom{ifi, 0, "pad <= len"})
			}
		}
		if isLen(l) && isPad(r, ifi) {
			switch bo.Op {
			case token.LSS:
				lenAtoms = append(lenAtoms, Atom{ifi, 1, "pad <= len"})
			case token.GEQ:
				lenAtoms = append(lenAtoms, Atom{ifi, 0, "pad <= len"})
			}
		}
	}
	// dynamic block size: when len == blockSize is enforced, a zero-length final block means blockSize == 0
	// (a degenerate configuration); returns taken on `len(src) == 0` are outside the rule.
	pre := map[edge]bool{}
	if bsIs != nil {
		for _, a := range lenGuardAtoms(f, isData, func(n int64) bool { return n > 0 }, []int64{0, 1, 16}, "len > 0") {
			b := a.If.Block()
			pre[edge{b, b.Succs[1-a.PassSucc]}] = true
		}
	}
	evalG := func(atoms []Atom) guardResult { return evalGuardCut(c.P, f, atoms, spec, nil, pre) }
	g := evalG(zeroAtoms)
	c.Check(g.OK, rule, fn, "pad length 0 rejected", g.Why, "a final byte of 0 is not a valid PKCS#7 pad: "+g.Why, g.Pos)
	if bs > 0 || bsIs != nil {
		g = evalG(bigAtoms)
		c.Check(g.OK, rule, fn, "pad length above the block size rejected", g.Why, g.Why, g.Pos)
	}
	g = evalG(lenAtoms)
	if !g.OK && bsIs != nil {
		// pad <= bs together with len == bs
		g2 := evalGuard(c.P, f, eqLenAtoms, spec, nil)
		g3 := evalG(bigAtoms)
		if g2.OK && g3.OK {
			g = g2
		}
	}
	c.Check(g.OK, rule, fn, "pad length above the data length rejected", g.Why, "a pad longer than the data must be rejected (it is used as a slice bound): "+g.Why, g.Pos)
	// empty input
	e := lenGuardAtoms(f, isData, func(n int64) bool { return n > 0 }, []int64{0, 1, 16}, "len > 0")
	g = evalGuard(c.P, f, e, spec, nil)
	if !g.OK && bsIs != nil {
		// the final block always exists and is full: len == bs is enforced (bs > 0 by construction)
		if g2 := evalGuard(c.P, f, eqLenAtoms, spec, nil); g2.OK {
			g = g2
		}
	}
	c.Check(g.OK, rule, fn, "empty input rejected", g.Why, g.Why, g.Pos)
	// all pad bytes compared: a loop over [0,pad) (or over the tail) comparing each byte with pad, mismatch rejects
	okLoop := false
	var why string
	for _, h := range loopHeaders(f) {
		for _, p := range phisOf(h) {
			iv, ok := inductionOf(p)
			if !ok || iv.step != 1 || iv.init != 0 {
				continue
			}
			ifi, ok := lastIf(h)
			if !ok {
				continue
			}
			cmp, ok := ifi.Cond.(*ssa.BinOp)
			if !ok || cmp.Op != token.LSS || cmp.X != ssa.Value(p) || !isPad(stripConvAll(cmp.Y), ifi) {
				continue
			}
			// the loop may only be left through `i < pad` becoming false or through a rejection
			inLoop := map[*ssa.BasicBlock]bool{h: true}
			for _, b := range f.Blocks {
				if h.Dominates(b) && b != h && reach([]*ssa.BasicBlock{b}, nil)[h] {
					inLoop[b] = true
				}
			}
			exSucc := successExits(f, spec)
			earlyExit := false
			for b := range inLoop {
				for si, sc := range b.Succs {
					if inLoop[sc] {
						continue
					}
					if b == h && si == 1 {
						continue // i < pad is false: all bytes seen
					}
					e := edge{b, sc}
					if r, _ := canReachSuccess(sc, &e, exSucc, nil); r {
						earlyExit = true
					}
				}
			}
			if earlyExit {
				why = "the pad-checking loop can be left before all pad bytes were compared and still succeed"
				continue
			}
			// inside: if tail[i] != byte(pad) -> reject
			for _, b := range f.Blocks {
				if !h.Dominates(b) || b == h {
					continue
				}
				ifi2, ok := lastIf(b)
				if !ok {
					continue
				}
				c2, ok := ifi2.Cond.(*ssa.BinOp)
				if !ok || (c2.Op != token.NEQ && c2.Op != token.EQL) {
					continue
				}
				ps := 1
				if c2.Op == token.EQL {
					ps = 0
				}
				// the comparison must run on every iteration (its block dominates every back edge source)
				everyIter := true
				for _, pr := range h.Preds {
					if h.Dominates(pr) && !b.Dominates(pr) {
						everyIter = false
					}
				}
				// and compare element [i] (or [len-1-i]) of the data with the pad value
				_, idx, isLd := loadOfIndex(stripConvAll(c2.X))
				other := c2.Y
				if !isLd {
					_, idx, isLd = loadOfIndex(stripConvAll(c2.Y))
					other = c2.X
				}
				usesI := false
				if isLd {
					a := affineOf(idx)
					if co, ok := a.coef[p]; ok && (co == 1 || co == -1) {
						usesI = true
					}
				}
				if !everyIter || !usesI || !isPad(stripConvAll(other), ifi2) {
					why = "the pad-byte comparison is conditional or does not compare element i with the pad length"
					continue
				}
				r := evalReject(c.P, f, []Atom{{ifi2, ps, "pad byte equals pad"}}, spec)
				if r.OK {
					okLoop = true
				} else {
					why = r.Why
				}
			}
		}
	}
	// alternative: `for _, b := range src[len(src)-pad:] { if b != byte(pad) { reject } }`
	for _, h := range loopHeaders(f) {
		if okLoop {
			break
		}
		ifi, ok := lastIf(h)
		if !ok {
			continue
		}
		cmp, ok := ifi.Cond.(*ssa.BinOp)
		if !ok || cmp.Op != token.LSS {
			continue
		}
		inc, ok := cmp.X.(*ssa.BinOp)
		if !ok || inc.Op != token.ADD {
			continue
		}
		p, ok := inc.X.(*ssa.Phi)
		if !ok || p.Block() != h {
			continue
		}
		if iv, ok := inductionOf(p); !ok || iv.step != 1 || iv.init != -1 {
			continue
		}
		var tail *ssa.Slice
		isLenOf(cmp.Y, func(x ssa.Value) bool {
			if sl, ok := x.(*ssa.Slice); ok {
				tail = sl
			}
			return false
		})
		if tail == nil || tail.X != data || tail.High != nil || tail.Low == nil {
			continue
		}
		lo, ok := tail.Low.(*ssa.BinOp)
		if !ok || lo.Op != token.SUB || !isLenOf(lo.X, isData) || !isPad(stripConvAll(lo.Y), ifi) {
			continue
		}
		// the loop is left only by exhausting the tail or through a rejection
		inLoop := map[*ssa.BasicBlock]bool{h: true}
		for _, b := range f.Blocks {
			if h.Dominates(b) && b != h && reach([]*ssa.BasicBlock{b}, nil)[h] {
				inLoop[b] = true
			}
		}
		exSucc := successExits(f, spec)
		early := false
		for b := range inLoop {
			for si, sc := range b.Succs {
				if inLoop[sc] || (b == h && si == 1) {
					continue
				}
				e := edge{b, sc}
				if r, _ := canReachSuccess(sc, &e, exSucc, nil); r {
					early = true
				}
			}
		}
		if early {
			why = "the pad-checking loop can be left before all pad bytes were compared and still succeed"
			continue
		}
		for b := range inLoop {
			if b == h {
				continue
			}
			ifi2, ok := lastIf(b)
			if !ok {
				continue
			}
			c2, ok := ifi2.Cond.(*ssa.BinOp)
			if !ok || (c2.Op != token.NEQ && c2.Op != token.EQL) {
				continue
			}
			ps := 1
			if c2.Op == token.EQL {
				ps = 0
			}
			everyIter := true
			for _, pr := range h.Preds {
				if h.Dominates(pr) && !b.Dominates(pr) {
					everyIter = false
				}
			}
			base, idx, isLd := loadOfIndex(stripConvAll(c2.X))
			other := c2.Y
			if !isLd {
				base, idx, isLd = loadOfIndex(stripConvAll(c2.Y))
				other = c2.X
			}
			if !isLd || base != ssa.Value(tail) || idx != ssa.Value(inc) || !everyIter || !isPad(stripConvAll(other), ifi2) {
				continue
			}
			if r := evalReject(c.P, f, []Atom{{ifi2, ps, "pad byte equals pad"}}, spec); r.OK {
				okLoop = true
			} else {
				why = r.Why
			}
		}
	}
	// general form: any counted loop (either direction, any start) whose compared element positions, as linear forms
	// over LEN = len(data) and PAD, run exactly from LEN-PAD to LEN-1
	if !okLoop {
		var lf func(v ssa.Value, depth int) (linForm, bool)
		sym := func(name string) linForm { return linForm{coef: map[string]int64{name: 1}} }
		lf = func(v ssa.Value, depth int) (linForm, bool) {
			if depth > 10 {
				return linForm{}, false
			}
			if k, ok := constInt(v); ok {
				return linForm{k: k, coef: map[string]int64{}}, true
			}
			if in, ok := v.(ssa.Instruction); ok && isPad(stripConvAll(v), in) {
				return sym("PAD"), true
			}
			if isLenOf(v, isData) {
				return sym("LEN"), true
			}
			switch x := v.(type) {
			case *ssa.Convert:
				return lf(x.X, depth+1)
			case *ssa.ChangeType:
				return lf(x.X, depth+1)
			case *ssa.BinOp:
				if x.Op == token.ADD || x.Op == token.SUB {
					a, ok1 := lf(x.X, depth+1)
					b, ok2 := lf(x.Y, depth+1)
					if ok1 && ok2 {
						if x.Op == token.ADD {
							return a.add(b, 1), true
						}
						return a.add(b, -1), true
					}
				}
			case *ssa.Call:
				// len(data[lo:]) / len(data[lo:hi])
				if bi, ok := x.Call.Value.(*ssa.Builtin); ok && bi.Name() == "len" {
					if sl, ok := x.Call.Args[0].(*ssa.Slice); ok && isData(sl.X) {
						hi, lo := sym("LEN"), linForm{coef: map[string]int64{}}
						okH, okL := true, true
						if sl.High != nil {
							hi, okH = lf(sl.High, depth+1)
						}
						if sl.Low != nil {
							lo, okL = lf(sl.Low, depth+1)
						}
						if okH && okL {
							return hi.add(lo, -1), true
						}
					}
				}
			}
			return sym(fmt.Sprintf("%s@%p", v.Name(), v)), true
		}
		for _, h := range loopHeaders(f) {
			if okLoop {
				break
			}
			ifi, ok := lastIf(h)
			if !ok {
				continue
			}
			cmp, ok := ifi.Cond.(*ssa.BinOp)
			if !ok {
				continue
			}
			for _, p := range phisOf(h) {
				if len(p.Edges) != 2 {
					continue
				}
				// init edge from outside, step edge phi±1 from inside
				var init ssa.Value
				step := int64(0)
				for i, e := range p.Edges {
					a := affineOf(e)
					if h.Dominates(h.Preds[i]) && len(a.coef) == 1 && a.coef[p] == 1 && (a.k == 1 || a.k == -1) {
						step = a.k
					} else if !h.Dominates(h.Preds[i]) {
						init = e
					}
				}
				if init == nil || step == 0 {
					continue
				}
				// the loop test on p (or on p+1, the range form): first and last value of the counter
				tested := affineOf(cmp.X)
				boundV := cmp.Y
				op := cmp.Op
				if len(tested.coef) != 1 || tested.coef[p] != 1 {
					tested = affineOf(cmp.Y)
					boundV = cmp.X
					switch op {
					case token.LSS:
						op = token.GTR
					case token.LEQ:
						op = token.GEQ
					case token.GTR:
						op = token.LSS
					case token.GEQ:
						op = token.LEQ
					}
				}
				if len(tested.coef) != 1 || tested.coef[p] != 1 {
					continue
				}
				first, ok1 := lf(init, 0)
				bound, ok2 := lf(boundV, 0)
				if !ok1 || !ok2 {
					continue
				}
				// the body runs for counter values c with (c + tested.k) op bound; range loops test p+1 and use p+1
				shift := linForm{k: tested.k, coef: map[string]int64{}}
				first = first.add(shift, 1) // value of the tested expression in the first iteration
				one := linForm{k: 1, coef: map[string]int64{}}
				var last linForm
				switch {
				case step == 1 && op == token.LSS:
					last = bound.add(one, -1)
				case step == 1 && op == token.LEQ:
					last = bound
				case step == -1 && op == token.GTR:
					last = bound.add(one, 1)
				case step == -1 && op == token.GEQ:
					last = bound
				default:
					continue
				}
				// `first`/`last` are values of t = p + tested.k; the loop leaves only by the test or by a rejection
				inLoop := map[*ssa.BasicBlock]bool{h: true}
				for _, b := range f.Blocks {
					if h.Dominates(b) && b != h && reach([]*ssa.BasicBlock{b}, nil)[h] {
						inLoop[b] = true
					}
				}
				exSucc := successExits(f, spec)
				early := false
				for b := range inLoop {
					for si, sc := range b.Succs {
						if inLoop[sc] || (b == h && si == 1) {
							continue
						}
						e := edge{b, sc}
						if r, _ := canReachSuccess(sc, &e, exSucc, nil); r {
							early = true
						}
					}
				}
				if early {
					why = "the pad-checking loop can be left before all pad bytes were compared and still succeed"
					continue
				}
				for b := range inLoop {
					if b == h {
						continue
					}
					ifi2, ok := lastIf(b)
					if !ok {
						continue
					}
					c2, ok := ifi2.Cond.(*ssa.BinOp)
					if !ok || (c2.Op != token.NEQ && c2.Op != token.EQL) {
						continue
					}
					ps := 1
					if c2.Op == token.EQL {
						ps = 0
					}
					everyIter := true
					for _, pr := range h.Preds {
						if h.Dominates(pr) && !b.Dominates(pr) {
							everyIter = false
						}
					}
					base, idx, isLd := loadOfIndex(stripConvAll(c2.X))
					other := c2.Y
					if !isLd {
						base, idx, isLd = loadOfIndex(stripConvAll(c2.Y))
						other = c2.X
					}
					if !isLd || !everyIter || !isPad(stripConvAll(other), ifi2) {
						continue
					}
					// absolute position = low bound of the slice the element is taken from + index
					off := linForm{coef: map[string]int64{}}
					if sl, isSl := base.(*ssa.Slice); isSl && isData(sl.X) {
						if sl.Low != nil {
							o, ok := lf(sl.Low, 0)
							if !ok {
								continue
							}
							off = o
						}
					} else if !isData(base) {
						continue
					}
					ia := affineOf(idx)
					cp, has := ia.coef[p]
					if !has || (cp != 1 && cp != -1) {
						continue
					}
					rest := linForm{k: ia.k, coef: map[string]int64{}}
					okRest := true
					for v, cv := range ia.coef {
						if v == ssa.Value(p) {
							continue
						}
						l, ok := lf(v, 0)
						if !ok || (cv != 1 && cv != -1) {
							okRest = false
							break
						}
						rest = rest.add(l, cv)
					}
					if !okRest {
						continue
					}
					// counter value = t - tested.k
					at := func(t linForm) linForm { return off.add(rest, 1).add(t.add(shift, -1), cp) }
					a1, a2 := at(first), at(last)
					lo := sym("LEN").add(sym("PAD"), -1)
					hi := sym("LEN").add(one, -1)
					if !((a1.equal(lo) && a2.equal(hi)) || (a1.equal(hi) && a2.equal(lo))) {
						why = "the pad-byte loop does not run exactly over positions len-pad .. len-1"
						continue
					}
					if r := evalReject(c.P, f, []Atom{{ifi2, ps, "pad byte equals pad"}}, spec); r.OK {
						okLoop = true
					} else {
						why = r.Why
					}
				}
			}
		}
	}
	// alternative: bytes.Equal / ConstantTimeCompare against bytes.Repeat
	for _, ifi := range ifsOf(f) {
		if a, b, ps, ok := eqTest(ifi); ok {
			sa, sb := be.bytesOf(a, ifi).String(), be.bytesOf(b, ifi).String()
			if strings.Contains(sa+sb, "bytes.Repeat") {
				if r := evalReject(c.P, f, []Atom{{ifi, ps, "pad bytes"}}, spec); r.OK {
					okLoop = true
				}
			}
		}
	}
	c.Check(okLoop, rule, fn, "every pad byte is compared", "", "the un-padder must verify all pad bytes, not only the last one: "+why, f.Pos())
}

// retainedParams: a Store whose address lies in a package-level variable and whose value is a slice parameter of the
// function (or a re-slice of one): the package keeps a reference to caller-owned memory beyond the call.
func retainedParams(c *Ctx, rule, pkg string) {
	var isGlobalAddr func(v ssa.Value, d int) *ssa.Global
	isGlobalAddr = func(v ssa.Value, d int) *ssa.Global {
		if d > 6 {
			return nil
		}
		switch x := v.(type) {
		case *ssa.Global:
			return x
		case *ssa.FieldAddr:
			return isGlobalAddr(x.X, d+1)
		case *ssa.IndexAddr:
			return isGlobalAddr(x.X, d+1)
		}
		return nil
	}
	var paramOf func(v ssa.Value, d int) *ssa.Parameter
	paramOf = func(v ssa.Value, d int) *ssa.Parameter {
		if d > 6 {
			return nil
		}
		switch x := v.(type) {
		case *ssa.Parameter:
			if _, ok := x.Type().Underlying().(*types.Slice); ok {
				return x
			}
		case *ssa.Slice:
			return paramOf(x.X, d+1)
		case *ssa.ChangeType:
			return paramOf(x.X, d+1)
		}
		return nil
	}
	n := 0
	for f := range c.P.AllFns {
		if !inRepo(f) || f.Pkg == nil || f.Pkg.Pkg.Name() != pkg || f.Blocks == nil || strings.HasSuffix(c.P.relFile(f.Pos()), "_test.go") {
			continue
		}
		instrsOf(f, func(_ *ssa.BasicBlock, in ssa.Instruction) {
			st, ok := in.(*ssa.Store)
			if !ok {
				return
			}
			g := isGlobalAddr(st.Addr, 0)
			if g == nil {
				return
			}
			n++
			if p := paramOf(st.Val, 0); p != nil {
				if why, ok := retainExempt[fname(f)+"|"+g.Name()]; ok {
					c.Holds(rule, fname(f), "store of parameter "+pname(p)+" into package variable "+g.Name(), "exempt: "+why, st.Pos())
					return
				}
				c.Violated(rule, fname(f), "store of parameter "+pname(p)+" into package variable "+g.Name(), "the slice "+pname(p)+" passed by the caller is stored in the package-level variable "+g.Name()+" without a copy: the package keeps an alias of caller memory, so a later call compares or uses whatever the caller has written there since (a cached key schedule is reused for a different key in the same buffer)", st.Pos())
			}
		})
	}
	c.Holds(rule, pkg, "no slice parameter is kept in package-level state", fmt.Sprintf("%d stores into package variables inspected", n), token.NoPos)
}

// retainExempt: one named (function|variable) pair per exemption, with the invariant that justifies it
var retainExempt = map[string]string{
	"sm4.SetIV|IV": "installing the caller's 16-byte slice as the process-wide IV is the documented purpose of SetIV (the exported variable IV can be assigned directly as well); the interference this global causes is the known finding recorded under C20",
}
