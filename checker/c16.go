package main

// C16 — resumption preserves the session or falls back; tickets are authenticated

import (
	"fmt"
	"go/token"
	"sort"
	"strings"

	"golang.org/x/tools/go/ssa"
)

func init() { register("C16", checkC16) }

func checkC16(c *Ctx) {
	defer c16Clone(c)
	defer c16ClientTicketsDisabled(c)
	defer c16SessionID(c)
	defer c16Ekm(c)
	defer msgFrozenAfterMarshal(c, "K-MSG-frozen")
	defer sharedSliceImmutable(c, "L-PUBLISHED", "gmtls", "sessionTicketKeys", 4,
		"the published ticket-key slice is replaced as a whole, never written in place",
		"clones of the Config (and configs returned by GetConfigForClient) share the slice: refilling it in place on rotation silently changes the keys of the clones, whose own tickets then stop resuming")

	c.Decided = append(c.Decided,
		"G-C16-clone: Config.Clone stores every field of Config into the clone (fields of package sync exempt) — instances from the struct type",
		"G-C16-clientdisabled: a branch of clientHandshake depends on Config.SessionTicketsDisabled",
		"G-C16-ticket: decryptTicket rejects short tickets, unknown key names and any ticket whose HMAC-SHA256 (key of the named ticket key, over key name || IV || ciphertext) differs from the trailing MAC in a constant-time comparison; the AES-CTR decryption and the state parser run only after the MAC matched; tickets are never accepted when disabled",
		"K-C16-layout: encryptTicket and decryptTicket agree on the ticket layout (offsets of key name, IV, ciphertext, MAC; MAC over everything before it); every call site hands decryptTicket a private copy because it decrypts in place",
		"T-C16-state: sessionState.marshal, unmarshal and equal cover the same set of fields (version, suite, master secret, certificates)",
		"G-C16-gate: both servers refuse to resume when tickets are disabled, the ticket does not decrypt, the version differs, the session's suite is not offered or not configured, or the client-certificate policy and the session disagree; resumption is entered only when that gate returned true; both clients check the resumed session's version and suite against the ServerHello",
		"K-C16-restore: a resumed handshake takes the master secret from the session state / cached session and not from a key exchange")
	c.NotDec = append(c.NotDec, "that ticket keys no longer configured cannot decrypt (follows from the key-name lookup over the current keys)", "behaviour across histories of rotations and cache evictions (runtime)", "secrecy of tickets (cryptographic)")
	getFX(c)
	c16Ticket(c)
	c16State(c)
	c16Gate(c)
	c16TicketState(c)
	c16LRU(c)
	c16SharedKeys(c)
	hashFed(c, "G-HASH-fed", []string{"gmtls"})
	c15FinishedHash(c) // the resumed GMSSL handshake builds its transcript hash with newFinishedHash
}

func c16Ticket(c *Ctx) {
	rule := "G-C16-ticket"
	d := c.Fn("gmtls", "(*Conn).decryptTicket")
	e := c.Fn("gmtls", "(*Conn).encryptTicket")
	if d == nil || e == nil {
		c.Missing(rule, "gmtls.(*Conn).decryptTicket/encryptTicket", "methods", "not found")
		return
	}
	spec := resultSpec{1, "bool"}
	ci := newCondIndex(d, allParamNames(d))
	for k, v := range ci.conds {
		ci.conds[k] = fieldForm(v)
	}
	ci.require(c, rule, "tickets are refused when disabled", `c.config.SessionTicketsDisabled`, false, spec, nil, "with SessionTicketsDisabled no ticket may be accepted")
	// decided on values: with len(encrypted) in 0..63 (shorter than key name + IV + MAC) no accepting return is reachable
	{
		var r bool
		var w *ssa.BasicBlock
		ci.withInterval("len(encrypted)", 0, 63, func() {
			r, w = canReachSuccess(d.Blocks[0], nil, successExits(d, spec), deadEdges(d))
		})
		c.Evals += len(ci.conds)
		construct := "a ticket shorter than key name + IV + MAC is refused"
		if r {
			c.Violated(rule, fname(d), construct, "a truncated ticket must be refused (it is sliced at fixed offsets): with len(encrypted) in 0..63 the accepting return at "+c.P.pos(lastPos(w))+" is reachable", lastPos(w))
		} else {
			c.Holds(rule, fname(d), construct, "with len(encrypted) in 0..63 no accepting return is reachable (decided on values)", d.Pos())
		}
	}
	ci.require(c, rule, "a ticket under an unknown key name is refused", `re:eq\(\?phi\d+,0xffffffffffffffff\)`, false, spec, nil, "a ticket issued under keys that are no longer configured must be refused")
	// MAC
	macPat := `re:ne\(call:crypto/subtle\.ConstantTimeCompare\(slice\(encrypted,sub\(len\(encrypted\),0x20\),_\),call:Sum\(const:nil:\[\]byte\)\),0x1\)`
	ci.require(c, rule, "a ticket whose MAC differs is refused (constant-time comparison)", macPat, false, spec, nil, "any change to a ticket must be detected before it is used")
	// the decryption and the parser run only after the MAC matched
	atoms := ci.atoms(macPat, false)
	var sinks []ssa.Instruction
	for _, x := range callsNamedIn(d, "XORKeyStream") {
		sinks = append(sinks, x)
	}
	for _, x := range callsNamedIn(d, "unmarshal") {
		sinks = append(sinks, x)
	}
	g := evalGuardSinks(c.P, d, atoms, spec, sinks)
	c.Check(g.OK && len(sinks) == 2, rule, fname(d), "decryption and parsing happen only after the MAC matched", g.Why, "the ticket contents are decrypted or parsed before (or without) the MAC check: "+g.Why, d.Pos())
	// the HMAC: key = the named key's hmacKey, input = encrypted[:len-32]
	var ebuf ssa.Value
	instrsOf(e, func(_ *ssa.BasicBlock, in ssa.Instruction) {
		if ms, ok := in.(*ssa.MakeSlice); ok && ebuf == nil {
			ebuf = ms
		}
	})
	namesOf := func(f *ssa.Function) map[ssa.Value]string {
		n := allParamNames(f)
		if f == e && ebuf != nil {
			n[ebuf] = "encrypted"
		}
		return n
	}
	describe := func(f *ssa.Function) (key, input string) {
		be := newBigEnv(f, namesOf(f))
		for _, call := range callsNamedIn(f, "New") {
			if calleeID(&call.Call) == "crypto/hmac.New" {
				key = fieldForm(be.bytesOf(call.Call.Args[1], call).String())
			}
		}
		for _, w := range callsNamedIn(f, "Write") {
			if w.Call.IsInvoke() {
				input = fieldForm(be.bytesOf(w.Call.Args[0], w).String())
			}
		}
		return
	}
	dk, di := describe(d)
	ek, ei := describe(e)
	dbg("C16 hmac decrypt key=%s input=%s; encrypt key=%s input=%s", dk, di, ek, ei)
	c.Check(strings.Contains(dk, "hmacKey") && (strings.Contains(dk, "sessionTicketKeys") || strings.Contains(dk, ".ticketKeys(")), rule, fname(d), "the MAC key is the hmacKey of the ticket key found by name", "", "HMAC key is "+dk, d.Pos())
	c.Check(di == "slice(encrypted,_,sub(len(encrypted),0x20))", rule, fname(d), "the MAC covers key name || IV || ciphertext", "", "HMAC input is "+di, d.Pos())
	// layout agreement
	lrule := "K-C16-layout"
	if ei != "slice(encrypted,_,sub(len(encrypted),0x20))" && ebuf != nil {
		// the same prefix written with other partial sums: encrypted[:macStart] with macStart = total - 32
		if mk, isMk := ebuf.(*ssa.MakeSlice); isMk {
			ebe := newBigEnv(e, namesOf(e))
			if total, okT := ebe.linOf(mk.Len, mk, 0); okT {
				for _, w := range callsNamedIn(e, "Write") {
					if !w.Call.IsInvoke() {
						continue
					}
					if sl, isSl := w.Call.Args[0].(*ssa.Slice); isSl && sl.X == ebuf && sl.Low == nil && sl.High != nil {
						if hi, okH := ebe.linOf(sl.High, sl, 0); okH {
							if d := total.add(hi, -1); len(d.coef) == 0 && d.k == 32 {
								ei = "slice(encrypted,_,sub(len(encrypted),0x20))"
							}
						}
					}
				}
			}
		}
	}
	c.Check(strings.Contains(ek, "hmacKey") && ei == "slice(encrypted,_,sub(len(encrypted),0x20))", lrule, fname(e), "the issuing side MACs everything before the MAC with the first key's hmacKey", "", "encryptTicket: key "+ek+", input "+ei, e.Pos())
	// slices of the ticket on both sides
	layout := func(f *ssa.Function, buf ssa.Value) []string {
		be := newBigEnv(f, namesOf(f))
		var out []string
		instrsOf(f, func(_ *ssa.BasicBlock, in ssa.Instruction) {
			if sl, ok := in.(*ssa.Slice); ok && sl.X == buf {
				lo, hi := "0", "len"
				if sl.Low != nil {
					lo = be.plain(sl.Low, sl).String()
				}
				if sl.High != nil {
					hi = be.plain(sl.High, sl).String()
				}
				// a bound of a buffer made here with a known total length: as a constant, or as len - constant, whatever
				// local names and partial sums it is written with (bodyStart, macStart := bodyStart+len(state), ...)
				if mk, isMk := buf.(*ssa.MakeSlice); isMk {
					if total, okT := be.linOf(mk.Len, mk, 0); okT {
						rel := func(v ssa.Value, cur string) string {
							if v == nil {
								return cur
							}
							var lf linForm
							if isLenOf(v, func(x ssa.Value) bool { return x == buf }) {
								lf = total
							} else if l2, ok2 := be.linOf(v, sl, 0); ok2 {
								lf = l2
							} else {
								return cur
							}
							if len(lf.coef) == 0 {
								if lf.k == 0 {
									return "0"
								}
								return fmt.Sprintf("0x%x", lf.k)
							}
							if d := total.add(lf, -1); len(d.coef) == 0 && d.k >= 0 {
								if d.k == 0 {
									return "len"
								}
								return fmt.Sprintf("sub(len,0x%x)", d.k)
							}
							return cur
						}
						lo, hi = rel(sl.Low, lo), rel(sl.High, hi)
					}
				}
				norm := func(s string) string {
					s = strings.ReplaceAll(s, "len(encrypted)", "len")
					s = strings.ReplaceAll(s, "len(?*ssa.MakeSlice)", "len")
					return s
				}
				out = append(out, norm(lo)+":"+norm(hi))
			}
		})
		sort.Strings(out)
		var uniq []string
		for i, s := range out {
			if i == 0 || s != out[i-1] {
				uniq = append(uniq, s)
			}
		}
		return uniq
	}
	dl := layout(d, d.Params[1])
	var el []string
	if ebuf != nil {
		el = layout(e, ebuf)
	}
	dbg("C16 layout decrypt=%v encrypt=%v", dl, el)
	want := []string{"0:0x10", "0:sub(len,0x20)", "0x10:0x20", "0x20:sub(len,0x20)", "sub(len,0x20):len"}
	okD := strings.Join(dl, " ") == strings.Join(want, " ")
	c.Check(okD, lrule, fname(d), "ticket = key name[0:16] || IV[16:32] || ciphertext[32:len-32] || MAC[len-32:]", "", "decryptTicket slices the ticket at "+strings.Join(dl, " "), d.Pos())
	wantE := []string{"0:0x10", "0:sub(len,0x20)", "0x10:0x20", "0x20:len", "sub(len,0x20):len"}
	okE := strings.Join(el, " ") == strings.Join(wantE, " ")
	c.Check(okE, lrule, fname(e), "the issuing side writes the same four regions", "", "encryptTicket slices the ticket at "+strings.Join(el, " "), e.Pos())
	// every call site passes a private copy (decryptTicket decrypts in place)
	n := 0
	for _, f := range c.P.RepoFuncs("gmtls") {
		file := c.P.relFile(f.Pos())
		if file == "gmtls/gm_handshake_server.go" || file == "gmtls/gm_handshake_client.go" {
			continue
		}
		for _, call := range callsNamedIn(f, "decryptTicket") {
			n++
			arg := call.Call.Args[1]
			fresh := false
			if ap, ok := arg.(*ssa.Call); ok {
				if bi, ok := ap.Call.Value.(*ssa.Builtin); ok && bi.Name() == "append" && appendIsFresh(ap.Call.Args[0]) {
					fresh = true
				}
			}
			c.Check(fresh, lrule, fname(f), fmt.Sprintf("decryptTicket #%d is given a private copy of the ticket", n), "", "decryptTicket decrypts in place: handing it the ClientHello's own bytes corrupts the message that is later hashed into the transcript", call.Pos())
		}
	}
	if n < 2 {
		c.Undecided(lrule, "gmtls", "decryptTicket call sites", fmt.Sprintf("only %d found", n), token.NoPos)
	}
}

func c16State(c *Ctx) {
	rule := "T-C16-state"
	fields := func(name string, writes bool) (map[string]bool, *ssa.Function) {
		f := c.Fn("gmtls", name)
		if f == nil {
			return nil, nil
		}
		out := map[string]bool{}
		instrsOf(f, func(_ *ssa.BasicBlock, in ssa.Instruction) {
			fa, ok := in.(*ssa.FieldAddr)
			if !ok || !strings.HasSuffix(fa.X.Type().String(), "gmtls.sessionState") {
				return
			}
			for _, u := range *fa.Referrers() {
				switch x := u.(type) {
				case *ssa.Store:
					if writes && x.Addr == ssa.Value(fa) {
						out[fieldName(fa.X.Type(), fa.Field)] = true
					}
				case *ssa.UnOp:
					if !writes {
						out[fieldName(fa.X.Type(), fa.Field)] = true
					}
				case *ssa.IndexAddr:
					if writes {
						out[fieldName(fa.X.Type(), fa.Field)] = true
					}
				}
			}
		})
		return out, f
	}
	m, mf := fields("(*sessionState).marshal", false)
	u, uf := fields("(*sessionState).unmarshal", true)
	q, qf := fields("(*sessionState).equal", false)
	if mf == nil || uf == nil || qf == nil {
		c.Missing(rule, "gmtls.(*sessionState).marshal/unmarshal/equal", "methods", "not found")
		return
	}
	keys := func(s map[string]bool) string {
		var ks []string
		for k := range s {
			ks = append(ks, k)
		}
		sort.Strings(ks)
		return strings.Join(ks, ",")
	}
	want := "certificates,cipherSuite,masterSecret,vers"
	c.Check(keys(m) == want, rule, fname(mf), "marshal writes version, suite, master secret and certificates", "", "marshal reads the fields "+keys(m), mf.Pos())
	c.Check(keys(u) == want, rule, fname(uf), "unmarshal restores version, suite, master secret and certificates", "", "unmarshal sets the fields "+keys(u), uf.Pos())
	c.Check(keys(q) == want, rule, fname(qf), "equal compares the same fields", "", "equal looks at the fields "+keys(q), qf.Pos())
	// unmarshal accepts only when every byte was consumed
	ci := newCondIndex(uf, allParamNames(uf))
	// every non-constant result is an equality that involves the input's length (`len(rest) == 0`, `off == len(data)`);
	// a constant true result accepts whatever is left over
	okEnd, constTrue, other := false, false, ""
	for _, b := range uf.Blocks {
		if ret, isRet := b.Instrs[len(b.Instrs)-1].(*ssa.Return); isRet {
			if k, isK := ret.Results[0].(*ssa.Const); isK {
				if k.Value != nil && k.Value.String() == "true" {
					constTrue = true
				}
				continue
			}
			s := ci.be.plain(ret.Results[0], ret).String()
			if strings.HasPrefix(s, "eq(") && strings.Contains(s, "len(") {
				okEnd = true
			} else {
				other = s
			}
		}
	}
	switch {
	case constTrue:
		c.Violated(rule, fname(uf), "trailing bytes make the state invalid", "unmarshal has an unconditional `return true`: bytes left over after the last certificate are accepted", uf.Pos())
	case okEnd && other == "":
		c.Holds(rule, fname(uf), "trailing bytes make the state invalid", "the only non-constant result is an equality over the input's length", uf.Pos())
	default:
		c.Undecided(rule, fname(uf), "trailing bytes make the state invalid", "the final result is not an equality over the input's length: "+other, uf.Pos())
	}
	// ... and on nothing else: the MAC has already authenticated the ticket, so unmarshal must accept every state
	// marshal can produce — no test on the VALUE of a decoded field (a range check on vers refuses every GMSSL
	// ticket, 0x0101 lying below SSL 3.0)
	badCond := ""
	for _, cs := range ci.conds {
		for _, fld := range []string{"vers", "cipherSuite"} {
			if strings.Contains(cs, pnameOfRecv(uf)+"."+fld) || strings.Contains(cs, "field:"+fld+"(") {
				badCond = cs
			}
		}
	}
	c.Check(badCond == "", rule, fname(uf), "unmarshal decides on lengths only", "", "unmarshal rejects by the value of a decoded field ("+badCond+"): states that marshal produces — e.g. a GMSSL session, version 0x0101 — are refused and their tickets never resume", uf.Pos())
}

// c16SessionID: with tickets, a ServerHello that echoes the client's session ID means "resumed". Only the resumption
// flight may therefore fill serverHelloMsg.sessionId; a full handshake that echoes it makes a client whose ticket was
// declined believe it was accepted, and the handshake breaks instead of falling back.
func c16SessionID(c *Ctx) {
	rule := "K-C16-restore"
	n := 0
	for f := range c.P.AllFns {
		if !inRepo(f) || f.Pkg == nil || f.Pkg.Pkg.Name() != "gmtls" || f.Blocks == nil || strings.HasSuffix(c.P.relFile(f.Pos()), "_test.go") {
			continue
		}
		instrsOf(f, func(_ *ssa.BasicBlock, in ssa.Instruction) {
			st, ok := in.(*ssa.Store)
			if !ok {
				return
			}
			fa, ok := st.Addr.(*ssa.FieldAddr)
			if !ok || fieldName(fa.X.Type(), fa.Field) != "sessionId" || !strings.HasSuffix(fa.X.Type().String(), "serverHelloMsg") {
				return
			}
			if f.Name() == "unmarshal" || isNilConst(st.Val) {
				return
			}
			n++
			c.Check(strings.Contains(f.Name(), "doResumeHandshake"), rule, fname(f), "the ServerHello carries a session ID only when resuming", "", "a function other than the resumption flight sets ServerHello.sessionId: with session tickets an echoed session ID tells the client that its ticket was accepted, so a full handshake that echoes it is taken for a resumption and aborts", st.Pos())
		})
	}
	if n == 0 {
		c.Undecided(rule, "gmtls", "stores to ServerHello.sessionId", "none found", token.NoPos)
	}
}

func c16Gate(c *Ctx) {
	rule := "G-C16-gate"
	spec := resultSpec{0, "bool"}
	for _, name := range []string{"(*serverHandshakeStateGM).checkForResumption", "(*serverHandshakeState).checkForResumption"} {
		f := c.Fn("gmtls", name)
		if f == nil {
			c.Missing(rule, "gmtls."+name, "method", "not found")
			continue
		}
		names := allParamNames(f)
		// a value that is stored into hs.sessionState (exactly once) IS the session state: name it so, whether the
		// code goes on to use the field or a local copy of the pointer
		{
			var stored []ssa.Value
			instrsOf(f, func(_ *ssa.BasicBlock, in ssa.Instruction) {
				if st, ok := in.(*ssa.Store); ok {
					if fa, ok := st.Addr.(*ssa.FieldAddr); ok && fieldName(fa.X.Type(), fa.Field) == "sessionState" && fa.X == ssa.Value(f.Params[0]) {
						stored = append(stored, st.Val)
					}
				}
			})
			if len(stored) == 1 {
				if _, isConst := stored[0].(*ssa.Const); !isConst {
					names[stored[0]] = "hs.sessionState"
				}
			}
		}
		ci := newCondIndex(f, names)
		for k, v := range ci.conds {
			ci.conds[k] = fieldForm(v)
		}
		ci.require(c, rule, "no resumption when tickets are disabled", `hs.c.config.SessionTicketsDisabled`, false, spec, nil, "")
		ci.require(c, rule, "no resumption unless the ticket decrypts and authenticates", `re:res1\(call:\(\*gmtls\.Conn\)\.decryptTicket\(hs\.c,.*\)\)`, true, spec, nil, "")
		ci.require(c, rule, "no resumption across protocol versions", `ne(hs.c.vers,hs.sessionState.vers)`, false, spec, nil, "")
		ci.require(c, rule, "no resumption unless the suite is configured", `re:call:\(\*gmtls\.serverHandshakeState(GM)?\)\.setCipherSuite\(hs,hs\.sessionState\.cipherSuite,call:\(\*gmtls\.Config\)\.cipherSuites\(hs\.c\.config\),hs\.sessionState\.vers\)`, true, spec, nil, "")
		// the offered-suite test: a flag set only when a client-offered suite equals the session's
		offered := false
		for _, s := range ci.conds {
			if strings.HasPrefix(s, "eq(idx(hs.clientHello.cipherSuites,") && strings.HasSuffix(s, ",hs.sessionState.cipherSuite)") {
				offered = true
			}
		}
		// the flag phi is tested and false rejects
		var flagAtoms []Atom
		for ifi := range ci.conds {
			if phi, ok := ifi.Cond.(*ssa.Phi); ok && strings.Contains(phi.Comment, "cipherSuiteOk") {
				flagAtoms = append(flagAtoms, Atom{ifi, 0, "suite offered"})
			}
		}
		g := evalGuardCut(c.P, f, flagAtoms, spec, nil, deadEdges(f))
		c.Check(offered && g.OK, rule, fname(f), "no resumption unless the client still offers the session's suite", g.Why, "the session's suite must be among the suites of this ClientHello: "+g.Why, f.Pos())
		// client certificate policy, decided semantically: ASSUME a policy value and whether the session carries client
		// certificates, and ask whether a true result is reachable (shape of the tests irrelevant: if/switch, named
		// booleans, `return hasCerts`)
		policy := func(polName string, sessionHasCerts bool) (reachable bool, found bool) {
			k, okc := pkgConst(c, "gmtls", polName)
			if !okc {
				return false, false
			}
			nLen := 0
			assumeFieldValue("ClientAuth", k, func() {
				inner := condEval
				condEval = func(v ssa.Value) (bool, bool) {
					if bo, ok := v.(*ssa.BinOp); ok {
						isCertsLen := func(x ssa.Value) bool {
							return isLenOf(x, func(y ssa.Value) bool {
								ld, ok := y.(*ssa.UnOp)
								if !ok {
									return false
								}
								fa, ok := ld.X.(*ssa.FieldAddr)
								return ok && fieldName(fa.X.Type(), fa.Field) == "certificates"
							})
						}
						if kk, isK := constInt(bo.Y); isK && kk == 0 && isCertsLen(bo.X) {
							nLen++
							switch bo.Op {
							case token.NEQ, token.GTR:
								return sessionHasCerts, true
							case token.EQL, token.LEQ:
								return !sessionHasCerts, true
							}
						}
					}
					return inner(v)
				}
				reachable, _ = canReachSuccess(f.Blocks[0], nil, successExits(f, spec), fieldValueCut(f, "ClientAuth", k))
			})
			return reachable, nLen > 0
		}
		for _, cs := range []struct {
			pol      string
			hasCerts bool
			what     string
		}{
			{"NoClientCert", true, "a session with client certificates is not resumed under NoClientCert"},
			{"RequireAnyClientCert", false, "a session without client certificates is not resumed under RequireAnyClientCert"},
			{"RequireAndVerifyClientCert", false, "a session without client certificates is not resumed under RequireAndVerifyClientCert"},
		} {
			c.Evals++
			r, found := policy(cs.pol, cs.hasCerts)
			c.Check(!r && found, rule, fname(f), cs.what, "", fmt.Sprintf("assuming ClientAuth == %s and a session %s client certificates, checkForResumption can still return true (test on the session's certificates found: %v)", cs.pol, map[bool]string{true: "with", false: "without"}[cs.hasCerts], found), f.Pos())
		}
		// and the converse, as far as a may-analysis can state it: where policy and session agree, a true result must
		// not have become unreachable (the ClientAuthType constants are not ordered by strictness — an ordering test
		// such as `ClientAuth < RequireAnyClientCert` silently stops resuming certificate-less sessions under
		// VerifyClientCertIfGiven). Unreachable in the abstraction means unreachable in every execution.
		for _, cs := range []struct {
			pol      string
			hasCerts bool
		}{
			{"NoClientCert", false}, {"RequestClientCert", false}, {"VerifyClientCertIfGiven", false},
			{"RequestClientCert", true}, {"VerifyClientCertIfGiven", true}, {"RequireAnyClientCert", true}, {"RequireAndVerifyClientCert", true},
		} {
			c.Evals++
			r, _ := policy(cs.pol, cs.hasCerts)
			with := map[bool]string{true: "with", false: "without"}[cs.hasCerts]
			c.Check(r, rule, fname(f), "a session "+with+" client certificates can be resumed under "+cs.pol, "", fmt.Sprintf("assuming ClientAuth == %s and a session %s client certificates, no path of checkForResumption returns true any more: valid tickets of such sessions are never resumed although the policy allows it", cs.pol, with), f.Pos())
		}
	}
	// resumption is entered only on the gate's true result
	for _, name := range []string{"(*serverHandshakeStateGM).readClientHello", "(*serverHandshakeState).readClientHello"} {
		f := c.Fn("gmtls", name)
		if f == nil {
			c.Missing(rule, "gmtls."+name, "method", "not found")
			continue
		}
		gates := callsNamedIn(f, "checkForResumption")
		n := 0
		okAll := len(gates) == 1
		for _, b := range f.Blocks {
			ret, isRet := b.Instrs[len(b.Instrs)-1].(*ssa.Return)
			if !isRet {
				continue
			}
			if cb, isC := constBool(ret.Results[0]); isC && cb {
				n++
				// dominated by the true edge of the gate
				dom := false
				for _, ifi := range ifsOf(f) {
					if len(gates) == 1 {
						if t := condTrueTarget(ifi, gates[0]); dominatedBy(t, ret) {
							dom = true
						}
					}
				}
				if !dom {
					okAll = false
				}
			} else if !isC {
				okAll = false // isResume computed some other way
			}
		}
		c.Check(okAll && n >= 1, rule, fname(f), "isResume is true only when checkForResumption returned true", "", "the abbreviated handshake can be selected without the resumption gate", f.Pos())
	}
	// clients: the resumed session's version and suite must match the ServerHello
	for _, name := range []string{"(*clientHandshakeStateGM).processServerHello", "(*clientHandshakeState).processServerHello"} {
		f := c.Fn("gmtls", name)
		if f == nil {
			c.Missing(rule, "gmtls."+name, "method", "not found")
			continue
		}
		spec2, _ := defaultResultSpec(f)
		ci := newCondIndex(f, allParamNames(f))
		for k, v := range ci.conds {
			ci.conds[k] = fieldForm(v)
		}
		// the checks concern the resumed path only: the `!hs.serverResumedSession()` exit is a full handshake
		bypass := map[edge]bool{}
		for _, rs := range callsNamedIn(f, "serverResumedSession") {
			for _, ifi := range ifsOf(f) {
				cur := ifi.Cond
				neg := false
				for {
					if u, ok := cur.(*ssa.UnOp); ok && u.Op == token.NOT {
						neg, cur = !neg, u.X
						continue
					}
					break
				}
				if cur == ssa.Value(rs) {
					b := ifi.Block()
					if neg {
						bypass[edge{b, b.Succs[0]}] = true
					} else {
						bypass[edge{b, b.Succs[1]}] = true
					}
				}
			}
		}
		c.Check(len(bypass) == 1, rule, fname(f), "the resumed path is selected by serverResumedSession()", "", "the test of serverResumedSession() was not found", f.Pos())
		ci.require(c, rule, "a resumed session of another version is refused", `ne(hs.session.vers,hs.c.vers)`, false, spec2, bypass, "")
		ci.require(c, rule, "a resumed session of another suite is refused", `ne(hs.session.cipherSuite,hs.suite.id)`, false, spec2, bypass, "")
		// K-C16-restore
		fs := fieldStores(f, ci.be)
		c.Check(strings.HasSuffix(fieldForm(fs["masterSecret"]), "session.masterSecret"), "K-C16-restore", fname(f), "the resumed master secret is the cached session's", "", "masterSecret is set to "+fs["masterSecret"], f.Pos())
		// the peer identity is restored here too, i.e. before the abbreviated flight (a renewed ticket is turned
		// into a new cache entry from Conn.peerCertificates while that flight is still running)
		c.Check(strings.HasSuffix(fieldForm(fs["peerCertificates"]), "session.serverCertificates") && strings.HasSuffix(fieldForm(fs["verifiedChains"]), "session.verifiedChains"), "K-C16-restore", fname(f), "the resumed peer certificates and chains are the cached session's, restored together with the master secret", "", "processServerHello sets peerCertificates="+fs["peerCertificates"]+" verifiedChains="+fs["verifiedChains"]+": when the server renews the ticket during the resumed handshake, the new cache entry is built from a Conn that does not hold the peer's certificates yet", f.Pos())
	}
	// the client's cache entry: ticket, version, suite, master secret and the peer identity of THIS connection
	for _, name := range []string{"(*clientHandshakeState).readSessionTicket", "(*clientHandshakeStateGM).readSessionTicket"} {
		f := c.Fn("gmtls", name)
		if f == nil {
			c.Missing("K-C16-restore", "gmtls."+name, "method", "not found")
			continue
		}
		be := newBigEnv(f, allParamNames(f))
		fs := fieldStores(f, be)
		get := func(k string) string { return fieldForm(fs[k]) }
		ok := strings.HasSuffix(get("vers"), "c.vers") && get("cipherSuite") == "hs.suite.id" && get("masterSecret") == "hs.masterSecret" && strings.HasSuffix(get("serverCertificates"), "c.peerCertificates") && strings.HasSuffix(get("verifiedChains"), "c.verifiedChains") && strings.HasSuffix(get("sessionTicket"), ".ticket")
		c.Check(ok, "K-C16-restore", fname(f), "the cached client session holds this connection's ticket, version, suite, master secret and peer certificates", "", fmt.Sprintf("the ClientSessionState is built from sessionTicket=%s vers=%s cipherSuite=%s masterSecret=%s serverCertificates=%s verifiedChains=%s", get("sessionTicket"), get("vers"), get("cipherSuite"), get("masterSecret"), get("serverCertificates"), get("verifiedChains")), f.Pos())
	}
	for _, name := range []string{"(*serverHandshakeStateGM).doResumeHandshake", "(*serverHandshakeState).doResumeHandshake"} {
		f := c.Fn("gmtls", name)
		if f == nil {
			c.Missing("K-C16-restore", "gmtls."+name, "method", "not found")
			continue
		}
		be := newBigEnv(f, allParamNames(f))
		fs := fieldStores(f, be)
		c.Check(strings.HasSuffix(fieldForm(fs["masterSecret"]), "sessionState.masterSecret"), "K-C16-restore", fname(f), "the resumed master secret is the ticket's", "", "masterSecret is set to "+fs["masterSecret"], f.Pos())
	}
}

// c16TicketState: the state sealed into a ticket is this session's (version, suite, master secret, client chain), and
// the client chain recorded for tickets is set exactly where the peer certificates are established — on full and on
// resumed handshakes alike — so a refreshed ticket carries the same identity as the one it replaces.
func c16TicketState(c *Ctx) {
	rule := "K-C16-ticketstate"
	for _, name := range []string{"(*serverHandshakeState).sendSessionTicket", "(*serverHandshakeStateGM).sendSessionTicket"} {
		f := c.Fn("gmtls", name)
		if f == nil {
			c.Missing(rule, "gmtls."+name, "method", "not found")
			continue
		}
		be := newBigEnv(f, allParamNames(f))
		fs := fieldStores(f, be)
		get := func(k string) string { return fieldForm(fs[k]) }
		ok := strings.HasSuffix(get("vers"), "c.vers") && get("cipherSuite") == "hs.suite.id" && get("masterSecret") == "hs.masterSecret" && get("certificates") == "hs.certsFromClient"
		c.Check(ok, rule, fname(f), "the ticket seals (c.vers, hs.suite.id, hs.masterSecret, hs.certsFromClient)", "", fmt.Sprintf("the ticket state is vers=%s cipherSuite=%s masterSecret=%s certificates=%s", get("vers"), get("cipherSuite"), get("masterSecret"), get("certificates")), f.Pos())
	}
	for _, name := range []string{"(*serverHandshakeState).processCertsFromClient", "(*serverHandshakeStateGM).processCertsFromClient"} {
		f := c.Fn("gmtls", name)
		if f == nil {
			c.Missing(rule, "gmtls."+name, "method", "not found")
			continue
		}
		var fromParam, peerSet bool
		instrsOf(f, func(_ *ssa.BasicBlock, in ssa.Instruction) {
			st, ok := in.(*ssa.Store)
			if !ok {
				return
			}
			fa, ok := st.Addr.(*ssa.FieldAddr)
			if !ok {
				return
			}
			switch fieldName(fa.X.Type(), fa.Field) {
			case "certsFromClient":
				if p, isP := st.Val.(*ssa.Parameter); isP && pname(p) == "certificates" {
					fromParam = true
				}
			case "peerCertificates":
				peerSet = true
			}
		})
		c.Check(fromParam && peerSet, rule, fname(f), "the chain kept for tickets is recorded where the peer certificates are established", "", "processCertsFromClient (which runs on full and on resumed handshakes) does not record its `certificates` argument in hs.certsFromClient: a ticket issued during a resumed handshake would drop the client's chain", f.Pos())
	}
	// and the resumed path re-establishes the peer chain from the ticket through that function
	for _, name := range []string{"(*serverHandshakeState).doResumeHandshake", "(*serverHandshakeStateGM).doResumeHandshake"} {
		f := c.Fn("gmtls", name)
		if f == nil {
			continue
		}
		ok := false
		for _, call := range callsNamedIn(f, "processCertsFromClient") {
			a := argForms(f, call)
			if len(a) == 2 && a[1] == "hs.sessionState.certificates" {
				ok = true
			}
		}
		c.Check(ok, rule, fname(f), "a resumed handshake restores the client chain from the ticket", "", "doResumeHandshake does not call processCertsFromClient(hs.sessionState.certificates)", f.Pos())
	}
}

// c16LRU: the client session cache keeps its index consistent with its entries: an entry that is recycled for a new
// server key is first removed from the index under its OLD key, and every index insertion maps the new key to an
// entry that carries that key. (Otherwise a server key stays mapped to another server's ticket and master secret.)
func c16LRU(c *Ctx) {
	rule := "K-C16-lru"
	f := c.Fn("gmtls", "(*lruSessionCache).Put")
	if f == nil {
		c.Missing(rule, "gmtls.(*lruSessionCache).Put", "method", "not found")
		return
	}
	var keyParam *ssa.Parameter
	for _, p := range f.Params {
		if pname(p) == "sessionKey" {
			keyParam = p
		}
	}
	if keyParam == nil {
		c.Undecided(rule, fname(f), "the key parameter", "not identified", f.Pos())
		return
	}
	before := func(a, b ssa.Instruction) bool { // a is executed before b on every path to b
		if a.Block() == b.Block() {
			for _, in := range a.Block().Instrs {
				if in == a {
					return true
				}
				if in == b {
					return false
				}
			}
		}
		return a.Block().Dominates(b.Block())
	}
	// stores that overwrite the key of an existing (not freshly allocated) entry
	type over struct {
		st    *ssa.Store
		entry ssa.Value
	}
	var overs []over
	keyStoredFrom := map[ssa.Value]ssa.Value{} // entry -> value stored as its key
	instrsOf(f, func(_ *ssa.BasicBlock, in ssa.Instruction) {
		st, ok := in.(*ssa.Store)
		if !ok {
			return
		}
		if fa, ok := st.Addr.(*ssa.FieldAddr); ok && fieldName(fa.X.Type(), fa.Field) == "sessionKey" {
			keyStoredFrom[fa.X] = st.Val
			if _, fresh := fa.X.(*ssa.Alloc); !fresh {
				overs = append(overs, over{st, fa.X})
			}
			return
		}
		// *entry = lruSessionCacheEntry{...}
		if strings.HasSuffix(st.Addr.Type().String(), "lruSessionCacheEntry") {
			if _, fresh := st.Addr.(*ssa.Alloc); !fresh {
				overs = append(overs, over{st, st.Addr})
				if ld, ok := st.Val.(*ssa.UnOp); ok {
					if tmp, ok := ld.X.(*ssa.Alloc); ok {
						for _, r := range *tmp.Referrers() {
							if fa, ok := r.(*ssa.FieldAddr); ok && fieldName(fa.X.Type(), fa.Field) == "sessionKey" {
								for _, r2 := range *fa.Referrers() {
									if s2, ok := r2.(*ssa.Store); ok && s2.Addr == fa {
										keyStoredFrom[st.Addr] = s2.Val
									}
								}
							}
						}
					}
				}
			}
		}
	})
	var deletes []*ssa.Call
	for _, ci := range allCalls(f) {
		if call, ok := ci.(*ssa.Call); ok {
			if bi, ok := call.Call.Value.(*ssa.Builtin); ok && bi.Name() == "delete" {
				deletes = append(deletes, call)
			}
		}
	}
	if len(overs) == 0 {
		c.Undecided(rule, fname(f), "recycling of the least recently used entry", "no store that re-keys an existing entry was found (the eviction path has another shape)", f.Pos())
	}
	for i, o := range overs {
		c.Evals++
		ok := false
		for _, d := range deletes {
			ld, isLd := d.Call.Args[1].(*ssa.UnOp)
			if !isLd {
				continue
			}
			fa, isFA := ld.X.(*ssa.FieldAddr)
			if !isFA || fieldName(fa.X.Type(), fa.Field) != "sessionKey" || fa.X != o.entry {
				continue
			}
			if before(ld, o.st) && before(d, o.st) {
				ok = true
			}
		}
		c.Check(ok, rule, fname(f), fmt.Sprintf("re-keying of an existing entry #%d is preceded by delete(index, its old key)", i+1), "", "an existing cache entry gets a new key without its old key having been removed from the index first (the key passed to delete is read after the overwrite, or nothing is deleted): the evicted server's key stays mapped to another server's session", o.st.Pos())
	}
	// index insertions
	n := 0
	instrsOf(f, func(_ *ssa.BasicBlock, in ssa.Instruction) {
		mu, ok := in.(*ssa.MapUpdate)
		if !ok {
			return
		}
		n++
		c.Evals++
		// the entry behind the inserted element
		var entry ssa.Value
		switch v := mu.Value.(type) {
		case *ssa.Call: // PushFront(entry)
			if sc := v.Call.StaticCallee(); sc != nil && sc.Name() == "PushFront" && len(v.Call.Args) == 2 {
				if mi, ok := v.Call.Args[1].(*ssa.MakeInterface); ok {
					entry = mi.X
				}
			}
		}
		if entry == nil { // elem whose .Value was asserted to the entry type
			instrsOf(f, func(_ *ssa.BasicBlock, in2 ssa.Instruction) {
				ta, ok := in2.(*ssa.TypeAssert)
				if !ok {
					return
				}
				if ld, ok := ta.X.(*ssa.UnOp); ok {
					if fa, ok := ld.X.(*ssa.FieldAddr); ok && fa.X == mu.Value && before(ta, mu) {
						entry = ta
					}
				}
			})
		}
		key := mu.Key
		if ld, ok := key.(*ssa.UnOp); ok { // m[entry.sessionKey] read back after the key was stored
			if fa, ok := ld.X.(*ssa.FieldAddr); ok && fieldName(fa.X.Type(), fa.Field) == "sessionKey" && fa.X == entry && keyStoredFrom[entry] != nil {
				stored := false
				for _, r := range *fa.X.Referrers() {
					if fa2, ok := r.(*ssa.FieldAddr); ok && fa2.Field == fa.Field {
						for _, r2 := range *fa2.Referrers() {
							if st, ok := r2.(*ssa.Store); ok && st.Addr == fa2 && before(st, ld) {
								stored = true
							}
						}
					}
				}
				if stored {
					key = keyStoredFrom[entry]
				}
			}
		}
		good := entry != nil && key == ssa.Value(keyParam) && keyStoredFrom[entry] == ssa.Value(keyParam)
		c.Check(good, rule, fname(f), fmt.Sprintf("index insertion #%d maps the new key to an entry carrying that key", n), "", "the index is updated with a key/element pair whose entry does not carry that key", mu.Pos())
	})
	if n < 2 {
		c.Undecided(rule, fname(f), "index insertions", fmt.Sprintf("only %d found", n), f.Pos())
	}
}

// c16SharedKeys: a Config produced by GetConfigForClient serves tickets under the LISTENING Config's live key set:
// serverInit(originalConfig) assigns originalConfig.sessionTicketKeys when an original is given, and derives a key
// set of its own only otherwise. (A private copy would ignore later rotations: tickets under removed keys would
// still resume, and a listener configured only through SetSessionTicketKeys would hand out an all-zero key.)
func c16SharedKeys(c *Ctx) {
	rule := "K-C16-sharedkeys"
	f := c.Fn("gmtls", "(*Config).serverInit")
	if f == nil {
		c.Missing(rule, "gmtls.(*Config).serverInit", "method", "not found")
		return
	}
	var orig ssa.Value
	if len(f.Params) == 2 {
		orig = f.Params[1]
	}
	// decided on values: assume originalConfig != nil / == nil and look at the stores that stay reachable
	ci := newCondIndex(f, map[ssa.Value]string{orig: "originalConfig"})
	fromOrig := func(v ssa.Value) bool {
		switch x := v.(type) {
		case *ssa.UnOp:
			if fa2, ok := x.X.(*ssa.FieldAddr); ok && fa2.X == orig && fieldName(fa2.X.Type(), fa2.Field) == "sessionTicketKeys" {
				return true
			}
		case *ssa.Call:
			// an accessor of the original Config that returns the field (under its lock)
			sc := x.Call.StaticCallee()
			if sc == nil || len(x.Call.Args) != 1 || x.Call.Args[0] != orig || len(sc.Params) != 1 || sc.Blocks == nil {
				return false
			}
			okAll, n := true, 0
			for _, b := range sc.Blocks {
				ret, isRet := b.Instrs[len(b.Instrs)-1].(*ssa.Return)
				if !isRet || len(ret.Results) != 1 {
					continue
				}
				n++
				ld, ok := ret.Results[0].(*ssa.UnOp)
				if !ok {
					okAll = false
					continue
				}
				fa2, ok := ld.X.(*ssa.FieldAddr)
				if !ok || fa2.X != ssa.Value(sc.Params[0]) || fieldName(fa2.X.Type(), fa2.Field) != "sessionTicketKeys" {
					okAll = false
				}
			}
			return okAll && n > 0
		}
		return false
	}
	type obs struct{ shared, own int }
	look := func(origNil bool) obs {
		var o obs
		ci.withAssumptions([]assumption{{`re:eq\(originalConfig,const:nil:.*\)`, origNil}}, func() {
			live := reach([]*ssa.BasicBlock{f.Blocks[0]}, deadEdges(f))
			instrsOf(f, func(b *ssa.BasicBlock, in ssa.Instruction) {
				st, ok := in.(*ssa.Store)
				if !ok || !live[b] {
					return
				}
				fa, ok := st.Addr.(*ssa.FieldAddr)
				if !ok || fieldName(fa.X.Type(), fa.Field) != "sessionTicketKeys" || fa.X != ssa.Value(f.Params[0]) {
					return
				}
				if fromOrig(st.Val) {
					o.shared++
				} else {
					o.own++
				}
			})
		})
		return o
	}
	c.Evals += 2 * len(ci.conds)
	with, without := look(false), look(true)
	c.Check(with.shared > 0 && with.own == 0 && without.own > 0, rule, fname(f), "a per-client Config shares the listening Config's ticket keys; only a stand-alone Config derives its own",
		fmt.Sprintf("with an original Config: %d shared / %d own stores reachable; without: %d own", with.shared, with.own, without.own),
		"serverInit does not assign originalConfig.sessionTicketKeys on the path where an original Config is given (or derives a private key set there): per-client Configs ignore SetSessionTicketKeys rotations of the listener", f.Pos())
}

func pnameOfRecv(f *ssa.Function) string {
	if len(f.Params) == 0 {
		return "?"
	}
	return pname(f.Params[0])
}

// c16Ekm: both ends of a connection hold the exported-keying-material closure after ANY completed handshake — full or
// resumed. Every function that stores Conn.ekm (the handshake drivers) can return nil only after that store: with the
// edges into the storing block(s) removed, no successful return is reachable. (An assignment moved into the
// full-handshake branch leaves a resumed connection with a nil closure; ExportKeyingMaterial then panics on one end.)
func c16Ekm(c *Ctx) {
	rule := "K-C16-restore"
	storesEkm := func(f *ssa.Function) []ssa.Instruction {
		var out []ssa.Instruction
		instrsOf(f, func(_ *ssa.BasicBlock, in ssa.Instruction) {
			if st, ok := in.(*ssa.Store); ok {
				if fa, isFA := st.Addr.(*ssa.FieldAddr); isFA && fieldName(fa.X.Type(), fa.Field) == "ekm" && strings.HasSuffix(fa.X.Type().String(), "gmtls.Conn") {
					out = append(out, st)
				}
			}
		})
		return out
	}
	// always(f): f cannot return successfully without having assigned Conn.ekm — itself, or through a callee with
	// the same property (depth 2)
	var always func(f *ssa.Function, depth int) (bool, *ssa.BasicBlock)
	always = func(f *ssa.Function, depth int) (bool, *ssa.BasicBlock) {
		spec, has := defaultResultSpec(f)
		if !has || f.Blocks == nil {
			return false, nil
		}
		marks := storesEkm(f)
		if depth < 2 {
			for _, ci := range allCalls(f) {
				if sc := ci.Common().StaticCallee(); sc != nil && inRepo(sc) && sc != f && sc.Blocks != nil {
					if len(storesEkm(sc)) > 0 {
						if ok, _ := always(sc, depth+1); ok {
							// the callee's own error must stop the caller: only count it if its result is tested —
							// conservative: count the call as a mark only when it is a plain Call instruction
							if _, isCall := ci.(*ssa.Call); isCall {
								marks = append(marks, ci)
							}
						}
					}
				}
			}
		}
		if len(marks) == 0 {
			return false, f.Blocks[0]
		}
		cut := map[edge]bool{}
		for _, m := range marks {
			if m.Block() == f.Blocks[0] {
				return true, nil
			}
			for _, p := range m.Block().Preds {
				cut[edge{p, m.Block()}] = true
			}
		}
		r, w := canReachSuccess(f.Blocks[0], nil, successExits(f, spec), mergeEdges(cut, deadEdges(f)))
		return !r, w
	}
	drivers := []string{"(*Conn).serverHandshake", "(*Conn).serverHandshakeGM", "(*clientHandshakeState).handshake", "(*clientHandshakeStateGM).handshake", "runServerHandshake", "runServerHandshakeGM"}
	for _, name := range drivers {
		f := c.Fn("gmtls", name)
		if f == nil {
			c.Missing(rule, "gmtls."+name, "handshake driver", "not found")
			continue
		}
		ok, w := always(f, 0)
		c.Check(ok, rule, fname(f), "a completed handshake has set the exported-keying-material closure", "", "the handshake driver can return nil at "+c.P.pos(lastPos(w))+" on a path that has not assigned Conn.ekm (e.g. the abbreviated handshake, when the assignment sits in the full-handshake branch): ExportKeyingMaterial on that connection calls a nil closure, so the two ends do not hold equal keying material", lastPos(w))
	}
}

// msgFrozenAfterMarshal: handshake messages cache their encoding (marshal() stores m.raw and returns it on every later
// call). A field assigned AFTER the first marshal() of the same message object is therefore never sent — the peer and
// the transcript see the old value (a ServerHello without the session_ticket extension although a NewSessionTicket
// follows). Rule: no store into a field of a *…Msg object is reachable from a marshal() call on that object.
func msgFrozenAfterMarshal(c *Ctx, rule string) {
	n := 0
	for _, f := range c.P.RepoFuncs("gmtls") {
		if strings.HasSuffix(c.P.relFile(f.Pos()), "_test.go") || f.Name() == "marshal" || f.Name() == "unmarshal" {
			continue
		}
		// marshal calls by receiver object
		type mc struct {
			call ssa.Instruction
			recv ssa.Value
		}
		var mcs []mc
		for _, ci := range allCalls(f) {
			sc := ci.Common().StaticCallee()
			if sc == nil || sc.Name() != "marshal" || !inRepo(sc) || len(ci.Common().Args) == 0 {
				continue
			}
			mcs = append(mcs, mc{ci, ci.Common().Args[0]})
		}
		if len(mcs) == 0 {
			continue
		}
		sameObj := func(a, b ssa.Value) bool {
			if a == b {
				return true
			}
			ka, kb := addrKey(a), addrKey(b)
			return ka != "" && ka == kb
		}
		k := 0
		instrsOf(f, func(_ *ssa.BasicBlock, in ssa.Instruction) {
			st, ok := in.(*ssa.Store)
			if !ok {
				return
			}
			fa, ok := st.Addr.(*ssa.FieldAddr)
			if !ok || fieldName(fa.X.Type(), fa.Field) == "raw" {
				return
			}
			t := strings.TrimPrefix(fa.X.Type().String(), "*")
			if !strings.HasSuffix(t, "Msg") && !strings.HasSuffix(t, "MsgGM") {
				return
			}
			for _, m := range mcs {
				if sameObj(m.recv, fa.X) && instrReaches(m.call, st, nil) && m.call != ssa.Instruction(st) {
					// a later marshal of the same object must exist for the stale encoding to matter; report the store
					k++
					n++
					c.Violated(rule, fname(f), fmt.Sprintf("field %s of a message is not assigned after the message was marshalled #%d", fieldName(fa.X.Type(), fa.Field), k), "the field is assigned on a path after marshal() was called on the same message: marshal() returns the cached encoding from then on, so the value never reaches the peer or the transcript", st.Pos())
					return
				}
			}
		})
	}
	if n == 0 {
		c.Holds(rule, "gmtls", "no message field is assigned after that message's marshal()", "", token.NoPos)
	}
}
