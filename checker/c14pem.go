package main

// C14 — PEM loaders of the TLS layer: a certificate or key file may hold several PEM blocks (a chain; parameters or a
// certificate in front of the key). getCert, getKey and X509KeyPair walk the input block by block. Structural
// necessary condition decided here: in each of these functions every call of encoding/pem.Decode lies on a cycle of
// the control-flow graph and is fed, on the back edge, with the remainder returned by the previous call (the second
// result of Decode flows into its argument). A loader that decodes only the first block rejects valid key files that
// its sibling accepts. Which block types are skipped or accepted is not decided here.

import (
	"fmt"

	"golang.org/x/tools/go/ssa"
)

func c14PemWalk(c *Ctx) {
	rule := "G-C14-pemwalk"
	sites := []struct{ name string }{{"getCert"}, {"getKey"}, {"X509KeyPair"}}
	for _, s := range sites {
		f := c.Fn("gmtls", s.name)
		if f == nil {
			c.Missing(rule, "gmtls."+s.name, "function", "not found")
			continue
		}
		n := 0
		for _, call := range allCalls(f) {
			cl, ok := call.(*ssa.Call)
			if !ok || calleeID(cl.Common()) != "encoding/pem.Decode" {
				continue
			}
			n++
			onCycle := false
			seen := map[*ssa.BasicBlock]bool{}
			st := append([]*ssa.BasicBlock{}, cl.Block().Succs...)
			for len(st) > 0 {
				b := st[len(st)-1]
				st = st[:len(st)-1]
				if seen[b] {
					continue
				}
				seen[b] = true
				if b == cl.Block() {
					onCycle = true
					break
				}
				st = append(st, b.Succs...)
			}
			// the argument depends on the call's own remainder result (through a phi)
			fed := false
			vis := map[ssa.Value]bool{}
			var dep func(v ssa.Value)
			dep = func(v ssa.Value) {
				if v == nil || vis[v] || fed {
					return
				}
				vis[v] = true
				switch x := v.(type) {
				case *ssa.Phi:
					for _, e := range x.Edges {
						dep(e)
					}
				case *ssa.Extract:
					if x.Tuple == ssa.Value(cl) && x.Index == 1 {
						fed = true
					}
				case *ssa.UnOp:
					// load of a local spilled to memory: follow the stores into it
					if al, ok := x.X.(*ssa.Alloc); ok {
						for _, r := range *al.Referrers() {
							if stv, ok := r.(*ssa.Store); ok && stv.Addr == ssa.Value(al) {
								dep(stv.Val)
							}
						}
					}
				}
			}
			if len(cl.Call.Args) == 1 {
				dep(cl.Call.Args[0])
			}
			c.Check(onCycle && fed, rule, fname(f), fmt.Sprintf("pem.Decode #%d walks all blocks of the input", n),
				"the call lies on a loop and is fed with the remainder of the previous call",
				fmt.Sprintf("pem.Decode is called for the first block only (on a loop: %v, fed with its own remainder: %v): blocks after the first are never looked at, so a key or chain file with a leading block of another type is rejected or truncated", onCycle, fed), cl.Pos())
		}
		if n == 0 {
			c.Violated(rule, fname(f), "pem.Decode walk", "no call of encoding/pem.Decode in this loader", f.Pos())
		}
	}
}
