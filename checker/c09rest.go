package main

// C09 — a changed signature value must fail: checkSignature decodes DSA/ECDSA/SM2 signature values with
// asn1.Unmarshal. Structural necessary condition: at every such call in checkSignature the remainder result is
// extracted and its length is tested (bytes appended to a genuine SEQUENCE{r,s} are otherwise ignored and the altered
// value verifies). What the test leads to is covered by the error-path rules.

import (
	"fmt"

	"golang.org/x/tools/go/ssa"
)

func c09SigRest(c *Ctx) {
	rule := "G-C09-sigrest"
	f := c.Fn("x509", "checkSignature")
	if f == nil {
		c.Missing(rule, "x509.checkSignature", "function", "not found")
		return
	}
	n := 0
	for _, ci := range allCalls(f) {
		call, ok := ci.(*ssa.Call)
		if !ok || calleeID(call.Common()) != "encoding/asn1.Unmarshal" {
			continue
		}
		n++
		tested := false
		for _, r := range *call.Referrers() {
			ex, ok := r.(*ssa.Extract)
			if !ok || ex.Index != 0 {
				continue
			}
			for _, u := range *ex.Referrers() {
				if lc, ok := u.(*ssa.Call); ok {
					if bi, ok := lc.Call.Value.(*ssa.Builtin); ok && bi.Name() == "len" {
						for _, w := range *lc.Referrers() {
							if _, ok := w.(*ssa.BinOp); ok {
								tested = true
							}
						}
					}
				}
			}
		}
		c.Check(tested, rule, fname(f), fmt.Sprintf("signature decoding #%d tests the remainder", n), "len(rest) is compared after asn1.Unmarshal",
			"the bytes left over after decoding the signature value are not looked at: a genuine signature with bytes appended still verifies, so an altered signature value is accepted", call.Pos())
	}
	if n == 0 {
		c.Undecided(rule, fname(f), "signature decoding", "no asn1.Unmarshal call in checkSignature (idiom not recognised)", f.Pos())
	}
}
