package main

import (
	"flag"
	"fmt"
	"os"
	"runtime/debug"
	"runtime/pprof"
	"sort"
	"strings"
	"time"
)

type propFn func(c *Ctx)

var props = map[string]propFn{}

func register(id string, f propFn) { props[id] = f }

var onlyKey string

func main() {
	prop := flag.String("property", "", "property id (C01..C20) or 'all'")
	tier := flag.String("tier", "quick", "quick|thorough")
	flag.StringVar(&repoDir, "repo", "/repo", "repository working tree")
	flag.StringVar(&verifDir, "verif", "/verif", "verif dir (evidence, known findings)")
	flag.StringVar(&onlyKey, "only", "", "re-evaluate and print only the obligation with this key (replay)")
	list := flag.Bool("list", false, "list all obligations")
	dumpFuncs := flag.String("dump-funcs", "", "write the names of all repository functions to this file (reference list for the new-helper rule) and exit")
	flag.Parse()
	if *dumpFuncs != "" {
		p, err := LoadRepo()
		if err != nil {
			fmt.Println("ERROR:", err)
			os.Exit(1)
		}
		var names []string
		for f := range p.AllFns {
			if inRepo(f) && f.Synthetic == "" && f.Parent() == nil && !strings.HasSuffix(p.relFile(f.Pos()), "_test.go") {
				var ps []string
				for _, q := range f.Params {
					ps = append(ps, q.Name())
				}
				names = append(names, fname(f)+"\t"+strings.Join(ps, ","))
			}
		}
		sort.Strings(names)
		os.WriteFile(*dumpFuncs, []byte(strings.Join(names, "\n")+"\n"), 0o644)
		fmt.Println("wrote", len(names), "function names")
		return
	}
	if t := os.Getenv("VERIF_TIER"); t != "" && *tier == "" {
		*tier = t
	}
	if pf := os.Getenv("GMSMCHECK_CPUPROFILE"); pf != "" {
		if f, err := os.Create(pf); err == nil {
			pprof.StartCPUProfile(f)
			defer pprof.StopCPUProfile()
		}
	}
	if *tier == "thorough" {
		lbDepthLimit = 5
	}
	debug.SetGCPercent(200) // the prover allocates many short-lived rows; memory is not the constraint
	start := time.Now()
	var ids []string
	if *prop == "all" {
		for id := range props {
			ids = append(ids, id)
		}
		sort.Strings(ids)
	} else if props[*prop] != nil {
		ids = []string{*prop}
	} else {
		fmt.Fprintf(os.Stderr, "unknown property %q\n", *prop)
		os.Exit(2)
	}
	p, err := LoadRepo()
	if err != nil {
		// a tree that cannot be loaded/type-checked cannot be shown to satisfy anything
		fmt.Printf("ERROR: cannot load /repo: %v\n", err)
		for _, id := range ids {
			fmt.Printf("VIOLATION property=%s replay=%s\n", id, "/verif/evidence/replay/load-error.txt")
		}
		os.MkdirAll(verifDir+"/evidence/replay", 0o755)
		os.WriteFile(verifDir+"/evidence/replay/load-error.txt", []byte(err.Error()+"\n"), 0o644)
		os.Exit(1)
	}
	exit := 0
	for _, id := range ids {
		st := time.Now()
		if len(ids) == 1 {
			st = start
		}
		c := NewCtx(p, id, *tier)
		func() {
			defer func() {
				if r := recover(); r != nil {
					if os.Getenv("GMSMCHECK_DEBUG") != "" {
						panic(r)
					}
					c.Undecided("checker-panic", "-", fmt.Sprint(r), "the checker itself panicked; treated as failure", 0)
				}
			}()
			props[id](c)
		}()
		if onlyKey != "" {
			var keep []Obligation
			for _, o := range c.Obls {
				if o.Key() == onlyKey {
					keep = append(keep, o)
				}
			}
			c.Obls = keep
			c.ruleMin = map[string]int{}
		}
		if *list {
			for _, o := range c.Obls {
				fmt.Printf("%-9s %s  @%s  %s\n", o.Verdict, o.Key(), o.Pos, o.Detail)
			}
		}
		if *tier == "thorough" && os.Getenv("GMSMCHECK_SELFTEST") == "" && onlyKey == "" {
			rs := runSelftest(id)
			c.Sensitivity = rs
			c.Notes = append(c.Notes, sensitivityNote(rs))
			for _, r := range rs {
				if r.Applied && !r.Detected {
					fmt.Printf("SELFTEST-MISS property=%s seed=%s (the recorded breaking change is not reported; the verdict on /repo is unaffected)\n", id, r.Seed)
				}
			}
		}
		if e := c.Finish(st); e != 0 {
			exit = 1
		}
	}
	pprof.StopCPUProfile()
	os.Exit(exit)
}
