package main

// guards.go — engine G: guard atoms on the SSA CFG.
// An atom is an If whose passing edge is known. Rule template:
//  (i) reject: from the failing edge no success exit of the function is reachable;
// (ii) no bypass: with the passing edges of all rejecting instances cut, neither a
//      success exit nor any sink instruction is reachable from the entry.

import (
	"fmt"
	"go/token"

	"golang.org/x/tools/go/ssa"
)

type Atom struct {
	If       *ssa.If
	PassSucc int
	Desc     string
}

func ifsOf(f *ssa.Function) []*ssa.If {
	var out []*ssa.If
	for _, b := range f.Blocks {
		if i, ok := lastIf(b); ok {
			out = append(out, i)
		}
	}
	return out
}

// cmpTrueSet: for `v op k` with v in {-1,0,1}: which of (-1,0,1) make it true.
func cmpTrueSet(op token.Token, k int64, valueOnLeft bool) (set [3]bool, ok bool) {
	for i, s := range []int64{-1, 0, 1} {
		a, b := s, k
		if !valueOnLeft {
			a, b = k, s
		}
		switch op {
		case token.LSS:
			set[i] = a < b
		case token.LEQ:
			set[i] = a <= b
		case token.GTR:
			set[i] = a > b
		case token.GEQ:
			set[i] = a >= b
		case token.EQL:
			set[i] = a == b
		case token.NEQ:
			set[i] = a != b
		default:
			return set, false
		}
	}
	return set, true
}

// signTest decodes an If condition of the form  X.Cmp(Y) op k  /  X.Sign() op k
// (also bytes.Compare / bytes.Equal style via other decoders). Returns the call.
type signTest struct {
	Kind    string // "Cmp" | "Sign"
	Call    *ssa.Call
	X, Y    ssa.Value
	TrueSet [3]bool // for sign in (-1,0,1)
}

func decodeSignTest(cond ssa.Value) (signTest, bool) {
	neg := false
	for {
		if u, ok := cond.(*ssa.UnOp); ok && u.Op == token.NOT {
			neg = !neg
			cond = u.X
			continue
		}
		break
	}
	bo, ok := cond.(*ssa.BinOp)
	if !ok {
		return signTest{}, false
	}
	var callV ssa.Value
	var k int64
	left := true
	if c, ok := constInt(bo.Y); ok {
		callV, k = bo.X, c
	} else if c, ok := constInt(bo.X); ok {
		callV, k, left = bo.Y, c, false
	} else {
		return signTest{}, false
	}
	call, name, recv, args, ok := bigMethod(callV)
	if !ok {
		return signTest{}, false
	}
	set, ok := cmpTrueSet(bo.Op, k, left)
	if !ok {
		return signTest{}, false
	}
	if neg {
		for i := range set {
			set[i] = !set[i]
		}
	}
	switch name {
	case "Sign":
		return signTest{Kind: "Sign", Call: call, X: recv, TrueSet: set}, true
	case "Cmp":
		return signTest{Kind: "Cmp", Call: call, X: recv, Y: args[0], TrueSet: set}, true
	}
	return signTest{}, false
}

func complement(s [3]bool) [3]bool { return [3]bool{!s[0], !s[1], !s[2]} }

func flip(s [3]bool) [3]bool { return [3]bool{s[2], s[1], s[0]} } // sign(a-b) -> sign(b-a)

// atomFromSet: given the set of signs for which the check must PASS and the
// If's true-set, returns the passing successor index (0 = true branch).
func passSuccFor(allowed, trueSet [3]bool) (int, bool) {
	if trueSet == allowed {
		return 0, true
	}
	if trueSet == complement(allowed) {
		return 1, true
	}
	return 0, false
}

type guardResult struct {
	OK  bool
	Why string
	Pos token.Pos
}

// evalGuard applies (i) and (ii) to a set of candidate atoms.
func evalGuard(p *Prog, f *ssa.Function, atoms []Atom, spec resultSpec, sinks []ssa.Instruction) guardResult {
	if len(atoms) == 0 {
		return guardResult{false, "no such check exists in the function", f.Pos()}
	}
	ex := successExits(f, spec)
	cut := map[edge]bool{}
	var rejecting []Atom
	var why string
	var pos token.Pos
	for _, a := range atoms {
		b := a.If.Block()
		fail := b.Succs[1-a.PassSucc]
		e := edge{b, fail}
		if b.Succs[0] == b.Succs[1] {
			why, pos = "both branches of the test lead to the same block", a.If.Cond.Pos()
			continue
		}
		if ok, at := canReachSuccess(fail, &e, ex, nil); ok {
			why = "the failing outcome of the test still reaches a successful return at " + p.pos(lastPos(at))
			pos = a.If.Cond.Pos()
			continue
		}
		rejecting = append(rejecting, a)
		cut[edge{b, b.Succs[a.PassSucc]}] = true
	}
	if len(rejecting) == 0 {
		return guardResult{false, why, pos}
	}
	if ok, at := canReachSuccess(f.Blocks[0], nil, ex, cut); ok {
		return guardResult{false, "a successful return at " + p.pos(lastPos(at)) + " is reachable on a path that does not pass the test", rejecting[0].If.Cond.Pos()}
	}
	seen := reach([]*ssa.BasicBlock{f.Blocks[0]}, cut)
	for _, s := range sinks {
		if seen[s.Block()] {
			// the sink's block is reachable; if the atom is in the same block the sink precedes the test
			bypass := true
			for _, a := range rejecting {
				if a.If.Block() != s.Block() && a.If.Block().Dominates(s.Block()) {
					// reachable despite cut means another path
				}
				_ = a
			}
			if bypass {
				return guardResult{false, "the guarded operation at " + p.pos(s.Pos()) + " can execute on a path that has not passed the test", s.Pos()}
			}
		}
	}
	return guardResult{true, fmt.Sprintf("%d instance(s) reject and cannot be bypassed", len(rejecting)), rejecting[0].If.Cond.Pos()}
}

func lastPos(b *ssa.BasicBlock) token.Pos {
	if b == nil {
		return token.NoPos
	}
	for i := len(b.Instrs) - 1; i >= 0; i-- {
		if p := b.Instrs[i].Pos(); p.IsValid() {
			return p
		}
	}
	return token.NoPos
}

// boolCallAtoms: Ifs whose condition is (possibly negated) the bool result of a call accepted by match.
// passWhenTrue says whether a true result means the check passed.
func boolCallAtoms(f *ssa.Function, match func(*ssa.Call) bool, passWhenTrue bool, desc string) []Atom {
	var out []Atom
	for _, ifi := range ifsOf(f) {
		cond := ifi.Cond
		neg := false
		for {
			if u, ok := cond.(*ssa.UnOp); ok && u.Op == token.NOT {
				neg = !neg
				cond = u.X
				continue
			}
			break
		}
		// comparisons with a constant bool
		if bo, ok := cond.(*ssa.BinOp); ok && (bo.Op == token.EQL || bo.Op == token.NEQ) {
			if cb, ok := constBool(bo.Y); ok {
				if (bo.Op == token.EQL) != cb {
					neg = !neg
				}
				cond = bo.X
			}
		}
		var call *ssa.Call
		switch x := cond.(type) {
		case *ssa.Call:
			call = x
		case *ssa.Extract:
			call, _ = x.Tuple.(*ssa.Call)
		}
		if call == nil || !match(call) {
			continue
		}
		pass := 0
		if passWhenTrue == neg {
			pass = 1
		}
		out = append(out, Atom{ifi, pass, desc})
	}
	return out
}

// errCheckAtoms: Ifs testing `err != nil` / `err == nil` where err is a result of a call accepted by match.
func errCheckAtoms(f *ssa.Function, match func(*ssa.Call) bool, desc string) []Atom {
	var out []Atom
	for _, ifi := range ifsOf(f) {
		bo, ok := ifi.Cond.(*ssa.BinOp)
		if !ok || (bo.Op != token.NEQ && bo.Op != token.EQL) {
			continue
		}
		var v ssa.Value
		if isNilConst(bo.Y) {
			v = bo.X
		} else if isNilConst(bo.X) {
			v = bo.Y
		} else {
			continue
		}
		var call *ssa.Call
		switch x := v.(type) {
		case *ssa.Call:
			call = x
		case *ssa.Extract:
			call, _ = x.Tuple.(*ssa.Call)
		}
		if call == nil || !match(call) {
			continue
		}
		pass := 1 // err != nil true => fail; pass on false
		if bo.Op == token.EQL {
			pass = 0
		}
		out = append(out, Atom{ifi, pass, desc})
	}
	return out
}

// lenCmpAtoms: Ifs comparing len(v) (v accepted by isV) with a constant; allowed(n) says
// for which lengths the check must pass; probes are evaluated at k-1,k,k+1 around the constant.
func intCmpTrue(op token.Token, a, b int64) bool {
	switch op {
	case token.LSS:
		return a < b
	case token.LEQ:
		return a <= b
	case token.GTR:
		return a > b
	case token.GEQ:
		return a >= b
	case token.EQL:
		return a == b
	case token.NEQ:
		return a != b
	}
	return false
}

func isLenOf(v ssa.Value, of func(ssa.Value) bool) bool {
	call, ok := v.(*ssa.Call)
	if !ok {
		return false
	}
	bi, ok := call.Call.Value.(*ssa.Builtin)
	return ok && bi.Name() == "len" && of(call.Call.Args[0])
}

// lenGuardAtoms: finds `len(x) op K` tests; mustPass(n) is the required acceptance predicate on n=len(x).
// The If matches when its truth value agrees (or is the exact negation) with mustPass on all probes.
func lenGuardAtoms(f *ssa.Function, of func(ssa.Value) bool, mustPass func(n int64) bool, probes []int64, desc string) []Atom {
	var out []Atom
	for _, ifi := range ifsOf(f) {
		bo, ok := ifi.Cond.(*ssa.BinOp)
		if !ok {
			continue
		}
		var k int64
		lenLeft := true
		if isLenOf(bo.X, of) {
			kk, ok := constInt(bo.Y)
			if !ok {
				continue
			}
			k = kk
		} else if isLenOf(bo.Y, of) {
			kk, ok := constInt(bo.X)
			if !ok {
				continue
			}
			k, lenLeft = kk, false
		} else {
			continue
		}
		agree, disagree := true, true
		for _, n := range probes {
			var t bool
			if lenLeft {
				t = intCmpTrue(bo.Op, n, k)
			} else {
				t = intCmpTrue(bo.Op, k, n)
			}
			if t != mustPass(n) {
				agree = false
			}
			if t == mustPass(n) {
				disagree = false
			}
		}
		if agree {
			out = append(out, Atom{ifi, 0, desc})
		} else if disagree {
			out = append(out, Atom{ifi, 1, desc})
		}
	}
	return out
}

// callsNamed: call instructions in f whose callee method/function name is one of names
func callsNamed(f *ssa.Function, names ...string) []ssa.Instruction {
	var out []ssa.Instruction
	for _, ci := range allCalls(f) {
		cc := ci.Common()
		n := ""
		if cc.IsInvoke() {
			n = cc.Method.Name()
		} else if sc := cc.StaticCallee(); sc != nil {
			n = sc.Name()
		}
		for _, w := range names {
			if n == w {
				out = append(out, ci)
			}
		}
	}
	return out
}

// evalReject applies only clause (i): every instance rejects on failure (used for
// consumers, where other legitimate paths to success exist).
func evalReject(p *Prog, f *ssa.Function, atoms []Atom, spec resultSpec) guardResult {
	if len(atoms) == 0 {
		return guardResult{false, "the result is never tested by a branch", f.Pos()}
	}
	ex := successExits(f, spec)
	for _, a := range atoms {
		b := a.If.Block()
		fail := b.Succs[1-a.PassSucc]
		e := edge{b, fail}
		if ok, at := canReachSuccess(fail, &e, ex, nil); ok {
			return guardResult{false, "the failing outcome still reaches a successful return at " + p.pos(lastPos(at)), a.If.Cond.Pos()}
		}
	}
	return guardResult{true, "failing outcome cannot reach a successful return", atoms[0].If.Cond.Pos()}
}

// evalGuardSinks: (i) every instance rejects; (ii') with the passing edges cut no sink instruction is
// reachable (other successful returns that do not involve the sink are allowed).
func evalGuardSinks(p *Prog, f *ssa.Function, atoms []Atom, spec resultSpec, sinks []ssa.Instruction) guardResult {
	if len(atoms) == 0 {
		return guardResult{false, "no such check exists in the function", f.Pos()}
	}
	r := evalReject(p, f, atoms, spec)
	if !r.OK {
		return r
	}
	cut := map[edge]bool{}
	for _, a := range atoms {
		b := a.If.Block()
		cut[edge{b, b.Succs[a.PassSucc]}] = true
	}
	seen := reach([]*ssa.BasicBlock{f.Blocks[0]}, cut)
	for _, s := range sinks {
		if seen[s.Block()] {
			return guardResult{false, "the guarded operation at " + p.pos(s.Pos()) + " can execute on a path that has not passed the test", s.Pos()}
		}
	}
	return guardResult{true, fmt.Sprintf("%d instance(s) reject and guard the operation", len(atoms)), atoms[0].If.Cond.Pos()}
}

// evalGuardCut: like evalGuard but with additional edges removed from the graph first (paths the rule
// deliberately does not cover, each justified by the caller).
func evalGuardCut(p *Prog, f *ssa.Function, atoms []Atom, spec resultSpec, sinks []ssa.Instruction, pre map[edge]bool) guardResult {
	if len(atoms) == 0 {
		return guardResult{false, "no such check exists in the function", f.Pos()}
	}
	ex := successExits(f, spec)
	cut := map[edge]bool{}
	for e := range pre {
		cut[e] = true
	}
	var rejecting []Atom
	why := ""
	var pos token.Pos
	for _, a := range atoms {
		b := a.If.Block()
		fail := b.Succs[1-a.PassSucc]
		e := edge{b, fail}
		if ok, at := canReachSuccess(fail, &e, ex, pre); ok {
			why = "the failing outcome of the test still reaches a successful return at " + p.pos(lastPos(at))
			pos = a.If.Cond.Pos()
			continue
		}
		rejecting = append(rejecting, a)
		cut[edge{b, b.Succs[a.PassSucc]}] = true
	}
	if len(rejecting) == 0 {
		return guardResult{false, why, pos}
	}
	if ok, at := canReachSuccess(f.Blocks[0], nil, ex, cut); ok {
		return guardResult{false, "a successful return at " + p.pos(lastPos(at)) + " is reachable on a path that does not pass the test", rejecting[0].If.Cond.Pos()}
	}
	return guardResult{true, fmt.Sprintf("%d instance(s) reject and cannot be bypassed", len(rejecting)), rejecting[0].If.Cond.Pos()}
}

// evalGuardAny: the atoms are alternative ways of establishing one fact (e.g. "the MAC verified", checked
// once and retried once): with the passing edges of ALL instances cut, neither a successful return nor a
// sink may be reachable from the entry.
func evalGuardAny(p *Prog, f *ssa.Function, atoms []Atom, spec resultSpec, sinks []ssa.Instruction, pre map[edge]bool) guardResult {
	if len(atoms) == 0 {
		return guardResult{false, "no such check exists in the function", f.Pos()}
	}
	ex := successExits(f, spec)
	cut := map[edge]bool{}
	for e := range pre {
		cut[e] = true
	}
	for _, a := range atoms {
		b := a.If.Block()
		if b.Succs[0] == b.Succs[1] {
			return guardResult{false, "both branches of the test lead to the same block", a.If.Cond.Pos()}
		}
		cut[edge{b, b.Succs[a.PassSucc]}] = true
	}
	if ok, at := canReachSuccess(f.Blocks[0], nil, ex, cut); ok {
		return guardResult{false, "a successful return at " + p.pos(lastPos(at)) + " is reachable on a path on which the check never passed", atoms[0].If.Cond.Pos()}
	}
	seen := reach([]*ssa.BasicBlock{f.Blocks[0]}, cut)
	for _, s := range sinks {
		if seen[s.Block()] {
			return guardResult{false, "the guarded operation at " + p.pos(s.Pos()) + " can execute on a path on which the check never passed", s.Pos()}
		}
	}
	return guardResult{true, fmt.Sprintf("%d instance(s); success only after one of them passed", len(atoms)), atoms[0].If.Cond.Pos()}
}

// errValueOf: v is the error result of a call accepted by match, or a phi of such values
func errValueOf(v ssa.Value, match func(*ssa.Call) bool, depth int) bool {
	if depth > 4 {
		return false
	}
	switch x := v.(type) {
	case *ssa.Call:
		return match(x)
	case *ssa.Extract:
		c, ok := x.Tuple.(*ssa.Call)
		return ok && match(c)
	case *ssa.Phi:
		n := 0
		for _, e := range x.Edges {
			if isNilConst(e) {
				continue
			}
			if !errValueOf(e, match, depth+1) {
				return false
			}
			n++
		}
		return n > 0
	}
	return false
}

// errCheckAtomsPhi: like errCheckAtoms but also accepts tests on joins of such errors
func errCheckAtomsPhi(f *ssa.Function, match func(*ssa.Call) bool, desc string) []Atom {
	var out []Atom
	for _, ifi := range ifsOf(f) {
		bo, ok := ifi.Cond.(*ssa.BinOp)
		if !ok || (bo.Op != token.NEQ && bo.Op != token.EQL) {
			continue
		}
		var v ssa.Value
		if isNilConst(bo.Y) {
			v = bo.X
		} else if isNilConst(bo.X) {
			v = bo.Y
		} else {
			continue
		}
		if !errValueOf(v, match, 0) {
			continue
		}
		pass := 1
		if bo.Op == token.EQL {
			pass = 0
		}
		out = append(out, Atom{ifi, pass, desc})
	}
	return out
}
