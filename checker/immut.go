package main

import (
	"fmt"
	"go/token"
	"strings"

	"golang.org/x/tools/go/ssa"
)

// sharedSliceImmutable: a slice-typed field whose value is handed out by reference (published under a lock and read
// outside it, captured by closures, stored in caches) is only ever replaced as a whole; no function of the package
// writes into the elements of a value loaded from it: no element store, no copy into it, no append that may reuse
// its backing array, no hand-over to a repository callee that writes that parameter.
func sharedSliceImmutable(c *Ctx, rule, pkg, field string, minFuncs int, construct, consequence string) {
	fx := getFX(c)
	isLoad := func(v ssa.Value) bool {
		if u, ok := v.(*ssa.UnOp); ok && u.Op == token.MUL {
			if fa, ok := u.X.(*ssa.FieldAddr); ok && fieldName(fa.X.Type(), fa.Field) == field {
				return true
			}
		}
		if f, ok := v.(*ssa.Field); ok && fieldName(f.X.Type(), f.Field) == field {
			return true
		}
		return false
	}
	// derived(v, forAppend): v shares its backing array with a value loaded from the field. For append, a
	// three-index slice whose capacity equals its length forces a reallocation and is therefore not shared.
	var derived func(v ssa.Value, forAppend bool, seen map[ssa.Value]bool) bool
	derived = func(v ssa.Value, forAppend bool, seen map[ssa.Value]bool) bool {
		if seen[v] {
			return false
		}
		seen[v] = true
		if isLoad(v) {
			return true
		}
		switch x := v.(type) {
		case *ssa.Slice:
			if forAppend && x.Max != nil && x.High != nil && x.Max == x.High {
				return false
			}
			return derived(x.X, false, seen)
		case *ssa.Phi:
			for _, e := range x.Edges {
				if derived(e, forAppend, seen) {
					return true
				}
			}
		case *ssa.ChangeType:
			return derived(x.X, forAppend, seen)
		case *ssa.Call:
			// append(shared, ...) may return the shared array
			if bi, ok := x.Call.Value.(*ssa.Builtin); ok && bi.Name() == "append" {
				return derived(x.Call.Args[0], true, seen)
			}
		}
		return false
	}
	n := 0
	for _, f := range c.P.RepoFuncs(pkg) {
		if strings.HasSuffix(c.P.relFile(f.Pos()), "_test.go") {
			continue
		}
		touches := false
		instrsOf(f, func(_ *ssa.BasicBlock, in ssa.Instruction) {
			switch x := in.(type) {
			case *ssa.FieldAddr:
				if fieldName(x.X.Type(), x.Field) == field {
					touches = true
				}
			case *ssa.Field:
				if fieldName(x.X.Type(), x.Field) == field {
					touches = true
				}
			}
		})
		if !touches {
			continue
		}
		n++
		c.Evals++
		var where ssa.Instruction
		what := ""
		instrsOf(f, func(_ *ssa.BasicBlock, in ssa.Instruction) {
			switch x := in.(type) {
			case *ssa.Store:
				if ia, ok := x.Addr.(*ssa.IndexAddr); ok && derived(ia.X, false, map[ssa.Value]bool{}) {
					where, what = x, "an element is stored"
				}
			case *ssa.Call:
				if bi, ok := x.Call.Value.(*ssa.Builtin); ok {
					switch bi.Name() {
					case "copy", "clear":
						if derived(x.Call.Args[0], false, map[ssa.Value]bool{}) {
							where, what = x, bi.Name()+" writes into it"
						}
					case "append":
						if derived(x.Call.Args[0], true, map[ssa.Value]bool{}) {
							where, what = x, "append may reuse its backing array"
						}
					}
					return
				}
				if x.Call.IsInvoke() {
					return
				}
				sc := x.Call.StaticCallee()
				if sc == nil || !inRepo(sc) {
					return
				}
				for i, a := range x.Call.Args {
					if !derived(a, false, map[ssa.Value]bool{}) {
						continue
					}
					for r := range fx.Writes(sc) {
						if r.Kind == rkParam && r.Idx == i {
							where, what = x, "it is passed to "+fname(sc)+", which writes that argument"
						}
					}
				}
			}
		})
		if where != nil {
			c.Violated(rule, fname(f), construct, "a value loaded from ."+field+" is written in place at "+c.P.pos(where.Pos())+" ("+what+"): "+consequence, where.Pos())
		} else {
			c.Holds(rule, fname(f), construct, "only whole-slice assignments", f.Pos())
		}
	}
	if n < minFuncs {
		c.Undecided(rule, pkg, "functions touching ."+field, fmt.Sprintf("only %d found", n), token.NoPos)
	}
}
