package main

// C03 — the SM2 curve object: parameters, tables, point formulas as polynomial
// identities, special cases, scalar recoding bounds, key generation.

import (
	"fmt"
	"go/token"
	"math/big"
	"sort"
	"strings"

	"golang.org/x/tools/go/ssa"
)

func init() { register("C03", checkC03) }

func hexBig(s string) *big.Int {
	v, ok := new(big.Int).SetString(s, 16)
	if !ok {
		panic("bad hex " + s)
	}
	return v
}

// GM/T 0003.5 recommended curve
var (
	refP  = hexBig("FFFFFFFEFFFFFFFFFFFFFFFFFFFFFFFFFFFFFFFF00000000FFFFFFFFFFFFFFFF")
	refA  = hexBig("FFFFFFFEFFFFFFFFFFFFFFFFFFFFFFFFFFFFFFFF00000000FFFFFFFFFFFFFFFC")
	refB  = hexBig("28E9FA9E9D9F5E344D5A9E4BCF6509A7F39789F515AB8F92DDBCBD414D940E93")
	refN  = hexBig("FFFFFFFEFFFFFFFFFFFFFFFFFFFFFFFF7203DF6B21C6052B53BBF40939D54123")
	refGx = hexBig("32C4AE2C1F1981195F9904466A39C9948FE30BBFF2660BE1715A4589334C74C7")
	refGy = hexBig("BC3736A2F4F6779C59BDCEE36B692153D0A9877CC62A474002DF32E52139F0A0")
)

// ---- independent affine arithmetic (checker side)
type apt struct{ x, y *big.Int } // nil x = infinity

func aDouble(p apt) apt {
	if p.x == nil || p.y.Sign() == 0 {
		return apt{}
	}
	l := new(big.Int).Mul(p.x, p.x)
	l.Mul(l, big.NewInt(3))
	l.Add(l, refA)
	d := new(big.Int).Lsh(p.y, 1)
	d.ModInverse(d, refP)
	l.Mul(l, d).Mod(l, refP)
	x := new(big.Int).Mul(l, l)
	x.Sub(x, p.x).Sub(x, p.x).Mod(x, refP)
	y := new(big.Int).Sub(p.x, x)
	y.Mul(y, l).Sub(y, p.y).Mod(y, refP)
	return apt{x, y}
}

func aAdd(p, q apt) apt {
	if p.x == nil {
		return q
	}
	if q.x == nil {
		return p
	}
	if p.x.Cmp(q.x) == 0 {
		if p.y.Cmp(q.y) == 0 {
			return aDouble(p)
		}
		return apt{}
	}
	l := new(big.Int).Sub(q.y, p.y)
	d := new(big.Int).Sub(q.x, p.x)
	d.Mod(d, refP)
	d.ModInverse(d, refP)
	l.Mul(l, d).Mod(l, refP)
	x := new(big.Int).Mul(l, l)
	x.Sub(x, p.x).Sub(x, q.x).Mod(x, refP)
	y := new(big.Int).Sub(p.x, x)
	y.Mul(y, l).Sub(y, p.y).Mod(y, refP)
	return apt{x, y}
}

func aMul(k *big.Int, p apt) apt {
	r := apt{}
	for i := k.BitLen() - 1; i >= 0; i-- {
		r = aDouble(r)
		if k.Bit(i) == 1 {
			r = aAdd(r, p)
		}
	}
	return r
}

// limbs: v*2^257 mod p in 9 limbs of 29/28 bits
func montLimbs(v *big.Int) [9]uint32 {
	x := new(big.Int).Lsh(v, 257)
	x.Mod(x, refP)
	return plainLimbs(x)
}

func plainLimbs(x *big.Int) [9]uint32 {
	var out [9]uint32
	t := new(big.Int).Set(x)
	for i := 0; i < 9; i++ {
		w := uint(29)
		if i%2 == 1 {
			w = 28
		}
		m := new(big.Int).And(t, new(big.Int).Sub(new(big.Int).Lsh(big.NewInt(1), w), big.NewInt(1)))
		out[i] = uint32(m.Uint64())
		t.Rsh(t, w)
	}
	return out
}

func limbsValue(l []uint32) *big.Int {
	v := new(big.Int)
	off := uint(0)
	for i, x := range l {
		t := new(big.Int).Lsh(new(big.Int).SetUint64(uint64(x)), off)
		v.Add(v, t)
		if i%2 == 0 {
			off += 29
		} else {
			off += 28
		}
	}
	return v
}

func checkC03(c *Ctx) {
	c.Decided = append(c.Decided,
		"K-C03-params: P, N, B, Gx, Gy, A=P-3, BitSize and RInverse*2^257=1 (mod P) as written in the initialiser equal GM/T 0003.5; G is on the curve and [N]G=O by the checker's own affine arithmetic; the Montgomery copies a,b,gx,gy are derived from those values",
		"K-C03-tables: sm2P256Zero31 = 0 mod p with every limb above the limb range; Carry[k] and Factor[k] = k*2^257 mod p; all 2x15 comb points of sm2P256Precomputed equal (sum of 2^(64j+32t) over the bits of the index)*G in Montgomery limbs (540 words)",
		"P-C03-formulas: PointDouble, PointAdd/PointSub (generic branch), PointAddMixed, IsOnCurve, Decompress and the affine conversion are, as polynomials over GF(p) in their inputs (expanded normal form), the Jacobian group-law formulas up to the projective scaling constant",
		"T-C03-special: in PointAdd/PointSub the cases Z1=0, Z2=0 and P=Q return the other point / the doubling written to the outputs, and the chord formulas are unreachable from them",
		"FX-C03-inputs: PointAdd writes none of its six input coordinates; PointDouble is alias-safe (no input is read after the first output is written)",
		"G-C03-reduce: both scalar recoders reduce the scalar mod n when it is >= n (comparison decoded; >= not >)",
		"G-C03-keygen: GenerateKey reads BitSize/8+8 bytes with io.ReadFull from the caller's reader, d = (bytes mod (n-2)) + 1, public point = [d]G, errors returned",
		"L-C03-init: the curve singleton is written only by the initialiser, which runs only under sync.Once",
		"B-IDX: index/slice/make sites of the curve methods and scalar recoding are in bounds for every byte string",
		"B-NIL-result: in the curve code (sm2/p256.go) the value RETURNED by big.Int.ModInverse / ModSqrt — nil when no inverse / root exists, e.g. for Z = 0 at the point at infinity — is not used without a nil test (the receiver, which stays unchanged in that case, may be)",
		"K-C03-mul: every partial product of sm2P256Mul/Square lands in the limb i+j with the mixed-radix doubling for odd*odd limbs")
	c.NotDec = append(c.NotDec, "limb-level correctness of sm2P256ReduceDegree/ReduceCarry (data-dependent borrow chain; needs a relational numeric proof)", "the window/comb control logic of ScalarMult/ScalarBaseMult beyond tables, reduction and bounds", "windowed-NAF digit positions in sm2GenrateWNaf (3 index sites exempted, numerical invariant)")

	c03Params(c)
	c03Tables(c)
	c03Formulas(c)
	c03Special(c)
	c03Reduce(c)
	c03Keygen(c)
	c03Init(c)
	c03MulStructure(c)
	c03NilResults(c)

	var fs []*ssa.Function
	for _, n := range []string{"sm2P256GetScalar", "sm2GenrateWNaf", "WNafReversed", "sm2P256ScalarBaseMult", "sm2P256ScalarMult", "sm2P256SelectAffinePoint", "sm2P256SelectJacobianPoint", "sm2P256GetBit",
		"sm2P256Curve.ScalarMult", "sm2P256Curve.ScalarBaseMult", "sm2P256Curve.Add", "sm2P256Curve.Double", "sm2P256Curve.IsOnCurve", "sm2P256FromBig", "sm2P256ToBig", "sm2P256ReduceCarry", "sm2P256CopyConditional", "GenerateKey", "Decompress", "Compress"} {
		f := c.Fn("sm2", n)
		if f == nil {
			c.Missing("B-IDX", "sm2."+n, "function", "not found")
			continue
		}
		fs = append(fs, f)
	}
	wnaf := "windowed-NAF digit position: length accumulates bit offsets and stays <= k.BitLen(); a numerical loop invariant outside the linear prover (declared not decided)"
	scan := "constant-time table scan consumes 15x18 words of a slice that the only caller takes from the 540-word comb table at offset 0 or 270 (sizes pinned by K-C03-tables); loop-carried slice length"
	exempt := map[string]string{
		"B-IDX|sm2.sm2GenrateWNaf|index ?*ssa.MakeSlice[?phi1+?phi2] #1": wnaf,
		"B-IDX|sm2.sm2GenrateWNaf|make make(?phi1+1) #1":                 wnaf,
		"B-IDX|sm2.sm2GenrateWNaf|slice ?*ssa.MakeSlice[0:?phi1+1] #1":   wnaf,
		"B-IDX|sm2.sm2P256SelectAffinePoint|index ?phi1[0] #1":           scan,
		"B-IDX|sm2.sm2P256SelectAffinePoint|index ?phi1[0] #2":           scan,
		"B-IDX|sm2.sm2P256SelectAffinePoint|@base:table":                 scan,
	}
	st := bidx(c, "B-IDX", fs, exempt)
	c.Notes = append(c.Notes, fmt.Sprintf("B-IDX: %d sites, %d by the compiler prove pass, %d by LinBounds, %d not proven", st.sites, st.compiler, st.lin, st.unproved))
}

// ---------------------------------------------------------------- parameters

func c03Params(c *Ctx) {
	f := c.Fn("sm2", "initP256Sm2")
	if f == nil {
		c.Missing("K-C03-params", "sm2.initP256Sm2", "function", "curve initialiser not found")
		return
	}
	fn := fname(f)
	vals := map[string]*big.Int{}   // destination -> value
	src := map[ssa.Value]*big.Int{} // SSA value (extract) -> value
	instrsOf(f, func(_ *ssa.BasicBlock, in ssa.Instruction) {
		call, name, _, args, ok := bigMethod(valueOfInstr(in))
		if !ok || name != "SetString" || len(args) != 2 {
			return
		}
		sc, isC := args[0].(*ssa.Const)
		base, okb := constInt(args[1])
		if !isC || !okb {
			return
		}
		str, _ := constString(sc)
		v, okv := new(big.Int).SetString(str, int(base))
		if !okv {
			c.Violated("K-C03-params", fn, "literal "+str, "not a valid base-"+fmt.Sprint(base)+" integer", call.Pos())
			return
		}
		for _, u := range *call.Referrers() {
			if ex, ok := u.(*ssa.Extract); ok && ex.Index == 0 {
				src[ex] = v
				for _, u2 := range *ex.Referrers() {
					if st, ok := u2.(*ssa.Store); ok {
						if fa, ok := st.Addr.(*ssa.FieldAddr); ok {
							vals[fieldName(fa.X.Type(), fa.Field)] = v
						}
					}
				}
			}
		}
	})
	ref := map[string]*big.Int{"P": refP, "N": refN, "B": refB, "Gx": refGx, "Gy": refGy}
	for _, k := range []string{"P", "N", "B", "Gx", "Gy"} {
		c.Evals++
		v := vals[k]
		if v == nil {
			c.Violated("K-C03-params", fn, "parameter "+k, "not set from a literal in the initialiser", f.Pos())
			continue
		}
		c.Check(v.Cmp(ref[k]) == 0, "K-C03-params", fn, "parameter "+k, "equals GM/T 0003.5", fmt.Sprintf("%s = %X differs from GM/T 0003.5 %X", k, v, ref[k]), f.Pos())
	}
	// RInverse
	if r := vals["RInverse"]; r != nil {
		t := new(big.Int).Lsh(r, 257)
		t.Mod(t, refP)
		c.Check(t.Cmp(big.NewInt(1)) == 0, "K-C03-params", fn, "RInverse * 2^257 = 1 (mod P)", "", fmt.Sprintf("RInverse %X is not the inverse of 2^257 mod P", r), f.Pos())
	} else {
		c.Violated("K-C03-params", fn, "RInverse * 2^257 = 1 (mod P)", "RInverse is not set from a literal", f.Pos())
	}
	// BitSize
	bits := int64(-1)
	instrsOf(f, func(_ *ssa.BasicBlock, in ssa.Instruction) {
		if st, ok := in.(*ssa.Store); ok {
			if fa, ok := st.Addr.(*ssa.FieldAddr); ok && fieldName(fa.X.Type(), fa.Field) == "BitSize" {
				bits, _ = constInt(st.Val)
			}
		}
	})
	c.Check(bits == 256, "K-C03-params", fn, "BitSize = 256", "", fmt.Sprintf("BitSize is %d", bits), f.Pos())
	// Montgomery copies: FromBig(&sm2P256.<f>, value)
	want := map[string]*big.Int{"a": refA, "b": refB, "gx": refGx, "gy": refGy}
	got := map[string]*big.Int{}
	for _, ci := range allCalls(f) {
		sc := ci.Common().StaticCallee()
		if sc == nil || sc.Name() != "sm2P256FromBig" {
			continue
		}
		a := ci.Common().Args
		fa, ok := a[0].(*ssa.FieldAddr)
		if !ok {
			continue
		}
		name := fieldName(fa.X.Type(), fa.Field)
		var v *big.Int
		if x, ok := src[a[1]]; ok {
			v = x
		} else if ld, ok := a[1].(*ssa.UnOp); ok {
			if fa2, ok := ld.X.(*ssa.FieldAddr); ok {
				v = vals[fieldName(fa2.X.Type(), fa2.Field)]
			}
		}
		got[name] = v
	}
	for _, k := range []string{"a", "b", "gx", "gy"} {
		v := got[k]
		c.Check(v != nil && v.Cmp(want[k]) == 0, "K-C03-params", fn, "Montgomery copy "+k, "derived from the GM/T value", "field element "+k+" is not initialised from the corresponding GM/T 0003.5 value (a = P-3)", f.Pos())
	}
	// consistency by independent arithmetic
	lhs := new(big.Int).Mul(refGy, refGy)
	lhs.Mod(lhs, refP)
	rhs := new(big.Int).Exp(refGx, big.NewInt(3), refP)
	rhs.Add(rhs, new(big.Int).Mul(refA, refGx)).Add(rhs, refB).Mod(rhs, refP)
	nG := aMul(refN, apt{refGx, refGy})
	c.Check(lhs.Cmp(rhs) == 0 && nG.x == nil && refP.ProbablyPrime(20) && refN.ProbablyPrime(20), "K-C03-params", "checker", "reference self-consistency", "G on curve, [N]G = O, P and N prime", "the checker's reference parameters are inconsistent", 0)
}

func valueOfInstr(in ssa.Instruction) ssa.Value {
	v, _ := in.(ssa.Value)
	return v
}

// ---------------------------------------------------------------- tables

func c03Tables(c *Ctx) {
	pk := c.P.Pkgs["sm2"]
	tabs := pkgTables(pk)
	find := func(name string) *kTable {
		for i := range tabs {
			if tabs[i].Name == name {
				return &tabs[i]
			}
		}
		return nil
	}
	R := new(big.Int).Lsh(big.NewInt(1), 257)
	// Zero31
	if t := find("sm2P256Zero31"); t != nil && len(t.Rows) == 1 && len(t.Rows[0]) == 9 {
		l := rowU32(t.Rows[0])
		v := limbsValue(l)
		ok := new(big.Int).Mod(v, refP).Sign() == 0
		why := ""
		if !ok {
			why = "value is not a multiple of p"
		}
		for i, x := range l {
			c.Evals++
			w := uint(29)
			if i%2 == 1 {
				w = 28
			}
			if uint64(x) < 1<<w {
				ok, why = false, fmt.Sprintf("limb %d = %#x is below 2^%d: a-b+zero31 can underflow", i, x, w)
			}
			if uint64(x)+(1<<w)+16 >= 1<<32 {
				ok, why = false, fmt.Sprintf("limb %d = %#x can overflow 32 bits when added to a limb", i, x)
			}
		}
		c.Check(ok, "K-C03-tables", "sm2.sm2P256Zero31", "0 mod p, limbs dominate the limb range", "", why, t.Pos)
	} else {
		c.Missing("K-C03-tables", "sm2.sm2P256Zero31", "table", "9-limb constant not found")
	}
	// Carry (flat 8x9) and Factor (9 rows)
	kR := func(k int64) *big.Int { v := new(big.Int).Mul(big.NewInt(k), R); return v.Mod(v, refP) }
	checkRow := func(name string, k int64, l []uint32, pos token.Pos) {
		c.Evals++
		v := limbsValue(l)
		ok := new(big.Int).Mod(v, refP).Cmp(kR(k)) == 0
		why := fmt.Sprintf("row %d encodes %X, expected %d*2^257 mod p = %X", k, v, k, kR(k))
		for i, x := range l {
			w := uint(29)
			if i%2 == 1 {
				w = 28
			}
			if uint64(x) > 1<<w {
				ok, why = false, fmt.Sprintf("row %d limb %d exceeds its width", k, i)
			}
		}
		c.Check(ok, "K-C03-tables", "sm2."+name, fmt.Sprintf("row %d = %d*R mod p", k, k), "", why, pos)
	}
	if t := find("sm2P256Carry"); t != nil && len(t.Rows) == 1 && len(t.Rows[0]) == 72 {
		l := rowU32(t.Rows[0])
		for k := 0; k < 8; k++ {
			checkRow("sm2P256Carry", int64(k), l[9*k:9*k+9], t.Pos)
		}
	} else {
		c.Missing("K-C03-tables", "sm2.sm2P256Carry", "table", "8x9 carry table not found")
	}
	if t := find("sm2P256Factor"); t != nil && len(t.Rows) == 9 {
		for k := 0; k < 9; k++ {
			checkRow("sm2P256Factor", int64(k), rowU32(t.Rows[k]), t.Pos)
		}
	} else {
		c.Missing("K-C03-tables", "sm2.sm2P256Factor", "table", "9-row factor table not found")
	}
	// Precomputed comb table
	if t := find("sm2P256Precomputed"); t != nil && len(t.Rows) == 1 && len(t.Rows[0]) == 540 {
		l := rowU32(t.Rows[0])
		G := apt{refGx, refGy}
		bad := 0
		first := ""
		for tb := 0; tb < 2; tb++ {
			for idx := 1; idx < 16; idx++ {
				k := new(big.Int)
				for j := 0; j < 4; j++ {
					if idx&(1<<uint(j)) != 0 {
						k.Add(k, new(big.Int).Lsh(big.NewInt(1), uint(64*j+32*tb)))
					}
				}
				pt := aMul(k, G)
				wx, wy := montLimbs(pt.x), montLimbs(pt.y)
				off := tb*270 + (idx-1)*18
				for i := 0; i < 9; i++ {
					c.Evals += 2
					if l[off+i] != wx[i] || l[off+9+i] != wy[i] {
						bad++
						if first == "" {
							first = fmt.Sprintf("table %d index %d limb %d: have %#x/%#x want %#x/%#x", tb, idx, i, l[off+i], l[off+9+i], wx[i], wy[i])
						}
					}
				}
			}
		}
		c.Check(bad == 0, "K-C03-tables", "sm2.sm2P256Precomputed", "2x15 comb points", "all 540 words equal the comb multiples of G in Montgomery limbs", fmt.Sprintf("%d limbs differ; first: %s", bad, first), t.Pos)
		// the base-point routine must read the bits the table assumes: positions 31-i+j, 95-i+j, 159-i+j, 223-i+j, j in {0,32}; table stride 30*9
		c03CombWiring(c)
	} else {
		c.Missing("K-C03-tables", "sm2.sm2P256Precomputed", "table", "540-word comb table not found")
	}
}

// c03CombWiring: bit positions and table offsets used by sm2P256ScalarBaseMult
func c03CombWiring(c *Ctx) {
	f := c.Fn("sm2", "sm2P256ScalarBaseMult")
	if f == nil {
		c.Missing("K-C03-tables", "sm2.sm2P256ScalarBaseMult", "function", "not found")
		return
	}
	var offs []int64
	var iPhi, jPhi *ssa.Phi
	for _, ci := range allCalls(f) {
		sc := ci.Common().StaticCallee()
		if sc == nil || sc.Name() != "sm2P256GetBit" {
			continue
		}
		a := affineOf(ci.Common().Args[1])
		offs = append(offs, a.k)
		for v, co := range a.coef {
			if p, ok := v.(*ssa.Phi); ok {
				if co == -1 {
					iPhi = p
				} else if co == 1 {
					jPhi = p
				}
			}
		}
	}
	sort.Slice(offs, func(i, j int) bool { return offs[i] < offs[j] })
	okBits := fmt.Sprint(offs) == "[31 95 159 223]" && iPhi != nil && jPhi != nil
	if okBits {
		iv, ok1 := inductionOf(iPhi)
		jv, ok2 := inductionOf(jPhi)
		ib, ok3 := loopBound(iv)
		okBits = ok1 && ok2 && ok3 && iv.init == 0 && iv.step == 1 && ib == 32 && jv.init == 0 && jv.step == 32
	}
	c.Check(okBits, "K-C03-tables", fname(f), "comb bit positions 31-i+j, 95-i+j, 159-i+j, 223-i+j (i<32, j in {0,32})", "", fmt.Sprintf("bit offsets %v / loop structure do not match the layout the table encodes", offs), f.Pos())
	// index assembly bit0 | bit1<<1 | bit2<<2 | bit3<<3 and table stride
	stride := int64(-1)
	instrsOf(f, func(_ *ssa.BasicBlock, in ssa.Instruction) {
		if bo, ok := in.(*ssa.BinOp); ok && bo.Op == token.ADD {
			if k, ok := constInt(bo.Y); ok && k == 270 {
				stride = k
			}
		}
	})
	c.Check(stride == 270, "K-C03-tables", fname(f), "table stride 30*9 words", "", "the second comb table is not addressed at offset 270", f.Pos())
}

// ---------------------------------------------------------------- formulas

func feReturnTriples(c *Ctx, f *ssa.Function, outs []ssa.Value, vars map[string]string) (env *feEnv, ops []feOp) {
	env = &feEnv{f: f, vars: vars}
	ops = env.ops()
	return
}

func c03Formulas(c *Ctx) {
	rule := "P-C03-formulas"
	getFX(c) // field-element clobber analysis consults the effect summaries
	v := func(n string) poly { return pVar(n) }
	// ---- PointDouble(x3,y3,z3,x,y,z)
	if f := c.Fn("sm2", "sm2P256PointDouble"); f != nil {
		env := &feEnv{f: f, vars: map[string]string{}}
		ops := env.ops()
		x, y, z, a := v("x"), v("y"), v("z"), v("curve.a")
		y2 := y.mul(y)
		S := x.mul(y2).scale(4)
		z2 := z.mul(z)
		M := x.mul(x).scale(3).add(a.mul(z2.mul(z2)), 1)
		X3 := M.mul(M).add(S.scale(2), -1)
		Y3 := M.mul(S.add(X3, -1)).add(y2.mul(y2).scale(8), -1)
		Z3 := y.mul(z).scale(2)
		c03CompareAtReturns(c, rule, f, env, ops, []ssa.Value{f.Params[0], f.Params[1], f.Params[2]}, []string{"X3", "Y3", "Z3"}, [][]poly{{X3, Y3, Z3}}, []string{"Jacobian doubling (general a)"})
		// alias safety: no read of x,y,z after the first write of x3,y3,z3 respectively
		for i := 0; i < 3; i++ {
			out, in := f.Params[i], f.Params[3+i]
			var firstW ssa.Instruction
			okAlias := true
			var badPos token.Pos
			for _, op := range ops {
				if op.dst == ssa.Value(out) && (firstW == nil || instrDominates(op.in, firstW)) {
					firstW = op.in
				}
			}
			for _, op := range ops {
				for _, s := range op.srcs {
					if s == ssa.Value(in) && firstW != nil && op.in != firstW && instrDominates(firstW, op.in) {
						okAlias = false
						badPos = op.in.Pos()
					}
				}
			}
			c.Check(okAlias && firstW != nil, "FX-C03-inputs", fname(f), "input "+in.Name()+" not read after "+out.Name()+" is written (callers alias them)", "", "an input coordinate is read after the aliased output was overwritten", badPos)
		}
		c.Evals += env.Ops
	} else {
		c.Missing(rule, "sm2.sm2P256PointDouble", "function", "not found")
	}
	// ---- PointAdd / PointSub generic branch
	for _, name := range []string{"sm2P256PointAdd", "sm2P256PointSub"} {
		f := c.Fn("sm2", name)
		if f == nil {
			c.Missing(rule, "sm2."+name, "function", "not found")
			continue
		}
		vars := map[string]string{}
		env := &feEnv{f: f, vars: vars}
		ops := env.ops()
		x1, y1, z1, x2, y2, z2 := v("x1"), v("y1"), v("z1"), v("x2"), v("y2"), v("z2")
		if name == "sm2P256PointSub" {
			// y2 is negated in place through big.Int: FromBig(y2, 0 - ToBig(y2)); model: y2 := -y2
			vars["big:"+c03NegBigName(f)] = "negy2"
			y2 = v("negy2")
		}
		z1z1, z2z2 := z1.mul(z1), z2.mul(z2)
		U1, U2 := x1.mul(z2z2), x2.mul(z1z1)
		S1, S2 := y1.mul(z2z2.mul(z2)), y2.mul(z1z1.mul(z1))
		H, Rr := U2.add(U1, -1), S2.add(S1, -1)
		H2 := H.mul(H)
		H3 := H2.mul(H)
		X3 := Rr.mul(Rr).add(H3, -1).add(U1.mul(H2).scale(2), -1)
		Y3 := Rr.mul(U1.mul(H2).add(X3, -1)).add(S1.mul(H3), -1)
		Z3 := z1.mul(z2).mul(H)
		refs := [][]poly{
			{X3, Y3, Z3},
			{x2, y2, z2},
			{x1, y1, z1},
		}
		labels := []string{"Jacobian chord addition", "Z1=0: result is the second point", "Z2=0: result is the first point"}
		c03CompareAtReturns(c, rule, f, env, ops, []ssa.Value{f.Params[6], f.Params[7], f.Params[8]}, []string{"X3", "Y3", "Z3"}, refs, labels)
		if name == "sm2P256PointSub" {
			// the negation itself: the big value given to FromBig(y2, ·) is 0 - ToBig(y2)
			c03CheckNeg(c, f)
		}
		c.Evals += env.Ops
		// FX: inputs not written
		fx := getFX(c)
		w := fx.Writes(f)
		for i := 0; i < 6; i++ {
			if name == "sm2P256PointSub" && i == 4 {
				continue // y2 is negated in place; sm2P256ScalarMult relies on it (documented exception)
			}
			wit, bad := w[root{Kind: rkParam, Idx: i}]
			c.Check(!bad, "FX-C03-inputs", fname(f), "input "+f.Params[i].Name()+" is not written", "", "point addition overwrites its input coordinate: "+fx.describe(root{Kind: rkParam, Idx: i}, wit), wit.Pos)
		}
	}
	// ---- PointAddMixed(xOut,yOut,zOut,x1,y1,z1,x2,y2): group law with Z2=1 up to scaling 2
	if f := c.Fn("sm2", "sm2P256PointAddMixed"); f != nil {
		env := &feEnv{f: f, vars: map[string]string{}}
		ops := env.ops()
		x1, y1, z1, x2, y2 := v("x1"), v("y1"), v("z1"), v("x2"), v("y2")
		z1z1 := z1.mul(z1)
		U2 := x2.mul(z1z1)
		S2 := y2.mul(z1z1.mul(z1))
		H, Rr := U2.add(x1, -1), S2.add(y1, -1)
		H2 := H.mul(H)
		H3 := H2.mul(H)
		X3 := Rr.mul(Rr).add(H3, -1).add(x1.mul(H2).scale(2), -1)
		Y3 := Rr.mul(x1.mul(H2).add(X3, -1)).add(y1.mul(H3), -1)
		Z3 := z1.mul(H)
		var refs [][]poly
		var labels []string
		for _, l := range []int64{1, 2, 4, -1, -2} {
			refs = append(refs, []poly{X3.scale(l * l), Y3.scale(l * l * l), Z3.scale(l)})
			labels = append(labels, fmt.Sprintf("mixed Jacobian addition, projective scale %d", l))
		}
		c03CompareAtReturns(c, rule, f, env, ops, []ssa.Value{f.Params[0], f.Params[1], f.Params[2]}, []string{"X3", "Y3", "Z3"}, refs, labels)
		c.Evals += env.Ops
	} else {
		c.Missing(rule, "sm2.sm2P256PointAddMixed", "function", "not found")
	}
	c03IsOnCurve(c, rule)
	// ---- affine conversion: x*zinv^2, y*zinv^3 with zinv = FromBig(ModInverse(ToBig(z), P))
	if f := c.Fn("sm2", "sm2P256PointToAffine"); f != nil {
		vars := map[string]string{}
		env := &feEnv{f: f, vars: vars}
		ops := env.ops()
		// name the big value passed to FromBig: must be ModInverse(ToBig(z), P)
		be := newBigEnv(f, paramNames(f, "xOut", "yOut", "x", "y", "z"))
		okInv := false
		for _, op := range ops {
			if op.kind == "frombig" {
				s := be.valueAt(op.big, op.in).String()
				if s == "modinv(call:sm2.sm2P256ToBig(z),global:sm2P256.CurveParams.P)" {
					okInv = true
					vars["big:"+op.big.Name()] = "zinv"
				} else {
					dbg("toAffine frombig: %s", s)
				}
			}
		}
		x, y, zi := v("x"), v("y"), v("zinv")
		c03CompareAtReturns(c, rule, f, env, ops, []ssa.Value{f.Params[0], f.Params[1]}, []string{"xOut", "yOut"}, [][]poly{{x.mul(zi.mul(zi)), y.mul(zi.mul(zi).mul(zi))}}, []string{"x/z^2, y/z^3"})
		c.Check(okInv, rule, fname(f), "zinv = z^-1 mod P", "", "the inverse used for the affine conversion is not ModInverse(ToBig(z), P)", f.Pos())
		c.Evals += env.Ops
	} else {
		c.Missing(rule, "sm2.sm2P256PointToAffine", "function", "not found")
	}
}

// c03NegBigName: SSA name of the big.Int given to FromBig(y2, ·) in PointSub
func c03NegBigName(f *ssa.Function) string {
	for _, ci := range allCalls(f) {
		if sc := ci.Common().StaticCallee(); sc != nil && sc.Name() == "sm2P256FromBig" {
			return ci.Common().Args[1].Name()
		}
	}
	return ""
}

func c03CheckNeg(c *Ctx, f *ssa.Function) {
	be := newBigEnv(f, paramNames(f, "x1", "y1", "z1", "x2", "y2", "z2", "x3", "y3", "z3"))
	ok := false
	first := true
	for _, ci := range allCalls(f) {
		call, _ := ci.(*ssa.Call)
		if sc := ci.Common().StaticCallee(); sc != nil && sc.Name() == "sm2P256FromBig" && call != nil {
			s := be.valueAt(call.Call.Args[1], call).String()
			if call.Call.Args[0] == ssa.Value(f.Params[4]) && s == "sub(0x0,call:sm2.sm2P256ToBig(y2))" {
				ok = true
			} else {
				dbg("PointSub frombig: %s", s)
			}
			// the negation must precede every other use of y2: it is in the entry block before any field op
			if call.Block() != f.Blocks[0] {
				first = false
			}
		}
	}
	c.Check(ok && first, "P-C03-formulas", fname(f), "second point negated (y2 := -y2) before the addition", "", "PointSub does not replace y2 by -y2 mod p before adding", f.Pos())
}

// c03CompareAtReturns: at every return, the output triple must equal one of the reference tuples; every
// reference tuple with index 0 must occur at least once.
func c03CompareAtReturns(c *Ctx, rule string, f *ssa.Function, env *feEnv, ops []feOp, outs []ssa.Value, outNames []string, refs [][]poly, labels []string) {
	fn := fname(f)
	seen := map[int]bool{}
	nret := 0
	for _, b := range f.Blocks {
		ret, ok := b.Instrs[len(b.Instrs)-1].(*ssa.Return)
		if !ok {
			continue
		}
		nret++
		// a return right after a call that computes the outputs (e.g. PointDouble(x3,y3,z3,…)) is judged by T-C03-special
		clob := false
		for _, op := range ops {
			if strings.HasPrefix(op.kind, "clobber:sm2P256PointDouble") && instrDominates(op.in, ret) && op.in.Block() == b {
				clob = true
			}
		}
		if clob {
			continue
		}
		got := make([]poly, len(outs))
		why := ""
		for i, o := range outs {
			got[i], why = env.valueAt(o, ret, ops)
			if got[i] == nil {
				break
			}
		}
		matched := -1
		if why == "" {
			for ri, ref := range refs {
				all := true
				for i := range outs {
					if !got[i].equal(ref[i]) {
						all = false
						break
					}
				}
				if all {
					matched = ri
					break
				}
			}
		}
		construct := fmt.Sprintf("return #%d outputs (%s)", nret, strings.Join(outNames, ","))
		if matched >= 0 {
			seen[matched] = true
			c.Holds(rule, fn, construct, "polynomial identity: "+labels[matched], ret.Pos())
			continue
		}
		if why != "" {
			c.Undecided(rule, fn, construct, "value of an output not reconstructible: "+why, ret.Pos())
			continue
		}
		// report the first differing component against the primary reference
		diff := ""
		for i := range outs {
			if !got[i].equal(refs[0][i]) {
				diff = outNames[i] + " - reference = " + got[i].add(refs[0][i], -1).String()
				break
			}
		}
		c.Violated(rule, fn, construct, "the outputs are not the group-law polynomials ("+labels[0]+"): "+diff, ret.Pos())
	}
	if !seen[0] {
		isMixed := strings.Contains(labels[0], "mixed")
		any := false
		for k := range seen {
			if isMixed || k == 0 {
				any = any || true
				_ = k
			}
		}
		if !(isMixed && len(seen) > 0) {
			c.Violated(rule, fn, "generic formula present", "no return yields "+labels[0], f.Pos())
		}
	}
}

// ---------------------------------------------------------------- special cases

func c03Special(c *Ctx) {
	c03ZForAffine(c)
	c03OnCurveZero(c)
	if n := narrowShift(c, "K-NARROW-shift", []string{"sm2"}); n >= 0 {
		c.Holds("K-NARROW-shift", "sm2", "no 8/16-bit value is shifted left by its width or more", fmt.Sprintf("%d narrow left shifts inspected", n), token.NoPos)
	}
	c03Wrappers(c)
	for _, name := range []string{"sm2P256PointAdd", "sm2P256PointSub"} {
		f := c.Fn("sm2", name)
		if f == nil {
			continue
		}
		fn := fname(f)
		be := newBigEnv(f, paramNames(f, "x1", "y1", "z1", "x2", "y2", "z2", "x3", "y3", "z3"))
		// generic tail marker: the first Sub (h = u2 - u1)
		var tail ssa.Instruction
		for _, ci := range allCalls(f) {
			if sc := ci.Common().StaticCallee(); sc != nil && sc.Name() == "sm2P256Sub" && tail == nil {
				tail = ci
			}
		}
		if tail == nil {
			c.Undecided("T-C03-special", fn, "chord formulas", "no field subtraction found", f.Pos())
			continue
		}
		type sp struct {
			desc  string
			atoms []Atom
			want  string // what the branch must do
		}
		var zAtoms = map[string][]Atom{}
		var eqU, eqS []Atom
		for _, ifi := range ifsOf(f) {
			st, ok := decodeSignTest(ifi.Cond)
			if !ok {
				continue
			}
			xv := be.valueAt(st.X, st.Call).String()
			if st.Kind == "Sign" {
				for _, z := range []string{"z1", "z2"} {
					if xv == "call:sm2.sm2P256ToBig("+z+")" {
						// "is zero" when sign == 0
						if ps, ok := passSuccFor([3]bool{false, true, false}, st.TrueSet); ok {
							zAtoms[z] = append(zAtoms[z], Atom{ifi, ps, z + " == 0"})
						}
					}
				}
			}
			if st.Kind == "Cmp" {
				yv := be.valueAt(st.Y, st.Call).String()
				if ps, ok := passSuccFor([3]bool{false, true, false}, st.TrueSet); ok {
					if strings.HasPrefix(xv, "call:sm2.sm2P256ToBig(") && strings.HasPrefix(yv, "call:sm2.sm2P256ToBig(") {
						// first such comparison = u, second = s (by dominance order)
						if len(eqU) == 0 {
							eqU = append(eqU, Atom{ifi, ps, "u1 == u2"})
						} else {
							eqS = append(eqS, Atom{ifi, ps, "s1 == s2"})
						}
					}
				}
			}
		}
		// for each special case: the "is special" edge must reach a return without passing the generic tail
		check := func(desc string, atoms []Atom) {
			if len(atoms) == 0 {
				c.Violated("T-C03-special", fn, desc, "the special case is not tested", f.Pos())
				return
			}
			a := atoms[len(atoms)-1]
			blk := a.If.Block()
			special := blk.Succs[a.PassSucc]
			seen := reach([]*ssa.BasicBlock{special}, nil)
			c.Check(!seen[tail.Block()] || special == tail.Block() && false, "T-C03-special", fn, desc+" returns before the chord formulas", "", "after detecting "+desc+" control still reaches the generic chord formulas, which are invalid for this case (they yield the point at infinity)", a.If.Cond.Pos())
		}
		check("Z1 = 0", zAtoms["z1"])
		check("Z2 = 0", zAtoms["z2"])
		if len(eqU) == 0 || len(eqS) == 0 {
			c.Violated("T-C03-special", fn, "P = Q", "the equal-points case (u1==u2 and s1==s2) is not tested", f.Pos())
		} else {
			check("P = Q", eqS)
			// the equal branch computes the doubling of (x1,y1,z1) into (x3,y3,z3)
			a := eqS[len(eqS)-1]
			special := a.If.Block().Succs[a.PassSucc]
			okDbl := false
			for _, in := range special.Instrs {
				if call, ok := in.(*ssa.Call); ok {
					if sc := call.Call.StaticCallee(); sc != nil && sc.Name() == "sm2P256PointDouble" {
						ar := call.Call.Args
						okDbl = ar[0] == ssa.Value(f.Params[6]) && ar[1] == ssa.Value(f.Params[7]) && ar[2] == ssa.Value(f.Params[8]) &&
							ar[3] == ssa.Value(f.Params[0]) && ar[4] == ssa.Value(f.Params[1]) && ar[5] == ssa.Value(f.Params[2])
					}
				}
			}
			c.Check(okDbl, "T-C03-special", fn, "P = Q yields PointDouble(x3,y3,z3 <- x1,y1,z1)", "", "the equal-points branch does not write the doubling of the first point to the outputs", a.If.Cond.Pos())
			// u and s compare the right quantities: u1=x1 z2^2 vs u2=x2 z1^2 ; s1 = y1 z2^3 vs s2 = y2 z1^3
			vars := map[string]string{}
			if name == "sm2P256PointSub" {
				vars["big:"+c03NegBigName(f)] = "negy2"
			}
			env := &feEnv{f: f, vars: vars}
			ops := env.ops()
			v := pVar
			y2n := "y2"
			if name == "sm2P256PointSub" {
				y2n = "negy2"
			}
			wantU := v("x1").mul(v("z2")).mul(v("z2")).add(v("x2").mul(v("z1")).mul(v("z1")), -1)
			wantS := v("y1").mul(v("z2")).mul(v("z2")).mul(v("z2")).add(v(y2n).mul(v("z1")).mul(v("z1")).mul(v("z1")), -1)
			for i, pr := range []struct {
				at   []Atom
				want poly
				d    string
			}{{eqU, wantU, "u1-u2 = x1 z2^2 - x2 z1^2"}, {eqS, wantS, "s1-s2 = y1 z2^3 - y2 z1^3"}} {
				st, _ := decodeSignTest(pr.at[0].If.Cond)
				l, okl := st.X.(*ssa.Call)
				r, okr := st.Y.(*ssa.Call)
				good := false
				if okl && okr {
					pl, _ := env.valueAt(l.Call.Args[0], l, ops)
					prr, _ := env.valueAt(r.Call.Args[0], r, ops)
					if pl != nil && prr != nil {
						d := pl.add(prr, -1)
						good = d.equal(pr.want) || d.scale(-1).equal(pr.want)
					}
				}
				_ = i
				c.Check(good, "T-C03-special", fn, "equality test compares "+pr.d, "", "the equal-points test does not compare the projectively normalised coordinates", pr.at[0].If.Cond.Pos())
			}
		}
	}
}

// ---------------------------------------------------------------- scalar reduction

func c03Reduce(c *Ctx) {
	for _, name := range []string{"sm2P256GetScalar", "sm2GenrateWNaf"} {
		f := c.Fn("sm2", name)
		if f == nil {
			c.Missing("G-C03-reduce", "sm2."+name, "function", "not found")
			continue
		}
		fn := fname(f)
		var bytesParam *ssa.Parameter
		for _, p := range f.Params {
			if isByteSlice(p.Type()) {
				bytesParam = p
			}
		}
		names := map[ssa.Value]string{}
		if bytesParam != nil {
			names[bytesParam] = "k"
		}
		be := newBigEnv(f, names)
		found, good := false, false
		var pos token.Pos
		for _, ifi := range ifsOf(f) {
			st, ok := decodeSignTest(ifi.Cond)
			if !ok || st.Kind != "Cmp" {
				continue
			}
			xv := normBig(be.valueAt(st.X, st.Call).String())
			yv := normBig(be.valueAt(st.Y, st.Call).String())
			if xv != "frombytes(k)" || yv != "N" {
				continue
			}
			found = true
			pos = ifi.Cond.Pos()
			// needs reduction when sign(k-N) in {0,+}
			ps, ok := passSuccFor([3]bool{false, true, true}, st.TrueSet)
			if !ok {
				continue
			}
			red := ifi.Block().Succs[ps]
			for _, in := range red.Instrs {
				if call, nm, recv, args, ok := bigMethod(valueOfInstr(in)); ok && nm == "Mod" && objOf(recv) == objOf(st.X) {
					if normBig(be.valueAt(args[1], call).String()) == "N" {
						good = true
					}
				}
			}
		}
		if !found {
			c.Violated("G-C03-reduce", fn, "scalar >= n is reduced mod n", "no comparison of the scalar with the group order", f.Pos())
		} else {
			c.Check(good, "G-C03-reduce", fn, "scalar >= n is reduced mod n", "", "scalars equal to or above the group order are not reduced mod n before recoding (comparison must be >=)", pos)
		}
	}
}

// ---------------------------------------------------------------- key generation

func c03Keygen(c *Ctx) {
	f := c.Fn("sm2", "GenerateKey")
	if f == nil {
		c.Missing("G-C03-keygen", "sm2.GenerateKey", "function", "not found")
		return
	}
	fn := fname(f)
	names := paramNames(f, "random")
	nameDefaultPhis(f, names)
	be := newBigEnv(f, names)
	spec, _ := defaultResultSpec(f)
	var rf *ssa.Call
	for _, ci := range allCalls(f) {
		id := calleeID(ci.Common())
		if id == "io.ReadFull" || id == "io.ReadAtLeast" {
			rf, _ = ci.(*ssa.Call)
		}
	}
	if rf == nil {
		c.Violated("G-C03-keygen", fn, "io.ReadFull(random, b)", "key bytes are not read with io.ReadFull from the supplied reader", f.Pos())
		return
	}
	rd := be.plain(rf.Call.Args[0], rf).String()
	c.Check(rd == "random|Reader" || rd == "random", "G-C03-keygen", fn, "reader is the caller's (default crypto/rand)", "", "reads from "+rd, rf.Pos())
	buf := normBig(be.plain(rf.Call.Args[1], rf).String())
	c.Check(buf == "make(add(0x8,quo(BITS,0x8)))", "G-C03-keygen", fn, "BitSize/8+8 random bytes", "", "key buffer is "+buf, rf.Pos())
	g := evalGuard(c.P, f, errCheckAtoms(f, func(cl *ssa.Call) bool { return cl == rf }, "read error"), spec, curveOps(f))
	c.Check(g.OK, "G-C03-keygen", fn, "short read is an error", g.Why, "a failed or short read must not yield a key: "+g.Why, g.Pos)
	// stores into the returned key: D and X,Y
	var dVal, xVal, yVal string
	var curveVal string
	instrsOf(f, func(_ *ssa.BasicBlock, in ssa.Instruction) {
		st, ok := in.(*ssa.Store)
		if !ok {
			return
		}
		fa, ok := st.Addr.(*ssa.FieldAddr)
		if !ok {
			return
		}
		switch fieldName(fa.X.Type(), fa.Field) {
		case "D":
			dVal = normBig(be.valueAt(st.Val, st).String())
		case "X":
			xVal = normBig(be.plain(st.Val, st).String())
		case "Y":
			yVal = normBig(be.plain(st.Val, st).String())
		case "Curve":
			curveVal = be.plain(st.Val, st).String()
		}
	})
	D := "add(0x1,mod(frombytes(" + buf + "),sub(N,0x2)))"
	c.Check(dVal == D, "G-C03-keygen", fn, "d = (bytes mod (n-2)) + 1", "", "private scalar is "+dVal+", expected "+D+" (d in [1,n-2]; d = n-1 makes signing divide by zero)", f.Pos())
	c.Check(xVal == "res0(call:ScalarBaseMult(bytes("+D+")))" && yVal == "res1(call:ScalarBaseMult(bytes("+D+")))", "G-C03-keygen", fn, "public key = [d]G", "", "public point is ("+xVal+", "+yVal+")", f.Pos())
	c.Check(strings.Contains(curveVal, "P256Sm2"), "G-C03-keygen", fn, "curve = P256Sm2()", "", "key curve is "+curveVal, f.Pos())
}

// ---------------------------------------------------------------- initialisation

func c03Init(c *Ctx) {
	sp := c.P.SSAPkg["sm2"]
	g, _ := sp.Members["sm2P256"].(*ssa.Global)
	if g == nil {
		c.Missing("L-C03-init", "sm2.sm2P256", "global", "curve singleton not found")
		return
	}
	initf := c.Fn("sm2", "initP256Sm2")
	// direct writers of the global: stores whose address derives from the global
	fx := getFX(c)
	gr := root{Kind: rkGlobal, G: modPath + "/sm2.sm2P256"}
	for _, f := range c.P.RepoFuncs("sm2") {
		w := fx.Writes(f)
		for r, wit := range w {
			if r.Kind != rkGlobal || r.G != gr.G {
				continue
			}
			c.Evals++
			allowed := f == initf || f.Name() == "init"
			// callers that merely reach the initialiser through P256Sm2/sync.Once are fine: witness via Do
			if !allowed && wit.Via != nil && (wit.Via == initf || strings.Contains(wit.What, "initP256Sm2") || strings.Contains(wit.What, "P256Sm2")) {
				allowed = true
			}
			if !allowed && wit.Via == nil && f != initf {
				allowed = false
			}
			if allowed {
				continue
			}
			c.Violated("L-C03-init", fname(f), "writes "+r.String(), "the curve singleton may only be written by its initialiser: "+fx.describe(r, wit), wit.Pos)
		}
	}
	// initP256Sm2 referenced only as the argument of (*sync.Once).Do
	okOnce := true
	var badPos token.Pos
	n := 0
	if initf != nil {
		for _, f := range c.P.RepoFuncs("sm2") {
			instrsOf(f, func(_ *ssa.BasicBlock, in ssa.Instruction) {
				for _, op := range in.Operands(nil) {
					if *op != ssa.Value(initf) {
						continue
					}
					n++
					call, ok := in.(*ssa.Call)
					if !ok || calleeID(&call.Call) != "(*sync.Once).Do" {
						okOnce = false
						badPos = in.Pos()
					}
				}
			})
		}
	}
	c.Check(initf != nil && okOnce && n >= 1, "L-C03-init", "sm2.initP256Sm2", "runs only under sync.Once", "", "the curve initialiser is invoked outside sync.Once.Do (concurrent first use would race)", badPos)
	c.Holds("L-C03-init", "sm2.sm2P256", "no writer other than the initialiser", "", g.Pos())
}

// ---------------------------------------------------------------- Mul / Square structure

// c03MulStructure: in sm2P256Mul, tmp[k] = sum of a[i]*b[j] with i+j==k, each product scaled by 2 iff i and j are both odd,
// every pair (i,j) exactly once; in sm2P256Square the same with a==b (cross terms may be merged with factor 2).
func c03MulStructure(c *Ctx) {
	for _, name := range []string{"sm2P256Mul", "sm2P256Square"} {
		f := c.Fn("sm2", name)
		if f == nil {
			c.Missing("K-C03-mul", "sm2."+name, "function", "not found")
			continue
		}
		fn := fname(f)
		// count[i][j] accumulated weight of product a[i]*b[j] found in tmp[i+j]
		var weight [9][9]int64
		bad := ""
		var badPos token.Pos
		instrsOf(f, func(_ *ssa.BasicBlock, in ssa.Instruction) {
			st, ok := in.(*ssa.Store)
			if !ok {
				return
			}
			ia, ok := st.Addr.(*ssa.IndexAddr)
			if !ok {
				return
			}
			k, ok := constInt(ia.Index)
			if !ok {
				return
			}
			if n, ok := staticLen(ia.X.Type()); !ok || n != 17 {
				return
			}
			for _, term := range opLeaves(st.Val, token.ADD) {
				c.Evals++
				i, j, sh, ok := limbProduct(term)
				if !ok {
					bad, badPos = fmt.Sprintf("tmp[%d] has a term that is not limb*limb<<s", k), st.Pos()
					continue
				}
				if int64(i+j) != k {
					bad, badPos = fmt.Sprintf("tmp[%d] contains the product of limbs %d and %d", k, i, j), st.Pos()
					continue
				}
				weight[i][j] += 1 << uint(sh)
			}
		})
		for i := 0; i < 9 && bad == ""; i++ {
			for j := 0; j < 9 && bad == ""; j++ {
				want := int64(1)
				if i%2 == 1 && j%2 == 1 {
					want = 2
				}
				got := weight[i][j]
				if name == "sm2P256Square" {
					// symmetric: a[i]a[j] and a[j]a[i] may be merged
					if i > j {
						continue
					}
					got = weight[i][j] + weight[j][i]
					if i != j {
						want *= 2
					}
					if i == j {
						got = weight[i][i]
					}
				}
				if got != want {
					bad = fmt.Sprintf("product of limbs %d and %d has total weight %d, expected %d", i, j, got, want)
					badPos = f.Pos()
				}
			}
		}
		c.Check(bad == "", "K-C03-mul", fn, "schoolbook products in mixed radix 29/28", "81 partial products, each in limb i+j, doubled for odd*odd", bad, badPos)
	}
}

// limbProduct: uint64(a[i]) * (uint64(b[j]) << s)  (either operand order, shift optional) -> i, j, s
func limbProduct(v ssa.Value) (i, j int, sh int64, ok bool) {
	bo, isB := v.(*ssa.BinOp)
	if !isB || bo.Op != token.MUL {
		return 0, 0, 0, false
	}
	limb := func(x ssa.Value) (int, int64, bool) {
		s := int64(0)
		if sb, ok := x.(*ssa.BinOp); ok && sb.Op == token.SHL {
			k, ok := constInt(sb.Y)
			if !ok {
				return 0, 0, false
			}
			s = k
			x = sb.X
		}
		x = stripConvAll(x)
		_, idx, ok := loadOfIndex(x)
		if !ok {
			return 0, 0, false
		}
		k, ok := constInt(idx)
		if !ok {
			return 0, 0, false
		}
		return int(k), s, true
	}
	i, s1, ok1 := limb(bo.X)
	j, s2, ok2 := limb(bo.Y)
	if !ok1 || !ok2 {
		return 0, 0, 0, false
	}
	return i, j, s1 + s2, true
}

// c03IsOnCurve: the membership test compares y^2 with x^3 + a x + b (as polynomials over GF(p)). Run under C03, and
// under C02 and C13, whose "reject a point that is not on the curve" guards are only as good as this test.
func c03IsOnCurve(c *Ctx, rule string) {
	getFX(c)
	v := func(n string) poly { return pVar(n) }
	// ---- IsOnCurve: x^3 + a x + b  vs  y^2
	if f := c.Fn("sm2", "sm2P256Curve.IsOnCurve"); f != nil {
		env := &feEnv{f: f, vars: map[string]string{}}
		ops := env.ops()
		// the return compares ToBig(&lhs) with ToBig(&rhs)
		var got []poly
		instrsOf(f, func(_ *ssa.BasicBlock, in ssa.Instruction) {
			ret, ok := in.(*ssa.Return)
			if !ok {
				return
			}
			bo, ok := ret.Results[0].(*ssa.BinOp)
			if !ok || bo.Op != token.EQL {
				return
			}
			_, nm, recv, args, ok := bigMethod(bo.X)
			if !ok || nm != "Cmp" {
				return
			}
			for _, side := range []ssa.Value{recv, args[0]} {
				if call, ok := side.(*ssa.Call); ok && call.Call.StaticCallee() != nil && call.Call.StaticCallee().Name() == "sm2P256ToBig" {
					p, _ := env.valueAt(call.Call.Args[0], call, ops)
					got = append(got, p)
				}
			}
		})
		x, y := v("X"), v("Y")
		want := x.mul(x).mul(x).add(v("curve.a").mul(x), 1).add(v("curve.b"), 1).add(y.mul(y), -1)
		ok := len(got) == 2 && got[0] != nil && got[1] != nil && (got[0].add(got[1], -1).equal(want) || got[1].add(got[0], -1).equal(want))
		detail := ""
		if len(got) == 2 && got[0] != nil && got[1] != nil {
			detail = "difference of the compared sides is " + got[0].add(got[1], -1).String()
		}
		c.Check(ok, rule, fname(f), "membership test is y^2 == x^3 + a x + b", "", "IsOnCurve does not compare y^2 with x^3+ax+b: "+detail, f.Pos())
		c.Evals += env.Ops
	} else {
		c.Missing(rule, "sm2.sm2P256Curve.IsOnCurve", "method", "not found")
	}
}

// c03NilResults: (*big.Int).ModInverse and ModSqrt RETURN nil when there is no inverse / square root (and leave the
// receiver unchanged). In the curve code that case is the point at infinity (Z = 0), which the property requires to
// come out as (0,0): the returned pointer must not be dereferenced or passed on unless a nil test dominates the use.
func c03NilResults(c *Ctx) {
	rule := "B-NIL-result"
	n := 0
	for f := range c.P.AllFns {
		if !inRepo(f) || f.Pkg == nil || f.Pkg.Pkg.Name() != "sm2" || f.Blocks == nil || !(strings.HasSuffix(c.P.relFile(f.Pos()), "sm2/p256.go") || strings.HasSuffix(c.P.relFile(f.Pos()), "sm2/utils.go")) {
			continue
		}
		for _, ci := range allCalls(f) {
			call, ok := ci.(*ssa.Call)
			if !ok {
				continue
			}
			id := calleeID(&call.Call)
			if id != "(*math/big.Int).ModInverse" && id != "(*math/big.Int).ModSqrt" {
				continue
			}
			n++
			construct := fmt.Sprintf("result of %s #%d", strings.TrimPrefix(id, "(*math/big.Int)."), n)
			bad := token.NoPos
			for _, u := range *call.Referrers() {
				switch x := u.(type) {
				case *ssa.DebugRef:
					continue
				case *ssa.BinOp:
					if (x.Op == token.EQL || x.Op == token.NEQ) && (isNilConst(x.X) || isNilConst(x.Y)) {
						continue
					}
				}
				if !nonNilByDominatingTest(call, u.Block()) {
					bad = u.Pos()
				}
			}
			c.Check(bad == token.NoPos, rule, fname(f), construct, "unused, or used only under a nil test", "the pointer returned by "+id+" is nil when the operand has no inverse / root (Z = 0 at the point at infinity) and is used without a nil test: a nil dereference instead of the (0,0) result", bad)
		}
	}
	if n == 0 {
		c.Undecided(rule, "sm2", "ModInverse/ModSqrt calls in the curve code", "none found", token.NoPos)
	}
}

// c03ZForAffine: the affine-to-Jacobian helper marks a point as infinity (z = 0) exactly when BOTH coordinates are zero.
// Decided on values: assuming x.Sign() != 0 (resp. y.Sign() != 0) the returned z must have been set to 1 on every
// path — i.e. a return is unreachable once the edges into the SetInt64(1) block are cut; and assuming both signs are
// zero the SetInt64(1) call must be unreachable.
func c03ZForAffine(c *Ctx) {
	rule := "T-C03-special"
	f := c.Fn("sm2", "zForAffine")
	if f == nil {
		c.Undecided(rule, "sm2.zForAffine", "infinity exactly for (0,0)", "helper not found (affine inputs are converted elsewhere)", token.NoPos)
		return
	}
	ci := newCondIndex(f, paramNames(f, "x", "y"))
	for _, cs := range ci.conds {
		dbg("zForAffine cond: %s", cs)
	}
	// where the result becomes 1: blocks calling SetInt64(1), and returns of big.NewInt(1)
	oneBlocks := map[*ssa.BasicBlock]bool{}
	var pos1 token.Pos
	isNewInt := func(v ssa.Value, k int64) bool {
		call, ok := v.(*ssa.Call)
		if !ok || calleeID(&call.Call) != "math/big.NewInt" {
			return false
		}
		kk, isK := constInt(call.Call.Args[0])
		return isK && kk == k
	}
	for _, cl := range allCalls(f) {
		if call, ok := cl.(*ssa.Call); ok && calleeID(&call.Call) == "(*math/big.Int).SetInt64" {
			if k, isK := constInt(call.Call.Args[1]); isK && k == 1 {
				oneBlocks[call.Block()] = true
				pos1 = call.Pos()
			}
		}
	}
	oneRet := map[*ssa.BasicBlock]bool{}
	for _, b := range f.Blocks {
		if ret, ok := b.Instrs[len(b.Instrs)-1].(*ssa.Return); ok && len(ret.Results) == 1 && isNewInt(ret.Results[0], 1) {
			oneRet[b] = true
			pos1 = ret.Pos()
		}
	}
	if len(oneBlocks)+len(oneRet) == 0 {
		c.Undecided(rule, fname(f), "infinity exactly for (0,0)", "neither SetInt64(1) nor a return of big.NewInt(1) found (z is produced in another way)", f.Pos())
		return
	}
	cut := map[edge]bool{}
	for ob := range oneBlocks {
		for _, p := range ob.Preds {
			cut[edge{p, ob}] = true
		}
	}
	// under the assumptions: can a return be reached that does not deliver 1 / that does deliver 1
	retReach := func(as []assumption, cutEdges map[edge]bool) bool {
		r := false
		ci.withAssumptions(as, func() {
			seen := reach([]*ssa.BasicBlock{f.Blocks[0]}, cutEdges)
			for b := range seen {
				if _, isRet := b.Instrs[len(b.Instrs)-1].(*ssa.Return); isRet && !oneRet[b] {
					r = true
				}
			}
		})
		return r
	}
	xs, ys := "ne(sign(x),0x0)", "ne(sign(y),0x0)"
	okX := !oneBlocks[f.Blocks[0]] && !retReach([]assumption{{xs, true}}, cut)
	okY := !oneBlocks[f.Blocks[0]] && !retReach([]assumption{{ys, true}}, cut)
	c.Check(okX, rule, fname(f), "a point with x != 0 is finite (z = 1)", "", "with x != 0 the function can return a z that was not set to 1: with a wrong connective any point with one zero coordinate, such as (0, ±sqrt(b)), is treated as the point at infinity", pos1)
	c.Check(okY, rule, fname(f), "a point with y != 0 is finite (z = 1)", "", "with y != 0 the function can return a z that was not set to 1: the curve points (0, ±sqrt(b)) are treated as the point at infinity", pos1)
	reach1 := false
	ci.withAssumptions([]assumption{{xs, false}, {ys, false}}, func() {
		seen := reach([]*ssa.BasicBlock{f.Blocks[0]}, nil)
		for b := range seen {
			if oneBlocks[b] || oneRet[b] {
				reach1 = true
			}
		}
	})
	c.Check(!reach1, rule, fname(f), "(0,0) is the point at infinity (z = 0)", "", "with x = y = 0 the function still delivers z = 1", pos1)
}

// c03OnCurveZero: membership testing accepts exactly the pairs in [0,p) that satisfy the equation — a coordinate equal
// to ZERO is in range (the points (0, ±sqrt(b)) exist on this curve). With x = 0 (x.Sign() == 0), and likewise with
// y = 0, no constant-false return may be reachable: range checks must use Sign() < 0, not <= 0.
func c03OnCurveZero(c *Ctx) {
	rule := "P-C03-formulas"
	f := c.Fn("sm2", "(sm2P256Curve).IsOnCurve")
	if f == nil {
		f = c.Fn("sm2", "sm2P256Curve.IsOnCurve")
	}
	if f == nil {
		return
	}
	names := paramNames(f, "curve", "X", "Y")
	ci := newCondIndex(f, names)
	for _, who := range []string{"X", "Y"} {
		bad := token.NoPos
		// a zero coordinate also compares below the (positive) modulus: who.Cmp(m) is -1; and the other coordinate is in
		// range as well (sign 0 or 1, below the modulus)
		other := map[string]string{"X": "Y", "Y": "X"}[who]
		var below []assumption
		for _, v := range []string{"X", "Y"} {
			below = append(below, assumption{`re:ge\(cmp\(` + v + `,.+\),0x0\)`, false}, assumption{`re:gt\(cmp\(` + v + `,.+\),0x0\)`, false}, assumption{`re:eq\(cmp\(` + v + `,.+\),0x0\)`, false})
		}
		walk := func() {
			for b := range reach([]*ssa.BasicBlock{f.Blocks[0]}, deadEdges(f)) {
				if ret, ok := b.Instrs[len(b.Instrs)-1].(*ssa.Return); ok && len(ret.Results) == 1 {
					if v, isC := constBool(ret.Results[0]); isC && !v {
						bad = ret.Pos()
					}
				}
			}
		}
		ci.withAssumptions(below, func() {
			ci.withInterval("sign("+other+")", 0, 1, func() {
				ci.withInterval("sign("+who+")", 0, 0, walk)
			})
		})
		c.Check(bad == token.NoPos, rule, fname(f), "a zero "+who+" coordinate is not rejected out of hand", "", "with "+who+" = 0 a constant `return false` is reachable before the curve equation is evaluated: the curve points with a zero coordinate, e.g. (0, ±sqrt(b)), are reported as off the curve", bad)
	}
}

// c03Wrappers: each elliptic.Curve method is one conversion into the field representation, ONE call of its point routine
// and the affine conversion of that routine's output — nothing else decides the result. A shortcut grafted in front
// (Add answering Double whenever the abscissas agree, ScalarMult routing "generator-looking" points to the comb,
// IsOnCurve answering true for (0,0)) changes the function on exactly the inputs no test tries. Decided as: the set of
// repository functions a wrapper calls is within its allowed set, every non-constant result comes from the affine
// conversion, and IsOnCurve has no constant-true result.
func c03Wrappers(c *Ctx) {
	rule := "T-C03-special"
	allowed := map[string][]string{
		"Add":            {"zForAffine", "sm2P256FromBig", "sm2P256PointAdd", "sm2P256ToAffine"},
		"Double":         {"zForAffine", "sm2P256FromBig", "sm2P256PointDouble", "sm2P256ToAffine"},
		"ScalarMult":     {"sm2GenrateWNaf", "WNafReversed", "sm2P256FromBig", "sm2P256ScalarMult", "sm2P256ToAffine"},
		"ScalarBaseMult": {"sm2P256GetScalar", "sm2P256ScalarBaseMult", "sm2P256ToAffine"},
	}
	for name, list := range allowed {
		f := c.Fn("sm2", "(sm2P256Curve)."+name)
		if f == nil {
			f = c.Fn("sm2", "sm2P256Curve."+name)
		}
		if f == nil {
			c.Missing(rule, "sm2.sm2P256Curve."+name, "method", "not found")
			continue
		}
		ok := map[string]bool{}
		for _, n := range list {
			ok[n] = true
		}
		var extra []string
		for _, ci := range allCalls(f) {
			sc := ci.Common().StaticCallee()
			if sc == nil {
				if ci.Common().IsInvoke() && (ci.Common().Method.Name() == "Double" || ci.Common().Method.Name() == "Add" || ci.Common().Method.Name() == "ScalarBaseMult" || ci.Common().Method.Name() == "ScalarMult") {
					extra = append(extra, "interface call "+ci.Common().Method.Name())
				}
				continue
			}
			if !inRepo(sc) || ok[sc.Name()] {
				continue
			}
			if c.P.isNewFunction(fname(sc)) {
				continue // an extracted helper: judged undecided by the formula rules
			}
			extra = append(extra, fname(sc))
		}
		sort.Strings(extra)
		c.Check(len(extra) == 0, rule, fname(f), "the result comes from its own point routine only", strings.Join(list, ", "), "the method also calls "+strings.Join(dedup(extra), ", ")+": a shortcut through another curve operation decides the result for some inputs (e.g. Add answering Double(P) whenever x1 == x2, which is also true for P + (-P); ScalarMult sending every point with the generator's abscissa to the base-point comb, which is also true for -G)", f.Pos())
	}
	fo := c.Fn("sm2", "(sm2P256Curve).IsOnCurve")
	if fo == nil {
		fo = c.Fn("sm2", "sm2P256Curve.IsOnCurve")
	}
	if f := fo; f != nil {
		bad := token.NoPos
		for _, b := range f.Blocks {
			if ret, okR := b.Instrs[len(b.Instrs)-1].(*ssa.Return); okR && len(ret.Results) == 1 {
				if v, isC := constBool(ret.Results[0]); isC && v {
					bad = ret.Pos()
				}
			}
		}
		c.Check(bad == token.NoPos, "P-C03-formulas", fname(f), "no coordinate pair is accepted without the curve equation", "", "IsOnCurve has a constant `return true`: some pair (e.g. (0,0), which only stands for the point at infinity) is reported as a curve point although it does not satisfy y^2 = x^3 + ax + b", bad)
	}
}
