package main

// Abstract interpretation of a counter-increment function over a fixed-size byte array field (halfConn.incSeq).
//
// The function is not run: its SSA form is evaluated over an abstract domain in which integers and booleans are
// concrete (they only depend on constants) and every byte of the counter is a symbolic term orig[j]+d, d ∈ {0,1},
// together with one bit of knowledge per byte — "orig[j] is 0xFF" or "orig[j] is not 0xFF". All 2^n assignments of
// that bit are enumerated (n = 8: 256 abstract inputs, each standing for every concrete counter with that pattern), so
// the verdict covers all 2^64 counters. In each the function must either panic (exactly when every byte is 0xFF) or
// return with the array equal to the big-endian successor: the trailing 0xFF bytes zero, the byte before them
// orig+1, the rest untouched. Any instruction outside the small vocabulary below makes the result "unsupported" and
// the caller falls back on the syntactic form rule.

import (
	"fmt"
	"go/token"
	"go/types"

	"golang.org/x/tools/go/ssa"
)

type avKind int

const (
	avInt avKind = iota
	avBool
	avByte  // symbolic byte: orig >= 0 → orig[orig]+d ; orig < 0 → constant k
	avRecv  // the receiver pointer
	avArr   // address of the counter array
	avCell  // address of element idx
	avOther // anything else (opaque)
)

type aval struct {
	k    avKind
	i    int64 // int value / cell index / byte constant
	b    bool
	orig int
	d    int
}

type seqOutcome struct {
	panicked bool
	cells    []aval
}

// absIncrement evaluates f (a method whose receiver has an array-of-bytes field named field) for one pattern of
// 0xFF-bytes. unsupported != "" when the evaluation met something outside the domain.
func absIncrement(f *ssa.Function, field string, n int, isFF []bool) (out seqOutcome, unsupported string) {
	cells := make([]aval, n)
	for j := range cells {
		cells[j] = aval{k: avByte, orig: j}
	}
	norm := func(v aval) aval {
		if v.k == avByte && v.orig >= 0 && v.d == 1 && isFF[v.orig] {
			return aval{k: avByte, orig: -1, i: 0}
		}
		return v
	}
	env := map[ssa.Value]aval{}
	if len(f.Params) == 0 {
		return out, "no receiver"
	}
	env[f.Params[0]] = aval{k: avRecv}
	var get func(v ssa.Value) (aval, bool)
	get = func(v ssa.Value) (aval, bool) {
		if c, ok := v.(*ssa.Const); ok {
			if bt, isB := c.Type().Underlying().(*types.Basic); isB {
				switch {
				case bt.Info()&types.IsBoolean != 0:
					cb, _ := constBool(v)
					return aval{k: avBool, b: cb}, true
				case bt.Kind() == types.Uint8:
					k, _ := constInt(v)
					return aval{k: avByte, orig: -1, i: k & 0xff}, true
				case bt.Info()&types.IsInteger != 0:
					k, _ := constInt(v)
					return aval{k: avInt, i: k}, true
				}
			}
			return aval{k: avOther}, true
		}
		a, ok := env[v]
		return a, ok
	}
	b := f.Blocks[0]
	var pred *ssa.BasicBlock
	for steps := 0; steps < 4000; steps++ {
		// phis first, simultaneously
		newPhi := map[ssa.Value]aval{}
		for _, in := range b.Instrs {
			ph, ok := in.(*ssa.Phi)
			if !ok {
				break
			}
			for j, p := range b.Preds {
				if p == pred {
					a, ok := get(ph.Edges[j])
					if !ok {
						return out, "phi input not evaluated at " + ph.Name()
					}
					newPhi[ph] = a
				}
			}
		}
		for k, a := range newPhi {
			env[k] = a
		}
		for _, in := range b.Instrs {
			switch x := in.(type) {
			case *ssa.Phi, *ssa.DebugRef:
			case *ssa.FieldAddr:
				base, ok := get(x.X)
				if !ok || base.k != avRecv || fieldName(x.X.Type(), x.Field) != field {
					env[x] = aval{k: avOther}
				} else {
					env[x] = aval{k: avArr}
				}
			case *ssa.IndexAddr:
				base, ok1 := get(x.X)
				idx, ok2 := get(x.Index)
				if !ok1 || !ok2 || base.k != avArr || idx.k != avInt {
					return out, "indexing outside the counter array"
				}
				if idx.i < 0 || idx.i >= int64(n) {
					return seqOutcome{panicked: true, cells: cells}, fmt.Sprintf("index %d out of range", idx.i)
				}
				env[x] = aval{k: avCell, i: idx.i}
			case *ssa.UnOp:
				a, ok := get(x.X)
				if !ok {
					return out, "operand not evaluated"
				}
				switch {
				case x.Op == token.MUL && a.k == avCell:
					env[x] = cells[a.i]
				case x.Op == token.NOT && a.k == avBool:
					env[x] = aval{k: avBool, b: !a.b}
				case x.Op == token.SUB && a.k == avInt:
					env[x] = aval{k: avInt, i: -a.i}
				default:
					return out, "unsupported unary operation " + x.String()
				}
			case *ssa.BinOp:
				l, ok1 := get(x.X)
				r, ok2 := get(x.Y)
				if !ok1 || !ok2 {
					return out, "operand not evaluated"
				}
				switch {
				case l.k == avInt && r.k == avInt:
					var res aval
					switch x.Op {
					case token.ADD:
						res = aval{k: avInt, i: l.i + r.i}
					case token.SUB:
						res = aval{k: avInt, i: l.i - r.i}
					case token.MUL:
						res = aval{k: avInt, i: l.i * r.i}
					case token.EQL:
						res = aval{k: avBool, b: l.i == r.i}
					case token.NEQ:
						res = aval{k: avBool, b: l.i != r.i}
					case token.LSS:
						res = aval{k: avBool, b: l.i < r.i}
					case token.LEQ:
						res = aval{k: avBool, b: l.i <= r.i}
					case token.GTR:
						res = aval{k: avBool, b: l.i > r.i}
					case token.GEQ:
						res = aval{k: avBool, b: l.i >= r.i}
					default:
						return out, "unsupported integer operation " + x.Op.String()
					}
					env[x] = res
				case l.k == avBool && r.k == avBool && (x.Op == token.EQL || x.Op == token.NEQ):
					env[x] = aval{k: avBool, b: (l.b == r.b) == (x.Op == token.EQL)}
				case l.k == avByte && r.k == avByte:
					if x.Op == token.ADD || x.Op == token.SUB {
						// only +1 on a byte is in the domain
						if r.orig >= 0 || r.i != 1 || x.Op != token.ADD {
							return out, "byte arithmetic other than +1"
						}
						if l.orig < 0 {
							env[x] = aval{k: avByte, orig: -1, i: (l.i + 1) & 0xff}
						} else if l.d == 0 {
							env[x] = norm(aval{k: avByte, orig: l.orig, d: 1})
						} else {
							return out, "a byte is incremented twice"
						}
						continue
					}
					// comparisons: constant/constant, or a symbolic byte against 0x00 / 0xFF where its class decides
					sym, kc := l, r
					op := x.Op
					if l.orig < 0 && r.orig >= 0 {
						sym, kc = r, l
						switch op {
						case token.LSS:
							op = token.GTR
						case token.GTR:
							op = token.LSS
						case token.LEQ:
							op = token.GEQ
						case token.GEQ:
							op = token.LEQ
						}
					}
					if kc.orig >= 0 {
						return out, "comparison between two symbolic bytes"
					}
					var eq, known bool
					if sym.orig < 0 {
						eq, known = sym.i == kc.i, true
						if op != token.EQL && op != token.NEQ {
							var bres bool
							switch op {
							case token.LSS:
								bres = sym.i < kc.i
							case token.LEQ:
								bres = sym.i <= kc.i
							case token.GTR:
								bres = sym.i > kc.i
							case token.GEQ:
								bres = sym.i >= kc.i
							}
							env[x] = aval{k: avBool, b: bres}
							continue
						}
					} else {
						ff := isFF[sym.orig]
						switch {
						case sym.d == 0 && kc.i == 0xff:
							eq, known = ff, true
						case sym.d == 0 && kc.i == 0 && ff:
							eq, known = false, true
						case sym.d == 1 && kc.i == 0 && !ff: // (after norm, d == 1 implies !ff)
							eq, known = false, true
						}
					}
					if !known || (op != token.EQL && op != token.NEQ) {
						return out, "comparison of a counter byte that the 0xFF-pattern does not decide: " + x.String()
					}
					env[x] = aval{k: avBool, b: eq == (op == token.EQL)}
				default:
					return out, "unsupported operation " + x.String()
				}
			case *ssa.Store:
				addr, ok1 := get(x.Addr)
				v, ok2 := get(x.Val)
				if !ok1 || !ok2 || addr.k != avCell || v.k != avByte {
					return out, "store outside the counter array"
				}
				cells[addr.i] = norm(v)
			case *ssa.If:
				cnd, ok := get(x.Cond)
				if !ok || cnd.k != avBool {
					return out, "branch condition not decided"
				}
				pred = b
				if cnd.b {
					b = b.Succs[0]
				} else {
					b = b.Succs[1]
				}
			case *ssa.Jump:
				pred = b
				b = b.Succs[0]
			case *ssa.Return:
				return seqOutcome{cells: cells}, ""
			case *ssa.Panic:
				return seqOutcome{panicked: true, cells: cells}, ""
			case *ssa.MakeInterface, *ssa.ChangeType, *ssa.Convert:
				env[x.(ssa.Value)] = aval{k: avOther}
			default:
				return out, "unsupported instruction " + in.String()
			}
		}
	}
	return out, "no termination within the step bound"
}

// bigEndianIncrement decides whether f is "+1 on the n-byte big-endian counter in `field`, panic on wrap-around".
// decided=false: outside the domain (why says what).
func bigEndianIncrement(f *ssa.Function, field string, n int) (holds, decided bool, why string) {
	for pat := 0; pat < 1<<n; pat++ {
		isFF := make([]bool, n)
		for j := 0; j < n; j++ {
			isFF[j] = pat&(1<<j) != 0
		}
		out, uns := absIncrement(f, field, n, isFF)
		desc := func() string {
			s := ""
			for j := 0; j < n; j++ {
				if isFF[j] {
					s += "FF "
				} else {
					s += "xx "
				}
			}
			return "counter bytes [" + s[:len(s)-1] + "] (xx: any value but FF)"
		}
		if uns != "" && !out.panicked {
			return false, false, uns
		}
		trail := 0
		for j := n - 1; j >= 0 && isFF[j]; j-- {
			trail++
		}
		if trail == n {
			if !out.panicked {
				return false, true, "for " + desc() + " the counter wraps around without a panic"
			}
			continue
		}
		if out.panicked {
			return false, true, "for " + desc() + " the function panics (" + uns + ")"
		}
		for j := 0; j < n; j++ {
			got := out.cells[j]
			var ok bool
			switch {
			case j > n-1-trail:
				ok = got.orig < 0 && got.i == 0
			case j == n-1-trail:
				ok = got.orig == j && got.d == 1
			default:
				ok = got.orig == j && got.d == 0
			}
			if !ok {
				return false, true, fmt.Sprintf("for %s byte %d of the result is not that of counter+1", desc(), j)
			}
		}
	}
	return true, true, fmt.Sprintf("abstract evaluation over all %d patterns of 0xFF bytes: the result is counter+1, and the function panics exactly when every byte is 0xFF", 1<<n)
}
