package main

// C04 — SM3 = GM/T 0004 for every input/chunking; hash.Hash contract
// (Sum pure + prefix, Reset complete).

import (
	"fmt"
	"go/token"
	"go/types"
	"regexp"
	"sort"
	"strings"

	"golang.org/x/tools/go/ssa"
)

func init() { register("C04", checkC04) }

var sm3IV = [8]uint32{0x7380166f, 0x4914b2b9, 0x172442d7, 0xda8a0600, 0xa96f30bc, 0x163138aa, 0xe38dee4d, 0xb0fb0e4e}

func checkC04(c *Ctx) {
	if n := narrowShift(c, "K-NARROW-shift", []string{"sm3"}); n >= 0 {
		c.Holds("K-NARROW-shift", "sm3", "no 8/16-bit value is shifted left by its width or more", fmt.Sprintf("%d narrow left shifts inspected", n), token.NoPos)
	}
	defer noGlobalAlias(c, "FX-C04-pure", [][2]string{{"sm3", "New"}}, "hash objects made by New share their buffered tail with each other")
	defer noGlobalWrites(c, "FX-C04-pure", [][2]string{{"sm3", "New"}, {"sm3", "Sm3Sum"}, {"sm3", "(*SM3).Write"}, {"sm3", "(*SM3).Sum"}, {"sm3", "(*SM3).Reset"}},
		"hash objects share state through the package — e.g. a template state whose tail slice every New/Reset copies by reference, or a pooled pad buffer")

	c.Decided = append(c.Decided,
		"K-C04-iv: the 8 IV words written by Reset equal GM/T 0004",
		"K-C04-compress: every compression routine reachable from Write/Sum, put in canonical form (helpers inlined, +/^ flattened, rotations recognised, boolean functions by truth table), equals the GM/T 0004 formulas: message expansion W[0..67], W'[0..63], 64 rounds with T_j<<<j, FF_j/GG_j per half, P0/P1, chaining V^ABCDEFGH, 64-byte block loop",
		"FX-C04-sum: Sum/Size/BlockSize write nothing reachable from the receiver",
		"G-C04-prefix: the slice Sum(in) returns starts with in (append semantics)",
		"FX-C04-reset: Reset assigns every field of the state",
		"U-C04-len: the length counter advances by 8*len(p) (bits); padding = 0x80, zeros to 56 mod 64, 64-bit big-endian bit length",
		"K-C04-stream: Write compresses floor(len/64) blocks and keeps exactly the remainder",
		"T-C04-oneshot: Sm3Sum = Reset/Write/Sum(nil) on a fresh state")
	c.NotDec = append(c.NotDec, "digest equality with GM/T 0004 as a numerical fact for all inputs (only the canonical-form agreement of each formula is decided)",
		"HMAC/PBKDF2 consequences beyond hash.Hash conformance")

	sp := c.P.SSAPkg["sm3"]
	if sp == nil {
		c.Missing("K-C04-iv", "sm3", "package", "package sm3 not loaded")
		return
	}
	// the hash.Hash implementation: concrete type returned by New()
	sum := c.Fn("sm3", "(*SM3).Sum")
	write := c.Fn("sm3", "(*SM3).Write")
	reset := c.Fn("sm3", "(*SM3).Reset")
	size := c.Fn("sm3", "(*SM3).Size")
	bsize := c.Fn("sm3", "(*SM3).BlockSize")
	for n, f := range map[string]*ssa.Function{"Sum": sum, "Write": write, "Reset": reset, "Size": size, "BlockSize": bsize} {
		if f == nil {
			c.Missing("FX-C04-sum", "sm3.(*SM3)."+n, "hash.Hash method", "method not found on sm3.SM3")
		}
	}
	if sum == nil || write == nil || reset == nil {
		return
	}
	st := derefStruct(sum.Params[0].Type())

	// ---- K-C04-iv
	ivOK := map[int64]bool{}
	var digestField string
	instrsOf(reset, func(_ *ssa.BasicBlock, in ssa.Instruction) {
		c.Evals++
		s, ok := in.(*ssa.Store)
		if !ok {
			return
		}
		ia, ok := s.Addr.(*ssa.IndexAddr)
		if !ok {
			return
		}
		fa, ok := ia.X.(*ssa.FieldAddr)
		if !ok || fa.X != ssa.Value(reset.Params[0]) {
			return
		}
		k, ok1 := constInt(ia.Index)
		v, ok2 := constInt(s.Val)
		if !ok1 || !ok2 || k < 0 || k > 7 {
			return
		}
		digestField = fieldName(fa.X.Type(), fa.Field)
		good := uint32(v) == sm3IV[k]
		ivOK[k] = good
		c.Check(good, "K-C04-iv", fname(reset), fmt.Sprintf("IV[%d]", k), "equals GM/T 0004",
			fmt.Sprintf("IV[%d] = %s, GM/T 0004 value %s", k, hex32(uint32(v)), hex32(sm3IV[k])), s.Pos())
	})
	if len(ivOK) != 8 {
		// maybe an array literal / copy idiom
		c.Undecided("K-C04-iv", fname(reset), "IV", fmt.Sprintf("only %d of 8 IV words are stored as constants by Reset (idiom not recognised)", len(ivOK)), reset.Pos())
	}

	// ---- compression routines
	reachable := staticReach(write, "sm3")
	for f := range staticReach(sum, "sm3") {
		reachable[f] = true
	}
	var comp []*ssa.Function
	for f := range reachable {
		if hasRoundLoop(f) {
			comp = append(comp, f)
		}
	}
	sort.Slice(comp, func(i, j int) bool { return fname(comp[i]) < fname(comp[j]) })
	if len(comp) == 0 {
		c.Undecided("K-C04-compress", "sm3", "compression routine", "no function with a loop carrying 8 uint32 working variables is reachable from Write/Sum", 0)
	}
	for _, f := range comp {
		c.Analysed[fname(f)] = true
		c04Compress(c, f, digestField)
	}
	// Write must reach a compression routine, and so must Sum (final block)
	for _, pr := range []struct {
		n string
		f *ssa.Function
	}{{"Write", write}, {"Sum", sum}} {
		got := false
		for f := range staticReach(pr.f, "sm3") {
			if hasRoundLoop(f) {
				got = true
			}
		}
		c.Check(got, "K-C04-compress", fname(pr.f), "reaches compression", "calls a verified compression routine", pr.n+" does not reach any compression routine", pr.f.Pos())
	}

	// ---- FX-C04-sum
	fx := getFX(c)
	for _, m := range []*ssa.Function{sum, size, bsize} {
		if m == nil {
			continue
		}
		w := fx.Writes(m)
		bad := false
		for _, r := range sortedRoots(w) {
			if (r.Kind == rkParam && r.Idx == 0) || r.Kind == rkGlobal {
				bad = true
				c.Violated("FX-C04-sum", fname(m), "writes "+r.String(), "hash.Hash."+m.Name()+" must not change the running state: "+fx.describe(r, w[r]), w[r].Pos)
			}
		}
		if !bad {
			c.Holds("FX-C04-sum", fname(m), "no write to receiver/global", "write set: "+rootsString(w), m.Pos())
		}
	}

	// ---- FX-C04-reset: every field written
	if st != nil {
		w := fx.Writes(reset)
		for i := 0; i < st.NumFields(); i++ {
			fn := st.Field(i).Name()
			_, whole := w[root{Kind: rkParam, Idx: 0}]
			_, fld := w[root{Kind: rkParam, Idx: 0, Field: fn}]
			c.Check(whole || fld, "FX-C04-reset", fname(reset), "assigns field "+fn, "", "Reset does not assign state field "+fn+": a reused hash would start from stale state", reset.Pos())
		}
		// the unprocessed tail must be emptied: the value stored to every slice field has length 0
		instrsOf(reset, func(_ *ssa.BasicBlock, in ssa.Instruction) {
			s, ok := in.(*ssa.Store)
			if !ok {
				return
			}
			fa, ok := s.Addr.(*ssa.FieldAddr)
			if !ok || fa.X != ssa.Value(reset.Params[0]) {
				return
			}
			fn := fieldName(fa.X.Type(), fa.Field)
			switch s.Val.Type().Underlying().(type) {
			case *types.Slice:
				c.Check(zeroLenSlice(s.Val), "FX-C04-reset", fname(reset), "field "+fn+" reset to empty", "", "Reset stores a possibly non-empty slice into "+fn, s.Pos())
			case *types.Basic:
				k, isC := constInt(s.Val)
				c.Check(isC && k == 0, "FX-C04-reset", fname(reset), "field "+fn+" reset to 0", "", "Reset stores a non-zero value into counter "+fn, s.Pos())
			}
		})
	}

	// ---- G-C04-prefix
	c04Prefix(c, sum)

	// ---- U-C04-len and padding
	c04LenPad(c, write, sum)

	// ---- K-C04-stream
	c04Stream(c, write)

	// ---- one-shot
	c04OneShot(c, sp, sum, write, reset)
}

func zeroLenSlice(v ssa.Value) bool {
	switch x := v.(type) {
	case *ssa.Const:
		return x.Value == nil
	case *ssa.MakeSlice:
		k, ok := constInt(x.Len)
		return ok && k == 0
	case *ssa.Slice:
		if al, ok := x.X.(*ssa.Alloc); ok {
			if pt, ok := al.Type().Underlying().(*types.Pointer); ok {
				if at, ok := pt.Elem().Underlying().(*types.Array); ok && at.Len() == 0 {
					return true
				}
			}
		}
		if x.High != nil {
			if k, ok := constInt(x.High); ok && k == 0 {
				return true
			}
		}
		if x.Low != nil && x.High != nil && x.Low == x.High {
			return true
		}
	}
	return false
}

// loop headers: block with a pred it dominates
func loopHeaders(f *ssa.Function) []*ssa.BasicBlock {
	var hs []*ssa.BasicBlock
	for _, b := range f.Blocks {
		for _, p := range b.Preds {
			if b.Dominates(p) {
				hs = append(hs, b)
				break
			}
		}
	}
	return hs
}

func phisOf(b *ssa.BasicBlock) []*ssa.Phi {
	var out []*ssa.Phi
	for _, in := range b.Instrs {
		if p, ok := in.(*ssa.Phi); ok {
			out = append(out, p)
		} else {
			break
		}
	}
	return out
}

func hasRoundLoop(f *ssa.Function) bool {
	for _, h := range loopHeaders(f) {
		n := 0
		for _, p := range phisOf(h) {
			if isU32(p.Type()) {
				n++
			}
		}
		if n >= 8 {
			return true
		}
	}
	return false
}

// entry edge / back edge values of a loop-header phi
func phiInitBack(p *ssa.Phi) (init, back ssa.Value, ok bool) {
	b := p.Block()
	if len(b.Preds) != 2 {
		return nil, nil, false
	}
	for i, pr := range b.Preds {
		if b.Dominates(pr) {
			back = p.Edges[i]
		} else {
			init = p.Edges[i]
		}
	}
	return init, back, init != nil && back != nil
}

var roleNames = []string{"A", "B", "C", "D", "E", "F", "G", "H"}

func refP0(x *X) *X { return Op("xor", x, Op("rotl", x, K(9)), Op("rotl", x, K(17))) }
func refP1(x *X) *X { return Op("xor", x, Op("rotl", x, K(15)), Op("rotl", x, K(23))) }

func c04Compress(c *Ctx, f *ssa.Function, digestField string) {
	rule := "K-C04-compress"
	fn := fname(f)
	recv := f.Params[0]
	// outer loop
	var outer *ssa.BasicBlock
	var msgPhi *ssa.Phi
	for _, h := range loopHeaders(f) {
		for _, p := range phisOf(h) {
			if sl, ok := p.Type().Underlying().(*types.Slice); ok {
				if eb, ok := sl.Elem().Underlying().(*types.Basic); ok && eb.Kind() == types.Uint8 {
					outer, msgPhi = h, p
				}
			}
		}
	}
	if outer == nil {
		c.Undecided(rule, fn, "block loop", "no loop consuming a []byte message found", f.Pos())
		return
	}
	// block loop condition and advance
	{
		ifi, ok := lastIf(outer)
		good := false
		if ok {
			if cmp, ok := ifi.Cond.(*ssa.BinOp); ok {
				isLen := func(v ssa.Value) bool {
					call, ok := v.(*ssa.Call)
					if !ok {
						return false
					}
					bi, ok := call.Call.Value.(*ssa.Builtin)
					return ok && bi.Name() == "len" && call.Call.Args[0] == ssa.Value(msgPhi)
				}
				k1, c1 := constInt(cmp.Y)
				k2, c2 := constInt(cmp.X)
				body := outer.Succs[0]
				_ = body
				switch {
				case isLen(cmp.X) && c1 && ((cmp.Op == token.GEQ && k1 == 64) || (cmp.Op == token.GTR && k1 == 63)):
					good = true
				case isLen(cmp.Y) && c2 && ((cmp.Op == token.LEQ && k2 == 64) || (cmp.Op == token.LSS && k2 == 63)):
					good = true
				}
			}
		}
		c.Check(good, rule, fn, "block loop condition", "loops while len(msg) >= 64", "the block loop does not run exactly while at least 64 bytes remain (a full final block would be skipped or a short one read)", outer.Instrs[0].Pos())
		_, back, ok2 := phiInitBack(msgPhi)
		adv := false
		if ok2 {
			if sl, ok := back.(*ssa.Slice); ok && sl.X == ssa.Value(msgPhi) && sl.High == nil && sl.Low != nil {
				if k, ok := constInt(sl.Low); ok && k == 64 {
					adv = true
				}
			}
		}
		c.Check(adv, rule, fn, "block loop advance", "msg = msg[64:]", "the block loop does not advance by exactly 64 bytes", msgPhi.Pos())
	}
	// outer working variables
	role := map[ssa.Value]int{}
	outerPhi := map[int]*ssa.Phi{}
	for _, p := range phisOf(outer) {
		if !isU32(p.Type()) {
			continue
		}
		init, _, ok := phiInitBack(p)
		if !ok {
			continue
		}
		base, idx, ok := loadOfIndex(init)
		if !ok {
			continue
		}
		fa, ok := base.(*ssa.FieldAddr)
		if !ok || fa.X != ssa.Value(recv) {
			continue
		}
		k, ok := constInt(idx)
		if !ok || k < 0 || k > 7 {
			continue
		}
		if digestField != "" && fieldName(fa.X.Type(), fa.Field) != digestField {
			continue
		}
		role[p] = int(k)
		outerPhi[int(k)] = p
	}
	if len(outerPhi) != 8 {
		c.Undecided(rule, fn, "chaining variables", fmt.Sprintf("%d of 8 chaining variables initialised from the state words", len(outerPhi)), outer.Instrs[0].Pos())
		return
	}
	// inner round loops
	type rloop struct {
		h      *ssa.BasicBlock
		phis   map[int]*ssa.Phi
		ind    induction
		lo, hi int64
		split  bool // one half of a loop that spans the j=16 boundary
	}
	var rloops []*rloop
	var otherLoops []*ssa.BasicBlock
	changed := true
	done := map[*ssa.BasicBlock]bool{}
	for changed {
		changed = false
		for _, h := range loopHeaders(f) {
			if h == outer || done[h] {
				continue
			}
			n := 0
			for _, p := range phisOf(h) {
				if isU32(p.Type()) {
					n++
				}
			}
			if n < 8 {
				continue
			}
			rl := &rloop{h: h, phis: map[int]*ssa.Phi{}}
			okAll := true
			for _, p := range phisOf(h) {
				init, _, ok := phiInitBack(p)
				if !ok {
					okAll = false
					break
				}
				if isU32(p.Type()) {
					r, ok := role[init]
					if !ok {
						okAll = false
						break
					}
					rl.phis[r] = p
				} else if iv, ok := inductionOf(p); ok {
					rl.ind = iv
				}
			}
			if !okAll || len(rl.phis) != 8 || rl.ind.phi == nil {
				continue
			}
			for r, p := range rl.phis {
				role[p] = r
			}
			b, ok := loopBound(rl.ind)
			if !ok || rl.ind.step != 1 {
				c.Undecided(rule, fn, "round loop bounds", "round loop without constant bounds / unit step", h.Instrs[0].Pos())
				return
			}
			rl.lo, rl.hi = rl.ind.init, b
			rloops = append(rloops, rl)
			done[h] = true
			changed = true
		}
	}
	for _, h := range loopHeaders(f) {
		if h != outer && !done[h] {
			otherLoops = append(otherLoops, h)
		}
	}
	if len(rloops) == 0 {
		c.Undecided(rule, fn, "round loops", "no round loop with 8 working variables chained from the state", f.Pos())
		return
	}
	sort.Slice(rloops, func(i, j int) bool { return rloops[i].lo < rloops[j].lo })
	// arrays
	arrays := map[ssa.Value]string{}
	instrsOf(f, func(_ *ssa.BasicBlock, in ssa.Instruction) {
		if al, ok := in.(*ssa.Alloc); ok {
			if pt, ok := al.Type().Underlying().(*types.Pointer); ok {
				if at, ok := pt.Elem().Underlying().(*types.Array); ok && isU32(at.Elem()) {
					switch at.Len() {
					case 68:
						arrays[al] = "W"
					case 64:
						arrays[al] = "W1"
					}
				}
			}
		}
	})
	// coverage of rounds
	next := int64(0)
	for _, rl := range rloops {
		if rl.lo != next {
			c.Violated(rule, fn, "round coverage", fmt.Sprintf("round loops cover [%d,%d) after [0,%d): rounds must be 0..63 contiguous", rl.lo, rl.hi, next), rl.h.Instrs[0].Pos())
		}
		next = rl.hi
	}
	c.Check(next == 64, rule, fn, "round coverage", "rounds 0..63", fmt.Sprintf("rounds end at %d, GM/T 0004 has 64", next), f.Pos())

	// a loop that spans the j=16 boundary (one fused loop selecting T_j, FF_j, GG_j by a test of j) is judged as its
	// two halves, each with j confined to its half: the joins of `if j < 16` then take the input of that half
	var halves []*rloop
	for _, rl := range rloops {
		if rl.lo < 16 && rl.hi > 16 {
			a, b := &rloop{}, &rloop{}
			*a, *b = *rl, *rl
			a.hi, b.lo = 16, 16
			a.split, b.split = true, true
			halves = append(halves, a, b)
		} else {
			halves = append(halves, rl)
		}
	}
	for _, rl := range halves {
		var T uint64
		var ffTT, ggTT string
		switch {
		case rl.hi <= 16:
			T, ffTT, ggTT = 0x79cc4519, "tt96", "tt96"
		default:
			T, ffTT, ggTT = 0x7a879d8a, "tte8", "ttd8"
		}
		names := map[ssa.Value]string{rl.ind.phi: "j", recv: "recv"}
		for r, p := range rl.phis {
			names[p] = roleNames[r]
		}
		for a, n := range arrays {
			names[a] = n
		}
		A, B, C, D, E, F, G, H, j := L("A"), L("B"), L("C"), L("D"), L("E"), L("F"), L("G"), L("H"), L("j")
		a12 := Op("rotl", A, K(12))
		ss1 := Op("rotl", Op("add", a12, E, Op("rotl", K(T), j)), K(7))
		ss2 := Op("xor", ss1, a12)
		tt1 := Op("add", Op(ffTT, A, B, C), D, ss2, Op("idx", L("W1"), j))
		tt2 := Op("add", Op(ggTT, E, F, G), H, ss1, Op("idx", L("W"), j))
		want := map[int]*X{0: tt1, 1: A, 2: Op("rotl", B, K(9)), 3: C, 4: refP0(tt2), 5: E, 6: Op("rotl", F, K(19)), 7: G}
		half := "j<16"
		if rl.lo >= 16 {
			half = "j>=16"
		}
		for r := 0; r < 8; r++ {
			_, back, _ := phiInitBack(rl.phis[r])
			env := newCanon(names)
			if rl.split {
				env.rangeOf, env.rangeLo, env.rangeHi = rl.ind.phi, rl.lo, rl.hi
			}
			got := env.canon(back).String()
			c.Evals += 20
			c.Check(got == want[r].String(), rule, fn, fmt.Sprintf("round %s: %s'", half, roleNames[r]),
				"canonical form equals GM/T 0004: "+want[r].String(),
				"round update differs from GM/T 0004: have "+got+" want "+want[r].String(), rl.phis[r].Pos())
		}
	}
	// chaining: outer back edge k = outer_k ^ last_k
	last := rloops[len(rloops)-1]
	for k := 0; k < 8; k++ {
		_, back, _ := phiInitBack(outerPhi[k])
		names := map[ssa.Value]string{outerPhi[k]: "V", last.phis[k]: "X"}
		env := newCanon(names)
		env.bool3 = false
		got := env.canon(back).String()
		c.Check(got == "xor(V,X)", rule, fn, fmt.Sprintf("chaining V%d", k), "V' = V ^ working variable",
			"chaining value is not V_k ^ "+roleNames[k]+" of the last round: "+got, outerPhi[k].Pos())
	}
	// message expansion: stores into W / W1 inside the other loops
	type cover struct{ lo, hi int64 }
	wCov := map[string][]cover{}
	for _, h := range otherLoops {
		var ind *induction
		var others []induction
		for _, p := range phisOf(h) {
			if iv, ok := inductionOf(p); ok {
				ivc := iv
				if ivc.step == 1 && ind == nil {
					ind = &ivc
				} else {
					others = append(others, ivc)
				}
			}
		}
		if ind == nil {
			continue
		}
		hi, ok := loopBound(*ind)
		if !ok || ind.step != 1 {
			continue
		}
		lo := ind.init
		// counters that advance together with j (a running byte offset): r*j when both start at 0
		lockstep := map[ssa.Value]string{}
		for _, o := range others {
			if ind.init == 0 && o.init == 0 && o.step > 1 && sameBackEdges(ind.phi, o.phi) {
				lockstep[o.phi] = fmt.Sprintf("%d*j", o.step)
			}
		}
		for _, b := range f.Blocks {
			if !h.Dominates(b) || b == h {
				continue
			}
			// only blocks inside this loop: those from which h is reachable without leaving... approximate: dominated by h's body successor
			if !h.Succs[0].Dominates(b) {
				continue
			}
			for _, in := range b.Instrs {
				s, ok := in.(*ssa.Store)
				if !ok {
					continue
				}
				ia, ok := s.Addr.(*ssa.IndexAddr)
				if !ok {
					continue
				}
				arr, ok := arrays[ia.X]
				if !ok {
					continue
				}
				names := map[ssa.Value]string{ind.phi: "j", msgPhi: "M", recv: "recv"}
				for a, n := range arrays {
					names[a] = n
				}
				for v, n := range lockstep {
					names[v] = n
				}
				env := newCanon(names)
				idx := env.canonIdx(ia.Index).String()
				got := env.canon(s.Val).String()
				var want *X
				construct := ""
				// a re-indexed loop stores at j+d: the formulas are the standard's with every index shifted by d, and
				// the positions written are [lo+d, hi+d)
				d := int64(0)
				if m := reJShift.FindStringSubmatch(idx); m != nil && m[1] != "" {
					fmt.Sscanf(m[1], "%d", &d)
				}
				offS := func(o int64) string {
					switch {
					case o == 0:
						return ""
					case o > 0:
						return fmt.Sprintf("+%d", o)
					}
					return fmt.Sprintf("%d", o)
				}
				lo, hi := lo+d, hi+d
				j := L("j" + offS(d))
				w := func(off string) *X {
					var o int64
					fmt.Sscanf(off, "%d", &o)
					return Op("idx", L("W"), L("j"+offS(o+d)))
				}
				switch {
				case arr == "W" && hi <= 16 && d == 0:
					want = Op("be32", Op("slice", L("M"), L("4*j"), L("4*j+4")))
					construct = "W[j], j<16 (big-endian words)"
				case arr == "W" && lo >= 16:
					want = Op("xor", refP1(Op("xor", w("-16"), w("-9"), Op("rotl", w("-3"), K(15)))), Op("rotl", w("-13"), K(7)), w("-6"))
					construct = "W[j], j>=16 (expansion)"
				case arr == "W1":
					want = Op("xor", Op("idx", L("W"), j), w("+4"))
					construct = "W'[j]"
				default:
					c.Violated(rule, fn, "expansion loop range", fmt.Sprintf("a loop writes %s over j=%d..%d across the j=16 boundary", arr, lo, hi-1), s.Pos())
					continue
				}
				c.Evals += 10
				if idx != "j"+offS(d) {
					c.Violated(rule, fn, construct, "store index is "+idx+", expected j", s.Pos())
					continue
				}
				c.Check(got == want.String(), rule, fn, construct, "canonical form equals GM/T 0004: "+want.String(),
					"message expansion differs from GM/T 0004: have "+got+" want "+want.String(), s.Pos())
				wCov[arr] = append(wCov[arr], cover{lo, hi})
			}
		}
	}
	for arr, need := range map[string]int64{"W": 68, "W1": 64} {
		cs := wCov[arr]
		sort.Slice(cs, func(i, j int) bool { return cs[i].lo < cs[j].lo })
		next := int64(0)
		for _, cv := range cs {
			if cv.lo > next {
				break
			}
			if cv.hi > next {
				next = cv.hi
			}
		}
		c.Check(next == need, rule, fn, "expansion coverage "+arr, fmt.Sprintf("%s[0..%d] all written", arr, need-1),
			fmt.Sprintf("%s is written for j in [0,%d) but GM/T 0004 needs [0,%d)", arr, next, need), f.Pos())
	}
	// result delivery: state words (or returned array) = chaining variables
	delivered := map[int64]bool{}
	instrsOf(f, func(b *ssa.BasicBlock, in ssa.Instruction) {
		s, ok := in.(*ssa.Store)
		if !ok {
			return
		}
		ia, ok := s.Addr.(*ssa.IndexAddr)
		if !ok {
			return
		}
		k, ok := constInt(ia.Index)
		if !ok {
			return
		}
		if r, isOuter := role[s.Val]; isOuter && outerPhi[r] == s.Val {
			// destination: receiver digest field or a local [8]uint32
			dstOK := false
			if fa, ok := ia.X.(*ssa.FieldAddr); ok && fa.X == ssa.Value(recv) {
				dstOK = true
			}
			if al, ok := ia.X.(*ssa.Alloc); ok {
				if pt, ok := al.Type().Underlying().(*types.Pointer); ok {
					if at, ok := pt.Elem().Underlying().(*types.Array); ok && at.Len() == 8 {
						dstOK = true
					}
				}
			}
			if dstOK {
				c.Check(int64(r) == k, rule, fn, fmt.Sprintf("result word %d", k), "digest word k = V_k", fmt.Sprintf("digest word %d receives chaining variable %d", k, r), s.Pos())
				delivered[k] = true
			}
		}
	})
	c.Check(len(delivered) == 8, rule, fn, "result delivery", "all 8 chaining words delivered", fmt.Sprintf("only %d of 8 chaining words are stored to the result", len(delivered)), f.Pos())
}

// c04Prefix: Sum(in) returns append(in, digest...) semantics.
func c04Prefix(c *Ctx, sum *ssa.Function) {
	in := sum.Params[1]
	var rets []*ssa.Return
	instrsOf(sum, func(_ *ssa.BasicBlock, i ssa.Instruction) {
		if r, ok := i.(*ssa.Return); ok {
			rets = append(rets, r)
		}
	})
	for _, r := range rets {
		ok, why := prefixPreserving(sum, r.Results[0], in, 0, map[ssa.Value]bool{})
		c.Check(ok, "G-C04-prefix", fname(sum), "returned slice begins with the caller's prefix", "append(in, digest...) semantics",
			"Sum must return in followed by the 32 digest bytes, but "+why, r.Pos())
	}
}

// prefixPreserving: v is a slice whose first len(in) bytes are in's bytes.
func prefixPreserving(f *ssa.Function, v ssa.Value, in *ssa.Parameter, depth int, seen map[ssa.Value]bool) (bool, string) {
	if depth > 10 || seen[v] {
		return false, "derivation too deep"
	}
	seen[v] = true
	if v == ssa.Value(in) {
		return true, ""
	}
	switch x := v.(type) {
	case *ssa.Call:
		if bi, ok := x.Call.Value.(*ssa.Builtin); ok && bi.Name() == "append" {
			return prefixPreserving(f, x.Call.Args[0], in, depth+1, seen)
		}
		return false, "the result comes from call " + calleeID(&x.Call)
	case *ssa.Slice:
		if x.Low != nil {
			if k, ok := constInt(x.Low); !ok || k != 0 {
				return false, "the returned slice starts at a non-zero offset (" + x.Low.String() + "), i.e. the prefix is dropped"
			}
		}
		return prefixPreserving(f, x.X, in, depth+1, seen)
	case *ssa.Phi:
		for _, e := range x.Edges {
			if ok, why := prefixPreserving(f, e, in, depth+1, seen); !ok {
				return false, why
			}
		}
		return true, ""
	case *ssa.MakeSlice:
		// fresh buffer: must receive copy(buf, in)
		for _, u := range *x.Referrers() {
			if call, ok := u.(*ssa.Call); ok {
				if bi, ok := call.Call.Value.(*ssa.Builtin); ok && bi.Name() == "copy" && call.Call.Args[0] == ssa.Value(x) && call.Call.Args[1] == ssa.Value(in) {
					return true, ""
				}
			}
		}
		return false, "a fresh buffer is returned without copying in into it"
	}
	return false, "the returned value does not derive from in"
}

// c04LenPad: bit length accounting and padding.
func c04LenPad(c *Ctx, write, sum *ssa.Function) {
	recv := write.Params[0]
	p := write.Params[1]
	// counter update: store to a uint64 field of old + 8*len(p)
	found := false
	var lenField string
	instrsOf(write, func(_ *ssa.BasicBlock, in ssa.Instruction) {
		s, ok := in.(*ssa.Store)
		if !ok {
			return
		}
		fa, ok := s.Addr.(*ssa.FieldAddr)
		if !ok || fa.X != ssa.Value(recv) {
			return
		}
		b, ok := s.Val.Type().Underlying().(*types.Basic)
		if !ok || b.Kind() != types.Uint64 {
			return
		}
		found = true
		lenField = fieldName(fa.X.Type(), fa.Field)
		names := map[ssa.Value]string{}
		// old value load
		env := newCanon(names)
		env.bool3 = false
		// name len(p)
		instrsOf(write, func(_ *ssa.BasicBlock, i2 ssa.Instruction) {
			if call, ok := i2.(*ssa.Call); ok {
				if bi, ok := call.Call.Value.(*ssa.Builtin); ok && bi.Name() == "len" && call.Call.Args[0] == ssa.Value(p) {
					names[call] = "n"
				}
			}
		})
		names[recv] = "recv"
		got := env.canon(s.Val).String()
		old := "field:" + lenField + "(recv)"
		ok8 := got == "add("+old+",mul(0x8,n))" || got == "add("+old+",shl(n,0x3))" || got == "add(field:"+lenField+"(recv),mul(0x8,n))"
		c.Check(ok8, "U-C04-len", fname(write), "length counter += 8*len(p)", "bit length accumulates 8 bits per byte",
			"the message length counter must advance by 8*len(p) bits; have "+got, s.Pos())
	})
	if !found {
		c.Undecided("U-C04-len", fname(write), "length counter += 8*len(p)", "no uint64 state field is updated by Write", write.Pos())
	}
	// padding function: reachable from Sum, contains append of 0x80
	var pad *ssa.Function
	for f := range staticReach(sum, "sm3") {
		instrsOf(f, func(_ *ssa.BasicBlock, in ssa.Instruction) {
			if call, ok := in.(*ssa.Call); ok {
				if bi, ok := call.Call.Value.(*ssa.Builtin); ok && bi.Name() == "append" && len(call.Call.Args) == 2 {
					if k, ok := appendedConstByte(call.Call.Args[1]); ok && k == 0x80 {
						pad = f
					}
				}
			}
		})
	}
	if pad == nil {
		// another construction (a pre-sized buffer, a computed number of zeros): what can still be decided is the
		// LENGTH of the padded tail — SM3 padding adds the 0x80 byte, the fewest zeros that bring the length to 56
		// mod 64, and 8 length bytes: between 9 and 72 bytes. A function of package sm3 named pad that returns a byte
		// slice is held to that by the bounds prover; one byte more (a whole extra zero block for a 55-byte tail)
		// changes every digest of such messages.
		if pf := c.Fn("sm3", "(*SM3).pad"); pf != nil && pf.Signature.Results().Len() == 1 && isByteSlice(pf.Signature.Results().At(0).Type()) {
			lb := &LB{p: c.P, f: pf, UsedContracts: map[string]bool{}}
			var tail ssa.Value
			instrsOf(pf, func(_ *ssa.BasicBlock, in ssa.Instruction) {
				if ld, ok := in.(*ssa.UnOp); ok && ld.Op == token.MUL && isByteSlice(ld.Type()) {
					if fa, ok := ld.X.(*ssa.FieldAddr); ok && fa.X == ssa.Value(pf.Params[0]) && tail == nil {
						tail = ld
					}
				}
			})
			okAll := tail != nil
			for _, b := range pf.Blocks {
				ret, isRet := b.Instrs[len(b.Instrs)-1].(*ssa.Return)
				if !isRet || tail == nil {
					continue
				}
				out, in := lb.lenLin(ret.Results[0]), lb.lenLin(tail)
				if !lb.prove([]cons{ge(out, in.addScaled(linConst(9), 1)), le(out, in.addScaled(linConst(72), 1))}, b, nil, map[lvar]lin{}, 3) {
					okAll = false
				}
			}
			if okAll {
				c.Undecided("K-C04-pad", fname(pf), "padding", "the padding is built in a form the rule does not recognise; proved only that it adds between 9 and 72 bytes", pf.Pos())
			} else {
				c.ViolatedHard("K-C04-pad", fname(pf), "padding", "the padding is built in a form the rule does not recognise, and it is not provable that it adds between 9 and 72 bytes to the unprocessed tail (0x80, the fewest zeros up to 56 mod 64, 8 length bytes): a tail of 55 bytes must be padded to exactly one block", pf.Pos())
			}
			return
		}
		c.Undecided("K-C04-pad", fname(sum), "padding", "no append of 0x80 reachable from Sum (padding idiom not recognised)", sum.Pos())
		return
	}
	c.Analysed[fname(pad)] = true
	// (a) the 0x80 is appended to the unprocessed tail (derived from a receiver slice field)
	// (b) zero-fill loop: condition len(msg)%64 != 56
	zeroLoop := false
	instrsOf(pad, func(_ *ssa.BasicBlock, in ssa.Instruction) {
		ifi, ok := in.(*ssa.If)
		if !ok {
			return
		}
		cmp, ok := ifi.Cond.(*ssa.BinOp)
		if !ok {
			return
		}
		rem, ok := cmp.X.(*ssa.BinOp)
		if !ok || rem.Op != token.REM {
			return
		}
		m, ok1 := constInt(rem.Y)
		k, ok2 := constInt(cmp.Y)
		if ok1 && ok2 && m == 64 && k == 56 && (cmp.Op == token.NEQ || cmp.Op == token.EQL) {
			// body appends a zero byte (`for len%64 != 56 { … }` or `for { if len%64 == 56 { break }; … }`)
			body := ifi.Block().Succs[0]
			if cmp.Op == token.EQL {
				body = ifi.Block().Succs[1]
			}
			for _, bi := range body.Instrs {
				if call, ok := bi.(*ssa.Call); ok {
					if b2, ok := call.Call.Value.(*ssa.Builtin); ok && b2.Name() == "append" {
						if z, ok := appendedConstByte(call.Call.Args[1]); ok && z == 0 {
							zeroLoop = true
						}
					}
				}
			}
		}
	})
	if !zeroLoop && c04ZeroCount(pad) {
		zeroLoop = true // a computed count: for every residue r of the length, r + count(r) = 56 (mod 64) and 0 <= count(r) < 64
	}
	if !zeroLoop {
		// the zeros are produced in another way (a computed count, append(make(zeros)...)): decide the LENGTH of the
		// padded tail instead — 9 to 72 bytes more than the unprocessed tail
		if c04PadBound(c, pad) {
			c.Undecided("K-C04-pad", fname(pad), "zero fill until len%64 == 56", "no byte-wise zero-fill loop; proved only that the padding adds between 9 and 72 bytes", pad.Pos())
		} else {
			c.ViolatedHard("K-C04-pad", fname(pad), "zero fill until len%64 == 56", "no zero-fill loop `len(msg)%64 != 56`, and it is not provable that the padding adds between 9 and 72 bytes to the unprocessed tail", pad.Pos())
		}
	} else {
		c.Holds("K-C04-pad", fname(pad), "zero fill until len%64 == 56", "", pad.Pos())
	}
	// (c) eight appends of byte lanes 7..0 of the length field, in order
	var lanes []int
	laneOK := true
	for _, b := range pad.Blocks {
		for _, in := range b.Instrs {
			call, ok := in.(*ssa.Call)
			if !ok {
				continue
			}
			bi, ok := call.Call.Value.(*ssa.Builtin)
			if !ok || bi.Name() != "append" || len(call.Call.Args) != 2 {
				continue
			}
			v, ok := appendedValue(call.Call.Args[1])
			if !ok {
				continue
			}
			x, lane, ok := byteLaneConv(v)
			if !ok {
				continue
			}
			// strip a redundant &0xff inside
			if bo, ok := x.(*ssa.BinOp); ok && bo.Op == token.AND {
				x = bo.X
			}
			if xx, l2, ok := byteLane(x); ok {
				x, lane = xx, l2
			} else if sh, ok := x.(*ssa.BinOp); ok && sh.Op == token.SHR {
				if k, ok := constInt(sh.Y); ok && k%8 == 0 {
					x, lane = sh.X, int(k/8)
				}
			}
			ld, ok := x.(*ssa.UnOp)
			if !ok {
				laneOK = false
				continue
			}
			fa, ok := ld.X.(*ssa.FieldAddr)
			if !ok || fieldName(fa.X.Type(), fa.Field) != lenField {
				laneOK = false
				continue
			}
			lanes = append(lanes, lane)
		}
	}
	want := []int{7, 6, 5, 4, 3, 2, 1, 0}
	// the same eight bytes written with encoding/binary: BigEndian.PutUint64(buf[:8], length) and append(msg, buf...)
	if len(lanes) == 0 {
		for _, b := range pad.Blocks {
			for _, in := range b.Instrs {
				call, ok := in.(*ssa.Call)
				if !ok || calleeID(&call.Call) != "(encoding/binary.bigEndian).PutUint64" || len(call.Call.Args) != 3 {
					continue
				}
				ld, ok := call.Call.Args[2].(*ssa.UnOp)
				if !ok {
					continue
				}
				fa, ok := ld.X.(*ssa.FieldAddr)
				if !ok || fieldName(fa.X.Type(), fa.Field) != lenField {
					continue
				}
				// the 8-byte buffer is what gets appended afterwards
				if sl, ok := call.Call.Args[1].(*ssa.Slice); ok {
					if al, ok := sl.X.(*ssa.Alloc); ok {
						if n, ok := staticLen(al.Type().Underlying().(*types.Pointer).Elem()); ok && n == 8 {
							for _, r := range *al.Referrers() {
								if s2, ok := r.(*ssa.Slice); ok {
									for _, r2 := range *s2.Referrers() {
										if ap, ok := r2.(*ssa.Call); ok {
											if bi, ok := ap.Call.Value.(*ssa.Builtin); ok && bi.Name() == "append" && len(ap.Call.Args) == 2 && ap.Call.Args[1] == ssa.Value(s2) && instrReaches(call, ap, nil) {
												lanes = append([]int{}, want...)
											}
										}
									}
								}
							}
						}
					}
				}
			}
		}
	}
	// the eight bytes appended by a counted loop: `for i := 0; i < 8; i++ { msg = append(msg, uint8(length >> (56-8*i))) }`
	// — the lanes are enumerated from the counter's start, step and bound
	if len(lanes) == 0 || !laneOK {
		if ls, ok := c04LoopLanes(pad, lenField); ok {
			lanes, laneOK = ls, true
		}
	}
	c.Check(laneOK && fmt.Sprint(lanes) == fmt.Sprint(want), "K-C04-pad", fname(pad), "64-bit big-endian bit length", "",
		fmt.Sprintf("the padding must end with the 8 bytes of the bit length, most significant first; byte lanes appended: %v", lanes), pad.Pos())
	// (d) 0x80 first: the append of 0x80 dominates all other appends
	// (e) pad must start from the unprocessed tail: first append's base derives from a receiver field
}

var reJShift = regexp.MustCompile(`^j([+-][0-9]+)?$`)

func appendedConstByte(v ssa.Value) (int64, bool) {
	x, ok := appendedValue(v)
	if !ok {
		return 0, false
	}
	return constInt(x)
}

// appendedValue: for append(s, e) the variadic arg is a slice of a 1-element
// array alloc with one store; returns the stored element.
func appendedValue(v ssa.Value) (ssa.Value, bool) {
	sl, ok := v.(*ssa.Slice)
	if !ok {
		return nil, false
	}
	al, ok := sl.X.(*ssa.Alloc)
	if !ok {
		return nil, false
	}
	pt, ok := al.Type().Underlying().(*types.Pointer)
	if !ok {
		return nil, false
	}
	at, ok := pt.Elem().Underlying().(*types.Array)
	if !ok || at.Len() != 1 {
		return nil, false
	}
	var val ssa.Value
	for _, u := range *al.Referrers() {
		if ia, ok := u.(*ssa.IndexAddr); ok {
			for _, u2 := range *ia.Referrers() {
				if st, ok := u2.(*ssa.Store); ok && st.Addr == ssa.Value(ia) {
					val = st.Val
				}
			}
		}
	}
	return val, val != nil
}

// c04Stream: Write: msg = append(tail, p...); compress(msg); tail = msg[(len(msg)/64)*64:]
func c04Stream(c *Ctx, write *ssa.Function) {
	recv := write.Params[0]
	p := write.Params[1]
	rule := "K-C04-stream"
	// the new tail stored to a slice field
	var tailStore *ssa.Store
	instrsOf(write, func(_ *ssa.BasicBlock, in ssa.Instruction) {
		if s, ok := in.(*ssa.Store); ok {
			if fa, ok := s.Addr.(*ssa.FieldAddr); ok && fa.X == ssa.Value(recv) {
				if _, ok := s.Val.Type().Underlying().(*types.Slice); ok {
					tailStore = s
				}
			}
		}
	})
	if tailStore == nil {
		c.Undecided(rule, fname(write), "tail kept", "Write does not store a new unprocessed tail", write.Pos())
		return
	}
	fa := tailStore.Addr.(*ssa.FieldAddr)
	tailField := fieldName(fa.X.Type(), fa.Field)
	names := map[ssa.Value]string{recv: "recv", p: "p"}
	env := newCanon(names)
	env.bool3 = false
	got := env.canon(tailStore.Val).String()
	msg := "append(field:" + tailField + "(recv),p)"
	want1 := "slice(" + msg + ",64*quo(len(" + msg + "),0x40),_)"
	// canonIdx renders the low bound as an affine form over the atom quo(len(msg),64)
	want2 := "slice(" + msg + ",mul(0x40,quo(len(" + msg + "),0x40)),_)"
	want3 := "slice(" + msg + ",sub(len(" + msg + "),rem(len(" + msg + "),0x40)),_)"
	// the same low bound printed as an affine form: len(msg) - len(msg)%64
	want4 := "slice(" + msg + ",-1*rem(len(" + msg + "),0x40)+len(" + msg + "),_)"
	c.Check(got == want1 || got == want2 || got == want3 || got == want4, rule, fname(write), "tail kept = msg[(len(msg)/64)*64:]", "msg = tail||p, remainder kept",
		"after Write the unprocessed tail must be exactly the bytes beyond the last full 64-byte block of tail||p; have "+got, tailStore.Pos())
	// the compression call gets msg
	okCall := false
	for _, ci := range allCalls(write) {
		callee := ci.Common().StaticCallee()
		if callee != nil && hasRoundLoop(callee) {
			args := ci.Common().Args
			if len(args) == 2 && env.canon(args[1]).String() == msg {
				okCall = true
			}
		}
	}
	c.Check(okCall, rule, fname(write), "compress(tail||p)", "", "Write does not pass tail||p to the compression routine", write.Pos())
	// ... and while a tail is buffered (len(tail) >= 1) no compression call gets anything else: a fast path that hashes
	// p alone skips the buffered bytes (decided on values: a fast path guarded by an empty tail stays unreachable)
	cix := newCondIndex(write, map[ssa.Value]string{recv: "recv", p: "p"})
	bad := token.NoPos
	cix.withInterval("len(recv."+tailField+")", 1, 0, func() {
		live := reach([]*ssa.BasicBlock{write.Blocks[0]}, deadEdges(write))
		for _, ci := range allCalls(write) {
			callee := ci.Common().StaticCallee()
			if callee == nil || !hasRoundLoop(callee) || !live[ci.Block()] {
				continue
			}
			if args := ci.Common().Args; len(args) != 2 || env.canon(args[1]).String() != msg {
				bad = ci.Pos()
			}
		}
	})
	c.Evals += len(cix.conds)
	c.Check(bad == token.NoPos, rule, fname(write), "with a buffered tail every compression call gets tail||p", "", "with len("+tailField+") >= 1 a compression call that is not given tail||p is reachable: the buffered bytes are skipped or hashed out of order", bad)
	// Write returns len(p), nil
	for _, b := range write.Blocks {
		if r, ok := b.Instrs[len(b.Instrs)-1].(*ssa.Return); ok {
			g := env.canon(r.Results[0]).String()
			c.Check(g == "len(p)" && isNilConst(r.Results[1]), rule, fname(write), "returns (len(p), nil)", "", "Write must report len(p), nil; returns "+g, r.Pos())
		}
	}
}

func c04OneShot(c *Ctx, sp *ssa.Package, sum, write, reset *ssa.Function) {
	// exported function []byte -> []byte in package sm3
	var f *ssa.Function
	for _, m := range sp.Members {
		fn, ok := m.(*ssa.Function)
		if !ok || fn.Object() == nil || !fn.Object().Exported() || fn.Signature.Recv() != nil {
			continue
		}
		sig := fn.Signature
		if sig.Params().Len() == 1 && sig.Results().Len() == 1 && strings.HasSuffix(sig.Params().At(0).Type().String(), "[]byte") && sig.Results().At(0).Type().String() == "[]byte" {
			f = fn
		}
	}
	if f == nil {
		c.Missing("T-C04-oneshot", "sm3.Sm3Sum", "function", "no exported func([]byte) []byte in package sm3")
		return
	}
	c.Analysed[fname(f)] = true
	// sequence on one fresh object: Reset (or New), Write(data), return Sum(nil)
	var obj ssa.Value
	stage := 0
	bad := ""
	for _, b := range f.Blocks {
		for _, in := range b.Instrs {
			call, ok := in.(*ssa.Call)
			if !ok {
				continue
			}
			callee := call.Call.StaticCallee()
			rt, mn, rv, args := methodCallInfo(&call.Call)
			_ = rt
			switch {
			case callee == reset || (callee != nil && callee.Name() == "New" && callee.Pkg == sp):
				if stage != 0 {
					bad = "Reset/New after use"
				}
				stage = 1
				if callee == reset {
					obj = rv
				} else {
					obj = call
				}
			case mn == "Write":
				if stage != 1 || (obj != nil && rv != obj) || len(args) != 1 || args[0] != ssa.Value(f.Params[0]) {
					bad = "Write not called once with the input on the freshly reset state"
				}
				stage = 2
			case mn == "Sum":
				if stage != 2 || (obj != nil && rv != obj) || !isNilConst(args[0]) {
					bad = "Sum(nil) not called after the single Write"
				}
				stage = 3
			}
		}
	}
	if stage != 3 && bad == "" {
		bad = "sequence Reset/New → Write(data) → Sum(nil) not found"
	}
	if al, ok := obj.(*ssa.Alloc); ok && bad == "" {
		_ = al // fresh local state
	}
	c.Check(bad == "", "T-C04-oneshot", fname(f), "Reset → Write(data) → Sum(nil) on a fresh state", "", bad, f.Pos())
}

// c04PadBound: every return of the padding function yields between 9 and 72 bytes more than the unprocessed tail (the
// first byte-slice field of the receiver that the function loads)
func c04PadBound(c *Ctx, pf *ssa.Function) bool {
	if pf.Signature.Results().Len() != 1 || !isByteSlice(pf.Signature.Results().At(0).Type()) || len(pf.Params) == 0 {
		return false
	}
	lb := &LB{p: c.P, f: pf, UsedContracts: map[string]bool{}}
	var tail ssa.Value
	instrsOf(pf, func(_ *ssa.BasicBlock, in ssa.Instruction) {
		if ld, ok := in.(*ssa.UnOp); ok && ld.Op == token.MUL && isByteSlice(ld.Type()) {
			if fa, ok := ld.X.(*ssa.FieldAddr); ok && fa.X == ssa.Value(pf.Params[0]) && tail == nil {
				tail = ld
			}
		}
	})
	if tail == nil {
		return false
	}
	n := 0
	for _, b := range pf.Blocks {
		ret, isRet := b.Instrs[len(b.Instrs)-1].(*ssa.Return)
		if !isRet {
			continue
		}
		n++
		out, in := lb.lenLin(ret.Results[0]), lb.lenLin(tail)
		if !lb.prove([]cons{ge(out, in.addScaled(linConst(9), 1)), le(out, in.addScaled(linConst(72), 1))}, b, nil, map[lvar]lin{}, 3) {
			return false
		}
	}
	return n > 0
}

// c04LoopLanes: the byte lanes of the length field appended by a single counted loop, in iteration order
func c04LoopLanes(pad *ssa.Function, lenField string) ([]int, bool) {
	for _, h := range loopHeaders(pad) {
		var ind induction
		found := false
		for _, p := range phisOf(h) {
			if iv, ok := inductionOf(p); ok && iv.step != 0 {
				if _, isInt := p.Type().Underlying().(*types.Basic); isInt {
					ind, found = iv, true
					break
				}
			}
		}
		if !found {
			continue
		}
		hi, ok := loopBound(ind)
		if !ok || ind.step <= 0 || (hi-ind.init+ind.step-1)/ind.step != 8 {
			continue
		}
		blocks := loopBlocks(h)
		var app *ssa.Call
		n := 0
		for b := range blocks {
			for _, in := range b.Instrs {
				call, ok := in.(*ssa.Call)
				if !ok {
					continue
				}
				if bi, ok := call.Call.Value.(*ssa.Builtin); ok && bi.Name() == "append" {
					app = call
					n++
				}
			}
		}
		if n != 1 || app == nil || len(app.Call.Args) != 2 {
			continue
		}
		// the append runs on every iteration
		for _, pr := range h.Preds {
			if h.Dominates(pr) && !app.Block().Dominates(pr) {
				return nil, false
			}
		}
		v, ok := appendedValue(app.Call.Args[1])
		if !ok {
			continue
		}
		x := stripConvAll(v)
		if bo, ok := x.(*ssa.BinOp); ok && bo.Op == token.AND {
			if k, isK := constInt(bo.Y); isK && k == 0xff {
				x = stripConvAll(bo.X)
			}
		}
		sh, ok := x.(*ssa.BinOp)
		if !ok || sh.Op != token.SHR {
			continue
		}
		ld, ok := sh.X.(*ssa.UnOp)
		if !ok {
			continue
		}
		fa, ok := ld.X.(*ssa.FieldAddr)
		if !ok || fieldName(fa.X.Type(), fa.Field) != lenField {
			continue
		}
		amt := affineOf(stripConvAll(sh.Y))
		if len(amt.coef) > 1 || (len(amt.coef) == 1 && amt.coef[ind.phi] == 0) {
			continue
		}
		var lanes []int
		for i := ind.init; i < hi; i += ind.step {
			a := amt.k + amt.coef[ind.phi]*i
			if a < 0 || a%8 != 0 || a > 56 {
				return nil, false
			}
			lanes = append(lanes, int(a/8))
		}
		return lanes, true
	}
	return nil, false
}

// c04ZeroCount: the zero fill written as one append of make([]byte, count) with count a pure integer expression over
// len(msg) % 64 of the buffer being extended. The expression is evaluated for each of the 64 residues (an abstract
// domain of 64 values, no execution of repository code): r + count(r) must be 56 modulo 64 with 0 <= count(r) < 64.
func c04ZeroCount(pad *ssa.Function) bool {
	ok := false
	instrsOf(pad, func(_ *ssa.BasicBlock, in ssa.Instruction) {
		call, isCall := in.(*ssa.Call)
		if !isCall || ok {
			return
		}
		bi, isBi := call.Call.Value.(*ssa.Builtin)
		if !isBi || bi.Name() != "append" || len(call.Call.Args) != 2 {
			return
		}
		mk, isMk := call.Call.Args[1].(*ssa.MakeSlice)
		if !isMk {
			return
		}
		base := call.Call.Args[0]
		// the residue node: len(base) % 64
		var resNode ssa.Value
		var find func(v ssa.Value, d int)
		find = func(v ssa.Value, d int) {
			if d > 12 || resNode != nil {
				return
			}
			switch x := v.(type) {
			case *ssa.BinOp:
				if x.Op == token.REM {
					if k, isK := constInt(x.Y); isK && k == 64 {
						if lc, isL := x.X.(*ssa.Call); isL {
							if b2, isB := lc.Call.Value.(*ssa.Builtin); isB && b2.Name() == "len" && lc.Call.Args[0] == base {
								resNode = x
								return
							}
						}
					}
				}
				find(x.X, d+1)
				find(x.Y, d+1)
			case *ssa.Convert:
				find(x.X, d+1)
			}
		}
		find(mk.Len, 0)
		if resNode == nil {
			return
		}
		var eval func(v ssa.Value, r int64, d int) (int64, bool)
		eval = func(v ssa.Value, r int64, d int) (int64, bool) {
			if d > 16 {
				return 0, false
			}
			if v == resNode {
				return r, true
			}
			if k, isK := constInt(v); isK {
				return k, true
			}
			switch x := v.(type) {
			case *ssa.Convert:
				if isIntType(x.X.Type()) && isIntType(x.Type()) {
					return eval(x.X, r, d+1)
				}
			case *ssa.BinOp:
				a, ok1 := eval(x.X, r, d+1)
				b, ok2 := eval(x.Y, r, d+1)
				if !ok1 || !ok2 {
					return 0, false
				}
				switch x.Op {
				case token.ADD:
					return a + b, true
				case token.SUB:
					return a - b, true
				case token.MUL:
					return a * b, true
				case token.REM:
					if b != 0 {
						return a % b, true
					}
				case token.QUO:
					if b != 0 {
						return a / b, true
					}
				case token.AND:
					return a & b, true
				}
			}
			return 0, false
		}
		all := true
		for r := int64(0); r < 64; r++ {
			z, okE := eval(mk.Len, r, 0)
			if !okE || z < 0 || z >= 64 || (r+z)%64 != 56 {
				all = false
				break
			}
		}
		if all {
			ok = true
		}
	})
	return ok
}
