package main

import (
	"fmt"
	"go/token"
	"sort"
	"strings"

	"golang.org/x/tools/go/ssa"
)

// c11Names: role names for the buffers of a mode helper
func c11Names(f *ssa.Function) map[ssa.Value]string {
	names := paramNames(f, "key", "in", "mode")
	base := func(v ssa.Value) ssa.Value {
		for {
			if sl, ok := v.(*ssa.Slice); ok {
				v = sl.X
				continue
			}
			return v
		}
	}
	// K: destination buffers of block-cipher calls
	for _, ci := range allCalls(f) {
		cc := ci.Common()
		if cc.IsInvoke() && (cc.Method.Name() == "Encrypt" || cc.Method.Name() == "Decrypt") {
			if sl, ok := cc.Args[0].(*ssa.Slice); ok {
				names[sl] = "K"
				names[base(sl)] = "Kbuf"
			}
		}
	}
	// DATA: the padded-or-raw input phi; OUT: make(len(DATA))
	instrsOf(f, func(_ *ssa.BasicBlock, in ssa.Instruction) {
		if phi, ok := in.(*ssa.Phi); ok && isByteSlice(phi.Type()) {
			for _, e := range phi.Edges {
				if e == ssa.Value(f.Params[1]) {
					names[phi] = "DATA"
				}
			}
		}
	})
	instrsOf(f, func(_ *ssa.BasicBlock, in ssa.Instruction) {
		if ms, ok := in.(*ssa.MakeSlice); ok {
			if call, ok := ms.Len.(*ssa.Call); ok {
				if bi, ok := call.Call.Value.(*ssa.Builtin); ok && bi.Name() == "len" && names[call.Call.Args[0]] == "DATA" {
					names[ms] = "OUT"
				}
			}
		}
	})
	// S: a 16-byte buffer that receives copy(S, K…) (output-feedback register)
	for _, ci := range allCalls(f) {
		cc := ci.Common()
		if bi, ok := cc.Value.(*ssa.Builtin); ok && bi.Name() == "copy" {
			if names[base(cc.Args[1])] == "Kbuf" {
				if _, named := names[cc.Args[0]]; !named && names[base(cc.Args[0])] != "OUT" {
					names[cc.Args[0]] = "S"
				}
			}
		}
	}
	return names
}

type modeTemplate struct {
	phis   []string
	events []string
}

func blk(name, idx string) string {
	return "slice(" + name + ",mul(0x10," + idx + "),add(0x10,mul(0x10," + idx + ")))"
}

var c11Templates = map[string][]modeTemplate{}

func init() {
	D, O := blk("DATA", "i"), blk("OUT", "i")
	Dprev := blk("DATA", "sub(i,0x1)")
	K16 := "slice(K,_,0x10)"
	ks := func(s string) string { return strings.ReplaceAll(s, "KK", K16) }
	c11Templates["Sm4Ecb/enc"] = []modeTemplate{{nil, []string{"Encrypt(K, " + D + ")", "copy(" + O + ", K)"}}}
	c11Templates["Sm4Ecb/dec"] = []modeTemplate{{nil, []string{"Decrypt(K, " + D + ")", "copy(" + O + ", K)"}}}
	c11Templates["Sm4Cbc/enc"] = []modeTemplate{{[]string{"P0 = back:K | init:copyN(0x10,global:IV)"}, []string{"Encrypt(K, call:sm4.xor(" + D + ",P0))", "copy(" + O + ", K)"}}}
	c11Templates["Sm4Cbc/dec"] = []modeTemplate{{[]string{"P0 = back:" + D + " | init:copyN(0x10,global:IV)"}, []string{"Decrypt(K, " + D + ")", "copy(" + O + ", call:sm4.xor(K,P0))"}}}
	xk := ks("call:sm4.xor(KK," + D + ")")
	c11Templates["Sm4CFB/enc"] = []modeTemplate{
		{[]string{"P0 = back:" + xk + " | init:*"}, []string{"[eq(i,0x0)] Encrypt(K, global:IV)", "[eq(i,0x0)] copy(" + O + ", " + xk + ")", "[!eq(i,0x0)] Encrypt(K, P0)", "[!eq(i,0x0)] copy(" + O + ", " + xk + ")"}},
		{[]string{"P0 = back:" + xk + " | init:copyN(0x10,global:IV)"}, []string{"Encrypt(K, P0)", "copy(" + O + ", " + xk + ")"}},
	}
	c11Templates["Sm4CFB/dec"] = []modeTemplate{
		{nil, []string{"[eq(i,0x0)] Encrypt(K, global:IV)", "[eq(i,0x0)] copy(" + O + ", " + xk + ")", "[!eq(i,0x0)] Encrypt(K, " + Dprev + ")", "[!eq(i,0x0)] copy(" + O + ", " + xk + ")"}},
		{[]string{"P0 = back:" + D + " | init:copyN(0x10,global:IV)"}, []string{"Encrypt(K, P0)", "copy(" + O + ", " + xk + ")"}},
	}
	ofb := []modeTemplate{
		{nil, []string{"[eq(i,0x0)] Encrypt(K, global:IV)", "[eq(i,0x0)] copy(" + O + ", " + xk + ")", ks("[eq(i,0x0)] copy(S, KK)"), "[!eq(i,0x0)] Encrypt(K, S)", "[!eq(i,0x0)] copy(" + O + ", " + xk + ")", ks("[!eq(i,0x0)] copy(S, KK)")}},
		{[]string{"P0 = back:K | init:copyN(0x10,global:IV)"}, []string{"Encrypt(K, P0)", "copy(" + O + ", " + xk + ")"}},
	}
	c11Templates["Sm4OFB/enc"] = ofb
	c11Templates["Sm4OFB/dec"] = ofb
}

// normC11: spelling variants that denote the same bytes: (i+1)*16 for i*16+16; the 16-byte scratch block K for
// K[:16]; reading the package IV directly for reading a private copy of it (nobody writes through it: FX-C11-inputs)
func normC11(s string) string {
	s = strings.ReplaceAll(s, "mul(0x10,add(0x1,i))", "add(0x10,mul(0x10,i))")
	// a loop that steps a byte offset: the first-block test on the offset, the previous block as [off-16:off], and
	// under the first-block test a lower bound of 0 for off
	s = strings.ReplaceAll(s, "eq(mul(0x10,i),0x0)", "eq(i,0x0)")
	for _, nm := range []string{"DATA", "OUT"} {
		s = strings.ReplaceAll(s, "slice("+nm+",sub(mul(0x10,i),0x10),mul(0x10,i))", blk(nm, "sub(i,0x1)"))
		if strings.HasPrefix(s, "[eq(i,0x0)] ") {
			s = strings.ReplaceAll(s, "slice("+nm+",_,add(0x10,mul(0x10,i)))", blk(nm, "i"))
		}
	}
	s = strings.ReplaceAll(s, "slice(K,_,0x10)", "K")
	s = strings.ReplaceAll(s, "init:global:IV", "init:copyN(0x10,global:IV)")
	return s
}

func matchTemplate(ld loopDesc, t modeTemplate) bool {
	ld.Events = append([]string{}, ld.Events...)
	ld.Phis = append([]string{}, ld.Phis...)
	t.events = append([]string{}, t.events...)
	t.phis = append([]string{}, t.phis...)
	for i := range ld.Events {
		ld.Events[i] = normC11(ld.Events[i])
	}
	for i := range ld.Phis {
		ld.Phis[i] = normC11(ld.Phis[i])
	}
	for i := range t.events {
		t.events[i] = normC11(t.events[i])
	}
	for i := range t.phis {
		t.phis[i] = normC11(t.phis[i])
	}
	// events outside a two-way test stand for the same event in both arms
	{
		guards := map[string]bool{}
		for _, e := range ld.Events {
			if strings.HasPrefix(e, "[") {
				if j := strings.Index(e, "] "); j > 0 && !strings.Contains(e[1:j], "&") {
					guards[strings.TrimPrefix(e[1:j], "!")] = true
				}
			}
		}
		tGuarded := len(t.events) > 0
		for _, e := range t.events {
			if !strings.HasPrefix(e, "[") {
				tGuarded = false
			}
		}
		if len(guards) == 1 && tGuarded {
			var g string
			for k := range guards {
				g = k
			}
			var out []string
			for _, e := range ld.Events {
				if strings.HasPrefix(e, "[") {
					out = append(out, e)
				} else {
					out = append(out, "["+g+"] "+e, "[!"+g+"] "+e)
				}
			}
			ld.Events = out
		}
	}
	// the block cipher writing straight into its slot of the output instead of into a scratch block that is then
	// copied there: the scratch role K IS the output slot
	mentionsOut := false
	for _, e := range ld.Events {
		if strings.Contains(e, "OUT") {
			mentionsOut = true
		}
	}
	if !mentionsOut {
		O := blk("OUT", "i")
		hasCopy := false
		for i, e := range ld.Events {
			if strings.Contains(e, "copy(K, ") {
				ld.Events[i] = strings.Replace(e, "copy(K, ", "copy("+O+", ", 1)
				hasCopy = true
			}
		}
		if !hasCopy {
			ld.Events = append(ld.Events, "copy("+O+", K)")
		}
	}
	if len(ld.Events) != len(t.events) {
		return false
	}
	ev := append([]string{}, ld.Events...)
	te := append([]string{}, t.events...)
	sort.Strings(ev)
	sort.Strings(te)
	for i := range ev {
		if ev[i] != te[i] {
			return false
		}
	}
	// phi definitions that are used must match (unused phis may be extra)
	used := map[string]bool{}
	for _, e := range t.events {
		for k := 0; k < 4; k++ {
			n := fmt.Sprintf("P%d", k)
			if strings.Contains(e, n) {
				used[n] = true
			}
		}
	}
	for _, tp := range t.phis {
		ok := false
		for _, lp := range ld.Phis {
			if lp == tp {
				ok = true
			}
			if strings.HasSuffix(tp, "init:*") && strings.HasPrefix(lp, strings.TrimSuffix(tp, "*")) {
				ok = true
			}
		}
		if !ok {
			return false
		}
	}
	return true
}

func checkC11Modes(c *Ctx) {
	for _, n := range []string{"Sm4Ecb", "Sm4Cbc", "Sm4CFB", "Sm4OFB"} {
		f := c.Fn("sm4", n)
		if f == nil {
			c.Missing("K-C11-mode", "sm4."+n, "function", "mode helper not found")
			continue
		}
		fn := fname(f)
		names := c11Names(f)
		mode := f.Params[2]
		// the branch on mode
		var top *ssa.If
		for _, ifi := range ifsOf(f) {
			if ifi.Cond == ssa.Value(mode) && len(loopHeadersDominatedBy(f, ifi.Block().Succs[0])) > 0 {
				top = ifi
			}
		}
		if top == nil {
			c.Undecided("K-C11-mode", fn, "encrypt/decrypt branches", "no `if mode` selecting between two block loops", f.Pos())
			continue
		}
		for dir, succ := range map[string]*ssa.BasicBlock{"enc": top.Block().Succs[0], "dec": top.Block().Succs[1]} {
			hs := loopHeadersDominatedBy(f, succ)
			key := n + "/" + dir
			if len(hs) != 1 {
				c.Undecided("K-C11-mode", fn, dir+" block loop", fmt.Sprintf("%d loops in the %s branch", len(hs), dir), f.Pos())
				continue
			}
			ld := describeLoop(f, hs[0], names)
			c.Evals += len(ld.Events) * 10
			okB := ld.Bound == "lt(i,quo(len(DATA),0x10))" || ld.Bound == "le(add(0x10,mul(0x10,i)),len(DATA))" // block index, or byte offset with off+16 <= len
			matched := false
			for _, t := range c11Templates[key] {
				if matchTemplate(ld, t) {
					matched = true
				}
			}
			c.Check(okB, "K-C11-mode", fn, dir+": one iteration per 16-byte block", ld.Bound, "block loop bound is "+ld.Bound+", expected i < len(data)/16", hs[0].Instrs[0].Pos())
			detail := "phis: " + strings.Join(ld.Phis, " ; ") + " events: " + strings.Join(ld.Events, " ; ")
			c.Check(matched, "K-C11-mode", fn, dir+": chaining equals the standard mode", "", "the block chaining of "+key+" is not the standard mode definition — "+detail, hs[0].Instrs[0].Pos())
		}
		// DATA = mode ? pad(in) : in
		for v, nm := range names {
			if nm != "DATA" {
				continue
			}
			phi := v.(*ssa.Phi)
			be := newBigEnv(f, paramNames(f, "key", "in", "mode"))
			tv, fv, ok := condPhi(phi, mode, func(x ssa.Value, at ssa.Instruction) string { return be.bytesOf(x, at).String() })
			c.Check(ok && tv == "call:sm4.pkcs7Padding(in)" && fv == "in", "K-C11-mode", fn, "input is padded for encryption only", "", "data processed is ("+tv+" when encrypting, "+fv+" when decrypting)", phi.Pos())
		}
		// decrypt output is unpadded, encrypt output returned whole
		be := newBigEnv(f, names)
		spec, _ := defaultResultSpec(f)
		ex := successExits(f, spec)
		for _, b := range f.Blocks {
			ret, ok := b.Instrs[len(b.Instrs)-1].(*ssa.Return)
			if !ok || !ex.blocks[b] {
				continue
			}
			if phi, ok := ret.Results[0].(*ssa.Phi); ok {
				tv, fv, ok2 := "", "", false
				// the result phi joins the two mode branches
				for i, e := range phi.Edges {
					pred := phi.Block().Preds[i]
					s := be.bytesOf(e, pred.Instrs[len(pred.Instrs)-1]).String()
					if top.Block().Succs[0].Dominates(pred) {
						tv = s
					} else {
						fv = s
					}
				}
				ok2 = tv == "OUT" && fv == "res0(call:sm4.pkcs7UnPadding(OUT))"
				c.Check(ok2, "K-C11-mode", fn, "returns OUT (encrypt) / unpad(OUT) (decrypt)", "", "returns "+tv+" / "+fv, ret.Pos())
			}
		}
		// the empty plaintext is an input like any other (it encrypts to one block of padding): with len(in) == 0 a
		// successful return must not have become unreachable (unreachable in the abstraction = rejected in every run)
		if len(f.Params) >= 2 && isByteSlice(f.Params[1].Type()) {
			c.Check(lenProbeSucceeds(f, f.Params[1], 0, 0), "G-C11-empty", fn, "an empty input can still succeed", "", "with len(in) == 0 no successful return is reachable: the empty plaintext, whose ciphertext is one block of padding, is refused", f.Pos())
		}
		// key length guard
		atoms := lenGuardAtoms(f, func(v ssa.Value) bool { return v == ssa.Value(f.Params[0]) }, func(n int64) bool { return n == 16 }, []int64{0, 15, 16, 17, 32}, "len(key)==16")
		g := evalGuard(c.P, f, atoms, spec, callsNamed(f, "NewCipher"))
		if !g.OK {
			// decided on values (the test may sit in a helper that receives the key, or NewCipher's own error may be
			// what rejects): no probe length other than 16 reaches a successful return
			var accepted []string
			for _, n := range []int64{0, 1, 8, 15, 17, 24, 31, 32, 33, 64} {
				if lenProbeSucceeds(f, f.Params[0], n, 0) {
					accepted = append(accepted, fmt.Sprint(n))
				}
			}
			if len(accepted) == 0 && lenProbeSucceeds(f, f.Params[0], 16, 0) {
				c.Holds("G-C11-keylen", fn, "len(key) == 16 or error", "for every probe length other than 16 no successful return is reachable (decided on values, following helpers that receive the key)", f.Pos())
			} else {
				c.ViolatedHard("G-C11-keylen", fn, "len(key) == 16 or error", "keys of length "+strings.Join(accepted, ", ")+" bytes can reach a successful return ("+g.Why+")", g.Pos)
			}
			continue
		}
		c.Check(g.OK, "G-C11-keylen", fn, "len(key) == 16 or error", g.Why, g.Why, g.Pos)
	}
}

func loopHeadersDominatedBy(f *ssa.Function, b *ssa.BasicBlock) []*ssa.BasicBlock {
	var out []*ssa.BasicBlock
	for _, h := range loopHeaders(f) {
		if b.Dominates(h) {
			out = append(out, h)
		}
	}
	return out
}

var _ = token.ADD
