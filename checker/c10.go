package main

// C10 — chain verification: presence, polarity and non-bypassability of every check named in the
// property, in Verify, isValid, buildChains, findVerifiedParents, CheckSignatureFrom,
// VerifyHostname and matchHostnames; certificate pools are not written.

import (
	"fmt"
	"go/token"
	"go/types"
	"regexp"
	"sort"
	"strings"

	"golang.org/x/tools/go/ssa"
)

func init() { register("C10", checkC10) }

// condList: canonical conditions of all Ifs of f
func condList(f *ssa.Function, be *bigEnv) map[*ssa.If]string {
	out := map[*ssa.If]string{}
	for _, ifi := range ifsOf(f) {
		out[ifi] = be.plain(ifi.Cond, ifi).String()
	}
	return out
}

type condIndex struct {
	f     *ssa.Function
	be    *bigEnv
	conds map[*ssa.If]string
}

func newCondIndex(f *ssa.Function, names map[ssa.Value]string) *condIndex {
	be := newBigEnv(f, names)
	return &condIndex{f, be, condList(f, be)}
}

func matchCond(s, pat string) bool {
	if strings.HasPrefix(pat, "re:") {
		ok, _ := regexp.MatchString("^"+pat[3:]+"$", s)
		return ok
	}
	return s == pat
}

// atoms: Ifs whose canonical condition matches pat; passWhenTrue gives the polarity
func (ci *condIndex) atoms(pat string, passWhenTrue bool) []Atom {
	var out []Atom
	var ifs []*ssa.If
	for ifi, s := range ci.conds {
		if matchCond(s, pat) {
			ifs = append(ifs, ifi)
		}
	}
	sort.Slice(ifs, func(i, j int) bool { return ifs[i].Block().Index < ifs[j].Block().Index })
	for _, ifi := range ifs {
		ps := 1
		if passWhenTrue {
			ps = 0
		}
		out = append(out, Atom{ifi, ps, pat})
	}
	return out
}

// edges: the (block -> successor) edges taken when a condition matching pat evaluates to truth
func (ci *condIndex) edges(pat string, truth bool) map[edge]bool {
	out := map[edge]bool{}
	for ifi, s := range ci.conds {
		if matchCond(s, pat) {
			b := ifi.Block()
			if truth {
				out[edge{b, b.Succs[0]}] = true
			} else {
				out[edge{b, b.Succs[1]}] = true
			}
		}
	}
	return out
}

// deadEdges: successor edges of branches on compile-time constant conditions that are never taken
func deadEdges(f *ssa.Function) map[edge]bool {
	out := map[edge]bool{}
	for _, ifi := range ifsOf(f) {
		if cb, ok := constBool(ifi.Cond); ok {
			b := ifi.Block()
			if cb {
				out[edge{b, b.Succs[1]}] = true
			} else {
				out[edge{b, b.Succs[0]}] = true
			}
		}
	}
	return out
}

func mergeEdges(ms ...map[edge]bool) map[edge]bool {
	out := map[edge]bool{}
	for _, m := range ms {
		for e := range m {
			out[e] = true
		}
	}
	return out
}

// require: the check `pat` (polarity passWhenTrue) rejects and cannot be bypassed, except over the pre-cut edges
func (ci *condIndex) require(c *Ctx, rule, construct, pat string, passWhenTrue bool, spec resultSpec, bypass map[edge]bool, why string) {
	at := ci.atoms(pat, passWhenTrue)
	g := evalGuardCut(c.P, ci.f, at, spec, nil, mergeEdges(bypass, deadEdges(ci.f)))
	c.Evals += len(ci.conds)
	if !g.OK && ci.requireSemantic(pat, passWhenTrue, spec, bypass) {
		c.Holds(rule, fname(ci.f), construct, "assuming the test fails, no successful return is reachable (decided on values, not on the shape of the branch)", g.Pos)
		return
	}
	c.Check(g.OK, rule, fname(ci.f), construct, g.Why, why+": "+g.Why, g.Pos)
}

// requireSemantic: the same requirement decided without looking for a branch of a particular shape: ASSUME every
// boolean value whose canonical form is the test `pat` (or its negation) has the FAILING value — as a branch
// condition, as an input of a boolean phi (a named condition) or under a negation — and ask whether a successful
// return is still reachable from the entry once the legitimate bypass edges are removed. At least one such value must
// exist (otherwise the test is simply absent).
func (ci *condIndex) requireSemantic(pat string, passWhenTrue bool, spec resultSpec, bypass map[edge]bool) bool {
	n := 0
	cache := map[ssa.Value]string{}
	saved := condEval
	defer func() { condEval = saved }()
	condEval = func(v ssa.Value) (bool, bool) {
		if bt, isBasic := v.Type().Underlying().(*types.Basic); !isBasic || bt.Kind() != types.Bool {
			return false, false
		}
		s, ok := cache[v]
		if !ok {
			at, isInstr := v.(ssa.Instruction)
			if !isInstr {
				return false, false
			}
			s = ci.be.plain(v, at).String()
			cache[v] = s
		}
		if matchCond(s, pat) {
			n++
			return !passWhenTrue, true
		}
		if neg := negateCondString(s); neg != "" && matchCond(neg, pat) {
			n++
			return passWhenTrue, true
		}
		return false, false
	}
	r, _ := canReachSuccess(ci.f.Blocks[0], nil, successExits(ci.f, spec), mergeEdges(bypass, deadEdges(ci.f)))
	return !r && n > 0
}

// assumption: every boolean value whose canonical form matches pat has the value val
type assumption struct {
	pat string
	val bool
}

// withAssumptions installs condEval for the given assumptions while fn runs; the returned counter says how many
// boolean values of the function each assumption decided (0 = the test does not exist in the function).
func (ci *condIndex) withAssumptions(as []assumption, fn func()) []int {
	n := make([]int, len(as))
	cache := map[ssa.Value]string{}
	counted := map[ssa.Value]bool{}
	saved := condEval
	defer func() { condEval = saved }()
	condEval = func(v ssa.Value) (bool, bool) {
		if bt, isBasic := v.Type().Underlying().(*types.Basic); !isBasic || bt.Kind() != types.Bool {
			return false, false
		}
		s, ok := cache[v]
		if !ok {
			at, isInstr := v.(ssa.Instruction)
			if !isInstr {
				return false, false
			}
			s = ci.be.plain(v, at).String()
			cache[v] = s
		}
		for i, a := range as {
			if matchCond(s, a.pat) {
				if !counted[v] {
					n[i]++
				}
				counted[v] = true
				return a.val, true
			}
			if neg := negateCondString(s); neg != "" && matchCond(neg, a.pat) {
				if !counted[v] {
					n[i]++
				}
				counted[v] = true
				return !a.val, true
			}
		}
		return false, false
	}
	fn()
	return n
}

// requireAssume: under the conjunction of the assumptions (the situation the property says must be rejected) no
// successful return is reachable from the entry. Decided on values: the tests may be written as branches, as named
// conditions, merged or split, in any order; each assumed test must exist in the function.
func (ci *condIndex) requireAssume(c *Ctx, rule, construct string, as []assumption, spec resultSpec, bypass map[edge]bool, why string) {
	var r bool
	var w *ssa.BasicBlock
	n := ci.withAssumptions(as, func() {
		r, w = canReachSuccess(ci.f.Blocks[0], nil, successExits(ci.f, spec), mergeEdges(bypass, deadEdges(ci.f)))
	})
	c.Evals += len(ci.conds)
	_ = n
	if r {
		c.Violated(rule, fname(ci.f), construct, why+": in that situation the successful return at "+c.P.pos(lastPos(w))+" is still reachable", lastPos(w))
		return
	}
	c.Holds(rule, fname(ci.f), construct, "assuming the situation to reject, no successful return is reachable (decided on values, not on the shape of the branches)", ci.f.Pos())
}

// withInterval: while fn runs, every comparison between a value whose canonical form is `term` and an integer
// constant is decided whenever term ∈ [lo, hi] decides it (hi < lo means unbounded above).
func (ci *condIndex) withInterval(term string, lo, hi int64, fn func()) {
	saved := condEval
	defer func() { condEval = saved }()
	cache := map[ssa.Value]string{}
	str := func(v ssa.Value, at ssa.Instruction) string {
		if s, ok := cache[v]; ok {
			return s
		}
		s := ci.be.plain(v, at).String()
		cache[v] = s
		return s
	}
	unb := hi < lo
	condEval = func(v ssa.Value) (bool, bool) {
		bo, ok := v.(*ssa.BinOp)
		if !ok {
			if saved != nil {
				return saved(v)
			}
			return false, false
		}
		op := bo.Op
		var k int64
		if c2, isK := constInt(bo.Y); isK && str(bo.X, bo) == term {
			k = c2
		} else if c1, isK := constInt(bo.X); isK && str(bo.Y, bo) == term {
			k = c1
			switch op {
			case token.LSS:
				op = token.GTR
			case token.LEQ:
				op = token.GEQ
			case token.GTR:
				op = token.LSS
			case token.GEQ:
				op = token.LEQ
			}
		} else {
			if saved != nil {
				return saved(v)
			}
			return false, false
		}
		// truth of (T op k) at both ends; decided when it cannot change inside the interval
		switch op {
		case token.EQL, token.NEQ:
			in := k >= lo && (unb || k <= hi)
			if !in {
				return op == token.NEQ, true
			}
			if !unb && lo == hi {
				return op == token.EQL, true
			}
		case token.LSS: // T < k
			if !unb && hi < k {
				return true, true
			}
			if lo >= k {
				return false, true
			}
		case token.LEQ:
			if !unb && hi <= k {
				return true, true
			}
			if lo > k {
				return false, true
			}
		case token.GTR: // T > k
			if lo > k {
				return true, true
			}
			if !unb && hi <= k {
				return false, true
			}
		case token.GEQ:
			if lo >= k {
				return true, true
			}
			if !unb && hi < k {
				return false, true
			}
		}
		return false, false
	}
	fn()
}

// valueMatches: some branch condition of the function has the canonical form pat (or its negation)
func (ci *condIndex) valueMatches(pat string) bool {
	for _, s := range ci.conds {
		if matchCond(s, pat) || (negateCondString(s) != "" && matchCond(negateCondString(s), pat)) {
			return true
		}
	}
	return false
}

// dominatedByEdge: block b is only reachable after taking edge (x -> x.Succs[k]) of an If matching pat with the given truth
func (ci *condIndex) dominatedByCond(b *ssa.BasicBlock, pat string, truth bool) bool {
	for ifi, s := range ci.conds {
		truth := truth
		if !matchCond(s, pat) {
			// the same test written with the opposite operator: `a != b` false edge is `a == b` true edge
			if neg := negateCondString(s); neg != "" && matchCond(neg, pat) {
				truth = !truth
			} else {
				continue
			}
		}
		x := ifi.Block()
		succ := x.Succs[1]
		other := x.Succs[0]
		if truth {
			succ, other = other, succ
		}
		if succ == other {
			continue
		}
		// succ dominates b and is entered only from x
		if (succ == b || succ.Dominates(b)) && len(succ.Preds) == 1 {
			return true
		}
	}
	return false
}

// negateCondString: the canonical string of the negated comparison ("" if the top operator is not a comparison)
func negateCondString(s string) string {
	for a, b := range map[string]string{"eq(": "ne(", "ne(": "eq(", "lt(": "ge(", "ge(": "lt(", "gt(": "le(", "le(": "gt("} {
		if strings.HasPrefix(s, a) {
			return b + strings.TrimPrefix(s, a)
		}
	}
	if strings.HasPrefix(s, "not(") && strings.HasSuffix(s, ")") {
		return strings.TrimSuffix(strings.TrimPrefix(s, "not("), ")")
	}
	return ""
}

func allParamNames(f *ssa.Function) map[ssa.Value]string {
	names := map[ssa.Value]string{}
	for _, p := range f.Params {
		names[p] = pname(p)
	}
	return names
}

func checkC10(c *Ctx) {
	c.Decided = append(c.Decided,
		"G-C10-verify: Verify rejects unhandled critical extensions, an invalid leaf, a host-name mismatch (when a name is requested), an unbuildable chain and chains without the requested key usage; the only ways to a successful return pass these checks; checkChainForKeyUsage tests UnknownExtKeyUsage; a return of buildChains/Verify with a non-empty chains result carries a nil error",
		"G-C10-isvalid: isValid rejects issuer/subject mismatch with the child, a verification time outside [NotBefore, NotAfter], a name outside the permitted DNS domains, a non-CA intermediate and an exceeded path length; operators and operands checked on the canonical conditions",
		"G-C10-parents: a certificate enters a chain only after CheckSignatureFrom == nil (findVerifiedParents) and isValid == nil with the right certificate type (buildChains, both loops); chains are extended on fresh copies",
		"G-C10-candidates: findVerifiedParents tries the certificates indexed under the child's issuer name whenever the subject-key-id index gives none (completeness of chain building at the candidate-selection step; path enumeration with the ranged value resolved through the phis of each path)",
		"G-C10-sigfrom: CheckSignatureFrom rejects v3 parents without valid basic constraints, non-CA parents (Entrust exception only), parents without certSign usage and unknown algorithms, and returns the signature check over RawTBSCertificate",
		"G-C10-host: VerifyHostname accepts an IP literal only against IP SANs, a name only through matchHostnames on lower-cased SAN/CN (CN only without SANs); matchHostnames requires equal label counts and allows '*' only as the whole left-most label",
		"G-C10-usagewalk: checkChainForKeyUsage reaches an accepting return only through the regular end of its loop over the chain (no early exit from the loop leads to a return that can be true)",
		"G-C10-nameconstraint: matchNameConstraint (or a function it calls) involves the label separator '.' in its decision — a bare suffix match is reported; the case analysis around the boundary is not decided",
		"FX-C10-pools: nothing reachable from Verify writes a CertPool")
	c.NotDec = append(c.NotDec, "equivalence with a reference path validator over PKI topologies (behavioural)", "completeness of chain building: the per-intermediate cache can hide a valid alternative path (recorded as a known finding if reported)")

	cert := "re:.*"
	_ = cert
	c10IsValid(c)
	c10Verify(c)
	c10BuildChains(c)
	c10ChainsNoError(c)
	c10SigFrom(c)
	c10Host(c)
	c10PoolContains(c)
	c10Candidates(c)
	c10SearchBoth(c)
	c10CriticalFlag(c)
	c10NameConstraint(c)
	c10UsageWalk(c)
	// FX inputs: nothing reachable from Verify writes memory reachable from its arguments (certificates,
	// options incl. the requested key usages, pools, chains under construction), with named exceptions
	if v := c.Fn("x509", "(*Certificate).Verify"); v != nil {
		fx := getFX(c)
		allowed := map[string]string{
			"(*x509.Certificate).buildChains|param#1":        "the memoisation map created by Verify for this call",
			"(*x509.Certificate).Verify|param#1.Roots":       "assignment of the default system pool to the by-value options copy",
			"(*x509.Certificate).systemVerify|param#1.Roots": "by-value options copy",
		}
		var fns []*ssa.Function
		for f := range staticReach(v, "x509") {
			fns = append(fns, f)
		}
		sort.Slice(fns, func(i, j int) bool { return fname(fns[i]) < fname(fns[j]) })
		n := 0
		for _, f := range fns {
			// only the verification code proper: functions that take certificates, pools, options or slices
			w := fx.Writes(f)
			for _, r := range sortedRoots(w) {
				if r.Kind != rkParam {
					continue
				}
				key := fname(f) + "|" + r.String()
				base := fname(f) + "|" + fmt.Sprintf("param#%d", r.Idx)
				if _, ok := allowed[key]; ok {
					continue
				}
				if _, ok := allowed[base]; ok {
					continue
				}
				// value receivers / by-value struct params assigned locally are not caller memory: only report
				// writes through pointer, slice and map parameters
				if r.Idx < len(f.Params) && !pointerLikeTop(f.Params[r.Idx].Type()) {
					continue
				}
				n++
				c.Violated("FX-C10-inputs", fname(f), "writes "+r.String(), "verification must not modify its inputs (certificates, options, requested usages, pools): "+fx.describe(r, w[r]), w[r].Pos)
			}
		}
		if n == 0 {
			c.Holds("FX-C10-inputs", fname(v), fmt.Sprintf("%d functions reachable from Verify write none of their pointer/slice/map arguments", len(fns)), "exceptions: buildChains' memo map", v.Pos())
		}
	}
	// FX pools
	if v := c.Fn("x509", "(*Certificate).Verify"); v != nil {
		fx := getFX(c)
		w := fx.Writes(v)
		bad := false
		for _, r := range sortedRoots(w) {
			if r.Field == "certs" || r.Field == "bySubjectKeyId" || r.Field == "byName" || (r.Kind == rkParam && r.Idx == 1 && r.Field == "") {
				bad = true
				c.Violated("FX-C10-pools", fname(v), "writes "+r.String(), "verification must not modify the supplied certificate pools: "+fx.describe(r, w[r]), w[r].Pos)
			}
		}
		if !bad {
			c.Holds("FX-C10-pools", fname(v), "no write to a CertPool", "write set: "+rootsString(w), v.Pos())
		}
	}
}

func c10IsValid(c *Ctx) {
	f := c.Fn("x509", "(*Certificate).isValid")
	if f == nil {
		c.Missing("G-C10-isvalid", "x509.(*Certificate).isValid", "method", "not found")
		return
	}
	names := allParamNames(f)
	// NOW = opts.CurrentTime or time.Now()
	instrsOf(f, func(_ *ssa.BasicBlock, in ssa.Instruction) {
		if phi, ok := in.(*ssa.Phi); ok && strings.HasSuffix(phi.Type().String(), "time.Time") {
			names[phi] = "NOW"
		}
		if phi, ok := in.(*ssa.Phi); ok && phi.Type().String() == "bool" {
			// ok flag of the permitted-domain loop
			names[phi] = "PERMITTED_OK"
		}
	})
	ci := newCondIndex(f, names)
	spec, _ := defaultResultSpec(f)
	rule := "G-C10-isvalid"
	// NOW phi definition
	for v, n := range names {
		if n != "NOW" {
			continue
		}
		phi := v.(*ssa.Phi)
		delete(ci.be.names, phi)
		var parts []string
		for i, e := range phi.Edges {
			pred := phi.Block().Preds[i]
			parts = append(parts, ci.be.plain(e, pred.Instrs[len(pred.Instrs)-1]).String())
		}
		ci.be.names[phi] = "NOW"
		sort.Strings(parts)
		got := strings.Join(parts, "|")
		c.Check(got == "call:time.Now()|opts.CurrentTime", rule, fname(f), "verification time = opts.CurrentTime or time.Now()", "", "the time used for the validity window is "+got, phi.Pos())
		break
	}
	// PERMITTED_OK phi: false initially, matchNameConstraint(opts.DNSName, c.PermittedDNSDomains[i]) in the loop
	okPhi := false
	for v, n := range names {
		if n != "PERMITTED_OK" {
			continue
		}
		phi := v.(*ssa.Phi)
		good := true
		hasCall := false
		for _, e := range phi.Edges {
			if cb, isC := constBool(e); isC {
				if cb {
					good = false
				}
				continue
			}
			if e == ssa.Value(phi) {
				continue
			}
			if _, isPhi := e.(*ssa.Phi); isPhi {
				continue
			}
			s := ci.be.plain(e, phi).String()
			if matchCond(s, `re:call:x509\.matchNameConstraint\(opts\.DNSName,idx\(field:PermittedDNSDomains\(c\),.*\)\)`) {
				hasCall = true
			} else {
				good = false
			}
		}
		if good && hasCall {
			okPhi = true
		}
	}
	noChild := ci.edges("gt(len(currentChain),0x0)", false)
	ci.require(c, rule, "issuer of the child equals the subject (raw bytes)", `re:call:bytes\.Equal\(idx\(currentChain,len\(currentChain\)-1\)\.RawIssuer,c\.RawSubject\)`, true, spec, noChild,
		"a certificate whose subject is not byte-equal to the issuer of the certificate below it must be rejected")
	ci.require(c, rule, "time not before NotBefore", "call:(time.Time).Before(NOW,c.NotBefore)", false, spec, nil, "a certificate that is not yet valid at the verification time must be rejected")
	ci.require(c, rule, "time not after NotAfter", "call:(time.Time).After(NOW,c.NotAfter)", false, spec, nil, "an expired certificate must be rejected")
	semOK := false
	{
		// decided semantically as well: ASSUME the certificate has permitted DNS domains and matchNameConstraint says
		// "no match" for every one of them — then isValid must not be able to return nil
		nCalls := 0
		saved := condEval
		condEval = func(v ssa.Value) (bool, bool) {
			if call, ok := v.(*ssa.Call); ok && calleeNamed(call, "matchNameConstraint") {
				if matchCond(ci.be.plain(call, call).String(), `re:call:x509\.matchNameConstraint\(opts\.DNSName,idx\(field:PermittedDNSDomains\(c\),.*\)\)`) {
					nCalls++
					return false, true
				}
			}
			if bo, ok := v.(*ssa.BinOp); ok {
				isPD := func(x ssa.Value) bool {
					return isLenOf(x, func(y ssa.Value) bool {
						ld, ok := y.(*ssa.UnOp)
						if !ok {
							return false
						}
						fa, ok := ld.X.(*ssa.FieldAddr)
						return ok && fieldName(fa.X.Type(), fa.Field) == "PermittedDNSDomains"
					})
				}
				if k, isK := constInt(bo.Y); isK && k == 0 && isPD(bo.X) {
					switch bo.Op {
					case token.GTR, token.NEQ:
						return true, true
					case token.EQL, token.LEQ:
						return false, true
					}
				}
			}
			return false, false
		}
		r, _ := canReachSuccess(f.Blocks[0], nil, successExits(f, spec), nil)
		condEval = saved
		semOK = !r && nCalls > 0
		okPhi = okPhi || semOK
	}
	c.Check(okPhi, rule, fname(f), "permitted-domain flag computed by matchNameConstraint(opts.DNSName, each permitted domain)", "", "the flag tested for name constraints is not false-initialised and set only by matchNameConstraint over the certificate's permitted DNS domains", f.Pos())
	if semOK {
		c.Holds(rule, fname(f), "requested name within the permitted DNS domains", "assuming no permitted domain matches, no successful return is reachable", f.Pos())
	} else {
		ci.require(c, rule, "requested name within the permitted DNS domains", "PERMITTED_OK", true, spec, ci.edges("gt(len(c.PermittedDNSDomains),0x0)", false),
			"a CA with permitted DNS domains must be rejected for a name outside all of them")
	}
	notInter := ci.edges("eq(certType,0x1)", false)
	ci.require(c, rule, "intermediates need valid basic constraints", "c.BasicConstraintsValid", true, spec, notInter, "an intermediate without basic constraints must be rejected")
	ci.require(c, rule, "intermediates must be CAs", "c.IsCA", true, spec, notInter, "an intermediate that is not a CA must be rejected")
	ci.require(c, rule, "path length constraint", "gt(sub(len(currentChain),0x1),c.MaxPathLen)", false, spec,
		mergeEdges(ci.edges("c.BasicConstraintsValid", false), ci.edges("ge(c.MaxPathLen,0x0)", false)), "more intermediates below a CA than its MaxPathLen allows must be rejected")
	// constants: intermediateCertificate == 1, rootCertificate == 2 are pinned by the call sites in buildChains
}

func c10Verify(c *Ctx) {
	f := c.Fn("x509", "(*Certificate).Verify")
	if f == nil {
		c.Missing("G-C10-verify", "x509.(*Certificate).Verify", "method", "not found")
		return
	}
	names := allParamNames(f)
	ci := newCondIndex(f, names)
	spec, _ := defaultResultSpec(f)
	rule := "G-C10-verify"
	O := `local\(x509\.VerifyOptions\)`
	OP := `\?alloc:\*x509\.VerifyOptions`
	ci.require(c, rule, "unhandled critical extensions rejected", "gt(len(c.UnhandledCriticalExtensions),0x0)", false, spec, nil, "a leaf with an unhandled critical extension must be rejected")
	ci.require(c, rule, "leaf validity checked", `re:ne\(call:\(\*x509\.Certificate\)\.isValid\(c,0x0,const:nil:[^,]*,`+OP+`\),const:nil:error\)`, false, spec, nil, "the leaf must pass isValid(leafCertificate, no chain, opts)")
	ci.require(c, rule, "host name verified when requested", `re:ne\(call:\(\*x509\.Certificate\)\.VerifyHostname\(c,`+O+`\.DNSName\),const:nil:error\)`, false, spec,
		ci.edges(`re:gt\(len\(`+O+`\.DNSName\),0x0\)`, false), "a requested DNS name must be checked against the leaf")
	ci.require(c, rule, "chain building errors returned", `re:ne\(res1\(call:\(\*x509\.Certificate\)\.buildChains\(c,[^,]*,slice\(\?alloc:\*\[1\]\*x509\.Certificate,_,_\),`+OP+`\)\),const:nil:error\)`, false, spec,
		ci.edges(`re:call:\(\*x509\.CertPool\)\.contains\(`+O+`\.Roots,c\)`, true), "if no chain to a root can be built (and the leaf is not itself a root) verification must fail")
	// usages
	anyUsage := ci.edges(`re:eq\(idx\(.*\),0x0\)`, true)
	ci.require(c, rule, "no chain with the requested usage is an error", `re:eq\(len\(.*\),0x0\)`, false, spec, mergeEdges(anyUsage, ci.edges("eq(len(c.Raw),0x0)", true), ci.edges(`re:eq\(len\(.*\.Raw\),0x0\)`, true), ci.edges(`re:eq\(len\(`+O+`\.KeyUsages\),0x0\)`, true), ci.edges(`re:eq\(len\(`+O+`\.KeyUsages\),0x0\)`, false)),
		"when no candidate chain is valid for the requested key usages an error must be returned")
	// candidates are appended to the result only when checkChainForKeyUsage is true
	okFilter := false
	var pos = f.Pos()
	for _, ci2 := range allCalls(f) {
		call, ok := ci2.(*ssa.Call)
		if !ok {
			continue
		}
		if bi, ok := call.Call.Value.(*ssa.Builtin); !ok || bi.Name() != "append" {
			continue
		}
		el, isLit := arrayLit(call.Call.Args[1])
		if !isLit || len(el) != 1 {
			continue
		}
		s := ci.be.plain(el[0], call).String()
		if strings.HasPrefix(s, "idx(") && ci.dominatedByCond(call.Block(), `re:call:x509\.checkChainForKeyUsage\(idx\(.*\),.*\)`, true) {
			okFilter = true
			pos = call.Pos()
		}
	}
	c.Check(okFilter, rule, fname(f), "only chains passing checkChainForKeyUsage are returned", "", "candidate chains are added to the result without the extended-key-usage filter", pos)
	// the filter itself: a certificate whose only extended key usages are ones this package does not know is NOT a
	// certificate without usage restrictions. Necessary condition, decided on the resolved tests: the filter has a
	// test over the certificate's UnknownExtKeyUsage (without one it cannot tell the two apart).
	if g := c.Fn("x509", "checkChainForKeyUsage"); g != nil {
		cg := newCondIndex(g, allParamNames(g))
		has := false
		for _, s := range cg.conds {
			if strings.Contains(s, "UnknownExtKeyUsage") {
				has = true
			}
		}
		c.Evals += len(cg.conds)
		c.Check(has, rule, fname(g), "unknown extended key usages count as a restriction", "a test over UnknownExtKeyUsage decides whether the certificate is unrestricted", "no test of the filter reads UnknownExtKeyUsage: a certificate restricted to usages this package does not know is treated as valid for every usage", g.Pos())
	} else {
		c.Missing(rule, "x509.checkChainForKeyUsage", "function", "not found")
	}
}

func c10BuildChains(c *Ctx) {
	f := c.Fn("x509", "(*Certificate).buildChains")
	rule := "G-C10-parents"
	if f == nil {
		c.Missing(rule, "x509.(*Certificate).buildChains", "method", "not found")
		return
	}
	names := allParamNames(f)
	ci := newCondIndex(f, names)
	// every append into chains
	nRoot, nInter := 0, 0
	for _, ci2 := range allCalls(f) {
		call, ok := ci2.(*ssa.Call)
		if !ok {
			continue
		}
		if bi, ok := call.Call.Value.(*ssa.Builtin); !ok || bi.Name() != "append" {
			continue
		}
		arg := call.Call.Args[1]
		if el, isLit := arrayLit(arg); isLit && len(el) == 1 {
			s := ci.be.plain(el[0], call).String()
			rootX := `idx\(field:certs\(field:Roots\(opts\)\),idx\(extract0\(call:\(\*x509\.CertPool\)\.findVerifiedParents\(field:Roots\(opts\),c\)\),[^)]*\)\)`
			if matchCond(s, `re:call:x509\.appendToFreshChain\(currentChain,`+rootX+`\)`) {
				nRoot++
				okV := ci.dominatedByCond(call.Block(), `re:ne\(call:\(\*x509\.Certificate\)\.isValid\(`+rootX+`,0x2,currentChain,opts\),const:nil:error\)`, false)
				c.Check(okV, rule, fname(f), "a root is appended only after isValid(rootCertificate, currentChain) == nil", "", "a candidate root enters a chain without its validity having been checked against the current chain", call.Pos())
			} else {
				c.Violated(rule, fname(f), "element appended to chains", "an unexpected chain "+s+" is added to the result", call.Pos())
			}
			continue
		}
		// childChains...
		s := ci.be.plain(arg, call).String()
		_ = s
		nInter++
		interX := `idx\(field:certs\(field:Intermediates\(opts\)\),idx\(extract0\(call:\(\*x509\.CertPool\)\.findVerifiedParents\(field:Intermediates\(opts\),c\)\),[^)]*\)\)`
		okV := ci.dominatedByCond(call.Block(), `re:ne\(call:\(\*x509\.Certificate\)\.isValid\(`+interX+`,0x1,currentChain,opts\),const:nil:error\)`, false)
		c.Check(okV, rule, fname(f), "chains through an intermediate are added only after isValid(intermediateCertificate, currentChain) == nil", "", "chains through a candidate intermediate are added without checking its validity (CA bit, dates, path length) against the current chain", call.Pos())
	}
	c.Check(nRoot >= 1 && nInter >= 1, rule, fname(f), "roots and intermediates both searched", "", fmt.Sprintf("%d root appends, %d intermediate appends", nRoot, nInter), f.Pos())
	// the recursion extends a fresh copy of the chain with the intermediate just validated
	okRec := false
	for _, ci2 := range allCalls(f) {
		call, ok := ci2.(*ssa.Call)
		if ok && call.Call.StaticCallee() == f {
			s := ci.be.plain(call, call).String()
			okRec = matchCond(s, `re:call:\(\*x509\.Certificate\)\.buildChains\((idx\(field:certs\(field:Intermediates\(opts\)\),.*\)),cache,call:x509\.appendToFreshChain\(currentChain,idx\(field:certs\(field:Intermediates\(opts\)\),.*\)\),opts\)`)
			if !okRec {
				dbg("recursion: %s", s)
			}
		}
	}
	c.Check(okRec, rule, fname(f), "recursion on the validated intermediate with currentChain+intermediate (fresh copy)", "", "the recursive search does not continue from the validated intermediate with the extended chain", f.Pos())
	// loop avoidance: candidates equal to a certificate already in the chain are skipped
	nEq := len(ci.atoms(`re:call:\(\*x509\.Certificate\)\.Equal\(idx\(currentChain,.*\),idx\(field:certs\(.*`, false))
	c.Check(nEq >= 2, rule, fname(f), "certificates already in the chain are skipped (both loops)", "", fmt.Sprintf("%d loop-avoidance comparisons against the current chain", nEq), f.Pos())
	// appendToFreshChain really copies
	if a := c.Fn("x509", "appendToFreshChain"); a != nil {
		fx := getFX(c)
		_, bad := fx.Writes(a)[root{Kind: rkParam, Idx: 0}]
		c.Check(!bad, rule, fname(a), "extends a copy, not the shared chain", "", "appendToFreshChain writes into the chain it was given (sibling branches would see each other's certificates)", a.Pos())
	}
	// findVerifiedParents
	if p := c.Fn("x509", "(*CertPool).findVerifiedParents"); p != nil {
		pn := allParamNames(p)
		pci := newCondIndex(p, pn)
		okP := false
		for _, ci2 := range allCalls(p) {
			call, ok := ci2.(*ssa.Call)
			if !ok {
				continue
			}
			if bi, ok := call.Call.Value.(*ssa.Builtin); ok && bi.Name() == "append" {
				if pci.dominatedByCond(call.Block(), `re:eq\(call:\(\*x509\.Certificate\)\.CheckSignatureFrom\(cert,idx\(field:certs\(s\),.*\)\),const:nil:error\)`, true) {
					okP = true
				} else {
					okP = false
					c.Violated(rule, fname(p), "parent appended without signature check", "a candidate parent is returned without CheckSignatureFrom(cert, candidate) == nil", call.Pos())
				}
			}
		}
		c.Check(okP, rule, fname(p), "candidates are returned only after CheckSignatureFrom == nil", "", "no append guarded by the signature check", p.Pos())
	} else {
		c.Missing(rule, "x509.(*CertPool).findVerifiedParents", "method", "not found")
	}
}

func c10SigFrom(c *Ctx) {
	f := c.Fn("x509", "(*Certificate).CheckSignatureFrom")
	rule := "G-C10-sigfrom"
	if f == nil {
		c.Missing(rule, "x509.(*Certificate).CheckSignatureFrom", "method", "not found")
		return
	}
	ci := newCondIndex(f, allParamNames(f))
	spec, _ := defaultResultSpec(f)
	// the two basic-constraints clauses are decided on values: in the situation to reject (the Entrust exception
	// aside) no successful return may be reachable, however the tests are grouped or named
	notEntrust := assumption{"call:bytes.Equal(c.RawSubjectPublicKeyInfo,global:entrustBrokenSPKI)", false}
	ci.requireAssume(c, rule, "v3 parent needs valid basic constraints", []assumption{{"eq(parent.Version,0x3)", true}, {"parent.BasicConstraintsValid", false}, notEntrust}, spec, nil,
		"a version-3 parent without a valid basic-constraints extension must not sign certificates")
	ci.requireAssume(c, rule, "parent with basic constraints must be a CA", []assumption{{"parent.BasicConstraintsValid", true}, {"parent.IsCA", false}, notEntrust}, spec, nil,
		"a parent whose basic constraints say it is not a CA must not sign certificates")
	ci.require(c, rule, "parent key usage must include certSign when present", "eq(and(0x20,parent.KeyUsage),0x0)", false, spec, ci.edges("ne(parent.KeyUsage,0x0)", false), "a parent whose key usage lacks keyCertSign must be rejected")
	ci.require(c, rule, "unknown public key algorithm rejected", "eq(parent.PublicKeyAlgorithm,0x0)", false, spec, nil, "a parent with an unknown key algorithm must be rejected")
	ex := successExits(f, spec)
	for _, b := range f.Blocks {
		ret, ok := b.Instrs[len(b.Instrs)-1].(*ssa.Return)
		if !ok || !ex.blocks[b] {
			continue
		}
		got := ci.be.plain(ret.Results[0], ret).String()
		c.Check(got == "call:(*x509.Certificate).CheckSignature(parent,c.SignatureAlgorithm,c.RawTBSCertificate,c.Signature)", rule, fname(f), "result is parent.CheckSignature(algorithm, RawTBSCertificate, Signature)", "", "the accepting return is "+got, ret.Pos())
	}
	// CheckSignature -> checkSignature(algo, signed, signature, c.PublicKey)
	if cs := c.Fn("x509", "(*Certificate).CheckSignature"); cs != nil {
		be := newBigEnv(cs, allParamNames(cs))
		for _, b := range cs.Blocks {
			if ret, ok := b.Instrs[len(b.Instrs)-1].(*ssa.Return); ok {
				got := be.plain(ret.Results[0], ret).String()
				c.Check(got == "call:x509.checkSignature(algo,signed,signature,c.PublicKey)", rule, fname(cs), "verifies under the certificate's own public key", "", "CheckSignature returns "+got, ret.Pos())
			}
		}
	}
}

func c10Host(c *Ctx) {
	rule := "G-C10-host"
	if f := c.Fn("x509", "(*Certificate).VerifyHostname"); f != nil {
		names := allParamNames(f)
		// candidateIP phi: h or h[1:len-1]
		instrsOf(f, func(_ *ssa.BasicBlock, in ssa.Instruction) {
			if phi, ok := in.(*ssa.Phi); ok && phi.Type().String() == "string" {
				names[phi] = "CAND"
			}
		})
		ci := newCondIndex(f, names)
		spec, _ := defaultResultSpec(f)
		ex := successExits(f, spec)
		allowed := []string{
			`re:call:\(net\.IP\)\.Equal\(call:net\.ParseIP\(CAND\),idx\(field:IPAddresses\(c\),.*\)\)`,
			`re:call:x509\.matchHostnames\(call:x509\.toLowerCaseASCII\(idx\(field:DNSNames\(c\),.*\)\),call:x509\.toLowerCaseASCII\(h\)\)`,
			`call:x509.matchHostnames(call:x509.toLowerCaseASCII(c.Subject.CommonName),call:x509.toLowerCaseASCII(h))`,
		}
		n := 0
		for _, b := range f.Blocks {
			if _, ok := b.Instrs[len(b.Instrs)-1].(*ssa.Return); !ok || !ex.blocks[b] {
				continue
			}
			n++
			okDom := false
			which := -1
			for i, pat := range allowed {
				if ci.dominatedByCond(b, pat, true) {
					okDom, which = true, i
				}
			}
			c.Check(okDom, rule, fname(f), fmt.Sprintf("accepting return #%d is guarded by a successful match", n), "", "VerifyHostname can return nil without an IP-SAN equality or a matchHostnames success", lastPos(b))
			if which == 0 {
				c.Check(ci.dominatedByCond(b, "ne(call:net.ParseIP(CAND),const:nil:net.IP)", true), rule, fname(f), "IP SAN match only for IP literals", "", "", lastPos(b))
			}
			if which == 1 || which == 2 {
				// name matching is not reachable for IP literals
				c.Check(ci.dominatedByCond(b, "ne(call:net.ParseIP(CAND),const:nil:net.IP)", false), rule, fname(f), fmt.Sprintf("name match #%d only when the host is not an IP literal", which), "", "an IP literal can be accepted through DNS-name matching", lastPos(b))
			}
			if which == 2 {
				okCN := ci.dominatedByCond(b, "gt(len(c.DNSNames),0x0)", false)
				if !okCN {
					// decided on values: with at least one DNS SAN this accepting return is unreachable
					ci.withInterval("len(c.DNSNames)", 1, 0, func() {
						okCN = !reach([]*ssa.BasicBlock{f.Blocks[0]}, deadEdges(f))[b]
					})
				}
				c.Check(okCN, rule, fname(f), "common name used only without SANs", "", "the common name is consulted although DNS SANs are present", lastPos(b))
			}
		}
		c.Check(n >= 2, rule, fname(f), "accepting returns found", "", "fewer than two accepting returns", f.Pos())
	} else {
		c.Missing(rule, "x509.(*Certificate).VerifyHostname", "method", "not found")
	}
	if f := c.Fn("x509", "matchHostnames"); f != nil {
		ci := newCondIndex(f, allParamNames(f))
		spec, _ := defaultResultSpec(f)
		P := `call:strings\.Split\(call:strings\.TrimSuffix\(pattern,const:"\.":string\),const:"\.":string\)`
		H := `call:strings\.Split\(call:strings\.TrimSuffix\(host,const:"\.":string\),const:"\.":string\)`
		ci.require(c, rule, "equal number of labels", `re:ne\(len\(`+P+`\),len\(`+H+`\)\)`, false, spec, nil, "a wildcard must not span several labels: pattern and host need the same number of labels")
		// wildcard bypass: the '*' test true edge, which must itself be reachable only under i == 0
		star := `re:eq\(idx\(` + P + `,[^)]*\),const:"\*":string\)`
		starOK := false
		for _, s := range ci.conds {
			dbg("matchHostnames cond: %s", s)
		}
		star0 := `re:eq\(idx\(` + P + `,(0|0x0)\),const:"\*":string\)`
		for ifi, s := range ci.conds {
			if neg := negateCondString(s); !matchCond(s, star) && neg != "" && matchCond(neg, star) {
				s = neg
			}
			if matchCond(s, star) {
				// the label tested is the left-most one: a constant index 0, or the loop index under a dominating i == 0
				starOK = matchCond(s, star0) || ci.dominatedByCond(ifi.Block(), `re:eq\(add\(0x1,\?phi\d+\),0x0\)`, true)
			}
		}
		c.Check(starOK, rule, fname(f), "'*' is honoured only for the left-most label", "", "the wildcard test is not restricted to label index 0", f.Pos())
		// every iteration compares the labels unless the label is the left-most '*'
		cmpPat := `re:ne\(idx\(` + P + `,[^)]*\),idx\(` + H + `,[^)]*\)\)`
		cmpAtoms := ci.atoms(cmpPat, false)
		gr := evalReject(c.P, f, cmpAtoms, spec)
		everyIter := false
		if gr.OK {
			for _, h := range loopHeaders(f) {
				cut := mergeEdges(ci.edges(star, true))
				for _, a := range cmpAtoms {
					b := a.If.Block()
					cut[edge{b, b.Succs[a.PassSucc]}] = true
				}
				body := h.Succs[0]
				seen := reach([]*ssa.BasicBlock{body}, cut)
				everyIter = !seen[h]
			}
		}
		c.Check(gr.OK && everyIter, rule, fname(f), "labels must be equal (except a whole left-most '*')", "", "a differing label does not make the match fail on every iteration: "+gr.Why, f.Pos())
		ci.require(c, rule, "empty pattern rejected", `re:eq\(len\(call:strings\.TrimSuffix\(pattern,const:"\.":string\)\),0x0\)`, false, spec, nil, "")
		ci.require(c, rule, "empty host rejected", `re:eq\(len\(call:strings\.TrimSuffix\(host,const:"\.":string\)\),0x0\)`, false, spec, nil, "")
	} else {
		c.Missing(rule, "x509.matchHostnames", "function", "not found")
	}
}

// pointerLikeTop: the parameter itself is a pointer, slice or map (writes through it are caller-visible)
func pointerLikeTop(t types.Type) bool {
	switch t.Underlying().(type) {
	case *types.Pointer, *types.Slice, *types.Map:
		return true
	}
	return false
}

// c10PoolContains: "this certificate is in the pool" means the whole certificate is: CertPool.contains answers true
// only through Certificate.Equal (a comparison of the complete DER encodings). Verify's "the leaf is itself a trusted
// root" shortcut and AddCert's de-duplication both rest on it; comparing less (name, key) lets a look-alike of a
// root be accepted without any signature check and drops cross-certificates.
func c10PoolContains(c *Ctx) {
	rule := "G-C10-contains"
	f := c.Fn("x509", "(*CertPool).contains")
	eq := c.Fn("x509", "(*Certificate).Equal")
	if f == nil || eq == nil {
		c.Missing(rule, "x509.(*CertPool).contains / (*Certificate).Equal", "methods", "not found")
		return
	}
	rawBoth := func(call *ssa.Call) bool { // bytes.Equal(a.Raw, b.Raw)
		if calleeID(&call.Call) != "bytes.Equal" || len(call.Call.Args) != 2 {
			return false
		}
		for _, a := range call.Call.Args {
			ld, ok := a.(*ssa.UnOp)
			if !ok {
				return false
			}
			fa, ok := ld.X.(*ssa.FieldAddr)
			if !ok || fieldName(fa.X.Type(), fa.Field) != "Raw" || !strings.HasSuffix(fa.X.Type().String(), "x509.Certificate") {
				return false
			}
		}
		return true
	}
	// Equal compares the complete encodings
	c.Evals++
	okEq := false
	for _, b := range eq.Blocks {
		if ret, ok := b.Instrs[len(b.Instrs)-1].(*ssa.Return); ok && len(ret.Results) == 1 {
			if call, ok := ret.Results[0].(*ssa.Call); ok && rawBoth(call) {
				okEq = true
			} else {
				okEq = false
				break
			}
		}
	}
	c.Check(okEq, rule, fname(eq), "Equal compares the complete DER encodings", "", "Certificate.Equal does not return bytes.Equal(c.Raw, other.Raw)", eq.Pos())
	// contains: true only through Equal (or the same comparison inline)
	c.Evals++
	cut := map[edge]bool{}
	nEq := 0
	for _, ifi := range ifsOf(f) {
		call, ok := ifi.Cond.(*ssa.Call)
		if !ok {
			continue
		}
		if call.Call.StaticCallee() == eq || rawBoth(call) {
			cut[edge{ifi.Block(), ifi.Block().Succs[0]}] = true
			nEq++
		}
	}
	spec := resultSpec{0, "bool"}
	r, _ := canReachSuccess(f.Blocks[0], nil, successExits(f, spec), cut)
	c.Check(nEq > 0 && !r, rule, fname(f), "answers true only when a pool entry Equals the certificate", "", "CertPool.contains can return true without Certificate.Equal having matched a pool entry (it compares less than the whole certificate): a certificate that merely shares a root's name and key is treated as that root, and distinct cross-certificates are dropped as duplicates", f.Pos())
}

type leafVia struct {
	v   ssa.Value
	via *ssa.BasicBlock // the block the value was in when it entered the first join on its way (or the use block)
	to  *ssa.BasicBlock // the block of that join (nil when used directly)
}

// leafValuesUnder: the values that can flow into v through joins whose incoming edges are feasible under the
// assumptions in force (blocks in live, edges not in dead)
func leafValuesUnder(v ssa.Value, at, to *ssa.BasicBlock, live map[*ssa.BasicBlock]bool, dead map[edge]bool, seen map[ssa.Value]bool, out *[]leafVia) {
	if seen[v] {
		return
	}
	seen[v] = true
	if phi, ok := v.(*ssa.Phi); ok {
		for i, e := range phi.Edges {
			pred := phi.Block().Preds[i]
			if !live[pred] || dead[edge{pred, phi.Block()}] {
				continue
			}
			leafValuesUnder(e, pred, phi.Block(), live, dead, seen, out)
		}
		return
	}
	*out = append(*out, leafVia{v, at, to})
}

// nilKnownAt: v is the nil constant, or blk lies behind the nil edge of a test of v against nil
func nilKnownAt(f *ssa.Function, v ssa.Value, blk, to *ssa.BasicBlock) bool {
	if isNilConst(v) {
		return true
	}
	for _, ifi := range ifsOf(f) {
		bo, ok := ifi.Cond.(*ssa.BinOp)
		if !ok || !((bo.X == v && isNilConst(bo.Y)) || (bo.Y == v && isNilConst(bo.X))) {
			continue
		}
		var t *ssa.BasicBlock
		switch bo.Op {
		case token.NEQ:
			t = ifi.Block().Succs[1]
		case token.EQL:
			t = ifi.Block().Succs[0]
		default:
			continue
		}
		if len(t.Preds) == 1 && (t == blk || t.Dominates(blk)) {
			return true
		}
		// the value enters the join over the nil edge itself
		if to != nil && ifi.Block() == blk && t == to && ifi.Block().Succs[0] != ifi.Block().Succs[1] {
			return true
		}
	}
	return false
}

// c10ChainsNoError: a chain that verifies is reported without an error. For every return of buildChains / Verify whose
// first result is not the nil constant: assuming that result is non-empty (interval on its length), the return is either
// unreachable or every value that can flow into its error result over feasible edges is the nil constant. (Returning
// the chains found together with the error of the last candidate that failed makes callers reject a valid peer.)
func c10ChainsNoError(c *Ctx) {
	rule := "G-C10-verify"
	for _, name := range []string{"(*Certificate).buildChains", "(*Certificate).Verify"} {
		f := c.Fn("x509", name)
		if f == nil {
			c.Missing(rule, "x509."+name, "method", "not found")
			continue
		}
		ci := newCondIndex(f, allParamNames(f))
		n := 0
		bad := token.NoPos
		for _, b := range f.Blocks {
			ret, ok := b.Instrs[len(b.Instrs)-1].(*ssa.Return)
			if !ok || len(ret.Results) != 2 || isNilConst(ret.Results[0]) {
				continue
			}
			n++
			withLenAtLeast(ret.Results[0], 1, func() {
				dead := deadEdges(f)
				live := reach([]*ssa.BasicBlock{f.Blocks[0]}, dead)
				// edges ruled out by the assumption itself
				for _, ifi := range ifsOf(f) {
					if condEval == nil {
						break
					}
					if r, known := condEval(ifi.Cond); known {
						bb := ifi.Block()
						if r {
							dead[edge{bb, bb.Succs[1]}] = true
						} else {
							dead[edge{bb, bb.Succs[0]}] = true
						}
					}
				}
				if !live[b] {
					return
				}
				var leaves []leafVia
				leafValuesUnder(ret.Results[1], b, nil, live, dead, map[ssa.Value]bool{}, &leaves)
				for _, l := range leaves {
					if !nilKnownAt(f, l.v, l.via, l.to) {
						bad = ret.Pos()
					}
				}
			})
		}
		c.Evals += n * len(ci.conds)
		if n == 0 {
			c.Undecided(rule, fname(f), "chains found are reported without an error", "no return with a non-constant chains result", f.Pos())
			continue
		}
		c.Check(bad == token.NoPos, rule, fname(f), "chains found are reported without an error", fmt.Sprintf("%d return(s): with a non-empty chains result only nil can flow into the error result", n),
			"a return can carry a non-empty list of chains together with a non-nil error (the error of a candidate that failed): callers treat the certificate as invalid although a valid chain exists", bad)
	}
}

// withLenAtLeast: while fn runs, every comparison of len(target) — target identified as an SSA value, so joins need no
// stable name — with an integer constant is decided whenever len(target) >= lo decides it
func withLenAtLeast(target ssa.Value, lo int64, fn func()) {
	saved := condEval
	defer func() { condEval = saved }()
	isLen := func(v ssa.Value) bool {
		call, ok := v.(*ssa.Call)
		if !ok {
			return false
		}
		bi, ok := call.Call.Value.(*ssa.Builtin)
		return ok && bi.Name() == "len" && call.Call.Args[0] == target
	}
	condEval = func(v ssa.Value) (bool, bool) {
		bo, ok := v.(*ssa.BinOp)
		if !ok {
			if saved != nil {
				return saved(v)
			}
			return false, false
		}
		op := bo.Op
		var k int64
		if kk, isK := constInt(bo.Y); isK && isLen(bo.X) {
			k = kk
		} else if kk, isK := constInt(bo.X); isK && isLen(bo.Y) {
			k = kk
			switch op {
			case token.LSS:
				op = token.GTR
			case token.LEQ:
				op = token.GEQ
			case token.GTR:
				op = token.LSS
			case token.GEQ:
				op = token.LEQ
			}
		} else {
			if saved != nil {
				return saved(v)
			}
			return false, false
		}
		switch op {
		case token.EQL:
			if k < lo {
				return false, true
			}
		case token.NEQ:
			if k < lo {
				return true, true
			}
		case token.LSS: // len < k
			if lo >= k {
				return false, true
			}
		case token.LEQ:
			if lo > k {
				return false, true
			}
		case token.GTR: // len > k
			if lo > k {
				return true, true
			}
		case token.GEQ:
			if lo >= k {
				return true, true
			}
		}
		return false, false
	}
	fn()
}
