package main

// C20 — results do not depend on goroutine interleaving; shared objects are race-free

import (
	"fmt"
	"go/token"
	"go/types"
	"sort"
	"strings"

	"golang.org/x/tools/go/ssa"
)

func init() { register("C20", checkC20) }

var c20Pkgs = []string{"sm2", "sm3", "sm4", "sm4/padding", "x509", "pkcs12", "gmtls"}

func isInitFn(f *ssa.Function) bool {
	n := f.Name()
	return n == "init" || strings.HasPrefix(n, "init#")
}

// lockCallsBefore: a Lock/RLock call in f that dominates `in` with no Unlock/RUnlock between them
func heldLock(f *ssa.Function, in ssa.Instruction) (string, bool) {
	l := heldLockCall(f, in)
	if l == nil {
		return "", false
	}
	return calleeID(&l.Call), true
}

// lockObject: the object whose mutex field (or embedded mutex) the lock call locks
func lockObject(l *ssa.Call) ssa.Value {
	if len(l.Call.Args) == 0 {
		return nil
	}
	v := l.Call.Args[0]
	for {
		fa, ok := v.(*ssa.FieldAddr)
		if !ok {
			return v
		}
		v = fa.X
	}
}

func heldLockCall(f *ssa.Function, in ssa.Instruction) *ssa.Call {
	var locks, unlocks []*ssa.Call
	for _, ci := range allCalls(f) {
		call, ok := ci.(*ssa.Call)
		if !ok {
			continue
		}
		switch calleeID(&call.Call) {
		case "(*sync.Mutex).Lock", "(*sync.RWMutex).Lock", "(*sync.RWMutex).RLock":
			locks = append(locks, call)
		case "(*sync.Mutex).Unlock", "(*sync.RWMutex).Unlock", "(*sync.RWMutex).RUnlock":
			unlocks = append(unlocks, call)
		}
	}
	for _, l := range locks {
		if !instrDominates(l, in) {
			continue
		}
		released := false
		for _, u := range unlocks {
			if instrDominates(l, u) && instrReaches(u, in, nil) && !instrReaches(in, u, nil) {
				released = true
			}
			if instrDominates(l, u) && instrDominates(u, in) {
				released = true
			}
		}
		if !released {
			return l
		}
	}
	return nil
}

func checkC20(c *Ctx) {
	c.Decided = append(c.Decided,
		"L-GLOBALS: every write to package-level state outside package initialisation is enumerated: it must happen inside a sync.Once body, under a held mutex, or through sync/atomic; anything else is reported (known findings are the API-level globals sm4.IV)",
		"L-ONCE: state written by a sync.Once body is read only by that body, by methods of the state's own type (values of which are only handed out after the Once ran), or after a dominating call that runs the Once",
		"L-ATOMIC: a struct field that is accessed through sync/atomic anywhere is accessed through sync/atomic everywhere",
		"L-SHAREDSTATE: no stateful helper object (hash.Hash, cipher.Stream, cipher.BlockMode, bytes.Buffer) is stored in a structure reachable from the shared gmtls.Config — keys are kept as bytes and MAC / cipher objects are created per use",
		"L-GUARDED: the fields documented as protected by a mutex (Config.sessionTicketKeys, the LRU session cache, halfConn state, CertPool is immutable after construction) are only touched with that mutex held or in the constructors",
		"FX-C20-pure: the shared-object entry points (cipher.Block Encrypt/Decrypt, hash constructors and one-shot digests, sign/verify/encrypt/decrypt, certificate verification) write no memory reachable from their receiver or from package-level state")
	c.NotDec = append(c.NotDec, "linearisability of Conn.Read/Write/Close (lock order and activeCall protocol are crypto/tls's; only the atomic-access and guarded-field rules are decided)", "exported package variables that users may assign concurrently (x509.ContentEncryptionAlgorithm)")
	fx := getFX(c)
	// sync.Once bodies
	onceBodies := map[*ssa.Function]bool{}
	for _, pkg := range c20Pkgs {
		for _, f := range c.P.RepoFuncs(pkg) {
			for _, ci := range allCalls(f) {
				call, ok := ci.(*ssa.Call)
				if !ok || calleeID(&call.Call) != "(*sync.Once).Do" {
					continue
				}
				switch x := call.Call.Args[1].(type) {
				case *ssa.Function:
					onceBodies[x] = true
				case *ssa.MakeClosure:
					if fn, ok := x.Fn.(*ssa.Function); ok {
						onceBodies[fn] = true
					}
				}
			}
		}
	}
	// functions that can only run inside a Once body count as once-guarded: the bodies themselves, their anonymous
	// functions, and unexported, never address-taken functions all of whose static call sites are in such functions
	// (a function that is merely reachable from a body but also callable from elsewhere is NOT guarded)
	inOnce := map[*ssa.Function]bool{}
	buildCallIndex(c.P)
	for b := range onceBodies {
		inOnce[b] = true
	}
	for changed := true; changed; {
		changed = false
		for b := range onceBodies {
			for g := range staticReach(b, "") {
				if inOnce[g] {
					continue
				}
				ok := false
				if par := g.Parent(); par != nil && inOnce[par] {
					ok = true
				} else if g.Object() != nil && !g.Object().Exported() && !addrTaken[g] && len(callSiteIndex[g]) > 0 {
					ok = true
					for _, cs := range callSiteIndex[g] {
						if !inOnce[cs.Parent()] {
							ok = false
						}
					}
				}
				if ok {
					inOnce[g] = true
					changed = true
				}
			}
		}
	}
	nWrites := 0
	type gw struct {
		f    *ssa.Function
		in   ssa.Instruction
		g    string
		what string
	}
	var writes []gw
	seen := map[ssa.Value]bool{}
	for _, pkg := range c20Pkgs {
		for _, f := range c.P.RepoFuncs(pkg) {
			if isInitFn(f) || (f.Parent() != nil && isInitFn(f.Parent())) {
				continue
			}
			if strings.HasSuffix(c.P.relFile(f.Pos()), "_test.go") {
				continue
			}
			instrsOf(f, func(_ *ssa.BasicBlock, in ssa.Instruction) {
				var addr ssa.Value
				what := ""
				switch x := in.(type) {
				case *ssa.Store:
					if _, isAlloc := x.Addr.(*ssa.Alloc); isAlloc {
						return
					}
					addr, what = x.Addr, "store"
				case *ssa.MapUpdate:
					addr, what = x.Map, "map update"
				case *ssa.Call:
					if bi, ok := x.Call.Value.(*ssa.Builtin); ok {
						switch bi.Name() {
						case "copy":
							addr, what = x.Call.Args[0], "copy"
						case "append":
							if !appendIsFresh(x.Call.Args[0]) {
								addr, what = x.Call.Args[0], "append into spare capacity"
							}
						case "delete":
							addr, what = x.Call.Args[0], "delete"
						}
					}
				}
				if addr == nil {
					return
				}
				for r := range fx.trace(f, addr, 0, seen) {
					if r.Kind == rkGlobal && strings.HasPrefix(r.G, modPath) {
						writes = append(writes, gw{f, in, strings.TrimPrefix(r.G, modPath+"/"), what})
					}
				}
			})
		}
	}
	sort.Slice(writes, func(i, j int) bool {
		if fname(writes[i].f) != fname(writes[j].f) {
			return fname(writes[i].f) < fname(writes[j].f)
		}
		return writes[i].in.Pos() < writes[j].in.Pos()
	})
	ord := map[string]int{}
	for _, w := range writes {
		nWrites++
		c.Evals++
		k := fname(w.f) + "|" + w.g
		ord[k]++
		construct := fmt.Sprintf("%s of package variable %s #%d", w.what, w.g, ord[k])
		switch {
		case inOnce[w.f]:
			c.Holds("L-GLOBALS", fname(w.f), construct, "inside a sync.Once body", w.in.Pos())
		default:
			if lk, ok := heldLock(w.f, w.in); ok && !strings.HasSuffix(lk, ".RLock") {
				c.Holds("L-GLOBALS", fname(w.f), construct, "under "+lk, w.in.Pos())
			} else if why, ok := c20GlobalExempt[fname(w.f)+"|"+w.g]; ok {
				c.Notes = append(c.Notes, "exempt L-GLOBALS|"+fname(w.f)+"|"+construct+": "+why)
			} else {
				c.Violated("L-GLOBALS", fname(w.f), construct, "package-level state is written outside initialisation without a lock, a sync.Once or an atomic: concurrent callers race on it and results depend on the interleaving", w.in.Pos())
			}
		}
	}
	c.Notes = append(c.Notes, fmt.Sprintf("L-GLOBALS: %d writes to package-level state outside init", nWrites))
	c20InOnce = inOnce
	c20Once(c, onceBodies, inOnce)
	c20Atomic(c)
	c20Guarded(c)
	// package variables of type sync.Once and everything only Once bodies write
	onceState := map[string]bool{}
	for body := range onceBodies {
		for r := range fx.Writes(body) {
			if r.Kind == rkGlobal {
				onceState[r.G] = true
			}
		}
	}
	for _, pkg := range c20Pkgs {
		if sp := c.P.SSAPkg[pkg]; sp != nil {
			for name, m := range sp.Members {
				if g, ok := m.(*ssa.Global); ok && strings.HasSuffix(g.Type().String(), "sync.Once") {
					onceState[sp.Pkg.Path()+"."+name] = true
				}
			}
		}
	}
	c20Pure(c, onceState)
	c20Held(c)
	c20ConnFields(c)
	// Config.ticketKeys() hands the slice out under the read lock and callers read it after unlocking; Clone shares it
	sharedSliceImmutable(c, "L-PUBLISHED", "gmtls", "sessionTicketKeys", 4,
		"the published ticket-key slice is replaced as a whole, never written in place",
		"handshakes that obtained the slice through ticketKeys() read it without the lock, and clones of the Config share it: a rotation races with them and changes the keys of the clones")
	c20SharedStateful(c)
	c20KeyLog(c)
	// a key-agreement object holds per-handshake state (the peer's encipherment certificate, ephemeral keys): every
	// handshake gets a fresh one from the suite's constructor, never a package-level instance
	noGlobalAlias(c, "L-SHAREDSTATE", [][2]string{{"gmtls", "rsaKA"}, {"gmtls", "ecdheECDSAKA"}, {"gmtls", "ecdheRSAKA"}, {"gmtls", "ecdheGMKA"}, {"gmtls", "eccGMKA"}},
		"overlapping handshakes share one key-agreement object and overwrite each other's per-handshake fields")
}

// c20KeyLog: Config.KeyLogWriter is copied by Clone (and by GetConfigForClient patterns), so connections of DIFFERENT
// Config objects write to the same io.Writer. The write must therefore be serialised by a lock that all Configs share —
// a package-level mutex — not by a mutex that lives inside the Config.
func c20KeyLog(c *Ctx) {
	rule := "L-GUARDED"
	n := 0
	for _, f := range c.P.RepoFuncs("gmtls") {
		for _, ci := range allCalls(f) {
			call, ok := ci.(*ssa.Call)
			if !ok || !call.Call.IsInvoke() || call.Call.Method.Name() != "Write" {
				continue
			}
			ld, ok := call.Call.Value.(*ssa.UnOp)
			if !ok {
				continue
			}
			fa, ok := ld.X.(*ssa.FieldAddr)
			if !ok || fieldName(fa.X.Type(), fa.Field) != "KeyLogWriter" {
				continue
			}
			n++
			l := heldLockCall(f, call)
			global := false
			if l != nil {
				_, global = lockObject(l).(*ssa.Global)
			}
			c.Check(global, rule, fname(f), "writes to Config.KeyLogWriter are serialised by a package-level mutex", "", "the write to KeyLogWriter is not made under a lock shared by all Configs (a clone of the Config has its own mutex but the same writer): connections served through clones interleave and tear the key-log lines", call.Pos())
		}
	}
	if n == 0 {
		c.Undecided(rule, "gmtls", "writes to Config.KeyLogWriter", "none found", token.NoPos)
	}
}

// c20SharedStateful: a gmtls.Config is shared by every connection made from it. Any struct reachable from it through
// fields, slices, arrays, pointers and maps therefore must not hold a STATEFUL helper object — a hash.Hash,
// cipher.Stream, cipher.BlockMode or *bytes.Buffer — that connection code then drives: such an object is mutated by
// Write/Reset/XORKeyStream/CryptBlocks without any lock common to the connections. (Keys are stored as bytes and the
// HMAC / cipher objects are made per use.) Reported at the field; the interleaving is two connections on one Config.
func c20SharedStateful(c *Ctx) {
	rule := "L-SHAREDSTATE"
	cfgFn := c.Fn("gmtls", "(*Config).Clone")
	if cfgFn == nil {
		c.Missing(rule, "gmtls.(*Config).Clone", "method", "not found")
		return
	}
	cfgT := cfgFn.Params[0].Type().(*types.Pointer).Elem()
	stateful := func(t types.Type) string {
		s := t.String()
		switch s {
		case "hash.Hash", "crypto/cipher.Stream", "crypto/cipher.BlockMode", "*bytes.Buffer", "bytes.Buffer", "hash.Hash32", "hash.Hash64":
			return s
		}
		return ""
	}
	seen := map[string]bool{}
	n := 0
	var visit func(t types.Type, path string, depth int)
	visit = func(t types.Type, path string, depth int) {
		if depth > 8 {
			return
		}
		if what := stateful(t); what != "" {
			c.Violated(rule, "gmtls.Config", "stateful object at "+path, "a "+what+" is reachable from the shared Config at "+path+": every connection made from the Config drives the same object (Reset/Write/Sum, XORKeyStream, CryptBlocks) with no common lock, so concurrent handshakes corrupt each other's MACs or key streams", token.NoPos)
			return
		}
		switch u := t.(type) {
		case *types.Named:
			if u.Obj().Pkg() == nil || !strings.HasPrefix(u.Obj().Pkg().Path(), modPath) {
				return // library types other than the stateful ones above
			}
			if seen[u.String()] {
				return
			}
			seen[u.String()] = true
			visit(u.Underlying(), path, depth)
		case *types.Struct:
			for i := 0; i < u.NumFields(); i++ {
				n++
				visit(u.Field(i).Type(), path+"."+u.Field(i).Name(), depth+1)
			}
		case *types.Pointer:
			visit(u.Elem(), path, depth+1)
		case *types.Slice:
			visit(u.Elem(), path+"[]", depth+1)
		case *types.Array:
			visit(u.Elem(), path+"[]", depth+1)
		case *types.Map:
			visit(u.Elem(), path+"[]", depth+1)
		}
	}
	visit(cfgT, "Config", 0)
	if n < 20 {
		c.Undecided(rule, "gmtls.Config", "fields reachable from Config", fmt.Sprintf("only %d fields visited", n), token.NoPos)
		return
	}
	c.Holds(rule, "gmtls.Config", "no stateful hash/cipher object is reachable from the shared Config", fmt.Sprintf("%d fields of %d repository struct types visited", n, len(seen)), token.NoPos)
}

var c20GlobalExempt = map[string]string{
	"x509.RegisterHash|x509.hashes": "registration hook meant for package initialisation (mirrors crypto.RegisterHash, documented as init-time only); the library itself calls it only from init",
}

// c20Once: state initialised by a sync.Once is only read after the Once ran
func c20Once(c *Ctx, bodies map[*ssa.Function]bool, inOnce map[*ssa.Function]bool) {
	rule := "L-ONCE"
	fx := getFX(c)
	n := 0
	for body := range bodies {
		if !inRepo(body) {
			continue
		}
		// globals the body writes
		gl := map[string]bool{}
		for r := range fx.Writes(body) {
			if r.Kind == rkGlobal && strings.HasPrefix(r.G, modPath) {
				gl[r.G] = true
			}
		}
		if len(gl) == 0 {
			continue
		}
		// the functions that run this Once
		runners := map[*ssa.Function]bool{}
		pkg := body.Pkg
		if pkg == nil && body.Parent() != nil {
			pkg = body.Parent().Pkg
		}
		if pkg == nil {
			continue
		}
		pkgRel := rel(pkg.Pkg.Path())
		for _, f := range c.P.RepoFuncs(pkgRel) {
			for _, ci := range allCalls(f) {
				call, ok := ci.(*ssa.Call)
				if !ok || calleeID(&call.Call) != "(*sync.Once).Do" {
					continue
				}
				var fn *ssa.Function
				switch x := call.Call.Args[1].(type) {
				case *ssa.Function:
					fn = x
				case *ssa.MakeClosure:
					fn, _ = x.Fn.(*ssa.Function)
				}
				if fn == body {
					runners[f] = true
				}
			}
		}
		for g := range gl {
			gname := g[strings.LastIndex(g, ".")+1:]
			gv, _ := pkg.Members[gname].(*ssa.Global)
			if gv == nil {
				continue
			}
			gtype := gv.Type().(*types.Pointer).Elem().String()
			for _, f := range c.P.RepoFuncs(pkgRel) {
				if inOnce[f] || isInitFn(f) || strings.HasSuffix(c.P.relFile(f.Pos()), "_test.go") {
					continue
				}
				var reads []ssa.Instruction
				instrsOf(f, func(_ *ssa.BasicBlock, in ssa.Instruction) {
					for _, op := range in.Operands(nil) {
						if *op == ssa.Value(gv) {
							if st, isSt := in.(*ssa.Store); isSt && st.Addr == ssa.Value(gv) {
								continue
							}
							reads = append(reads, in)
						}
					}
				})
				if len(reads) == 0 {
					continue
				}
				n++
				c.Evals++
				construct := "reads " + gname + " only after its sync.Once ran"
				// methods of the state's own type: a value of that type exists only after initialisation
				if recv := f.Signature.Recv(); recv != nil && strings.TrimPrefix(recv.Type().String(), "*") == gtype {
					c.Holds(rule, fname(f), construct, "method of the once-initialised object's own type", reads[0].Pos())
					continue
				}
				okAll := true
				var bad ssa.Instruction
				for _, rd := range reads {
					okRd := false
					for _, ci := range allCalls(f) {
						call, isCall := ci.(*ssa.Call)
						if !isCall {
							continue
						}
						sc := call.Call.StaticCallee()
						runs := calleeID(&call.Call) == "(*sync.Once).Do" || (sc != nil && runners[sc])
						if runs && instrDominates(call, rd) {
							okRd = true
						}
					}
					if !okRd {
						okAll, bad = false, rd
					}
				}
				if okAll {
					c.Holds(rule, fname(f), construct, "every read is dominated by a call that runs the Once", reads[0].Pos())
					continue
				}
				// an unexported helper all of whose call sites come after the Once in their callers
				if callersRanOnce(c, f, runners, 0) {
					c.Holds(rule, fname(f), construct, "internal helper: every call site is dominated by a call that runs the Once (checked through its callers)", reads[0].Pos())
					continue
				}
				c.Violated(rule, fname(f), construct, gname+" is initialised lazily by a sync.Once, but this function reads it at "+c.P.pos(bad.Pos())+" without having run the Once: the first concurrent users race with the initialisation", bad.Pos())
			}
		}
	}
	if n == 0 {
		c.Undecided(rule, "repo", "once-initialised state", "no reader of once-initialised package state found", token.NoPos)
	}
}

// callersRanOnce: f is unexported and not address-taken, and at each of its call sites the caller has already run
// the Once (directly, or is itself such a helper, or is a method of the initialised type)
var c20InOnce map[*ssa.Function]bool

func callersRanOnce(c *Ctx, f *ssa.Function, runners map[*ssa.Function]bool, depth int) bool {
	if depth > 4 || f.Object() == nil || f.Object().Exported() {
		return false
	}
	buildCallIndex(c.P)
	if addrTaken[f] {
		return false
	}
	sites := callSiteIndex[f]
	if len(sites) == 0 {
		return false
	}
	for _, cs := range sites {
		caller := cs.Parent()
		ok := c20InOnce[caller] // called from inside the Once body: the initialisation is in progress on this goroutine
		for _, ci := range allCalls(caller) {
			call, isCall := ci.(*ssa.Call)
			if !isCall {
				continue
			}
			sc := call.Call.StaticCallee()
			if (calleeID(&call.Call) == "(*sync.Once).Do" || (sc != nil && runners[sc])) && instrDominates(call, cs) {
				ok = true
			}
		}
		if !ok {
			if recv := caller.Signature.Recv(); recv != nil && strings.Contains(recv.Type().String(), "sm2P256Curve") {
				ok = true // methods of the curve object: it only exists after P256Sm2()
			}
		}
		if !ok && !callersRanOnce(c, caller, runners, depth+1) {
			return false
		}
	}
	return true
}

// c20Atomic: fields touched by sync/atomic are never touched otherwise
// c20CheckThenAct: a decision taken on an atomic.Load of a field and then committed by atomic.Add/Store on the same field
// is not atomic as a whole — two goroutines can both pass the test and both commit (two Close calls both "set" the
// closed bit by adding 1, which clears it). The commit must be a CompareAndSwap; an Add/Store that follows a Load in
// the same function is accepted only when every path between them runs through the success edge of a CAS on that field.
func c20CheckThenAct(c *Ctx) {
	rule := "L-ATOMIC"
	fieldOf := func(ci ssa.CallInstruction) (string, bool) {
		if len(ci.Common().Args) == 0 {
			return "", false
		}
		fa, ok := ci.Common().Args[0].(*ssa.FieldAddr)
		if !ok {
			return "", false
		}
		return fa.X.Type().String() + "." + fieldName(fa.X.Type(), fa.Field), true
	}
	n := 0
	for _, pkg := range c20Pkgs {
		for _, f := range c.P.RepoFuncs(pkg) {
			var loads, mods []ssa.CallInstruction
			casOK := map[string][]ssa.Instruction{}
			for _, ci := range allCalls(f) {
				id := calleeID(ci.Common())
				if !strings.HasPrefix(id, "sync/atomic.") {
					continue
				}
				fld, ok := fieldOf(ci)
				if !ok {
					continue
				}
				switch {
				case strings.HasPrefix(id, "sync/atomic.Load"):
					loads = append(loads, ci)
				case strings.HasPrefix(id, "sync/atomic.Add"), strings.HasPrefix(id, "sync/atomic.Store"), strings.HasPrefix(id, "sync/atomic.Swap"):
					mods = append(mods, ci)
				case strings.HasPrefix(id, "sync/atomic.CompareAndSwap"):
					if call, isCall := ci.(*ssa.Call); isCall {
						for _, u := range *call.Referrers() {
							if ifi, isIf := u.(*ssa.If); isIf {
								t := ifi.Block().Succs[0]
								if len(t.Instrs) > 0 {
									casOK[fld] = append(casOK[fld], t.Instrs[0])
								}
							}
						}
					}
				}
			}
			for _, l := range loads {
				lf, _ := fieldOf(l)
				// the loaded value decides a branch?
				lv, isVal := l.(ssa.Value)
				if !isVal || !feedsBranch(lv, 0) {
					continue
				}
				for _, m := range mods {
					mf, _ := fieldOf(m)
					if mf != lf {
						continue
					}
					n++
					c.Evals++
					ok := !reachesAvoidingAll(l, m, casOK[lf])
					c.Check(ok, rule, fname(f), fmt.Sprintf("%s after a test of the same field is committed through CompareAndSwap #%d", strings.TrimPrefix(calleeID(m.Common()), "sync/atomic."), n), "", "the function tests an atomic.Load of "+lf+" and then modifies the field with "+calleeID(m.Common())+" on a path that does not pass the success edge of a CompareAndSwap: two goroutines can both pass the test and both commit (check-then-act), e.g. two Close calls clearing the closed bit again", m.Pos())
				}
			}
		}
	}
}

// feedsBranch: v reaches the condition of an If through arithmetic/comparison
func feedsBranch(v ssa.Value, d int) bool {
	if d > 4 || v.Referrers() == nil {
		return false
	}
	for _, u := range *v.Referrers() {
		switch x := u.(type) {
		case *ssa.If:
			return true
		case *ssa.BinOp:
			if feedsBranch(x, d+1) {
				return true
			}
		case *ssa.UnOp:
			if feedsBranch(x, d+1) {
				return true
			}
		}
	}
	return false
}

func c20Atomic(c *Ctx) {
	rule := "L-ATOMIC"
	c20CheckThenAct(c)
	type fkey struct {
		t string
		f int
	}
	atomicFields := map[fkey]string{}
	all := []*ssa.Function{}
	for _, pkg := range c20Pkgs {
		all = append(all, c.P.RepoFuncs(pkg)...)
	}
	for _, f := range all {
		for _, ci := range allCalls(f) {
			if !strings.HasPrefix(calleeID(ci.Common()), "sync/atomic.") {
				continue
			}
			if fa, ok := ci.Common().Args[0].(*ssa.FieldAddr); ok {
				atomicFields[fkey{fa.X.Type().String(), fa.Field}] = fieldName(fa.X.Type(), fa.Field)
			}
		}
	}
	if len(atomicFields) < 2 {
		c.Undecided(rule, "gmtls", "atomic fields", fmt.Sprintf("only %d fields accessed through sync/atomic found", len(atomicFields)), token.NoPos)
	}
	bad := map[fkey]ssa.Instruction{}
	count := map[fkey]int{}
	for _, f := range all {
		instrsOf(f, func(_ *ssa.BasicBlock, in ssa.Instruction) {
			fa, ok := in.(*ssa.FieldAddr)
			if !ok {
				return
			}
			k := fkey{fa.X.Type().String(), fa.Field}
			if _, isAtomic := atomicFields[k]; !isAtomic {
				return
			}
			for _, u := range *fa.Referrers() {
				count[k]++
				if call, ok := u.(ssa.CallInstruction); ok && strings.HasPrefix(calleeID(call.Common()), "sync/atomic.") {
					continue
				}
				if _, isDbg := u.(*ssa.DebugRef); isDbg {
					continue
				}
				bad[k] = u
			}
		})
	}
	var keys []fkey
	for k := range atomicFields {
		keys = append(keys, k)
	}
	sort.Slice(keys, func(i, j int) bool { return keys[i].t+atomicFields[keys[i]] < keys[j].t+atomicFields[keys[j]] })
	for _, k := range keys {
		c.Evals++
		tn := strings.TrimPrefix(k.t, "*"+modPath+"/")
		if b, isBad := bad[k]; isBad {
			c.Violated(rule, tn, "field "+atomicFields[k]+" is only accessed through sync/atomic", "the field is read or written directly at "+c.P.pos(b.Pos())+" although other code uses sync/atomic on it (a data race with those accesses)", b.Pos())
		} else {
			c.Holds(rule, tn, "field "+atomicFields[k]+" is only accessed through sync/atomic", fmt.Sprintf("%d accesses", count[k]), token.NoPos)
		}
	}
}

// c20Guarded: fields protected by a mutex are only touched with it held
func c20Guarded(c *Ctx) {
	rule := "L-GUARDED"
	type spec struct {
		pkg, typ, field string
		ctors           []string // functions that may touch the field of an object no other goroutine can see yet
		why             string
	}
	specs := []spec{
		{"gmtls", "Config", "sessionTicketKeys", []string{"(*Config).Clone"}, "Config.mutex"},
		{"gmtls", "lruSessionCache", "m", []string{"NewLRUClientSessionCache"}, "the embedded sync.Mutex"},
		{"gmtls", "lruSessionCache", "q", []string{"NewLRUClientSessionCache"}, "the embedded sync.Mutex"},
	}
	for _, sp := range specs {
		n := 0
		for _, f := range c.P.RepoFuncs(sp.pkg) {
			if strings.HasSuffix(c.P.relFile(f.Pos()), "_test.go") {
				continue
			}
			isCtor := false
			for _, cn := range sp.ctors {
				if fname(f) == sp.pkg+"."+cn || strings.HasSuffix(fname(f), "."+cn) {
					isCtor = true
				}
			}
			instrsOf(f, func(_ *ssa.BasicBlock, in ssa.Instruction) {
				fa, ok := in.(*ssa.FieldAddr)
				if !ok || fieldName(fa.X.Type(), fa.Field) != sp.field || !strings.HasSuffix(strings.TrimPrefix(fa.X.Type().String(), "*"), sp.pkg+"."+sp.typ) {
					return
				}
				n++
				c.Evals++
				construct := fmt.Sprintf("access #%d to %s.%s", n, sp.typ, sp.field)
				if isCtor {
					c.Holds(rule, fname(f), construct, "constructor: the object is not shared yet", fa.Pos())
					return
				}
				// a fresh object allocated in this function
				if al, ok := fa.X.(*ssa.Alloc); ok && al.Heap {
					c.Holds(rule, fname(f), construct, "fresh object allocated here", fa.Pos())
					return
				}
				if lc := heldLockCall(f, fa); lc != nil {
					lk := calleeID(&lc.Call)
					w := guardedWrite(fa)
					switch {
					case strings.HasSuffix(lk, ".RLock") && w != "" && lockObject(lc) == fa.X:
						c.Violated(rule, fname(f), construct, sp.typ+"."+sp.field+" is modified ("+w+") while only the READ lock is held: concurrent holders of the read lock race on it", fa.Pos())
						return
					case strings.HasSuffix(lk, ".RLock") && w != "":
						// a read lock on ANOTHER object does not cover this write: fall through to the other justifications
					default:
						c.Holds(rule, fname(f), construct, "under "+lk, fa.Pos())
						return
					}
				}
				// serverInit runs under serverInitOnce and writes the keys of a Config that is being set up
				if strings.HasSuffix(fname(f), "Config).serverInit") {
					c.Holds(rule, fname(f), construct, "runs inside Config.serverInitOnce", fa.Pos())
					return
				}
				c.Violated(rule, fname(f), construct, sp.typ+"."+sp.field+" is protected by "+sp.why+" but is accessed here without holding it", fa.Pos())
			})
		}
		if n == 0 {
			c.Undecided(rule, sp.pkg+"."+sp.typ, "accesses to "+sp.field, "none found", token.NoPos)
		}
	}
}

// c20Pure: shared-object entry points write nothing reachable from their receiver or from package state
func c20Pure(c *Ctx, onceState map[string]bool) {
	rule := "FX-C20-pure"
	fx := getFX(c)
	type ent struct{ pkg, name string }
	for _, e := range []ent{
		{"sm4", "(*Sm4Cipher).Encrypt"}, {"sm4", "(*Sm4Cipher).Decrypt"}, {"sm4", "(*Sm4Cipher).BlockSize"},
		{"sm3", "Sm3Sum"}, {"sm3", "New"},
		{"sm2", "Sm2Sign"}, {"sm2", "Sm2Verify"}, {"sm2", "Encrypt"}, {"sm2", "Decrypt"}, {"sm2", "(*PublicKey).Verify"}, {"sm2", "(*PrivateKey).Sign"}, {"sm2", "GenerateKey"},
		{"x509", "ParseCertificate"}, {"x509", "(*Certificate).Verify"}, {"x509", "(*Certificate).CheckSignature"}, {"x509", "ParsePKCS7"}, {"x509", "(*CertPool).findVerifiedParents"},
	} {
		f := c.Fn(e.pkg, e.name)
		if f == nil {
			c.Missing(rule, e.pkg+"."+e.name, "function", "not found")
			continue
		}
		c.Evals++
		var bad []string
		for r, w := range fx.Writes(f) {
			switch r.Kind {
			case rkGlobal:
				if strings.HasPrefix(r.G, modPath) {
					// the Once object itself and the state its body initialises are covered by L-ONCE
					if onceState[r.G] {
						continue
					}
					bad = append(bad, fx.describe(r, w))
				}
			case rkParam:
				if f.Signature.Recv() != nil && r.Idx == 0 {
					bad = append(bad, fx.describe(r, w))
				}
			}
		}
		sort.Strings(bad)
		if len(bad) == 0 {
			c.Holds(rule, fname(f), "writes neither its receiver nor package-level state", "effect summary over the static and interface call closure", f.Pos())
		} else {
			c.Violated(rule, fname(f), "writes neither its receiver nor package-level state", "two goroutines sharing the object (or the package) interfere: "+strings.Join(bad, "; "), f.Pos())
		}
	}
}

// guardedWrite: the access through this field address modifies the field or the object it refers to (a store, a
// map update or delete, an element store, or a mutating container/list method); "" for a pure read
func guardedWrite(fa *ssa.FieldAddr) string {
	for _, r := range *fa.Referrers() {
		switch x := r.(type) {
		case *ssa.Store:
			if x.Addr == ssa.Value(fa) {
				return "assignment"
			}
		case *ssa.UnOp:
			if x.Op != token.MUL {
				continue
			}
			for _, r2 := range *x.Referrers() {
				switch y := r2.(type) {
				case *ssa.MapUpdate:
					if y.Map == ssa.Value(x) {
						return "map update"
					}
				case *ssa.IndexAddr:
					for _, r3 := range *y.Referrers() {
						if st, ok := r3.(*ssa.Store); ok && st.Addr == ssa.Value(y) {
							return "element store"
						}
					}
				case *ssa.Call:
					if bi, ok := y.Call.Value.(*ssa.Builtin); ok && (bi.Name() == "delete" || bi.Name() == "clear") && len(y.Call.Args) > 0 && y.Call.Args[0] == ssa.Value(x) {
						return bi.Name()
					}
					if sc := y.Call.StaticCallee(); sc != nil && len(y.Call.Args) > 0 && y.Call.Args[0] == ssa.Value(x) && sc.Signature.Recv() != nil {
						if strings.Contains(sc.Signature.Recv().Type().String(), "container/list.List") {
							switch sc.Name() {
							case "Len", "Front", "Back":
							default:
								return "container/list." + sc.Name()
							}
						}
					}
				}
			}
		}
	}
	return ""
}

// c20Held: the record-layer routines that assume a half-connection lock are only reachable with it held:
// (*Conn).readRecord runs with c.in locked, (*Conn).writeRecordLocked and sendAlertLocked with c.out locked. Every
// static call site is either dominated by an un-released Lock of that half-connection, or lies in a function whose
// own call sites all satisfy this (checked up the call chain to the exported entry points).
// halfLocks: reasoning about the two half-connection mutexes of a Conn (c.in, c.out)
type halfLocks struct{ c *Ctx }

func (hl halfLocks) halfOf(l *ssa.Call) string {
	if len(l.Call.Args) == 0 {
		return ""
	}
	v := l.Call.Args[0]
	for {
		fa, ok := v.(*ssa.FieldAddr)
		if !ok {
			return ""
		}
		n := fieldName(fa.X.Type(), fa.Field)
		if n == "in" || n == "out" {
			if strings.HasSuffix(strings.TrimPrefix(fa.X.Type().String(), "*"), "gmtls.Conn") {
				return n
			}
		}
		v = fa.X
	}
}

// holds: at instruction `at` of g an un-released Lock of that half connection dominates
func (hl halfLocks) holds(g *ssa.Function, at ssa.Instruction, half string) bool {
	var locks, unlocks []*ssa.Call
	for _, ci := range allCalls(g) {
		call, ok := ci.(*ssa.Call)
		if !ok {
			continue
		}
		switch calleeID(&call.Call) {
		case "(*sync.Mutex).Lock":
			if hl.halfOf(call) == half {
				locks = append(locks, call)
			}
		case "(*sync.Mutex).Unlock":
			if hl.halfOf(call) == half {
				unlocks = append(unlocks, call)
			}
		}
	}
	for _, l := range locks {
		if !instrDominates(l, at) {
			continue
		}
		released := false
		for _, u := range unlocks {
			if instrDominates(l, u) && instrDominates(u, at) {
				released = true
			}
			if instrDominates(l, u) && instrReaches(u, at, nil) && !instrReaches(at, u, nil) {
				released = true
			}
		}
		if !released {
			return true
		}
	}
	return false
}

// callersHold: every static call site of f is made with the lock held, or lies in a function for which that is true
func (hl halfLocks) callersHold(f *ssa.Function, half string, depth int, seen map[*ssa.Function]bool) (bool, string) {
	c := hl.c
	if seen[f] {
		return true, "" // recursion: decided by the other call sites
	}
	seen[f] = true
	if depth > 8 {
		return false, "call chain too deep at " + fname(f)
	}
	sites := callSiteIndex[f]
	if addrTaken[f] {
		return false, fname(f) + " is used as a function value"
	}
	if len(sites) == 0 {
		return false, fname(f) + " has no caller in the repository and does not take the lock itself"
	}
	for _, cs := range sites {
		g := cs.Parent()
		if strings.HasSuffix(c.P.relFile(g.Pos()), "_test.go") {
			continue
		}
		if hl.holds(g, cs, half) {
			continue
		}
		if ok, why := hl.callersHold(g, half, depth+1, seen); !ok {
			if why == "" {
				why = fname(g)
			}
			return false, "reached from " + fname(g) + " at " + c.P.pos(cs.Pos()) + " without c." + half + " locked (" + why + ")"
		}
	}
	return true, ""
}

func c20Held(c *Ctx) {
	rule := "L-HELD"
	buildCallIndex(c.P)
	hl := halfLocks{c}
	check := func(f *ssa.Function, half string, depth int, seen map[*ssa.Function]bool) (bool, string) {
		return hl.callersHold(f, half, depth, seen)
	}
	for _, e := range []struct{ fn, half string }{
		{"(*Conn).readRecord", "in"},
		{"(*Conn).writeRecordLocked", "out"},
		{"(*Conn).sendAlertLocked", "out"},
	} {
		f := c.Fn("gmtls", e.fn)
		if f == nil {
			c.Missing(rule, "gmtls."+e.fn, "method", "not found")
			continue
		}
		c.Evals++
		ok, why := check(f, e.half, 0, map[*ssa.Function]bool{})
		c.Check(ok, rule, fname(f), "only reachable with c."+e.half+" locked", fmt.Sprintf("%d direct call sites", len(callSiteIndex[f])), "the routine updates the "+e.half+"-bound half connection (sequence number, cipher state, buffers) and assumes its mutex is held, but it is "+why+": concurrent Read/Write/Close calls race on the record state", f.Pos())
	}
}

// c20ConnFields: the Conn fields that the record layer documents as belonging to one half connection are only
// touched with that half's mutex held (in the function itself, or by every caller up the chain): close-notify state
// under c.out; the decrypted input, the raw input, the handshake buffer and the warning counter under c.in.
func c20ConnFields(c *Ctx) {
	rule := "L-GUARDED"
	buildCallIndex(c.P)
	hl := halfLocks{c}
	guarded := map[string]string{"closeNotifySent": "out", "closeNotifyErr": "out", "input": "in", "rawInput": "in", "hand": "in", "warnCount": "in"}
	n := map[string]int{}
	for _, f := range c.P.RepoFuncs("gmtls") {
		if strings.HasSuffix(c.P.relFile(f.Pos()), "_test.go") {
			continue
		}
		instrsOf(f, func(_ *ssa.BasicBlock, in ssa.Instruction) {
			fa, ok := in.(*ssa.FieldAddr)
			if !ok || !strings.HasSuffix(strings.TrimPrefix(fa.X.Type().String(), "*"), "gmtls.Conn") {
				return
			}
			name := fieldName(fa.X.Type(), fa.Field)
			half, ok := guarded[name]
			if !ok {
				return
			}
			n[name]++
			c.Evals++
			construct := fmt.Sprintf("access #%d to Conn.%s", n[name], name)
			if hl.holds(f, fa, half) {
				c.Holds(rule, fname(f), construct, "c."+half+" locked here", fa.Pos())
				return
			}
			if ok, why := hl.callersHold(f, half, 0, map[*ssa.Function]bool{}); ok {
				c.Holds(rule, fname(f), construct, "every caller holds c."+half, fa.Pos())
			} else {
				c.Violated(rule, fname(f), construct, "Conn."+name+" belongs to the c."+half+" half connection but is accessed here without that mutex ("+why+"): a concurrent Read/Write/Close observes or produces a state no sequential order allows", fa.Pos())
			}
		})
	}
	for name := range guarded {
		if n[name] == 0 {
			c.Undecided(rule, "gmtls.Conn", "accesses to "+name, "none found", token.NoPos)
		}
	}
}

// onceStateOf: package variables that are sync.Once objects or are written by the body of a sync.Once.Do call
func onceStateOf(c *Ctx) map[string]bool {
	fx := getFX(c)
	out := map[string]bool{}
	for f := range c.P.AllFns {
		if !inRepo(f) || f.Blocks == nil {
			continue
		}
		for _, ci := range allCalls(f) {
			if calleeID(ci.Common()) != "(*sync.Once).Do" || len(ci.Common().Args) < 2 {
				continue
			}
			var body *ssa.Function
			switch x := ci.Common().Args[1].(type) {
			case *ssa.Function:
				body = x
			case *ssa.MakeClosure:
				body, _ = x.Fn.(*ssa.Function)
			}
			if body == nil {
				continue
			}
			for r := range fx.Writes(body) {
				if r.Kind == rkGlobal {
					out[r.G] = true
				}
			}
		}
	}
	for _, sp := range c.P.SSAPkg {
		if sp == nil {
			continue
		}
		for name, m := range sp.Members {
			if g, ok := m.(*ssa.Global); ok && strings.HasSuffix(g.Type().String(), "sync.Once") {
				out[sp.Pkg.Path()+"."+name] = true
			}
		}
	}
	return out
}

// noGlobalWrites: the named functions write no package-level state of the module (state initialised under a sync.Once
// aside) — anything they keep across calls (a pooled buffer, a cache, a shared hasher) makes one call's result depend
// on other calls.
func noGlobalWrites(c *Ctx, rule string, ents [][2]string, consequence string) {
	fx := getFX(c)
	once := onceStateOf(c)
	for _, e := range ents {
		f := c.Fn(e[0], e[1])
		if f == nil {
			c.Missing(rule, e[0]+"."+e[1], "function", "not found")
			continue
		}
		c.Evals++
		var bad []string
		for r, w := range fx.Writes(f) {
			if r.Kind == rkGlobal && strings.HasPrefix(r.G, modPath) && !once[r.G] {
				bad = append(bad, fx.describe(r, w))
			}
		}
		sort.Strings(bad)
		c.Check(len(bad) == 0, rule, fname(f), "keeps no state across calls in package variables", "effect summary over the static and interface call closure", consequence+": "+strings.Join(bad, "; "), f.Pos())
	}
}

// noGlobalAlias: the results of the named constructors do not alias package-level state of the module: an object handed
// to one caller that shares memory with a package variable (a template state copied by value, slice headers included)
// shares it with every other object made the same way.
func noGlobalAlias(c *Ctx, rule string, ents [][2]string, consequence string) {
	fx := getFX(c)
	once := onceStateOf(c)
	for _, e := range ents {
		f := c.Fn(e[0], e[1])
		if f == nil {
			c.Missing(rule, e[0]+"."+e[1], "function", "not found")
			continue
		}
		c.Evals++
		var bad []string
		if s := fx.sum[f]; s != nil {
			for _, rs := range s.rets {
				for r := range rs {
					if r.Kind == rkGlobal && strings.HasPrefix(r.G, modPath) && !once[r.G] {
						bad = append(bad, r.String())
					}
				}
			}
		}
		sort.Strings(bad)
		bad = dedup(bad)
		c.Check(len(bad) == 0, rule, fname(f), "the result shares no memory with package variables", "", consequence+": the result may alias "+strings.Join(bad, ", "), f.Pos())
	}
}
