package main

// C15, second part: table and invariant rules that justify the explicit panics of the handshake code

import (
	"fmt"
	"go/ast"
	"go/token"
	"go/types"
	"os"
	"strings"

	"golang.org/x/tools/go/ssa"
)

type suiteRow struct {
	id, cipher, mac, aead string
	keyLen, macLen, ivLen int64
	ka                    string
	flags                 int64
	pos                   token.Pos
}

// c15SuiteRows reads the rows of the cipher-suite tables (positional composite literals)
func c15SuiteRows(c *Ctx) []suiteRow {
	pk := c.P.Pkgs["gmtls"]
	if pk == nil {
		return nil
	}
	var rows []suiteRow
	for _, name := range []string{"cipherSuites", "gmCipherSuites"} {
		e, _ := c.P.findVarInit("gmtls", name)
		cl, ok := e.(*ast.CompositeLit)
		if !ok {
			continue
		}
		for _, el := range cl.Elts {
			r, ok := el.(*ast.CompositeLit)
			if !ok || len(r.Elts) != 9 {
				continue
			}
			num := func(x ast.Expr) int64 {
				if tv, ok := pk.TypesInfo.Types[x]; ok && tv.Value != nil {
					if b, ok := constBig(tv.Value); ok {
						return b.Int64()
					}
				}
				return -1
			}
			id := func(x ast.Expr) string {
				if i, ok := x.(*ast.Ident); ok {
					return i.Name
				}
				return types.ExprString(x)
			}
			rows = append(rows, suiteRow{id: id(r.Elts[0]), keyLen: num(r.Elts[1]), macLen: num(r.Elts[2]), ivLen: num(r.Elts[3]), cipher: id(r.Elts[6]), mac: id(r.Elts[7]), aead: id(r.Elts[8]), ka: id(r.Elts[4]), flags: num(r.Elts[5]), pos: r.Pos()})
		}
	}
	return rows
}

// c15Suites: the lengths in every suite row are the ones its constructors accept (so their panic(err) branches are dead),
// and every `cipher` constructor returns one of the cipher kinds the record layer's type switches handle.
func c15Suites(c *Ctx) bool {
	rule := "K-C15-suites"
	rows := c15SuiteRows(c)
	if len(rows) < 20 {
		c.Undecided(rule, "gmtls.cipherSuites", "table", fmt.Sprintf("only %d rows read", len(rows)), token.NoPos)
		return false
	}
	okAll := true
	keyOK := map[string]func(k, iv int64) bool{
		"aeadAESGCM":           func(k, iv int64) bool { return (k == 16 || k == 32) && iv == 4 },
		"aeadChaCha20Poly1305": func(k, iv int64) bool { return k == 32 && iv == 12 },
		"aeadSM4GCM":           func(k, iv int64) bool { return k == 16 && iv == 4 },
		"cipherAES":            func(k, iv int64) bool { return (k == 16 || k == 32) && iv == 16 },
		"cipher3DES":           func(k, iv int64) bool { return k == 24 && iv == 8 },
		"cipherSM4":            func(k, iv int64) bool { return k == 16 && iv == 16 },
		"cipherRC4":            func(k, iv int64) bool { return k >= 1 && k <= 256 && iv == 0 },
	}
	for _, r := range rows {
		c.Evals++
		ctor := r.aead
		if ctor == "nil" {
			ctor = r.cipher
		}
		chk, known := keyOK[ctor]
		if !known {
			c.Violated(rule, "gmtls suite "+r.id, "constructor", "unknown cipher constructor "+ctor+": the record layer's cipher type switches and key lengths are not reviewed for it", r.pos)
			okAll = false
			continue
		}
		exactlyOne := (r.aead == "nil") != (r.cipher == "nil")
		macOK := (r.aead != "nil" && r.mac == "nil" && r.macLen == 0) || (r.aead == "nil" && r.mac != "nil" && r.macLen > 0)
		ok := chk(r.keyLen, r.ivLen) && exactlyOne && macOK
		if !ok {
			okAll = false
		}
		c.Check(ok, rule, "gmtls suite "+r.id, "key/IV/MAC lengths fit "+ctor, "", fmt.Sprintf("suite row has keyLen=%d macLen=%d ivLen=%d cipher=%s mac=%s aead=%s: the constructor would panic or the record layer would mis-frame", r.keyLen, r.macLen, r.ivLen, r.cipher, r.mac, r.aead), r.pos)
	}
	// cipher constructors return CBC modes or an RC4 stream; aead constructors return cipher.AEAD by their type
	for _, name := range []string{"cipherAES", "cipher3DES", "cipherSM4", "cipherRC4"} {
		f := c.Fn("gmtls", name)
		if f == nil {
			c.Missing(rule, "gmtls."+name, "function", "not found")
			okAll = false
			continue
		}
		ok := true
		bad := ""
		for _, b := range f.Blocks {
			ret, isRet := b.Instrs[len(b.Instrs)-1].(*ssa.Return)
			if !isRet {
				continue
			}
			v := ret.Results[0]
			for {
				switch x := v.(type) {
				case *ssa.MakeInterface:
					v = x.X
					continue
				case *ssa.ChangeInterface:
					v = x.X
					continue
				}
				break
			}
			kind := ""
			switch x := v.(type) {
			case *ssa.Call:
				switch calleeID(&x.Call) {
				case "crypto/cipher.NewCBCEncrypter", "crypto/cipher.NewCBCDecrypter":
					kind = "cbc"
				}
			case *ssa.Extract:
				if call, ok := x.Tuple.(*ssa.Call); ok && calleeID(&call.Call) == "crypto/rc4.NewCipher" {
					kind = "stream"
				}
			}
			if kind == "" {
				ok = false
				bad = c.P.pos(ret.Pos())
			}
		}
		if !ok {
			okAll = false
		}
		c.Check(ok, rule, fname(f), "returns a CBC mode or an RC4 stream", "", "a return at "+bad+" yields another kind of cipher: the record layer's `switch c := hc.cipher.(type)` has only the cases cipher.Stream, aead and cbcMode and panics otherwise", f.Pos())
	}
	return okAll
}

// c15Version: Conn.vers only ever holds a version the package implements.
func c15Version(c *Ctx, scope []*ssa.Function) bool {
	rule := "K-C15-version"
	known := map[int64]bool{}
	for _, n := range []string{"VersionGMSSL", "VersionSSL30", "VersionTLS10", "VersionTLS11", "VersionTLS12"} {
		if v, ok := pkgConst(c, "gmtls", n); ok {
			known[v] = true
		}
	}
	okAll := len(known) == 5
	mv := c.Fn("gmtls", "(*Config).mutualVersion")
	if mv == nil {
		c.Missing(rule, "gmtls.(*Config).mutualVersion", "method", "not found")
		return false
	}
	// every return with ok == true is entered only over `vers == K` edges with K an implemented version
	n := 0
	for _, b := range mv.Blocks {
		ret, isRet := b.Instrs[len(b.Instrs)-1].(*ssa.Return)
		if !isRet || len(ret.Results) != 2 {
			continue
		}
		if cb, isC := constBool(ret.Results[1]); isC && !cb {
			continue
		}
		n++
		c.Evals++
		v := ret.Results[0]
		ok := len(b.Preds) > 0
		for _, p := range b.Preds {
			ifi, isIf := lastIf(p)
			if !isIf || p.Succs[0] != b {
				ok = false
				break
			}
			bo, isBo := ifi.Cond.(*ssa.BinOp)
			if !isBo || bo.Op != token.EQL || bo.X != v {
				ok = false
				break
			}
			k, isK := constInt(bo.Y)
			if !isK || !known[k] {
				ok = false
				break
			}
		}
		if !ok && len(b.Preds) > 0 {
			// ... or over `element == vers` edges, the element taken from a package-level constant array all of whose
			// entries are implemented versions, which nothing in the package writes
			ok = true
			for _, p := range b.Preds {
				ifi, isIf := lastIf(p)
				if !isIf || p.Succs[0] != b {
					ok = false
					break
				}
				bo, isBo := ifi.Cond.(*ssa.BinOp)
				if !isBo || bo.Op != token.EQL {
					ok = false
					break
				}
				el := bo.X
				if bo.X == v {
					el = bo.Y
				} else if bo.Y != v {
					ok = false
					break
				}
				vals, isTab := constArrayElems(c, "gmtls", stripConvAll(el))
				if !isTab || len(vals) == 0 {
					ok = false
					break
				}
				for _, k := range vals {
					if !known[k] {
						ok = false
					}
				}
			}
		}
		if !ok {
			okAll = false
		}
		c.Check(ok, rule, fname(mv), fmt.Sprintf("accepting return #%d only for implemented versions", n), "reached only over `vers == K` edges, K in {GMSSL, SSL3.0, TLS1.0, TLS1.1, TLS1.2}", "mutualVersion can accept a version number that names no implemented protocol; prfAndHashForVersion panics on it", ret.Pos())
	}
	if n == 0 {
		c.Undecided(rule, fname(mv), "accepting returns", "none found", mv.Pos())
		okAll = false
	}
	// every store to Conn.vers is a constant implemented version or the first result of mutualVersion
	ns := 0
	for _, f := range scope {
		instrsOf(f, func(_ *ssa.BasicBlock, in ssa.Instruction) {
			st, ok := in.(*ssa.Store)
			if !ok {
				return
			}
			fa, ok := st.Addr.(*ssa.FieldAddr)
			if !ok || fieldName(fa.X.Type(), fa.Field) != "vers" || !strings.HasSuffix(fa.X.Type().String(), "gmtls.Conn") {
				return
			}
			ns++
			c.Evals++
			good := false
			if k, isK := constInt(st.Val); isK && known[k] {
				good = true
			}
			if ex, isEx := st.Val.(*ssa.Extract); isEx && ex.Index == 0 {
				if call, isCall := ex.Tuple.(*ssa.Call); isCall && call.Call.StaticCallee() == mv {
					good = true
				}
			}
			if !good {
				okAll = false
			}
			c.Check(good, rule, fname(f), fmt.Sprintf("store to Conn.vers at line %d", c.P.Fset.Position(st.Pos()).Line), "", "Conn.vers receives a value that is neither an implemented version constant nor the result of mutualVersion", st.Pos())
		})
	}
	if ns < 5 {
		c.Undecided(rule, "handshake closure", "stores to Conn.vers", fmt.Sprintf("only %d found", ns), token.NoPos)
		okAll = false
	}
	return okAll
}

// c15FinishedHash: finishedHash.Write feeds the MD5 pair whenever version < TLS 1.2: every constructor of a
// finishedHash whose version can be below TLS 1.2 must set both MD5 fields.
func c15FinishedHash(c *Ctx) {
	rule := "K-C15-finhash"
	tls12, _ := pkgConst(c, "gmtls", "VersionTLS12")
	n := 0
	for _, f := range c.P.RepoFuncs("gmtls") {
		instrsOf(f, func(_ *ssa.BasicBlock, in ssa.Instruction) {
			al, ok := in.(*ssa.Alloc)
			if !ok {
				return
			}
			pt, ok := al.Type().Underlying().(*types.Pointer)
			if !ok || !strings.HasSuffix(pt.Elem().String(), "gmtls.finishedHash") {
				return
			}
			fields := map[string]ssa.Value{}
			for _, u := range *al.Referrers() {
				fa, ok := u.(*ssa.FieldAddr)
				if !ok {
					continue
				}
				for _, u2 := range *fa.Referrers() {
					if st, ok := u2.(*ssa.Store); ok && st.Addr == ssa.Value(fa) {
						fields[fieldName(al.Type(), fa.Field)] = st.Val
					}
				}
			}
			if _, isLit := fields["prf"]; !isLit {
				return // not a constructor literal
			}
			n++
			c.Evals++
			needMD5 := true
			if k, isK := constInt(fields["version"]); isK && k >= tls12 {
				needMD5 = false
			}
			// version taken from a hash != 0 branch (TLS 1.2 suites) is handled by the literal that follows
			has := func(name string) bool {
				v, ok := fields[name]
				return ok && !isNilConst(v)
			}
			ok2 := !needMD5 || (has("clientMD5") && has("serverMD5"))
			if !ok2 {
				// the TLS 1.2 literal: `if hash != 0 { return finishedHash{hash.New(), hash.New(), nil, nil, ...} }`
				// is entered only when prfAndHashForVersion returned a non-zero hash, i.e. for TLS 1.2
				if ld := fields["version"]; ld != nil {
					if blk := al.Block(); blk != nil {
						for d := blk; d != nil; d = d.Idom() {
							if ifi, isIf := lastIf(d); isIf {
								if bo, isBo := ifi.Cond.(*ssa.BinOp); isBo && bo.Op == token.NEQ {
									if k, isK := constInt(bo.Y); isK && k == 0 && strings.HasSuffix(bo.X.Type().String(), "crypto.Hash") && d.Succs[0].Dominates(blk) {
										ok2 = true
									}
								}
							}
						}
					}
				}
			}
			c.Check(ok2, rule, fname(f), fmt.Sprintf("finishedHash literal #%d has its MD5 pair unless it is TLS 1.2 only", n), "", "a finishedHash whose version can be below TLS 1.2 (GMSSL is 0x0101) is built with nil MD5 hashes: finishedHash.Write dereferences them", al.Pos())
			// the PRF is called unconditionally by clientSum/serverSum (TLS 1.0 and later) and by the key derivation:
			// it may not be nil on any path that builds this literal
			c.Evals++
			prfNil := false
			var chk func(v ssa.Value, seen map[ssa.Value]bool)
			chk = func(v ssa.Value, seen map[ssa.Value]bool) {
				if seen[v] {
					return
				}
				seen[v] = true
				if isNilConst(v) {
					prfNil = true
				}
				if ph, ok := v.(*ssa.Phi); ok {
					for _, e := range ph.Edges {
						chk(e, seen)
					}
				}
			}
			chk(fields["prf"], map[ssa.Value]bool{})
			c.Check(!prfNil, rule, fname(f), fmt.Sprintf("finishedHash literal #%d has a PRF", n), "", "a finishedHash is built with a nil prf function (e.g. the variable assigned in an inner scope shadows the one used here): computing the Finished message for this version calls a nil function", al.Pos())
		})
	}
	if n < 3 {
		c.Undecided(rule, "gmtls", "finishedHash constructors", fmt.Sprintf("only %d literals found", n), token.NoPos)
	}
}

// typedErrorReturns: every non-nil value returned as result i of f is an interface made from a value of type tname
func typedErrorReturns(f *ssa.Function, i int, tname string) bool {
	if f == nil || f.Blocks == nil {
		return false
	}
	n := 0
	for _, b := range f.Blocks {
		ret, ok := b.Instrs[len(b.Instrs)-1].(*ssa.Return)
		if !ok {
			continue
		}
		v := unspill(ret.Results[i])
		if isNilConst(v) {
			continue
		}
		n++
		mi, ok := v.(*ssa.MakeInterface)
		if !ok || mi.X.Type().String() != tname {
			return false
		}
	}
	return n > 0
}

// filledNonNil: v is an element read from a local slice M = make([]T, len(Src)) that a range loop over Src fills
// completely with non-nil values (each iteration stores a successful parse result at the range index, and the
// only other ways out of the loop cannot reach `use`).
func filledNonNil(f *ssa.Function, v ssa.Value, use ssa.Instruction) (bool, string) {
	ld, ok := v.(*ssa.UnOp)
	if !ok || ld.Op != token.MUL {
		return false, "not an element load"
	}
	ia, ok := ld.X.(*ssa.IndexAddr)
	if !ok {
		return false, "not an element load"
	}
	var M *ssa.MakeSlice
	switch x := ia.X.(type) {
	case *ssa.MakeSlice:
		M = x
	case *ssa.Slice:
		M, _ = x.X.(*ssa.MakeSlice) // certs[1:]
	case *ssa.Call:
		// a repo function that only ever returns the nil slice: there are no elements
		if sc := x.Call.StaticCallee(); sc != nil && inRepo(sc) && sc.Blocks != nil {
			all, n := true, 0
			for _, b := range sc.Blocks {
				if ret, ok := b.Instrs[len(b.Instrs)-1].(*ssa.Return); ok && len(ret.Results) == 1 {
					n++
					if !isNilConst(ret.Results[0]) {
						all = false
					}
				}
			}
			if all && n > 0 {
				return true, "the slice comes from " + fname(sc) + ", which always returns nil (no elements)"
			}
		}
	}
	if M == nil {
		return false, "the slice is not a local make"
	}
	var src ssa.Value
	if !isLenOf(M.Len, func(x ssa.Value) bool { src = x; return true }) {
		return false, "the slice length is not len(source)"
	}
	// element stores
	var stores []*ssa.Store
	for _, u := range *M.Referrers() {
		ia2, ok := u.(*ssa.IndexAddr)
		if !ok {
			continue
		}
		for _, u2 := range *ia2.Referrers() {
			if st, ok := u2.(*ssa.Store); ok && st.Addr == ssa.Value(ia2) {
				stores = append(stores, st)
			}
		}
	}
	if len(stores) != 1 {
		return false, fmt.Sprintf("%d element stores (expected one fill loop)", len(stores))
	}
	st := stores[0]
	ex, ok := st.Val.(*ssa.Extract)
	if !ok || ex.Index != 0 {
		return false, "the stored element is not a call result"
	}
	call, ok := ex.Tuple.(*ssa.Call)
	if !ok || !nonNilOnSuccess(call.Call.StaticCallee(), 0, 0) {
		return false, "the stored element is not the result of a parse that returns non-nil on success"
	}
	storeAfterTest := errTestedNil(call, st)
	// the fill loop: a range loop over src whose index is the store index
	idx := st.Addr.(*ssa.IndexAddr).Index
	inc, ok := idx.(*ssa.BinOp)
	if !ok || inc.Op != token.ADD {
		return false, "the store index is not a range index"
	}
	phi, ok := inc.X.(*ssa.Phi)
	if !ok {
		return false, "the store index is not a range index"
	}
	if iv, ok := inductionOf(phi); !ok || iv.init != -1 || iv.step != 1 {
		return false, "the store index is not a range index"
	}
	h := phi.Block()
	ifi, ok := lastIf(h)
	if !ok {
		return false, "no loop condition"
	}
	cmp, ok := ifi.Cond.(*ssa.BinOp)
	if !ok || cmp.Op != token.LSS || cmp.X != ssa.Value(inc) || !isLenOf(cmp.Y, func(x ssa.Value) bool { return lenBase(x) == lenBase(src) || sameFieldLoad(f, x, src) }) {
		return false, "the fill loop does not range over the whole source"
	}
	blocks := loopBlocks(h)
	for _, p := range h.Preds {
		if h.Dominates(p) && !(st.Block() == p || st.Block().Dominates(p)) {
			return false, "an iteration can complete without storing its element"
		}
		// the element is stored before the error test (`if certs[i], err = parse(); err != nil`): then every
		// completed iteration must have passed the nil edge of that test
		if h.Dominates(p) && !storeAfterTest && !errTestedNil(call, p.Instrs[len(p.Instrs)-1]) && !edgeIsNilEdge(call, p, h) {
			return false, "an iteration can complete although the parse failed"
		}
	}
	for b := range blocks {
		for si, s := range b.Succs {
			if blocks[s] || (b == h && si == 1) {
				continue
			}
			if reach([]*ssa.BasicBlock{s}, nil)[use.Block()] {
				return false, "the fill loop can be left early and still reach the use"
			}
		}
	}
	return true, "element of a slice completely filled with successfully parsed certificates"
}

// sameFieldLoad: a and b are loads of the same field of the same pointer value, and the function never stores to
// that field of any object of that type nor hands the pointer to a call
func sameFieldLoad(f *ssa.Function, a, b ssa.Value) bool {
	la, ok1 := a.(*ssa.UnOp)
	lb, ok2 := b.(*ssa.UnOp)
	if !ok1 || !ok2 || la.Op != token.MUL || lb.Op != token.MUL {
		return false
	}
	fa, ok1 := la.X.(*ssa.FieldAddr)
	fb, ok2 := lb.X.(*ssa.FieldAddr)
	if !ok1 || !ok2 || fa.X != fb.X || fa.Field != fb.Field {
		return false
	}
	clean := true
	instrsOf(f, func(_ *ssa.BasicBlock, in ssa.Instruction) {
		switch x := in.(type) {
		case *ssa.Store:
			if fx, ok := x.Addr.(*ssa.FieldAddr); ok && fx.Field == fa.Field && fx.X.Type() == fa.X.Type() {
				clean = false
			}
		case ssa.CallInstruction:
			for _, arg := range x.Common().Args {
				if arg == fa.X {
					// methods that only read the message (marshal) are fine
					if sc := x.Common().StaticCallee(); sc != nil && (sc.Name() == "marshal" || sc.Name() == "equal") {
						continue
					}
					clean = false
				}
			}
		}
	})
	return clean
}

// edgeIsNilEdge: the edge p->s is the `err == nil` outcome of a test of call's error result at the end of p
func edgeIsNilEdge(call *ssa.Call, p, s *ssa.BasicBlock) bool {
	ifi, ok := lastIf(p)
	if !ok {
		return false
	}
	bo, ok := ifi.Cond.(*ssa.BinOp)
	if !ok || !isNilConst(bo.Y) {
		return false
	}
	ex, ok := bo.X.(*ssa.Extract)
	if !ok || ex.Tuple != ssa.Value(call) || !isErrorType(ex.Type()) {
		return false
	}
	switch bo.Op {
	case token.NEQ:
		return p.Succs[1] == s && p.Succs[0] != s
	case token.EQL:
		return p.Succs[0] == s && p.Succs[1] != s
	}
	return false
}

// closureIsLive: some reachable block of the parent creates the closure
func closureIsLive(f *ssa.Function) bool {
	par := f.Parent()
	if par == nil {
		return true
	}
	live := false
	instrsOf(par, func(_ *ssa.BasicBlock, in ssa.Instruction) {
		if mc, ok := in.(*ssa.MakeClosure); ok && mc.Fn == ssa.Value(f) {
			live = true
		}
	})
	return live
}

// c15Panics: every explicit panic and single-value type assertion in the handshake closure is either justified by
// a rule of this property (named in the evidence) or exempted by name with the invariant that rules it out.
func c15Panics(c *Ctx, scope []*ssa.Function, completeOK, suitesOK, versionOK bool) {
	pre := c18PanicPreconditions(c, scope)
	byRule := map[string]struct {
		ok   bool
		rule string
	}{
		"(*gmtls.Conn).Handshake":              {completeOK, "G-C15-complete: every handshake function marks completion on each successful return, so handshakeErr == nil implies handshakeComplete()"},
		"(*gmtls.halfConn).decrypt":            {suitesOK, "K-C15-suites: the cipher kinds are fixed by the suite tables and covered by the type switch"},
		"(*gmtls.halfConn).encrypt":            {suitesOK, "K-C15-suites: the cipher kinds are fixed by the suite tables and covered by the type switch"},
		"(*gmtls.Conn).maxPayloadSizeForWrite": {suitesOK, "K-C15-suites: the cipher kinds are fixed by the suite tables and covered by the type switch"},
		"gmtls.aeadAESGCM":                     {suitesOK, "K-C15-suites: key and nonce lengths in the tables are the ones the constructor accepts"},
		"gmtls.aeadChaCha20Poly1305":           {suitesOK, "K-C15-suites: key and nonce lengths in the tables are the ones the constructor accepts"},
		"gmtls.aeadSM4GCM":                     {suitesOK, "K-C15-suites: key and nonce lengths in the tables are the ones the constructor accepts"},
		"gmtls.prfAndHashForVersion":           {versionOK, "K-C15-version: Conn.vers only holds implemented versions and GMSSL is dispatched before this function"},
	}
	exempt := map[string]string{
		"(*gmtls.halfConn).incSeq":                               "sequence number wrap-around after 2^64 records: by design a panic rather than nonce reuse (C07), not reachable by a handshake peer",
		"(*gmtls.clientHelloMsg).marshal":                        "ALPN protocol of length 0 or > 255 in the local Config.NextProtos: configuration error of the caller, not peer input",
		"(*gmtls.serverHelloMsg).marshal":                        "the selected ALPN protocol comes from Config.NextProtos or from a ClientHello extension whose one-byte length field bounds it to 1..255 (checked by clientHelloMsg.unmarshal)",
		"gmtls.pickSignatureAlgorithm":                           "internal table consistency: lookupTLSHash knows every scheme isSupportedSignatureAlgorithm accepts from the package's own supportedSignatureAlgorithms list",
		"(gmtls.finishedHash).hashForClientCertificate":          "ordering invariant inherited from crypto/tls: the handshake buffer is discarded only when no client certificate can follow (ClientAuth == NoClientCert, or no CertificateRequest was seen), and a CertificateVerify is only produced or processed when one was requested",
		"gmtls.newConstantTimeHash$1":                            "only applied to sha1.New, whose hash implements ConstantTimeSum (macSHA1)",
		"(*gmtls.ecdheKeyAgreement).processClientKeyExchange":    "curveForCurveID(ka.curveid) already succeeded in generateServerKeyExchange, which chose curveid from the supported list",
		"(*gmtls.ecdheKeyAgreement).generateClientKeyExchange":   "curveForCurveID(ka.curveid) already succeeded in processServerKeyExchange, which rejects unknown curves with an error",
		"(*gmtls.ecdheKeyAgreementGM).generateClientKeyExchange": "curveForCurveID(ka.curveid) already succeeded in processServerKeyExchange, which rejects unknown curves with an error",
	}
	chg := c.Fn("gmtls", "(*halfConn).changeCipherSpec")
	for _, f := range scope {
		if !closureIsLive(f) {
			continue
		}
		np, na := 0, 0
		instrsOf(f, func(_ *ssa.BasicBlock, in ssa.Instruction) {
			var construct, what string
			switch x := in.(type) {
			case *ssa.Panic:
				np++
				construct, what = fmt.Sprintf("explicit panic #%d", np), "an explicit panic is reachable in the handshake closure"
			case *ssa.TypeAssert:
				if x.CommaOk {
					if bad := uncheckedAssertDeref(f, x); bad != nil {
						na++
						c.Evals++
						c.Violated("B-PANIC", fname(f), fmt.Sprintf("unchecked type assertion #%d to %s is dereferenced", na, shortType(x.AssertedType)), "the ok result of the assertion is discarded and the value is dereferenced at "+c.P.pos(bad.Pos())+": a peer value of another dynamic type (e.g. a certificate with a different key type) makes this a nil dereference", x.Pos())
					}
					return
				}
				if _, ok := x.X.(*ssa.MakeInterface); ok {
					return
				}
				na++
				construct, what = fmt.Sprintf("single-value type assertion #%d to %s", na, shortType(x.AssertedType)), "a value of another dynamic type panics here"
				// err.(alert) on the result of a function that only ever returns alerts
				if call, ok := x.X.(*ssa.Call); ok && chg != nil && call.Call.StaticCallee() == chg && typedErrorReturns(chg, 0, x.AssertedType.String()) {
					c.Holds("B-PANIC", fname(f), construct, "the asserted value is the result of "+fname(chg)+", all of whose non-nil returns are of that type", x.Pos())
					return
				}
			default:
				return
			}
			c.Evals++
			name := fname(f)
			switch {
			case pre[name]:
				c.Holds("B-PANIC", name, construct, "precondition of an internal helper: established at every call site in the closure", in.Pos())
			case byRule[name].rule != "":
				c.Check(byRule[name].ok, "B-PANIC", name, construct, "unreachable by "+byRule[name].rule, "the rule that makes this panic unreachable does not hold ("+byRule[name].rule+")", in.Pos())
			case strings.HasSuffix(name, ".generateClientKeyExchange") && exempt[name] != "":
				c.Check(c15CurveGuard(c, f), "B-PANIC", name, construct, "unreachable: the function returns an error while ka.curveid is still zero (no ServerKeyExchange processed), and "+exempt[name], "with ka.curveid == 0 — a server that skips its ServerKeyExchange — this panic is reachable: curveForCurveID(0) fails and the client crashes instead of reporting the missing message", in.Pos())
			case exempt[name] != "":
				c.Notes = append(c.Notes, "exempt B-PANIC|"+name+"|"+construct+": "+exempt[name])
			default:
				c.Violated("B-PANIC", name, construct, what+": a misbehaving peer must get an error, not a crash", in.Pos())
			}
		})
	}
}

// c15Phase: readRecord hands a record's payload on (handshake buffer, application input, cipher change) only when
// the record type is the one the caller asked for; the single exception is a client with renegotiation enabled,
// which buffers a HelloRequest that arrives while it waits for application data.
func c15Phase(c *Ctx) {
	rule := "G-C15-phase"
	f := c.Fn("gmtls", "(*Conn).readRecord")
	if f == nil {
		c.Missing(rule, "gmtls.(*Conn).readRecord", "method", "not found")
		return
	}
	var typ, want ssa.Value
	for _, p := range f.Params {
		if pname(p) == "want" {
			want = p
		}
	}
	// typ := recordType(b.data[0])
	instrsOf(f, func(_ *ssa.BasicBlock, in ssa.Instruction) {
		if cv, ok := in.(*ssa.ChangeType); ok && strings.HasSuffix(cv.Type().String(), "gmtls.recordType") && typ == nil {
			typ = cv
		}
		if cv, ok := in.(*ssa.Convert); ok && strings.HasSuffix(cv.Type().String(), "gmtls.recordType") && typ == nil {
			typ = cv
		}
	})
	if typ == nil || want == nil {
		c.Undecided(rule, fname(f), "record type and wanted type", "not identified", f.Pos())
		return
	}
	// edges on which typ == want is known
	match := map[edge]bool{}
	mismatch := map[edge]bool{}
	for _, ifi := range ifsOf(f) {
		bo, ok := ifi.Cond.(*ssa.BinOp)
		if !ok || !((bo.X == typ && bo.Y == want) || (bo.X == want && bo.Y == typ)) {
			continue
		}
		b := ifi.Block()
		switch bo.Op {
		case token.NEQ:
			mismatch[edge{b, b.Succs[0]}], match[edge{b, b.Succs[1]}] = true, true
		case token.EQL:
			match[edge{b, b.Succs[0]}], mismatch[edge{b, b.Succs[1]}] = true, true
		}
	}
	type sink struct {
		in   ssa.Instruction
		name string
	}
	var sinks []sink
	instrsOf(f, func(_ *ssa.BasicBlock, in ssa.Instruction) {
		switch x := in.(type) {
		case *ssa.Store:
			if fa, ok := x.Addr.(*ssa.FieldAddr); ok && fieldName(fa.X.Type(), fa.Field) == "input" {
				sinks = append(sinks, sink{x, "application data handed to Read"})
			}
		case *ssa.Call:
			if sc := x.Call.StaticCallee(); sc != nil && sc.String() == "(*bytes.Buffer).Write" {
				sinks = append(sinks, sink{x, "handshake bytes buffered"})
			}
			if calleeNamed(x, "changeCipherSpec") {
				sinks = append(sinks, sink{x, "cipher change"})
			}
		}
	})
	if len(sinks) != 3 || len(match) < 3 {
		c.Undecided(rule, fname(f), "delivery points and type tests", fmt.Sprintf("%d delivery points, %d `typ == want` edges", len(sinks), len(match)), f.Pos())
		return
	}
	// the renegotiation exception: edges where c.isClient is true
	isClientEdge := map[edge]bool{}
	for _, ifi := range ifsOf(f) {
		if ld, ok := ifi.Cond.(*ssa.UnOp); ok && ld.Op == token.MUL {
			if fa, ok := ld.X.(*ssa.FieldAddr); ok && fieldName(fa.X.Type(), fa.Field) == "isClient" {
				isClientEdge[edge{ifi.Block(), ifi.Block().Succs[0]}] = true
			}
		}
	}
	for _, s := range sinks {
		c.Evals++
		// with every `typ == want` edge removed, the delivery must be unreachable from any `typ != want` edge ...
		cut := map[edge]bool{}
		for e := range match {
			cut[e] = true
		}
		allowClient := s.name == "handshake bytes buffered"
		if allowClient {
			for e := range isClientEdge {
				cut[e] = true // ... except through the client-renegotiation test
			}
		}
		reachable := false
		for e := range mismatch {
			if reach([]*ssa.BasicBlock{e.to}, cut)[s.in.Block()] {
				reachable = true
			}
		}
		// ... and must not be reachable at all without passing a type test of its own case
		var caseTests []edge
		for e := range match {
			if reach([]*ssa.BasicBlock{e.to}, nil)[s.in.Block()] {
				caseTests = append(caseTests, e)
			}
		}
		guarded := len(caseTests) > 0 || allowClient
		if guarded && !allowClient {
			// from the entry, cutting the match edges, the sink is unreachable
			if reach([]*ssa.BasicBlock{f.Blocks[0]}, cut)[s.in.Block()] {
				guarded = false
			}
		}
		if allowClient {
			if reach([]*ssa.BasicBlock{f.Blocks[0]}, cut)[s.in.Block()] {
				guarded = false
			}
		}
		c.Check(!reachable && guarded, rule, fname(f), s.name+" only for the record type the caller is waiting for", "", "a record of a type the caller is not waiting for (e.g. a handshake record where ChangeCipherSpec is due) can reach this delivery point", s.in.Pos())
	}
	// a handshake message may not straddle the cipher change: with unread handshake bytes pending (c.hand.Len() >= 1)
	// the cipher change is unreachable (decided on values through the interval evaluator)
	ci := newCondIndex(f, allParamNames(f))
	if os.Getenv("GMSMCHECK_DEBUG") != "" {
		for _, s := range ci.conds {
			if strings.Contains(s, "Len") {
				dbg("c15Phase cond %s", s)
			}
		}
	}
	for _, s := range sinks {
		if s.name != "cipher change" {
			continue
		}
		hit := false
		ci.withInterval("call:(*bytes.Buffer).Len(field:hand(c))", 1, 0, func() {
			hit = reach([]*ssa.BasicBlock{f.Blocks[0]}, deadEdges(f))[s.in.Block()]
		})
		c.Evals += len(ci.conds)
		c.Check(!hit, rule, fname(f), "no cipher change while part of a handshake message is still buffered", "with c.hand.Len() >= 1 the changeCipherSpec call is unreachable", "with unread handshake bytes pending the cipher change is still performed: a handshake message fragmented across ChangeCipherSpec is accepted, its tail read under the new keys", s.in.Pos())
	}
}

// c15CurveGuard: the "internal error" panic of a client key exchange is only dead when (a) the function refuses to
// run without a ServerKeyExchange (curveid still zero) and (b) processServerKeyExchange never succeeds with a curve
// curveForCurveID does not know. (a) is decided on values: assuming ka.curveid == 0, no panic block is reachable.
func c15CurveGuard(c *Ctx, f *ssa.Function) bool {
	var recv ssa.Value
	if len(f.Params) > 0 {
		recv = f.Params[0]
	}
	ci := newCondIndex(f, map[ssa.Value]string{recv: "ka"})
	if os.Getenv("GMSMCHECK_DEBUG") != "" {
		for _, s := range ci.conds {
			dbg("c15CurveGuard %s cond %s", fname(f), s)
		}
	}
	var hit *ssa.BasicBlock
	n := ci.withAssumptions([]assumption{{"eq(ka.curveid,0x0)", true}}, func() {
		for b := range reach([]*ssa.BasicBlock{f.Blocks[0]}, deadEdges(f)) {
			if _, ok := b.Instrs[len(b.Instrs)-1].(*ssa.Panic); ok {
				hit = b
			}
		}
	})
	c.Evals += len(ci.conds)
	_ = n
	return hit == nil
}

// c15Compression: a server only ever answers with null compression, so a ClientHello whose compression list does
// not contain it must abort. Decided on values: in every function that fixes the ServerHello's compressionMethod,
// assuming each comparison of an offered method with 0 fails, no successful return is reachable (the search may be a
// loop, a helper's boolean, or bytes.IndexByte — only the tests against the offered bytes are assumed).
func c15Compression(c *Ctx) {
	rule := "G-C15-compression"
	n := 0
	for _, f := range c.P.RepoFuncs("gmtls") {
		if strings.HasSuffix(c.P.relFile(f.Pos()), "_test.go") || f.Name() == "unmarshal" || f.Name() == "marshal" {
			continue
		}
		sets := false
		instrsOf(f, func(_ *ssa.BasicBlock, in ssa.Instruction) {
			if st, ok := in.(*ssa.Store); ok {
				if fa, ok := st.Addr.(*ssa.FieldAddr); ok && fieldName(fa.X.Type(), fa.Field) == "compressionMethod" {
					sets = true
				}
			}
		})
		if !sets {
			continue
		}
		spec, ok := defaultResultSpec(f)
		if !ok {
			continue
		}
		n++
		ci := newCondIndex(f, allParamNames(f))
		if os.Getenv("GMSMCHECK_DEBUG") != "" {
			for _, s := range ci.conds {
				if strings.Contains(s, "ompression") {
					dbg("c15Compression %s cond %s", fname(f), s)
				}
			}
		}
		ci.requireAssume(c, rule, "a ClientHello without null compression aborts", []assumption{
			{`re:eq\(idx\(.*compressionMethods.*\),(0x0|0)\)`, false},
			{`re:lt\(call:bytes\.IndexByte\(.*compressionMethods.*\),(0x0|0)\)`, true},
			{`re:eq\(call:bytes\.IndexByte\(.*compressionMethods.*\),-0x1\)`, true},
			{`re:call:bytes\.Contains\(.*compressionMethods.*\)`, false}}, spec, nil,
			"the server answers with null compression whether or not the client offered it")
	}
	for _, name := range []string{"(*clientHandshakeState).processServerHello", "(*clientHandshakeStateGM).processServerHello"} {
		f := c.Fn("gmtls", name)
		if f == nil {
			c.Missing(rule, "gmtls."+name, "method", "not found")
			continue
		}
		ci := newCondIndex(f, allParamNames(f))
		var r bool
		var w *ssa.BasicBlock
		ci.withInterval("hs.serverHello.compressionMethod", 1, 255, func() {
			r, w = canReachSuccess(f.Blocks[0], nil, successExits(f, resultSpec{1, "error"}), deadEdges(f))
		})
		c.Evals += len(ci.conds)
		construct := "a ServerHello selecting a compression method other than null aborts"
		if r {
			c.Violated(rule, fname(f), construct, "with compressionMethod in 1..255 the successful return at "+c.P.pos(lastPos(w))+" is reachable: the client carries on with a compression method it never offered and does not implement", lastPos(w))
		} else {
			c.Holds(rule, fname(f), construct, "with compressionMethod in 1..255 no successful return is reachable (decided on values)", f.Pos())
		}
	}
	if n < 4 {
		c.Undecided(rule, "gmtls", "functions that fix the ServerHello compression method", fmt.Sprintf("only %d found", n), token.NoPos)
	}
}

// c06SuiteFlags: the flags and key agreement of every row of the TLS suite table agree with what the suite's
// registered name says (the name IS the specification of the suite): _SHA384 suites use the SHA-384 PRF, ECDHE suites
// send a ServerKeyExchange, _ECDSA_ suites need an ECDSA certificate, AEAD and SHA-256 MAC suites exist from TLS 1.2 on.
// A row whose flags disagree negotiates fine against itself (both ends of this package read the same table) and fails
// or silently weakens against every other implementation.
func c06SuiteFlags(c *Ctx) {
	rule := "K-C06-suiteflags"
	rows := c15SuiteRows(c)
	flag := func(name string) int64 {
		pk := c.P.Pkgs["gmtls"]
		if pk == nil {
			return -1
		}
		if k, ok := pk.Types.Scope().Lookup(name).(*types.Const); ok {
			if b, ok := constBig(k.Val()); ok {
				return b.Int64()
			}
		}
		return -1
	}
	fECDHE, fECDSA, fTLS12, fSHA384 := flag("suiteECDHE"), flag("suiteECDSA"), flag("suiteTLS12"), flag("suiteSHA384")
	if len(rows) < 20 || fECDHE <= 0 || fECDSA <= 0 || fTLS12 <= 0 || fSHA384 <= 0 {
		c.Undecided(rule, "gmtls.cipherSuites", "table and flag constants", fmt.Sprintf("%d rows read", len(rows)), token.NoPos)
		return
	}
	for _, r := range rows {
		c.Evals++
		if r.flags < 0 {
			c.Undecided(rule, "gmtls suite "+r.id, "flags", "the flags are not a constant expression", r.pos)
			continue
		}
		var bad []string
		iff := func(nameSays bool, f int64, what string) {
			if nameSays != (r.flags&f != 0) {
				bad = append(bad, fmt.Sprintf("%s: the name says %v, the row says %v", what, nameSays, r.flags&f != 0))
			}
		}
		iff(strings.Contains(r.id, "ECDHE"), fECDHE, "suiteECDHE")
		if strings.HasPrefix(r.id, "TLS_") {
			iff(strings.HasSuffix(r.id, "_SHA384"), fSHA384, "suiteSHA384")
			iff(strings.Contains(r.id, "_ECDSA_"), fECDSA, "suiteECDSA")
			iff(r.aead != "nil" || r.mac == "macSHA256", fTLS12, "suiteTLS12")
			wantKA := "rsaKA"
			switch {
			case strings.HasPrefix(r.id, "TLS_ECDHE_RSA_"):
				wantKA = "ecdheRSAKA"
			case strings.HasPrefix(r.id, "TLS_ECDHE_ECDSA_"):
				wantKA = "ecdheECDSAKA"
			}
			if r.ka != wantKA {
				bad = append(bad, "key agreement "+r.ka+", the name says "+wantKA)
			}
		}
		c.Check(len(bad) == 0, rule, "gmtls suite "+r.id, "flags and key agreement agree with the registered name", "", strings.Join(bad, "; "), r.pos)
	}
}

// constArrayElems: v is an element of a package-level array variable (read directly or through the copy a range loop
// makes) whose initialiser is a literal of constants and that no function of the package stores into; returns the
// constants
func constArrayElems(c *Ctx, pkg string, v ssa.Value) ([]int64, bool) {
	var g *ssa.Global
	switch x := v.(type) {
	case *ssa.Index:
		if ld, ok := x.X.(*ssa.UnOp); ok && ld.Op == token.MUL {
			g, _ = ld.X.(*ssa.Global)
		}
	case *ssa.UnOp:
		if ia, ok := x.X.(*ssa.IndexAddr); ok && x.Op == token.MUL {
			g, _ = ia.X.(*ssa.Global)
		}
	}
	if g == nil {
		return nil, false
	}
	// never written outside its initialiser
	for _, f := range c.P.RepoFuncs(pkg) {
		if f.Name() == "init" {
			continue
		}
		written := false
		instrsOf(f, func(_ *ssa.BasicBlock, in ssa.Instruction) {
			st, ok := in.(*ssa.Store)
			if !ok {
				return
			}
			switch a := st.Addr.(type) {
			case *ssa.Global:
				if a == g {
					written = true
				}
			case *ssa.IndexAddr:
				if a.X == ssa.Value(g) {
					written = true
				}
			}
		})
		if written {
			return nil, false
		}
	}
	e, pk := c.P.findVarInit(pkg, g.Name())
	cl, ok := e.(*ast.CompositeLit)
	if !ok || pk == nil {
		return nil, false
	}
	var out []int64
	for _, el := range cl.Elts {
		tv, ok := pk.TypesInfo.Types[el]
		if !ok || tv.Value == nil {
			return nil, false
		}
		b, ok := constBig(tv.Value)
		if !ok {
			return nil, false
		}
		out = append(out, b.Int64())
	}
	return out, true
}
