package main

// C05 — SM4 block cipher is the GM/T 0002 permutation; decrypt is its inverse;
// history independence; key length check.

import (
	"fmt"
	"go/token"
	"go/types"
	"math/bits"
	"sort"
	"strings"

	"golang.org/x/tools/go/ssa"
)

func init() { register("C05", checkC05) }

// ---- GM/T 0002 reference, computed from the algebraic definition
// S(x) = A(inv(A(x))) with A(x)_i = parity(rotl8(0xA7,i) & x) ^ 0xD3 and inversion
// in GF(2^8) modulo x^8+x^7+x^6+x^5+x^4+x^2+1.

func gfMul(a, b int) int {
	r := 0
	for b > 0 {
		if b&1 == 1 {
			r ^= a
		}
		a <<= 1
		if a&0x100 != 0 {
			a ^= 0x1F5
		}
		b >>= 1
	}
	return r
}

func refSbox() [256]uint8 {
	var s [256]uint8
	aff := func(x int) int {
		y := 0
		for i := 0; i < 8; i++ {
			r := int(bits.RotateLeft8(0xA7, i))
			y |= (bits.OnesCount8(uint8(r&x)) & 1) << i
		}
		return y ^ 0xD3
	}
	inv := func(a int) int {
		if a == 0 {
			return 0
		}
		for x := 1; x < 256; x++ {
			if gfMul(a, x) == 1 {
				return x
			}
		}
		return 0
	}
	for x := 0; x < 256; x++ {
		s[x] = uint8(aff(inv(aff(x))))
	}
	return s
}

func refL(b uint32) uint32 {
	return b ^ bits.RotateLeft32(b, 2) ^ bits.RotateLeft32(b, 10) ^ bits.RotateLeft32(b, 18) ^ bits.RotateLeft32(b, 24)
}

var refFK = [4]uint32{0xa3b1bac6, 0x56aa3350, 0x677d9197, 0xb27022dc}

func refCK(i int) uint32 {
	var v uint32
	for j := 0; j < 4; j++ {
		v = v<<8 | uint32(((4*i+j)*7)%256)
	}
	return v
}

func checkC05(c *Ctx) {
	defer retainedParams(c, "FX-C11-retain", "sm4")

	c.Decided = append(c.Decided,
		"K-C05: S-box = GM/T 0002 S-box (all 256 entries, reference computed algebraically in the checker); T-tables T_k[x] = L(S(x)<<8k) (4x256 entries); CK (32), FK (4); key-schedule linear transform uses rotations {13,23}; tau places S(byte k) at byte k",
		"K-C05-wiring: in the block routine every T-table lookup is indexed by its own byte lane of one word x, x = xor of the three other state words and one round key, result xored into the remaining word (32 rounds enumerated over the unrolled loops)",
		"T-C05-keyorder: encryption uses round key r in round r, decryption 31-r; final reverse transform R",
		"G-C05-keylen: NewCipher returns an error unless len(key)==16, before the key schedule runs",
		"FX-C05-pure: Encrypt/Decrypt write nothing reachable from the receiver (history independence, shared-object safety)",
		"G-C05-alias: all reads of src precede the first write to dst in the block routine (dst==src safe)",
		"K-C05-endian: block words are loaded/stored big-endian")
	c.NotDec = append(c.NotDec, "equality of the permutation with GM/T 0002 beyond tables, wiring, key order and endianness (numerical); this is a structural necessary condition, not a proof of the cipher")

	pk := c.P.Pkgs["sm4"]
	sp := c.P.SSAPkg["sm4"]
	tabs := pkgTables(pk)
	sref := refSbox()

	// --- K-C05-sbox: identify by shape: 256 entries of 8-bit type
	var sboxT *kTable
	tlane := map[string]int{} // table name -> lane
	for i := range tabs {
		t := &tabs[i]
		if len(t.Rows) != 1 || len(t.Rows[0]) != 256 {
			continue
		}
		at, ok := t.Type.Underlying().(*types.Array)
		if !ok {
			continue
		}
		eb, _ := at.Elem().Underlying().(*types.Basic)
		if eb == nil {
			continue
		}
		switch eb.Kind() {
		case types.Uint8:
			sboxT = t
			bad := 0
			first := -1
			for x := 0; x < 256; x++ {
				c.Evals++
				if uint8(t.Rows[0][x].Uint64()) != sref[x] {
					bad++
					if first < 0 {
						first = x
					}
				}
			}
			c.Check(bad == 0, "K-C05-sbox", "sm4."+t.Name, "S-box[256]", "all 256 entries equal GM/T 0002",
				fmt.Sprintf("%d entries differ from GM/T 0002, first at index %d (have 0x%02x want 0x%02x)", bad, first, t.Rows[0][max0(first)].Uint64(), sref[max0(first)]), t.Pos)
		case types.Uint32:
			// a T-table: must be L(S(x)<<8k) for one k
			row := rowU32(t.Rows[0])
			lane := -1
			for k := 0; k < 4; k++ {
				if row[1] == refL(uint32(sref[1])<<(8*uint(k))) || row[0] == refL(uint32(sref[0])<<(8*uint(k))) {
					lane = k
					break
				}
			}
			if lane < 0 {
				c.Violated("K-C05-ttable", "sm4."+t.Name, "T-table[256]", "table matches L(S(x)<<8k) for no k at x=0,1", t.Pos)
				continue
			}
			bad, first := 0, -1
			for x := 0; x < 256; x++ {
				c.Evals++
				if row[x] != refL(uint32(sref[x])<<(8*uint(lane))) {
					bad++
					if first < 0 {
						first = x
					}
				}
			}
			tlane[t.Name] = lane
			c.Check(bad == 0, "K-C05-ttable", "sm4."+t.Name, "T-table[256]", fmt.Sprintf("all 256 entries equal L(S(x)<<%d)", 8*lane),
				fmt.Sprintf("%d entries differ from L(S(x)<<%d), first at x=%d (have %s want %s)", bad, 8*lane, first, hex32(row[max0(first)]), hex32(refL(uint32(sref[max0(first)])<<(8*uint(lane))))), t.Pos)
		}
	}
	if sboxT == nil {
		c.Missing("K-C05-sbox", "sm4", "S-box[256]", "no [256]uint8 table found in package sm4")
	}
	c.MinSites("K-C05-ttable", 4)

	// --- CK / FK: identify by use in the key schedule (globals indexed in functions reachable from NewCipher)
	newCipher := c.Fn("sm4", "NewCipher")
	if newCipher == nil {
		c.Missing("G-C05-keylen", "sm4.NewCipher", "function", "exported constructor not found")
		return
	}
	ksFuncs := staticReach(newCipher, "sm4")
	usedGlobals := map[string]bool{}
	for f := range ksFuncs {
		c.Analysed[fname(f)] = true
		instrsOf(f, func(_ *ssa.BasicBlock, in ssa.Instruction) {
			c.Evals++
			if ia, ok := in.(*ssa.IndexAddr); ok {
				if g := globalOf(ia.X); g != nil {
					usedGlobals[g.Name()] = true
				}
			}
			// `for i, c := range ck` reads the whole array once and indexes the copy
			if ld, ok := in.(*ssa.UnOp); ok && ld.Op == token.MUL {
				if g, isG := ld.X.(*ssa.Global); isG {
					if _, isArr := ld.Type().Underlying().(*types.Array); isArr {
						usedGlobals[g.Name()] = true
					}
				}
			}
		})
	}
	var ckSeen, fkSeen bool
	for i := range tabs {
		t := &tabs[i]
		if !usedGlobals[t.Name] || len(t.Rows) != 1 {
			continue
		}
		row := rowU32(t.Rows[0])
		switch len(row) {
		case 32:
			ckSeen = true
			bad := -1
			for j := 0; j < 32; j++ {
				c.Evals++
				if row[j] != refCK(j) && bad < 0 {
					bad = j
				}
			}
			c.Check(bad < 0, "K-C05-ck", "sm4."+t.Name, "CK[32]", "CK[i] bytes = (4i+j)*7 mod 256 for all 32 entries",
				fmt.Sprintf("CK[%d] = %s, GM/T 0002 value %s", bad, hex32(row[max0(bad)]), hex32(refCK(max0(bad)))), t.Pos)
		case 4:
			fkSeen = true
			bad := -1
			for j := 0; j < 4; j++ {
				c.Evals++
				if row[j] != refFK[j] && bad < 0 {
					bad = j
				}
			}
			c.Check(bad < 0, "K-C05-fk", "sm4."+t.Name, "FK[4]", "FK equals GM/T 0002",
				fmt.Sprintf("FK[%d] = %s, GM/T 0002 value %s", bad, hex32(row[max0(bad)]), hex32(refFK[max0(bad)])), t.Pos)
		case 256:
			// the S-box (checked above)
		}
	}
	if !ckSeen {
		c.Missing("K-C05-ck", "sm4", "CK[32]", "no 32-entry constant table is indexed by the key schedule reachable from NewCipher")
	}
	if !fkSeen {
		c.Missing("K-C05-fk", "sm4", "FK[4]", "no 4-entry constant table is indexed by the key schedule reachable from NewCipher")
	}

	// --- key schedule linear transform L' and tau in functions reachable from NewCipher
	c05KeySchedule(c, ksFuncs, sboxT)
	c05ScheduleOut(c)

	// --- G-C05-keylen
	c05KeyLen(c, newCipher, ksFuncs)

	// --- the block routine: function(s) reachable from Encrypt that index the T-tables
	enc := c.Fn("sm4", "(*Sm4Cipher).Encrypt")
	dec := c.Fn("sm4", "(*Sm4Cipher).Decrypt")
	if enc == nil || dec == nil {
		// find by interface: the concrete type returned by NewCipher
		c.Missing("K-C05-wiring", "sm4.(*Sm4Cipher).Encrypt/Decrypt", "methods", "cipher.Block methods not found")
		return
	}
	c05Wiring(c, sp, enc, dec, tlane)
	c05TableSites(c, tlane, ksFuncs)
	if n := narrowShift(c, "K-NARROW-shift", []string{"sm4"}); n >= 0 {
		c.Holds("K-NARROW-shift", "sm4", "no 8/16-bit value is shifted left by its width or more", fmt.Sprintf("%d narrow left shifts inspected", n), token.NoPos)
	}

	// --- FX-C05-pure
	fx := getFX(c)
	for _, m := range []*ssa.Function{enc, dec} {
		w := fx.Writes(m)
		bad := false
		for _, r := range sortedRoots(w) {
			if r.Kind == rkParam && r.Idx == 0 {
				bad = true
				c.Violated("FX-C05-pure", fname(m), "writes receiver "+r.String(),
					"Encrypt/Decrypt must not write memory reachable from the cipher object: "+fx.describe(r, w[r]), w[r].Pos)
			}
			if r.Kind == rkGlobal {
				bad = true
				c.Violated("FX-C05-pure", fname(m), "writes "+r.String(),
					"Encrypt/Decrypt must not write package-level state: "+fx.describe(r, w[r]), w[r].Pos)
			}
		}
		if !bad {
			c.Holds("FX-C05-pure", fname(m), "no write to receiver/global", "write set: "+rootsString(w), m.Pos())
		}
	}
}

func max0(i int) int {
	if i < 0 {
		return 0
	}
	return i
}

func rootsString(w map[root]witness) string {
	s := ""
	for _, r := range sortedRoots(w) {
		if s != "" {
			s += ", "
		}
		s += r.String()
	}
	if s == "" {
		s = "∅"
	}
	return s
}

var fxCache *FX

func getFX(c *Ctx) *FX {
	if fxCache == nil {
		fxCache = NewFX(c.P)
	}
	c.Evals += fxCache.Instrs / 50 // share of the summary computation attributed to this property
	return fxCache
}

// staticReach: functions of package pkg reachable from f through static calls.
func staticReach(f *ssa.Function, pkg string) map[*ssa.Function]bool {
	seen := map[*ssa.Function]bool{}
	var walk func(*ssa.Function)
	walk = func(g *ssa.Function) {
		if g == nil || seen[g] || g.Blocks == nil || !inRepo(g) {
			return
		}
		if pkg != "" && (g.Pkg == nil || rel(g.Pkg.Pkg.Path()) != pkg) {
			return
		}
		seen[g] = true
		for _, ci := range allCalls(g) {
			walk(ci.Common().StaticCallee())
		}
		for _, a := range g.AnonFuncs {
			walk(a)
		}
	}
	walk(f)
	return seen
}

// rotation recognition: rot(x, c) either math/bits.RotateLeft32 or a repo helper
// whose body is x<<(i%32) | x>>(32-i%32) (mod optional); returns (x, amount).
func rotlConst(v ssa.Value) (ssa.Value, int64, bool) {
	if call, ok := v.(*ssa.Call); ok {
		callee := call.Call.StaticCallee()
		if callee == nil {
			return nil, 0, false
		}
		args := call.Call.Args
		if callee.Signature.Recv() != nil && len(args) == 3 {
			args = args[1:] // method helper (sm3 style)
		}
		if len(args) != 2 {
			return nil, 0, false
		}
		amt, ok := constInt(args[1])
		if !ok {
			return nil, 0, false
		}
		if calleeID(&call.Call) == "math/bits.RotateLeft32" || isRotlHelper(callee) {
			return args[0], ((amt % 32) + 32) % 32, true
		}
		return nil, 0, false
	}
	// inline x<<c | x>>(32-c)
	if b, ok := v.(*ssa.BinOp); ok && (b.Op == token.OR || b.Op == token.XOR || b.Op == token.ADD) {
		l, lok := b.X.(*ssa.BinOp)
		r, rok := b.Y.(*ssa.BinOp)
		if lok && rok {
			if l.Op == token.SHR {
				l, r = r, l
			}
			if l.Op == token.SHL && r.Op == token.SHR && l.X == r.X {
				a, aok := constInt(l.Y)
				bb, bok := constInt(r.Y)
				if aok && bok && a+bb == 32 {
					return l.X, a, true
				}
			}
		}
	}
	return nil, 0, false
}

// rotlNested: rotations of rotations compose exactly — rot(rot(x,a),b) = rot(x,(a+b) mod 32); returns the innermost
// rotated value and the total amount.
func rotlNested(v ssa.Value) (ssa.Value, int64, bool) {
	x, amt, ok := rotlConst(v)
	if !ok {
		return nil, 0, false
	}
	for i := 0; i < 8; i++ {
		y, a, ok2 := rotlConst(x)
		if !ok2 {
			break
		}
		x, amt = y, (amt+a)%32
	}
	return x, amt, true
}

var rotlHelperCache = map[*ssa.Function]bool{}

// isRotlHelper: f(x, i) returns x<<(i[%32]) | x>>(32-i[%32]) on a 32-bit type.
func isRotlHelper(f *ssa.Function) bool {
	if v, ok := rotlHelperCache[f]; ok {
		return v
	}
	res := false
	defer func() { rotlHelperCache[f] = res }()
	if len(f.Blocks) != 1 {
		return false
	}
	params := f.Params
	if f.Signature.Recv() != nil {
		params = params[1:]
	}
	if len(params) != 2 {
		return false
	}
	x, amt := params[0], params[1]
	if b, ok := x.Type().Underlying().(*types.Basic); !ok || b.Kind() != types.Uint32 {
		return false
	}
	ret, ok := f.Blocks[0].Instrs[len(f.Blocks[0].Instrs)-1].(*ssa.Return)
	if !ok || len(ret.Results) != 1 {
		return false
	}
	or, ok := ret.Results[0].(*ssa.BinOp)
	if !ok || (or.Op != token.OR && or.Op != token.XOR && or.Op != token.ADD) {
		return false
	}
	l, lok := or.X.(*ssa.BinOp)
	r, rok := or.Y.(*ssa.BinOp)
	if !lok || !rok {
		return false
	}
	if l.Op == token.SHR {
		l, r = r, l
	}
	if l.Op != token.SHL || r.Op != token.SHR || l.X != ssa.Value(x) || r.X != ssa.Value(x) {
		return false
	}
	modded := 0
	isAmt := func(v ssa.Value) bool { // amt or amt%32
		v = stripConvAll(v)
		if v == ssa.Value(amt) {
			return true
		}
		if b, ok := v.(*ssa.BinOp); ok && (b.Op == token.REM || b.Op == token.AND) {
			if stripConvAll(b.X) == ssa.Value(amt) {
				if k, ok := constInt(b.Y); ok && ((b.Op == token.REM && k == 32) || (b.Op == token.AND && k == 31)) {
					modded++
					return true
				}
			}
		}
		return false
	}
	if !isAmt(l.Y) {
		return false
	}
	sub, ok := stripConvAll(r.Y).(*ssa.BinOp)
	if !ok || sub.Op != token.SUB {
		return false
	}
	if k, ok := constInt(sub.X); !ok || k != 32 {
		return false
	}
	if !isAmt(sub.Y) {
		return false
	}
	res = true
	rotlHelperMods[f] = modded == 2
	return true
}

func c05KeySchedule(c *Ctx, ks map[*ssa.Function]bool, sboxT *kTable) {
	var fs []*ssa.Function
	for f := range ks {
		fs = append(fs, f)
	}
	sort.Slice(fs, func(i, j int) bool { return fname(fs[i]) < fname(fs[j]) })
	foundL, foundTau := false, false
	for _, f := range fs {
		if len(f.Blocks) != 1 || len(f.Params) != 1 {
			continue
		}
		ret, ok := f.Blocks[0].Instrs[len(f.Blocks[0].Instrs)-1].(*ssa.Return)
		if !ok || len(ret.Results) != 1 {
			continue
		}
		leaves := opLeaves(ret.Results[0], token.XOR)
		// L' candidate: leaves are param and rotations of param
		var rots []int64
		ident, other := 0, 0
		for _, l := range leaves {
			if l == ssa.Value(f.Params[0]) {
				ident++
			} else if x, amt, ok := rotlNested(l); ok && x == ssa.Value(f.Params[0]) {
				if amt == 0 {
					ident++
				} else {
					rots = append(rots, amt)
				}
			} else {
				other++
			}
		}
		if other == 0 && len(rots) > 0 {
			foundL = true
			sort.Slice(rots, func(i, j int) bool { return rots[i] < rots[j] })
			ok := ident == 1 && len(rots) == 2 && rots[0] == 13 && rots[1] == 23
			c.Check(ok, "K-C05-lprime", fname(f), "key-schedule linear transform",
				"L'(B) = B ^ (B<<<13) ^ (B<<<23)", fmt.Sprintf("linear transform reachable from NewCipher has identity×%d and rotations %v; GM/T 0002 L' is B^(B<<<13)^(B<<<23)", ident, rots), f.Pos())
			continue
		}
		// tau candidate: 4 leaves each = uint32(sbox[lane k of param]) << 8k
		if len(leaves) == 4 {
			lanes := map[int]bool{}
			good := true
			for _, l := range leaves {
				sh := int64(0)
				v := l
				if b, ok := v.(*ssa.BinOp); ok && b.Op == token.SHL {
					k, ok := constInt(b.Y)
					if !ok {
						good = false
						break
					}
					sh = k
					v = b.X
				}
				base, idx, ok := loadOfIndex(stripConvAll(v))
				if !ok {
					good = false
					break
				}
				g := globalOf(base)
				if g == nil || sboxT == nil || g.Name() != sboxT.Name {
					good = false
					break
				}
				x, lane, ok := byteLane(idx)
				if !ok || x != ssa.Value(f.Params[0]) {
					good = false
					break
				}
				if int64(lane*8) != sh {
					c.Violated("K-C05-tau", fname(f), fmt.Sprintf("S(byte %d) placed at bit %d", lane, sh),
						"tau must put S(byte k of the input) back at byte k", l.Pos())
					good = false
					foundTau = true
					break
				}
				lanes[lane] = true
			}
			if good && len(lanes) == 4 {
				foundTau = true
				c.Holds("K-C05-tau", fname(f), "tau: four S-box lookups, byte k -> byte k", "", f.Pos())
			}
		}
	}
	if !foundL {
		c.Undecided("K-C05-lprime", "sm4 key schedule", "key-schedule linear transform", "no function of the form B^rot(B,·)^rot(B,·) reachable from NewCipher (idiom not recognised)", 0)
	}
	if !foundTau {
		c.Undecided("K-C05-tau", "sm4 key schedule", "tau", "no function made of four S-box lookups reachable from NewCipher (idiom not recognised)", 0)
	}
}

func c05KeyLen(c *Ctx, newCipher *ssa.Function, ks map[*ssa.Function]bool) {
	// atom: len(key) != 16 (any comparison form between len(param0) and const 16)
	// (i) failing edge cannot reach a nil-error return; (ii) with passing edge cut, no call into the key schedule / no success exit.
	spec, _ := defaultResultSpec(newCipher)
	ex := successExits(newCipher, spec)
	var atom *ssa.If
	var passSucc int
	instrsOf(newCipher, func(b *ssa.BasicBlock, in ssa.Instruction) {
		ifi, ok := in.(*ssa.If)
		if !ok {
			return
		}
		cmp, ok := ifi.Cond.(*ssa.BinOp)
		if !ok {
			return
		}
		isLenKey := func(v ssa.Value) bool {
			call, ok := v.(*ssa.Call)
			if !ok {
				return false
			}
			bi, ok := call.Call.Value.(*ssa.Builtin)
			return ok && bi.Name() == "len" && call.Call.Args[0] == ssa.Value(newCipher.Params[0])
		}
		var k int64
		var kok bool
		if isLenKey(cmp.X) {
			k, kok = constInt(cmp.Y)
		} else if isLenKey(cmp.Y) {
			k, kok = constInt(cmp.X)
		}
		if !kok || k != 16 {
			return
		}
		switch cmp.Op {
		case token.NEQ:
			atom, passSucc = ifi, 1
		case token.EQL:
			atom, passSucc = ifi, 0
		}
	})
	if atom == nil {
		// the test is not written as len(key) ==/!= 16 in NewCipher itself (another operator, or a helper): decided
		// on values — for each probe length other than 16 no successful return may be reachable, following error
		// results of repository helpers that receive the key
		var accepted []string
		for _, n := range []int64{0, 1, 8, 15, 17, 24, 31, 32, 33, 64} {
			if lenProbeSucceeds(newCipher, newCipher.Params[0], n, 0) {
				accepted = append(accepted, fmt.Sprint(n))
			}
		}
		ok16 := lenProbeSucceeds(newCipher, newCipher.Params[0], 16, 0)
		if len(accepted) == 0 && ok16 {
			c.Holds("G-C05-keylen", fname(newCipher), "len(key) == 16 guard", "for every probe length other than 16 no successful return is reachable (decided on values, following helpers that receive the key)", newCipher.Pos())
		} else if !ok16 {
			c.ViolatedHard("G-C05-keylen", fname(newCipher), "len(key) == 16 guard", "a 16-byte key cannot reach a successful return", newCipher.Pos())
		} else {
			c.ViolatedHard("G-C05-keylen", fname(newCipher), "len(key) == 16 guard", "keys of length "+strings.Join(accepted, ", ")+" bytes can reach a successful return: only 16-byte keys may be accepted", newCipher.Pos())
		}
		return
	}
	b := atom.Block()
	failSucc := b.Succs[1-passSucc]
	e := edge{b, failSucc}
	if ok, at := canReachSuccess(failSucc, &e, ex, nil); ok {
		c.Violated("G-C05-keylen", fname(newCipher), "len(key) == 16 guard", "the failing edge of the key-length test reaches a return with nil error at "+c.P.pos(at.Instrs[len(at.Instrs)-1].Pos()), atom.Cond.Pos())
		return
	}
	cut := map[edge]bool{{b, b.Succs[passSucc]}: true}
	if ok, at := canReachSuccess(newCipher.Blocks[0], nil, ex, cut); ok {
		c.Violated("G-C05-keylen", fname(newCipher), "len(key) == 16 guard", "a success return is reachable without passing the key-length test, at "+c.P.pos(at.Instrs[len(at.Instrs)-1].Pos()), atom.Cond.Pos())
		return
	}
	// the key schedule must not run before the guard
	seen := reach([]*ssa.BasicBlock{newCipher.Blocks[0]}, cut)
	for blk := range seen {
		for _, in := range blk.Instrs {
			if ci, ok := in.(ssa.CallInstruction); ok {
				if sc := ci.Common().StaticCallee(); sc != nil && ks[sc] && sc != newCipher {
					c.Violated("G-C05-keylen", fname(newCipher), "len(key) == 16 guard", "key schedule "+fname(sc)+" is callable without passing the key-length test", in.Pos())
					return
				}
			}
		}
	}
	c.Holds("G-C05-keylen", fname(newCipher), "len(key) == 16 guard", "rejects and cannot be bypassed", atom.Cond.Pos())
}

// c05Wiring: structure of the block routine.
func c05Wiring(c *Ctx, sp *ssa.Package, enc, dec *ssa.Function, tlane map[string]int) {
	// the block routine = function reachable from Encrypt that indexes T-tables
	var core *ssa.Function
	for f := range staticReach(enc, "sm4") {
		uses := false
		instrsOf(f, func(_ *ssa.BasicBlock, in ssa.Instruction) {
			if ia, ok := in.(*ssa.IndexAddr); ok {
				if g := globalOf(ia.X); g != nil {
					if _, ok := tlane[g.Name()]; ok {
						uses = true
					}
				}
			}
		})
		if uses {
			core = f
		}
	}
	if core == nil {
		c.Undecided("K-C05-wiring", fname(enc), "block routine", "no function reachable from Encrypt indexes the verified T-tables (round function in an unrecognised idiom)", enc.Pos())
		return
	}
	c.Analysed[fname(core)] = true
	// how Encrypt / Decrypt call it: same callee, differing in one constant bool argument
	var encCall, decCall *ssa.Call
	for _, ci := range allCalls(enc) {
		if ci.Common().StaticCallee() == core {
			encCall, _ = ci.(*ssa.Call)
		}
	}
	for _, ci := range allCalls(dec) {
		if ci.Common().StaticCallee() == core {
			decCall, _ = ci.(*ssa.Call)
		}
	}
	if encCall == nil || decCall == nil {
		c.Undecided("T-C05-keyorder", fname(core), "Encrypt/Decrypt dispatch", "Encrypt and Decrypt do not both call the block routine directly", core.Pos())
		return
	}
	flagIdx := -1
	for i := range encCall.Call.Args {
		eb, eok := constBool(encCall.Call.Args[i])
		db, dok := constBool(decCall.Call.Args[i])
		if eok && dok && eb != db {
			flagIdx = i
			if eb {
				// flag true = encrypt
				flagIdx = -2 - i
			}
		}
	}
	if flagIdx == -1 {
		c.Undecided("T-C05-keyorder", fname(core), "Encrypt/Decrypt dispatch", "no boolean argument distinguishes Encrypt from Decrypt", core.Pos())
		return
	}
	decWhenTrue := flagIdx >= 0
	if !decWhenTrue {
		flagIdx = -2 - flagIdx
	}
	flag := core.Params[flagIdx]
	// the subkeys argument must be the same receiver field in both
	// locate `if flag`
	var top *ssa.If
	instrsOf(core, func(_ *ssa.BasicBlock, in ssa.Instruction) {
		if ifi, ok := in.(*ssa.If); ok && ifi.Cond == ssa.Value(flag) {
			top = ifi
		}
	})
	if top == nil {
		c.Undecided("T-C05-keyorder", fname(core), "if decrypt", "the direction flag is not tested by a plain if", core.Pos())
		return
	}
	trueArm, falseArm := top.Block().Succs[0], top.Block().Succs[1]
	decArm, encArm := trueArm, falseArm
	if !decWhenTrue {
		decArm, encArm = falseArm, trueArm
	}
	// state slice param: the []uint32 param that is stored through; key param: []uint32 param that is sliced/loaded only
	okE := c05Arm(c, core, encArm, false, tlane)
	okD := c05Arm(c, core, decArm, true, tlane)
	_ = okE
	_ = okD
	c05Final(c, core, top)
}

// c05Arm enumerates the rounds of one arm.
func c05Arm(c *Ctx, core *ssa.Function, arm *ssa.BasicBlock, decrypt bool, tlane map[string]int) bool {
	dir := "encrypt"
	if decrypt {
		dir = "decrypt"
	}
	rule := "K-C05-wiring"
	// collect stores to state words in blocks dominated by arm, in block index order / instruction order
	type rstore struct {
		st   *ssa.Store
		word int64
		base ssa.Value
	}
	var stores []rstore
	var ind *induction
	for _, b := range core.Blocks {
		if !arm.Dominates(b) {
			continue
		}
		for _, in := range b.Instrs {
			c.Evals++
			if phi, ok := in.(*ssa.Phi); ok {
				if iv, ok := inductionOf(phi); ok {
					ivc := iv
					ind = &ivc
				}
			}
			st, ok := in.(*ssa.Store)
			if !ok {
				continue
			}
			ia, ok := st.Addr.(*ssa.IndexAddr)
			if !ok {
				continue
			}
			w, ok := constInt(ia.Index)
			if !ok {
				continue
			}
			// the state words: a []uint32 (or array of uint32) held in one value — a parameter or a local scratch array
			if !isUint32Seq(ia.X.Type()) {
				continue
			}
			if len(stores) > 0 && stores[0].base != ia.X {
				continue
			}
			stores = append(stores, rstore{st, w, ia.X})
		}
	}
	if ind == nil || len(stores) == 0 {
		c.Undecided(rule, fname(core), dir+" arm", "no counted loop with stores to the state words found (round loop in an unrecognised idiom)", arm.Instrs[0].Pos())
		return false
	}
	bound, ok := loopBound(*ind)
	if !ok || ind.step <= 0 {
		c.Undecided(rule, fname(core), dir+" arm", "loop bound not a constant comparison on the induction variable", ind.phi.Pos())
		return false
	}
	state := stores[0].base
	round := 0
	allOK := true
	for i := ind.init; i < bound; i += ind.step {
		env := map[ssa.Value]int64{ind.phi: i}
		for _, rs := range stores {
			r := round
			round++
			if r >= 32 {
				continue
			}
			construct := fmt.Sprintf("%s round body #%d", dir, r%len(stores))
			if rs.word != int64(r%4) {
				c.Violated(rule, fname(core), construct, fmt.Sprintf("round %d updates state word %d, expected word %d", r, rs.word, r%4), rs.st.Pos())
				allOK = false
				continue
			}
			leaves := opLeaves(rs.st.Val, token.XOR)
			var x ssa.Value
			lanes := map[int]bool{}
			selfLoads := 0
			bad := ""
			for _, l := range leaves {
				base, idx, ok := loadOfIndex(l)
				if !ok {
					bad = "a term of the round update is neither a state word nor a table lookup"
					break
				}
				if base == state {
					if w, ok := constInt(idx); ok && w == rs.word {
						selfLoads++
						continue
					}
					bad = "round update xors a different state word into the target"
					break
				}
				g := globalOf(base)
				if g == nil {
					bad = "lookup in something that is not a package-level table"
					break
				}
				lane, isT := tlane[g.Name()]
				if !isT {
					bad = "lookup in table " + g.Name() + " which is not a verified T-table"
					break
				}
				xx, k, ok := byteLane(idx)
				if !ok {
					bad = "T-table index is not a byte lane of a word"
					break
				}
				if k != lane {
					bad = fmt.Sprintf("table %s = L(S(x)<<%d) is indexed with byte %d of the word (must be byte %d)", g.Name(), 8*lane, k, lane)
					break
				}
				if x == nil {
					x = xx
				} else if x != xx {
					bad = "the four lookups do not index with the same word"
					break
				}
				if lanes[lane] {
					bad = fmt.Sprintf("byte lane %d looked up twice", lane)
					break
				}
				lanes[lane] = true
			}
			if bad == "" && (len(lanes) != 4 || selfLoads != 1) {
				bad = fmt.Sprintf("round update has %d table lookups and %d loads of the target word (need 4 and 1)", len(lanes), selfLoads)
			}
			if bad != "" {
				c.Violated(rule, fname(core), construct, bad, rs.st.Pos())
				allOK = false
				continue
			}
			// x = xor of three other words and one key
			xl := opLeaves(x, token.XOR)
			words := map[int64]bool{}
			var keyIdx int64 = -1
			keyOK := true
			for _, l := range xl {
				base, idx, ok := loadOfIndex(l)
				if !ok {
					keyOK = false
					bad = "a term of the round input is not a load"
					break
				}
				if base == state {
					w, ok := constInt(idx)
					if !ok {
						keyOK = false
						break
					}
					words[w] = true
					continue
				}
				// key: load of slice(subkeys, low)[j] or subkeys[expr]
				a := affineOf(idx)
				if sl, ok := base.(*ssa.Slice); ok && sl.Low != nil {
					a = affAdd(affineOf(sl.Low), a, 1)
					base = sl.X
				}
				if _, isParam := base.(*ssa.Parameter); !isParam {
					keyOK = false
					bad = "round key does not come from the round-key parameter"
					break
				}
				v, ok := a.eval(env)
				if !ok || keyIdx >= 0 {
					keyOK = false
					bad = "round key index is not an affine function of the loop counter (or two keys used)"
					break
				}
				keyIdx = v
			}
			if keyOK && (len(words) != 3 || words[rs.word]) {
				keyOK = false
				bad = fmt.Sprintf("round input must xor the three other state words; uses words %v for target %d", keysOf(words), rs.word)
			}
			if !keyOK {
				c.Violated(rule, fname(core), construct, bad, rs.st.Pos())
				allOK = false
				continue
			}
			c.Holds(rule, fname(core), construct, "X_{r+4} = X_r ^ T(X_{r+1}^X_{r+2}^X_{r+3}^rk), lanes matched", rs.st.Pos())
			want := int64(r)
			if decrypt {
				want = int64(31 - r)
			}
			c.Check(keyIdx == want, "T-C05-keyorder", fname(core), fmt.Sprintf("%s round key order, body #%d", dir, r%len(stores)),
				"round r uses rk[r] (encrypt) / rk[31-r] (decrypt)", fmt.Sprintf("%s round %d uses round key %d, expected %d", dir, r, keyIdx, want), rs.st.Pos())
		}
	}
	if round != 32 {
		c.Violated(rule, fname(core), dir+" round count", fmt.Sprintf("%d rounds enumerated, GM/T 0002 has 32", round), ind.phi.Pos())
		allOK = false
	} else {
		c.Holds(rule, fname(core), dir+" round count", "32 rounds", ind.phi.Pos())
	}
	return allOK
}

func keysOf(m map[int64]bool) []int64 {
	var out []int64
	for k := range m {
		out = append(out, k)
	}
	sort.Slice(out, func(i, j int) bool { return out[i] < out[j] })
	return out
}

// c05Final: after the rounds: reverse transform, src-before-dst ordering, endianness helpers.
func c05Final(c *Ctx, core *ssa.Function, top *ssa.If) {
	// the block of the reverse transform: outside every loop, on the way to every return, holding four stores
	// state[j] = (load of state[k]) with constant j, k on one base — wherever the state lives (a parameter, a local
	// array) and however the rounds before it are arranged (two arms, one merged loop)
	inLoop := map[*ssa.BasicBlock]bool{}
	for _, h := range loopHeaders(core) {
		for b := range loopBlocks(h) {
			inLoop[b] = true
		}
	}
	var join *ssa.BasicBlock
	mapping := map[int64]int64{}
	firstStore := -1
	lastLoad := -1
	for _, cand := range core.Blocks {
		if inLoop[cand] {
			continue
		}
		onWay := true
		for _, rb := range core.Blocks {
			if _, isRet := rb.Instrs[len(rb.Instrs)-1].(*ssa.Return); isRet && rb != cand && !cand.Dominates(rb) {
				onWay = false
			}
		}
		if !onWay {
			continue
		}
		m := map[int64]int64{}
		fs, ll := -1, -1
		var base0 ssa.Value
		for i, in := range cand.Instrs {
			st, ok := in.(*ssa.Store)
			if !ok {
				continue
			}
			ia, ok := st.Addr.(*ssa.IndexAddr)
			if !ok {
				continue
			}
			j, ok := constInt(ia.Index)
			if !ok {
				continue
			}
			base, idx, ok := loadOfIndex(st.Val)
			if !ok || base != ia.X || (base0 != nil && base != base0) {
				continue
			}
			k, ok := constInt(idx)
			if !ok {
				continue
			}
			base0 = base
			m[j] = k
			if fs < 0 {
				fs = i
			}
			if ld, ok := st.Val.(*ssa.UnOp); ok {
				if li := instrIndex(ld); li > ll && ld.Block() == cand {
					ll = li
				}
			}
		}
		if len(m) > len(mapping) {
			join, mapping, firstStore, lastLoad = cand, m, fs, ll
		}
	}
	if join == nil {
		c.Undecided("K-C05-reverse", fname(core), "final reverse", "no block after the rounds exchanges state words", core.Pos())
		return
	}
	okRev := len(mapping) == 4 && lastLoad < firstStore
	for j := int64(0); j < 4; j++ {
		if mapping[j] != 3-j {
			okRev = false
		}
	}
	c.Check(okRev, "K-C05-reverse", fname(core), "final reverse transform R", "(Y0,Y1,Y2,Y3) = (X35,X34,X33,X32)",
		fmt.Sprintf("final transform maps %v (must be j <- 3-j with all loads before the stores)", mapping), join.Instrs[0].Pos())

	// G-C05-alias: every instruction using src dominates every instruction writing dst
	var srcP, dstP *ssa.Parameter
	fx := getFX(c)
	w := fx.Writes(core)
	for i, p := range core.Params {
		if sl, ok := p.Type().Underlying().(*types.Slice); ok {
			if eb, ok := sl.Elem().Underlying().(*types.Basic); ok && eb.Kind() == types.Uint8 {
				_, written := w[root{Kind: rkParam, Idx: i}]
				// the caller-visible buffers are the ones passed from Encrypt's own params; decide by name-free rule:
				// src = byte-slice param never written; dst = byte-slice param written and passed from Encrypt's dst
				if !written && srcP == nil {
					srcP = p
				}
			}
		}
	}
	// dst: param bound to Encrypt's first param at the call site
	enc := c.Fn("sm4", "(*Sm4Cipher).Encrypt")
	for _, ci := range allCalls(enc) {
		if ci.Common().StaticCallee() == core {
			for i, a := range ci.Common().Args {
				if a == ssa.Value(enc.Params[1]) {
					dstP = core.Params[i]
				}
				if a == ssa.Value(enc.Params[2]) {
					srcP = core.Params[i]
				}
			}
		}
	}
	if srcP == nil || dstP == nil {
		c.Undecided("G-C05-alias", fname(core), "src before dst", "could not bind dst/src parameters of the block routine to Encrypt(dst, src)", core.Pos())
		return
	}
	var srcUses, dstUses []ssa.Instruction
	for _, u := range *srcP.Referrers() {
		srcUses = append(srcUses, u)
	}
	for _, u := range *dstP.Referrers() {
		dstUses = append(dstUses, u)
	}
	okAlias := len(srcUses) > 0 && len(dstUses) > 0
	var badPos token.Pos
	for _, s := range srcUses {
		for _, d := range dstUses {
			if !instrDominates(s, d) {
				okAlias = false
				badPos = d.Pos()
			}
		}
	}
	c.Check(okAlias, "G-C05-alias", fname(core), "src before dst", "every use of src precedes every use of dst (in-place safe)",
		"a use of dst is not preceded on all paths by every use of src: overlapping dst/src would corrupt the block", badPos)

	// K-C05-endian: the loader of src builds words big-endian; the storer writes big-endian
	for _, ci := range allCalls(core) {
		callee := ci.Common().StaticCallee()
		if callee == nil || !inRepo(callee) {
			continue
		}
		uses := func(p *ssa.Parameter) bool {
			for _, a := range ci.Common().Args {
				if a == ssa.Value(p) {
					return true
				}
			}
			return false
		}
		if uses(srcP) {
			c05Endian(c, callee, true)
		}
	}
	// storer: callee that writes the scratch/out bytes from the state words
	for _, ci := range allCalls(core) {
		callee := ci.Common().StaticCallee()
		if callee == nil || !inRepo(callee) || callee.Blocks == nil {
			continue
		}
		if len(callee.Params) == 2 {
			if sl, ok := callee.Params[0].Type().Underlying().(*types.Slice); ok {
				if eb, ok := sl.Elem().Underlying().(*types.Basic); ok && eb.Kind() == types.Uint8 {
					c05Endian(c, callee, false)
				}
			}
		}
	}
	c.MinSites("K-C05-endian", 2)
}

// c05Endian: load==true: f(words, bytes): words[i] = bytes[4i]<<24|bytes[4i+1]<<16|bytes[4i+2]<<8|bytes[4i+3]
// load==false: f(bytes, words): bytes[4i+k] = uint8(words[i] >> (24-8k))
func c05Endian(c *Ctx, f *ssa.Function, load bool) {
	c.Analysed[fname(f)] = true
	what := "word store (big-endian)"
	if load {
		what = "word load (big-endian)"
	}
	good, total := 0, 0
	var badPos token.Pos
	instrsOf(f, func(_ *ssa.BasicBlock, in ssa.Instruction) {
		st, ok := in.(*ssa.Store)
		if !ok {
			return
		}
		ia, ok := st.Addr.(*ssa.IndexAddr)
		if !ok {
			return
		}
		if load {
			// value = OR/XOR/ADD tree of (uint32(bytes[a]) << s)
			leaves := opLeaves(st.Val, token.OR)
			if len(leaves) == 1 {
				leaves = opLeaves(st.Val, token.XOR)
			}
			if len(leaves) != 4 {
				return
			}
			total++
			ok4 := true
			wa := affineOf(ia.Index)
			for _, l := range leaves {
				sh := int64(0)
				v := l
				if b, ok := v.(*ssa.BinOp); ok && b.Op == token.SHL {
					sh, _ = constInt(b.Y)
					v = b.X
				}
				_, idx, ok := loadOfIndex(stripConvAll(v))
				if !ok {
					ok4 = false
					break
				}
				// idx = 4*wordidx + k with sh = 24-8k
				d := affNormInd(affAdd(affineOf(idx), affScale(wa, 4), -1))
				if len(d.coef) != 0 || d.k < 0 || d.k > 3 || sh != 24-8*d.k {
					ok4 = false
					break
				}
			}
			if ok4 {
				good++
			} else {
				badPos = st.Pos()
			}
		} else {
			x, lane, ok := byteLaneConv(st.Val)
			if !ok {
				return
			}
			_, widx, ok := loadOfIndex(x)
			if !ok {
				return
			}
			total++
			d := affNormInd(affAdd(affineOf(ia.Index), affScale(affineOf(widx), 4), -1))
			if len(d.coef) == 0 && d.k >= 0 && d.k <= 3 && int64(lane) == 3-d.k {
				good++
			} else {
				badPos = st.Pos()
			}
		}
	})
	if total == 0 {
		// the conversion written with encoding/binary: the byte order is in the callee
		le, be := 0, 0
		for _, ci := range allCalls(f) {
			id := calleeID(ci.Common())
			switch {
			case strings.HasPrefix(id, "(encoding/binary.littleEndian)."):
				le++
				badPos = ci.Pos()
			case strings.HasPrefix(id, "(encoding/binary.bigEndian)."):
				be++
			}
		}
		if le+be > 0 {
			c.Check(le == 0, "K-C05-endian", fname(f), what, fmt.Sprintf("%d encoding/binary big-endian conversions", be), "the block / key bytes are converted with binary.LittleEndian: GM/T 0002 words are big-endian (the cipher stays self-consistent but matches no other implementation)", badPos)
			return
		}
		c.Undecided("K-C05-endian", fname(f), what, "byte/word conversion idiom not recognised", f.Pos())
		return
	}
	c.Check(good == total, "K-C05-endian", fname(f), what, fmt.Sprintf("%d conversions big-endian", good),
		"a byte/word conversion is not big-endian (GM/T 0002 words are big-endian)", badPos)
}

// isUint32Seq: []uint32, [n]uint32 or a pointer to such an array
func isUint32Seq(t types.Type) bool {
	if p, ok := t.Underlying().(*types.Pointer); ok {
		t = p.Elem()
	}
	var el types.Type
	switch u := t.Underlying().(type) {
	case *types.Slice:
		el = u.Elem()
	case *types.Array:
		el = u.Elem()
	default:
		return false
	}
	b, ok := el.Underlying().(*types.Basic)
	return ok && b.Kind() == types.Uint32
}

// lenProbeSucceeds: can f reach a successful return when len(param) == n? Comparisons of len(param) with constants are
// decided; `err != nil` on the error result of a repository callee that receives param is decided (true) when that
// callee cannot succeed under the same probe. Everything else stays open, so "false" is a proof of rejection.
func lenProbeSucceeds(f *ssa.Function, param ssa.Value, n int64, depth int) bool {
	spec, ok := defaultResultSpec(f)
	if !ok || f.Blocks == nil {
		return true
	}
	isLen := func(v ssa.Value) bool {
		if v == param && isIntType(param.Type()) {
			return true // the probed length itself, handed to a helper as an integer
		}
		call, ok := v.(*ssa.Call)
		if !ok {
			return false
		}
		bi, ok := call.Call.Value.(*ssa.Builtin)
		return ok && bi.Name() == "len" && call.Call.Args[0] == param
	}
	// error values known to be non-nil under the probe
	failing := func(v ssa.Value) bool {
		var call *ssa.Call
		switch x := v.(type) {
		case *ssa.Call:
			call = x
		case *ssa.Extract:
			call, _ = x.Tuple.(*ssa.Call)
		}
		if call == nil || depth >= 2 {
			return false
		}
		sc := call.Call.StaticCallee()
		if sc == nil || !inRepo(sc) || sc.Blocks == nil {
			return false
		}
		for j, a := range call.Call.Args {
			if (a == param || isLen(a)) && j < len(sc.Params) {
				return !lenProbeSucceeds(sc, sc.Params[j], n, depth+1)
			}
		}
		return false
	}
	saved := condEval
	defer func() { condEval = saved }()
	condEval = func(v ssa.Value) (bool, bool) {
		bo, ok := v.(*ssa.BinOp)
		if !ok {
			return false, false
		}
		op := bo.Op
		var k int64
		switch {
		case isLen(bo.X):
			kk, isK := constInt(bo.Y)
			if !isK {
				return false, false
			}
			k = kk
		case isLen(bo.Y):
			kk, isK := constInt(bo.X)
			if !isK {
				return false, false
			}
			k = kk
			switch op {
			case token.LSS:
				op = token.GTR
			case token.LEQ:
				op = token.GEQ
			case token.GTR:
				op = token.LSS
			case token.GEQ:
				op = token.LEQ
			}
		case (op == token.NEQ || op == token.EQL) && isNilConst(bo.Y) && isErrorType(bo.X.Type()):
			if failing(bo.X) {
				return op == token.NEQ, true
			}
			return false, false
		default:
			return false, false
		}
		switch op {
		case token.EQL:
			return n == k, true
		case token.NEQ:
			return n != k, true
		case token.LSS:
			return n < k, true
		case token.LEQ:
			return n <= k, true
		case token.GTR:
			return n > k, true
		case token.GEQ:
			return n >= k, true
		}
		return false, false
	}
	r, _ := canReachSuccess(f.Blocks[0], nil, successExits(f, spec), deadEdges(f))
	return r
}

// c05TableSites: two rules about the four T-tables that hold at every lookup SITE, wherever the lookups are placed
// (the round body, a helper):
//
//	(a) table k combines S with L shifted into byte lane k, so it is indexed with byte k of its argument word —
//	    `sbox0[x&0xff] ^ sbox1[(x>>8)&0xff] ^ …`; another lane at a site is a different function;
//	(b) the key schedule uses the S-box with the linear transform L' (rotations 13, 23), the T-tables embed L
//	    (2, 10, 18, 24): no function reached from the key schedule reads a T-table.
func c05TableSites(c *Ctx, tlane map[string]int, ksFuncs map[*ssa.Function]bool) {
	n := 0
	for _, f := range c.P.RepoFuncs("sm4") {
		if strings.HasSuffix(c.P.relFile(f.Pos()), "_test.go") || f.Name() == "init" {
			continue
		}
		k := 0
		instrsOf(f, func(_ *ssa.BasicBlock, in ssa.Instruction) {
			var base, idx ssa.Value
			switch x := in.(type) {
			case *ssa.IndexAddr:
				base, idx = x.X, x.Index
			case *ssa.Index:
				base, idx = x.X, x.Index
			default:
				return
			}
			g := globalOf(base)
			if g == nil {
				return
			}
			lane, isT := tlane[g.Name()]
			if !isT {
				return
			}
			n++
			k++
			if ksFuncs[f] {
				c.ViolatedHard("K-C05-lprime", fname(f), fmt.Sprintf("key schedule does not use the encryption T-tables #%d", k), "a function of the key schedule looks up "+g.Name()+", a table that embeds the data-path transform L (rotations 2, 10, 18, 24): the round keys need L' (13, 23)", in.Pos())
				return
			}
			_, bl, ok := byteLane(idx)
			if !ok {
				return // judged by the wiring rule
			}
			if bl != lane {
				c.ViolatedHard("K-C05-wiring", fname(f), fmt.Sprintf("lookup #%d in %s uses byte lane %d", k, g.Name(), lane), fmt.Sprintf("table %s = L(S(x) << %d) is indexed with byte %d of the word (must be byte %d)", g.Name(), 8*lane, bl, lane), in.Pos())
			} else {
				c.Holds("K-C05-wiring", fname(f), fmt.Sprintf("lookup #%d in %s uses byte lane %d", k, g.Name(), lane), "", in.Pos())
			}
		})
	}
	if n == 0 {
		c.Undecided("K-C05-wiring", "sm4", "T-table lookup sites", "none found", token.NoPos)
	}
}

// c05ScheduleOut: the round keys handed to the cipher are rk[i] = K[i+4], i = 0..31 — the word the key-schedule step
// produces in iteration i. Decided on the store/return shape of generateSubKeys: the step's result is stored at
// S[i+d] inside the 32-iteration loop and the function returns S[d : d+32] (d = 0 with a 32-word S returned whole).
// Returning S[0:32] of a 36-word K array hands out K0..K31: the first four round keys are the masked user key.
func c05ScheduleOut(c *Ctx) {
	rule := "K-C05-schedule"
	f := c.Fn("sm4", "generateSubKeys")
	if f == nil {
		c.Undecided(rule, "sm4.generateSubKeys", "round keys returned", "function not found", token.NoPos)
		return
	}
	// the step: a call inside a loop whose result is stored to an element of a made slice
	type site struct {
		st   *ssa.Store
		base ssa.Value
		d    int64
		ind  induction
	}
	var sites []site
	instrsOf(f, func(_ *ssa.BasicBlock, in ssa.Instruction) {
		st, ok := in.(*ssa.Store)
		if !ok {
			return
		}
		ia, ok := st.Addr.(*ssa.IndexAddr)
		if !ok {
			return
		}
		call, ok := st.Val.(*ssa.Call)
		if !ok || call.Call.StaticCallee() == nil || call.Call.StaticCallee().Pkg != f.Pkg {
			return
		}
		a := affineOf(ia.Index)
		if len(a.coef) != 1 {
			return
		}
		for v, k := range a.coef {
			phi, isPhi := v.(*ssa.Phi)
			if !isPhi || k != 1 {
				return
			}
			ind, ok := inductionOf(phi)
			if !ok {
				return
			}
			sites = append(sites, site{st, ia.X, a.k, ind})
		}
	})
	if len(sites) != 1 {
		c.Undecided(rule, fname(f), "round keys returned", fmt.Sprintf("%d stores of a step result into a slice element indexed by a loop counter", len(sites)), f.Pos())
		return
	}
	s := sites[0]
	hi, okB := loopBound(s.ind)
	if !okB || s.ind.init != 0 || s.ind.step != 1 || hi != 32 {
		c.Violated(rule, fname(f), "32 schedule steps", fmt.Sprintf("the loop that stores the round keys runs from %d in steps of %d to %d; the schedule has exactly 32 steps", s.ind.init, s.ind.step, hi), s.st.Pos())
		return
	}
	// make([]uint32, N) with constant N is `new [N]uint32` sliced whole in go/ssa
	var mk ssa.Value
	n := int64(-1)
	switch x := s.base.(type) {
	case *ssa.MakeSlice:
		if k, isK := constInt(x.Len); isK {
			mk, n = x, k
		}
	case *ssa.Slice:
		if al, ok := x.X.(*ssa.Alloc); ok && x.Low == nil {
			if pt, ok := al.Type().Underlying().(*types.Pointer); ok {
				if at, ok := pt.Elem().Underlying().(*types.Array); ok {
					if x.High == nil {
						mk, n = x, at.Len()
					} else if k, isK := constInt(x.High); isK && k == at.Len() {
						mk, n = x, k
					}
				}
			}
		}
	}
	nret := 0
	for _, b := range f.Blocks {
		ret, ok := b.Instrs[len(b.Instrs)-1].(*ssa.Return)
		if !ok || len(ret.Results) != 1 {
			continue
		}
		nret++
		c.Evals++
		lo, hiR := int64(0), n
		v := ret.Results[0]
		if sl, ok := v.(*ssa.Slice); ok && v != s.base {
			v = sl.X
			if sl.Low != nil {
				k, isK := constInt(sl.Low)
				if !isK {
					lo = -1
				} else {
					lo = k
				}
			}
			if sl.High != nil {
				k, isK := constInt(sl.High)
				if !isK {
					hiR = -1
				} else {
					hiR = k
				}
			}
		}
		if v != s.base || mk == nil || n < 0 || lo < 0 || hiR < 0 {
			c.Undecided(rule, fname(f), "round keys returned", "the returned value is not a constant window of the slice the steps fill", ret.Pos())
			continue
		}
		c.Check(lo == s.d && hiR == s.d+32, rule, fname(f), "round keys returned", fmt.Sprintf("step i is stored at [i+%d]; the function returns [%d:%d]", s.d, lo, hiR),
			fmt.Sprintf("step i stores K[i+4] at index i+%d but the function returns elements [%d:%d]: the round keys are shifted against the schedule (rk[i] must be the word produced by step i)", s.d, lo, hiR), ret.Pos())
	}
	if nret == 0 {
		c.Undecided(rule, fname(f), "round keys returned", "no return found", f.Pos())
	}
}
