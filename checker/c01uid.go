package main

// C01 — the default user ID: signer and verifier replace a missing user ID by the default one. Sibling agreement
// (no statistics: every site is listed): all functions of package sm2 that substitute `default_uid` for a parameter
// do so under the same condition. If the signer substitutes for every empty ID and the verifier only for a nil one,
// a genuine signature made with an empty, non-nil ID no longer verifies. Decided: the canonical form of the
// condition controlling each substitution (empty: len(p) == 0 / nil: p == nil); which of the two forms is used is
// not prescribed, only that the sites agree.

import (
	"fmt"
	"go/token"
	"sort"
	"strings"

	"golang.org/x/tools/go/ssa"
)

func c01DefaultUID(c *Ctx) {
	rule := "G-C01-uidagree"
	type site struct {
		fn   *ssa.Function
		form string
		pos  token.Pos
	}
	var sites []site
	for _, f := range c.P.RepoFuncs("sm2") {
		instrsOf(f, func(_ *ssa.BasicBlock, in ssa.Instruction) {
			phi, ok := in.(*ssa.Phi)
			if !ok || len(phi.Edges) != 2 {
				return
			}
			var param *ssa.Parameter
			def := false
			for _, e := range phi.Edges {
				if p, ok := e.(*ssa.Parameter); ok {
					param = p
				}
				if ld, ok := e.(*ssa.UnOp); ok && ld.Op == token.MUL {
					if g, ok := ld.X.(*ssa.Global); ok && g.Name() == "default_uid" {
						def = true
					}
				}
			}
			if param == nil || !def {
				return
			}
			form := "other"
			if d := phi.Block().Idom(); d != nil {
				if iff, ok := d.Instrs[len(d.Instrs)-1].(*ssa.If); ok {
					if b, ok := iff.Cond.(*ssa.BinOp); ok && (b.Op == token.EQL || b.Op == token.NEQ) {
						x, y := b.X, b.Y
						if _, isK := y.(*ssa.Const); !isK {
							x, y = y, x
						}
						if k, isK := y.(*ssa.Const); isK {
							if call, ok := x.(*ssa.Call); ok {
								if bi, ok := call.Call.Value.(*ssa.Builtin); ok && bi.Name() == "len" && len(call.Call.Args) == 1 && call.Call.Args[0] == ssa.Value(param) {
									if v, ok := constInt(k); ok && v == 0 {
										form = "empty"
									}
								}
							} else if x == ssa.Value(param) && k.IsNil() {
								form = "nil"
							}
						}
					}
				}
			}
			sites = append(sites, site{f, form, phi.Pos()})
		})
	}
	sort.Slice(sites, func(i, j int) bool { return fname(sites[i].fn) < fname(sites[j].fn) })
	c.Evals += len(sites)
	if len(sites) < 2 {
		c.Holds(rule, "sm2", "default user ID substituted under one condition", fmt.Sprintf("%d substitution site(s): nothing to compare", len(sites)), token.NoPos)
		return
	}
	var desc []string
	forms := map[string]int{}
	for _, s := range sites {
		desc = append(desc, fname(s.fn)+":"+s.form)
		forms[s.form]++
	}
	if forms["other"] > 0 {
		c.Undecided(rule, "sm2", "default user ID substituted under one condition", "a substitution is controlled by a condition of unrecognised form: "+strings.Join(desc, ", "), sites[0].pos)
		return
	}
	if len(forms) == 1 {
		c.Holds(rule, "sm2", "default user ID substituted under one condition", strings.Join(desc, ", "), sites[0].pos)
		return
	}
	// report the minority site(s)
	major := "empty"
	if forms["nil"] > forms["empty"] {
		major = "nil"
	}
	for _, s := range sites {
		if s.form != major {
			c.Violated(rule, fname(s.fn), "default user ID substituted under the same condition as its siblings",
				"this function substitutes the default ID when the ID is "+s.form+", its siblings when it is "+major+" ("+strings.Join(desc, ", ")+"): a signature made with an empty non-nil ID and checked with the same ID is hashed with different ZA on the two sides", s.pos)
		}
	}
}
