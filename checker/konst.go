package main

// konst.go — engine K: evaluation of constant tables / literals from the
// type-checked syntax tree (go/types constant folding), never by running code.

import (
	"fmt"
	"go/ast"
	"go/constant"
	"go/token"
	"go/types"
	"math/big"

	"golang.org/x/tools/go/packages"
)

// litTable evaluates a composite literal of integers (array/slice, possibly
// nested one level) into a flat list of rows. ok=false if any element is not a
// compile-time constant.
func litTable(pk *packages.Package, e ast.Expr) (rows [][]*big.Int, ok bool) {
	cl, isCL := ast.Unparen(e).(*ast.CompositeLit)
	if !isCL {
		return nil, false
	}
	flat := []*big.Int{}
	nested := false
	idx := 0
	place := func(i int, v *big.Int) {
		for len(flat) <= i {
			flat = append(flat, big.NewInt(0))
		}
		flat[i] = v
	}
	// array length, if declared
	if tv, has := pk.TypesInfo.Types[cl]; has {
		if at, isArr := tv.Type.Underlying().(*types.Array); isArr {
			if _, inner := at.Elem().Underlying().(*types.Array); !inner {
				for int64(len(flat)) < at.Len() {
					flat = append(flat, big.NewInt(0))
				}
			}
		}
	}
	for _, el := range cl.Elts {
		val := el
		if kv, isKV := el.(*ast.KeyValueExpr); isKV {
			ktv, has := pk.TypesInfo.Types[kv.Key]
			if !has || ktv.Value == nil {
				return nil, false
			}
			k, exact := constant.Int64Val(ktv.Value)
			if !exact {
				return nil, false
			}
			idx = int(k)
			val = kv.Value
		}
		if inner, isInner := ast.Unparen(val).(*ast.CompositeLit); isInner {
			nested = true
			r, ok2 := litTable(pk, inner)
			if !ok2 || len(r) != 1 {
				return nil, false
			}
			for len(rows) <= idx {
				rows = append(rows, nil)
			}
			rows[idx] = r[0]
			idx++
			continue
		}
		tv, has := pk.TypesInfo.Types[val]
		if !has || tv.Value == nil {
			return nil, false
		}
		bi, ok2 := constBig(tv.Value)
		if !ok2 {
			return nil, false
		}
		place(idx, bi)
		idx++
	}
	if nested {
		return rows, true
	}
	return [][]*big.Int{flat}, true
}

func constBig(v constant.Value) (*big.Int, bool) {
	v = constant.ToInt(v)
	if v.Kind() != constant.Int {
		return nil, false
	}
	if i, exact := constant.Int64Val(v); exact {
		return big.NewInt(i), true
	}
	if u, exact := constant.Uint64Val(v); exact {
		return new(big.Int).SetUint64(u), true
	}
	b, ok := new(big.Int).SetString(v.ExactString(), 10)
	return b, ok
}

// pkgTables lists all package-level vars of pk whose initialiser is a constant
// integer table, with name, declared type, rows.
type kTable struct {
	Name string
	Type types.Type
	Rows [][]*big.Int
	Pos  token.Pos
	Obj  types.Object
}

func pkgTables(pk *packages.Package) []kTable {
	var out []kTable
	for _, f := range pk.Syntax {
		for _, d := range f.Decls {
			gd, ok := d.(*ast.GenDecl)
			if !ok || gd.Tok != token.VAR {
				continue
			}
			for _, s := range gd.Specs {
				vs := s.(*ast.ValueSpec)
				for i, n := range vs.Names {
					if i >= len(vs.Values) {
						continue
					}
					rows, ok := litTable(pk, vs.Values[i])
					if !ok {
						continue
					}
					obj := pk.TypesInfo.Defs[n]
					if obj == nil {
						continue
					}
					out = append(out, kTable{n.Name, obj.Type(), rows, n.Pos(), obj})
				}
			}
		}
	}
	return out
}

func rowU32(r []*big.Int) []uint32 {
	out := make([]uint32, len(r))
	for i, v := range r {
		out[i] = uint32(v.Uint64())
	}
	return out
}

func hex32(v uint32) string { return fmt.Sprintf("0x%08x", v) }
