package main

// C12 — SM4-GCM helpers: standard-defined structure of GHASH length block, inc32, GF(2^128)
// multiplication, tag/J0/H formulas, counter-mode wiring, bounds, no writes to inputs; the TLS
// suites use crypto/cipher's GCM over sm4.NewCipher.

import (
	"fmt"
	"go/token"
	"regexp"
	"sort"
	"strings"

	"golang.org/x/tools/go/ssa"
)

func init() { register("C12", checkC12) }

func checkC12(c *Ctx) {
	c.Decided = append(c.Decided,
		"U-C12-lenblock: the GHASH length block is [8*len(A)]_64 || [8*len(C)]_64 (bit lengths, big-endian, A first)",
		"K-C12-inc32: the counter increment adds one to the last four bytes only (big-endian, carry stops after byte len-4)",
		"G-COPY-fresh: a scratch buffer refilled by copy without a new allocation in between is provably overwritten completely (zero padding by allocation holds only for the first fill): the zero-padded last blocks of A and C in GHASH",
		"K-C12-mult: GF(2^128) multiplication scans Y most-significant-bit first, shifts V right by one bit across bytes and reduces with R = 0xe1||0^120",
		"K-C12-formulas: H = E(K,0^128); J0 = IV||0x00000001 for 96-bit IVs (fresh buffer) and GHASH(H,{},IV) otherwise; T = MSB_128(E(K,J0) xor GHASH(H,A,C)) computed over the ciphertext in both directions; counter blocks Y[i], i>=1, from incr(n+1,J0); block i of the text is xored with E(K,Y[i]); decryption output has the ciphertext's length",
		"FX-C12-inputs: GCMEncrypt/GCMDecrypt/Sm4GCM write none of their argument slices",
		"G-C12-keylen: Sm4GCM rejects keys that are not 16 bytes",
		"T-C12-tls: the TLS SM4-GCM suites build their AEAD with crypto/cipher NewGCMWithNonceSize(sm4.NewCipher(key), 12) and a 4-byte implicit nonce",
		"B-IDX: every index/slice/make site of the GCM helpers is in bounds for all input lengths (81 sites, LinBounds with callee summaries)")
	c.NotDec = append(c.NotDec, "the block partition arithmetic of GHASH beyond bounds safety (which blocks are absorbed in which order is not compared with SP 800-38D)", "numerical equality of tags with standard GCM; authentication strength", "the helpers return the recomputed tag; comparing it is left to the caller")

	for _, h := range []string{"sm4.MSB", "sm4.GHASH", "sm4.GetY0", "sm4.GetH", "sm4.Rightshift"} {
		helperContext[h] = true
	}
	var fs []*ssa.Function
	fnm := map[string]*ssa.Function{}
	for _, n := range []string{"Sm4GCM", "GetH", "addition", "Rightshift", "findYi", "multiplication", "GHASH", "GetY0", "incr", "MSB", "GCMEncrypt", "GCMDecrypt"} {
		f := c.Fn("sm4", n)
		if f == nil {
			c.Missing("B-IDX", "sm4."+n, "function", "not found")
			continue
		}
		fnm[n] = f
		fs = append(fs, f)
		for _, a := range f.AnonFuncs {
			fs = append(fs, a)
		}
	}
	st := bidx(c, "B-IDX", fs, nil)
	c.Notes = append(c.Notes, fmt.Sprintf("B-IDX: %d sites, %d compiler, %d LinBounds, %d unproven", st.sites, st.compiler, st.lin, st.unproved))
	c.MinSites("B-IDX", 30) // about half of today's sites: a simplification may legitimately remove some

	c12LenBlock(c, fnm["GHASH"])
	c12Inc32(c, fnm["incr"])
	c12Mult(c, fnm)
	staleScratch(c, "G-COPY-fresh", "sm4")
	c12Formulas(c, fnm)

	// FX
	fx := getFX(c)
	for _, n := range []string{"GCMEncrypt", "GCMDecrypt", "Sm4GCM", "GetY0", "GHASH"} {
		f := fnm[n]
		if f == nil {
			continue
		}
		w := fx.Writes(f)
		for i, p := range f.Params {
			if !isByteSlice(p.Type()) {
				continue
			}
			wit, bad := w[root{Kind: rkParam, Idx: i}]
			c.Check(!bad, "FX-C12-inputs", fname(f), "does not write "+pname(p), "", "the caller's "+pname(p)+" slice may be written: "+fx.describe(root{Kind: rkParam, Idx: i}, wit), wit.Pos)
		}
	}
	if f := fnm["Sm4GCM"]; f != nil {
		spec, _ := defaultResultSpec(f)
		atoms := lenGuardAtoms(f, func(v ssa.Value) bool { return v == ssa.Value(f.Params[0]) }, func(n int64) bool { return n == 16 }, []int64{0, 15, 16, 17, 32}, "len(key)==16")
		g := evalGuard(c.P, f, atoms, spec, append(callsNamed(f, "GCMEncrypt"), callsNamed(f, "GCMDecrypt")...))
		c.Check(g.OK, "G-C12-keylen", fname(f), "len(key) == 16 or error", g.Why, g.Why, g.Pos)
	}
	c12TLS(c)
}

func c12LenBlock(c *Ctx, f *ssa.Function) {
	if f == nil {
		return
	}
	fn := fname(f)
	be := newBigEnv(f, paramNames(f, "H", "A", "C"))
	// the closure serialising a length: 8 stores data[k] = byte(len >> (56-8k))
	var ser *ssa.Function
	for _, a := range f.AnonFuncs {
		if len(a.Params) == 1 && isByteSlice(a.Signature.Results().At(0).Type()) {
			ser = a
		}
	}
	if ser == nil {
		c.Undecided("U-C12-lenblock", fn, "length serialiser", "no closure int -> []byte found in GHASH", f.Pos())
		return
	}
	lanes := map[int64]int{}
	instrsOf(ser, func(_ *ssa.BasicBlock, in ssa.Instruction) {
		st, ok := in.(*ssa.Store)
		if !ok {
			return
		}
		ia, ok := st.Addr.(*ssa.IndexAddr)
		if !ok {
			return
		}
		k, ok := constInt(ia.Index)
		if !ok {
			return
		}
		x, lane, ok := byteLaneConv(st.Val)
		if ok {
			if bo, isB := x.(*ssa.BinOp); isB && bo.Op == token.AND {
				if xx, l2, ok2 := byteLane(x); ok2 {
					x, lane = xx, l2
				}
			}
			if x == ssa.Value(ser.Params[0]) || stripConvAll(x) == ssa.Value(ser.Params[0]) {
				lanes[k] = lane
			}
		}
	})
	okSer := len(lanes) == 8
	for k := int64(0); k < 8; k++ {
		if lanes[k] != int(7-k) {
			okSer = false
		}
	}
	c.Check(okSer, "U-C12-lenblock", fname(ser), "64-bit big-endian serialisation", "", fmt.Sprintf("byte k of the length field must be bits 63-8k..56-8k; lanes found: %v", lanes), ser.Pos())
	// calls of the serialiser and their order in lenAB
	var parts []string
	for _, ci := range allCalls(f) {
		call, ok := ci.(*ssa.Call)
		if !ok {
			continue
		}
		isSer := call.Call.StaticCallee() == ser
		if mc, ok := call.Call.Value.(*ssa.MakeClosure); ok && mc.Fn == ssa.Value(ser) {
			isSer = true
		}
		if isSer {
			parts = append(parts, be.plain(call.Call.Args[0], call).String())
		}
	}
	c.Check(strings.Join(parts, ";") == "mul(0x8,len(A));mul(0x8,len(C))", "U-C12-lenblock", fn, "[8*len(A)] then [8*len(C)]", "", "the length block is built from ["+strings.Join(parts, ";")+"]; GCM requires the bit lengths of A then C", f.Pos())
	// the length block is the last block absorbed: addition(X[...], lenAB) with lenAB = concat(ser(A bits), ser(C bits))
	okLast := false
	for _, ci := range allCalls(f) {
		call, ok := ci.(*ssa.Call)
		if !ok || call.Call.StaticCallee() == nil || call.Call.StaticCallee().Name() != "addition" {
			continue
		}
		s := be.bytesOf(call.Call.Args[1], call).String()
		dbg("C12 lenblock operand: %s", s)
		if strings.HasPrefix(s, "concat(") && strings.Count(s, "mul(0x8,len(") == 2 && strings.Index(s, "len(A)") < strings.Index(s, "len(C)") {
			// exactly the two serialised lengths: nothing before, between or after them (a block that starts with
			// 16 zero bytes from a pre-sized make is 32 bytes long and the lengths fall outside the absorbed block)
			inner := strings.TrimSuffix(strings.TrimPrefix(s, "concat("), ")")
			inner = strings.TrimPrefix(inner, "const:nil:[]byte,")
			inner = strings.TrimPrefix(inner, "make(0x0),")
			if reLenBlock.MatchString(inner) {
				okLast = true
			}
		}
	}
	c.Check(okLast, "U-C12-lenblock", fn, "length block absorbed as A-bits || C-bits", "", "no GHASH step absorbs the concatenation of the two serialised bit lengths", f.Pos())
}

var reLenBlock = regexp.MustCompile(`^call:[^(),]*\(mul\(0x8,len\(A\)\)\),call:[^(),]*\(mul\(0x8,len\(C\)\)\)$`)

func c12Inc32(c *Ctx, f *ssa.Function) {
	if f == nil {
		return
	}
	var inc *ssa.Function
	for _, a := range f.AnonFuncs {
		if len(a.Params) == 2 {
			inc = a
		}
	}
	if inc == nil {
		c.Undecided("K-C12-inc32", fname(f), "increment closure", "no closure (yi, yii) found in incr", f.Pos())
		return
	}
	fn := fname(inc)
	names := paramNames(inc, "yi", "yii")
	var loop *ssa.BasicBlock
	for _, h := range loopHeaders(inc) {
		loop = h
	}
	if loop == nil {
		c.Undecided("K-C12-inc32", fn, "carry loop over the last four bytes", "no loop", inc.Pos())
		return
	}
	var ind *ssa.Phi
	for _, p := range phisOf(loop) {
		ind = p
	}
	names[ind] = "i"
	be := newBigEnv(inc, names)
	// init = len(yi)-1, step -1
	initOK, stepOK := false, false
	for i, e := range ind.Edges {
		if loop.Dominates(loop.Preds[i]) {
			a := affineOf(e)
			stepOK = len(a.coef) == 1 && a.coef[ind] == 1 && a.k == -1
		} else {
			s := be.plain(e, loop.Preds[i].Instrs[len(loop.Preds[i].Instrs)-1]).String()
			initOK = s == "sub(len(yi),0x1)" || s == "sub(len(yii),0x1)"
		}
	}
	// bound: i >= len-4 among the loop-controlling conditions
	boundOK := false
	for _, b := range inc.Blocks {
		if ifi, ok := lastIf(b); ok && (b == loop || loop.Dominates(b)) {
			s := be.plain(ifi.Cond, ifi).String()
			if s == "ge(i,sub(len(yi),0x4))" || s == "ge(i,sub(len(yii),0x4))" {
				// true edge continues the loop body
				boundOK = true
			}
		}
	}
	// body: yii[i] = yii[i]+1 ; stop when non-zero
	incOK, stopOK := false, false
	instrsOf(inc, func(b *ssa.BasicBlock, in ssa.Instruction) {
		if st, ok := in.(*ssa.Store); ok && loop.Dominates(b) {
			if ia, ok := st.Addr.(*ssa.IndexAddr); ok && ia.X == ssa.Value(inc.Params[1]) && ia.Index == ssa.Value(ind) {
				incOK = be.plain(st.Val, st).String() == "add(0x1,idx(yii,i))"
			}
		}
		if ifi, ok := in.(*ssa.If); ok && loop.Dominates(b) && b != loop {
			s := be.plain(ifi.Cond, ifi).String()
			if s == "ne(idx(yii,i),0x0)" || s == "ne(add(0x1,idx(yii,i)),0x0)" {
				// true edge leaves the loop
				if !reach([]*ssa.BasicBlock{b.Succs[0]}, nil)[loop] {
					stopOK = true
				}
			}
			if s == "eq(idx(yii,i),0x0)" && !reach([]*ssa.BasicBlock{b.Succs[1]}, nil)[loop] {
				stopOK = true
			}
		}
	})
	cp := false
	for _, ci := range allCalls(inc) {
		if bi, ok := ci.Common().Value.(*ssa.Builtin); ok && bi.Name() == "copy" {
			a := ci.Common().Args
			if be.bytesOf(a[0], ci).String() == "slice(yii,_,_)" && be.bytesOf(a[1], ci).String() == "slice(yi,_,_)" || (a[0] == ssa.Value(inc.Params[1]) && a[1] == ssa.Value(inc.Params[0])) {
				cp = true
			}
		}
	}
	if !(initOK && stepOK && boundOK && incOK && stopOK) && cp && c12IncGeneral(inc) {
		// any counter form: the incremented positions run from len-1 down to len-4 and the loop stops on a non-zero byte
		initOK, stepOK, boundOK, incOK, stopOK = true, true, true, true, true
	}
	c.Check(initOK && stepOK && boundOK && incOK && stopOK && cp, "K-C12-inc32", fn, "inc32: last 4 bytes, big-endian, carry stops on non-zero", "",
		fmt.Sprintf("counter increment is not inc32 (start at last byte=%v, step -1=%v, stops after byte len-4=%v, byte+1=%v, stop on non-zero=%v, starts from a copy=%v)", initOK, stepOK, boundOK, incOK, stopOK, cp), inc.Pos())
	// incr: blocks Y[i] = inc(Y[i-1]) for i=1..n-1, Y[0] = Y0
	names2 := paramNames(f, "n", "Y0")
	for _, h := range loopHeaders(f) {
		ld := describeLoop(f, h, names2)
		_ = ld
	}
	be2 := newBigEnv(f, names2)
	okChain := false
	for _, ci := range allCalls(f) {
		call, ok := ci.(*ssa.Call)
		if !ok {
			continue
		}
		isInc := call.Call.StaticCallee() == inc
		if mc, ok := call.Call.Value.(*ssa.MakeClosure); ok && mc.Fn == ssa.Value(inc) {
			isInc = true
		}
		if !isInc {
			continue
		}
		for _, p := range phisOf(call.Block().Idom()) {
			be2.names[p] = "i"
		}
		a0 := be2.bytesOf(call.Call.Args[0], call).String()
		a1 := be2.bytesOf(call.Call.Args[1], call).String()
		Y := "copyN(mul(0x10,n),Y0)"
		okChain = a0 == "slice("+Y+",mul(0x10,sub(i,0x1)),add(0x10,mul(0x10,sub(i,0x1))))" && a1 == "slice("+Y+",mul(0x10,i),add(0x10,mul(0x10,i)))"
		if !okChain {
			// the same chain with a byte offset that starts at 16 and steps by 16
			for _, p := range phisOf(call.Block().Idom()) {
				if iv, ok := inductionOf(p); ok && iv.init == 16 && iv.step == 16 {
					okChain = a0 == "slice("+Y+",sub(i,0x10),i)" && a1 == "slice("+Y+",i,add(0x10,i))"
				}
			}
		}
		if !okChain {
			dbg("incr chain: %s -> %s", a0, a1)
		}
	}
	c.Check(okChain, "K-C12-inc32", fname(f), "Y[i] = inc32(Y[i-1]), Y[0] = J0", "", "counter blocks are not generated by successive increments of J0", f.Pos())
}

func c12Mult(c *Ctx, fnm map[string]*ssa.Function) {
	// findYi
	if f := fnm["findYi"]; f != nil {
		be := newBigEnv(f, paramNames(f, "Y", "index"))
		ok := false
		if len(ifsOf(f)) > 0 {
			// decided on values: assume the selected bit is 1 (then 0); every return that stays reachable is that constant
			bit := "and(0x1,shr(idx(Y,quo(index,0x8)),sub(0x7,rem(index,0x8))))"
			cix := newCondIndex(f, paramNames(f, "Y", "index"))
			tested := false
			for _, s := range cix.conds {
				if strings.Contains(s, bit) {
					tested = true
				} else {
					dbg("findYi cond: %s", s)
				}
			}
			ok = tested
			for _, want := range []int64{1, 0} {
				cix.withAssumptions([]assumption{{"eq(" + bit + ",0x1)", want == 1}, {"ne(" + bit + ",0x0)", want == 1}}, func() {
					n := 0
					for b := range reach([]*ssa.BasicBlock{f.Blocks[0]}, deadEdges(f)) {
						if r, isRet := b.Instrs[len(b.Instrs)-1].(*ssa.Return); isRet && len(r.Results) == 1 {
							n++
							if k, isC := constInt(r.Results[0]); !isC || k != want {
								ok = false
							}
						}
					}
					if n == 0 {
						ok = false
					}
				})
			}
		}
		if !ok && len(ifsOf(f)) == 0 {
			// the bit returned directly: return int((Y[i/8] >> (7 - i%8)) & 1)
			n, good := 0, 0
			for _, b := range f.Blocks {
				if r, isRet := b.Instrs[len(b.Instrs)-1].(*ssa.Return); isRet && len(r.Results) == 1 {
					n++
					v := r.Results[0]
					for {
						if cv, isCv := v.(*ssa.Convert); isCv {
							v = cv.X
							continue
						}
						break
					}
					if s := be.plain(v, r).String(); s == "and(0x1,shr(idx(Y,quo(index,0x8)),sub(0x7,rem(index,0x8))))" {
						good++
					} else {
						dbg("findYi result: %s", s)
					}
				}
			}
			ok = n > 0 && n == good
		}
		c.Check(ok, "K-C12-mult", fname(f), "bit i of Y, most significant bit first", "", "findYi does not return bit (7 - i mod 8) of byte i/8", f.Pos())
	}
	// Rightshift
	if f := fnm["Rightshift"]; f != nil {
		names := paramNames(f, "V")
		var ind *ssa.Phi
		for _, h := range loopHeaders(f) {
			for _, p := range phisOf(h) {
				ind = p
			}
		}
		ok := false
		if ind != nil {
			names[ind] = "i"
			be := newBigEnv(f, names)
			var stores []string
			instrsOf(f, func(b *ssa.BasicBlock, in ssa.Instruction) {
				if st, isSt := in.(*ssa.Store); isSt {
					conds := dominatingCondsWithin(be, b, ind.Block())
					stores = append(stores, conds+be.plain(st.Addr, st).String()+"="+be.plain(st.Val, st).String())
				}
			})
			sort.Strings(stores)
			got := strings.Join(stores, " ; ")
			want1 := "[ne(i,0x0)] addr(V,i)=or(idx(V,i),shl(and(0x1,idx(V,i-1)),0x7)) ; addr(V,i)=shr(idx(V,i),0x1)"
			downward := false
			for i, e := range ind.Edges {
				if ind.Block().Dominates(ind.Block().Preds[i]) {
					a := affineOf(e)
					downward = a.k == -1
				}
			}
			// fused form: every byte but the first takes both halves in one store, the first byte is shifted after the loop
			want2 := "[gt(len(V),0x0)] addr(V,0)=shr(idx(V,0),0x1) ; addr(V,i)=or(shl(and(0x1,idx(V,i-1)),0x7),shr(idx(V,i),0x1))"
			hc := ""
			if ifi, isIf := lastIf(ind.Block()); isIf {
				hc = be.plain(ifi.Cond, ifi).String()
			}
			ok = downward && (got == want1 && hc == "ge(i,0x0)" || got == want2 && hc == "gt(i,0x0)")
			// ... and that loop is all the function does: no other writer of V (a call that is handed V or a slice
			// of it), and no return that bypasses the loop (a special-cased fast path for some lengths)
			for _, cl := range allCalls(f) {
				if _, isBi := cl.Common().Value.(*ssa.Builtin); !isBi {
					ok = false
				}
			}
			for _, b := range f.Blocks {
				if _, isRet := b.Instrs[len(b.Instrs)-1].(*ssa.Return); isRet && !ind.Block().Dominates(b) {
					ok = false
				}
			}
			if !ok {
				dbg("Rightshift header cond: %s", hc)
			}
			if !ok {
				dbg("Rightshift stores: %s downward=%v", got, downward)
			}
		}
		c.Check(ok, "K-C12-mult", fname(f), "one-bit right shift across bytes, from the last byte down", "", "Rightshift is not V >> 1 over the whole block (each byte takes the low bit of its predecessor as its top bit, processed from the last byte)", f.Pos())
	}
	// multiplication
	if f := fnm["multiplication"]; f != nil {
		fn := fname(f)
		be := newBigEnv(f, paramNames(f, "X", "Y"))
		// R[0] = 0xe1 in a 16-byte buffer
		rOK := false
		instrsOf(f, func(_ *ssa.BasicBlock, in ssa.Instruction) {
			if st, ok := in.(*ssa.Store); ok {
				if ia, ok := st.Addr.(*ssa.IndexAddr); ok {
					k, ok1 := constInt(ia.Index)
					v, ok2 := constInt(st.Val)
					if ok1 && ok2 && k == 0 && v == 0xe1 {
						rOK = true
					}
				}
			}
		})
		// loop 0..127
		loopOK := false
		for _, h := range loopHeaders(f) {
			for _, p := range phisOf(h) {
				if iv, ok := inductionOf(p); ok && iv.init == 0 && iv.step == 1 {
					if ifi, ok := lastIf(h); ok {
						s := be.plain(ifi.Cond, ifi).String()
						if strings.HasPrefix(s, "le(") && strings.HasSuffix(s, ",0x7f)") || strings.HasPrefix(s, "lt(") && strings.HasSuffix(s, ",0x80)") {
							loopOK = true
						}
					}
				}
			}
		}
		// V's low bit decides the reduction: test V[15]&1 before shifting; reduction adds R after the shift
		redOK := false
		for _, ifi := range ifsOf(f) {
			cond := ifi.Cond
			bo, ok := cond.(*ssa.BinOp)
			if !ok || (bo.Op != token.EQL && bo.Op != token.NEQ) {
				continue
			}
			and, ok := bo.X.(*ssa.BinOp)
			if !ok || and.Op != token.AND {
				continue
			}
			_, idx, isLd := loadOfIndex(and.X)
			k, isC := constInt(and.Y)
			z, isZ := constInt(bo.Y)
			i15, is15 := constInt(idx)
			if !isLd || !isC || k != 1 || !isZ || (z != 0 && z != 1) || !is15 || i15 != 15 {
				continue
			}
			// which successor is taken when the low bit of V is set
			setIdx := 1
			if (bo.Op == token.EQL) == (z == 1) {
				setIdx = 0
			}
			callsIn := func(b *ssa.BasicBlock, after ssa.Instruction) string {
				var seq []string
				on := after == nil
				for _, in := range b.Instrs {
					if in == after {
						on = true
						continue
					}
					if call, ok := in.(*ssa.Call); ok && on && call.Call.StaticCallee() != nil {
						seq = append(seq, call.Call.StaticCallee().Name())
					}
				}
				return strings.Join(seq, ",")
			}
			// the bit is read before any shift: calls between the test and the branch, then per successor
			pre := ""
			if bo.Block() == ifi.Block() {
				pre = callsIn(ifi.Block(), bo)
			}
			set := callsIn(ifi.Block().Succs[setIdx], nil)
			clr := callsIn(ifi.Block().Succs[1-setIdx], nil)
			switch {
			case pre == "" && set == "Rightshift,addition" && clr == "Rightshift":
				redOK = true
			case pre == "Rightshift" && set == "addition" && clr == "" && bo.Block() == ifi.Block():
				// the shift hoisted out of both branches, the bit remembered before it
				redOK = true
			}
		}
		// accumulate Z ^= V when the bit is set
		accOK := false
		for _, ifi := range ifsOf(f) {
			s := be.plain(ifi.Cond, ifi).String()
			if strings.HasPrefix(s, "eq(call:sm4.findYi(Y,") && strings.HasSuffix(s, "),0x1)") {
				for _, in := range ifi.Block().Succs[0].Instrs {
					if call, ok := in.(*ssa.Call); ok && call.Call.StaticCallee() != nil && call.Call.StaticCallee().Name() == "addition" {
						accOK = true
					}
				}
			}
		}
		c.Check(rOK && loopOK && redOK && accOK, "K-C12-mult", fn, "Z = X·Y in GF(2^128) (SP 800-38D algorithm 1)", "",
			fmt.Sprintf("multiplication deviates from the standard algorithm (R=0xe1: %v, 128 iterations: %v, shift/reduce by low bit of V: %v, Z^=V on set bit: %v)", rOK, loopOK, redOK, accOK), f.Pos())
	}
}

// lastWriterOf: the last block-cipher call writing buffer buf that dominates `at`
func lastEncryptInto(f *ssa.Function, buf ssa.Value, at ssa.Instruction) *ssa.Call {
	var last *ssa.Call
	for _, ci := range allCalls(f) {
		call, ok := ci.(*ssa.Call)
		if !ok || !call.Call.IsInvoke() || call.Call.Method.Name() != "Encrypt" {
			continue
		}
		if call.Call.Args[0] != buf {
			continue
		}
		if instrDominates(call, at) && (last == nil || instrDominates(last, call)) {
			last = call
		}
	}
	return last
}

func c12Formulas(c *Ctx, fnm map[string]*ssa.Function) {
	if f := fnm["GetH"]; f != nil {
		be := newBigEnv(f, paramNames(f, "key"))
		ok := false
		for _, ci := range allCalls(f) {
			call, isC := ci.(*ssa.Call)
			if isC && call.Call.IsInvoke() && call.Call.Method.Name() == "Encrypt" {
				src := be.bytesOf(call.Call.Args[1], call).String()
				recv := be.plain(call.Call.Value, call).String()
				ok = (src == "slice(?alloc:*[16]byte,_,0x10)" || strings.HasPrefix(src, "make(")) && recv == "res0(call:sm4.NewCipher(key))"
				// the source buffer must be all zero: a fresh buffer never stored to
				if al, isSl := call.Call.Args[1].(*ssa.Slice); isSl {
					for _, u := range *al.Referrers() {
						if _, isIA := u.(*ssa.IndexAddr); isIA {
							ok = false
						}
					}
				}
				for _, b := range f.Blocks {
					if r, isR := b.Instrs[len(b.Instrs)-1].(*ssa.Return); isR {
						if r.Results[0] != call.Call.Args[0] {
							ok = false
						}
					}
				}
			}
		}
		c.Check(ok, "K-C12-formulas", fname(f), "H = E(K, 0^128)", "", "GetH does not encrypt a fresh all-zero block under the key", f.Pos())
	}
	if f := fnm["GetY0"]; f != nil {
		be := newBigEnv(f, paramNames(f, "H", "IV"))
		// decided on values: the returns that stay reachable with len(IV) == 12, and with len(IV) below / above 12
		got := map[string]string{}
		cix := newCondIndex(f, paramNames(f, "H", "IV"))
		collect := func(key string, lo, hi int64) {
			mlo, mhi := lo*8, hi*8
			if hi < lo {
				mhi = mlo - 1
			}
			cix.withInterval("len(IV)", lo, hi, func() {
				cix.withInterval("mul(0x8,len(IV))", mlo, mhi, func() {
					for b := range reach([]*ssa.BasicBlock{f.Blocks[0]}, deadEdges(f)) {
						if r, isR := b.Instrs[len(b.Instrs)-1].(*ssa.Return); isR {
							s := be.bytesOf(r.Results[0], r).String()
							if old, seen := got[key]; seen && old != s {
								s = old + " | " + s
							}
							got[key] = s
						}
					}
				})
			})
		}
		be.lenConst = map[string]int64{"len(IV)": 12}
		collect("96", 12, 12)
		be.lenConst = nil
		collect("other", 0, 11)
		collect("other", 13, 12)
		ok := (got["96"] == "concat(make(0x0),IV,lit(0x0,0x0,0x0,0x1))" || got["96"] == "concat(IV,lit(0x0,0x0,0x0,0x1))") && got["other"] == "call:sm4.GHASH(H,concat(),IV)"
		c.Check(ok, "K-C12-formulas", fname(f), "J0 = IV||0^31||1 (96-bit IV) else GHASH(H, {}, IV)", "", fmt.Sprintf("J0 derivation is %v", got), f.Pos())
	}
	for _, n := range []string{"GCMEncrypt", "GCMDecrypt"} {
		f := fnm[n]
		if f == nil {
			continue
		}
		fn := fname(f)
		text := "P"
		if n == "GCMDecrypt" {
			text = "C"
		}
		names := paramNames(f, "K", "IV", text, "A")
		be := newBigEnv(f, names)
		H := "call:sm4.GetH(K)"
		Y0 := "call:sm4.GetY0(" + H + ",IV)"
		// tag
		var tagv ssa.Value
		var ret *ssa.Return
		for _, b := range f.Blocks {
			if r, isR := b.Instrs[len(b.Instrs)-1].(*ssa.Return); isR {
				ret = r
				tagv = r.Results[1]
			}
		}
		okTag := false
		detail := ""
		// MSB(128, X) or the slice expression X[:16]
		var inner ssa.Value
		bits := int64(-1)
		recognised := false
		if msb, isCall := tagv.(*ssa.Call); isCall && msb.Call.StaticCallee() != nil && msb.Call.StaticCallee().Name() == "MSB" {
			bits, _ = constInt(msb.Call.Args[0])
			inner = msb.Call.Args[1]
		} else if sl, isSl := tagv.(*ssa.Slice); isSl && sl.High != nil {
			lo := int64(0)
			if sl.Low != nil {
				lo, _ = constInt(sl.Low)
			}
			if hi, isK := constInt(sl.High); isK && lo == 0 {
				bits, inner = 8*hi, sl.X
			}
		}
		if inner != nil {
			if add, isAdd := inner.(*ssa.Call); isAdd && add.Call.StaticCallee() != nil && add.Call.StaticCallee().Name() == "addition" {
				recognised = true
				enc := lastEncryptInto(f, add.Call.Args[0], add)
				gh := ""
				encSrc := ""
				if enc != nil {
					encSrc = be.bytesOf(enc.Call.Args[1], enc).String()
					gh = be.bytesOf(add.Call.Args[1], add).String()
				}
				// the ciphertext: parameter C when decrypting, the produced buffer when encrypting
				wantGH := "call:sm4.GHASH(" + H + ",A,C)"
				if n == "GCMEncrypt" {
					wantGH = "call:sm4.GHASH(" + H + ",A,make(len(P)))"
				}
				// J0 itself, or block 0 of the counter sequence (incr copies J0 there)
				isJ0 := encSrc == Y0 || (strings.HasPrefix(encSrc, "slice(call:sm4.incr(") && (strings.HasSuffix(encSrc, ","+Y0+"),_,0x10)") || strings.HasSuffix(encSrc, ","+Y0+"),0x0,0x10)")))
				okTag = bits == 128 && isJ0 && gh == wantGH
				detail = fmt.Sprintf("bits=%d E(K,·) over %s, GHASH term %s", bits, encSrc, gh)
			}
		}
		if !recognised {
			c.Undecided("K-C12-formulas", fn, "T = MSB_128(E(K,J0) xor GHASH(H,A,C))", "the tag is not written as the leading bytes of addition(E(K,J0), GHASH(...))", ret.Pos())
		} else {
			c.Check(okTag, "K-C12-formulas", fn, "T = MSB_128(E(K,J0) xor GHASH(H,A,C))", "", "tag computation deviates: "+detail, ret.Pos())
		}
		// counter blocks and CTR loop
		Y := "call:sm4.incr(add(0x1,res0(call:sm4." + n + "$1(quo(len(" + text + "),0x10),rem(len(" + text + "),0x10))))," + Y0 + ")"
		okCtr := false
		for _, h := range loopHeaders(f) {
			ld := describeLoop(f, h, names)
			ev := strings.Join(ld.Events, " ; ")
			ev = strings.ReplaceAll(ev, Y, "Y")
			out := "make(len(" + text + "))"
			w1 := "Encrypt(slice(?alloc:*[16]byte,_,0x10), slice(Y,mul(0x10,i),add(0x10,mul(0x10,i)))) ; copy(slice(" + out + ",mul(0x10,sub(i,0x1)),add(0x10,mul(0x10,sub(i,0x1)))), call:sm4.addition(slice(" + text + ",mul(0x10,sub(i,0x1)),add(0x10,mul(0x10,sub(i,0x1)))),slice(?alloc:*[16]byte,_,0x10)))"
			if ev == w1 {
				okCtr = true
			} else {
				dbg("%s ctr loop: %s", n, ev)
			}
		}
		c.Check(okCtr, "K-C12-formulas", fn, "block i of the output = text block i xor E(K, Y[i]), i >= 1", "", "the counter-mode loop does not xor text block i-1 with E(K,Y[i]) into an output of the text's length", f.Pos())
		// output length
		if n == "GCMDecrypt" && ret != nil {
			got := be.bytesOf(ret.Results[0], ret).String()
			c.Check(got == "make(len(C))", "K-C12-formulas", fn, "plaintext has the ciphertext's length", "", "decryption returns "+got, ret.Pos())
		}
	}
}

func c12TLS(c *Ctx) {
	f := c.Fn("gmtls", "aeadSM4GCM")
	if f == nil {
		c.Missing("T-C12-tls", "gmtls.aeadSM4GCM", "function", "not found")
		return
	}
	fn := fname(f)
	be := newBigEnv(f, paramNames(f, "key", "nonce"))
	var gcm *ssa.Call
	usesHelper := false
	for _, ci := range allCalls(f) {
		call, ok := ci.(*ssa.Call)
		if !ok {
			continue
		}
		id := calleeID(&call.Call)
		if id == "crypto/cipher.NewGCMWithNonceSize" || id == "crypto/cipher.NewGCM" {
			gcm = call
		}
		if strings.Contains(id, "sm4.GCM") || strings.Contains(id, "sm4.Sm4GCM") {
			usesHelper = true
		}
	}
	ok := gcm != nil && !usesHelper
	detail := "no crypto/cipher GCM constructor is called"
	if gcm != nil {
		s := be.plain(gcm, gcm).String()
		detail = s
		ok = ok && (s == "call:crypto/cipher.NewGCMWithNonceSize(res0(call:sm4.NewCipher(key)),0xc)" || s == "call:crypto/cipher.NewGCM(res0(call:sm4.NewCipher(key)))")
	}
	c.Check(ok, "T-C12-tls", fn, "AEAD = crypto/cipher GCM over sm4.NewCipher(key), 12-byte nonce", "", "the TLS SM4-GCM suites are built with: "+detail, f.Pos())
	// suites table rows with an AEAD use this constructor
	n := 0
	if pk := c.P.Pkgs["gmtls"]; pk != nil {
		init := c.P.SSAPkg["gmtls"].Func("init")
		instrsOf(init, func(_ *ssa.BasicBlock, in ssa.Instruction) {
			if st, ok := in.(*ssa.Store); ok {
				if fnv, ok := st.Val.(*ssa.Function); ok && fnv == f {
					n++
				}
			}
		})
	}
	c.Check(n >= 2, "T-C12-tls", fn, "installed as the AEAD of the SM4-GCM suites", "", fmt.Sprintf("aeadSM4GCM is referenced by %d suite rows", n), f.Pos())
}

// c12IncGeneral: the carry loop of inc32 in any counter form. With LEN = len of the block: one store in the loop adds 1
// to the byte at a position that is linear in the loop counter; the counter runs from a constant start by ±1 up to a
// constant bound (tests against LEN or 0 only guard short buffers); the first position is LEN-1, the last LEN-4; and a
// test of the incremented byte against 0 leaves the loop when it is non-zero.
func c12IncGeneral(inc *ssa.Function) bool {
	if len(inc.Params) != 2 {
		return false
	}
	yii := inc.Params[1]
	isLEN := func(v ssa.Value) bool {
		return isLenOf(v, func(x ssa.Value) bool { return x == ssa.Value(inc.Params[0]) || x == yii })
	}
	for _, h := range loopHeaders(inc) {
		blocks := loopBlocks(h)
		for _, p := range phisOf(h) {
			iv, ok := inductionOf(p)
			if !ok || (iv.step != 1 && iv.step != -1) {
				continue
			}
			// linear form over P (the counter) and LEN
			var lf func(v ssa.Value, d int) (linForm, bool)
			lf = func(v ssa.Value, d int) (linForm, bool) {
				if d > 8 {
					return linForm{}, false
				}
				if k, isK := constInt(v); isK {
					return linForm{k: k, coef: map[string]int64{}}, true
				}
				if v == ssa.Value(p) {
					return linForm{coef: map[string]int64{"P": 1}}, true
				}
				if isLEN(v) {
					return linForm{coef: map[string]int64{"LEN": 1}}, true
				}
				switch x := v.(type) {
				case *ssa.Convert:
					return lf(x.X, d+1)
				case *ssa.BinOp:
					if x.Op == token.ADD || x.Op == token.SUB {
						a, ok1 := lf(x.X, d+1)
						b, ok2 := lf(x.Y, d+1)
						if ok1 && ok2 {
							if x.Op == token.ADD {
								return a.add(b, 1), true
							}
							return a.add(b, -1), true
						}
					}
				}
				return linForm{}, false
			}
			// constant bound among the loop-controlling tests on the counter
			haveBound := false
			var lastP int64
			for b := range blocks {
				ifi, ok := lastIf(b)
				if !ok {
					continue
				}
				cmp, ok := ifi.Cond.(*ssa.BinOp)
				if !ok || cmp.X != ssa.Value(p) {
					continue
				}
				k, isK := constInt(cmp.Y)
				if !isK {
					continue
				}
				switch {
				case iv.step == 1 && cmp.Op == token.LEQ:
					lastP, haveBound = k, true
				case iv.step == 1 && cmp.Op == token.LSS:
					lastP, haveBound = k-1, true
				}
			}
			if !haveBound {
				// a descending counter from LEN-1 is the form the older rule decides
				continue
			}
			okStore, okStop := false, false
			instrsOf(inc, func(b *ssa.BasicBlock, in ssa.Instruction) {
				if !blocks[b] {
					return
				}
				switch x := in.(type) {
				case *ssa.Store:
					ia, ok := x.Addr.(*ssa.IndexAddr)
					if !ok || ia.X != ssa.Value(yii) {
						return
					}
					add, ok := x.Val.(*ssa.BinOp)
					if !ok || add.Op != token.ADD {
						return
					}
					if k, isK := constInt(add.Y); !isK || k != 1 {
						return
					}
					ld, ok := add.X.(*ssa.UnOp)
					if !ok {
						return
					}
					ia2, ok := ld.X.(*ssa.IndexAddr)
					if !ok || ia2.X != ssa.Value(yii) {
						return
					}
					f1, ok1 := lf(ia.Index, 0)
					f2, ok2 := lf(ia2.Index, 0)
					if !ok1 || !ok2 || !f1.equal(f2) || (f1.coef["P"] != 1 && f1.coef["P"] != -1) {
						return
					}
					at := func(pv int64) linForm {
						r := linForm{k: f1.k + f1.coef["P"]*pv, coef: map[string]int64{}}
						for s, c := range f1.coef {
							if s != "P" {
								r.coef[s] = c
							}
						}
						return r
					}
					first, last := at(iv.init), at(lastP)
					wantFirst := linForm{k: -1, coef: map[string]int64{"LEN": 1}}
					wantLast := linForm{k: -4, coef: map[string]int64{"LEN": 1}}
					if first.equal(wantFirst) && last.equal(wantLast) {
						okStore = true
					}
				case *ssa.If:
					cmp, ok := x.Cond.(*ssa.BinOp)
					if !ok || (cmp.Op != token.NEQ && cmp.Op != token.EQL) {
						return
					}
					if k, isK := constInt(cmp.Y); !isK || k != 0 {
						return
					}
					v := cmp.X
					if add, isAdd := v.(*ssa.BinOp); isAdd && add.Op == token.ADD {
						v = add.X // the stored value itself
					}
					ld, ok := v.(*ssa.UnOp)
					if !ok {
						return
					}
					if ia, ok := ld.X.(*ssa.IndexAddr); !ok || ia.X != ssa.Value(yii) {
						return
					}
					leave := b.Succs[0]
					if cmp.Op == token.EQL {
						leave = b.Succs[1]
					}
					if !reach([]*ssa.BasicBlock{leave}, nil)[h] {
						okStop = true
					}
				}
			})
			if okStore && okStop {
				return true
			}
		}
	}
	return false
}
