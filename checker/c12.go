package main

import (
	"fmt"

	"golang.org/x/tools/go/ssa"
)

func init() { register("C12", checkC12) }

func checkC12(c *Ctx) {
	var fs []*ssa.Function
	for _, n := range []string{"Sm4GCM", "GetH", "addition", "Rightshift", "findYi", "multiplication", "GHASH", "GetY0", "incr", "MSB", "GCMEncrypt", "GCMDecrypt"} {
		f := c.Fn("sm4", n)
		if f == nil {
			c.Missing("B-IDX", "sm4."+n, "function", "not found")
			continue
		}
		fs = append(fs, f)
		for _, a := range f.AnonFuncs {
			fs = append(fs, a)
		}
	}
	for _, h := range []string{"sm4.MSB", "sm4.GHASH", "sm4.GetY0", "sm4.GetH", "sm4.Rightshift"} {
		helperContext[h] = true
	}
	st := bidx(c, "B-IDX", fs, nil)
	c.Notes = append(c.Notes, fmt.Sprintf("B-IDX: %d sites, %d compiler, %d LinBounds, %d unproven", st.sites, st.compiler, st.lin, st.unproved))
}
