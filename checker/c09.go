package main

// C09 — issued certificates, CSRs and CRLs verify under the issuer:
// T-RAWHASH (raw-vs-digest convention between the four creators and the verifier, evaluated as a table
// over key family x signature algorithm), T-SIGALG (algorithm->hash tables agree), K-C09-oid.

import (
	"fmt"
	"go/ast"
	"go/constant"
	"go/token"
	"go/types"
	"sort"
	"strings"

	"golang.org/x/tools/go/ssa"
)

func init() { register("C09", checkC09) }

type sigRow struct {
	algo, pubKeyAlgo, hash int64
	oid                    string
}

func pkgConst(c *Ctx, pkg, name string) (int64, bool) {
	pk := c.P.Pkgs[pkg]
	if pk == nil {
		return 0, false
	}
	obj := pk.Types.Scope().Lookup(name)
	cn, ok := obj.(*types.Const)
	if !ok {
		return 0, false
	}
	v, ok := constant.Int64Val(cn.Val())
	return v, ok
}

// sigDetails: rows of signatureAlgorithmDetails from the syntax tree
func sigDetails(c *Ctx) ([]sigRow, token.Pos) {
	e, pk := c.P.findVarInit("x509", "signatureAlgorithmDetails")
	cl, ok := e.(*ast.CompositeLit)
	if !ok {
		return nil, 0
	}
	var rows []sigRow
	for _, el := range cl.Elts {
		r, ok := el.(*ast.CompositeLit)
		if !ok || len(r.Elts) != 4 {
			continue
		}
		val := func(x ast.Expr) int64 {
			if tv, ok := pk.TypesInfo.Types[x]; ok && tv.Value != nil {
				v, _ := constant.Int64Val(constant.ToInt(tv.Value))
				return v
			}
			return -1
		}
		oid := ""
		if id, ok := r.Elts[1].(*ast.Ident); ok {
			oid = id.Name
		}
		rows = append(rows, sigRow{val(r.Elts[0]), val(r.Elts[2]), val(r.Elts[3]), oid})
	}
	return rows, cl.Pos()
}

type signModel struct {
	keyfam string // SM2 | RSA | ECDSA
	algo   int64  // requested SignatureAlgorithm (0 = default)
	hash   int64  // effective hash chosen by signingParamsForPublicKey
}

func checkC09(c *Ctx) {
	defer c09SigRest(c)
	c.Decided = append(c.Decided,
		"G-C09-sigrest: every asn1.Unmarshal of a signature value in checkSignature has the length of its remainder tested (trailing bytes are not ignored)",
		"T-RAWHASH: for every key family (SM2, RSA, NIST-ECDSA) and every signature algorithm of that family incl. the default, each of CreateCertificate, CreateCertificateRequest, CreateCRL and CreateRevocationList hands the signer the raw to-be-signed bytes exactly when the signer is an SM2 key (the convention checkSignature applies to SM2-curve keys) and a digest otherwise; the predicate in the source is evaluated over the finite table of combinations",
		"T-RAWHASH-verifier: checkSignature verifies SM2-curve keys with Sm2Verify over the raw signed bytes and other ECDSA/RSA keys over the digest",
		"T-SIGALG: every row of signatureAlgorithmDetails maps, in checkSignature's switch, to the same hash; SM2 rows carry the ECDSA key type; unknown algorithms are rejected",
		"K-C09-oid: SM2/SM3 signature OIDs and the SM2 named-curve OID equal their registered values; curve<->OID maps are inverse for SM2; default SM2 parameters are SM3 + the SM2-with-SM3 OID",
		"T-PSS-salt / T-PSS-opts: every rsa.PSSOptions built in the package (creators and verifier) uses SaltLength = hash size as the encoded parameters announce, and every creator can hand PSS options to the signer",
		"K-C09-bitstring: the content of a parsed signature-value asn1.BitString is taken through RightAlign(), which honours the declared bit length, never through the Bytes field: with Bytes the unused-bits octet is ignored and a re-encoded signature value with another bit length still verifies",
		"G-C09-sigbits: each creator places the signer's output as the BIT STRING signature and the chosen AlgorithmIdentifier in both the TBS and the outer structure")
	c.NotDec = append(c.NotDec, "field-by-field parse-back of all template fields", "failure under any other key / any modified byte (cryptographic)")

	rows, pos := sigDetails(c)
	if len(rows) < 15 {
		c.Undecided("T-SIGALG", "x509.signatureAlgorithmDetails", "table", fmt.Sprintf("only %d rows could be read from the literal", len(rows)), pos)
		return
	}
	K := func(n string) int64 { v, _ := pkgConst(c, "x509", n); return v }
	SM3, SHA1, SHA256, SHA384, SHA512 := K("SM3"), K("SHA1"), K("SHA256"), K("SHA384"), K("SHA512")
	_ = SHA1
	ECDSA, RSA := K("ECDSA"), K("RSA")
	sm2algos := map[int64]bool{K("SM2WithSM3"): true, K("SM2WithSHA1"): true, K("SM2WithSHA256"): true}
	// T-SIGALG part 1: SM2 rows
	for _, r := range rows {
		if sm2algos[r.algo] {
			c.Check(r.pubKeyAlgo == ECDSA, "T-SIGALG", "x509.signatureAlgorithmDetails", fmt.Sprintf("row algo=%d key type", r.algo), "SM2 algorithms use the EC key type", "an SM2 signature algorithm row does not carry the ECDSA public-key type", pos)
		}
	}
	// models
	var models []signModel
	hashOf := func(algo int64) int64 {
		for _, r := range rows {
			if r.algo == algo {
				return r.hash
			}
		}
		return -1
	}
	for a := range sm2algos {
		models = append(models, signModel{"SM2", a, hashOf(a)})
	}
	models = append(models, signModel{"SM2", 0, SM3})
	for _, r := range rows {
		if r.hash <= 0 || sm2algos[r.algo] {
			continue
		}
		if r.pubKeyAlgo == RSA {
			models = append(models, signModel{"RSA", r.algo, r.hash})
		}
		if r.pubKeyAlgo == ECDSA {
			models = append(models, signModel{"ECDSA", r.algo, r.hash})
		}
	}
	models = append(models, signModel{"RSA", 0, SHA256}, signModel{"ECDSA", 0, SHA256}, signModel{"ECDSA", 0, SHA384}, signModel{"ECDSA", 0, SHA512})
	sort.Slice(models, func(i, j int) bool {
		if models[i].keyfam != models[j].keyfam {
			return models[i].keyfam < models[j].keyfam
		}
		if models[i].algo != models[j].algo {
			return models[i].algo < models[j].algo
		}
		return models[i].hash < models[j].hash
	})
	// default parameters per key type in signingParamsForPublicKey
	c09Defaults(c, SM3, SHA256)

	creators := []struct{ pkg, name string }{{"x509", "CreateCertificate"}, {"x509", "CreateCertificateRequest"}, {"x509", "(*Certificate).CreateCRL"}, {"x509", "CreateRevocationList"}}
	for _, cr := range creators {
		f := c.Fn(cr.pkg, cr.name)
		if f == nil {
			c.Missing("T-RAWHASH", "x509."+cr.name, "function", "creator not found")
			continue
		}
		c09Creator(c, f, models)
	}
	c09Verifier(c, rows)
	c09OIDs(c)
	c09PSS(c)
	c09KeyUsage(c)
	c09ExtAgree(c)
	c09SignedBytes(c)
	c09BitStrings(c)
	c09HashSelection(c)
	c09SubjectBytes(c)
	for _, fn := range []string{"Sm2Verify", "Verify"} {
		if f := c.Fn("sm2", fn); f != nil {
			c01Verify(c, f) // r, s outside [1, n-1] rejected: otherwise (r, s+n) is a second valid signature value (rule of C01)
		}
	}
	if n := pointWidth(c, "P-WIDTH-point", []string{"x509", "sm2"}); n > 0 {
		c.Holds("P-WIDTH-point", "x509, sm2", "no point is encoded as 0x04 || X.Bytes() || Y.Bytes()", fmt.Sprintf("%d append chains inspected", n), token.NoPos)
	}
	noGlobalWrites(c, "FX-C09-pure", [][2]string{{"x509", "(*Certificate).CheckSignatureFrom"}, {"x509", "(*Certificate).CheckSignature"}, {"x509", "(*Certificate).CheckCRLSignature"}, {"x509", "(*CertificateRequest).CheckSignature"}},
		"the verdict depends on earlier calls — e.g. a cache of verified certificates keyed by the child only makes a certificate verify under any issuer after it verified under its own")
}

// c09Creator: evaluate the raw/digest predicate of one creator over all models
func c09Creator(c *Ctx, f *ssa.Function, models []signModel) {
	fn := fname(f)
	// the signer's Sign call
	var sign *ssa.Call
	for _, ci := range allCalls(f) {
		call, ok := ci.(*ssa.Call)
		if ok && call.Call.IsInvoke() && call.Call.Method.Name() == "Sign" && strings.HasSuffix(types.TypeString(call.Call.Value.Type(), nil), "crypto.Signer") {
			sign = call
		}
	}
	if sign == nil {
		c.Undecided("T-RAWHASH", fn, "signer.Sign call", "the creator does not call Sign on a crypto.Signer", f.Pos())
		return
	}
	digest := sign.Call.Args[1]
	phi, ok := digest.(*ssa.Phi)
	if !ok {
		c.Undecided("T-RAWHASH", fn, "message handed to the signer", "the signed message is not chosen between the raw bytes and a digest (no join)", sign.Pos())
		return
	}
	// classify edges: raw = result #0 of asn1.Marshal ; digest = Sum(...) of a hash
	kind := map[*ssa.BasicBlock]string{}
	for i, e := range phi.Edges {
		pred := phi.Block().Preds[i]
		switch x := e.(type) {
		case *ssa.Extract:
			if call, ok := x.Tuple.(*ssa.Call); ok && calleeID(&call.Call) == "encoding/asn1.Marshal" {
				kind[pred] = "raw"
			}
		case *ssa.Call:
			if x.Call.IsInvoke() && x.Call.Method.Name() == "Sum" {
				// the hash must have been fed exactly the TBS bytes
				kind[pred] = "digest"
			}
		}
		if kind[pred] == "" {
			c.Undecided("T-RAWHASH", fn, "message handed to the signer", "an alternative is neither the marshalled TBS nor a hash.Sum", sign.Pos())
			return
		}
	}
	// which algorithm is passed to signingParamsForPublicKey
	var sp *ssa.Call
	for _, ci := range allCalls(f) {
		if call, ok := ci.(*ssa.Call); ok && call.Call.StaticCallee() != nil && call.Call.StaticCallee().Name() == "signingParamsForPublicKey" {
			sp = call
		}
	}
	fixedAlgo := int64(-1)
	if sp != nil {
		if k, ok := constInt(sp.Call.Args[1]); ok {
			fixedAlgo = k
		}
	}
	entry := phi.Block().Idom()
	seenModels := map[string]bool{}
	for _, m := range models {
		if fixedAlgo >= 0 && m.algo != fixedAlgo {
			continue
		}
		key := fmt.Sprintf("%s algo=%d hash=%d", m.keyfam, m.algo, m.hash)
		if seenModels[key] {
			continue
		}
		seenModels[key] = true
		c.Evals++
		pred, why := c09Walk(f, entry, phi.Block(), m, sp)
		construct := "signer input for " + key
		if pred == nil {
			c.Undecided("T-RAWHASH", fn, construct, "the choice between raw bytes and digest depends on a condition the rule cannot evaluate: "+why, sign.Pos())
			continue
		}
		got := kind[pred]
		want := "digest"
		if m.keyfam == "SM2" {
			want = "raw"
		}
		c.Check(got == want, "T-RAWHASH", fn, construct, got, fmt.Sprintf("the signer receives the %s but the verifier checks %s keys over the %s: the object fails its own verification", got, m.keyfam, map[string]string{"raw": "raw signed bytes", "digest": "digest"}[want]), sign.Pos())
	}
	// the hash, when used, is fed exactly the TBS bytes
	okFeed := true
	for _, ci := range allCalls(f) {
		call, ok := ci.(*ssa.Call)
		if !ok || !call.Call.IsInvoke() || call.Call.Method.Name() != "Write" {
			continue
		}
		if !strings.HasSuffix(types.TypeString(call.Call.Value.Type(), nil), "hash.Hash") {
			continue
		}
		if ex, ok := call.Call.Args[0].(*ssa.Extract); !ok || kindOfMarshal(ex) != "asn1.Marshal" {
			okFeed = false
		}
	}
	c.Check(okFeed, "T-RAWHASH", fn, "digest is taken over the marshalled TBS", "", "the hash is fed something other than the marshalled to-be-signed bytes", sign.Pos())
	// signature goes into the outer structure
	c09SigBits(c, f, sign)
}

func kindOfMarshal(ex *ssa.Extract) string {
	if call, ok := ex.Tuple.(*ssa.Call); ok && calleeID(&call.Call) == "encoding/asn1.Marshal" {
		return "asn1.Marshal"
	}
	return ""
}

// c09Walk: follow the CFG from `from` to the join block evaluating conditions under the model; returns the
// predecessor through which the join is entered.
func c09Walk(f *ssa.Function, from, join *ssa.BasicBlock, m signModel, sp *ssa.Call) (*ssa.BasicBlock, string) {
	cur := from
	for steps := 0; steps < 200; steps++ {
		last := cur.Instrs[len(cur.Instrs)-1]
		var next *ssa.BasicBlock
		switch t := last.(type) {
		case *ssa.Jump:
			next = cur.Succs[0]
		case *ssa.If:
			v, ok, why := c09Eval(t.Cond, m, sp)
			if !ok {
				return nil, why
			}
			if v {
				next = cur.Succs[0]
			} else {
				next = cur.Succs[1]
			}
		default:
			return nil, "path leaves the function"
		}
		if next == join {
			return cur, ""
		}
		cur = next
	}
	return nil, "no path to the join"
}

// c09Eval: evaluate a condition under the model
func c09Eval(cond ssa.Value, m signModel, sp *ssa.Call) (bool, bool, string) {
	if u, ok := cond.(*ssa.UnOp); ok && u.Op == token.NOT {
		v, ok, why := c09Eval(u.X, m, sp)
		return !v, ok, why
	}
	if ex, ok := cond.(*ssa.Extract); ok && ex.Index == 1 {
		if ta, ok := ex.Tuple.(*ssa.TypeAssert); ok && ta.CommaOk {
			// on signer.Public()
			if call, ok := ta.X.(*ssa.Call); ok && call.Call.IsInvoke() && call.Call.Method.Name() == "Public" {
				t := types.TypeString(ta.AssertedType, nil)
				switch {
				case strings.HasSuffix(t, "sm2.PublicKey"):
					return m.keyfam == "SM2", true, ""
				case strings.HasSuffix(t, "rsa.PublicKey"):
					return m.keyfam == "RSA", true, ""
				case strings.HasSuffix(t, "ecdsa.PublicKey"):
					return m.keyfam == "ECDSA", true, ""
				}
			}
		}
		return false, false, "type assertion on something other than signer.Public()"
	}
	if bo, ok := cond.(*ssa.BinOp); ok && (bo.Op == token.EQL || bo.Op == token.NEQ) {
		k, isC := constInt(bo.Y)
		x := bo.X
		if !isC {
			k, isC = constInt(bo.X)
			x = bo.Y
		}
		if !isC {
			return false, false, "comparison without a constant"
		}
		var val int64
		switch tagOf(x, sp) {
		case "algo":
			val = m.algo
		case "hash":
			val = m.hash
		default:
			return false, false, "comparison on a value that is neither the template's SignatureAlgorithm nor the hash chosen by signingParamsForPublicKey"
		}
		if bo.Op == token.EQL {
			return val == k, true, ""
		}
		return val != k, true, ""
	}
	// isRSAPSS() etc. are not part of the raw/digest region
	return false, false, "unsupported condition form"
}

func tagOf(x ssa.Value, sp *ssa.Call) string {
	x = stripConvAll(x)
	if ld, ok := x.(*ssa.UnOp); ok && ld.Op == token.MUL {
		if fa, ok := ld.X.(*ssa.FieldAddr); ok && fieldName(fa.X.Type(), fa.Field) == "SignatureAlgorithm" {
			return "algo"
		}
	}
	if ex, ok := x.(*ssa.Extract); ok && sp != nil && ex.Tuple == ssa.Value(sp) && ex.Index == 0 {
		return "hash"
	}
	return ""
}

func c09SigBits(c *Ctx, f *ssa.Function, sign *ssa.Call) {
	// the signature bytes (Extract #0 of Sign) are stored into a BitString.Bytes field of the returned structure
	var sig ssa.Value
	for _, u := range *sign.Referrers() {
		if ex, ok := u.(*ssa.Extract); ok && ex.Index == 0 {
			sig = ex
		}
	}
	ok := false
	if sig != nil {
		for _, u := range *sig.Referrers() {
			if st, isSt := u.(*ssa.Store); isSt {
				if fa, isFA := st.Addr.(*ssa.FieldAddr); isFA && fieldName(fa.X.Type(), fa.Field) == "Bytes" {
					ok = true
				}
			}
		}
	}
	c.Check(ok, "G-C09-sigbits", fname(f), "signature value = signer output", "", "the bytes returned by the signer are not what is stored as the signature BIT STRING", sign.Pos())
	spec, _ := defaultResultSpec(f)
	g := evalGuard(c.P, f, errCheckAtoms(f, func(cl *ssa.Call) bool { return cl == sign }, "sign error"), spec, nil)
	c.Check(g.OK, "G-C09-sigbits", fname(f), "signer errors are returned", g.Why, g.Why, g.Pos)
}

// c09Defaults: signingParamsForPublicKey defaults: SM2 -> SM3 + oidSignatureSM2WithSM3; RSA -> SHA256
func c09Defaults(c *Ctx, SM3, SHA256 int64) {
	f := c.Fn("x509", "signingParamsForPublicKey")
	if f == nil {
		c.Missing("K-C09-oid", "x509.signingParamsForPublicKey", "function", "not found")
		return
	}
	// in the *sm2.PublicKey arm: hashFunc const SM3 and Algorithm = oidSignatureSM2WithSM3
	foundOID := false
	instrsOf(f, func(b *ssa.BasicBlock, in ssa.Instruction) {
		if st, ok := in.(*ssa.Store); ok {
			if g := globalOf(st.Val); g != nil && g.Name() == "oidSignatureSM2WithSM3" {
				foundOID = true
			}
		}
	})
	// hashFunc phi contains const SM3 on an edge dominated by the sm2 type-switch arm and the P256Sm2 curve case
	foundHash := false
	instrsOf(f, func(_ *ssa.BasicBlock, in ssa.Instruction) {
		if phi, ok := in.(*ssa.Phi); ok {
			for _, e := range phi.Edges {
				if k, ok := constInt(e); ok && k == SM3 && strings.HasSuffix(phi.Type().String(), "x509.Hash") {
					foundHash = true
				}
			}
		}
	})
	c.Check(foundOID && foundHash, "K-C09-oid", fname(f), "SM2 keys default to SM3 with the SM2-with-SM3 OID", "", "the default signing parameters for SM2 keys are not (SM3, oidSignatureSM2WithSM3)", f.Pos())
}

var sm2Family = map[int64]bool{}

func c09Verifier(c *Ctx, rows []sigRow) {
	for _, n := range []string{"SM2WithSM3", "SM2WithSHA1", "SM2WithSHA256"} {
		if v, ok := pkgConst(c, "x509", n); ok {
			sm2Family[v] = true
		}
	}
	f := c.Fn("x509", "checkSignature")
	if f == nil {
		c.Missing("T-RAWHASH-verifier", "x509.checkSignature", "function", "not found")
		return
	}
	fn := fname(f)
	names := paramNames(f, "algo", "signed", "signature", "publicKey")
	be := newBigEnv(f, names)
	// SM2 arm: Sm2Verify(sm2pub, signed, nil, R, S)
	var sv *ssa.Call
	for _, ci := range allCalls(f) {
		if call, ok := ci.(*ssa.Call); ok && call.Call.StaticCallee() != nil && call.Call.StaticCallee().Name() == "Sm2Verify" {
			sv = call
		}
	}
	if sv == nil {
		c.Violated("T-RAWHASH-verifier", fn, "SM2 keys verified with Sm2Verify", "checkSignature never calls sm2.Sm2Verify", f.Pos())
	} else {
		msg := be.bytesOf(sv.Call.Args[1], sv).String()
		uid := be.bytesOf(sv.Call.Args[2], sv).String()
		c.Check(msg == "signed" && strings.HasPrefix(uid, "const:nil"), "T-RAWHASH-verifier", fn, "Sm2Verify over the raw signed bytes with the default ID", "", "SM2 verification is over "+msg+" with uid "+uid, sv.Pos())
		// guarded by curve == sm2.P256Sm2()
		ci := &condIndex{f, be, condList(f, be)}
		okCurve := ci.dominatedByCond(sv.Block(), `re:eq\(.*\.Curve,call:sm2\.P256Sm2\(\)\)`, true)
		if !okCurve {
			for _, s := range ci.conds {
				if strings.Contains(s, "P256Sm2") {
					dbg("curve cond: %s", s)
				}
			}
		}
		c.Check(okCurve, "T-RAWHASH-verifier", fn, "the SM2 arm is selected by the SM2 curve", "", "Sm2Verify is not guarded by pub.Curve == sm2.P256Sm2()", sv.Pos())
		spec, _ := defaultResultSpec(f)
		g := evalReject(c.P, f, boolCallAtoms(f, func(cl *ssa.Call) bool { return cl == sv }, true, "Sm2Verify"), spec)
		c.Check(g.OK, "T-RAWHASH-verifier", fn, "a false Sm2Verify is an error", g.Why, g.Why, g.Pos)
	}
	// other verifiers take fnHash()
	for _, ci := range allCalls(f) {
		call, ok := ci.(*ssa.Call)
		if !ok {
			continue
		}
		id := calleeID(&call.Call)
		var msgArg ssa.Value
		switch id {
		case "crypto/ecdsa.Verify":
			msgArg = call.Call.Args[1]
		case "crypto/rsa.VerifyPKCS1v15", "crypto/rsa.VerifyPSS":
			msgArg = call.Call.Args[2]
		default:
			continue
		}
		isHash := false
		if hc, ok := msgArg.(*ssa.Call); ok {
			// closure fnHash: hashes `signed`
			if mc, ok := hc.Call.Value.(*ssa.MakeClosure); ok {
				if fnv, ok := mc.Fn.(*ssa.Function); ok {
					_, ws, sum := hashWritesGeneric(fnv)
					isHash = sum && ws == 1
				}
			}
		}
		c.Check(isHash, "T-RAWHASH-verifier", fn, "digest given to "+id, "", id+" is not given the hash of the signed bytes", call.Pos())
	}
	// T-SIGALG: switch over algo -> hashType, compared with the details table. The hash variable is captured
	// by a closure, so the switch arms store constants into its cell: follow the path for each algorithm and
	// take the last constant stored before the availability test.
	seen := map[int64]bool{}
	for _, r := range rows {
		if seen[r.algo] {
			continue
		}
		seen[r.algo] = true
		got, reached, why := c09HashFor(f, r.algo)
		construct := fmt.Sprintf("algorithm %d", r.algo)
		if !reached {
			// the path returns before a hash is used: allowed only for algorithms the verifier refuses
			if r.hash > 0 && !strings.Contains(why, "return") {
				c.Undecided("T-SIGALG", fn, construct, why, f.Pos())
			} else {
				c.Holds("T-SIGALG", fn, construct, "refused by the verifier ("+why+")", f.Pos())
			}
			continue
		}
		if sm2Family[r.algo] {
			// SM2-curve keys are verified over the raw bytes: the hash only has to be one that exists
			c.Holds("T-SIGALG", fn, construct, fmt.Sprintf("SM2 family: handled (hash %d unused by Sm2Verify)", got), f.Pos())
			continue
		}
		c.Check(got == r.hash, "T-SIGALG", fn, construct, fmt.Sprintf("hash %d in both tables", got), fmt.Sprintf("checkSignature uses hash %d for algorithm %d but signatureAlgorithmDetails says %d: objects created with it would not verify", got, r.algo, r.hash), f.Pos())
	}
	c.MinSites("T-SIGALG", 15)
}

// c09HashFor: walk checkSignature for a given algorithm value; returns the last Hash constant stored before
// the call of Hash.Available.
func c09HashFor(f *ssa.Function, algo int64) (int64, bool, string) {
	cur := f.Blocks[0]
	var last int64 = -1
	for steps := 0; steps < 300; steps++ {
		for _, in := range cur.Instrs {
			if st, ok := in.(*ssa.Store); ok {
				if _, isAl := st.Addr.(*ssa.Alloc); isAl && strings.HasSuffix(st.Val.Type().String(), "x509.Hash") {
					if k, ok := constInt(st.Val); ok {
						last = k
					}
				}
			}
			if call, ok := in.(*ssa.Call); ok {
				if sc := call.Call.StaticCallee(); sc != nil && sc.Name() == "Available" {
					return last, last >= 0, ""
				}
			}
		}
		t := cur.Instrs[len(cur.Instrs)-1]
		switch x := t.(type) {
		case *ssa.Jump:
			cur = cur.Succs[0]
		case *ssa.If:
			v, ok, why := c09EvalAlgo(x.Cond, algo, f)
			if !ok {
				return 0, false, why
			}
			if v {
				cur = cur.Succs[0]
			} else {
				cur = cur.Succs[1]
			}
		case *ssa.Return:
			return 0, false, "return before any hash is selected"
		default:
			return 0, false, "path ends"
		}
	}
	return 0, false, "too long"
}

func c09EvalAlgo(cond ssa.Value, algo int64, f *ssa.Function) (bool, bool, string) {
	bo, ok := cond.(*ssa.BinOp)
	if !ok || (bo.Op != token.EQL && bo.Op != token.NEQ) {
		return false, false, "condition is not a comparison of the algorithm with a constant"
	}
	k, isC := constInt(bo.Y)
	if !isC || stripConvAll(bo.X) != ssa.Value(f.Params[0]) {
		// the parameter may be spilled
		if ld, ok := stripConvAll(bo.X).(*ssa.UnOp); ok {
			if al, ok := ld.X.(*ssa.Alloc); ok && singleStore(al) == ssa.Value(f.Params[0]) && isC {
				if bo.Op == token.EQL {
					return algo == k, true, ""
				}
				return algo != k, true, ""
			}
		}
		return false, false, "condition is not a comparison of the algorithm with a constant"
	}
	if bo.Op == token.EQL {
		return algo == k, true, ""
	}
	return algo != k, true, ""
}

// hashWritesGeneric: in fn, h := X.New(); h.Write(v)…; return h.Sum(nil): returns (hash obj found, number of writes, sum returned)
func hashWritesGeneric(f *ssa.Function) (bool, int, bool) {
	w := 0
	sum := false
	for _, ci := range allCalls(f) {
		cc := ci.Common()
		if cc.IsInvoke() && strings.HasSuffix(types.TypeString(cc.Value.Type(), nil), "hash.Hash") {
			switch cc.Method.Name() {
			case "Write":
				w++
			case "Sum":
				sum = true
			}
		}
	}
	return true, w, sum
}

func c09OIDs(c *Ctx) {
	pk := c.P.Pkgs["x509"]
	tabs := pkgTables(pk)
	want := map[string]string{
		"oidSignatureSM2WithSM3":    "1.2.156.10197.1.501",
		"oidSignatureSM2WithSHA1":   "1.2.156.10197.1.502",
		"oidSignatureSM2WithSHA256": "1.2.156.10197.1.503",
		"oidNamedCurveP256SM2":      "1.2.156.10197.1.301",
	}
	found := map[string]bool{}
	for _, t := range tabs {
		w, ok := want[t.Name]
		if !ok || len(t.Rows) != 1 {
			continue
		}
		found[t.Name] = true
		var parts []string
		for _, v := range t.Rows[0] {
			parts = append(parts, v.String())
		}
		got := strings.Join(parts, ".")
		c.Check(got == w, "K-C09-oid", "x509."+t.Name, "registered OID", got, "OID is "+got+", registered value "+w, t.Pos)
	}
	for n := range want {
		if !found[n] {
			c.Missing("K-C09-oid", "x509."+n, "OID", "object identifier variable not found")
		}
	}
	// curve <-> OID maps
	if f := c.Fn("x509", "oidFromNamedCurve"); f != nil {
		be := newBigEnv(f, paramNames(f, "curve"))
		ok := false
		for _, b := range f.Blocks {
			if ret, isR := b.Instrs[len(b.Instrs)-1].(*ssa.Return); isR {
				if g := globalOf(ret.Results[0]); g != nil && g.Name() == "oidNamedCurveP256SM2" {
					conds := dominatingConds(be, b)
					for k := range conds {
						if strings.Contains(k, "call:sm2.P256Sm2()") && strings.HasSuffix(k, "=true") {
							ok = true
						}
					}
				}
			}
		}
		c.Check(ok, "K-C09-oid", fname(f), "SM2 curve -> SM2 named-curve OID", "", "oidFromNamedCurve does not map sm2.P256Sm2() to oidNamedCurveP256SM2", f.Pos())
	}
	if f := c.Fn("x509", "namedCurveFromOID"); f != nil {
		be := newBigEnv(f, paramNames(f, "oid"))
		ok := false
		for _, b := range f.Blocks {
			if ret, isR := b.Instrs[len(b.Instrs)-1].(*ssa.Return); isR {
				if be.plain(ret.Results[0], ret).String() == "call:sm2.P256Sm2()" {
					conds := dominatingConds(be, b)
					for k := range conds {
						if strings.Contains(k, "global:oidNamedCurveP256SM2") && strings.HasSuffix(k, "=true") {
							ok = true
						}
					}
				}
			}
		}
		c.Check(ok, "K-C09-oid", fname(f), "SM2 named-curve OID -> SM2 curve", "", "namedCurveFromOID does not map oidNamedCurveP256SM2 to sm2.P256Sm2()", f.Pos())
	}
}

// c09PSS: RSA-PSS agreement between the signing and the verifying side.
//
//	T-PSS-salt: every rsa.PSSOptions built in package x509 (handed to Signer.Sign by the creators, to rsa.VerifyPSS by
//	checkSignature) has SaltLength == rsa.PSSSaltLengthEqualsHash, the value the encoded RSASSA-PSS parameters announce;
//	T-PSS-opts: every creator's Sign call can receive such options (on the isRSAPSS path) — otherwise an object whose
//	AlgorithmIdentifier says RSASSA-PSS carries a PKCS#1 v1.5 signature and fails its own verification.
func c09PSS(c *Ctx) {
	isPSSOpts := func(t types.Type) bool {
		return strings.HasSuffix(t.String(), "crypto/rsa.PSSOptions")
	}
	nOpts := 0
	for _, f := range c.P.RepoFuncs("x509") {
		perFn := 0
		instrsOf(f, func(_ *ssa.BasicBlock, in ssa.Instruction) {
			al, ok := in.(*ssa.Alloc)
			if !ok {
				return
			}
			pt, ok := al.Type().Underlying().(*types.Pointer)
			if !ok || !isPSSOpts(pt.Elem()) {
				return
			}
			nOpts++
			perFn++
			c.Evals++
			salt := int64(0) // zero value: PSSSaltLengthAuto
			found := false
			for _, u := range *al.Referrers() {
				fa, ok := u.(*ssa.FieldAddr)
				if !ok || fieldName(al.Type(), fa.Field) != "SaltLength" {
					continue
				}
				for _, u2 := range *fa.Referrers() {
					if st, ok := u2.(*ssa.Store); ok && st.Addr == ssa.Value(fa) {
						if k, isC := constInt(st.Val); isC {
							salt, found = k, true
						} else {
							salt, found = 12345, true
						}
					}
				}
			}
			_ = found
			c.Check(salt == -1, "T-PSS-salt", fname(f), fmt.Sprintf("PSSOptions #%d uses SaltLength = hash size", perFn), "rsa.PSSSaltLengthEqualsHash on both sides, as announced by the encoded parameters", fmt.Sprintf("SaltLength is %d (0 = auto/maximal): the signer, the verifier and the encoded RSASSA-PSS parameters (salt length = hash size) no longer agree, so RSA-PSS objects fail verification under their own issuer", salt), al.Pos())
		})
	}
	if nOpts < 3 {
		c.Undecided("T-PSS-salt", "x509", "PSSOptions literals", fmt.Sprintf("only %d found (expected the two creators and the verifier)", nOpts), token.NoPos)
	}
	// creators
	var reaches func(v ssa.Value, depth int, seen map[ssa.Value]bool) bool
	reaches = func(v ssa.Value, depth int, seen map[ssa.Value]bool) bool {
		if depth > 8 || seen[v] {
			return false
		}
		seen[v] = true
		switch x := v.(type) {
		case *ssa.Alloc:
			if pt, ok := x.Type().Underlying().(*types.Pointer); ok && isPSSOpts(pt.Elem()) {
				return true
			}
			// a variable cell: any stored value
			for _, u := range *x.Referrers() {
				if st, ok := u.(*ssa.Store); ok && st.Addr == ssa.Value(x) && reaches(st.Val, depth+1, seen) {
					return true
				}
			}
		case *ssa.MakeInterface:
			return reaches(x.X, depth+1, seen)
		case *ssa.ChangeInterface:
			return reaches(x.X, depth+1, seen)
		case *ssa.Phi:
			for _, e := range x.Edges {
				if reaches(e, depth+1, seen) {
					return true
				}
			}
		case *ssa.UnOp:
			if x.Op == token.MUL {
				return reaches(x.X, depth+1, seen)
			}
		case *ssa.Call:
			if sc := x.Call.StaticCallee(); sc != nil && inRepo(sc) {
				for _, b := range sc.Blocks {
					if ret, ok := b.Instrs[len(b.Instrs)-1].(*ssa.Return); ok && len(ret.Results) == 1 && reaches(ret.Results[0], depth+1, seen) {
						return true
					}
				}
			}
		}
		return false
	}
	nSign := 0
	for _, name := range []string{"CreateCertificate", "CreateCertificateRequest", "CreateRevocationList", "(*Certificate).CreateCRL"} {
		f := c.Fn("x509", name)
		if f == nil {
			continue
		}
		// a creator that always asks for the default algorithm (requested algorithm is the constant 0) never
		// produces RSA-PSS: the default for RSA keys is PKCS#1 v1.5
		onlyDefault := false
		if sp := findCall(f, "signingParamsForPublicKey"); sp != nil && len(sp.Common().Args) == 2 {
			if k, isC := constInt(sp.Common().Args[1]); isC && k == 0 {
				onlyDefault = true
			}
		}
		for _, ci := range allCalls(f) {
			call, ok := ci.(*ssa.Call)
			if !ok || !call.Call.IsInvoke() || call.Call.Method.Name() != "Sign" || len(call.Call.Args) != 3 {
				continue
			}
			nSign++
			if onlyDefault {
				c.Holds("T-PSS-opts", fname(f), fmt.Sprintf("Sign #%d can receive RSA-PSS options", siteOrdinalByID(f, call)), "not needed: this creator always requests the default algorithm, which is never RSA-PSS", call.Pos())
				continue
			}
			c.Evals++
			ok2 := reaches(call.Call.Args[2], 0, map[ssa.Value]bool{})
			c.Check(ok2, "T-PSS-opts", fname(f), fmt.Sprintf("Sign #%d can receive RSA-PSS options", siteOrdinalByID(f, call)), "", "the signer options are never rsa.PSSOptions: for an RSA-PSS signature algorithm the object announces RSASSA-PSS but carries a PKCS#1 v1.5 signature and fails its own verification", call.Pos())
		}
	}
	if nSign < 3 {
		c.Undecided("T-PSS-opts", "x509", "creators", fmt.Sprintf("only %d Sign calls found", nSign), token.NoPos)
	}
}

// c09KeyUsage: KeyUsage has 9 defined bits (DigitalSignature .. DecipherOnly = 1<<8); the value parseCertificate
// stores must be able to carry the highest one. A stored value whose static range is provably below that bit
// necessarily loses it on parse-back (a necessary condition of "parses back to the same field values").
func c09KeyUsage(c *Ctx) {
	rule := "K-C09-keyusage"
	maxBit := int64(0)
	sp := c.P.Pkgs["x509"]
	if sp != nil {
		for _, name := range sp.Types.Scope().Names() {
			if cst, ok := sp.Types.Scope().Lookup(name).(*types.Const); ok && strings.HasSuffix(cst.Type().String(), "x509.KeyUsage") {
				if v, ok := constant.Int64Val(cst.Val()); ok && v > maxBit {
					maxBit = v
				}
			}
		}
	}
	if maxBit < 256 {
		c.Undecided(rule, "x509.KeyUsage", "constants", fmt.Sprintf("highest KeyUsage constant found is %d", maxBit), token.NoPos)
		return
	}
	f := c.Fn("x509", "parseCertificate")
	if f == nil {
		c.Missing(rule, "x509.parseCertificate", "function", "not found")
		return
	}
	lb := &LB{p: c.P, f: f, UsedContracts: map[string]bool{}}
	n := 0
	instrsOf(f, func(b *ssa.BasicBlock, in ssa.Instruction) {
		st, ok := in.(*ssa.Store)
		if !ok {
			return
		}
		fa, ok := st.Addr.(*ssa.FieldAddr)
		if !ok || fieldName(fa.X.Type(), fa.Field) != "KeyUsage" {
			return
		}
		n++
		c.Evals++
		tooSmall := lb.prove([]cons{le(lb.linOf(st.Val), linConst(maxBit-1))}, b, nil, map[lvar]lin{}, 1)
		c.Check(!tooSmall, rule, fname(f), fmt.Sprintf("parsed KeyUsage #%d can carry every defined bit", n), fmt.Sprintf("not provably below %d", maxBit), fmt.Sprintf("the value stored in Certificate.KeyUsage is provably below %d (bit 8, KeyUsageDecipherOnly): a certificate created with that usage parses back to a different KeyUsage", maxBit), st.Pos())
	})
	if n == 0 {
		c.Undecided(rule, fname(f), "KeyUsage store", "not found", f.Pos())
	}
}

// c09BitStrings: reads of the Bytes field of an encoding/asn1.BitString in package x509 (outside tests). A parsed BIT
// STRING carries a bit length; RightAlign() is the accessor that honours it. The creators build BitString literals
// (stores), which are not reads.
func c09BitStrings(c *Ctx) {
	rule := "K-C09-bitstring"
	isBitString := func(t types.Type) bool {
		if p, ok := t.Underlying().(*types.Pointer); ok {
			t = p.Elem()
		}
		nt, ok := t.(*types.Named)
		return ok && nt.Obj().Name() == "BitString" && nt.Obj().Pkg() != nil && nt.Obj().Pkg().Path() == "encoding/asn1"
	}
	// only signature values are in this property's scope (a public-key BIT STRING read leniently is a decoding matter)
	var isSigValue func(v ssa.Value) bool
	isSigValue = func(v ssa.Value) bool {
		switch x := v.(type) {
		case *ssa.FieldAddr:
			return strings.Contains(fieldName(x.X.Type(), x.Field), "Signature")
		case *ssa.Field:
			return strings.Contains(fieldName(x.X.Type(), x.Field), "Signature")
		case *ssa.UnOp:
			return x.Op == token.MUL && isSigValue(x.X)
		}
		return false
	}
	nRight := 0
	for f := range c.P.AllFns {
		if !inRepo(f) || f.Pkg == nil || f.Pkg.Pkg.Name() != "x509" || f.Blocks == nil || strings.HasSuffix(c.P.relFile(f.Pos()), "_test.go") {
			continue
		}
		k := 0
		instrsOf(f, func(_ *ssa.BasicBlock, in ssa.Instruction) {
			switch x := in.(type) {
			case *ssa.Call:
				if calleeID(&x.Call) == "(encoding/asn1.BitString).RightAlign" {
					nRight++
				}
			case *ssa.Field:
				if isBitString(x.X.Type()) && fieldName(x.X.Type(), x.Field) == "Bytes" && isSigValue(x.X) {
					k++
					c.Violated(rule, fname(f), fmt.Sprintf("read of BitString.Bytes #%d", k), "the bytes of a parsed BIT STRING are used without its bit length (Bytes instead of RightAlign()): encodings that differ only in the unused-bits count are treated as the same value", x.Pos())
				}
			case *ssa.FieldAddr:
				if !isBitString(x.X.Type()) || fieldName(x.X.Type(), x.Field) != "Bytes" || !isSigValue(x.X) {
					return
				}
				for _, u := range *x.Referrers() {
					if ld, ok := u.(*ssa.UnOp); ok && ld.Op == token.MUL {
						k++
						c.Violated(rule, fname(f), fmt.Sprintf("read of BitString.Bytes #%d", k), "the bytes of a parsed BIT STRING are used without its bit length (Bytes instead of RightAlign()): encodings that differ only in the unused-bits count are treated as the same value", ld.Pos())
					}
				}
			}
		})
	}
	if nRight == 0 {
		c.Undecided(rule, "x509", "RightAlign() readers", "no RightAlign() call left in package x509: signature values are read in a way this rule does not know", token.NoPos)
	} else {
		c.Holds(rule, "x509", "no signature value is read through BitString.Bytes", fmt.Sprintf("%d RightAlign() calls", nRight), token.NoPos)
	}
}

// c09HashSelection: when the template names a signature algorithm, the hash used to digest the to-be-signed bytes is
// the one of that algorithm's table row. signingParamsForPublicKey returns the hash as a result: among the values that
// can flow into that result there must be a load of the `hash` field of a signatureAlgorithmDetails row (otherwise
// the key type's default hash is kept while the object announces another one, and nothing it issues verifies).
func c09HashSelection(c *Ctx) {
	rule := "T-SIGALG"
	f := c.Fn("x509", "signingParamsForPublicKey")
	if f == nil {
		c.Missing(rule, "x509.signingParamsForPublicKey", "function", "not found")
		return
	}
	// the crypto.Hash result
	idx := -1
	for i := 0; i < f.Signature.Results().Len(); i++ {
		if strings.HasSuffix(f.Signature.Results().At(i).Type().String(), "Hash") {
			idx = i
		}
	}
	if idx < 0 {
		c.Undecided(rule, fname(f), "hash of the requested algorithm", "no hash result", f.Pos())
		return
	}
	found := false
	seen := map[ssa.Value]bool{}
	var walk func(v ssa.Value, d int)
	walk = func(v ssa.Value, d int) {
		if v == nil || d > 12 || seen[v] || found {
			return
		}
		seen[v] = true
		switch x := v.(type) {
		case *ssa.Phi:
			for _, e := range x.Edges {
				walk(e, d+1)
			}
		case *ssa.UnOp:
			if x.Op == token.MUL {
				switch a := x.X.(type) {
				case *ssa.FieldAddr:
					if fieldName(a.X.Type(), a.Field) == "hash" {
						found = true
					}
				case *ssa.Alloc:
					// a named result spilled to memory: every store into it
					for _, u := range *a.Referrers() {
						if st, ok := u.(*ssa.Store); ok && st.Addr == ssa.Value(a) {
							walk(st.Val, d+1)
						}
					}
				}
			}
		case *ssa.Field:
			if fieldName(x.X.Type(), x.Field) == "hash" {
				found = true
			}
		case *ssa.Extract:
			walk(x.Tuple, d+1)
		}
	}
	for _, b := range f.Blocks {
		if ret, ok := b.Instrs[len(b.Instrs)-1].(*ssa.Return); ok && idx < len(ret.Results) {
			walk(ret.Results[idx], 0)
		}
	}
	c.Check(found, rule, fname(f), "the digest hash is taken from the requested algorithm's table row", "", "no value of the returned hash function comes from the `hash` field of a signatureAlgorithmDetails row: a requested SignatureAlgorithm changes the announced OID but the bytes are digested with the key type's default hash, so every object issued with a non-default algorithm fails verification", f.Pos())
}

// c09SubjectBytes: the issuer name written into an issued certificate is the parent's subject AS ENCODED (RawSubject)
// whenever the parent carries one — a name re-encoded from the parsed pkix.Name drops attributes pkix.Name does not
// model and splits multi-valued RDNs, so the child's issuer would no longer equal the CA's subject and chain building
// fails. Decided on values: with len(cert.RawSubject) >= 1 every reachable return of subjectBytes yields cert.RawSubject.
func c09SubjectBytes(c *Ctx) {
	rule := "G-C09-signedbytes"
	f := c.Fn("x509", "subjectBytes")
	if f == nil {
		c.Undecided(rule, "x509.subjectBytes", "issuer/subject bytes", "function not found", token.NoPos)
		return
	}
	ci := newCondIndex(f, paramNames(f, "cert"))
	bad := token.NoPos
	n := 0
	ci.withInterval("len(cert.RawSubject)", 1, 0, func() {
		for b := range reach([]*ssa.BasicBlock{f.Blocks[0]}, deadEdges(f)) {
			if ret, ok := b.Instrs[len(b.Instrs)-1].(*ssa.Return); ok && len(ret.Results) >= 1 {
				n++
				if ci.be.plain(ret.Results[0], ret).String() != "cert.RawSubject" {
					bad = ret.Pos()
				}
			}
		}
	})
	c.Check(n > 0 && bad == token.NoPos, rule, fname(f), "a certificate that carries RawSubject contributes exactly those bytes", "", "with a non-empty RawSubject the function can return something else (a re-encoding of the parsed name): the issuer field of issued certificates no longer equals the CA's encoded subject", bad)
}
