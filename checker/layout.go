package main

// Byte layout of a fresh buffer that is filled piecewise: make([]byte, N) followed by element stores at constant
// offsets and copies at (running) offsets —
//
//	c := make([]byte, 1+len(x)+len(y)); c[0] = 4; off := 1; off += copy(c[off:], x); copy(c[off:], y)
//
// is the same byte string as append([]byte{4}, x..., y...). The segments are ordered by chaining: the next segment is
// the one whose offset equals the sum of the lengths so far (as linear forms over len(·) symbols), a copy counts with
// the length of its source, and the total must equal N — which also proves that every copy had room for its whole
// source, so the chaining assumption is justified by induction. Anything else (gaps, overlaps, unknown offsets,
// writes that do not dominate the use, other writers) gives no layout.

import (
	"fmt"
	"go/token"

	"golang.org/x/tools/go/ssa"
)

type linForm struct {
	k    int64
	coef map[string]int64
}

func (a linForm) add(b linForm, sign int64) linForm {
	r := linForm{k: a.k + sign*b.k, coef: map[string]int64{}}
	for s, c := range a.coef {
		r.coef[s] = c
	}
	for s, c := range b.coef {
		r.coef[s] += sign * c
		if r.coef[s] == 0 {
			delete(r.coef, s)
		}
	}
	return r
}

func (a linForm) equal(b linForm) bool {
	d := a.add(b, -1)
	return d.k == 0 && len(d.coef) == 0
}

// linOf: the value as a linear form over len(x) symbols; copy results count as the length of their source (see above)
func (e *bigEnv) linOf(v ssa.Value, at ssa.Instruction, depth int) (linForm, bool) {
	if depth > 12 {
		return linForm{}, false
	}
	if k, ok := constInt(v); ok {
		return linForm{k: k, coef: map[string]int64{}}, true
	}
	switch x := v.(type) {
	case *ssa.BinOp:
		if x.Op == token.ADD || x.Op == token.SUB {
			a, ok1 := e.linOf(x.X, at, depth+1)
			b, ok2 := e.linOf(x.Y, at, depth+1)
			if ok1 && ok2 {
				if x.Op == token.ADD {
					return a.add(b, 1), true
				}
				return a.add(b, -1), true
			}
		}
	case *ssa.Convert:
		return e.linOf(x.X, at, depth+1)
	case *ssa.Phi:
		// w := K; if len(x) > w { w = len(x) }: the symbol max(K, len(x))
		if k, l, ok := maxPhi(x); ok {
			lf := e.lenForm(l, x.Block().Instrs[0])
			if len(lf.coef) == 1 && lf.k == 0 {
				for sym := range lf.coef {
					return linForm{coef: map[string]int64{fmt.Sprintf("max(0x%x,%s)", k, sym): 1}}, true
				}
			}
		}
	case *ssa.Call:
		if bi, ok := x.Call.Value.(*ssa.Builtin); ok {
			switch bi.Name() {
			case "len":
				if !isByteSlice(x.Call.Args[0].Type()) {
					break
				}
				return e.lenForm(x.Call.Args[0], x), true
			case "copy":
				return e.lenForm(x.Call.Args[1], x), true
			}
		}
	}
	return linForm{}, false
}

// lenForm: length of a byte string as a linear form, by its canonical layout (pad32 is 32 bytes, literals count)
func (e *bigEnv) lenForm(v ssa.Value, at ssa.Instruction) linForm {
	// a re-slice with linear bounds: high - low (data[:64] is 64 bytes, d[len(d)-32:] is 32)
	if sl, ok := v.(*ssa.Slice); ok && isByteSlice(sl.Type()) && e.lenDepth < 6 {
		e.lenDepth++
		lo, okL := linForm{coef: map[string]int64{}}, true
		if sl.Low != nil {
			lo, okL = e.linOf(sl.Low, at, 0)
		}
		var hi linForm
		okH := true
		if sl.High != nil {
			hi, okH = e.linOf(sl.High, at, 0)
		} else if isByteSlice(sl.X.Type()) {
			hi = e.lenForm(sl.X, at)
		} else {
			okH = false
		}
		e.lenDepth--
		if okL && okH {
			return hi.add(lo, -1)
		}
	}
	x := e.bytesOf(v, at)
	switch x.Op {
	case "lit":
		return linForm{k: int64(len(x.Args)), coef: map[string]int64{}}
	}
	sym := "len(" + stripCopies(x).String() + ")"
	if k, ok := e.lenConst[sym]; ok {
		return linForm{k: k, coef: map[string]int64{}} // a length fixed by the assumption the caller is evaluating under
	}
	return linForm{coef: map[string]int64{sym: 1}}
}

type laySeg struct {
	off  linForm
	n    linForm
	form *X
	in   ssa.Instruction
}

// layoutOf: the canonical concatenation written into the fresh buffer mk, or nil
func (e *bigEnv) layoutOf(mk0 *ssa.MakeSlice, at ssa.Instruction) *X {
	total, ok := e.linOf(mk0.Len, mk0, 0)
	if !ok {
		return nil
	}
	return e.layoutBuf(mk0, total, at)
}

// layoutBuf: layoutOf for any fresh buffer value of known total length (make([]byte, CONST) is a sliced array)
func (e *bigEnv) layoutBuf(mk ssa.Value, total linForm, at ssa.Instruction) *X {
	one := linForm{k: 1, coef: map[string]int64{}}
	var segs []laySeg
	for _, u := range *mk.Referrers() {
		switch y := u.(type) {
		case *ssa.DebugRef, *ssa.Return, *ssa.MakeInterface, *ssa.Phi:
		case *ssa.Store:
			if y.Addr == mk {
				return nil
			}
		case *ssa.IndexAddr:
			k, isK := constInt(y.Index)
			for _, u2 := range *y.Referrers() {
				switch st := u2.(type) {
				case *ssa.Store:
					if !isK || st.Addr != ssa.Value(y) {
						return nil
					}
					segs = append(segs, laySeg{off: linForm{k: k, coef: map[string]int64{}}, n: one, form: Op("lit", e.plain(st.Val, st)), in: st})
				case *ssa.UnOp, *ssa.DebugRef:
				default:
					return nil
				}
			}
		case *ssa.Slice:
			if y.X != mk {
				continue
			}
			for _, u2 := range *y.Referrers() {
				call, isCall := u2.(*ssa.Call)
				if !isCall {
					if _, isDbg := u2.(*ssa.DebugRef); isDbg {
						continue
					}
					return nil
				}
				bi, isBi := call.Call.Value.(*ssa.Builtin)
				if !isBi || bi.Name() != "copy" || call.Call.Args[0] != ssa.Value(y) {
					if isBi && bi.Name() == "copy" {
						continue // read as a source
					}
					return nil
				}
				off := linForm{coef: map[string]int64{}}
				if y.Low != nil {
					o, ok := e.linOf(y.Low, call, 0)
					if !ok {
						return nil
					}
					off = o
				}
				n := e.lenForm(call.Call.Args[1], call)
				if y.High != nil {
					// a bounded window: only when it is exactly as long as the source (the copy is complete)
					hi, ok := e.linOf(y.High, call, 0)
					if !ok || !hi.add(off, -1).equal(n) {
						return nil
					}
				}
				segs = append(segs, laySeg{off: off, n: n, form: e.bytesOf(call.Call.Args[1], call), in: call})
			}
		case *ssa.Call:
			if bi, isBi := y.Call.Value.(*ssa.Builtin); isBi && bi.Name() == "copy" && y.Call.Args[0] == mk {
				segs = append(segs, laySeg{off: linForm{coef: map[string]int64{}}, n: e.lenForm(y.Call.Args[1], y), form: e.bytesOf(y.Call.Args[1], y), in: y})
			} else if isBi && bi.Name() == "append" && y.Call.Args[0] == mk {
				continue
			}
		default:
			return nil
		}
	}
	if len(segs) < 2 {
		return nil
	}
	// every write happens before the point of use
	if at != nil {
		for _, s := range segs {
			if s.in.Block() == at.Block() {
				if instrIndex(s.in) > instrIndex(at) && s.in != at {
					return nil
				}
			} else if !s.in.Block().Dominates(at.Block()) {
				return nil
			}
		}
	}
	cur := linForm{coef: map[string]int64{}}
	var parts []*X
	used := make([]bool, len(segs))
	for n := 0; n < len(segs); n++ {
		found := -1
		for i, s := range segs {
			if !used[i] && s.off.equal(cur) {
				if found >= 0 {
					return nil // two writers of the same offset
				}
				found = i
			}
		}
		if found < 0 {
			// a segment right-aligned in a field that starts here: the field is max(32, len(v)) wide and the segment
			// ends at its end — pad32(v), wherever in the buffer the field lies
			inner := -1
			var w linForm
			for i, sg := range segs {
				if used[i] || sg.form.Op != "bytes" || len(sg.form.Args) != 1 {
					continue
				}
				width := sg.off.add(sg.n, 1).add(cur, -1)
				if len(width.coef) == 1 && width.k == 0 && width.coef["max(0x20,len("+stripCopies(sg.form).String()+"))"] == 1 {
					if inner >= 0 {
						inner = -2
						break
					}
					inner, w = i, width
				}
			}
			if inner >= 0 {
				used[inner] = true
				parts = append(parts, Op("pad32", segs[inner].form.Args[0]))
				cur = cur.add(w, 1)
				continue
			}
			// one segment left, ending exactly at the end of the buffer, after a gap that make() left zero: the
			// segment left-padded with zeros to the remaining width
			left := -1
			for i := range segs {
				if !used[i] {
					if left >= 0 {
						return nil
					}
					left = i
				}
			}
			last := segs[left]
			if left < 0 || !last.off.add(last.n, 1).equal(total) {
				return nil
			}
			width := total.add(cur, -1)
			var wx *X
			switch {
			case len(width.coef) == 0 && width.k > 0:
				wx = K(uint64(width.k))
			case len(width.coef) == 1 && width.k == 0:
				for sym, c := range width.coef {
					if c != 1 {
						return nil
					}
					// at least 32 bytes, more only if the value is longer: the repo's pad32 form
					if last.form.Op == "bytes" && len(last.form.Args) == 1 && sym == "max(0x20,len("+stripCopies(last.form).String()+"))" {
						parts = append(parts, Op("pad32", last.form.Args[0]))
						return concatX(parts...)
					}
					wx = L(sym)
				}
			default:
				return nil
			}
			// a literal after a constant gap is the literal with that many zero bytes in front
			if len(width.coef) == 0 && last.form.Op == "lit" && width.k-int64(len(last.form.Args)) >= 0 && width.k <= 64 {
				var zs []*X
				for i := int64(0); i < width.k-int64(len(last.form.Args)); i++ {
					zs = append(zs, K(0))
				}
				parts = append(parts, Op("lit", append(zs, last.form.Args...)...))
				return concatX(parts...)
			}
			parts = append(parts, Op("padleft", wx, last.form))
			return concatX(parts...)
		}
		used[found] = true
		parts = append(parts, segs[found].form)
		cur = cur.add(segs[found].n, 1)
	}
	if !cur.equal(total) {
		return nil
	}
	return concatX(parts...)
}

// maxPhi: phi is max(K, len(x)) — `w := K; if len(x) > w { w = len(x) }`
func maxPhi(phi *ssa.Phi) (int64, ssa.Value, bool) {
	if len(phi.Edges) != 2 {
		return 0, nil, false
	}
	b := phi.Block()
	for i := 0; i < 2; i++ {
		k, isK := constInt(phi.Edges[i])
		call, isCall := phi.Edges[1-i].(*ssa.Call)
		if !isK || !isCall {
			continue
		}
		bi, isBi := call.Call.Value.(*ssa.Builtin)
		if !isBi || bi.Name() != "len" {
			continue
		}
		// the edge carrying K comes straight from the test, the other from the block the test guards
		tb := b.Preds[i]
		gb := b.Preds[1-i]
		ifi, ok := lastIf(tb)
		if !ok || len(gb.Preds) != 1 || gb.Preds[0] != tb || tb.Succs[0] != gb || tb.Succs[1] != b {
			continue
		}
		bo, ok := ifi.Cond.(*ssa.BinOp)
		if !ok {
			continue
		}
		sameLen := func(v ssa.Value) bool {
			c2, ok := v.(*ssa.Call)
			if !ok {
				return false
			}
			b2, ok := c2.Call.Value.(*ssa.Builtin)
			return ok && b2.Name() == "len" && (c2 == call || c2.Call.Args[0] == call.Call.Args[0])
		}
		isK2 := func(v ssa.Value) bool { k2, ok := constInt(v); return ok && k2 == k }
		if ((bo.Op == token.GTR || bo.Op == token.GEQ) && sameLen(bo.X) && isK2(bo.Y)) || ((bo.Op == token.LSS || bo.Op == token.LEQ) && isK2(bo.X) && sameLen(bo.Y)) {
			return k, call.Call.Args[0], true
		}
	}
	// the mirrored form: `w := len(x); if w < K { w = K }` — the edge carrying len(x) comes straight from the test
	for i := 0; i < 2; i++ {
		k, isK := constInt(phi.Edges[i])
		call, isCall := phi.Edges[1-i].(*ssa.Call)
		if !isK || !isCall {
			continue
		}
		bi, isBi := call.Call.Value.(*ssa.Builtin)
		if !isBi || bi.Name() != "len" {
			continue
		}
		gb := b.Preds[i]   // guarded block assigning K
		tb := b.Preds[1-i] // the test
		ifi, ok := lastIf(tb)
		if !ok || len(gb.Preds) != 1 || gb.Preds[0] != tb || tb.Succs[0] != gb || tb.Succs[1] != b {
			continue
		}
		bo, ok := ifi.Cond.(*ssa.BinOp)
		if !ok {
			continue
		}
		sameLen := func(v ssa.Value) bool {
			c2, ok := v.(*ssa.Call)
			if !ok {
				return false
			}
			b2, ok := c2.Call.Value.(*ssa.Builtin)
			return ok && b2.Name() == "len" && (c2 == call || c2.Call.Args[0] == call.Call.Args[0])
		}
		isK2 := func(v ssa.Value) bool { k2, ok := constInt(v); return ok && k2 == k }
		if ((bo.Op == token.LSS || bo.Op == token.LEQ) && sameLen(bo.X) && isK2(bo.Y)) || ((bo.Op == token.GTR || bo.Op == token.GEQ) && isK2(bo.X) && sameLen(bo.Y)) {
			return k, call.Call.Args[0], true
		}
	}
	return 0, nil, false
}
