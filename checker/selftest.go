package main

// Thorough tier: after deciding the property on /repo's tree, the check re-runs itself on scratch copies of the tree
// with each recorded breaking change (/verif/seeded/<name>/patch.diff) applied, one at a time and each in its own
// process. This does not decide anything about /repo — the verdict and exit status are those of the unchanged tree —
// it measures, on every thorough run, whether the rules still catch the changes they were built against, and records
// the result in the evidence file (coverage.sensitivity). Scratch copies live under the system temp directory and are
// removed as soon as their run is over.

import (
	"encoding/json"
	"fmt"
	"os"
	"os/exec"
	"path/filepath"
	"sort"
	"strings"
)

type seedResult struct {
	Seed     string `json:"seed"`
	Applied  bool   `json:"patch_applied"`
	Detected bool   `json:"detected"`
	Summary  string `json:"summary,omitempty"`
	Note     string `json:"note,omitempty"`
}

func runSelftest(prop string) []seedResult {
	dir := filepath.Join(verifDir, "seeded")
	ents, err := os.ReadDir(dir)
	if err != nil {
		return nil
	}
	var names []string
	for _, e := range ents {
		if !e.IsDir() {
			continue
		}
		mb, err := os.ReadFile(filepath.Join(dir, e.Name(), "meta.json"))
		if err != nil {
			continue
		}
		var meta struct {
			Props  []string `json:"properties_checked"`
			Result string   `json:"check_result"`
		}
		if json.Unmarshal(mb, &meta) != nil {
			continue
		}
		// a seed is a sensitivity witness for the property its author was given (the name prefix) and for any
		// other property whose check was recorded as reporting it; a property that was merely also run is not expected to fire
		mine := strings.HasPrefix(e.Name(), prop+"-")
		for _, w := range strings.Fields(meta.Result) {
			if kv := strings.SplitN(w, ":", 2); len(kv) == 2 && kv[0] == prop && kv[1] != "0" {
				mine = true
			}
		}
		if mine {
			names = append(names, e.Name())
		}
	}
	sort.Strings(names)
	self, err := os.Executable()
	if err != nil {
		return nil
	}
	var out []seedResult
	for _, n := range names {
		r := seedResult{Seed: n}
		tmp, err := os.MkdirTemp("", "gmsmcheck-selftest-")
		if err != nil {
			r.Note = "cannot create scratch directory: " + err.Error()
			out = append(out, r)
			continue
		}
		func() {
			defer os.RemoveAll(tmp)
			scratch := filepath.Join(tmp, "repo")
			sv := filepath.Join(tmp, "verif")
			os.MkdirAll(filepath.Join(sv, "evidence"), 0o755)
			if b, err := os.ReadFile(filepath.Join(verifDir, "known_findings.txt")); err == nil {
				os.WriteFile(filepath.Join(sv, "known_findings.txt"), b, 0o644)
			}
			cp := exec.Command("rsync", "-a", "--exclude", ".git", repoDir+"/", scratch+"/")
			if b, err := cp.CombinedOutput(); err != nil {
				r.Note = "copy failed: " + strings.TrimSpace(string(b))
				return
			}
			patch, _ := filepath.Abs(filepath.Join(dir, n, "patch.diff"))
			ap := exec.Command("git", "apply", "--whitespace=nowarn", patch)
			ap.Dir = scratch
			if b, err := ap.CombinedOutput(); err != nil {
				r.Note = "the recorded change no longer applies to this tree: " + firstLine(string(b))
				return
			}
			r.Applied = true
			run := exec.Command(self, "-repo", scratch, "-verif", sv, "-property", prop, "-tier", "quick")
			run.Env = append(os.Environ(), "GMSMCHECK_SELFTEST=1")
			b, err := run.CombinedOutput()
			for _, l := range strings.Split(string(b), "\n") {
				if strings.HasPrefix(l, "SUMMARY") {
					r.Summary = l
				}
			}
			if ee, ok := err.(*exec.ExitError); ok && ee.ExitCode() == 1 && strings.Contains(string(b), "VIOLATION property="+prop) {
				r.Detected = true
			}
		}()
		out = append(out, r)
	}
	return out
}

func firstLine(s string) string {
	s = strings.TrimSpace(s)
	if i := strings.Index(s, "\n"); i >= 0 {
		return s[:i]
	}
	return s
}

func sensitivityNote(rs []seedResult) string {
	applied, det := 0, 0
	var missed []string
	for _, r := range rs {
		if r.Applied {
			applied++
			if r.Detected {
				det++
			} else {
				missed = append(missed, r.Seed)
			}
		}
	}
	s := fmt.Sprintf("sensitivity self-test: %d recorded breaking changes, %d applied to scratch copies, %d reported as violations", len(rs), applied, det)
	if len(missed) > 0 {
		s += " (NOT reported: " + strings.Join(missed, ", ") + ")"
	}
	return s
}
