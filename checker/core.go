package main

// core.go: loading of /repo's current working tree, obligation bookkeeping,
// known-findings matching, evidence and replay output.

import (
	"crypto/sha256"
	"encoding/hex"
	"encoding/json"
	"fmt"
	"go/ast"
	"go/token"
	"go/types"
	"os"
	"path/filepath"
	"sort"
	"strconv"
	"strings"
	"time"

	"golang.org/x/tools/go/callgraph"
	"golang.org/x/tools/go/callgraph/cha"
	"golang.org/x/tools/go/callgraph/vta"
	"golang.org/x/tools/go/packages"
	"golang.org/x/tools/go/ssa"
	"golang.org/x/tools/go/ssa/ssautil"
)

const modPath = "github.com/tjfoc/gmsm"

var repoDir = "/repo"
var verifDir = "/verif"

// expected packages of the pinned tree (go list ./...)
var expectedPkgs = []string{
	"gmtls", "gmtls/gmcredentials", "gmtls/gmcredentials/echo", "gmtls/websvr",
	"pkcs12", "sm2", "sm3", "sm4", "sm4/padding", "x509",
}

type Prog struct {
	Fset      *token.FileSet
	Pkgs      map[string]*packages.Package // by path relative to module ("sm2")
	SSA       *ssa.Program
	SSAPkg    map[string]*ssa.Package
	AllFns    map[*ssa.Function]bool
	baseFuncs map[string]bool
	byName    map[string]*ssa.Function
	cgCHA     *callgraph.Graph
	cgVTA     *callgraph.Graph
	NumFunc   int
}

func rel(path string) string {
	if path == modPath {
		return "."
	}
	return strings.TrimPrefix(path, modPath+"/")
}

func LoadRepo() (*Prog, error) {
	os.Unsetenv("GOWORK")
	cfg := &packages.Config{
		Mode: packages.LoadAllSyntax,
		Dir:  repoDir,
		Env: append(os.Environ(), "GOFLAGS=-mod=mod", "GOPROXY=off", "GOSUMDB=off",
			"GOTOOLCHAIN=local", "GOOS=linux", "GOARCH=amd64", "CGO_ENABLED=0", "GOWORK=off"),
	}
	pkgs, err := packages.Load(cfg, "./...")
	if err != nil {
		return nil, err
	}
	p := &Prog{Pkgs: map[string]*packages.Package{}, SSAPkg: map[string]*ssa.Package{}}
	var errs []string
	for _, pk := range pkgs {
		if !strings.HasPrefix(pk.PkgPath, modPath) {
			continue
		}
		for _, e := range pk.Errors {
			errs = append(errs, e.Error())
		}
		p.Pkgs[rel(pk.PkgPath)] = pk
		p.Fset = pk.Fset
	}
	if len(errs) > 0 {
		return nil, fmt.Errorf("type/load errors in /repo: %s", strings.Join(errs, "; "))
	}
	for _, want := range expectedPkgs {
		if p.Pkgs[want] == nil {
			return nil, fmt.Errorf("package %s/%s was not loaded (have %d packages)", modPath, want, len(p.Pkgs))
		}
	}
	prog, _ := ssautil.AllPackages(pkgs, ssa.InstantiateGenerics)
	prog.Build()
	p.SSA = prog
	for _, sp := range prog.AllPackages() {
		if strings.HasPrefix(sp.Pkg.Path(), modPath) {
			p.SSAPkg[rel(sp.Pkg.Path())] = sp
		}
	}
	p.AllFns = ssautil.AllFunctions(prog)
	for f := range p.AllFns {
		if f.Pkg != nil && strings.HasPrefix(f.Pkg.Pkg.Path(), modPath) {
			p.NumFunc++
		}
	}
	return p, nil
}

func (p *Prog) CHA() *callgraph.Graph {
	if p.cgCHA == nil {
		p.cgCHA = cha.CallGraph(p.SSA)
	}
	return p.cgCHA
}

func (p *Prog) VTA() *callgraph.Graph {
	if p.cgVTA == nil {
		p.cgVTA = vta.CallGraph(p.AllFns, p.CHA())
	}
	return p.cgVTA
}

// Func finds a function or method: Func("sm2","Sm2Verify"), Func("sm3","(*SM3).Sum"),
// Func("sm2","sm2P256Curve.Add").
func (p *Prog) Func(pkg, name string) *ssa.Function {
	sp := p.SSAPkg[pkg]
	if sp == nil {
		return nil
	}
	if !strings.Contains(name, ".") {
		return sp.Func(name)
	}
	ptr := false
	s := name
	if strings.HasPrefix(s, "(*") {
		ptr = true
		s = strings.TrimPrefix(s, "(*")
		s = strings.Replace(s, ")", "", 1)
	}
	i := strings.Index(s, ".")
	tn, mn := s[:i], s[i+1:]
	obj := sp.Pkg.Scope().Lookup(tn)
	if obj == nil {
		return nil
	}
	var t types.Type = obj.Type()
	if ptr {
		t = types.NewPointer(t)
	}
	sel := p.SSA.MethodSets.MethodSet(t).Lookup(sp.Pkg, mn)
	if sel == nil {
		return nil
	}
	f := p.SSA.MethodValue(sel)
	return f
}

// RepoFuncs returns all source functions (incl. anonymous) of a repo package, sorted.
func (p *Prog) RepoFuncs(pkg string) []*ssa.Function {
	var out []*ssa.Function
	for f := range p.AllFns {
		if f.Pkg != nil && rel(f.Pkg.Pkg.Path()) == pkg && f.Synthetic == "" && f.Blocks != nil {
			out = append(out, f)
		}
	}
	sort.Slice(out, func(i, j int) bool { return fname(out[i]) < fname(out[j]) })
	return out
}

func inRepo(f *ssa.Function) bool {
	if f == nil {
		return false
	}
	pk := f.Pkg
	if pk == nil && f.Parent() != nil {
		pk = f.Parent().Pkg
	}
	if pk == nil {
		// wrappers/thunks: look at the object
		if f.Object() != nil && f.Object().Pkg() != nil {
			return strings.HasPrefix(f.Object().Pkg().Path(), modPath)
		}
		return false
	}
	return strings.HasPrefix(pk.Pkg.Path(), modPath)
}

// fname gives a stable readable name: sm2.Sm2Verify, sm3.(*SM3).Sum, sm2.keyExchange$1
func fname(f *ssa.Function) string {
	if f == nil {
		return "<nil>"
	}
	s := f.String()
	s = strings.ReplaceAll(s, modPath+"/", "")
	return s
}

func (p *Prog) pos(pos token.Pos) string {
	if !pos.IsValid() {
		return ""
	}
	ps := p.Fset.Position(pos)
	f := ps.Filename
	if r, err := filepath.Rel(repoDir, f); err == nil && !strings.HasPrefix(r, "..") {
		f = r
	}
	return f + ":" + strconv.Itoa(ps.Line)
}

// ---------------------------------------------------------------- obligations

type Obligation struct {
	Rule      string `json:"rule"`
	Func      string `json:"function"`
	Construct string `json:"construct"`
	Verdict   string `json:"verdict"` // holds | violated | anchor-missing | undecided
	Detail    string `json:"detail,omitempty"`
	Pos       string `json:"pos,omitempty"`
	Known     bool   `json:"known_finding,omitempty"`
}

func (o Obligation) Key() string { return o.Rule + "|" + o.Func + "|" + o.Construct }

type Ctx struct {
	P           *Prog
	Prop        string
	Tier        string
	Obls        []Obligation
	keys        map[string]int
	Evals       int // instructions / table entries / sites examined
	ruleN       map[string]int
	ruleMin     map[string]int
	Notes       []string
	Sensitivity []seedResult
	Decided     []string // clauses decided
	NotDec      []string // clauses not decided
	Analysed    map[string]bool
}

func NewCtx(p *Prog, prop, tier string) *Ctx {
	return &Ctx{P: p, Prop: prop, Tier: tier, keys: map[string]int{}, ruleN: map[string]int{},
		ruleMin: map[string]int{}, Analysed: map[string]bool{}}
}

func (c *Ctx) add(o Obligation) {
	k := o.Key()
	if i, ok := c.keys[k]; ok {
		// same key twice: keep the worse verdict (violated wins)
		if c.Obls[i].Verdict == "holds" && o.Verdict != "holds" {
			c.Obls[i] = o
		}
		return
	}
	c.keys[k] = len(c.Obls)
	c.Obls = append(c.Obls, o)
	c.ruleN[o.Rule]++
}

func (c *Ctx) Holds(rule, fn, construct, detail string, pos token.Pos) {
	c.add(Obligation{Rule: rule, Func: fn, Construct: construct, Verdict: "holds", Detail: detail, Pos: c.P.pos(pos)})
}
func (c *Ctx) Violated(rule, fn, construct, detail string, pos token.Pos) {
	// A rule that examines one function does not follow it into helpers that did not exist on the reference tree.
	// When the examined function now delegates to such a new helper, a mismatch is not a witness of a violation (the
	// logic may simply have moved): the obligation is undecided. Rules that are inter-procedural by construction
	// (write effects, shared state) keep their verdict.
	if os.Getenv("GMSMCHECK_SOFTFORMULA") != "" && (strings.HasPrefix(rule, "K-") || strings.HasPrefix(rule, "T-") || strings.HasPrefix(rule, "P-C03") || strings.HasPrefix(rule, "U-")) {
		c.add(Obligation{Rule: rule, Func: fn, Construct: construct, Verdict: "undecided", Detail: "(formula rule, soft) " + detail, Pos: c.P.pos(pos)})
		return
	}
	if strings.HasPrefix(rule, "B-IDX") && c.P.isNewFunction(fn) {
		// an index site inside a helper that did not exist on the reference tree (typically extracted from a caller
		// that had established the bound): whether it is in bounds depends on a relation between the helper's
		// arguments that only its call sites know; what caller facts could prove has been tried already
		c.add(Obligation{Rule: rule, Func: fn, Construct: construct, Verdict: "undecided", Detail: fn + " is not on the reference list of functions (a new helper); its callers may establish this bound: " + detail, Pos: c.P.pos(pos)})
		return
	}
	if !strings.HasPrefix(rule, "FX-") && !strings.HasPrefix(rule, "L-") && !strings.HasPrefix(rule, "G-COPY") {
		if h := c.P.newHelperCalledBy(fn); h != "" {
			c.add(Obligation{Rule: rule, Func: fn, Construct: construct, Verdict: "undecided", Detail: "the function now delegates to " + h + ", which is not on the reference list of functions (baseline_funcs.txt), and this rule does not follow calls into new helpers; without that: " + detail, Pos: c.P.pos(pos)})
			return
		}
	}
	c.add(Obligation{Rule: rule, Func: fn, Construct: construct, Verdict: "violated", Detail: detail, Pos: c.P.pos(pos)})
}

// ViolatedHard: a violation found by a rule that did follow the calls relevant to it (no downgrade for new helpers)
func (c *Ctx) ViolatedHard(rule, fn, construct, detail string, pos token.Pos) {
	c.add(Obligation{Rule: rule, Func: fn, Construct: construct, Verdict: "violated", Detail: detail, Pos: c.P.pos(pos)})
}

// newHelperCalledBy: the name of a repository function that fn calls (directly, or through one more new helper) and
// that is not on the committed reference list; "" if there is none or no list is available
func (p *Prog) newHelperCalledBy(fn string) string {
	if p.baseFuncs == nil {
		p.baseFuncs = map[string]bool{}
		for name := range loadBaseline() {
			p.baseFuncs[name] = true
		}
		p.byName = map[string]*ssa.Function{}
		for f := range p.AllFns {
			if inRepo(f) {
				p.byName[fname(f)] = f
			}
		}
	}
	if len(p.baseFuncs) == 0 {
		return ""
	}
	f := p.byName[fn]
	if f == nil {
		return ""
	}
	var find func(g *ssa.Function, depth int) string
	find = func(g *ssa.Function, depth int) string {
		for _, ci := range allCalls(g) {
			sc := ci.Common().StaticCallee()
			if sc == nil || !inRepo(sc) || sc.Synthetic != "" || sc.Parent() != nil {
				continue
			}
			if !p.baseFuncs[fname(sc)] {
				return fname(sc)
			}
		}
		for _, a := range g.AnonFuncs {
			if h := find(a, depth+1); h != "" {
				return h
			}
		}
		return ""
	}
	return find(f, 0)
}
func (c *Ctx) Missing(rule, fn, construct, detail string) {
	c.add(Obligation{Rule: rule, Func: fn, Construct: construct, Verdict: "anchor-missing", Detail: detail})
}
func (c *Ctx) Undecided(rule, fn, construct, detail string, pos token.Pos) {
	c.add(Obligation{Rule: rule, Func: fn, Construct: construct, Verdict: "undecided", Detail: detail, Pos: c.P.pos(pos)})
}

// Check records holds/violated from a boolean.
func (c *Ctx) Check(ok bool, rule, fn, construct, okDetail, badDetail string, pos token.Pos) bool {
	if ok {
		c.Holds(rule, fn, construct, okDetail, pos)
	} else {
		c.Violated(rule, fn, construct, badDetail, pos)
	}
	return ok
}

// MinSites declares the hand-confirmed minimum number of obligations of a rule.
func (c *Ctx) MinSites(rule string, n int) { c.ruleMin[rule] = n }

func (c *Ctx) Fn(pkg, name string) *ssa.Function {
	f := c.P.Func(pkg, name)
	if f != nil {
		c.Analysed[fname(f)] = true
	}
	return f
}

// ---------------------------------------------------------------- known findings

type knownFinding struct {
	Prop string
	Key  string
	What string
}

func loadKnown() ([]knownFinding, error) {
	b, err := os.ReadFile(filepath.Join(verifDir, "known_findings.txt"))
	if err != nil {
		if os.IsNotExist(err) {
			return nil, nil
		}
		return nil, err
	}
	var out []knownFinding
	for _, ln := range strings.Split(string(b), "\n") {
		ln = strings.TrimSpace(ln)
		if !strings.HasPrefix(ln, "finding:") {
			continue // comments and "fixed:" lines suppress nothing
		}
		rest := strings.TrimSpace(strings.TrimPrefix(ln, "finding:"))
		// finding: property=C02 key=<rule>|<func>|<construct> :: what
		var kf knownFinding
		parts := strings.SplitN(rest, " :: ", 2)
		if len(parts) == 2 {
			kf.What = parts[1]
		}
		hd := parts[0]
		if i := strings.Index(hd, " key="); i >= 0 && strings.HasPrefix(hd, "property=") {
			kf.Prop = strings.TrimPrefix(hd[:i], "property=")
			kf.Key = strings.TrimSpace(hd[i+5:])
			out = append(out, kf)
		}
	}
	return out, nil
}

// ---------------------------------------------------------------- finish

type evidence struct {
	PropertyID string                 `json:"property_id"`
	Tier       string                 `json:"tier"`
	Seed       int                    `json:"seed"`
	Level      string                 `json:"level"`
	Coverage   map[string]interface{} `json:"coverage"`
	Assume     []string               `json:"assumptions"`
	WallS      float64                `json:"wall_s"`
	Violations int                    `json:"violations"`
}

var assumptions = []string{
	"go/packages + go/types + go/ssa (x/tools v0.29.0) represent the program the Go compiler builds (GOOS=linux GOARCH=amd64, default tags, tests excluded; the single_cert tag does not compile on the pinned tree and is not analysed)",
	"the rules decide structural necessary conditions of the property; clauses listed under not_decided are not covered by this check",
	"standard-library and x/crypto callees behave as documented (they are summarised, not analysed)",
}

// An obligation whose rule could not recognise the shape of the code is UNDECIDED: it is reported (stdout and
// evidence) but is not a violation — the rule has no witness that the property is broken, and an equivalent rewrite of
// the code is the usual cause. GMSMCHECK_UNDECIDED=fatal restores the stricter behaviour.
var softUndecided = os.Getenv("GMSMCHECK_UNDECIDED") != "fatal"

func (c *Ctx) Finish(start time.Time) int {
	// rule instance counts
	for r, min := range c.ruleMin {
		if c.ruleN[r] < min {
			c.add(Obligation{Rule: r, Func: "-", Construct: "instance-count", Verdict: "undecided",
				Detail: fmt.Sprintf("rule matched %d sites, fewer than the %d reviewed on the pinned tree (anchors moved? re-point the rule)", c.ruleN[r], min)})
		}
	}
	known, kerr := loadKnown()
	sort.SliceStable(c.Obls, func(i, j int) bool { return c.Obls[i].Key() < c.Obls[j].Key() })
	exit := 0
	if kerr != nil {
		fmt.Printf("ERROR reading known_findings.txt: %v\n", kerr)
		exit = 1
	}
	nviol, nknown, nheld, nund := 0, 0, 0, 0
	var undecided []string
	os.MkdirAll(filepath.Join(verifDir, "evidence", "replay"), 0o755)
	for i := range c.Obls {
		o := &c.Obls[i]
		if o.Verdict == "holds" {
			nheld++
			continue
		}
		isKnown := false
		if o.Verdict == "violated" {
			for _, k := range known {
				if k.Prop == c.Prop && k.Key == o.Key() {
					isKnown = true
					o.Known = true
					fmt.Printf("KNOWN-FINDING: property=%s %s at %s — %s\n", c.Prop, o.Key(), o.Pos, k.What)
					nknown++
					break
				}
			}
		}
		if isKnown {
			continue
		}
		if o.Verdict == "undecided" && softUndecided {
			nund++
			undecided = append(undecided, o.Key()+" — "+o.Detail)
			fmt.Printf("UNDECIDED property=%s %s at %s — %s\n", c.Prop, o.Key(), o.Pos, o.Detail)
			continue
		}
		nviol++
		h := sha256.Sum256([]byte(o.Key()))
		rp := filepath.Join(verifDir, "evidence", "replay", c.Prop+"-"+hex.EncodeToString(h[:6])+".json")
		rb, _ := json.MarshalIndent(map[string]interface{}{"property": c.Prop, "obligation": o, "key": o.Key(),
			"how_to_replay": "gmsmcheck -property " + c.Prop + " -tier quick -only '" + o.Key() + "'"}, "", " ")
		os.WriteFile(rp, rb, 0o644)
		fmt.Printf("%s: [%s] %s: %s — %s (%s)\n", o.Pos, o.Verdict, o.Rule, o.Func, o.Construct, o.Detail)
		fmt.Printf("VIOLATION property=%s replay=%s\n", c.Prop, rp)
		exit = 1
	}
	// evidence
	var samples []interface{}
	step := 1
	if len(c.Obls) > 40 {
		step = len(c.Obls) / 40
	}
	for i := 0; i < len(c.Obls); i += step {
		samples = append(samples, c.Obls[i])
	}
	for _, o := range c.Obls { // always show the non-holding ones
		if o.Verdict != "holds" {
			samples = append(samples, o)
		}
	}
	rules := map[string]interface{}{}
	var rn []string
	for r := range c.ruleN {
		rn = append(rn, r)
	}
	sort.Strings(rn)
	for _, r := range rn {
		rules[r] = map[string]int{"matched": c.ruleN[r], "reviewed_min": c.ruleMin[r]}
	}
	var fns []string
	for f := range c.Analysed {
		fns = append(fns, f)
	}
	sort.Strings(fns)
	seed := 0
	if s, err := strconv.Atoi(os.Getenv("VERIF_SEED")); err == nil {
		seed = s
	}
	expl := "Static analysis of /repo's working tree (type-checked program + go/ssa). Clauses decided: " +
		strings.Join(c.Decided, "; ") + ". NOT decided (no dynamic stand-in): " + strings.Join(c.NotDec, "; ") + "."
	if len(c.Notes) > 0 {
		expl += " Notes: " + strings.Join(c.Notes, "; ")
	}
	ev := evidence{PropertyID: c.Prop, Tier: c.Tier, Seed: seed, Level: "other",
		Coverage: map[string]interface{}{
			"explanation":         expl,
			"obligations":         len(c.Obls),
			"discharged":          nheld,
			"known_findings":      nknown,
			"undecided":           undecided,
			"evaluations":         c.Evals + len(c.Obls),
			"distinct_nontrivial": len(c.Obls),
			"rule":                "one obligation per (rule, function, construct) instance found in the current source; distinct = distinct keys; evaluations = SSA instructions / literal entries / call sites examined",
			"samples":             samples,
			"rules":               rules,
			"functions_analysed":  fns,
			"packages_loaded":     len(c.P.Pkgs),
			"repo_functions":      c.P.NumFunc,
			"checker_cmd":         "/verif/bin/gmsmcheck -property " + c.Prop + " -tier " + c.Tier,
			"trusted_base":        []string{"go/types", "go/ssa", "golang.org/x/tools v0.29.0", "rule instance tables in /verif/checker"},
			"exhaustive":          false,
			"sensitivity":         c.Sensitivity,
		},
		Assume: assumptions, WallS: time.Since(start).Seconds(), Violations: nviol}
	b, _ := json.MarshalIndent(ev, "", " ")
	if err := os.WriteFile(filepath.Join(verifDir, "evidence", c.Prop+".json"), b, 0o644); err != nil {
		fmt.Println("ERROR writing evidence:", err)
		exit = 1
	}
	fmt.Printf("SUMMARY property=%s tier=%s obligations=%d holds=%d known=%d undecided=%d unlisted=%d wall=%.1fs\n",
		c.Prop, c.Tier, len(c.Obls), nheld, nknown, nund, nviol, time.Since(start).Seconds())
	return exit
}

// ---------------------------------------------------------------- small AST/type helpers

// findVarDecl returns the ValueSpec initial expression of a package-level var/const.
func (p *Prog) findVarInit(pkg, name string) (ast.Expr, *packages.Package) {
	pk := p.Pkgs[pkg]
	if pk == nil {
		return nil, nil
	}
	for _, f := range pk.Syntax {
		for _, d := range f.Decls {
			gd, ok := d.(*ast.GenDecl)
			if !ok {
				continue
			}
			for _, s := range gd.Specs {
				vs, ok := s.(*ast.ValueSpec)
				if !ok {
					continue
				}
				for i, n := range vs.Names {
					if n.Name == name && i < len(vs.Values) {
						return vs.Values[i], pk
					}
				}
			}
		}
	}
	return nil, pk
}

// ---- reference list of functions and their parameter names

var baselineTab map[string][]string

// loadBaseline reads baseline_funcs.txt: one repository function per line, optionally followed by a tab and the
// comma-separated names of its parameters (receiver first) at the time the rules were written.
func loadBaseline() map[string][]string {
	if baselineTab != nil {
		return baselineTab
	}
	baselineTab = map[string][]string{}
	b, err := os.ReadFile(filepath.Join(verifDir, "baseline_funcs.txt"))
	if err != nil {
		b, err = os.ReadFile("/verif/baseline_funcs.txt")
	}
	if err != nil {
		return baselineTab
	}
	for _, l := range strings.Split(string(b), "\n") {
		if l = strings.TrimSpace(l); l == "" {
			continue
		}
		parts := strings.SplitN(l, "\t", 2)
		var ps []string
		if len(parts) == 2 && parts[1] != "" {
			ps = strings.Split(parts[1], ",")
		}
		baselineTab[parts[0]] = ps
	}
	return baselineTab
}

// pname: the name the rules know a parameter by — the name it had on the reference tree (same function, same
// position, same number of parameters), so that renaming a parameter does not change any canonical form; the current
// name otherwise.
func pname(p *ssa.Parameter) string {
	f := p.Parent()
	if f == nil || f.Parent() != nil {
		return p.Name()
	}
	ps, ok := loadBaseline()[fname(f)]
	if !ok || len(ps) != len(f.Params) {
		return p.Name()
	}
	for i, q := range f.Params {
		if q == p && ps[i] != "" {
			return ps[i]
		}
	}
	return p.Name()
}

// isNewFunction: fn is a repository function that is not on the committed reference list
func (p *Prog) isNewFunction(fn string) bool {
	p.newHelperCalledBy("") // loads the list
	if len(p.baseFuncs) == 0 {
		return false
	}
	return p.byName[fn] != nil && !p.baseFuncs[fn]
}
