package main

// C14 — serialisations: writer/reader agreement (T-CODEC), fixed widths, nil checks after
// elliptic.Unmarshal, wrong-password rejection, loaders' key/certificate matching and type flow.

import (
	"fmt"
	"go/token"
	"go/types"
	"sort"
	"strings"

	"golang.org/x/tools/go/ssa"
)

func init() { register("C14", checkC14) }

// successReturnForms: canonical forms of result #idx at every successful return
func successReturns(f *ssa.Function) []*ssa.Return {
	var out []*ssa.Return
	spec, ok := defaultResultSpec(f)
	var ex exits
	if ok {
		ex = successExits(f, spec)
	}
	for _, b := range f.Blocks {
		ret, isR := b.Instrs[len(b.Instrs)-1].(*ssa.Return)
		if !isR {
			continue
		}
		if ok && !ex.blocks[b] {
			isEdge := false
			for e := range ex.edges {
				if e.to == b {
					isEdge = true
				}
			}
			if !isEdge {
				continue
			}
		}
		out = append(out, ret)
	}
	return out
}

// fieldStores: canonical values stored into fields of objects of f, by field name
func fieldStores(f *ssa.Function, be *bigEnv) map[string]string {
	out := map[string]string{}
	instrsOf(f, func(_ *ssa.BasicBlock, in ssa.Instruction) {
		st, ok := in.(*ssa.Store)
		if !ok {
			return
		}
		fa, ok := st.Addr.(*ssa.FieldAddr)
		if !ok {
			return
		}
		name := fieldName(fa.X.Type(), fa.Field)
		var s string
		switch {
		case isBigIntPtr(st.Val.Type()):
			s = be.valueAt(st.Val, st).String()
		case isByteSlice(st.Val.Type()):
			s = be.bytesOf(st.Val, st).String()
		default:
			s = be.plain(st.Val, st).String()
		}
		out[name] = normBig(s)
	})
	return out
}

func checkC14(c *Ctx) {
	defer func() {
		if n := pointWidth(c, "P-WIDTH-point", []string{"x509", "sm2"}); n > 0 {
			c.Holds("P-WIDTH-point", "x509, sm2", "no point is encoded as 0x04 || X.Bytes() || Y.Bytes()", fmt.Sprintf("%d append chains inspected", n), token.NoPos)
		}
	}()

	c14PemWalk(c)
	c.Decided = append(c.Decided,
		"G-C14-pemwalk: getCert, getKey and X509KeyPair call pem.Decode on a loop fed with the remainder of the previous call (every block of the input is looked at)",
		"T-CODEC: each writer/reader pair uses inverse encodings of the same layout: hex private key (fixed 32 bytes, hex.EncodeToString/DecodeString), hex public key (04||X||Y, 32-byte coordinates, offsets 0/32), PEM block types, PKCS#8 (SM2 algorithm OID written and required; d < n; public key recomputed as [d]G), PBES2 parameters (PBKDF2-SHA1, 32-byte key, AES-256-CBC written; the reader derives the key the same way for that PRF OID), compressed point (parity byte || 32-byte X), ASN.1 signature (same structure type)",
		"G-C14-pw: a PKCS#8 blob that does not parse after decryption is an error (wrong password)",
		"B-PRE-nil: every elliptic.Unmarshal result is checked for nil before use",
		"B-PRE-cbc: IV and ciphertext lengths of an encrypted PKCS#8 are validated before the CBC decrypter sees them",
		"T-TYPEFLOW: type switches on Certificate.PublicKey in the TLS loaders only name types the certificate parser can produce, the SM2 arm compares both coordinates with the private key's public point and a mismatch is an error")
	c.NotDec = append(c.NotDec, "value round-trips as equalities over all keys (only layout/primitive agreement)", "PEM/ASN.1 library behaviour")

	c14Hex(c)
	c14PEM(c)
	c14PKCS8(c)
	c14Point(c)
	c14Nil(c)
	c14Loaders(c)
	var fs []*ssa.Function
	for _, n := range []string{"ReadPrivateKeyFromHex", "WritePrivateKeyToHex", "ReadPublicKeyFromHex", "WritePublicKeyToHex", "ParseSm2PublicKey", "MarshalSm2PublicKey", "ParseSm2PrivateKey", "ParsePKCS8UnecryptedPrivateKey", "ParsePKCS8EcryptedPrivateKey", "MarshalSm2UnecryptedPrivateKey", "MarshalSm2EcryptedPrivateKey", "ReadPrivateKeyFromPem", "ReadPublicKeyFromPem", "WritePrivateKeyToPem", "WritePublicKeyToPem"} {
		if f := c.Fn("x509", n); f != nil {
			fs = append(fs, f)
		} else {
			c.Missing("B-IDX", "x509."+n, "function", "serialiser not found")
		}
	}
	for _, n := range []string{"Compress", "Decompress", "SignDigitToSignData", "SignDataToSignDigit"} {
		if f := c.Fn("sm2", n); f != nil {
			fs = append(fs, f)
		}
	}
	st := bidx(c, "B-IDX", fs, nil)
	c.Notes = append(c.Notes, fmt.Sprintf("B-IDX: %d sites, %d compiler, %d LinBounds, %d unproven", st.sites, st.compiler, st.lin, st.unproved))
	// ASN.1 ciphertext marshal / unmarshal (same rule as under C02)
	asn1Rule = "T-CODEC-asn1"
	c02ASN1(c)
	asn1Rule = "K-C02-asn1"
}

func c14Hex(c *Ctx) {
	rule := "T-CODEC"
	if w := c.Fn("x509", "WritePrivateKeyToHex"); w != nil {
		be := newBigEnv(w, paramNames(w, "key"))
		for _, r := range successReturns(w) {
			got := be.bytesOf(r.Results[0], r).String()
			c.Check(got == "call:encoding/hex.EncodeToString(pad32(key.D))", rule, fname(w), "hex of the 32-byte big-endian D", "", "the private key is written as "+got+": a variable-width or odd-length encoding cannot be read back by hex.DecodeString", r.Pos())
		}
	} else {
		c.Missing(rule, "x509.WritePrivateKeyToHex", "function", "not found")
	}
	if r := c.Fn("x509", "ReadPrivateKeyFromHex"); r != nil {
		be := newBigEnv(r, paramNames(r, "Dhex"))
		fs := fieldStores(r, be)
		D := "frombytes(res0(call:encoding/hex.DecodeString(Dhex)))"
		c.Check(fs["D"] == D, rule, fname(r), "D = integer of the decoded hex", "", "D is "+fs["D"], r.Pos())
		c.Check(fs["X"] == "res0(call:ScalarBaseMult(bytes("+D+")))" && fs["Y"] == "res1(call:ScalarBaseMult(bytes("+D+")))", rule, fname(r), "public key recomputed as [D]G", "", "public point is "+fs["X"], r.Pos())
		spec, _ := defaultResultSpec(r)
		dec := findCall(r, "DecodeString")
		if dec != nil {
			g := evalGuard(c.P, r, errCheckAtoms(r, func(cl *ssa.Call) bool { return cl == dec }, "hex error"), spec, nil)
			c.Check(g.OK, rule, fname(r), "malformed hex is an error", g.Why, g.Why, g.Pos)
		}
		// range: d >= n-1 rejected
		var atoms []Atom
		for _, ifi := range ifsOf(r) {
			st, ok := decodeSignTest(ifi.Cond)
			if !ok || st.Kind != "Cmp" {
				continue
			}
			dbg("ReadPrivateKeyFromHex cmp: %s vs %s", normBig(be.valueAt(st.X, st.Call).String()), normBig(be.valueAt(st.Y, st.Call).String()))
			if normBig(be.valueAt(st.X, st.Call).String()) == D && normBig(be.valueAt(st.Y, st.Call).String()) == "sub(N,0x1)" {
				if ps, ok := passSuccFor([3]bool{true, false, false}, st.TrueSet); ok {
					atoms = append(atoms, Atom{ifi, ps, "d < n-1"})
				}
			}
		}
		g := evalGuard(c.P, r, atoms, spec, curveOps(r))
		c.Check(g.OK, rule, fname(r), "d >= n-1 rejected", g.Why, "private scalars outside [0, n-2] must be rejected: "+g.Why, g.Pos)
	} else {
		c.Missing(rule, "x509.ReadPrivateKeyFromHex", "function", "not found")
	}
	if w := c.Fn("x509", "WritePublicKeyToHex"); w != nil {
		be := newBigEnv(w, paramNames(w, "key"))
		for _, r := range successReturns(w) {
			got := be.bytesOf(r.Results[0], r).String()
			c.Check(got == "call:encoding/hex.EncodeToString(concat(lit(0x4),pad32(key.X),pad32(key.Y)))", rule, fname(w), "hex of 04||X||Y with 32-byte coordinates", "", "the public key is written as "+got, r.Pos())
		}
	}
	if r := c.Fn("x509", "ReadPublicKeyFromHex"); r != nil {
		names := paramNames(r, "Qhex")
		// q phi: decoded or decoded[1:]
		instrsOf(r, func(_ *ssa.BasicBlock, in ssa.Instruction) {
			if phi, ok := in.(*ssa.Phi); ok && isByteSlice(phi.Type()) {
				names[phi] = "Q"
			}
		})
		be := newBigEnv(r, names)
		fs := fieldStores(r, be)
		c.Check(fs["X"] == "frombytes(slice(Q,_,0x20))" && fs["Y"] == "frombytes(slice(Q,0x20,_))", rule, fname(r), "X = q[:32], Y = q[32:]", "", "coordinates are read as X="+fs["X"]+" Y="+fs["Y"], r.Pos())
		spec, _ := defaultResultSpec(r)
		var q ssa.Value
		for v, n := range names {
			if n == "Q" {
				q = v
			}
		}
		if q != nil {
			atoms := lenGuardAtoms(r, func(v ssa.Value) bool { return v == q }, func(n int64) bool { return n == 64 }, []int64{0, 63, 64, 65, 128}, "len(q)==64")
			g := evalGuard(c.P, r, atoms, spec, nil)
			c.Check(g.OK, rule, fname(r), "exactly 64 coordinate bytes required", g.Why, g.Why, g.Pos)
			// the phi: decoded (when not 65/0x04) or decoded[1:]
			phi := q.(*ssa.Phi)
			delete(be.names, phi)
			var parts []string
			for i, e := range phi.Edges {
				pred := phi.Block().Preds[i]
				parts = append(parts, be.bytesOf(e, pred.Instrs[len(pred.Instrs)-1]).String())
			}
			sort.Strings(parts)
			parts = dedup(parts)
			dd := "res0(call:encoding/hex.DecodeString(Qhex))"
			c.Check(strings.Join(parts, "|") == dd+"|slice("+dd+",0x1,_)", rule, fname(r), "optional 0x04 prefix stripped", "", "input bytes are taken as "+strings.Join(parts, "|"), phi.Pos())
		}
	}
}

func c14PEM(c *Ctx) {
	rule := "T-CODEC"
	// block types written
	types := func(f *ssa.Function) []string {
		var out []string
		instrsOf(f, func(_ *ssa.BasicBlock, in ssa.Instruction) {
			if st, ok := in.(*ssa.Store); ok {
				if fa, ok := st.Addr.(*ssa.FieldAddr); ok && fieldName(fa.X.Type(), fa.Field) == "Type" {
					// the constant itself, or a local that is one of several constants (a phi)
					var collect func(v ssa.Value, d int)
					collect = func(v ssa.Value, d int) {
						if d > 4 {
							return
						}
						switch x := v.(type) {
						case *ssa.Const:
							if s, ok := constString(x); ok {
								out = append(out, s)
							}
						case *ssa.Phi:
							for _, e := range x.Edges {
								collect(e, d+1)
							}
						}
					}
					collect(st.Val, 0)
				}
			}
		})
		sort.Strings(out)
		return out
	}
	if w := c.Fn("x509", "WritePublicKeyToPem"); w != nil {
		got := strings.Join(types(w), ",")
		r := c.Fn("x509", "ReadPublicKeyFromPem")
		req := ""
		if r != nil {
			be := newBigEnv(r, paramNames(r, "pem"))
			for _, s := range condList(r, be) {
				if strings.Contains(s, ".Type,const:") {
					req = s
				}
			}
		}
		c.Check(got == "PUBLIC KEY" && strings.Contains(req, `const:"PUBLIC KEY":string`), rule, "x509.WritePublicKeyToPem/ReadPublicKeyFromPem", "PEM block type PUBLIC KEY on both sides", "", "writer emits ["+got+"], reader requires "+req, w.Pos())
		if r != nil {
			be := newBigEnv(r, paramNames(r, "pem"))
			for _, ret := range successReturns(r) {
				got := be.plain(ret.Results[0], ret).String()
				c.Check(strings.HasPrefix(got, "res0(call:x509.ParseSm2PublicKey(") && strings.Contains(got, ".Bytes"), rule, fname(r), "decodes the block bytes with ParseSm2PublicKey", "", "reader returns "+got, ret.Pos())
			}
		}
		be := newBigEnv(w, paramNames(w, "key"))
		var der string
		instrsOf(w, func(_ *ssa.BasicBlock, in ssa.Instruction) {
			if st, ok := in.(*ssa.Store); ok {
				if fa, ok := st.Addr.(*ssa.FieldAddr); ok && fieldName(fa.X.Type(), fa.Field) == "Bytes" {
					der = be.bytesOf(st.Val, st).String()
				}
			}
		})
		c.Check(der == "res0(call:x509.MarshalSm2PublicKey(key))", rule, fname(w), "block bytes = MarshalSm2PublicKey(key)", "", "block carries "+der, w.Pos())
	}
	if w := c.Fn("x509", "WritePrivateKeyToPem"); w != nil {
		got := strings.Join(types(w), ",")
		c.Check(got == "ENCRYPTED PRIVATE KEY,PRIVATE KEY", rule, fname(w), "PEM block types PRIVATE KEY / ENCRYPTED PRIVATE KEY", "", "writer emits ["+got+"]", w.Pos())
		be := newBigEnv(w, paramNames(w, "key", "pwd"))
		var der string
		instrsOf(w, func(_ *ssa.BasicBlock, in ssa.Instruction) {
			if st, ok := in.(*ssa.Store); ok {
				if fa, ok := st.Addr.(*ssa.FieldAddr); ok && fieldName(fa.X.Type(), fa.Field) == "Bytes" {
					der = be.bytesOf(st.Val, st).String()
				}
			}
		})
		c.Check(der == "res0(call:x509.MarshalSm2PrivateKey(key,pwd))", rule, fname(w), "block bytes = MarshalSm2PrivateKey(key, pwd)", "", "block carries "+der, w.Pos())
	}
	if r := c.Fn("x509", "ReadPrivateKeyFromPem"); r != nil {
		be := newBigEnv(r, paramNames(r, "pem", "pwd"))
		for _, ret := range successReturns(r) {
			got := be.plain(ret.Results[0], ret).String()
			c.Check(strings.HasPrefix(got, "res0(call:x509.ParsePKCS8PrivateKey(") && strings.HasSuffix(got, ".Bytes,pwd))"), rule, fname(r), "ParsePKCS8PrivateKey(block.Bytes, pwd)", "", "reader returns "+got, ret.Pos())
		}
	}
	// dispatch on pwd == nil on both sides
	for _, pr := range [][3]string{{"MarshalSm2PrivateKey", "MarshalSm2UnecryptedPrivateKey", "MarshalSm2EcryptedPrivateKey"}, {"ParsePKCS8PrivateKey", "ParsePKCS8UnecryptedPrivateKey", "ParsePKCS8EcryptedPrivateKey"}} {
		f := c.Fn("x509", pr[0])
		if f == nil {
			c.Missing(rule, "x509."+pr[0], "function", "not found")
			continue
		}
		be := newBigEnv(f, allParamNames(f))
		ci := &condIndex{f, be, condList(f, be)}
		okD := false
		for _, ci2 := range allCalls(f) {
			call, ok := ci2.(*ssa.Call)
			if !ok || call.Call.StaticCallee() == nil {
				continue
			}
			if call.Call.StaticCallee().Name() == pr[1] {
				okD = ci.dominatedByCond(call.Block(), `re:eq\(pwd,const:nil:\[\]byte\)`, true)
			}
		}
		c.Check(okD, rule, fname(f), "plain form exactly when pwd == nil", "", pr[0]+" does not choose the unencrypted form on pwd == nil", f.Pos())
	}
}

func c14PKCS8(c *Ctx) {
	rule := "T-CODEC"
	// writer
	if w := c.Fn("x509", "MarshalSm2UnecryptedPrivateKey"); w != nil {
		be := newBigEnv(w, paramNames(w, "key"))
		fs := fieldStores(w, be)
		c.Check(fs["Algorithm"] == "global:oidSM2", rule, fname(w), "algorithm OID = oidSM2", "", "algorithm is "+fs["Algorithm"], w.Pos())
		c.Check(fs["NamedCurveOID"] == "global:oidNamedCurveP256SM2", rule, fname(w), "named curve = SM2 curve OID", "", "named curve is "+fs["NamedCurveOID"], w.Pos())
		c.Check(fs["PrivateKey"] == "bytes(key.D)" || strings.HasPrefix(fs["PrivateKey"], "res0(call:encoding/asn1.Marshal("), rule, fname(w), "private key octets = D (big-endian)", "", "private key octets are "+fs["PrivateKey"], w.Pos())
	}
	if r := c.Fn("x509", "ParsePKCS8UnecryptedPrivateKey"); r != nil {
		be := newBigEnv(r, paramNames(r, "der"))
		ci := &condIndex{r, be, condList(r, be)}
		spec, _ := defaultResultSpec(r)
		ci.require(c, rule, "algorithm OID must be oidSM2", `re:call:reflect\.DeepEqual\(.*Algorithm.*global:oidSM2.*\)`, true, spec, nil, "a PKCS#8 key of another algorithm must be rejected")
	}
	for _, pr := range [][3]string{{"x509", "ParseSm2PrivateKey", "x509.sm2PrivateKey"}, {"pkcs12", "parseECPrivateKey", "pkcs12.ecPrivateKey"}} {
		r := c.Fn(pr[0], pr[1])
		if r == nil {
			c.Missing(rule, pr[0]+"."+pr[1], "function", "not found")
			continue
		}
		keyOctets := "frombytes(local(" + pr[2] + ").PrivateKey"
		be := newBigEnv(r, paramNames(r, "der"))
		spec, _ := defaultResultSpec(r)
		var atoms []Atom
		for _, ifi := range ifsOf(r) {
			st, ok := decodeSignTest(ifi.Cond)
			if !ok || st.Kind != "Cmp" {
				continue
			}
			x := normBig(be.valueAt(st.X, st.Call).String())
			y := normBig(be.valueAt(st.Y, st.Call).String())
			if strings.HasPrefix(x, keyOctets) && (y == "N" || strings.HasSuffix(y, "Params().N")) {
				if ps, ok := passSuccFor([3]bool{true, false, false}, st.TrueSet); ok {
					atoms = append(atoms, Atom{ifi, ps, "d < n"})
				}
			}
		}
		g := evalGuard(c.P, r, atoms, spec, curveOps(r))
		c.Check(g.OK, rule, fname(r), "d >= n rejected", g.Why, "a private scalar that is not below the group order must be rejected: "+g.Why, g.Pos)
		fs := fieldStores(r, be)
		c.Check(strings.HasPrefix(fs["D"], keyOctets), rule, fname(r), "D = integer of the private key octets", "", "D is "+fs["D"], r.Pos())
		c.Check(strings.HasPrefix(fs["X"], "res0(call:ScalarBaseMult(") && strings.HasPrefix(fs["Y"], "res1(call:ScalarBaseMult("), rule, fname(r), "public key recomputed by base-point multiplication", "", "public point is "+fs["X"], r.Pos())
		if sbm := findCall(r, "ScalarBaseMult"); sbm != nil {
			arg := sbm.Common().Args[len(sbm.Common().Args)-1]
			form := be.bytesOf(arg, sbm).String()
			dbg("ParseSm2PrivateKey scalar form: %s", form)
			// the scalar must denote the same integer as D: the private key octets, optionally left-padded
			// with zeros (stripping or adding leading zeros keeps the big-endian value; anything else does not)
			inner := form
			if strings.HasPrefix(inner, "padleft(") && strings.HasSuffix(inner, ")") {
				if parts := splitTop(inner[len("padleft("):len(inner)-1], ','); len(parts) == 2 {
					inner = parts[1]
				}
			}
			if strings.HasPrefix(inner, "pad32(") {
				inner = strings.TrimSuffix(strings.TrimPrefix(inner, "pad32("), ")")
			}
			want := strings.TrimSuffix(strings.TrimPrefix(fs["D"], "frombytes("), ")")
			// a join of the octets and a suffix of them (leading bytes dropped after they were tested to be zero padding)
			if strings.HasPrefix(inner, "?phi(") && strings.HasSuffix(inner, ")") {
				all := true
				for _, alt := range splitTop(inner[len("?phi("):len(inner)-1], '|') {
					if alt != want && !(strings.HasPrefix(alt, "slice("+want+",") && strings.HasSuffix(alt, ",_)")) {
						all = false
					}
				}
				if all {
					inner = want
				}
			}
			c.Check(inner == want || "call:Bytes("+fs["D"]+")" == form, rule, fname(r), "the public key is recomputed from the same scalar as D", "", "ScalarBaseMult is given "+form+" while D is "+fs["D"]+": the octets must be used as they are or left-padded with zeros", sbm.Pos())
		} else {
			c.Undecided(rule, fname(r), "the public key is recomputed from the same scalar as D", "no ScalarBaseMult call", r.Pos())
		}
	}
	// encrypted
	w := c.Fn("x509", "MarshalSm2EcryptedPrivateKey")
	r := c.Fn("x509", "ParsePKCS8EcryptedPrivateKey")
	if w == nil || r == nil {
		c.Missing(rule, "x509.MarshalSm2EcryptedPrivateKey/ParsePKCS8EcryptedPrivateKey", "functions", "not found")
		return
	}
	wbe := newBigEnv(w, paramNames(w, "key", "pwd"))
	rbe := newBigEnv(r, paramNames(r, "der", "pwd"))
	var wk, wOIDs string
	if call := findCall(w, "pbkdf"); call != nil {
		a := call.Call.Args
		wk = wbe.plain(a[0], call).String() + "," + wbe.plain(a[2], call).String() + "," + wbe.plain(a[3], call).String() + "," + wbe.plain(a[4], call).String()
	}
	var oids []string
	instrsOf(w, func(_ *ssa.BasicBlock, in ssa.Instruction) {
		if st, ok := in.(*ssa.Store); ok {
			if g := globalOf(st.Val); g != nil && strings.HasPrefix(g.Name(), "oid") {
				oids = append(oids, g.Name())
			}
		}
	})
	sort.Strings(oids)
	wOIDs = strings.Join(oids, ",")
	dbg("writer kdf: %s", wk)
	c.Check(strings.HasPrefix(wk, "pwd,0x800,0x20,") && strings.Contains(wk, "sha1.New"), rule, fname(w), "key = PBKDF2(pwd, salt, 2048, 32 bytes, SHA-1)", "", "writer derives the key with ("+wk+")", w.Pos())
	c.Check(wOIDs == "oidAES256CBC,oidKEYSHA1,oidPBES2,oidPBKDF2", rule, fname(w), "declares PBES2 / PBKDF2 / HMAC-SHA1 / AES-256-CBC", "", "writer declares "+wOIDs, w.Pos())
	// reader: under Equal(oidKEYSHA1) the same derivation
	rci := &condIndex{r, rbe, condList(r, rbe)}
	okR := false
	for _, ci2 := range allCalls(r) {
		call, ok := ci2.(*ssa.Call)
		if !ok || call.Call.StaticCallee() == nil || call.Call.StaticCallee().Name() != "pbkdf" {
			continue
		}
		sha1Cond := `re:call:\(encoding/asn1\.ObjectIdentifier\)\.Equal\(.*,global:oidKEYSHA1\)`
		direct := rci.dominatedByCond(call.Block(), sha1Cond, true)
		// or one derivation call after the hash constructor was selected by the PRF OID: the constructor that
		// arrives from the oidKEYSHA1 branch is what counts
		var viaPhi ssa.Value
		if ph, isPhi := call.Call.Args[4].(*ssa.Phi); isPhi && !direct {
			for i, e := range ph.Edges {
				if i < len(ph.Block().Preds) && rci.dominatedByCond(ph.Block().Preds[i], sha1Cond, true) {
					viaPhi = e
				}
			}
		}
		if direct || viaPhi != nil {
			a := call.Call.Args
			hashArg := a[4]
			if viaPhi != nil {
				hashArg = viaPhi
			}
			s := rbe.plain(a[0], call).String() + "," + rbe.plain(a[3], call).String() + "," + rbe.plain(hashArg, call).String()
			okR = strings.HasPrefix(s, "pwd,0x20,") && strings.Contains(s, "sha1.New") && strings.Contains(wk, s[len("pwd,0x20,"):])
			// salt and iteration count come from the parsed parameters
			okR = okR && strings.Contains(rbe.plain(a[1], call).String(), "Salt") && strings.Contains(rbe.plain(a[2], call).String(), "IterationCount")
		}
	}
	c.Check(okR, rule, fname(r), "for the HMAC-SHA1 PRF OID the reader derives the key as the writer does", "", "the reader's derivation for oidKEYSHA1 does not mirror the writer's (password, parsed salt and iteration count, 32-byte key, same hash)", r.Pos())
	spec, _ := defaultResultSpec(r)
	for _, o := range []string{"oidPBES2", "oidPBKDF2"} {
		rci.require(c, rule, "reader requires "+o, `re:call:reflect\.DeepEqual\(.*global:`+o+`.*\)`, true, spec, nil, "")
	}
	// wrong password
	inner := findCall(r, "ParsePKCS8UnecryptedPrivateKey")
	if inner != nil {
		g := evalGuard(c.P, r, errCheckAtoms(r, func(cl *ssa.Call) bool { return cl == inner }, "inner parse"), spec, nil)
		c.Check(g.OK, "G-C14-pw", fname(r), "undecodable plaintext (wrong password) is an error", g.Why, g.Why, g.Pos)
		arg := rbe.bytesOf(inner.Call.Args[0], inner).String()
		c.Check(strings.Contains(arg, "EncryptedData"), "G-C14-pw", fname(r), "the decrypted buffer is what gets parsed", "", "inner parser receives "+arg, inner.Pos())
	}
	// B-PRE-cbc
	cbc := findCall(r, "NewCBCDecrypter")
	cb := findCall(r, "CryptBlocks")
	if cbc != nil && cb != nil {
		ivv := cbc.Call.Args[1]
		okIV := false
		for ifi, s := range rci.conds {
			_ = ifi
			if strings.HasPrefix(s, "ne(len(") && strings.Contains(s, ".IV),call:BlockSize(") {
				okIV = true
			}
		}
		_ = ivv
		if okIV {
			rci.require(c, "B-PRE-cbc", "IV length equals the block size", `re:ne\(len\(.*\.IV\),call:BlockSize\(.*\)\)`, false, spec, nil, "cipher.NewCBCDecrypter panics unless the IV is exactly one block")
		} else {
			atoms := lenGuardAtoms(r, func(v ssa.Value) bool { return v == ivv }, func(n int64) bool { return n == 16 }, []int64{0, 15, 16, 17}, "len(iv)==16")
			g := evalGuardSinks(c.P, r, atoms, spec, []ssa.Instruction{cbc})
			c.Check(g.OK, "B-PRE-cbc", fname(r), "IV length equals the block size", g.Why, "cipher.NewCBCDecrypter panics unless the IV is exactly one block: "+g.Why, g.Pos)
		}
		rci.require(c, "B-PRE-cbc", "ciphertext is a whole number of blocks", `re:ne\(rem\(len\(.*EncryptedData\),call:BlockSize\(.*\)\),0x0\)`, false, spec, nil, "CryptBlocks panics unless the data is a multiple of the block size")
	}
}

func c14Point(c *Ctx) {
	c14DecompressValid(c)
	rule := "T-CODEC"
	if w := c.Fn("sm2", "Compress"); w != nil {
		be := newBigEnv(w, paramNames(w, "a"))
		for _, r := range successReturns(w) {
			got := be.bytesOf(r.Results[0], r).String()
			dbg("Compress returns %s", got)
			okC := strings.HasPrefix(got, "concat(lit(trunc8(call:sm2.getLastBit(a.Y)))") && (strings.Contains(got, "bytes(a.X)") || strings.Contains(got, "pad32(a.X)"))
			c.Check(okC, rule, fname(w), "parity byte of Y followed by X", "", "Compress returns "+got, r.Pos())
		}
	}
	if r := c.Fn("sm2", "Decompress"); r != nil {
		be := newBigEnv(r, paramNames(r, "a"))
		fs := fieldStores(r, be)
		c.Check(fs["X"] == "frombytes(slice(a,0x1,_))", rule, fname(r), "X = a[1:]", "", "X is "+fs["X"], r.Pos())
		// parity compared with a[0]
		ci := &condIndex{r, be, condList(r, be)}
		okP := false
		for _, s := range ci.conds {
			if strings.Contains(s, "call:sm2.getLastBit(") && strings.Contains(s, "idx(a,0)") {
				okP = true
			}
		}
		c.Check(okP, rule, fname(r), "root chosen by the parity byte a[0]", "", "the y root is not selected by comparing its low bit with a[0]", r.Pos())
	}
	// ASN.1 signature: both functions use the same structure type
	m := c.Fn("sm2", "SignDigitToSignData")
	u := c.Fn("sm2", "SignDataToSignDigit")
	if m != nil && u != nil {
		t1, t2 := "", ""
		if call := findCall(m, "Marshal"); call != nil {
			if mi, ok := call.Call.Args[0].(*ssa.MakeInterface); ok {
				t1 = types.TypeString(mi.X.Type(), nil)
			}
		}
		if call := findCall(u, "Unmarshal"); call != nil {
			if mi, ok := call.Call.Args[1].(*ssa.MakeInterface); ok {
				t2 = strings.TrimPrefix(types.TypeString(mi.X.Type(), nil), "*")
			}
		}
		c.Check(t1 != "" && t1 == t2, rule, "sm2.SignDigitToSignData/SignDataToSignDigit", "same ASN.1 structure both ways", t1, "marshal uses "+t1+", unmarshal "+t2, m.Pos())
	}
}

// c14DecompressValid: Decompress hands out a key only for an x that is the abscissa of a curve point. Whatever the
// square-root method, the non-nil result must come after a test that fails for a non-residue: the nil test of
// big.Int.ModSqrt's result, or an IsOnCurve call on the reconstructed point. (An exponentiation y2^((p+1)/4) always
// "succeeds"; without the test it yields an off-curve key.)
func c14DecompressValid(c *Ctx) {
	rule := "T-CODEC"
	f := c.Fn("sm2", "Decompress")
	if f == nil {
		c.Missing(rule, "sm2.Decompress", "function", "not found")
		return
	}
	cut := map[edge]bool{}
	n := 0
	for _, ifi := range ifsOf(f) {
		b := ifi.Block()
		switch x := ifi.Cond.(type) {
		case *ssa.BinOp:
			// y == nil / y != nil on the ModSqrt result
			var v ssa.Value
			if isNilConst(x.Y) {
				v = x.X
			} else if isNilConst(x.X) {
				v = x.Y
			}
			if call, ok := v.(*ssa.Call); ok && calleeID(&call.Call) == "(*math/big.Int).ModSqrt" {
				n++
				if x.Op == token.NEQ {
					cut[edge{b, b.Succs[0]}] = true
				} else if x.Op == token.EQL {
					cut[edge{b, b.Succs[1]}] = true
				}
			}
		case *ssa.Call:
			if x.Call.IsInvoke() && x.Call.Method.Name() == "IsOnCurve" || calleeNamed(x, "IsOnCurve") {
				n++
				cut[edge{b, b.Succs[0]}] = true
			}
		case *ssa.UnOp:
			if call, ok := x.X.(*ssa.Call); ok && x.Op == token.NOT && (call.Call.IsInvoke() && call.Call.Method.Name() == "IsOnCurve" || calleeNamed(call, "IsOnCurve")) {
				n++
				cut[edge{b, b.Succs[1]}] = true
			}
		}
	}
	// with the passing edges of those tests removed, no non-nil result is reachable
	bad := token.NoPos
	for b := range reach([]*ssa.BasicBlock{f.Blocks[0]}, cut) {
		if ret, ok := b.Instrs[len(b.Instrs)-1].(*ssa.Return); ok && len(ret.Results) == 1 && !isNilConst(ret.Results[0]) {
			bad = ret.Pos()
		}
	}
	c.Check(n > 0 && bad == token.NoPos, rule, fname(f), "a key is returned only for an x on the curve", "", "Decompress can return a key without a test that fails when x^3+ax+b has no square root (nil result of ModSqrt, or IsOnCurve on the result): an x that is not the abscissa of any curve point yields an off-curve public key instead of nil", bad)
}

// c14Nil: every elliptic.Unmarshal result must pass a nil test that rejects before it is used
func c14Nil(c *Ctx) {
	n := 0
	for _, pkg := range []string{"x509", "gmtls", "sm2", "pkcs12"} {
		for _, f := range c.P.RepoFuncs(pkg) {
			for _, ci := range allCalls(f) {
				call, ok := ci.(*ssa.Call)
				if !ok || calleeID(&call.Call) != "crypto/elliptic.Unmarshal" {
					continue
				}
				n++
				spec, has := defaultResultSpec(f)
				construct := fmt.Sprintf("elliptic.Unmarshal #%d result checked for nil", siteOrdinalByID(f, call))
				if !has {
					c.Undecided("B-PRE-nil", fname(f), construct, "function has no error result", call.Pos())
					continue
				}
				var x ssa.Value
				for _, u := range *call.Referrers() {
					if ex, ok := u.(*ssa.Extract); ok && ex.Index == 0 {
						x = ex
					}
				}
				var atoms []Atom
				for _, ifi := range ifsOf(f) {
					bo, ok := ifi.Cond.(*ssa.BinOp)
					if !ok || !isNilConst(bo.Y) {
						continue
					}
					v := bo.X
					// the result may have been stored in a field first (ka.x, ka.y = Unmarshal(...))
					same := v == x
					if ld, ok := v.(*ssa.UnOp); ok && !same {
						if fa, ok := ld.X.(*ssa.FieldAddr); ok && x != nil {
							for _, u := range *x.Referrers() {
								if st, ok := u.(*ssa.Store); ok {
									if fa2, ok := st.Addr.(*ssa.FieldAddr); ok && fa2.X == fa.X && fa2.Field == fa.Field {
										same = true
									}
								}
							}
						}
					}
					if !same {
						continue
					}
					ps := 0
					if bo.Op.String() == "==" {
						ps = 1
					}
					atoms = append(atoms, Atom{ifi, ps, "x != nil"})
				}
				g := evalReject(c.P, f, atoms, spec)
				c.Check(g.OK, "B-PRE-nil", fname(f), construct, g.Why, "elliptic.Unmarshal returns nil for malformed or off-curve points; the result is used without a rejecting nil test: "+g.Why, call.Pos())
			}
		}
	}
	c.MinSites("B-PRE-nil", 4)
}

func siteOrdinalByID(f *ssa.Function, call *ssa.Call) int {
	n := 0
	id := calleeID(&call.Call)
	for _, ci := range allCalls(f) {
		if calleeID(ci.Common()) == id {
			n++
			if ci == ssa.CallInstruction(call) {
				return n
			}
		}
	}
	return 0
}

// c14Loaders: type flow and key matching in the TLS loaders
func c14Loaders(c *Ctx) {
	// types parsePublicKey can return
	pp := c.Fn("x509", "parsePublicKey")
	produced := map[string]bool{}
	if pp != nil {
		instrsOf(pp, func(_ *ssa.BasicBlock, in ssa.Instruction) {
			if mi, ok := in.(*ssa.MakeInterface); ok {
				produced[types.TypeString(mi.X.Type(), nil)] = true
			}
		})
	}
	if len(produced) < 2 {
		c.Undecided("T-TYPEFLOW", "x509.parsePublicKey", "produced key types", "could not enumerate the concrete key types the certificate parser returns", 0)
		return
	}
	for _, fnm := range []string{"matchKeyCert", "X509KeyPair"} {
		f := c.Fn("gmtls", fnm)
		if f == nil {
			c.Missing("T-TYPEFLOW", "gmtls."+fnm, "function", "loader not found")
			continue
		}
		be := newBigEnv(f, allParamNames(f))
		nAssert := 0
		instrsOf(f, func(_ *ssa.BasicBlock, in ssa.Instruction) {
			ta, ok := in.(*ssa.TypeAssert)
			if !ok {
				return
			}
			// operand: load of field PublicKey of a parsed certificate
			ld, ok := ta.X.(*ssa.UnOp)
			if !ok {
				return
			}
			fa, ok := ld.X.(*ssa.FieldAddr)
			if !ok || fieldName(fa.X.Type(), fa.Field) != "PublicKey" || !strings.HasSuffix(types.TypeString(fa.X.Type(), nil), "gmsm/x509.Certificate") {
				return
			}
			nAssert++
			if fnm == "X509KeyPair" {
				// the key is matched against the LEAF: the certificate parsed from element 0 of the chain
				leaf := false
				if ex, ok := fa.X.(*ssa.Extract); ok && ex.Index == 0 {
					if pc, ok := ex.Tuple.(*ssa.Call); ok && calleeNamed(pc, "ParseCertificate") && len(pc.Call.Args) > 0 {
						if eld, ok := pc.Call.Args[0].(*ssa.UnOp); ok {
							if ia, ok := eld.X.(*ssa.IndexAddr); ok {
								if k, isK := constInt(ia.Index); isK && k == 0 {
									leaf = true
								}
							}
						}
					}
				}
				c.Check(leaf, "T-TYPEFLOW", fname(f), "the private key is matched against the leaf certificate (chain element 0)", "", "the certificate whose public key is compared with the private key is not the one parsed from Certificate[0] (it is "+be.plain(fa.X, ta).String()+"): with a leaf+CA bundle the leaf's key is rejected and the CA's key accepted", ta.Pos())
			}
			t := types.TypeString(ta.AssertedType, nil)
			c.Check(produced[t], "T-TYPEFLOW", fname(f), "case "+shortType(ta.AssertedType)+" is a type the certificate parser produces", "", "the loader tests Certificate.PublicKey for "+t+", which x509.parsePublicKey never returns (it yields "+keysOfSet(produced)+"): that arm is dead and matching pairs are rejected", ta.Pos())
		})
		c.Check(nAssert >= 1, "T-TYPEFLOW", fname(f), "switches on the parsed certificate's public key", "", "no type switch on Certificate.PublicKey found", f.Pos())
		// SM2 arm: both coordinates compared with the private key's public point, mismatch is an error
		spec, _ := defaultResultSpec(f)
		ok2 := 0
		for _, ifi := range ifsOf(f) {
			st, ok := decodeSignTest(ifi.Cond)
			if !ok || st.Kind != "Cmp" {
				continue
			}
			x := be.valueAt(st.X, st.Call).String()
			y := be.valueAt(st.Y, st.Call).String()
			if (strings.HasSuffix(x, ".X") && strings.HasSuffix(y, ".X")) || (strings.HasSuffix(x, ".Y") && strings.HasSuffix(y, ".Y")) {
				if ps, ok := passSuccFor([3]bool{false, true, false}, st.TrueSet); ok {
					g := evalReject(c.P, f, []Atom{{ifi, ps, "coordinate equal"}}, spec)
					if g.OK {
						ok2++
					}
				}
			}
		}
		// ... or in a helper that answers "do the keys match" (true only if every compared coordinate is equal), on
		// whose false answer the loader rejects
		for _, ci := range allCalls(f) {
			call, isCall := ci.(*ssa.Call)
			if !isCall {
				continue
			}
			h := call.Call.StaticCallee()
			if h == nil || !inRepo(h) || h.Blocks == nil || h.Signature.Results().Len() != 1 || h.Signature.Results().At(0).Type().String() != "bool" {
				continue
			}
			// the loader must reject when the helper says false
			callerRejects := false
			for _, ifi := range ifsOf(f) {
				if ifi.Cond == ssa.Value(call) {
					if g := evalReject(c.P, f, []Atom{{ifi, 0, "keys match"}}, spec); g.OK {
						callerRejects = true
					}
				}
				if u, isNot := ifi.Cond.(*ssa.UnOp); isNot && u.Op == token.NOT && u.X == ssa.Value(call) {
					if g := evalReject(c.P, f, []Atom{{ifi, 1, "keys match"}}, spec); g.OK {
						callerRejects = true
					}
				}
			}
			if !callerRejects {
				continue
			}
			hbe := newBigEnv(h, allParamNames(h))
			hspec := resultSpec{0, "bool"}
			for _, ifi := range ifsOf(h) {
				st, ok := decodeSignTest(ifi.Cond)
				if !ok || st.Kind != "Cmp" {
					continue
				}
				x := hbe.valueAt(st.X, st.Call).String()
				y := hbe.valueAt(st.Y, st.Call).String()
				if (strings.HasSuffix(x, ".X") && strings.HasSuffix(y, ".X")) || (strings.HasSuffix(x, ".Y") && strings.HasSuffix(y, ".Y")) {
					if ps, ok := passSuccFor([3]bool{false, true, false}, st.TrueSet); ok {
						if g := evalReject(c.P, h, []Atom{{ifi, ps, "coordinate equal"}}, hspec); g.OK {
							ok2++
						}
					}
				}
			}
		}
		if ok2 >= 2 {
			c.Holds("T-TYPEFLOW", fname(f), "both public coordinates compared with the private key's, mismatch rejected", "", f.Pos())
		} else {
			// bool helpers called by the loader were followed: the verdict stands even if such a helper is new
			c.ViolatedHard("T-TYPEFLOW", fname(f), "both public coordinates compared with the private key's, mismatch rejected", fmt.Sprintf("%d rejecting coordinate comparisons found (in the loader and in the boolean helpers it calls): a key pair whose public point differs from the certificate's in one coordinate is accepted", ok2), f.Pos())
		}
	}
}

func keysOfSet(m map[string]bool) string {
	var ks []string
	for k := range m {
		ks = append(ks, k)
	}
	sort.Strings(ks)
	return strings.Join(ks, ", ")
}

// splitTop splits s at the separators that are not nested in parentheses
func splitTop(s string, sep byte) []string {
	var out []string
	depth, start := 0, 0
	for i := 0; i < len(s); i++ {
		switch s[i] {
		case '(':
			depth++
		case ')':
			depth--
		case sep:
			if depth == 0 {
				out = append(out, s[start:i])
				start = i + 1
			}
		}
	}
	return append(out, s[start:])
}
