package main

// C17 — PKCS#7 / PKCS#12 containers

import (
	"fmt"
	"go/token"
	"strings"

	"golang.org/x/tools/go/ssa"
)

func init() { register("C17", checkC17) }

func calleeNamed(call *ssa.Call, name string) bool {
	sc := call.Call.StaticCallee()
	return sc != nil && sc.Name() == name && inRepo(sc)
}

func checkC17(c *Ctx) {
	defer c17BMP(c)
	defer c17LengthThresholds(c)

	c.Decided = append(c.Decided,
		"K-C17-lenbytes: in the BER-to-DER transcoder, every comparison of a length (or the length shifted by whole bytes) with a constant in lengthLength sits at a power of 256",
		"G-C17-mac: getSafeContents returns bags only on paths where verifyMac returned nil (first try or the empty-password retry); verifyMac compares the stored digest with HMAC-SHA1(key derived from the password, content) in constant time; every caller of getSafeContents returns its error",
		"G-C17-digest: PKCS#7 verifySignature rejects a message-digest mismatch (hash of the content vs the signed attribute), a missing signer certificate and an unsupported algorithm, and returns CheckSignature over the DER SET of signed attributes (or the content when there are none) with the signer's EncryptedDigest; Verify rejects a message without signers and any failing signer",
		"B-PANIC-assert: no single-value type assertion on caller-supplied keys or parsed values in the PKCS#7/PKCS#12 code",
		"T-UNPAD: x509.unpad and pkcs12.pbDecrypt reject empty data, pad 0, pad above the block size / data length and compare every pad byte",
		"B-PRE-C17: CBC content decryption checks that the ciphertext is a whole number of blocks and the IV one block",
		"G-C17-err: ASN.1 parse errors in the PKCS#7 parsers are returned",
		"K-C17-envelope: the content key is unwrapped for the recipient selected by issuer and serial number and used to decrypt the content; SM2 wrapping uses the recipient certificate's point",
		"B-IDX: index/slice sites of the BER transcoder, PKCS#7 and PKCS#12 code are in bounds for every input")
	c.NotDec = append(c.NotDec, "exact recovery of the content and exclusivity to the right key (cryptographic)", "that no modification of a PKCS#12 file decodes to a different key (follows from the MAC rule plus HMAC)")

	getFX(c)
	c17PKCS12(c)
	c17KDF(c)
	c17KeyBag(c)
	c17Verify(c)
	c17Envelope(c)
	c17Asserts(c)
	c17Unpad(c)
	c17Pad(c)
	hashFed(c, "G-HASH-fed", []string{"x509", "pkcs12"})

	var fs []*ssa.Function
	for _, n := range []string{"ber2der", "readObject", "isIndefiniteTermination", "encodeLength", "marshalLongLength", "lengthLength", "ParsePKCS7", "parseSignedData", "parseEnvelopedData", "verifySignature", "unmarshalAttribute", "marshalAttributes", "(*PKCS7).Decrypt", "(*PKCS7).DecryptSM2", "encryptedContentInfo.decrypt", "pad", "unpad", "selectRecipientForCertificate", "getCertFromCertsByIssuerAndSerial", "rawCertificates.Parse", "asn1Structured.EncodeTo", "asn1Primitive.EncodeTo"} {
		if f := c.Fn("x509", n); f != nil {
			fs = append(fs, f)
		} else {
			c.Missing("B-IDX", "x509."+n, "function", "not found")
		}
	}
	// PKCS#12 decoding path. Out of scope: the encoders (inputs are the caller's own key and certificate) and the
	// vendored RC2 / PKCS#12-KDF primitives (rc2.go, pbkdf.go: table-driven key schedule and v/u block arithmetic
	// on products of lengths, not linear; the block functions run under cipher.BlockMode with whole blocks).
	for _, n := range []string{"bmpString", "decodeBMPString", "pbeCipherFor", "pbDecrypterFor", "pbDecrypt", "verifyMac", "unmarshal", "ToPEM", "convertBag", "convertAttribute", "DecodeAll", "Decode", "getSafeContents", "SM2P12Decrypt", "ParsePKCS8PrivateKey", "parseECPrivateKey", "decodePkcs8ShroudedKeyBag", "decodeCertBag", "namedCurveFromOID"} {
		if f := c.Fn("pkcs12", n); f != nil {
			fs = append(fs, f)
		} else if n == "pbDecrypterFor" || n == "pbeCipherFor" || n == "convertAttribute" || n == "decodeCertBag" || n == "namedCurveFromOID" {
			// small unexported helpers: when one is inlined into its caller its sites are checked there
			c.Notes = append(c.Notes, "B-IDX: helper pkcs12."+n+" not present (inlined or renamed); its index sites are those of its callers")
		} else {
			c.Missing("B-IDX", "pkcs12."+n, "function", "not found")
		}
	}
	c.NotDec = append(c.NotDec, "index arithmetic inside the vendored RC2 cipher and PKCS#12 KDF (pkcs12/rc2.go, pkcs12/pbkdf.go) and in the PKCS#12 encoders")
	exempt := map[string]string{
		"B-IDX|pkcs12.decodeBMPString|index ?phi1[1] #1": "the length is checked to be even at entry and the loop consumes two bytes per iteration, so len > 0 implies len >= 2 (a parity invariant, outside the linear prover)",
		"B-IDX|pkcs12.SM2P12Decrypt|index extract1(call:pkcs12.DecodeAll(extract0(call:io/ioutil.ReadFile(fileName)),pwd))[0] #1": "DecodeAll returns a nil error only with certificate != nil, and certificate is only ever extended by append of one parsed certificate (an inter-procedural loop invariant, outside the linear prover)",
	}
	checkIntContracts(c) // the bounds proofs below may use the readObject contract
	st := bidx(c, "B-IDX", fs, exempt)
	c.Notes = append(c.Notes, fmt.Sprintf("B-IDX: %d sites, %d compiler, %d LinBounds, %d unproven", st.sites, st.compiler, st.lin, st.unproved))
}

func c17PKCS12(c *Ctx) {
	f := c.Fn("pkcs12", "getSafeContents")
	if f == nil {
		c.Missing("G-C17-mac", "pkcs12.getSafeContents", "function", "not found")
		return
	}
	spec, _ := defaultResultSpec(f)
	isVM := func(cl *ssa.Call) bool { return calleeNamed(cl, "verifyMac") }
	atoms := errCheckAtomsPhi(f, isVM, "verifyMac == nil")
	var sinks []ssa.Instruction
	for _, ci := range allCalls(f) {
		if call, ok := ci.(*ssa.Call); ok && calleeNamed(call, "pbDecrypt") {
			sinks = append(sinks, call)
		}
	}
	g := evalGuardAny(c.P, f, atoms, spec, sinks, nil)
	c.Check(g.OK, "G-C17-mac", fname(f), "contents are used only after verifyMac succeeded", g.Why, "the authenticated safe must not be decoded or decrypted unless the MAC over it verified: "+g.Why, g.Pos)
	// verifyMac arguments: the MAC data, the content bytes, the password
	be := newBigEnv(f, paramNames(f, "p12Data", "password"))
	macMsg := ""
	for _, ci := range allCalls(f) {
		call, ok := ci.(*ssa.Call)
		if !ok || !isVM(call) {
			continue
		}
		msg := be.bytesOf(call.Call.Args[1], call).String()
		macMsg = msg
		c.Check(strings.HasSuffix(msg, ".AuthSafe.Content.Bytes") && !strings.Contains(msg, ","), "G-C17-mac", fname(f), fmt.Sprintf("verifyMac #%d is over the authenticated safe content", siteOrdinal(f, call)), "", "the MAC is computed over "+msg, call.Pos())
	}
	// what is decoded afterwards is that same content: the SEQUENCE OF ContentInfo is parsed from the bytes the MAC covered
	nDec := 0
	for _, ci := range allCalls(f) {
		call, ok := ci.(*ssa.Call)
		if !ok || !calleeNamed(call, "unmarshal") || len(call.Call.Args) != 2 {
			continue
		}
		mi, ok := call.Call.Args[1].(*ssa.MakeInterface)
		if !ok || !strings.HasSuffix(mi.X.Type().String(), "*[]github.com/tjfoc/gmsm/pkcs12.contentInfo") {
			continue
		}
		nDec++
		src := be.bytesOf(call.Call.Args[0], call).String()
		c.Check(src == macMsg, "G-C17-mac", fname(f), "the authenticated safe is parsed from the bytes the MAC covers", "", "the authenticated safe is parsed from "+src, call.Pos())
	}
	if nDec == 0 {
		c.Undecided("G-C17-mac", fname(f), "the authenticated safe is parsed from the bytes the MAC covers", "no unmarshal into []contentInfo found", f.Pos())
	}
	// verifyMac
	if vm := c.Fn("pkcs12", "verifyMac"); vm != nil {
		vbe := newBigEnv(vm, paramNames(vm, "macData", "message", "password"))
		vspec, _ := defaultResultSpec(vm)
		var atoms []Atom
		for _, ifi := range ifsOf(vm) {
			cond := ifi.Cond
			neg := false
			if u, ok := cond.(*ssa.UnOp); ok {
				cond, neg = u.X, true
			}
			call, ok := cond.(*ssa.Call)
			if !ok {
				continue
			}
			id := calleeID(&call.Call)
			if id != "crypto/hmac.Equal" && id != "crypto/subtle.ConstantTimeCompare" {
				continue
			}
			a := vbe.bytesOf(call.Call.Args[0], call).String()
			b := vbe.bytesOf(call.Call.Args[1], call).String()
			if strings.Contains(a+b, "macData.Mac.Digest") && strings.Contains(a+b, "call:Sum(") {
				ps := 0
				if neg {
					ps = 1
				}
				atoms = append(atoms, Atom{ifi, ps, "digest == expected"})
			}
		}
		g := evalGuard(c.P, vm, atoms, vspec, nil)
		c.Check(g.OK, "G-C17-mac", fname(vm), "stored digest equals the recomputed HMAC (constant-time) or error", g.Why, g.Why, g.Pos)
		// HMAC key from password; message written
		okK := false
		okM := false
		for _, ci := range allCalls(vm) {
			call, ok := ci.(*ssa.Call)
			if !ok {
				continue
			}
			if calleeID(&call.Call) == "crypto/hmac.New" {
				k := vbe.bytesOf(call.Call.Args[1], call).String()
				okK = strings.HasPrefix(k, "call:pkcs12.pbkdf(") && strings.Contains(k, "password") && strings.Contains(k, "macData.MacSalt") && strings.Contains(k, "macData.Iterations")
			}
			if call.Call.IsInvoke() && call.Call.Method.Name() == "Write" {
				okM = vbe.bytesOf(call.Call.Args[0], call).String() == "message"
			}
		}
		c.Check(okK && okM, "G-C17-mac", fname(vm), "HMAC keyed by the password-derived key over the message", "", "verifyMac does not compute HMAC(pbkdf(password, salt, iterations), message)", vm.Pos())
	} else {
		c.Missing("G-C17-mac", "pkcs12.verifyMac", "function", "not found")
	}
	// callers
	n := 0
	for _, caller := range c.P.RepoFuncs("pkcs12") {
		for _, ci := range allCalls(caller) {
			call, ok := ci.(*ssa.Call)
			if !ok || !calleeNamed(call, "getSafeContents") {
				continue
			}
			n++
			cspec, has := defaultResultSpec(caller)
			if !has {
				continue
			}
			g := evalGuard(c.P, caller, errCheckAtoms(caller, func(cl *ssa.Call) bool { return cl == call }, "getSafeContents error"), cspec, nil)
			c.Check(g.OK, "G-C17-mac", fname(caller), "error of getSafeContents is returned", g.Why, "a failed integrity/password check must make "+caller.Name()+" fail: "+g.Why, call.Pos())
		}
	}
	c.MinSites("G-C17-mac", 5)
	_ = n
}

func c17Verify(c *Ctx) {
	f := c.Fn("x509", "verifySignature")
	if f == nil {
		c.Missing("G-C17-digest", "x509.verifySignature", "function", "not found")
		return
	}
	names := paramNames(f, "p7", "signer")
	be := newBigEnv(f, names)
	ci := &condIndex{f, be, condList(f, be)}
	spec, _ := defaultResultSpec(f)
	rule := "G-C17-digest"
	hasAttrs := ci.edges(`re:gt\(len\(.*AuthenticatedAttributes\),0x0\)`, false)
	// digest comparison
	var atoms []Atom
	for ifi, s := range ci.conds {
		if strings.HasPrefix(s, "call:crypto/hmac.Equal(") || strings.HasPrefix(s, "call:bytes.Equal(") {
			if strings.Contains(s, "call:Sum(") {
				atoms = append(atoms, Atom{ifi, 0, "digest equal"})
			}
		}
	}
	g := evalGuardCut(c.P, f, atoms, spec, nil, hasAttrs)
	c.Check(g.OK, rule, fname(f), "message-digest attribute equals the hash of the content", g.Why, "with signed attributes present, a content whose hash differs from the message-digest attribute must be rejected: "+g.Why, g.Pos)
	// the hash is over p7.Content
	okH := false
	for _, ci2 := range allCalls(f) {
		if call, ok := ci2.(*ssa.Call); ok && call.Call.IsInvoke() && call.Call.Method.Name() == "Write" {
			okH = be.bytesOf(call.Call.Args[0], call).String() == "p7.Content"
		}
	}
	c.Check(okH, rule, fname(f), "digest computed over the content", "", "the recomputed digest is not over p7.Content", f.Pos())
	ci.require(c, rule, "signer certificate must be found", `re:eq\(call:x509\.getCertFromCertsByIssuerAndSerial\(p7\.Certificates,.*IssuerAndSerialNumber\),const:nil:.*\)`, false, spec, nil, "a signer without a matching certificate must be rejected")
	ci.require(c, rule, "unsupported algorithm rejected", `re:eq\(call:x509\.getSignatureAlgorithmByHash\(.*\),0x0\)`, false, spec, nil, "")
	for _, ret := range successReturns(f) {
		got := be.plain(ret.Results[0], ret).String()
		ok := strings.HasPrefix(got, "call:(*x509.Certificate).CheckSignature(call:x509.getCertFromCertsByIssuerAndSerial(") && strings.HasSuffix(got, "EncryptedDigest)")
		// signed bytes: the content when there are no signed attributes, else the DER SET of exactly those attributes
		if call, isCall := ret.Results[0].(*ssa.Call); isCall && len(call.Call.Args) == 4 {
			phi, isPhi := call.Call.Args[2].(*ssa.Phi)
			attrEdges := ci.edges(`re:gt\(len\(.*AuthenticatedAttributes\),0x0\)`, true)
			if !isPhi || len(attrEdges) != 1 {
				ok = false
			} else {
				var attrBlock *ssa.BasicBlock
				for e := range attrEdges {
					attrBlock = e.to
				}
				for i, e := range phi.Edges {
					pred := phi.Block().Preds[i]
					got := be.bytesOf(e, pred.Instrs[len(pred.Instrs)-1]).String()
					want := "p7.Content"
					if attrBlock == pred || attrBlock.Dominates(pred) {
						want = "res0(call:x509.marshalAttributes(signer.AuthenticatedAttributes))"
					}
					if got != want {
						ok = false
						dbg("verifySignature signed bytes: got %s want %s", got, want)
					}
				}
			}
		} else {
			ok = false
		}
		c.Check(ok, rule, fname(f), "returns CheckSignature(algo, content-or-signed-attributes, EncryptedDigest) under the signer's certificate", "", "the accepting return is "+got, ret.Pos())
	}
	if v := c.Fn("x509", "(*PKCS7).Verify"); v != nil {
		vci := newCondIndex(v, paramNames(v, "p7"))
		vspec, _ := defaultResultSpec(v)
		vci.require(c, rule, "no signers is an error", `re:eq\(len\(p7\.Signers\),0x0\)`, false, vspec, nil, "")
		vs := findCall(v, "verifySignature")
		if vs != nil {
			g := evalReject(c.P, v, errCheckAtoms(v, func(cl *ssa.Call) bool { return cl == vs }, "verifySignature"), vspec)
			c.Check(g.OK, rule, fname(v), "a failing signer fails Verify", g.Why, g.Why, g.Pos)
		}
	}
	// G-C17-err: asn1.Unmarshal errors checked in parsers
	for _, n := range []string{"ParsePKCS7", "parseSignedData", "parseEnvelopedData", "rawCertificates.Parse"} {
		pf := c.Fn("x509", n)
		if pf == nil {
			continue
		}
		pspec, _ := defaultResultSpec(pf)
		for _, ci2 := range allCalls(pf) {
			call, ok := ci2.(*ssa.Call)
			if !ok || calleeID(&call.Call) != "encoding/asn1.Unmarshal" {
				continue
			}
			g := evalReject(c.P, pf, errCheckAtoms(pf, func(cl *ssa.Call) bool { return cl == call }, "asn1 error"), pspec)
			c.Check(g.OK, "G-C17-err", fname(pf), fmt.Sprintf("asn1.Unmarshal #%d error is returned", siteOrdinalByID(pf, call)), g.Why, "a malformed structure must be an error: "+g.Why, call.Pos())
		}
	}
}

func c17Envelope(c *Ctx) {
	rule := "K-C17-envelope"
	for _, pr := range [][2]string{{"(*PKCS7).DecryptSM2", "call:sm2.Decrypt("}, {"(*PKCS7).Decrypt", "call:crypto/rsa.DecryptPKCS1v15("}} {
		f := c.Fn("x509", pr[0])
		if f == nil {
			c.Missing(rule, "x509."+pr[0], "method", "not found")
			continue
		}
		be := newBigEnv(f, allParamNames(f))
		for _, ret := range successReturns(f) {
			got := be.bytesOf(ret.Results[0], ret).String()
			ok := strings.HasPrefix(got, "res0(call:(x509.encryptedContentInfo).decrypt(as:x509.envelopedData(p7.raw).EncryptedContentInfo,res0("+pr[1]) &&
				strings.Contains(got, "(pk),x509.selectRecipientForCertificate(as:x509.envelopedData(p7.raw).RecipientInfos,cert).EncryptedKey")
			c.Check(ok, rule, fname(f), "content decrypted with the key unwrapped from the selected recipient's EncryptedKey", "", "returns "+got, ret.Pos())
		}
		spec, _ := defaultResultSpec(f)
		ci := &condIndex{f, be, condList(f, be)}
		ci.require(c, rule, "no matching recipient is an error", `re:eq\(.*EncryptedKey,const:nil:\[\]byte\)`, false, spec, nil, "")
	}
	if f := c.Fn("x509", "isCertMatchForIssuerAndSerial"); f != nil {
		// decided on values: the result can be true neither when the serial numbers differ nor when the raw issuer
		// names differ — whichever way the two comparisons are written and combined
		ci := newCondIndex(f, paramNames(f, "cert", "ias"))
		spec := resultSpec{0, "bool"}
		serial := `re:eq\(cmp\((cert\.SerialNumber,ias\.SerialNumber|ias\.SerialNumber,cert\.SerialNumber)\),0x0\)`
		issuerArgs := `(cert\.RawIssuer,ias\.IssuerName\.FullBytes|ias\.IssuerName\.FullBytes,cert\.RawIssuer)`
		issuer := `re:(eq\(call:bytes\.Compare\(` + issuerArgs + `\),0x0\)|call:bytes\.Equal\(` + issuerArgs + `\))`
		ci.requireAssume(c, rule, "no match when the serial numbers differ", []assumption{{serial, false}}, spec, nil, "certificate matching must compare the serial number")
		ci.requireAssume(c, rule, "no match when the raw issuer names differ", []assumption{{issuer, false}}, spec, nil, "certificate matching must compare the raw issuer name")
	}
	if f := c.Fn("x509", "encryptKeySM2"); f != nil {
		be := newBigEnv(f, paramNames(f, "key", "recipient", "mode"))
		for _, ret := range successReturns(f) {
			got := be.bytesOf(ret.Results[0], ret).String()
			c.Check(strings.HasPrefix(got, "res0(call:sm2.Encrypt(") && strings.Contains(got, ",key,"), rule, fname(f), "content key wrapped with sm2.Encrypt under the recipient's key", "", "returns "+got, ret.Pos())
		}
		fs := fieldStores(f, be)
		c.Check(strings.HasSuffix(fs["X"], ".X") && strings.HasSuffix(fs["Y"], ".Y"), rule, fname(f), "recipient point taken coordinate-wise from the certificate key", "", "wrapping key is X="+fs["X"]+" Y="+fs["Y"], f.Pos())
	}
}

// c17Asserts: no single-value type assertions in the container code
func c17Asserts(c *Ctx) {
	n := 0
	scope := map[string][]string{
		"x509":   {"(*PKCS7).Decrypt", "(*PKCS7).DecryptSM2", "encryptKey", "encryptKeySM2", "PKCS7Encrypt", "PKCS7EncryptSM2", "ParsePKCS7", "parseSignedData", "parseEnvelopedData", "verifySignature", "(*PKCS7).Verify", "unmarshalAttribute", "encryptedContentInfo.decrypt"},
		"pkcs12": nil,
	}
	for pkg, names := range scope {
		var fs []*ssa.Function
		if names == nil {
			fs = c.P.RepoFuncs(pkg)
		} else {
			for _, nm := range names {
				if f := c.Fn(pkg, nm); f != nil {
					fs = append(fs, f)
				}
			}
		}
		for _, f := range fs {
			k := 0
			instrsOf(f, func(_ *ssa.BasicBlock, in ssa.Instruction) {
				ta, ok := in.(*ssa.TypeAssert)
				if !ok {
					return
				}
				n++
				c.Evals++
				if ta.CommaOk {
					return
				}
				// statically known dynamic type (value boxed in this function) is fine
				if _, ok := ta.X.(*ssa.MakeInterface); ok {
					return
				}
				k++
				c.Violated("B-PANIC-assert", fname(f), fmt.Sprintf("single-value type assertion #%d to %s", k, shortType(ta.AssertedType)), "a value of another dynamic type (caller-supplied key, parsed content) panics here instead of producing an error", ta.Pos())
			})
			if k == 0 {
				c.Holds("B-PANIC-assert", fname(f), "no single-value type assertion", "", f.Pos())
			}
		}
	}
	_ = n
}

func c17Unpad(c *Ctx) {
	if u := c.Fn("x509", "unpad"); u != nil {
		bl := u.Params[1]
		checkUnpadDyn(c, "T-UNPAD", u, u.Params[0], 0, func(v ssa.Value) bool { return v == ssa.Value(bl) })
	} else {
		c.Missing("T-UNPAD", "x509.unpad", "function", "not found")
	}
	if p := c.Fn("pkcs12", "pbDecrypt"); p != nil {
		var data, bs ssa.Value
		var same []ssa.Value
		instrsOf(p, func(_ *ssa.BasicBlock, in ssa.Instruction) {
			if ms, ok := in.(*ssa.MakeSlice); ok {
				data = ms
				isLenOf(ms.Len, func(x ssa.Value) bool { same = append(same, x); return false })
			}
			if ex, ok := in.(*ssa.Extract); ok && ex.Index == 1 {
				if call, ok := ex.Tuple.(*ssa.Call); ok && calleeNamed(call, "pbDecrypterFor") {
					bs = ex
				}
			}
		})
		if data != nil && bs != nil {
			checkUnpadDyn(c, "T-UNPAD", p, data, 0, func(v ssa.Value) bool { return v == bs }, same...)
		} else {
			c.Undecided("T-UNPAD", fname(p), "un-padding", "decrypted buffer / block size not identified", p.Pos())
		}
		// B-PRE: ciphertext multiple of the block size before CryptBlocks
		spec, _ := defaultResultSpec(p)
		be := newBigEnv(p, allParamNames(p))
		ci := &condIndex{p, be, condList(p, be)}
		cb := findCall(p, "CryptBlocks")
		var atoms []Atom
		for ifi, s := range ci.conds {
			if strings.HasPrefix(s, "ne(rem(len(") && strings.HasSuffix(s, "),0x0)") {
				atoms = append(atoms, Atom{ifi, 1, "len % bs == 0"})
			}
		}
		var sinks []ssa.Instruction
		if cb != nil {
			sinks = append(sinks, cb)
		}
		g := evalGuardSinks(c.P, p, atoms, spec, sinks)
		c.Check(g.OK, "B-PRE-C17", fname(p), "ciphertext is a whole number of blocks before CryptBlocks", g.Why, g.Why, g.Pos)
	}
	if d := c.Fn("x509", "encryptedContentInfo.decrypt"); d != nil {
		spec, _ := defaultResultSpec(d)
		be := newBigEnv(d, allParamNames(d))
		ci := &condIndex{d, be, condList(d, be)}
		cb := findCall(d, "CryptBlocks")
		cbc := findCall(d, "NewCBCDecrypter")
		var a1, a2 []Atom
		for ifi, s := range ci.conds {
			if strings.HasPrefix(s, "ne(rem(len(") && strings.Contains(s, "call:BlockSize(") && strings.HasSuffix(s, "),0x0)") {
				a1 = append(a1, Atom{ifi, 1, "len % bs == 0"})
			}
			if strings.HasPrefix(s, "ne(len(") && strings.Contains(s, "Parameters.Bytes") && strings.Contains(s, "call:BlockSize(") {
				a2 = append(a2, Atom{ifi, 1, "len(iv) == bs"})
			}
		}
		if cb != nil {
			g := evalGuardSinks(c.P, d, a1, spec, []ssa.Instruction{cb})
			c.Check(g.OK, "B-PRE-C17", fname(d), "ciphertext is a whole number of blocks before CryptBlocks", g.Why, "CryptBlocks panics on a partial block: "+g.Why, g.Pos)
		}
		if cbc != nil {
			g := evalGuardSinks(c.P, d, a2, spec, []ssa.Instruction{cbc})
			c.Check(g.OK, "B-PRE-C17", fname(d), "IV is one block before NewCBCDecrypter", g.Why, g.Why, g.Pos)
		}
	}
}

// c17KDF: the PKCS#12 key derivation consumes the whole password and salt (RFC 7292 B.2 steps 2-4 and 6A)
func c17KDF(c *Ctx) {
	rule := "K-C17-kdf"
	fill := c.Fn("pkcs12", "fillWithRepeats")
	kdf := c.Fn("pkcs12", "pbkdf")
	if fill == nil || kdf == nil {
		c.Missing(rule, "pkcs12.fillWithRepeats/pbkdf", "functions", "not found")
		return
	}
	lb := &LB{p: c.P, f: fill, UsedContracts: map[string]bool{}}
	lb.extra, _ = callerFacts(c.P, fill)
	n := 0
	for _, b := range fill.Blocks {
		ret, ok := b.Instrs[len(b.Instrs)-1].(*ssa.Return)
		if !ok || len(ret.Results) != 1 {
			continue
		}
		if cst, isC := ret.Results[0].(*ssa.Const); isC && cst.Value == nil {
			// the empty string: allowed only for an empty pattern
			ok := lb.prove([]cons{le(lb.lenLin(fill.Params[0]), linConst(0))}, b, nil, map[lvar]lin{}, 0)
			c.Check(ok, rule, fname(fill), "nil is returned only for an empty pattern", "", "a non-empty password or salt would be replaced by the empty string", ret.Pos())
			continue
		}
		n++
		dbg("fillWithRepeats extra facts: %d; len(ret)=%s", len(lb.extra), linString(lb.lenLin(ret.Results[0])))
		lbSite = true
		ok2 := lb.prove([]cons{ge(lb.lenLin(ret.Results[0]), lb.lenLin(fill.Params[0]))}, b, nil, map[lvar]lin{}, 0)
		lbSite = false
		c.Check(ok2, rule, fname(fill), fmt.Sprintf("return #%d is at least as long as the pattern", n), "proved by LinBounds: v*ceil(len/v) >= len", "the expanded string can be shorter than the password/salt it is built from: trailing input bytes would not enter the key derivation (passwords sharing a prefix become interchangeable)", ret.Pos())
	}
	if n == 0 {
		c.Undecided(rule, fname(fill), "returns", "no non-nil return found", fill.Pos())
	}
	// pbkdf: the first hash input is D || S || P with S, P the expansions of salt and password
	be := newBigEnv(kdf, allParamNames(kdf))
	found := false
	for _, ci := range allCalls(kdf) {
		call, ok := ci.(*ssa.Call)
		if !ok || call.Call.Value != ssa.Value(kdf.Params[0]) {
			continue
		}
		form := be.bytesOf(call.Call.Args[0], call).String()
		if strings.Contains(form, "fillWithRepeats") {
			found = true
			okF := strings.Contains(form, "call:pkcs12.fillWithRepeats(salt,v)") && strings.Contains(form, "call:pkcs12.fillWithRepeats(password,v)") &&
				strings.Index(form, "fillWithRepeats(salt,v)") < strings.Index(form, "fillWithRepeats(password,v)")
			c.Check(okF, rule, fname(kdf), "the first hash input contains the expanded salt followed by the expanded password", "", "hash input is "+form, call.Pos())
		}
	}
	if !found {
		c.Undecided(rule, fname(kdf), "the first hash input contains the expanded salt followed by the expanded password", "no hash call over the expanded strings recognised", kdf.Pos())
	}
}

// c17KeyBag: the SM2 private key written into the PKCS#12 shrouded key bag is the key that was put in:
// the SEC1 octets are D's big-endian bytes, as they are or left-padded with zeros, and the public point is (X, Y).
func c17KeyBag(c *Ctx) {
	rule := "K-C17-keybag"
	m := c.Fn("pkcs12", "MarshalPrivateKey")
	if m == nil {
		c.Missing(rule, "pkcs12.MarshalPrivateKey", "function", "not found")
		return
	}
	be := newBigEnv(m, paramNames(m, "key", "oid"))
	found := false
	for _, ci := range allCalls(m) {
		call, ok := ci.(*ssa.Call)
		if !ok || calleeID(&call.Call) != "encoding/asn1.Marshal" {
			continue
		}
		found = true
		fs := fieldStores(m, be)
		dbg("pkcs12.MarshalPrivateKey fields: %v", fs)
		d := fs["PrivateKey"]
		okD := d == "bytes(key.D)" || (strings.HasPrefix(d, "padleft(") && strings.HasSuffix(d, ",bytes(key.D))"))
		c.Check(okD, rule, fname(m), "PrivateKey octets are D (left-padded with zeros at most)", "", "the key bag stores PrivateKey = "+d+": the scalar must be written as D's big-endian bytes, optionally left-padded (right-padding multiplies the key by 256^k)", call.Pos())
		pk := fs["Bytes"]
		okP := strings.HasPrefix(pk, "call:crypto/elliptic.Marshal(") && strings.HasSuffix(pk, "Curve,key.PublicKey.X,key.PublicKey.Y)")
		c.Check(okP, rule, fname(m), "PublicKey is the uncompressed point (X, Y)", "", "the key bag stores PublicKey = "+pk, call.Pos())
	}
	if !found {
		c.Undecided(rule, fname(m), "asn1.Marshal of the EC private key", "call not found", m.Pos())
	}
}

// c17Pad: the PKCS#7 padding that the enveloped-data encryptors apply before CBC always adds between 1 and
// blocklen bytes (block-aligned content gets a whole extra block): the reader's unpad, which always strips a pad,
// is only the inverse of such a writer. Proved with the linear prover at every successful return of x509.pad.
func c17Pad(c *Ctx) {
	rule := "K-C17-pad"
	f := c.Fn("x509", "pad")
	if f == nil {
		c.Missing(rule, "x509.pad", "function", "not found")
		return
	}
	var data, blocklen ssa.Value
	for _, p := range f.Params {
		switch {
		case isByteSlice(p.Type()):
			data = p
		case strings.HasSuffix(p.Type().String(), "int"):
			blocklen = p
		}
	}
	if data == nil || blocklen == nil {
		c.Undecided(rule, fname(f), "parameters (data []byte, blocklen int)", "not identified", f.Pos())
		return
	}
	spec, _ := defaultResultSpec(f)
	ex := successExits(f, spec)
	lb := &LB{p: c.P, f: f, UsedContracts: map[string]bool{}}
	n := 0
	for _, b := range f.Blocks {
		ret, ok := b.Instrs[len(b.Instrs)-1].(*ssa.Return)
		if !ok || !ex.blocks[b] || len(ret.Results) == 0 {
			continue
		}
		n++
		c.Evals++
		out := lb.lenLin(unspill(ret.Results[0]))
		in := lb.lenLin(data)
		okLo := lb.prove([]cons{ge(out, in.addScaled(linConst(1), 1))}, b, nil, map[lvar]lin{}, 0)
		okHi := lb.prove([]cons{le(out, in.addScaled(lb.linOf(blocklen), 1))}, b, nil, map[lvar]lin{}, 0)
		c.Check(okLo && okHi, rule, fname(f), fmt.Sprintf("successful return #%d appends 1..blocklen pad bytes", n), "", fmt.Sprintf("not provable that len(result) is within len(data)+1 .. len(data)+blocklen (at least one pad byte: %v, at most a block: %v): block-aligned content would go out unpadded, and unpad then strips real data or rejects the message", okLo, okHi), ret.Pos())
	}
	if n == 0 {
		c.Undecided(rule, fname(f), "successful returns", "none found", f.Pos())
	}
	// the pad length completes the block (blocklen - len%blocklen, a full block when that is 0) and is the pad byte
	isS := func(v ssa.Value) bool {
		sub, ok := v.(*ssa.BinOp)
		if !ok || sub.Op != token.SUB || sub.X != blocklen {
			return false
		}
		rem, ok := sub.Y.(*ssa.BinOp)
		if !ok || rem.Op != token.REM || rem.Y != blocklen {
			return false
		}
		return isLenOf(rem.X, func(x ssa.Value) bool { return x == data })
	}
	for _, call := range allCalls(f) {
		cl, ok := call.(*ssa.Call)
		if !ok || calleeID(&cl.Call) != "bytes.Repeat" {
			continue
		}
		c.Evals++
		p := cl.Call.Args[1]
		okLen := isS(p)
		if ph, isPhi := p.(*ssa.Phi); isPhi {
			okLen = true
			sawS := false
			for _, e := range ph.Edges {
				switch {
				case isS(e):
					sawS = true
				case e == blocklen:
				default:
					okLen = false
				}
			}
			okLen = okLen && sawS
		}
		okByte := false
		if sl, isSl := cl.Call.Args[0].(*ssa.Slice); isSl {
			if al, isAl := sl.X.(*ssa.Alloc); isAl {
				for _, r := range *al.Referrers() {
					if ia, isIA := r.(*ssa.IndexAddr); isIA {
						for _, r2 := range *ia.Referrers() {
							if st, isSt := r2.(*ssa.Store); isSt {
								if cv, isCv := st.Val.(*ssa.Convert); isCv && cv.X == p {
									okByte = true
								}
							}
						}
					}
				}
			}
		}
		c.Check(okLen && okByte, rule, fname(f), "pad length = blocklen - len(data)%blocklen (a whole block when aligned), pad byte = pad length", "", fmt.Sprintf("the pad is not the PKCS#7 one (length formula recognised: %v, pad byte is the length: %v)", okLen, okByte), cl.Pos())
	}
}

// c17BMP: PKCS#12 passwords are BMPStrings (UCS-2): a rune outside the BMP has no encoding, and writing only its low 16
// bits makes distinct passwords collide. bmpString must refuse such a rune: ASSUME utf16.EncodeRune(r) != 0xfffd
// (the rune needs a surrogate pair); no successful return is reachable.
func c17BMP(c *Ctx) {
	rule := "K-C17-kdf"
	f := c.Fn("pkcs12", "bmpString")
	if f == nil {
		c.Undecided(rule, "pkcs12.bmpString", "non-BMP runes are refused", "function not found", token.NoPos)
		return
	}
	ci := newCondIndex(f, allParamNames(f))
	for _, cs := range ci.conds {
		dbg("bmpString cond: %s", cs)
	}
	spec, _ := defaultResultSpec(f)
	// from the test on (a rune is being looked at), with the test saying "needs a surrogate pair"
	var enc *ssa.Call
	for _, cl := range allCalls(f) {
		if call, ok := cl.(*ssa.Call); ok && calleeID(&call.Call) == "unicode/utf16.EncodeRune" {
			enc = call
		}
	}
	if enc != nil {
		pat := `re:ne\(res0\(call:unicode/utf16\.EncodeRune\(.*\)\),0xfffd\)`
		r := true
		ci.withAssumptions([]assumption{{pat, true}}, func() {
			r, _ = canReachSuccess(enc.Block(), nil, successExits(f, spec), deadEdges(f))
		})
		c.Check(!r, rule, fname(f), "non-BMP runes are refused", "", "a password containing a rune outside the Basic Multilingual Plane must be rejected (UCS-2 cannot represent it; truncating it to 16 bits makes different passwords derive the same keys): with the test assumed to say so, a successful return is still reachable", enc.Pos())
	}
	if !ci.valueMatches(`re:ne\(res0\(call:unicode/utf16\.EncodeRune\(.*\)\),0xfffd\)`) {
		c.ViolatedHard(rule, fname(f), "the UCS-2 representability test exists", "bmpString never tests utf16.EncodeRune(r) against 0xfffd: runes outside the BMP are not refused", f.Pos())
	}
}
