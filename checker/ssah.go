package main

// ssah.go: generic helpers over go/ssa used by the engines.

import (
	"fmt"
	"go/constant"
	"go/token"
	"go/types"
	"strings"

	"golang.org/x/tools/go/ssa"
)

// ---- callee identification

// calleeOf returns the statically resolved callee of a call instruction, or nil.
func calleeOf(c ssa.CallInstruction) *ssa.Function {
	return c.Common().StaticCallee()
}

// calleeID: "pkgpath.Func", "(*pkgpath.T).M", "(pkgpath.T).M" for static calls,
// "invoke pkgpath.Iface.M" for interface calls, "builtin name", "dynamic".
func calleeID(cc *ssa.CallCommon) string {
	if cc.IsInvoke() {
		recv := cc.Value.Type()
		return "invoke " + types.TypeString(recv, nil) + "." + cc.Method.Name()
	}
	if f := cc.StaticCallee(); f != nil {
		if f.Object() != nil {
			if fn, ok := f.Object().(*types.Func); ok {
				return fn.FullName()
			}
		}
		return f.String()
	}
	if b, ok := cc.Value.(*ssa.Builtin); ok {
		return "builtin " + b.Name()
	}
	return "dynamic"
}

// isCallTo reports whether instr is a call whose callee id equals (or, for
// invokes, whose method name equals) one of ids.
func isCallTo(v ssa.Value, ids ...string) (*ssa.Call, bool) {
	c, ok := v.(*ssa.Call)
	if !ok {
		return nil, false
	}
	id := calleeID(&c.Call)
	for _, w := range ids {
		if id == w {
			return c, true
		}
	}
	return nil, false
}

// methodCall reports a call (static or invoke) to a method named name whose
// receiver's named type is recvType ("math/big.Int"); recvType=="" matches any.
func methodCallInfo(cc *ssa.CallCommon) (recvType, name string, recv ssa.Value, args []ssa.Value) {
	if cc.IsInvoke() {
		return namedTypeString(cc.Value.Type()), cc.Method.Name(), cc.Value, cc.Args
	}
	f := cc.StaticCallee()
	if f == nil || f.Signature.Recv() == nil {
		return "", "", nil, nil
	}
	if len(cc.Args) == 0 {
		return "", "", nil, nil
	}
	return namedTypeString(f.Signature.Recv().Type()), f.Name(), cc.Args[0], cc.Args[1:]
}

func namedTypeString(t types.Type) string {
	for {
		if p, ok := t.(*types.Pointer); ok {
			t = p.Elem()
			continue
		}
		break
	}
	if n, ok := t.(*types.Named); ok {
		if n.Obj().Pkg() != nil {
			return n.Obj().Pkg().Path() + "." + n.Obj().Name()
		}
		return n.Obj().Name()
	}
	return t.String()
}

// ---- constants

func constInt(v ssa.Value) (int64, bool) {
	c, ok := v.(*ssa.Const)
	if !ok || c.Value == nil {
		return 0, false
	}
	if c.Value.Kind() != constant.Int {
		return 0, false
	}
	if i, ok := constant.Int64Val(c.Value); ok {
		return i, true
	}
	if u, ok := constant.Uint64Val(c.Value); ok {
		return int64(u), true
	}
	return 0, false
}

func isNilConst(v ssa.Value) bool {
	c, ok := v.(*ssa.Const)
	return ok && c.Value == nil
}

func constBool(v ssa.Value) (bool, bool) {
	c, ok := v.(*ssa.Const)
	if !ok || c.Value == nil || c.Value.Kind() != constant.Bool {
		return false, false
	}
	return constant.BoolVal(c.Value), true
}

// stripConv removes value-preserving wrappers (ChangeType, Convert between
// integer types is NOT stripped unless widen==true).
func stripConv(v ssa.Value, widen bool) ssa.Value {
	for {
		switch x := v.(type) {
		case *ssa.ChangeType:
			v = x.X
		case *ssa.Convert:
			if !widen {
				return v
			}
			v = x.X
		default:
			return v
		}
	}
}

// ---- CFG reachability

type edge struct{ from, to *ssa.BasicBlock }

// condEval, when set, decides boolean SSA values under an assumption the current rule makes (e.g. "Config.ClientAuth
// has the value k"): reach uses it for branch conditions and for the values flowing into boolean phis.
var condEval func(v ssa.Value) (val bool, known bool)

// boolOf: the value of a boolean SSA value if it is a constant or decided by condEval
func boolOf(v ssa.Value) (bool, bool) {
	if cb, ok := constBool(v); ok {
		return cb, true
	}
	if u, ok := v.(*ssa.UnOp); ok && u.Op == token.NOT {
		if b, ok := boolOf(u.X); ok {
			return !b, true
		}
	}
	if condEval != nil {
		return condEval(v)
	}
	return false, false
}

// reach computes blocks reachable from start following successor edges except
// those in cut. start itself is included. The walk is path-sensitive in the boolean phis of the function (named
// conditions: `ok := a && b; ...; if !ok {...}`, `notCA := x || y; switch { case notCA && z: ...}`): the state is the
// block plus the values of the boolean phis known on the path (a phi input that is a constant, another known phi, a
// negation of those, or a value decided by condEval), and a branch whose condition is known under that state only
// continues to the corresponding successor — the jump threading a compiler would do, so that naming a condition does
// not change what the rules see. Beyond reachStateCap states the walk degrades to the path-insensitive closure
// (more blocks reachable: sound for every "unreachable" claim built on it).
const reachStateCap = 200000

func reach(start []*ssa.BasicBlock, cut map[edge]bool) map[*ssa.BasicBlock]bool {
	seen, _ := reachEnv(start, cut, nil)
	return seen
}

// reachEnv: reach, calling onState for every (block, environment) state visited; val gives the value of a boolean in
// that state (0 false, 1 true, -1 unknown). The second result is false when the state cap was hit and the result is
// the path-insensitive closure (onState calls made until then must be disregarded by the caller).
func reachEnv(start []*ssa.BasicBlock, cut map[edge]bool, onState func(b *ssa.BasicBlock, val func(ssa.Value) int8)) (map[*ssa.BasicBlock]bool, bool) {
	seen := map[*ssa.BasicBlock]bool{}
	if len(start) == 0 {
		return seen, true
	}
	fn := start[0].Parent()
	var bphis []*ssa.Phi
	phiIdx := map[*ssa.Phi]int{}
	for _, b := range fn.Blocks {
		for _, in := range b.Instrs {
			ph, ok := in.(*ssa.Phi)
			if !ok {
				break
			}
			if bt, isB := ph.Type().Underlying().(*types.Basic); isB && bt.Kind() == types.Bool {
				phiIdx[ph] = len(bphis)
				bphis = append(bphis, ph)
			}
		}
	}
	// repeated tests: comparisons that occur more than once over the same SSA operands (`if err != nil && ... ;
	// if err != nil`) share one slot of the environment, filled in when a branch on one of them is taken and
	// cleared whenever the walk enters a block that defines one of the operands (the operands then have new values)
	type cmpKey struct {
		op   token.Token
		x, y string
	}
	opKey := func(v ssa.Value) string {
		if c, ok := v.(*ssa.Const); ok {
			return "const:" + c.String() // every use of a constant is an ssa.Const of its own
		}
		return fmt.Sprintf("%p", v)
	}
	type cmpRef struct {
		slot int
		neg  bool
	}
	cmpOf := map[*ssa.BinOp]cmpRef{}
	nSlots := len(bphis)
	clearAt := map[*ssa.BasicBlock][]int{}
	{
		groups := map[cmpKey][]*ssa.BinOp{}
		negs := map[*ssa.BinOp]bool{}
		for _, b := range fn.Blocks {
			for _, in := range b.Instrs {
				bo, ok := in.(*ssa.BinOp)
				if !ok {
					continue
				}
				k := cmpKey{bo.Op, opKey(bo.X), opKey(bo.Y)}
				switch bo.Op {
				case token.EQL, token.NEQ:
					k.op = token.EQL
					if k.x > k.y {
						k.x, k.y = k.y, k.x
					}
					negs[bo] = bo.Op == token.NEQ
				case token.LSS, token.LEQ, token.GTR, token.GEQ:
				default:
					continue
				}
				if _, isC := bo.X.(*ssa.Const); isC {
					if _, isC2 := bo.Y.(*ssa.Const); isC2 {
						continue
					}
				}
				groups[k] = append(groups[k], bo)
			}
		}
		for _, g := range groups {
			if len(g) < 2 {
				continue
			}
			slot := nSlots
			nSlots++
			for _, bo := range g {
				cmpOf[bo] = cmpRef{slot, negs[bo]}
			}
			for _, o := range []ssa.Value{g[0].X, g[0].Y} {
				if in, ok := o.(ssa.Instruction); ok && in.Block() != nil {
					clearAt[in.Block()] = append(clearAt[in.Block()], slot)
				}
			}
		}
	}
	// a block that branches on `phi op K` for an integer phi of its own: arriving over an edge on which the phi takes a
	// constant decides the branch for this visit (the first test of `for i := 0; i < 2; i++` is true)
	type intBranch struct {
		slot int
		phi  *ssa.Phi
		op   token.Token
		k    int64
		swap bool
	}
	ibr := map[*ssa.BasicBlock]intBranch{}
	for _, b := range fn.Blocks {
		if len(b.Succs) != 2 || len(b.Instrs) == 0 {
			continue
		}
		ifi, ok := b.Instrs[len(b.Instrs)-1].(*ssa.If)
		if !ok {
			continue
		}
		bo, ok := ifi.Cond.(*ssa.BinOp)
		if !ok {
			continue
		}
		switch bo.Op {
		case token.EQL, token.NEQ, token.LSS, token.LEQ, token.GTR, token.GEQ:
		default:
			continue
		}
		if ph, isPhi := bo.X.(*ssa.Phi); isPhi && ph.Block() == b {
			if k, isK := constInt(bo.Y); isK {
				ibr[b] = intBranch{nSlots, ph, bo.Op, k, false}
				nSlots++
			}
		} else if ph, isPhi := bo.Y.(*ssa.Phi); isPhi && ph.Block() == b {
			if k, isK := constInt(bo.X); isK {
				ibr[b] = intBranch{nSlots, ph, bo.Op, k, true}
				nSlots++
			}
		}
	}
	// value of a boolean under an environment: 0 false, 1 true, -1 unknown
	var val func(v ssa.Value, env []int8) int8
	val = func(v ssa.Value, env []int8) int8 {
		if cb, ok := constBool(v); ok {
			if cb {
				return 1
			}
			return 0
		}
		switch x := v.(type) {
		case *ssa.UnOp:
			if x.Op == token.NOT {
				if r := val(x.X, env); r >= 0 {
					return 1 - r
				}
				return -1
			}
		case *ssa.Phi:
			if i, ok := phiIdx[x]; ok {
				if env[i] >= 0 {
					return env[i]
				}
				return -1
			}
		case *ssa.BinOp:
			if r, ok := cmpOf[x]; ok && env[r.slot] >= 0 {
				if r.neg {
					return 1 - env[r.slot]
				}
				return env[r.slot]
			}
		}
		if condEval != nil {
			if r, known := condEval(v); known {
				if r {
					return 1
				}
				return 0
			}
		}
		return -1
	}
	type state struct {
		b   *ssa.BasicBlock
		env string
	}
	seenS := map[state]bool{}
	type item struct {
		b   *ssa.BasicBlock
		env []int8
	}
	var stack []item
	key := func(env []int8) string {
		bs := make([]byte, len(env))
		for i, e := range env {
			bs[i] = byte(e + 1)
		}
		return string(bs)
	}
	overflow := false
	push := func(b *ssa.BasicBlock, env []int8) {
		st := state{b, key(env)}
		if seenS[st] {
			return
		}
		if len(seenS) > reachStateCap {
			overflow = true
			return
		}
		seenS[st] = true
		seen[b] = true
		stack = append(stack, item{b, env})
	}
	unknown := make([]int8, nSlots)
	for i := range unknown {
		unknown[i] = -1
	}
	for _, s := range start {
		push(s, unknown)
	}
	for len(stack) > 0 && !overflow {
		it := stack[len(stack)-1]
		stack = stack[:len(stack)-1]
		b := it.b
		if onState != nil {
			env := it.env
			onState(b, func(v ssa.Value) int8 { return val(v, env) })
		}
		only := -1 // index of the only feasible successor, if decided
		if r, ok := ibr[b]; ok && it.env[r.slot] >= 0 {
			only = 1 - int(it.env[r.slot])
		}
		if only < 0 && len(b.Succs) == 2 {
			if ifi, ok := b.Instrs[len(b.Instrs)-1].(*ssa.If); ok {
				decide := condEval != nil
				if !decide {
					// without assumptions only named conditions (phis) are threaded
					c := ifi.Cond
					if u, ok := c.(*ssa.UnOp); ok && u.Op == token.NOT {
						c = u.X
					}
					_, decide = c.(*ssa.Phi)
					if bo, isBo := c.(*ssa.BinOp); isBo {
						_, decide = cmpOf[bo]
					}
				}
				if decide {
					if r := val(ifi.Cond, it.env); r == 1 {
						only = 0
					} else if r == 0 {
						only = 1
					}
				}
			}
		}
		for i, s := range b.Succs {
			if cut[edge{b, s}] || (only >= 0 && i != only) {
				continue
			}
			// the boolean phis of s take the values flowing in over this edge (all read in the old environment)
			env := it.env
			copied := false
			set := func(k int, nv int8) {
				if nv != env[k] {
					if !copied {
						env = append([]int8(nil), it.env...)
						copied = true
					}
					env[k] = nv
				}
			}
			// a branch on a repeated comparison fixes its value along this edge
			if len(b.Succs) == 2 {
				if ifi, ok := b.Instrs[len(b.Instrs)-1].(*ssa.If); ok {
					c := ifi.Cond
					neg := false
					for {
						u, isU := c.(*ssa.UnOp)
						if !isU || u.Op != token.NOT {
							break
						}
						c, neg = u.X, !neg
					}
					if bo, isBo := c.(*ssa.BinOp); isBo {
						if r, ok := cmpOf[bo]; ok && b.Succs[0] != b.Succs[1] {
							truth := i == 0
							if neg != r.neg {
								truth = !truth
							}
							if truth {
								set(r.slot, 1)
							} else {
								set(r.slot, 0)
							}
						}
					}
				}
			}
			var pi = -1
			for j, p := range s.Preds {
				if p == b {
					pi = j
					break
				}
			}
			for _, in := range s.Instrs {
				ph, ok := in.(*ssa.Phi)
				if !ok {
					break
				}
				k, isB := phiIdx[ph]
				if !isB {
					continue
				}
				nv := int8(-1)
				if pi >= 0 && pi < len(ph.Edges) {
					nv = val(ph.Edges[pi], it.env)
				}
				set(k, nv)
			}
			// entering s redefines the operands defined there
			for _, k := range clearAt[s] {
				set(k, -1)
			}
			if r, ok := ibr[s]; ok {
				nv := int8(-1)
				if pi >= 0 && pi < len(r.phi.Edges) {
					if c0, isK := constInt(r.phi.Edges[pi]); isK {
						x, y := c0, r.k
						if r.swap {
							x, y = r.k, c0
						}
						if intCmpTrue(r.op, x, y) {
							nv = 1
						} else {
							nv = 0
						}
					}
				}
				set(r.slot, nv)
			}
			push(s, env)
		}
	}
	if overflow {
		// path-insensitive closure
		seen = map[*ssa.BasicBlock]bool{}
		var st []*ssa.BasicBlock
		for _, s := range start {
			if !seen[s] {
				seen[s] = true
				st = append(st, s)
			}
		}
		for len(st) > 0 {
			b := st[len(st)-1]
			st = st[:len(st)-1]
			for _, s := range b.Succs {
				if !cut[edge{b, s}] && !seen[s] {
					seen[s] = true
					st = append(st, s)
				}
			}
		}
	}
	return seen, !overflow
}

// blocksEndingInPanic: blocks whose last instruction is a Panic.
func endsInPanic(b *ssa.BasicBlock) bool {
	if len(b.Instrs) == 0 {
		return false
	}
	_, ok := b.Instrs[len(b.Instrs)-1].(*ssa.Panic)
	return ok
}

// ---- success exits

// nonNilErr reports whether v (of an interface/error type) is definitely non-nil.
func definitelyNonNil(v ssa.Value, depth int, seen map[ssa.Value]bool) bool {
	if depth > 6 || seen[v] {
		return false
	}
	seen[v] = true
	switch x := v.(type) {
	case *ssa.MakeInterface:
		return true
	case *ssa.Const:
		return x.Value != nil
	case *ssa.Call:
		id := calleeID(&x.Call)
		switch id {
		case "errors.New", "fmt.Errorf":
			return true
		}
		// a repo function all of whose returns are non-nil (unexpectedMessageError, sendAlert with a
		// non-zero alert, ...)
		if sc := x.Call.StaticCallee(); sc != nil && inRepo(sc) && sc.Blocks != nil && sc.Signature.Results().Len() == 1 && depth < 4 {
			all := true
			n := 0
			for _, b := range sc.Blocks {
				ret, ok := b.Instrs[len(b.Instrs)-1].(*ssa.Return)
				if !ok {
					continue
				}
				n++
				if !definitelyNonNil(ret.Results[0], depth+1, map[ssa.Value]bool{}) {
					all = false
				}
			}
			return all && n > 0
		}
		return false
	case *ssa.Phi:
		for _, e := range x.Edges {
			if !definitelyNonNil(e, depth+1, seen) {
				return false
			}
		}
		return true
	case *ssa.ChangeInterface:
		return definitelyNonNil(x.X, depth+1, seen)
	case *ssa.Extract:
		// fail := func(err error) (T, error) { return T{}, err }  — result k is parameter j
		if call, ok := x.Tuple.(*ssa.Call); ok {
			var callee *ssa.Function
			if sc := call.Call.StaticCallee(); sc != nil {
				callee = sc
			} else if mc, ok := call.Call.Value.(*ssa.MakeClosure); ok {
				callee, _ = mc.Fn.(*ssa.Function)
			} else if fn, ok := call.Call.Value.(*ssa.Function); ok {
				callee = fn
			}
			if callee != nil && inRepo(callee) && len(callee.Blocks) == 1 {
				if ret, ok := callee.Blocks[0].Instrs[len(callee.Blocks[0].Instrs)-1].(*ssa.Return); ok && x.Index < len(ret.Results) {
					for j, prm := range callee.Params {
						if ret.Results[x.Index] == ssa.Value(prm) && j < len(call.Call.Args) {
							return definitelyNonNil(call.Call.Args[j], depth+1, seen)
						}
					}
				}
			}
		}
	case *ssa.UnOp:
		// load of a package-level error variable initialised with errors.New
		if x.Op == token.MUL {
			if g, ok := x.X.(*ssa.Global); ok {
				return globalIsErrSentinel(g)
			}
		}
	}
	return false
}

var sentinelCache = map[*ssa.Global]bool{}

// globalIsErrSentinel: package-level var of error type that is only ever
// stored in the package initialiser (sentinel error).
func globalIsErrSentinel(g *ssa.Global) bool {
	if v, ok := sentinelCache[g]; ok {
		return v
	}
	res := false
	if g.Pkg != nil {
		stores, nonInit := 0, 0
		for _, m := range g.Pkg.Members {
			f, ok := m.(*ssa.Function)
			if !ok {
				continue
			}
			scanStores(f, g, &stores, &nonInit)
		}
		// also methods and anonymous functions
		res = stores > 0 && nonInit == 0
	}
	sentinelCache[g] = res
	return res
}

func scanStores(f *ssa.Function, g *ssa.Global, stores, nonInit *int) {
	for _, b := range f.Blocks {
		for _, in := range b.Instrs {
			if st, ok := in.(*ssa.Store); ok && st.Addr == g {
				*stores++
				if f.Name() != "init" {
					*nonInit++
				} else if !definitelyNonNil(st.Val, 0, map[ssa.Value]bool{}) {
					*nonInit++
				}
			}
		}
	}
	for _, a := range f.AnonFuncs {
		scanStores(a, g, stores, nonInit)
	}
}

// errFacts: for a value v, "v is non-nil" is known on entry to block b if some
// dominating If tests v != nil / v == nil and b is dominated by the proper successor.
func nonNilByDominatingTest(v ssa.Value, b *ssa.BasicBlock) bool {
	for d := b; d != nil; d = d.Idom() {
		idom := d.Idom()
		if idom == nil {
			break
		}
		ifi, ok := lastIf(idom)
		if !ok {
			continue
		}
		bo, ok := ifi.Cond.(*ssa.BinOp)
		if !ok {
			continue
		}
		var other ssa.Value
		same := func(x ssa.Value) bool {
			if x == v {
				return true
			}
			// `if c.in.err != nil { return c.in.err }`: a second load of the same field in the block the test guards
			if k := addrKey(x); k != "" && k == addrKey(v) && v.Parent() != nil && sameFieldValue(v.Parent(), x, v) {
				return true
			}
			return false
		}
		if same(bo.X) {
			other = bo.Y
		} else if same(bo.Y) {
			other = bo.X
		} else {
			continue
		}
		if !isNilConst(other) {
			continue
		}
		// which successor is d (d must be the unique way in: d's only pred is idom)
		if len(d.Preds) != 1 {
			continue
		}
		if bo.Op == token.NEQ && idom.Succs[0] == d {
			return true
		}
		if bo.Op == token.EQL && idom.Succs[1] == d {
			return true
		}
	}
	return false
}

func lastIf(b *ssa.BasicBlock) (*ssa.If, bool) {
	if len(b.Instrs) == 0 {
		return nil, false
	}
	i, ok := b.Instrs[len(b.Instrs)-1].(*ssa.If)
	return i, ok
}

// exitKind classifies a Return reached through predecessor `pred` (may be nil):
// "fail" if the function's last result is a definitely non-nil error or a false
// bool; "success" otherwise.
type resultSpec struct {
	idx  int    // index of the result that carries success/failure
	kind string // "error" | "bool" | "nilptr" (nil pointer/slice result = failure)
}

func defaultResultSpec(f *ssa.Function) (resultSpec, bool) {
	res := f.Signature.Results()
	if res.Len() == 0 {
		return resultSpec{}, false
	}
	last := res.At(res.Len() - 1).Type()
	if types.Identical(last, types.Universe.Lookup("error").Type()) {
		return resultSpec{res.Len() - 1, "error"}, true
	}
	if b, ok := last.Underlying().(*types.Basic); ok && b.Kind() == types.Bool {
		return resultSpec{res.Len() - 1, "bool"}, true
	}
	return resultSpec{}, false
}

// failingValue: is value v (as seen when arriving in block b from pred) a
// failure indication under spec?
func failingValue(v ssa.Value, spec resultSpec, b *ssa.BasicBlock, pred *ssa.BasicBlock) bool {
	v = unspill(v)
	if phi, ok := v.(*ssa.Phi); ok && phi.Block() == b && pred != nil {
		for i, p := range b.Preds {
			if p == pred {
				return failingValue(phi.Edges[i], spec, pred, nil)
			}
		}
	}
	switch spec.kind {
	case "error":
		if definitelyNonNil(v, 0, map[ssa.Value]bool{}) {
			return true
		}
		if b != nil && nonNilByDominatingTest(v, b) {
			return true
		}
		// phi in another block: all edges failing (each judged at its pred)
		if phi, ok := v.(*ssa.Phi); ok {
			all := true
			for i, e := range phi.Edges {
				if !failingValue(e, spec, phi.Block().Preds[i], nil) {
					all = false
					break
				}
			}
			return all
		}
		return false
	case "bool":
		if c, ok := constBool(v); ok {
			return !c
		}
		return false
	case "nilptr":
		return isNilConst(v)
	}
	return false
}

// successEdges returns the set of "success exits" of f under spec, as
// (pred -> returnBlock) edges plus whole blocks.
type exits struct {
	blocks map[*ssa.BasicBlock]bool // return blocks that are success regardless of pred
	edges  map[edge]bool            // success only when entered over this edge
	rets   int
	idx    int    // which result says success / failure
	kind   string // "error" | "bool"
}

func successExits(f *ssa.Function, spec resultSpec) exits {
	ex := exits{blocks: map[*ssa.BasicBlock]bool{}, edges: map[edge]bool{}, idx: spec.idx, kind: spec.kind}
	for _, b := range f.Blocks {
		if len(b.Instrs) == 0 {
			continue
		}
		ret, ok := b.Instrs[len(b.Instrs)-1].(*ssa.Return)
		if !ok {
			continue
		}
		ex.rets++
		if spec.idx >= len(ret.Results) {
			ex.blocks[b] = true
			continue
		}
		v := ret.Results[spec.idx]
		if phi, ok := v.(*ssa.Phi); ok && phi.Block() == b {
			for _, p := range b.Preds {
				if !failingValue(v, spec, b, p) {
					ex.edges[edge{p, b}] = true
				}
			}
			continue
		}
		if !failingValue(v, spec, b, nil) {
			ex.blocks[b] = true
		}
	}
	return ex
}

// canReachSuccess: starting at block `from` (entered over edge inEdge, may be
// zero), can a success exit be reached without using cut edges?
func canReachSuccess(from *ssa.BasicBlock, in *edge, ex exits, cut map[edge]bool) (bool, *ssa.BasicBlock) {
	if in != nil && ex.edges[*in] {
		return true, from
	}
	if ex.kind == "bool" {
		// boolean results are read in the state they are returned in: a result that is false on the path (a constant,
		// a named condition known to be false, a value the current assumptions decide) is not a success
		var hit *ssa.BasicBlock
		_, exact := reachEnv([]*ssa.BasicBlock{from}, cut, func(b *ssa.BasicBlock, val func(ssa.Value) int8) {
			if hit != nil {
				return
			}
			if ret, ok := b.Instrs[len(b.Instrs)-1].(*ssa.Return); ok && ex.idx < len(ret.Results) {
				if val(unspill(ret.Results[ex.idx])) != 0 {
					hit = b
				}
			}
		})
		if exact {
			return hit != nil, hit
		}
	}
	seen := reach([]*ssa.BasicBlock{from}, cut)
	for b := range seen {
		if ex.blocks[b] {
			// a boolean result that the current assumptions (condEval) decide to be false is not a success
			if ex.kind == "bool" && condEval != nil {
				if ret, ok := b.Instrs[len(b.Instrs)-1].(*ssa.Return); ok && ex.idx < len(ret.Results) {
					if v, known := boolOf(unspill(ret.Results[ex.idx])); known && !v {
						continue
					}
				}
			}
			return true, b
		}
	}
	for e := range ex.edges {
		if seen[e.from] && !cut[e] {
			return true, e.to
		}
	}
	return false, nil
}

// ---- misc

func instrsOf(f *ssa.Function, visit func(b *ssa.BasicBlock, i ssa.Instruction)) {
	for _, b := range f.Blocks {
		for _, in := range b.Instrs {
			visit(b, in)
		}
	}
}

// allCalls lists call instructions (Call, Go, Defer) in f.
func allCalls(f *ssa.Function) []ssa.CallInstruction {
	var out []ssa.CallInstruction
	instrsOf(f, func(_ *ssa.BasicBlock, in ssa.Instruction) {
		if c, ok := in.(ssa.CallInstruction); ok {
			out = append(out, c)
		}
	})
	return out
}

func shortType(t types.Type) string {
	return strings.ReplaceAll(types.TypeString(t, nil), modPath+"/", "")
}

// dominates reports whether a dominates b (block level).
func dominates(a, b *ssa.BasicBlock) bool { return a.Dominates(b) }

// instrIndex returns the index of in within its block.
func instrIndex(in ssa.Instruction) int {
	for i, x := range in.Block().Instrs {
		if x == in {
			return i
		}
	}
	return -1
}

// instrDominates: a executes before b on every path to b.
func instrDominates(a, b ssa.Instruction) bool {
	if a.Block() == b.Block() {
		return instrIndex(a) < instrIndex(b)
	}
	return a.Block().Dominates(b.Block())
}

func isErrorType(t types.Type) bool {
	return types.Identical(t, types.Universe.Lookup("error").Type())
}

// unspill: functions with defer store their results in a local cell before `rundefers` and return the reloaded
// value; when the load is preceded in its own block by a store to the same cell, it denotes the stored value.
func unspill(v ssa.Value) ssa.Value {
	ld, ok := v.(*ssa.UnOp)
	if !ok || ld.Op != token.MUL {
		return v
	}
	al, ok := ld.X.(*ssa.Alloc)
	if !ok {
		return v
	}
	b := ld.Block()
	var last ssa.Value
	for _, in := range b.Instrs {
		if in == ssa.Instruction(ld) {
			break
		}
		if st, ok := in.(*ssa.Store); ok && st.Addr == ssa.Value(al) {
			last = st.Val
		}
	}
	if last != nil {
		return last
	}
	return v
}

// addrKey: a structural name for an address expression built from parameters, field selections and loads
// ("c.in.err"); "" when the expression has another shape
func addrKey(v ssa.Value) string {
	switch x := v.(type) {
	case *ssa.Parameter:
		return pname(x)
	case *ssa.FieldAddr:
		b := addrKey(x.X)
		if b == "" {
			return ""
		}
		return b + "." + fieldName(x.X.Type(), x.Field)
	case *ssa.UnOp:
		if x.Op == token.MUL {
			b := addrKey(x.X)
			if b == "" {
				return ""
			}
			return "*" + b
		}
	case *ssa.FreeVar:
		return "free:" + x.Name()
	case *ssa.Extract, *ssa.Call, *ssa.Alloc, *ssa.Phi, *ssa.MakeSlice:
		// any other SSA value is its own name (the same value is the same object)
		return "v:" + v.Name()
	}
	return ""
}

// addrRoot: the value at the bottom of an address expression
func addrRoot(v ssa.Value) ssa.Value {
	for {
		switch x := v.(type) {
		case *ssa.FieldAddr:
			v = x.X
			continue
		case *ssa.UnOp:
			if x.Op == token.MUL {
				v = x.X
				continue
			}
		}
		return v
	}
}

// sameFieldValue: a and b are loads of the same address expression and the function never stores to a field of
// that name and type
func sameFieldValue(f *ssa.Function, a, b ssa.Value) bool {
	ka, kb := addrKey(a), addrKey(b)
	if ka == "" || ka != kb {
		return false
	}
	la, ok := a.(*ssa.UnOp)
	if !ok {
		return false
	}
	fa, ok := la.X.(*ssa.FieldAddr)
	if !ok {
		return false
	}
	clean := true
	instrsOf(f, func(_ *ssa.BasicBlock, in ssa.Instruction) {
		if st, ok := in.(*ssa.Store); ok {
			if fx, ok := st.Addr.(*ssa.FieldAddr); ok && fx.Field == fa.Field && fx.X.Type() == fa.X.Type() {
				clean = false
			}
		}
	})
	return clean
}

// isZeroAggregate: v is the zero value of an array or struct type: the constant, or a load of a fresh local that
// is never written (how go/ssa renders the composite literal T{})
func isZeroAggregate(v ssa.Value) bool {
	if cst, ok := v.(*ssa.Const); ok {
		return cst.Value == nil
	}
	ld, ok := v.(*ssa.UnOp)
	if !ok || ld.Op != token.MUL {
		return false
	}
	al, ok := ld.X.(*ssa.Alloc)
	if !ok {
		return false
	}
	for _, r := range *al.Referrers() {
		if r != ssa.Instruction(ld) {
			if _, isDbg := r.(*ssa.DebugRef); isDbg {
				continue
			}
			return false
		}
	}
	return true
}
