package main

// C19 — streaming PKCS#7 padding reader/writer and block stream helpers

import (
	"fmt"
	"go/token"
	"strings"

	"golang.org/x/tools/go/ssa"
)

func init() { register("C19", checkC19) }

func fieldLoad(v ssa.Value, recv ssa.Value, field string) bool {
	u, ok := v.(*ssa.UnOp)
	if !ok || u.Op != token.MUL {
		return false
	}
	fa, ok := u.X.(*ssa.FieldAddr)
	return ok && fa.X == recv && fieldName(fa.X.Type(), fa.Field) == field
}

func checkC19(c *Ctx) {
	c.Decided = append(c.Decided,
		"G-C19-eof: the padding reader consults its pad source only on paths where the end-of-source flag is set, and sets that flag only when the source returned io.EOF",
		"G-C19-padinit: the pad source is created before every use (no nil dereference when EOF arrives with a full buffer)",
		"K-C19-pad: the pad is blockSize - (bytes read mod blockSize) bytes of that value, created once; the byte counter adds exactly the counts returned by the source",
		"K-C19-writer: the un-padding writer buffers everything and forwards all but the last blockSize bytes, in order, without a fixed-size staging buffer",
		"T-UNPAD: Final requires a full last block, rejects pad 0 and pad > blockSize and compares every pad byte, then writes the block minus the pad",
		"B-PRE-C19: the stream helpers hand CryptBlocks only data filled by io.ReadFull whose length is checked to be a multiple of the block size, into a destination at least as long",
		"B-IDX: all index/slice sites of the package are in bounds")
	c.NotDec = append(c.NotDec, "equality of the produced stream with source||pad for all chunkings as a behavioural fact (only the structural conditions above)", "termination when a source returns (0, nil) forever (same as io.ReadFull)")

	rd := c.Fn("sm4/padding", "(*PKCS7PaddingReader).Read")
	np := c.Fn("sm4/padding", "(*PKCS7PaddingReader).newPadding")
	wr := c.Fn("sm4/padding", "(*PKCS7PaddingWriter).Write")
	fin := c.Fn("sm4/padding", "(*PKCS7PaddingWriter).Final")
	enc := c.Fn("sm4/padding", "P7BlockEnc")
	dec := c.Fn("sm4/padding", "P7BlockDecrypt")
	for n, f := range map[string]*ssa.Function{"(*PKCS7PaddingReader).Read": rd, "(*PKCS7PaddingReader).newPadding": np, "(*PKCS7PaddingWriter).Write": wr, "(*PKCS7PaddingWriter).Final": fin, "P7BlockEnc": enc, "P7BlockDecrypt": dec} {
		if f == nil {
			c.Missing("B-IDX", "padding."+n, "function", "not found")
		}
	}
	if rd != nil {
		c19Reader(c, rd, np)
	}
	if np != nil {
		c19NewPadding(c, np)
	}
	if wr != nil {
		c19Writer(c, wr)
	}
	if fin != nil {
		c19Final(c, fin)
	}
	for _, f := range []*ssa.Function{enc, dec} {
		if f != nil {
			c19Stream(c, f)
		}
	}
	getFX(c) // field-load canonicalisation in LinBounds consults the effect summaries
	var fs []*ssa.Function
	for _, f := range c.P.RepoFuncs("sm4/padding") {
		fs = append(fs, f)
	}
	st := bidx(c, "B-IDX", fs, nil)
	c.Notes = append(c.Notes, fmt.Sprintf("B-IDX: %d sites, %d compiler, %d LinBounds, %d unproven", st.sites, st.compiler, st.lin, st.unproved))
}

func c19Reader(c *Ctx, f, np *ssa.Function) {
	fn := fname(f)
	recv := f.Params[0]
	// uses of the pad source: invoke Read on load of field padding; calls of newPadding
	var padReads []ssa.Instruction
	var npCalls []*ssa.Call
	var srcReads []*ssa.Call
	for _, ci := range allCalls(f) {
		call, ok := ci.(*ssa.Call)
		if !ok {
			continue
		}
		if call.Call.IsInvoke() && call.Call.Method.Name() == "Read" {
			if fieldLoad(call.Call.Value, recv, "padding") {
				padReads = append(padReads, call)
			} else if fieldLoad(call.Call.Value, recv, "fIn") {
				srcReads = append(srcReads, call)
			}
		}
		if np != nil && call.Call.StaticCallee() == np {
			npCalls = append(npCalls, call)
		}
	}
	if len(padReads) == 0 || len(srcReads) == 0 {
		c.Undecided("G-C19-eof", fn, "source and pad reads", "Read does not read both the source and the pad source through its fields", f.Pos())
		return
	}
	// eof-true edges
	cut := map[edge]bool{}
	for _, ifi := range ifsOf(f) {
		cond := ifi.Cond
		neg := false
		if u, ok := cond.(*ssa.UnOp); ok && u.Op == token.NOT {
			cond, neg = u.X, true
		}
		if !fieldLoad(cond, recv, "eof") {
			continue
		}
		b := ifi.Block()
		if neg {
			cut[edge{b, b.Succs[1]}] = true
		} else {
			cut[edge{b, b.Succs[0]}] = true
		}
	}
	seen := reach([]*ssa.BasicBlock{f.Blocks[0]}, cut)
	ok := true
	var pos token.Pos
	for _, in := range padReads {
		if seen[in.Block()] {
			ok, pos = false, in.Pos()
		}
	}
	c.Check(ok && len(cut) > 0, "G-C19-eof", fn, "pad bytes only after the source reported EOF", "pad source unreachable without the eof flag", "the pad source is read on a path where the end of the source has not been established: a short read would put the pad in the middle of the stream", pos)
	// eof is stored true only under errors.Is(err, io.EOF) / err == io.EOF of a source read
	okSet := true
	nset := 0
	instrsOf(f, func(b *ssa.BasicBlock, in ssa.Instruction) {
		st, isSt := in.(*ssa.Store)
		if !isSt {
			return
		}
		fa, isFA := st.Addr.(*ssa.FieldAddr)
		if !isFA || fa.X != ssa.Value(recv) || fieldName(fa.X.Type(), fa.Field) != "eof" {
			return
		}
		if v, isC := constBool(st.Val); !isC || !v {
			return
		}
		nset++
		good := false
		for d := b; d != nil && d.Idom() != nil; d = d.Idom() {
			x := d.Idom()
			ifi, ok := lastIf(x)
			if !ok || len(d.Preds) != 1 || x.Succs[0] != d {
				continue
			}
			if isEOFTest(ifi.Cond, srcReads) {
				good = true
			}
		}
		if !good {
			// decided on values: assume no source read reported io.EOF (every such test is false); the store must
			// then be unreachable, whichever way the tests are arranged or repeated
			saved := condEval
			condEval = func(v ssa.Value) (bool, bool) {
				if isEOFTest(v, srcReads) {
					return false, true
				}
				if bo, ok := v.(*ssa.BinOp); ok && bo.Op == token.NEQ {
					eq := *bo
					eq.Op = token.EQL
					if isEOFTest(&eq, srcReads) {
						return true, true
					}
				}
				return false, false
			}
			good = !reach([]*ssa.BasicBlock{f.Blocks[0]}, deadEdges(f))[b]
			condEval = saved
		}
		if !good {
			okSet, pos = false, st.Pos()
		}
	})
	c.Check(okSet && nset > 0, "G-C19-eof", fn, "eof flag set only when the source returned io.EOF", "", "the end-of-source flag is set without the source having reported io.EOF", pos)
	// padinit: every pad read is dominated by a newPadding call
	okInit := true
	for _, in := range padReads {
		dom := false
		for _, nc := range npCalls {
			if instrDominates(nc, in) {
				dom = true
			}
		}
		if !dom {
			okInit, pos = false, in.Pos()
		}
	}
	c.Check(okInit, "G-C19-padinit", fn, "pad source created before it is read", "", "p.padding.Read can execute without newPadding having run on that path (nil dereference when EOF arrives together with a full buffer)", pos)
	// counter: readed += n where n is the count returned by a source read; no other stores
	okCnt := true
	ncnt := 0
	instrsOf(f, func(_ *ssa.BasicBlock, in ssa.Instruction) {
		st, isSt := in.(*ssa.Store)
		if !isSt {
			return
		}
		fa, isFA := st.Addr.(*ssa.FieldAddr)
		if !isFA || fa.X != ssa.Value(recv) || fieldName(fa.X.Type(), fa.Field) != "readed" {
			return
		}
		ncnt++
		bo, isB := st.Val.(*ssa.BinOp)
		if !isB || bo.Op != token.ADD || !fieldLoad(bo.X, recv, "readed") {
			okCnt = false
			return
		}
		ex, isEx := stripConvAll(bo.Y).(*ssa.Extract)
		isSrc := false
		if isEx && ex.Index == 0 {
			for _, sr := range srcReads {
				if ex.Tuple == ssa.Value(sr) {
					isSrc = true
				}
			}
		}
		if !isSrc {
			okCnt = false
		}
	})
	c.Check(okCnt && ncnt > 0, "K-C19-pad", fn, "byte counter += count returned by the source", "", "the counter that determines the pad length does not accumulate exactly the source's byte counts", f.Pos())
	// every count is added before the pad is created or the source is read again: with the counter
	// updates removed from the graph, neither newPadding/pad reads nor the next source read are reachable
	// from a source read
	for _, sr := range srcReads {
		var stores []ssa.Instruction
		instrsOf(f, func(_ *ssa.BasicBlock, in ssa.Instruction) {
			st, isSt := in.(*ssa.Store)
			if !isSt {
				return
			}
			fa, isFA := st.Addr.(*ssa.FieldAddr)
			if !isFA || fa.X != ssa.Value(recv) || fieldName(fa.X.Type(), fa.Field) != "readed" {
				return
			}
			if bo, isB := st.Val.(*ssa.BinOp); isB {
				if ex, isEx := stripConvAll(bo.Y).(*ssa.Extract); isEx && ex.Tuple == ssa.Value(sr) {
					stores = append(stores, st)
				}
			}
		})
		var targets []ssa.Instruction
		for _, x := range padReads {
			targets = append(targets, x)
		}
		for _, x := range npCalls {
			targets = append(targets, x)
		}
		targets = append(targets, sr)
		bad := ""
		var badPos token.Pos
		for _, t := range targets {
			if reachesAvoidingAll(sr, t, stores) {
				bad = "after a source read, " + c.P.pos(t.Pos()) + " is reachable without the returned count having been added to the byte counter (bytes delivered together with io.EOF would be left out of the pad computation)"
				badPos = t.Pos()
			}
		}
		c.Check(bad == "", "K-C19-pad", fn, "every source count is added before the pad is computed or the source is read again", "", bad, badPos)
	}
	// source errors other than EOF are returned
	spec, _ := defaultResultSpec(f)
	_ = spec
}

// isEOFTest: cond is errors.Is(err, io.EOF) or err == io.EOF with err from one of reads
func isEOFTest(cond ssa.Value, reads []*ssa.Call) bool {
	fromRead := func(v ssa.Value) bool {
		seen := map[ssa.Value]bool{}
		var walk func(v ssa.Value) bool
		walk = func(v ssa.Value) bool {
			if seen[v] {
				return false
			}
			seen[v] = true
			switch x := v.(type) {
			case *ssa.Extract:
				for _, r := range reads {
					if x.Tuple == ssa.Value(r) && x.Index == 1 {
						return true
					}
				}
			case *ssa.Phi:
				for _, e := range x.Edges {
					if walk(e) {
						return true
					}
				}
			}
			return false
		}
		return walk(v)
	}
	isEOF := func(v ssa.Value) bool {
		g := globalOf(v)
		return g != nil && g.Name() == "EOF" && g.Pkg != nil && g.Pkg.Pkg.Path() == "io"
	}
	if call, ok := cond.(*ssa.Call); ok && calleeID(&call.Call) == "errors.Is" {
		return fromRead(call.Call.Args[0]) && isEOF(call.Call.Args[1])
	}
	if bo, ok := cond.(*ssa.BinOp); ok && bo.Op == token.EQL {
		return (fromRead(bo.X) && isEOF(bo.Y)) || (fromRead(bo.Y) && isEOF(bo.X))
	}
	return false
}

func c19NewPadding(c *Ctx, f *ssa.Function) {
	fn := fname(f)
	recv := f.Params[0]
	names := map[ssa.Value]string{recv: "p"}
	be := newBigEnv(f, names)
	var st *ssa.Store
	instrsOf(f, func(_ *ssa.BasicBlock, in ssa.Instruction) {
		if s, ok := in.(*ssa.Store); ok {
			if fa, ok := s.Addr.(*ssa.FieldAddr); ok && fa.X == ssa.Value(recv) && fieldName(fa.X.Type(), fa.Field) == "padding" {
				st = s
			}
		}
	})
	if st == nil {
		c.Violated("K-C19-pad", fn, "pad source creation", "newPadding does not assign the pad source", f.Pos())
		return
	}
	got := be.bytesOf(st.Val, st).String()
	size := "sub(p.blockSize,rem(p.readed,p.blockSize))"
	want := "call:bytes.NewReader(call:bytes.Repeat(lit(trunc8(" + size + "))," + size + "))"
	// MakeInterface wrapper is transparent in canon? be.plain renders MakeInterface via cenv; strip
	got = strings.TrimPrefix(got, "conv(")
	c.Check(strings.Contains(got, want), "K-C19-pad", fn, "pad = size bytes of value size, size = blockSize - readed mod blockSize", "", "pad source is "+got+", expected "+want, st.Pos())
	// created once: guarded by padding != nil -> return
	once := false
	for _, ifi := range ifsOf(f) {
		if bo, ok := ifi.Cond.(*ssa.BinOp); ok && (bo.Op == token.NEQ || bo.Op == token.EQL) && isNilConst(bo.Y) && fieldLoad(bo.X, recv, "padding") {
			// the store must be on the nil side only
			nilSucc := ifi.Block().Succs[1]
			if bo.Op == token.EQL {
				nilSucc = ifi.Block().Succs[0]
			}
			if nilSucc.Dominates(st.Block()) || nilSucc == st.Block() {
				once = true
			}
		}
	}
	c.Check(once, "K-C19-pad", fn, "pad source created only once", "", "newPadding replaces an existing pad source (a second call would restart the pad)", st.Pos())
}

func c19Writer(c *Ctx, f *ssa.Function) {
	fn := fname(f)
	recv := f.Params[0]
	names := map[ssa.Value]string{recv: "p", f.Params[1]: "buff"}
	be := newBigEnv(f, names)
	var cw, ow *ssa.Call
	for _, ci := range allCalls(f) {
		call, ok := ci.(*ssa.Call)
		if !ok {
			continue
		}
		id := calleeID(&call.Call)
		if id == "(*bytes.Buffer).Write" {
			cw = call
		}
		if call.Call.IsInvoke() && call.Call.Method.Name() == "Write" && fieldLoad(call.Call.Value, recv, "out") {
			ow = call
		}
	}
	okBuf := cw != nil && be.bytesOf(cw.Call.Args[1], cw).String() == "buff"
	c.Check(okBuf, "K-C19-writer", fn, "all written bytes enter the cache", "", "Write does not append the whole argument to its cache", f.Pos())
	if ow == nil {
		c.Violated("K-C19-writer", fn, "excess forwarded to the underlying writer", "Write never writes to the underlying writer", f.Pos())
		return
	}
	got := be.bytesOf(ow.Call.Args[0], ow).String()
	L := "call:(*bytes.Buffer).Len(p.cache)"
	want := "call:(*bytes.Buffer).Next(p.cache,sub(" + L + ",p.blockSize))"
	conds := dominatingConds(be, ow.Block())
	guard := conds["gt("+L+",p.blockSize)=true"] || conds["ge("+L+",p.blockSize)=true"] || conds["le("+L+",p.blockSize)=false"]
	c.Check(got == want && guard, "K-C19-writer", fn, "forwards cache.Next(Len - blockSize) when Len > blockSize", "", "the writer forwards "+got+" (guarded: "+fmt.Sprint(guard)+"); it must pass on everything except the last blockSize bytes", ow.Pos())
	spec, _ := defaultResultSpec(f)
	g := evalReject(c.P, f, errCheckAtoms(f, func(cl *ssa.Call) bool { return cl == ow }, "write error"), spec)
	c.Check(g.OK, "K-C19-writer", fn, "errors of the underlying writer are returned", g.Why, g.Why, g.Pos)
}

func c19Final(c *Ctx, f *ssa.Function) {
	recv := f.Params[0]
	var data ssa.Value
	for _, ci := range allCalls(f) {
		if call, ok := ci.(*ssa.Call); ok && calleeID(&call.Call) == "(*bytes.Buffer).Bytes" {
			data = call
		}
	}
	if data == nil {
		c.Undecided("T-UNPAD", fname(f), "final block", "Final does not take the cached bytes with Bytes()", f.Pos())
		return
	}
	checkUnpadDyn(c, "T-UNPAD", f, data, 0, func(v ssa.Value) bool { return fieldLoad(v, recv, "blockSize") })
	// the block minus the pad is written
	names := map[ssa.Value]string{recv: "p", data: "b"}
	be := newBigEnv(f, names)
	ok := false
	for _, ci := range allCalls(f) {
		call, isC := ci.(*ssa.Call)
		if isC && call.Call.IsInvoke() && call.Call.Method.Name() == "Write" && fieldLoad(call.Call.Value, recv, "out") {
			s := be.bytesOf(call.Call.Args[0], call).String()
			ok = s == "slice(b,_,sub(len(b),idx(b,len(b)-1)))"
			if !ok {
				dbg("Final writes %s", s)
			}
		}
	}
	c.Check(ok, "T-UNPAD", fname(f), "writes the final block without its pad", "", "Final does not write b[:len(b)-pad]", f.Pos())
}

func c19Stream(c *Ctx, f *ssa.Function) {
	fn := fname(f)
	// the padding check happens in Final: its error is the only sign of a bad final block, so it must be tested and
	// returned — not discarded by calling Final in a defer or as a bare statement
	for _, ci := range allCalls(f) {
		if sc := ci.Common().StaticCallee(); sc != nil && sc.Name() == "Final" && inRepo(sc) {
			if _, isDefer := ci.(*ssa.Defer); isDefer {
				c.Violated("G-C19-final", fn, "the error of Final is returned", "Final is called in a defer: its error (bad padding in the last block) is discarded and the function reports success", ci.Pos())
				continue
			}
			if call, isCall := ci.(*ssa.Call); isCall {
				spec, _ := defaultResultSpec(f)
				g := evalReject(c.P, f, errCheckAtoms(f, func(cl *ssa.Call) bool { return cl == call }, "Final error"), spec)
				if !g.OK {
					// Final's result returned directly is as good as a tested one
					direct := false
					for _, u := range *call.Referrers() {
						if _, isRet := u.(*ssa.Return); isRet {
							direct = true
						}
					}
					if direct {
						c.Holds("G-C19-final", fn, "the error of Final is returned", "returned directly", call.Pos())
						continue
					}
				}
				c.Check(g.OK, "G-C19-final", fn, "the error of Final is returned", g.Why, "a final block with invalid padding must make the function fail: "+g.Why, call.Pos())
			}
		}
	}
	var cb, rf *ssa.Call
	for _, ci := range allCalls(f) {
		call, ok := ci.(*ssa.Call)
		if !ok {
			continue
		}
		if call.Call.IsInvoke() && call.Call.Method.Name() == "CryptBlocks" {
			cb = call
		}
		id := calleeID(&call.Call)
		if id == "io.ReadFull" || id == "io.ReadAtLeast" {
			rf = call
		}
	}
	if cb == nil {
		c.Undecided("B-PRE-C19", fn, "CryptBlocks call", "no CryptBlocks call", f.Pos())
		return
	}
	// src = bufIn[:n] with n, _ = io.ReadFull(·, bufIn)
	okSrc := false
	var nVal ssa.Value
	if sl, ok := cb.Call.Args[1].(*ssa.Slice); ok && sl.Low == nil && sl.High != nil && rf != nil {
		if ex, ok := sl.High.(*ssa.Extract); ok && ex.Tuple == ssa.Value(rf) && ex.Index == 0 && sl.X == rf.Call.Args[1] {
			okSrc = true
			nVal = ex
		}
	}
	c.Check(okSrc, "B-PRE-C19", fn, "CryptBlocks input filled by io.ReadFull", "", "the bytes given to CryptBlocks come from a single Read (any length) instead of io.ReadFull into the same buffer", cb.Pos())
	// a caller-supplied reader may return any number of bytes per Read: only a read that fills the whole buffer (or hits
	// the end of the source) keeps the chunks on block boundaries. io.ReadAtLeast is that only with min == len(buf).
	if rf != nil && calleeID(&rf.Call) == "io.ReadAtLeast" {
		_, fromCaller := rf.Call.Args[0].(*ssa.Parameter)
		if mi, isMI := rf.Call.Args[0].(*ssa.MakeInterface); isMI {
			_, fromCaller = mi.X.(*ssa.Parameter)
		}
		full := isLenOf(rf.Call.Args[2], func(v ssa.Value) bool { return v == rf.Call.Args[1] })
		if fromCaller {
			c.Check(full, "B-PRE-C19", fn, "a caller-supplied source is read in whole buffers", "", "io.ReadAtLeast with a minimum below len(buf) may return a chunk that is not a multiple of the block size before the source ends: a valid stream delivered in odd-sized pieces is rejected (or, without the length test, split inside a block)", rf.Pos())
		}
	}
	if nVal == nil {
		return
	}
	// guard n % BlockSize() == 0
	spec, _ := defaultResultSpec(f)
	var atoms []Atom
	for _, ifi := range ifsOf(f) {
		bo, ok := ifi.Cond.(*ssa.BinOp)
		if !ok || (bo.Op != token.NEQ && bo.Op != token.EQL) {
			continue
		}
		rem, ok := bo.X.(*ssa.BinOp)
		if !ok || rem.Op != token.REM || rem.X != nVal {
			continue
		}
		if k, ok := constInt(bo.Y); !ok || k != 0 {
			continue
		}
		if call, ok := rem.Y.(*ssa.Call); !ok || !call.Call.IsInvoke() || call.Call.Method.Name() != "BlockSize" {
			continue
		}
		ps := 1
		if bo.Op == token.EQL {
			ps = 0
		}
		atoms = append(atoms, Atom{ifi, ps, "n % BlockSize() == 0"})
	}
	g := evalGuardSinks(c.P, f, atoms, spec, []ssa.Instruction{cb})
	c.Check(g.OK, "B-PRE-C19", fn, "only whole blocks reach CryptBlocks", g.Why, "CryptBlocks panics unless its input is a multiple of the block size; a partial trailing block must be an error: "+g.Why, g.Pos)
	// dst at least as long as src
	lb := &LB{p: c.P, f: f, UsedContracts: map[string]bool{}}
	okDst := lb.prove([]cons{ge(lb.lenLin(cb.Call.Args[0]), lb.lenLin(cb.Call.Args[1]))}, cb.Block(), nil, map[lvar]lin{}, 0)
	c.Check(okDst, "B-PRE-C19", fn, "len(dst) >= len(src) for CryptBlocks", "", "the destination buffer may be shorter than the source", cb.Pos())
}

// reachesAvoidingAll: control can flow from just after instruction a to instruction b without executing
// any instruction of avoid.
func reachesAvoidingAll(a, b ssa.Instruction, avoid []ssa.Instruction) bool {
	isAvoid := func(in ssa.Instruction) bool {
		for _, x := range avoid {
			if x == in {
				return true
			}
		}
		return false
	}
	// walk instruction-wise: state = (block, index)
	type st struct {
		b *ssa.BasicBlock
		i int
	}
	seen := map[st]bool{}
	var stack []st
	stack = append(stack, st{a.Block(), instrIndex(a) + 1})
	for len(stack) > 0 {
		cur := stack[len(stack)-1]
		stack = stack[:len(stack)-1]
		if seen[cur] {
			continue
		}
		seen[cur] = true
		blk := cur.b
		stopped := false
		for i := cur.i; i < len(blk.Instrs); i++ {
			in := blk.Instrs[i]
			if in == b {
				return true
			}
			if isAvoid(in) {
				stopped = true
				break
			}
		}
		if stopped {
			continue
		}
		for _, s := range blk.Succs {
			stack = append(stack, st{s, 0})
		}
	}
	return false
}
