package main

// canon.go — canonical expression forms of SSA values, used to compare the
// code's arithmetic with the standard's formulas modulo naming, helper
// inlining, associativity/commutativity and conversion noise. Purely
// syntactic normalisation: nothing is executed.

import (
	"fmt"
	"go/token"
	"go/types"
	"sort"
	"strings"

	"golang.org/x/tools/go/ssa"
)

type X struct {
	Op   string // "leaf", "const", or operator name
	Leaf string
	Args []*X
}

func L(name string) *X            { return &X{Op: "leaf", Leaf: name} }
func K(v uint64) *X               { return &X{Op: "const", Leaf: fmt.Sprintf("0x%x", v)} }
func Op(op string, args ...*X) *X { return &X{Op: op, Args: args} }

var commutative = map[string]bool{"xor": true, "add": true, "or": true, "and": true, "mul": true}

func (x *X) String() string {
	switch x.Op {
	case "leaf", "const":
		return x.Leaf
	}
	args := x.Args
	if commutative[x.Op] {
		// flatten
		var flat []*X
		var fl func(a *X)
		fl = func(a *X) {
			if a.Op == x.Op {
				for _, b := range a.Args {
					fl(b)
				}
			} else {
				flat = append(flat, a)
			}
		}
		for _, a := range args {
			fl(a)
		}
		strs := make([]string, len(flat))
		for i, a := range flat {
			strs[i] = a.String()
		}
		sort.Strings(strs)
		return x.Op + "(" + strings.Join(strs, ",") + ")"
	}
	strs := make([]string, len(args))
	for i, a := range args {
		strs[i] = a.String()
	}
	return x.Op + "(" + strings.Join(strs, ",") + ")"
}

type canonEnv struct {
	names map[ssa.Value]string    // caller-named leaves (phis, params, arrays)
	subst map[ssa.Value]ssa.Value // parameter substitution for inlined helpers
	outer *canonEnv               // env in which substituted args are canonicalised
	fresh int
	depth int
	// bool3: if set, pure bitwise expressions over named leaves are replaced by their truth table
	bool3 bool
	// rangeOf: a value (a loop counter) known to lie in [lo, hi): a phi that joins the two arms of a test of that value
	// against a constant takes the input of the arm the range selects (`if j < 16 { t = T0 } else { t = T1 }`)
	rangeOf *ssa.Phi
	rangeLo int64
	rangeHi int64
}

// pickPhi: the input of phi selected by the range assumption, if the phi joins a diamond on `rangeOf op K`
func (e *canonEnv) pickPhi(phi *ssa.Phi) (ssa.Value, bool) {
	var env *canonEnv
	for x := e; x != nil; x = x.outer {
		if x.rangeOf != nil {
			env = x
			break
		}
	}
	if env == nil || len(phi.Edges) != 2 {
		return nil, false
	}
	b := phi.Block()
	d := b.Idom()
	if d == nil || len(d.Succs) != 2 {
		return nil, false
	}
	ifi, ok := d.Instrs[len(d.Instrs)-1].(*ssa.If)
	if !ok {
		return nil, false
	}
	bo, ok := ifi.Cond.(*ssa.BinOp)
	if !ok {
		return nil, false
	}
	op := bo.Op
	var k int64
	if kk, isK := constInt(bo.Y); isK && stripConvAll(bo.X) == ssa.Value(env.rangeOf) {
		k = kk
	} else if kk, isK := constInt(bo.X); isK && stripConvAll(bo.Y) == ssa.Value(env.rangeOf) {
		k = kk
		switch op {
		case token.LSS:
			op = token.GTR
		case token.LEQ:
			op = token.GEQ
		case token.GTR:
			op = token.LSS
		case token.GEQ:
			op = token.LEQ
		}
	} else {
		return nil, false
	}
	lo, hi := env.rangeLo, env.rangeHi-1 // inclusive
	truth := -1
	switch op {
	case token.LSS:
		if hi < k {
			truth = 1
		} else if lo >= k {
			truth = 0
		}
	case token.LEQ:
		if hi <= k {
			truth = 1
		} else if lo > k {
			truth = 0
		}
	case token.GTR:
		if lo > k {
			truth = 1
		} else if hi <= k {
			truth = 0
		}
	case token.GEQ:
		if lo >= k {
			truth = 1
		} else if hi < k {
			truth = 0
		}
	}
	if truth < 0 {
		return nil, false
	}
	taken := d.Succs[1-truth] // Succs[0] is the true successor
	for i, p := range b.Preds {
		if (p == d && taken == b) || (taken != b && (taken == p || taken.Dominates(p))) {
			// the other predecessor must belong to the other arm
			return phi.Edges[i], true
		}
	}
	return nil, false
}

func newCanon(names map[ssa.Value]string) *canonEnv {
	return &canonEnv{names: names, bool3: true}
}

func (e *canonEnv) name(v ssa.Value) (string, bool) {
	for env := e; env != nil; env = env.outer {
		if n, ok := env.names[v]; ok {
			return n, true
		}
	}
	return "", false
}

var canonBinOps = map[token.Token]string{
	token.XOR: "xor", token.ADD: "add", token.OR: "or", token.AND: "and", token.MUL: "mul",
	token.SUB: "sub", token.SHL: "shl", token.SHR: "shr", token.REM: "rem", token.QUO: "quo", token.AND_NOT: "andnot",
	token.EQL: "eq", token.NEQ: "ne", token.LSS: "lt", token.LEQ: "le", token.GTR: "gt", token.GEQ: "ge",
}

func (e *canonEnv) canon(v ssa.Value) *X {
	if e.depth > 60 {
		return L("?deep")
	}
	e.depth++
	defer func() { e.depth-- }()
	if n, ok := e.names[v]; ok {
		return L(n)
	}
	if s, ok := e.subst[v]; ok {
		return e.outer.canon(s)
	}
	if n, ok := e.name(v); ok {
		return L(n)
	}
	if c, ok := v.(*ssa.Const); ok {
		if i, ok := constInt(v); ok {
			u := uint64(i)
			if b, ok := c.Type().Underlying().(*types.Basic); ok {
				switch b.Kind() {
				case types.Uint32, types.Int32:
					u &= 0xffffffff
				case types.Uint8, types.Int8:
					u &= 0xff
				case types.Uint16, types.Int16:
					u &= 0xffff
				}
			}
			return K(u)
		}
		return L("const:" + c.String())
	}
	// pure bitwise expression over named leaves -> truth table
	if e.bool3 {
		if tt, leaves, ok := e.truthTable(v); ok && len(leaves) >= 2 {
			args := make([]*X, len(leaves))
			for i, l := range leaves {
				args[i] = L(l)
			}
			return Op(fmt.Sprintf("tt%02x", tt), args...)
		}
	}
	if x, amt, ok := e.rotl(v); ok {
		return Op("rotl", e.canon(x), e.canonAmt(amt))
	}
	switch x := v.(type) {
	case *ssa.BinOp:
		if name, ok := canonBinOps[x.Op]; ok {
			return Op(name, e.canon(x.X), e.canon(x.Y))
		}
	case *ssa.UnOp:
		switch x.Op {
		case token.XOR:
			return Op("not", e.canon(x.X))
		case token.SUB:
			return Op("neg", e.canon(x.X))
		case token.MUL:
			return e.canonLoad(x.X)
		case token.NOT:
			return Op("lnot", e.canon(x.X))
		}
	case *ssa.Convert:
		if isIntType(x.Type()) && isIntType(x.X.Type()) {
			tb := x.Type().Underlying().(*types.Basic)
			sb := x.X.Type().Underlying().(*types.Basic)
			if intBits(tb) < intBits(sb) {
				return Op(fmt.Sprintf("trunc%d", intBits(tb)), e.canon(x.X))
			}
			return e.canon(x.X)
		}
		return Op("conv", e.canon(x.X))
	case *ssa.ChangeType:
		return e.canon(x.X)
	case *ssa.Index:
		return Op("idx", e.canon(x.X), e.canonIdx(x.Index))
	case *ssa.Slice:
		lo, hi := L("_"), L("_")
		if x.Low != nil {
			lo = e.canonIdx(x.Low)
		}
		if x.High != nil {
			hi = e.canonIdx(x.High)
		}
		return Op("slice", e.canon(x.X), lo, hi)
	case *ssa.Call:
		return e.canonCall(x)
	case *ssa.Extract:
		return Op(fmt.Sprintf("extract%d", x.Index), e.canon(x.Tuple))
	case *ssa.Phi:
		if v, ok := e.pickPhi(x); ok {
			return e.canon(v)
		}
		e.fresh++
		return L(fmt.Sprintf("?phi%d", e.fresh))
	case *ssa.Parameter:
		return L("?param:" + pname(x))
	case *ssa.Global:
		return L("global:" + x.Name())
	case *ssa.Function:
		return L("func:" + strings.ReplaceAll(x.String(), modPath+"/", ""))
	case *ssa.Alloc:
		return L("?alloc:" + shortType(x.Type()))
	case *ssa.FieldAddr:
		return Op("field:"+fieldName(x.X.Type(), x.Field), e.canon(x.X))
	case *ssa.IndexAddr:
		return Op("addr", e.canon(x.X), e.canonIdx(x.Index))
	}
	return L("?" + fmt.Sprintf("%T", v))
}

func intBits(b *types.Basic) int {
	switch b.Kind() {
	case types.Int8, types.Uint8:
		return 8
	case types.Int16, types.Uint16:
		return 16
	case types.Int32, types.Uint32:
		return 32
	}
	return 64
}

func fieldName(t types.Type, i int) string {
	st := derefStruct(t)
	if st != nil && i < st.NumFields() {
		return st.Field(i).Name()
	}
	return fmt.Sprint(i)
}

// canonAmt: rotation amount (strip conversions and mod 32)
func (e *canonEnv) canonAmt(v ssa.Value) *X {
	v = stripConvAll(v)
	if c, ok := constInt(v); ok {
		return K(uint64(((c % 32) + 32) % 32))
	}
	// a 32-bit rotation only depends on the amount modulo 32: k%32, k&31 and integer conversions of k are k
	if s, ok := e.subst[v]; ok && e.outer != nil {
		return e.outer.canonAmt(s)
	}
	if b, ok := v.(*ssa.BinOp); ok {
		if k, isK := constInt(b.Y); isK && (b.Op == token.REM && k == 32 || b.Op == token.AND && k == 31) {
			if bt, isB := b.X.Type().Underlying().(*types.Basic); isB && bt.Info()&types.IsUnsigned != 0 || b.Op == token.AND {
				return e.canonAmt(b.X)
			}
		}
	}
	return e.canon(v)
}

// canonIdx: affine canonical form of an index expression
func (e *canonEnv) canonIdx(v ssa.Value) *X {
	a := e.affine(v)
	var terms []string
	for val, c := range a.coef {
		n := e.canon(val).String()
		if c == 1 {
			terms = append(terms, n)
		} else {
			terms = append(terms, fmt.Sprintf("%d*%s", c, n))
		}
	}
	sort.Strings(terms)
	s := strings.Join(terms, "+")
	if a.k != 0 || s == "" {
		if s != "" && a.k > 0 {
			s += "+"
		}
		s += fmt.Sprint(a.k)
	}
	return L(s)
}

// affine with parameter substitution
func (e *canonEnv) affine(v ssa.Value) affine {
	if s, ok := e.subst[v]; ok && e.outer != nil {
		return e.outer.affine(s)
	}
	if c, ok := constInt(v); ok {
		return affine{coef: map[ssa.Value]int64{}, k: c, ok: true}
	}
	switch x := v.(type) {
	case *ssa.BinOp:
		switch x.Op {
		case token.ADD:
			return affAdd(e.affine(x.X), e.affine(x.Y), 1)
		case token.SUB:
			return affAdd(e.affine(x.X), e.affine(x.Y), -1)
		case token.MUL:
			a, b := e.affine(x.X), e.affine(x.Y)
			if len(a.coef) == 0 {
				return affScale(b, a.k)
			}
			if len(b.coef) == 0 {
				return affScale(a, b.k)
			}
		}
	case *ssa.Convert:
		if isIntType(x.X.Type()) && isIntType(x.Type()) {
			return e.affine(x.X)
		}
	}
	return affine{coef: map[ssa.Value]int64{v: 1}, ok: true}
}

func (e *canonEnv) canonLoad(addr ssa.Value) *X {
	switch a := addr.(type) {
	case *ssa.IndexAddr:
		return Op("idx", e.canonBase(a.X), e.canonIdx(a.Index))
	case *ssa.FieldAddr:
		return Op("field:"+fieldName(a.X.Type(), a.Field), e.canon(a.X))
	case *ssa.Global:
		return L("global:" + a.Name())
	}
	return Op("load", e.canon(addr))
}

func (e *canonEnv) canonBase(v ssa.Value) *X {
	if n, ok := e.name(v); ok {
		return L(n)
	}
	if s, ok := e.subst[v]; ok {
		return e.outer.canonBase(s)
	}
	switch x := v.(type) {
	case *ssa.Alloc:
		return L("?alloc:" + shortType(x.Type()))
	case *ssa.Global:
		return L("global:" + x.Name())
	case *ssa.FieldAddr:
		return Op("field:"+fieldName(x.X.Type(), x.Field), e.canon(x.X))
	}
	return e.canon(v)
}

// inlinable: single block, only pure value instructions and a Return.
func inlinable(f *ssa.Function) bool {
	if f == nil || len(f.Blocks) != 1 || !inRepo(f) {
		return false
	}
	for _, in := range f.Blocks[0].Instrs {
		switch x := in.(type) {
		case *ssa.BinOp, *ssa.UnOp, *ssa.Convert, *ssa.ChangeType, *ssa.Return, *ssa.IndexAddr, *ssa.FieldAddr, *ssa.Index, *ssa.DebugRef:
			if u, ok := x.(*ssa.UnOp); ok && u.Op == token.ARROW {
				return false
			}
		case *ssa.Call:
			if _, isBuiltin := x.Call.Value.(*ssa.Builtin); isBuiltin {
				continue
			}
			if sc := x.Call.StaticCallee(); sc == nil || sc == f {
				return false
			}
		default:
			return false
		}
	}
	return true
}

func (e *canonEnv) canonCall(c *ssa.Call) *X {
	cc := &c.Call
	if bi, ok := cc.Value.(*ssa.Builtin); ok {
		args := make([]*X, len(cc.Args))
		for i, a := range cc.Args {
			args[i] = e.canon(a)
		}
		return Op(bi.Name(), args...)
	}
	callee := cc.StaticCallee()
	if callee != nil && inlinable(callee) && e.depth < 40 {
		ret := callee.Blocks[0].Instrs[len(callee.Blocks[0].Instrs)-1].(*ssa.Return)
		if len(ret.Results) == 1 {
			sub := &canonEnv{names: map[ssa.Value]string{}, subst: map[ssa.Value]ssa.Value{}, outer: e, depth: e.depth, bool3: e.bool3}
			for i, p := range callee.Params {
				if i < len(cc.Args) {
					sub.subst[p] = cc.Args[i]
				}
			}
			return sub.canon(ret.Results[0])
		}
	}
	id := calleeID(cc)
	switch id {
	case "(encoding/binary.bigEndian).Uint32":
		return Op("be32", e.canon(cc.Args[1]))
	case "(encoding/binary.bigEndian).Uint64":
		return Op("be64", e.canon(cc.Args[1]))
	case "(encoding/binary.littleEndian).Uint32":
		return Op("le32", e.canon(cc.Args[1]))
	}
	args := make([]*X, len(cc.Args))
	for i, a := range cc.Args {
		args[i] = e.canon(a)
	}
	return Op("call:"+strings.ReplaceAll(id, modPath+"/", ""), args...)
}

// rotl: recognises rotate-left by helper call, math/bits or inline shifts.
// For helper calls the helper must reduce the amount mod 32 unless the amount
// is a constant < 32.
func (e *canonEnv) rotl(v ssa.Value) (x ssa.Value, amt ssa.Value, ok bool) {
	if call, isCall := v.(*ssa.Call); isCall {
		callee := call.Call.StaticCallee()
		if callee == nil {
			return nil, nil, false
		}
		args := call.Call.Args
		if callee.Signature.Recv() != nil && len(args) == 3 {
			args = args[1:]
		}
		if len(args) != 2 {
			return nil, nil, false
		}
		if calleeID(&call.Call) == "math/bits.RotateLeft32" {
			return args[0], args[1], true
		}
		if isRotlHelper(callee) {
			if rotlHelperMods[callee] {
				return args[0], args[1], true
			}
			if c, isC := constInt(stripConvAll(args[1])); isC && c >= 0 && c < 32 {
				return args[0], args[1], true
			}
		}
		return nil, nil, false
	}
	if b, isB := v.(*ssa.BinOp); isB && (b.Op == token.OR || b.Op == token.XOR || b.Op == token.ADD) {
		l, lok := b.X.(*ssa.BinOp)
		r, rok := b.Y.(*ssa.BinOp)
		if lok && rok {
			if l.Op == token.SHR {
				l, r = r, l
			}
			if l.Op == token.SHL && r.Op == token.SHR {
				lx, rx := l.X, r.X
				if s, ok := e.subst[lx]; ok {
					lx = s
				}
				if s, ok := e.subst[rx]; ok {
					rx = s
				}
				a, aok := constInt(l.Y)
				bb, bok := constInt(r.Y)
				if aok && bok && a+bb == 32 && lx == rx && isU32(l.X.Type()) {
					return l.X, l.Y, true
				}
			}
		}
	}
	return nil, nil, false
}

func isU32(t types.Type) bool {
	b, ok := t.Underlying().(*types.Basic)
	return ok && b.Kind() == types.Uint32
}

var rotlHelperMods = map[*ssa.Function]bool{}

// truthTable: evaluates a pure bitwise expression over at most 3 distinct named
// leaves; returns table bits (bit i = value for assignment i, leaf order sorted by name).
func (e *canonEnv) truthTable(v ssa.Value) (uint8, []string, bool) {
	leaves := map[string]bool{}
	if !e.collectBitLeaves(v, leaves, 0) {
		return 0, nil, false
	}
	if len(leaves) == 0 || len(leaves) > 3 {
		return 0, nil, false
	}
	var names []string
	for n := range leaves {
		names = append(names, n)
	}
	sort.Strings(names)
	var tt uint8
	for asg := 0; asg < 1<<uint(len(names)); asg++ {
		env := map[string]bool{}
		for i, n := range names {
			env[n] = asg&(1<<uint(i)) != 0
		}
		if e.evalBit(v, env) {
			tt |= 1 << uint(asg)
		}
	}
	return tt, names, true
}

func (e *canonEnv) resolve(v ssa.Value) (ssa.Value, *canonEnv) {
	env := e
	for {
		if s, ok := env.subst[v]; ok && env.outer != nil {
			v = s
			env = env.outer
			continue
		}
		return v, env
	}
}

func (e *canonEnv) collectBitLeaves(v ssa.Value, out map[string]bool, depth int) bool {
	if depth > 20 {
		return false
	}
	v, env := e.resolve(v)
	if n, ok := env.name(v); ok {
		out[n] = true
		return true
	}
	switch x := v.(type) {
	case *ssa.BinOp:
		switch x.Op {
		case token.AND, token.OR, token.XOR, token.AND_NOT:
			return env.collectBitLeaves(x.X, out, depth+1) && env.collectBitLeaves(x.Y, out, depth+1)
		}
	case *ssa.UnOp:
		if x.Op == token.XOR {
			return env.collectBitLeaves(x.X, out, depth+1)
		}
	case *ssa.Call:
		callee := x.Call.StaticCallee()
		if callee != nil && inlinable(callee) {
			ret := callee.Blocks[0].Instrs[len(callee.Blocks[0].Instrs)-1].(*ssa.Return)
			if len(ret.Results) == 1 {
				sub := &canonEnv{names: map[ssa.Value]string{}, subst: map[ssa.Value]ssa.Value{}, outer: env}
				for i, p := range callee.Params {
					if i < len(x.Call.Args) {
						sub.subst[p] = x.Call.Args[i]
					}
				}
				return sub.collectBitLeaves(ret.Results[0], out, depth+1)
			}
		}
	}
	return false
}

func (e *canonEnv) evalBit(v ssa.Value, asg map[string]bool) bool {
	v, env := e.resolve(v)
	if n, ok := env.name(v); ok {
		return asg[n]
	}
	switch x := v.(type) {
	case *ssa.BinOp:
		a, b := env.evalBit(x.X, asg), env.evalBit(x.Y, asg)
		switch x.Op {
		case token.AND:
			return a && b
		case token.OR:
			return a || b
		case token.XOR:
			return a != b
		case token.AND_NOT:
			return a && !b
		}
	case *ssa.UnOp:
		return !env.evalBit(x.X, asg)
	case *ssa.Call:
		callee := x.Call.StaticCallee()
		ret := callee.Blocks[0].Instrs[len(callee.Blocks[0].Instrs)-1].(*ssa.Return)
		sub := &canonEnv{names: map[ssa.Value]string{}, subst: map[ssa.Value]ssa.Value{}, outer: env}
		for i, p := range callee.Params {
			if i < len(x.Call.Args) {
				sub.subst[p] = x.Call.Args[i]
			}
		}
		return sub.evalBit(ret.Results[0], asg)
	}
	return false
}
